/-
  C15 — Token failures are retried only when safe and reported faithfully.
  Property theorems about `Relic.Model.Retry` (token/worker/retry.go, internal/httperror,
  cmdline/workercmd/handler.go) and `Relic.Model.KeyCache` (token/tokencache/cache.go).
  Helper lemmas: Relic/Proofs/Retry.lean.
-/
import Relic.Proofs.Retry
import Relic.Model.KeyCache
namespace Relic.Props.C15
open Relic Relic.Retry

/-- the number of `doOnce` calls of a run -/
abbrev attempts (r : Result × List Event) : Nat := (attemptsOf r.2).length

/-! ## the client loop -/

/-- **success_iff_some_attempt_succeeded.** For every attempt bound `n`, script and cancellation:
    the loop reports success with value `v` exactly when some attempt `i < n` succeeded with `v`
    and every earlier attempt failed with an error `httperror.Temporary` accepts.  (An attempt
    "succeeds" only if the caller's context did not end before or during it: `attemptResult`.) -/
theorem success_iff_some_attempt_succeeded (n : Nat) (outs : List Outcome) (c : Cancel) (v : Nat) :
    (doRetry n outs c).1 = .ok v ↔
      ∃ i, i < n ∧ attemptResult c outs i = .ok v ∧ ∀ j, j < i → TempFail c outs j := by
  unfold doRetry
  rw [go_ok_iff]
  constructor
  · rintro ⟨k, _, h2, h3, h4⟩
    exact ⟨k, by omega, h3, fun j hj => h4 j (Nat.zero_le _) hj⟩
  · rintro ⟨k, h2, h3, h4⟩
    exact ⟨k, Nat.zero_le _, by omega, h3, fun j _ hj => h4 j hj⟩

example : (doRetry 3 [.status 503 none, .refused, .reply ⟨7, false, false, false⟩] ⟨.never, .canceled⟩).1 = .ok 7 := by
  decide

/-- in terms of the script itself: a successful attempt is a 200 reply with empty `Err`, made
    while the caller's context was live -/
theorem attempt_ok_iff (c : Cancel) (outs : List Outcome) (i v : Nat) :
    attemptResult c outs i = .ok v ↔
      cancelledBy c i = false ∧ ∃ r, outcomeAt outs i = .reply r ∧ r.errSet = false ∧ r.value = v := by
  unfold attemptResult
  cases hc : cancelledBy c i
  · simp only [Bool.false_eq_true, if_false, true_and]
    cases ho : outcomeAt outs i with
    | reply r =>
      cases r with
      | mk value errSet retryable usage =>
        cases errSet <;> cases usage <;> simp [doOnce]
    | status code p => cases p <;> simp [doOnce]
    | _ => simp [doOnce]
  · simp

/-- **success_with_configured_retries.** The same for the configured value (repaired reading of
    `Retries`: non-positive ⇒ 5), which is what the worker token runs. -/
theorem success_with_configured_retries (r : Int) (outs : List Outcome) (c : Cancel) (v : Nat) :
    (doRetryCfg r outs c).1 = .ok v ↔
      ∃ i, i < effRetries r ∧ attemptResult c outs i = .ok v ∧ ∀ j, j < i → TempFail c outs j :=
  success_iff_some_attempt_succeeded _ outs c v

/-- a run never reports "no response, no error" (the repaired loop always makes an attempt) -/
theorem never_nilnil (r : Int) (outs : List Outcome) (c : Cancel) :
    (doRetryCfg r outs c).1 ≠ .nilnil := by
  have hpos : 0 < effRetries r := by
    unfold effRetries defaultRetries
    split <;> omega
  unfold doRetryCfg doRetry
  obtain ⟨f, hf⟩ : ∃ f, effRetries r = f + 1 := ⟨effRetries r - 1, by omega⟩
  rw [hf]
  -- whatever the first iteration does, `last` is set before the loop can run out
  suffices h : ∀ (fuel i : Nat) (last : Option AErr), (fuel = 0 → last ≠ none) →
      (go c outs fuel i last).1 ≠ .nilnil from h (f + 1) 0 none (by omega)
  intro fuel
  induction fuel with
  | zero => intro i last h; cases last <;> simp_all [go_zero, lastResult]
  | succ fuel ih =>
    intro i last _
    rcases go_cases c outs fuel i last with ⟨_, _, hg⟩ | ⟨_, ⟨v', _, hg⟩ | ⟨e, _, _, hg⟩ | ⟨e, _, _, hg⟩⟩
    · rw [hg]; intro h; cases h
    · rw [hg]; intro h; cases h
    · rw [hg]; intro h; cases h
    · rw [hg]; exact ih (i + 1) (some e) (fun _ => by simp)

/-- **attempts_bounded.** At most `n` attempts, numbered `0, 1, …` without gaps or repeats. -/
theorem attempts_bounded (n : Nat) (outs : List Outcome) (c : Cancel) :
    attempts (doRetry n outs c) ≤ n ∧
    attemptsOf (doRetry n outs c).2 = List.range (attempts (doRetry n outs c)) := by
  obtain ⟨m, hm, hr⟩ := go_attempts c outs n 0 none
  unfold attempts doRetry
  rw [hr]
  simp [List.range_eq_range', hm]

example : attempts (doRetry 2 [.status 503 none, .status 503 none, .status 503 none] ⟨.never, .canceled⟩) = 2 := by
  decide

/-- **permanent_at_once.** If attempt `i < n` is reached (all earlier ones failed temporarily) and
    fails with an error that is not temporary, the loop returns exactly that error and attempt `i`
    is the last one made. -/
theorem permanent_at_once (n : Nat) (outs : List Outcome) (c : Cancel) (i : Nat) (e : AErr)
    (hi : i < n) (hreach : ∀ j, j < i → TempFail c outs j)
    (he : attemptResult c outs i = .error e) (hp : temporary e = false) :
    (doRetry n outs c).1 = .errAttempt e ∧ attemptsOf (doRetry n outs c).2 = List.range (i + 1) := by
  have := go_permanent c outs i e he hp n 0 none (Nat.zero_le _) (by omega) (fun j _ h => hreach j h)
  simpa [doRetry, List.range_eq_range'] using this

example : (doRetry 5 [.status 500 none, .reply ⟨0, true, false, true⟩, .reply ⟨1, false, false, false⟩] ⟨.never, .canceled⟩)
    = (.errAttempt .usage, [.attempt 0, .wait 1000000000, .attempt 1]) := by decide

/-- the classes that end the loop at once, and those that do not -/
theorem temporary_table :
    (∀ s, temporary (.http s) = true ↔ s = 500 ∨ s = 502 ∨ s = 503 ∨ s = 504 ∨ s = 507) ∧
    temporary .usage = false ∧ temporary (.token false) = false ∧ temporary (.token true) = true ∧
    temporary .malformed = false ∧ temporary .eof = false ∧
    temporary .syscall = true ∧ temporary .timeout = true ∧ temporary .unexpectedEOF = true ∧
    (∀ k, temporary (.ctx k) = true) := by
  refine ⟨?_, rfl, rfl, rfl, rfl, rfl, rfl, rfl, rfl, fun _ => rfl⟩
  intro s
  simp [temporary, statusIsTemporary]
  omega

/-- **exhausted.** If all `n ≥ 1` attempts fail temporarily (and the caller does not give up), the
    loop makes exactly `n` attempts and returns the error of the last one. -/
theorem exhausted (n : Nat) (outs : List Outcome) (c : Cancel) (hn : 0 < n)
    (hlive : ∀ j, j < n → j ≠ 0 → doneAtStart c j = false)
    (hall : ∀ j, j < n → TempFail c outs j) :
    ∃ e, attemptResult c outs (n - 1) = .error e ∧ (doRetry n outs c).1 = .errAttempt e ∧
      attempts (doRetry n outs c) = n := by
  obtain ⟨e, h1, h2, h3⟩ := go_exhausted c outs n 0 none (fun j _ h => hlive j (by omega))
    (fun j _ h => hall j (by omega)) hn
  refine ⟨e, by simpa using h1, h2, ?_⟩
  unfold attempts doRetry
  rw [h3]; simp

/-- **delays.** The wait before attempt `k+1` is `delaySeq k` nanoseconds – float32 arithmetic as in
    the Go code: 1 s, then ×float32(2.718) each time, capped at float32(30 s) – and a completed run
    has waited exactly `delaySeq 0 … delaySeq (attempts-2)`, or one more wait cut short by the caller. -/
theorem delays :
    (List.range 6).map delaySeq =
      [1000000000, 2717999872, 7387523584, 20079288320, 30000001024, 30000001024] := by
  decide

theorem waits_follow_schedule (n : Nat) (outs : List Outcome) (c : Cancel) :
    waitsOf (doRetry n outs c).2 = (List.range (attempts (doRetry n outs c) - 1)).map delaySeq := by
  suffices h : ∀ (fuel i : Nat) (last : Option AErr),
      waitsOf (go c outs fuel i last).2 =
        (List.range' (i - 1) ((attemptsOf (go c outs fuel i last).2).length - (if i = 0 then 1 else 0))).map delaySeq by
    have := h n 0 none
    simpa [doRetry, attempts, List.range_eq_range'] using this
  intro fuel
  induction fuel with
  | zero => intro i last; simp [go_zero, waitsOf, attemptsOf]
  | succ fuel ih =>
    intro i last
    have wpre : ∀ (x : List Event), waitsOf (pre i ++ x) = (if i = 0 then [] else [delaySeq (i - 1)]) ++ waitsOf x := by
      intro x; unfold pre; split <;> simp [waitsOf]
    have apre : ∀ (x : List Event), attemptsOf (pre i ++ x) = attemptsOf x := by
      intro x; simp [attemptsOf_append, attemptsOf_pre]
    rcases go_cases c outs fuel i last with ⟨_, _, hg⟩ | ⟨_, ⟨v', _, hg⟩ | ⟨e, _, _, hg⟩ | ⟨e, _, _, hg⟩⟩
    · rw [hg]; simp [waitsOf, attemptsOf]
    · rw [hg]; simp only [wpre, apre]
      by_cases h0 : i = 0 <;> simp [h0, waitsOf, attemptsOf]
    · rw [hg]; simp only [wpre, apre]
      by_cases h0 : i = 0 <;> simp [h0, waitsOf, attemptsOf]
    · rw [hg]; simp only [wpre, apre, waitsOf, attemptsOf, ih (i + 1) (some e)]
      by_cases h0 : i = 0
      · simp [h0]
      · have : i - 1 + 1 = i := by omega
        simp [h0, List.range', this]

/-- **cancel_prompt.** Whenever the caller's context ends, no further attempt is started: every
    attempt after the first was started with the context live, and an attempt before or during
    which the context ended is the last attempt of the run.  (The first attempt is made
    unconditionally; `cancel_before_call` shows it fails at once without reaching the worker.) -/
theorem cancel_prompt (n : Nat) (outs : List Outcome) (c : Cancel) :
    ∀ a ∈ attemptsOf (doRetry n outs c).2,
      (a ≠ 0 → doneAtStart c a = false) ∧
      (cancelledBy c a = true → ∀ b ∈ attemptsOf (doRetry n outs c).2, b ≤ a) :=
  go_cancel c outs n 0 none

/-- context ends while attempt `k` is in flight: the run ends with that attempt; the caller gets
    the context's own error, or – when `k` was the last permitted attempt – the attempt's error,
    which wraps it.  Never success, never a wait. -/
theorem cancel_during (n : Nat) (outs : List Outcome) (kind : CtxErr) (k : Nat) (hk : k < n)
    (hreach : ∀ j, j < k → TempFail ⟨.during k, kind⟩ outs j) :
    (doRetry n outs ⟨.during k, kind⟩).1 = (if k + 1 < n then .errCtx kind else .errAttempt (.ctx kind)) ∧
    attempts (doRetry n outs ⟨.during k, kind⟩) = k + 1 := by
  have hc : cancelledBy ⟨.during k, kind⟩ k = true := by simp [cancelledBy, doneAtStart]
  have hl : k = 0 ∨ doneAtStart ⟨.during k, kind⟩ k = false := Or.inr (by simp [doneAtStart])
  obtain ⟨r1, r2⟩ := go_cancel_at _ outs k hc hl n 0 none (Nat.zero_le _) (by omega) (fun j _ h => hreach j h)
  refine ⟨by simpa [doRetry] using r1, ?_⟩
  unfold attempts doRetry
  rw [r2]; simp

/-- context already done when the operation is called: one attempt is made, which fails at once
    (and does not reach the worker: `arrives … 0 = false`); no second attempt. -/
theorem cancel_before_call (n : Nat) (outs : List Outcome) (kind : CtxErr) (hn : 0 < n) :
    (doRetry n outs ⟨.before 0, kind⟩).1 = (if 1 < n then .errCtx kind else .errAttempt (.ctx kind)) ∧
    attempts (doRetry n outs ⟨.before 0, kind⟩) = 1 ∧
    arrives ⟨.before 0, kind⟩ outs 0 = false := by
  have hc : cancelledBy ⟨.before 0, kind⟩ 0 = true := by simp [cancelledBy, doneAtStart]
  obtain ⟨r1, r2⟩ := go_cancel_at _ outs 0 hc (Or.inl rfl) n 0 none (Nat.zero_le _) (by omega) (fun j _ h => by omega)
  refine ⟨by simpa [doRetry] using r1, ?_, by simp [arrives, doneAtStart]⟩
  unfold attempts doRetry
  rw [r2]; simp

/-- context ends during the back-off wait before attempt `k ≥ 1`: the wait is cut, attempt `k` is
    not made, the caller gets the context's error. -/
theorem cancel_in_backoff (n : Nat) (outs : List Outcome) (kind : CtxErr) (k : Nat) (hk0 : 0 < k) (hk : k < n)
    (hreach : ∀ j, j < k → TempFail ⟨.before k, kind⟩ outs j) :
    (doRetry n outs ⟨.before k, kind⟩).1 = .errCtx kind ∧
    attempts (doRetry n outs ⟨.before k, kind⟩) = k := by
  have hc : doneAtStart ⟨.before k, kind⟩ k = true := by simp [doneAtStart]
  have hl : ∀ j, j < k → cancelledBy ⟨.before k, kind⟩ j = false := by
    intro j hj; simp [cancelledBy, doneAtStart]; omega
  obtain ⟨r1, r2⟩ := go_cancel_before _ outs k hk0 hc hl n 0 none (Nat.zero_le _) (by omega) (fun j _ h => hreach j h)
  refine ⟨by simpa [doRetry] using r1, ?_⟩
  unfold attempts doRetry
  rw [r2]; simp

example : doRetry 3 [.status 500 none, .reply ⟨1, false, false, false⟩] ⟨.before 1, .deadline⟩
    = (.errCtx .deadline, [.attempt 0, .cut]) := by decide

/-- **retries_nonpositive (F5).** In the pinned tree a negative `retries` makes the loop body never
    run: the function returns `(nil, nil)` – no error, no response – without any attempt, whatever
    the worker would have answered.  `Ping` then reports success; `GetKey`/`SignContext` dereference
    the nil response.  Witness `retries = -1`; the repaired reading never does this. -/
theorem retries_nonpositive :
    (∀ (r : Int) outs c, r < 0 → doRetryCfgOrig r outs c = (.nilnil, [])) ∧
    doRetryCfgOrig (-1) [.status 403 none] ⟨.never, .canceled⟩ = (.nilnil, []) ∧
    ¬ (∀ (r : Int) outs c, (doRetryCfgOrig r outs c).1 = .nilnil → 0 < attempts (doRetryCfgOrig r outs c)) := by
  have h : ∀ (r : Int) outs c, r < 0 → doRetryCfgOrig r outs c = (.nilnil, []) := by
    intro r outs c hr
    have : effRetriesOrig r = 0 := by
      unfold effRetriesOrig
      have : r ≠ 0 := by omega
      simp [this]; omega
    simp [doRetryCfgOrig, doRetry, this, go_zero, lastResult]
  refine ⟨h, h _ _ _ (by decide), ?_⟩
  intro hall
  have := hall (-1) [] ⟨.never, .canceled⟩ (by rw [h _ _ _ (by decide)])
  rw [h _ _ _ (by decide)] at this
  simp [attempts, attemptsOf] at this

/-- both readings agree on every positive value and on 0 -/
theorem effRetries_agree (r : Int) (h : 0 ≤ r) : effRetries r = effRetriesOrig r := by
  unfold effRetries effRetriesOrig
  by_cases h0 : r = 0
  · simp [h0]
  · have : ¬ r ≤ 0 := by omega
    simp [h0, this]

/-! ## the worker side -/

/-- **classification.** The `switch` of `handler.ServeHTTP`, by cases:
    key-usage ⇒ not retryable, `Usage` set, key name set; not-implemented ⇒ not retryable;
    PKCS#11 code in `fatalErrors` ⇒ retryable and the worker shuts down; other PKCS#11 codes ⇒ not
    retryable; anything else – including a *wrapped* key-usage error, which a type switch does not
    see – ⇒ retryable. -/
theorem classification :
    (∀ ie, (classify (.keyUsage ie)).retryable = false ∧ (classify (.keyUsage ie)).usage = true ∧
           (classify (.keyUsage ie)).keySet = true ∧ (classify (.keyUsage ie)).shutdown = false) ∧
    ((classify .notImplemented).retryable = false ∧ (classify .notImplemented).usage = false) ∧
    (∀ code me, isFatal code = true →
        (classify (.pkcs11 code me)).retryable = true ∧ (classify (.pkcs11 code me)).shutdown = true) ∧
    (∀ code me, isFatal code = false →
        (classify (.pkcs11 code me)).retryable = false ∧ (classify (.pkcs11 code me)).shutdown = false) ∧
    ((classify .other).retryable = true ∧ (classify .other).usage = false) ∧
    ((classify .wrappedKeyUsage).retryable = true ∧ (classify .wrappedKeyUsage).usage = false) ∧
    (∀ e, (classify e).usage = true ↔ ∃ ie, e = .keyUsage ie) := by
  refine ⟨fun ie => ⟨rfl, rfl, rfl, rfl⟩, ⟨rfl, rfl⟩, ?_, ?_, ⟨rfl, rfl⟩, ⟨rfl, rfl⟩, ?_⟩
  · intro code me h; simp [classify, h]
  · intro code me h; simp [classify, h]
  · intro e
    cases e with
    | pkcs11 code me => simp only [classify]; split <;> simp
    | keyUsage ie => simp [classify]
    | _ => simp [classify]

/-- **classification_end_to_end.** What the client's `doOnce` makes of the worker's reply, provided
    the error text is not empty: a key-usage error arrives as a key-usage error (permanent), a
    not-implemented or non-fatal PKCS#11 error as a non-retryable token error (permanent), a fatal
    PKCS#11 or unknown error as a retryable token error. -/
theorem classification_end_to_end :
    doOnce (.reply (replyOf (classify (.keyUsage false)))) = .error .usage ∧
    doOnce (.reply (replyOf (classify .notImplemented))) = .error (.token false) ∧
    (∀ code, doOnce (.reply (replyOf (classify (.pkcs11 code false)))) = .error (.token (isFatal code))) ∧
    doOnce (.reply (replyOf (classify .other))) = .error (.token true) ∧
    (∀ e, doOnce (.reply (replyOf (classify e))) = .error .usage ↔ e = .keyUsage false) := by
  refine ⟨rfl, rfl, ?_, rfl, ?_⟩
  · intro code; cases h : isFatal code <;> simp [classify, replyOf, doOnce, h]
  · intro e
    cases e with
    | pkcs11 code me => cases h : isFatal code <;> cases me <;> simp [classify, replyOf, doOnce, h]
    | keyUsage ie => cases ie <;> simp [classify, replyOf, doOnce]
    | _ => simp [classify, replyOf, doOnce]

/-- the hypothesis above is needed: with an empty error text the reply has `Err == ""` and the client
    takes it for a success (reachable only with errors whose text is empty) -/
theorem empty_error_text_reads_as_success :
    doOnce (.reply (replyOf (classify (.keyUsage true)))) = .ok 0 := rfl

/-- **cookie_gate.** A request whose `Auth-Cookie` differs from the per-process secret is answered
    403 and `handle` is not consulted (the result does not depend on it); with the right cookie the
    request is served. -/
theorem cookie_gate (secret cookie : List Nat) :
    (cookie ≠ secret → ∀ h, serve secret cookie h = .forbidden) ∧
    (cookie = secret → ∀ h, serve secret cookie h ≠ .forbidden) := by
  constructor
  · intro hne h; simp [serve, hne]
  · intro he h
    subst he
    cases h <;> simp [serve]

example : serve [97, 98] [97] (.ok ()) = .forbidden ∧ serve [97, 98] [] (.ok ()) = .forbidden := by decide

/-! ## the key cache -/
open Relic.KeyCache in
/-- **pinned_key_never_stale.** `Cache.GetKey` hands out a cached key only if it has not expired and
    either no key id is pinned in the context or the cached key has exactly the pinned id; a key
    fetched under a pin is never stored; and whatever is not served from the cache is the wrapped
    token's answer for that very pin. -/
theorem pinned_key_never_stale (expiry : Nat) (fetch : Nat → KeyId → Option KeyId) (s : State)
    (now : Nat) (want : KeyId) (name : Nat) :
    (∀ id, (getKey expiry fetch s now want name).1 = some (id, .cache) →
        (want = [] ∨ id = want) ∧ ∃ e, lookup s name = some e ∧ e.id = id ∧ now < e.expires) ∧
    (want ≠ [] → (getKey expiry fetch s now want name).2 = s) ∧
    (∀ id, (getKey expiry fetch s now want name).1 = some (id, .backend) → fetch name want = some id) ∧
    ((getKey expiry fetch s now want name).1 = none → fetch name want = none) := by
  unfold getKey
  cases hl : lookup s name with
  | none =>
    simp only
    cases hf : fetch name want with
    | none => simp
    | some id' =>
      by_cases hc : expiry > 0 ∧ want = []
      · simp [hc]
      · simp only [hc, if_false]; simp
  | some e =>
    by_cases hh : e.expires > now ∧ (want = [] ∨ want = e.id)
    · simp only [hh, and_self, if_true]
      refine ⟨?_, fun _ => by first | rfl | trivial, ?_, ?_⟩
      · intro id h
        injection h with h
        injection h with h
        subst h
        refine ⟨?_, e, rfl, rfl, hh.1⟩
        rcases hh.2 with h | h
        · exact Or.inl h
        · exact Or.inr h.symm
      · intro id h; simp at h
      · intro h; simp at h
    · simp only [hh, if_false]
      cases hf : fetch name want with
      | none => simp
      | some id' =>
        by_cases hc : expiry > 0 ∧ want = []
        · simp [hc]
        · simp only [hc, if_false]; simp

open Relic.KeyCache in
/-- non-vacuity: after a rotation a request pinning the old id is not served the cached new key -/
example : simulate 1 initSim [.get, .rot, .exp, .get, .pin 1, .pin 2, .get] = ["b1", "r", "e", "b2", "b1", "c2", "c2"] := by
  decide

end Relic.Props.C15

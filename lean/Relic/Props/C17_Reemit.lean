/-
  C17 (re-emission half) — re-serialising the directory of an unmodified archive.

  * `reemit_original_directory`: `GetOriginalDirectory(false)` as repaired (fix-F7b; `originalDirectorySpec`)
    returns the original central directory and end records byte for byte, for EVERY `relicReadable` archive
    (the general form of `reemit_spec_reproduces`, which evaluates two samples).
  * `reemit_unmodified_readable`: `WriteDirectory(wcd, weod, false)` on the directory `Read` returned: the central
    records are always the original bytes (raw re-emission); the end records are the original bytes
    EXACTLY on `canonEnds` — ZIP64 records present iff `WriteDirectory` would emit them (count ≥ 0xffff, size or
    offset ≥ 0xffffffff, or some member asks for version exactly 4.5), and then version-made-by =
    version-needed = 4.5 and every field of the classic end record at its maximum.
  * witnesses for both ways of leaving the class (`reemit_noncanonical`).
  Lemmas: Relic/Proofs/ZipReemit.lean.
-/
import Relic.Props.C17
import Relic.Proofs.ZipReemit
namespace Relic.Props.C17
open Relic Relic.Zip

/-- **reemit_original_directory.** -/
theorem reemit_original_directory : ∀ z, SpecZip.valid z → relicReadable z →
    ∃ d cd eod, read (rd z) = .ok d ∧ originalDirectorySpec d = .ok (cd, eod) ∧ cd ++ eod = z.drop d.dirLoc := by
  intro z _ hr
  obtain ⟨a, ha, hnc, _, hfix, _, h63⟩ := hr
  simp only [SpecZip.noComment, Bool.and_eq_true, List.isEmpty_iff, decide_eq_true_eq] at hnc
  have hfix' : (a.members.all fun m => fixedNeed m.entry.need) = true := by
    simpa [SpecZip.zip64Fixed, fixedNeed] using hfix
  obtain ⟨d, cd, eod, hd, hs, _, _, hj⟩ := originalDirectory_reproduces ha hnc.1 hnc.2 h63 hfix'
  exact ⟨d, cd, eod, hd, hs, hj⟩

/-- **reemit_unmodified_readable.** -/
theorem reemit_unmodified_readable : ∀ z a, SpecZip.parse z = some a → relicReadable z →
    ∃ d, read (rd z) = .ok d ∧
      (writeDirectory d false).1 = (z.drop a.ends.cdOff).take (a.ends.first - a.ends.cdOff) ∧
      ((writeDirectory d false).2.1 = z.drop a.ends.first ↔ canonEnds z a (maxReader d.files)) ∧
      ((writeDirectory d false).1 ++ (writeDirectory d false).2.1 = z.drop d.dirLoc ↔ canonEnds z a (maxReader d.files)) := by
  intro z a ha hr
  obtain ⟨a', ha', hnc, _, hfix, _, h63⟩ := hr
  rw [ha] at ha'; cases ha'
  simp only [SpecZip.noComment, Bool.and_eq_true, List.isEmpty_iff, decide_eq_true_eq] at hnc
  have hfix' : (a.members.all fun m => fixedNeed m.entry.need) = true := by
    simpa [SpecZip.zip64Fixed, fixedNeed] using hfix
  obtain ⟨d, hd, hfiles, hloc, hcd, hle, _⟩ := read_ends ha hnc.1 hnc.2 h63 hfix'
  obtain ⟨_, hsum, hes, _, _⟩ := parse_some ha
  have hcount : d.files.length = a.ends.count := by
    have := (entries_count_le z _ _ _ _ hes).2
    rw [hfiles]
    have hl : ∀ (es : List SpecZip.Entry) (at_ : Nat), (filesOf z at_ es).length = es.length := by
      intro es; induction es with
      | nil => intro _; rfl
      | cons e es ih => intro at_; simp [filesOf, ih]
    rw [hl, this]
  have hcdl : (headersOf d.files).1.length = a.ends.cdSize := by
    rw [hcd, List.length_take, List.length_drop]
    obtain ⟨hen, _, _, _, _⟩ := parse_some ha
    obtain ⟨p, hp22, _, _, _, _, hrest⟩ := ends_some hen
    have : a.ends.first ≤ z.length := by
      split at hrest
      · obtain ⟨_, _, hq, _, hf, _⟩ := hrest; omega
      · have := hrest.1; omega
    omega
  have hw1 : (writeDirectory d false).1 = (headersOf d.files).1 := rfl
  have hw2 : (writeDirectory d false).2.1 =
      endRecords a.ends.count a.ends.cdSize a.ends.cdOff false (maxReader d.files) := by
    show endRecords d.files.length (headersOf d.files).1.length d.dirLoc false (maxReader d.files) = _
    rw [hcount, hcdl, hloc]
  have hiff := endRecords_eq_iff ha hnc.1 (maxReader d.files)
  refine ⟨d, hd, by rw [hw1, hcd], by rw [hw2]; exact hiff, ?_⟩
  rw [hw1, hcd, hw2, hloc, ← hiff]
  have hjoin : (z.drop a.ends.cdOff).take (a.ends.first - a.ends.cdOff) ++ z.drop a.ends.first = z.drop a.ends.cdOff := by
    have := List.take_append_drop (a.ends.first - a.ends.cdOff) (z.drop a.ends.cdOff)
    rw [List.drop_drop, show a.ends.cdOff + (a.ends.first - a.ends.cdOff) = a.ends.first by omega] at this
    exact this
  constructor
  · intro h
    exact List.append_cancel_left (h.trans hjoin.symm)
  · intro h; rw [h, hjoin]

/-! ### leaving the class, both ways -/

set_option maxRecDepth 1000000

/-- `zPlain` with "version needed" 4.5 in its (only) central record: a standard 22-byte end record, but `WriteDirectory`
    writes ZIP64 records for it -/
def zNeed45 : Bytes := [80, 75, 3, 4, 20, 0, 0, 0, 0, 0, 0, 0, 0, 0, 131, 22, 220, 140, 1, 0, 0, 0, 1, 0, 0, 0, 1, 0, 0, 0, 97, 120, 80, 75, 1, 2, 20, 0, 45, 0, 0, 0, 0, 0, 0, 0, 0, 0, 131, 22, 220, 140, 1, 0, 0, 0, 1, 0, 0, 0, 1, 0, 0, 0, 0, 0, 0, 0, 0, 0, 0, 0, 0, 0, 0, 0, 0, 0, 97, 80, 75, 5, 6, 0, 0, 0, 0, 1, 0, 1, 0, 47, 0, 0, 0, 32, 0, 0, 0, 0, 0]

/-- **reemit_noncanonical.** Two valid, `relicReadable` archives outside `canonEnds`: `zNeed45` (a member asking for version 4.5
    and no ZIP64 records: 22 bytes become 98); what relic itself writes for `zOne24` (a member asks for version 4.5, so
    ZIP64 records are written) is canonical and reproduced, whereas the same archive with version-made-by 6.3 in
    the ZIP64 end record (as other writers put it) is valid, readable, and not reproduced.  (An archive written
    with `forceZip64` is not canonical either: without the flag the records are dropped.) -/
theorem reemit_noncanonical :
    SpecZip.valid zNeed45 ∧
    okAnd (read (rd zNeed45)) (fun d => someAnd (SpecZip.parse zNeed45) fun a =>
      !decide (canonEnds zNeed45 a (maxReader d.files)) && decide ((writeDirectory d false).2.1.length = 98) &&
      decide ((writeDirectory d false).1 = (zNeed45.drop a.ends.cdOff).take (a.ends.first - a.ends.cdOff))) = true ∧
    okAnd (rewriteKeep zOne24 [] false) (fun z2 => okAnd (read (rd z2)) fun d => someAnd (SpecZip.parse z2) fun a =>
      decide (canonEnds z2 a (maxReader d.files)) && decide ((writeDirectory d false).2.1 = z2.drop a.ends.first) &&
      -- version made by 6.3 at offset 12 of the ZIP64 end record
      (let z3 := z2.take (a.ends.first + 12) ++ [63, 0] ++ z2.drop (a.ends.first + 14)
       decide (SpecZip.valid z3) && okAnd (read (rd z3)) fun d3 => someAnd (SpecZip.parse z3) fun a3 =>
         !decide (canonEnds z3 a3 (maxReader d3.files)) && !decide ((writeDirectory d3 false).2.1 = z3.drop a3.ends.first))) = true := by
  decide

example : relicReadable zNeed45 := by
  have h : someAnd (SpecZip.parse zNeed45) (fun a => SpecZip.noComment a zNeed45 && SpecZip.descSigned a &&
      SpecZip.zip64Fixed a && a.members.all (widthOK a)) = true := by
    decide
  obtain ⟨a, ha, hr⟩ := someAnd_elim h
  simp only [Bool.and_eq_true] at hr
  exact ⟨a, ha, hr.1.1.1, hr.1.1.2, hr.1.2, hr.2, by decide⟩

end Relic.Props.C17

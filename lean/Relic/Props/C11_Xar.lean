/-
  C11 — Malformed input yields an error, never a crash or runaway resource use.   xar / flat package part (model
  `Relic.Model.Xar`: `Open`, `Verify`, `Sign` with every `make`, `ReadAt`, `ParseInt` and int64 addition explicit; `fx = true`
  the current tree, `fx = false` the tree before the fixes a62cce4 / 5d6eee4).

  Current tree: `xar_open_never_panics` (a `<size>` that is negative or larger than the file is refused before `make`),
  `xar_verify_no_new_panic`, `xar_sign_no_panic`, `xar_open_no_diverge` — every entry point returns ok or err;
  `xar_alloc_bounded`: what `Open` asks for is at most the declared uncompressed size (≤ 10^8, and the inflater stops one byte
  behind it) plus sizes bounded by the file; `xar_sign_patch_entries_le`: `Sign`'s patch has at most
  `(10^6·(3k+1)+28)/(2^32−1)+1` entries for a TOC with `k` children (1 below 1431 signature elements).
  Tree before the fixes: `xar_open_panic_iff_orig` (exact trigger of the `makeslice` panic, F12-panic-xar.Open),
  `xar_alloc_request_not_bounded_by_file_orig` (F13-alloc-xar.Open), `xar_patch_entries_unbounded_orig` (F13-alloc-xar.Sign).
-/
import Relic.Proofs.XarSign
import Relic.Props.C01_Xar
namespace Relic.Props.C11
open Relic Relic.Xar

/-! ### the tree before fix a62cce4: `make` on a size from the XML -/

/-- `make([]byte, n)` followed by `ReadAt` panicked exactly when `n` was negative or above the allocation limit -/
theorem xar_allocRead_panic_iff_orig (site cls : String) (f : Bytes) (n off : Int) (s : String) :
    allocRead false site cls f n off = .panic s ↔ s = site ∧ (n < 0 ∨ n > maxAlloc) := by
  unfold allocRead
  simp only [Bool.false_eq_true, ↓reduceIte]
  split
  · rename_i h
    simp only [Res.panic.injEq]
    exact ⟨fun e => ⟨e.symm, h⟩, fun e => e.1.symm⟩
  · rename_i h
    cases readAt f off n.toNat <;> simp [h]

/-- the current tree tests the size first: no panic, whatever the number -/
theorem xar_allocRead_no_panic (site cls : String) (f : Bytes) (n off : Int) (s : String) :
    allocRead true site cls f n off ≠ .panic s := by
  unfold allocRead
  simp only [↓reduceIte]
  split
  · simp
  · split <;> simp

/-- a `<size>` that made `make` panic -/
def xarBadSize (s : Option XSig) : Prop := ∃ x, s = some x ∧ (x.size < 0 ∨ x.size > maxAlloc)

theorem xar_res_bind_panic_iff {α β} (r : Res α) (g : α → Res β) (s : String) :
    r.bind g = .panic s ↔ r = .panic s ∨ ∃ a, r = .ok a ∧ g a = .panic s := by
  cases r <;> simp [Res.bind]

theorem xar_readSig_panic_iff_orig (E : Env) (f : Bytes) (base : Int) (sg : Option XSig) (s : String) :
    readSig false E f base sg = .panic s ↔ s = "xar.Open:makeslice" ∧ xarBadSize sg := by
  cases sg with
  | none => simp [readSig, xarBadSize]
  | some x =>
    simp only [readSig, xarBadSize, Option.some.injEq, exists_eq_left', xar_res_bind_panic_iff, xar_allocRead_panic_iff_orig]
    constructor
    · rintro (h | ⟨b, _, h⟩)
      · exact h
      · split at h
        · cases h
        · split at h <;> cases h
    · intro h; exact Or.inl h

theorem xar_readXSig_panic_iff_orig (f : Bytes) (base : Int) (sg : Option XSig) (s : String) :
    readXSig false f base sg = .panic s ↔ s = "xar.Open:makeslice" ∧ xarBadSize sg := by
  cases sg with
  | none => simp [readXSig, xarBadSize]
  | some x =>
    simp only [readXSig, xarBadSize, Option.some.injEq, exists_eq_left', xar_res_bind_panic_iff, xar_allocRead_panic_iff_orig]
    constructor
    · rintro (h | ⟨b, _, h⟩)
      · exact h
      · cases h
    · intro h; exact Or.inl h

theorem xar_readSig_no_panic (E : Env) (f : Bytes) (base : Int) (sg : Option XSig) (s : String) : readSig true E f base sg ≠ .panic s := by
  cases sg with
  | none => simp [readSig]
  | some x =>
    simp only [readSig, ne_eq, xar_res_bind_panic_iff, xar_allocRead_no_panic, false_or, not_exists, not_and]
    intro b _
    split
    · simp
    · split <;> simp

theorem xar_readXSig_no_panic (f : Bytes) (base : Int) (sg : Option XSig) (s : String) : readXSig true f base sg ≠ .panic s := by
  cases sg with
  | none => simp [readXSig]
  | some x => simp [readXSig, xar_res_bind_panic_iff, xar_allocRead_no_panic]

theorem xar_readTicket_no_panic (f : Bytes) (fs : List XFile) (base : Int) (s : String) : readTicket f fs base ≠ .panic s := by
  unfold readTicket
  simp only
  split
  · split <;> simp
  · simp

/-- **xar_openRest_panic_iff_orig** (the part of `Open` behind the checksum read, before the fix).  `Open` panicked exactly when
    the `<size>` of `<signature>` was negative or above 2^48, or that element was fine (absent, or its bytes and certificates
    could be read) and the `<size>` of `<x-signature>` was negative or above 2^48.  The site is the `make` in `xar.Open`. -/
theorem xar_openRest_panic_iff_orig (E : Env) (f : Bytes) (k : HK) (stored : Bytes) (toc : XToc) (base : Int) (n : Nat) (s : String) :
    openRest false E f k stored toc base n = .panic s ↔
      s = "xar.Open:makeslice" ∧ (xarBadSize toc.sig ∨ ((∃ sg, readSig false E f base toc.sig = .ok sg) ∧ xarBadSize toc.xsig)) := by
  unfold openRest
  simp only [xar_res_bind_panic_iff, xar_readSig_panic_iff_orig, xar_readXSig_panic_iff_orig]
  constructor
  · rintro (⟨h1, h2⟩ | ⟨sg, hsg, (⟨h1, h2⟩ | ⟨x, _, (h | ⟨t, _, h⟩)⟩)⟩)
    · exact ⟨h1, Or.inl h2⟩
    · exact ⟨h1, Or.inr ⟨⟨sg, hsg⟩, h2⟩⟩
    · exact absurd h (xar_readTicket_no_panic f toc.files base s)
    · cases h
  · rintro ⟨h1, (h2 | ⟨⟨sg, hsg⟩, h2⟩)⟩
    · exact Or.inl ⟨h1, h2⟩
    · exact Or.inr ⟨sg, hsg, Or.inl ⟨h1, h2⟩⟩

/-- **xar_open_panic_iff_orig.**  The whole of `Open` before fix a62cce4: a panic happened only in `openRest` (header, zlib,
    `encoding/xml`, checksum size and read return errors), i.e. exactly under the trigger of `xar_openRest_panic_iff_orig`, once
    the header names a supported hash, the TOC region decodes, `encoding/xml` accepts it, the checksum `<size>` is the hash
    size and the checksum bytes could be read. -/
theorem xar_open_panic_iff_orig (E : Env) (f : Bytes) (s : String) :
    (openPlanOrig E f).final = .panic s ↔
      ∃ hd k root n toc stored, parseHeader f = .ok (hd, k) ∧ E.decode (regionSR f hd.hsize hd.clen) = some (root, n) ∧
        unmarshal E.num root = some toc ∧ toc.ck.size = k.size ∧
        readAt f (w64 (w64 (hd.hsize + hd.clen) + toc.ck.offset)) k.size = some stored ∧
        s = "xar.Open:makeslice" ∧
        (xarBadSize toc.sig ∨ ((∃ sg, readSig false E f (w64 (hd.hsize + hd.clen)) toc.sig = .ok sg) ∧ xarBadSize toc.xsig)) := by
  constructor
  · intro h
    unfold openPlanOrig openPlanG at h
    simp only [Bool.false_and, Bool.false_eq_true, ↓reduceIte] at h
    cases hp : parseHeader f with
    | error e => simp [hp, Plan.fail] at h
    | ok v =>
      obtain ⟨hd, k⟩ := v
      simp only [hp] at h
      cases hz : E.decode (regionSR f hd.hsize hd.clen) with
      | none => simp [hz, Plan.fail] at h
      | some v =>
        obtain ⟨root, n⟩ := v
        simp only [hz] at h
        cases hu : unmarshal E.num root with
        | none => simp [hu, Plan.fail] at h
        | some toc =>
          simp only [hu, openBody] at h
          by_cases hsz : toc.ck.size = k.size
          · simp only [hsz, ne_eq, not_true_eq_false, ↓reduceIte] at h
            cases hr : readAt f (w64 (w64 (hd.hsize + hd.clen) + toc.ck.offset)) k.size with
            | none => simp [hr, Plan.fail] at h
            | some stored =>
              simp only [hr] at h
              obtain ⟨e6, e7⟩ := (xar_openRest_panic_iff_orig E f k stored toc _ n s).mp h
              exact ⟨hd, k, root, n, toc, stored, rfl, hz, hu, hsz, hr, e6, e7⟩
          · simp [hsz, Plan.fail] at h
  · rintro ⟨hd, k, root, n, toc, stored, e1, e2, e3, e4, e5, e6, e7⟩
    unfold openPlanOrig openPlanG
    simp only [Bool.false_and, Bool.false_eq_true, ↓reduceIte, e1, e2, e3, openBody, e4, ne_eq, not_true_eq_false, e5]
    exact (xar_openRest_panic_iff_orig E f k stored toc _ n s).mpr ⟨e6, e7⟩

/-- a failing comparison is an error, so the run of a plan panics only where its final outcome does -/
theorem xar_run_panic (C : Crypto) {α} (p : Plan α) (s : String) (h : p.run C = .panic s) : p.final = .panic s :=
  runChecks_panic C p.checks p.final s h

example : xarBadSize (some ⟨"RSA", 20, -1, []⟩) := ⟨_, rfl, Or.inl (by decide)⟩

/-! ### the current tree -/

/-- **xar_open_never_panics.**  `Open` of the current tree returns ok or err on every input: header, the size test in front
    of `parseTOC`, zlib / `encoding/xml` (parameters), checksum size and read, both signature blobs (sizes tested against
    the file size before `make`), the notary ticket. -/
theorem xar_open_never_panics (E : Env) (f : Bytes) (s : String) : (openPlan E f).final ≠ .panic s := by
  have hrest : ∀ k stored toc base n, openRest true E f k stored toc base n ≠ .panic s := by
    intro k stored toc base n
    unfold openRest
    simp [xar_res_bind_panic_iff, xar_readSig_no_panic, xar_readXSig_no_panic, xar_readTicket_no_panic]
  unfold openPlan openPlanG
  split
  · simp [Plan.fail]
  · split
    · simp [Plan.fail]
    · split
      · simp [Plan.fail]
      · split
        · simp [Plan.fail]
        · split
          · simp [Plan.fail]
          · unfold openBody
            split
            · simp [Plan.fail]
            · split
              · simp [Plan.fail]
              · exact hrest _ _ _ _ _

/-! ### both trees: nothing else panics, nothing diverges -/

theorem xar_checkFileAt_final (f : Bytes) (base : Int) (r : Ref) : (∃ e, (checkFileAt f base r).final = .err e) ∨ (checkFileAt f base r).final = .ok () := by
  unfold checkFileAt
  split
  · exact Or.inl ⟨_, rfl⟩
  · split
    · exact Or.inl ⟨_, rfl⟩
    · split
      · exact Or.inl ⟨_, rfl⟩
      · split
        · exact Or.inr rfl
        · exact Or.inl ⟨_, rfl⟩

theorem xar_checkAllAt_final (f : Bytes) (base : Int) : ∀ rs, (∃ e, (checkAllAt f base rs).final = .err e) ∨ (checkAllAt f base rs).final = .ok ()
  | [] => Or.inr rfl
  | r :: rs => by
    simp only [checkAllAt, Plan.bind]
    rcases xar_checkFileAt_final f base r with ⟨e, h⟩ | h
    · rw [h]; exact Or.inl ⟨e, rfl⟩
    · rw [h]; exact xar_checkAllAt_final f base rs

/-- **xar_verify_no_new_panic.**  `Verify` (signature dispatch, `gatherDataFiles`, sort, `checkFile` per member) adds no panic
    and no divergence to what `Open` can do: whatever `Open` + `Verify` ends in other than ok / err, `Open` ended in.  With
    `xar_open_never_panics` / `xar_open_no_diverge`: on the current tree `Open` + `Verify` returns ok or err. -/
theorem xar_verify_no_new_panic (fx : Bool) (E : Env) (f : Bytes) (skip : Bool) :
    (∀ s, (verifyPlanG fx E f skip).final = .panic s → (openPlanG fx E f).final = .panic s) ∧
    ((verifyPlanG fx E f skip).final = .diverge → (openPlanG fx E f).final = .diverge) := by
  have key : ∀ o, (∃ e, (verifyOpened f (tocRegion f) o skip).final = .err e) ∨ ∃ v, (verifyOpened f (tocRegion f) o skip).final = .ok v := by
    intro o
    unfold verifyOpened
    simp only
    have hfiles : (∃ e, (if skip = true then Plan.pure () else checkAllAt f o.base (sortRefs ((gather o.toc.files).map XFile.ref))).final = .err e) ∨
        (if skip = true then Plan.pure () else checkAllAt f o.base (sortRefs ((gather o.toc.files).map XFile.ref))).final = .ok () := by
      cases skip
      · simpa using xar_checkAllAt_final f o.base _
      · exact Or.inr rfl
    cases o.cmsSig with
    | some blob =>
      simp only [Plan.bind]
      rcases hfiles with ⟨e, h⟩ | h
      · rw [h]; exact Or.inl ⟨e, rfl⟩
      · rw [h]; exact Or.inr ⟨_, rfl⟩
    | none =>
      cases o.rsaSig with
      | some sg =>
        simp only [Plan.bind]
        rcases hfiles with ⟨e, h⟩ | h
        · rw [h]; exact Or.inl ⟨e, rfl⟩
        · rw [h]; exact Or.inr ⟨_, rfl⟩
      | none => exact Or.inl ⟨_, rfl⟩
  unfold verifyPlanG Plan.bind
  cases h : (openPlanG fx E f).final with
  | ok o =>
    simp only
    rcases key o with ⟨e, he⟩ | ⟨v, hv⟩
    · rw [he]; exact ⟨(fun s hs => by cases hs), (fun hs => by cases hs)⟩
    · rw [hv]; exact ⟨(fun s hs => by cases hs), (fun hs => by cases hs)⟩
  | err e => exact ⟨(fun s hs => by cases hs), (fun hs => by cases hs)⟩
  | panic p => exact ⟨(fun s hs => by simpa using hs), (fun hs => by cases hs)⟩
  | diverge => exact ⟨(fun s hs => by cases hs), (fun _ => rfl)⟩

theorem xar_res_bind_diverge_iff {α β} (r : Res α) (g : α → Res β) :
    r.bind g = .diverge ↔ r = .diverge ∨ ∃ a, r = .ok a ∧ g a = .diverge := by
  cases r <;> simp [Res.bind]

theorem xar_allocRead_no_diverge (fx : Bool) (site cls : String) (f : Bytes) (n off : Int) : allocRead fx site cls f n off ≠ .diverge := by
  unfold allocRead
  cases fx
  · simp only [Bool.false_eq_true, ↓reduceIte]
    split
    · simp
    · split <;> simp
  · simp only [↓reduceIte]
    split
    · simp
    · split <;> simp

theorem xar_readSig_no_diverge (fx : Bool) (E : Env) (f : Bytes) (base : Int) (sg : Option XSig) : readSig fx E f base sg ≠ .diverge := by
  cases sg with
  | none => simp [readSig]
  | some x =>
    simp only [readSig, ne_eq, xar_res_bind_diverge_iff, xar_allocRead_no_diverge, false_or, not_exists, not_and]
    intro b _
    split
    · simp
    · split <;> simp

theorem xar_readXSig_no_diverge (fx : Bool) (f : Bytes) (base : Int) (sg : Option XSig) : readXSig fx f base sg ≠ .diverge := by
  cases sg with
  | none => simp [readXSig]
  | some x => simp [readXSig, xar_res_bind_diverge_iff, xar_allocRead_no_diverge]

theorem xar_readTicket_no_diverge (f : Bytes) (fs : List XFile) (base : Int) : readTicket f fs base ≠ .diverge := by
  unfold readTicket
  simp only
  split
  · split <;> simp
  · simp

/-- `Open` never diverges: every loop runs over the element tree or the file list (structural recursion in the model) -/
theorem xar_open_no_diverge (fx : Bool) (E : Env) (f : Bytes) : (openPlanG fx E f).final ≠ .diverge := by
  have hrest : ∀ k stored toc base n, openRest fx E f k stored toc base n ≠ .diverge := by
    intro k stored toc base n
    unfold openRest
    simp [xar_res_bind_diverge_iff, xar_readSig_no_diverge, xar_readXSig_no_diverge, xar_readTicket_no_diverge]
  unfold openPlanG
  split
  · simp [Plan.fail]
  · split
    · simp [Plan.fail]
    · split
      · simp [Plan.fail]
      · split
        · simp [Plan.fail]
        · split
          · simp [Plan.fail]
          · unfold openBody
            split
            · simp [Plan.fail]
            · split
              · simp [Plan.fail]
              · exact hrest _ _ _ _ _

/-- **xar_sign_no_panic.**  `Sign` up to the signature computation returns ok or err on every input, on both trees: header,
    size limits, zlib / etree (parameters), `/xar/toc`, the tests of the repaired `removeSigs` / `checkFiles`, the member
    check on the forward-only heap.  (`hashType.Size()` of an unregistered hash and `certs[0]` of an empty chain are
    configuration, not input.) -/
theorem xar_sign_no_panic (fx : Bool) (E : Env) (f : Bytes) (hk : HK) (ki : KeyInfo) :
    (∀ s, (signPlanG fx E f hk ki).final ≠ .panic s) ∧ (signPlanG fx E f hk ki).final ≠ .diverge := by
  rcases signPlanG_final fx E f hk ki with ⟨so, h⟩ | ⟨e, h⟩ <;> rw [h] <;> simp

/-! ### allocation -/

/-- before fix a62cce4 `make([]byte, n)` was executed for every `0 ≤ n ≤ 2^48` from the XML; only `ReadAt` afterwards noticed
    that the file does not hold that many bytes: the request was not bounded by the input length (F13-alloc-xar.Open) -/
theorem xar_alloc_request_not_bounded_by_file_orig (site cls : String) (f : Bytes) (n : Int) (h0 : 0 < n) (h1 : n ≤ maxAlloc)
    (hf : (f.length : Int) < n) : allocRead false site cls f n 0 = .err cls := by
  unfold allocRead readAt
  have a : ¬ (n < 0 ∨ n > maxAlloc) := by omega
  have b : ¬ n.toNat = 0 := by omega
  have c : ¬ n ≤ (f.length : Int) := by omega
  simp [a, b, c]

/-- now a buffer is only made for a size between 0 and the file size, and what is read into it are that many bytes of the file -/
theorem xar_allocRead_bounded (site cls : String) (f : Bytes) (n off : Int) (b : Bytes) (h : allocRead true site cls f n off = .ok b) :
    0 ≤ n ∧ n ≤ f.length ∧ b.length = n.toNat := by
  unfold allocRead at h
  simp only [↓reduceIte] at h
  split at h
  · cases h
  · rename_i hn
    cases hr : readAt f off n.toNat with
    | none => simp [hr] at h
    | some b' =>
      simp only [hr, Res.ok.injEq] at h
      subst h
      refine ⟨by omega, by omega, ?_⟩
      unfold readAt at hr
      split at hr
      · cases hr
      · split at hr
        · rename_i h0; simp only [Option.some.injEq] at hr; subst hr; simp [h0]
        · split at hr
          · rename_i hle
            simp only [Option.some.injEq] at hr
            subst hr
            simp [sl]; omega
          · cases hr

/-- **xar_alloc_bounded.**  What a successful `Open` of the current tree has requested from the allocator — the inflated table
    of contents, the checksum, both signature blobs, the notary ticket — is at most `UncompressedSize ≤ 10^8` (a constant,
    and `decompress` stops one byte behind what was declared) `+ 64 + 2·len(file) + 10^6`.  Before the fix neither the
    inflated size nor the two blob sizes were bounded (`xar_alloc_request_not_bounded_by_file_orig`). -/
theorem xar_alloc_bounded (E : Env) (f : Bytes) (o : Opened) (h : (openPlan E f).final = .ok o) :
    o.alloc ≤ 100000000 + 64 + 2 * f.length + 1000000 := by
  unfold openPlan openPlanG at h
  simp only [Bool.true_and] at h
  cases hp : parseHeader f with
  | error e => simp [hp, Plan.fail] at h
  | ok v =>
    obtain ⟨hd, k⟩ := v
    simp only [hp] at h
    by_cases hs : tocSizesOk hd f.length = true
    · simp only [hs, Bool.not_true, Bool.false_eq_true, ↓reduceIte] at h
      cases hz : E.decode (regionSR f hd.hsize hd.clen) with
      | none => simp [hz, Plan.fail] at h
      | some v =>
        obtain ⟨root, n⟩ := v
        simp only [hz, decide_eq_true_eq] at h
        by_cases hin : (n : Int) > hd.ulen
        · simp [hin, Plan.fail] at h
        · simp only [hin, ↓reduceIte] at h
          cases hu : unmarshal E.num root with
          | none => simp [hu, Plan.fail] at h
          | some toc =>
            simp only [hu, openBody] at h
            split at h
            · simp [Plan.fail] at h
            · split at h
              · simp [Plan.fail] at h
              · simp only [openRest] at h
                cases h1 : readSig true E f (w64 (hd.hsize + hd.clen)) toc.sig with
                | ok sg =>
                  simp only [h1, Res.bind] at h
                  cases h2 : readXSig true f (w64 (hd.hsize + hd.clen)) toc.xsig with
                  | ok x =>
                    simp only [h2] at h
                    cases h3 : readTicket f toc.files (w64 (hd.hsize + hd.clen)) with
                    | ok t =>
                      simp only [h3, Res.ok.injEq] at h
                      subst h
                      simp only
                      have hk := k.size_le
                      have hn : n ≤ 100000000 := by
                        have hs' := of_decide_eq_true hs
                        simp only [maxTOCSize] at hs'
                        omega
                      have b1 : optLen sg.1 ≤ f.length := by
                        cases hsig : toc.sig with
                        | none => simp [hsig, readSig] at h1; rw [← h1]; simp [optLen]
                        | some sx =>
                          simp only [hsig, readSig] at h1
                          cases ha : allocRead true "xar.Open:makeslice" "sigread" f sx.size (w64 (w64 (hd.hsize + hd.clen) + sx.offset)) with
                          | ok b =>
                            simp only [ha, Res.bind] at h1
                            have := xar_allocRead_bounded _ _ f _ _ b ha
                            split at h1
                            · cases h1
                            · split at h1
                              · simp only [Res.ok.injEq] at h1; rw [← h1]; simp only [optLen, Option.map_some, Option.getD_some]; omega
                              · cases h1
                          | err e => simp [ha, Res.bind] at h1
                          | panic p => simp [ha, Res.bind] at h1
                          | diverge => simp [ha, Res.bind] at h1
                      have b2 : optLen x ≤ f.length := by
                        cases hsig : toc.xsig with
                        | none => simp [hsig, readXSig] at h2; rw [← h2]; simp [optLen]
                        | some sx =>
                          simp only [hsig, readXSig] at h2
                          cases ha : allocRead true "xar.Open:makeslice" "xsigread" f sx.size (w64 (w64 (hd.hsize + hd.clen) + sx.offset)) with
                          | ok b =>
                            simp only [ha, Res.bind, Res.ok.injEq] at h2
                            have := xar_allocRead_bounded _ _ f _ _ b ha
                            rw [← h2]; simp only [optLen, Option.map_some, Option.getD_some]; omega
                          | err e => simp [ha, Res.bind] at h2
                          | panic p => simp [ha, Res.bind] at h2
                          | diverge => simp [ha, Res.bind] at h2
                      have b3 : optLen t ≤ 1000000 := by
                        unfold readTicket at h3
                        simp only at h3
                        split at h3
                        · rename_i hc
                          split at h3
                          · cases h3
                          · rename_i tb hr
                            simp only [Res.ok.injEq] at h3
                            rw [← h3]
                            simp only [optLen, Option.map_some, Option.getD_some]
                            unfold readAt at hr
                            split at hr
                            · cases hr
                            · split at hr
                              · simp only [Option.some.injEq] at hr; rw [← hr]; simp
                              · split at hr
                                · simp only [Option.some.injEq] at hr; rw [← hr]; simp [sl]; omega
                                · cases hr
                        · simp only [Res.ok.injEq] at h3; rw [← h3]; simp [optLen]
                      omega
                    | err e => simp [h3] at h
                    | panic p => simp [h3] at h
                    | diverge => simp [h3] at h
                  | err e => simp [h2] at h
                  | panic p => simp [h2] at h
                  | diverge => simp [h2] at h
                | err e => simp [h1, Res.bind] at h
                | panic p => simp [h1, Res.bind] at h
                | diverge => simp [h1, Res.bind] at h
    · simp [hs, Plan.fail] at h

theorem xar_addSplit_length (M : Nat) (hM : 0 < M) : ∀ (old off : Nat) (blob : Bytes), 0 < old →
    (Binpatch.addSplit M off old blob).length = (old - 1) / M + 1 := by
  intro old
  induction old using Nat.strongRecOn with
  | _ old ih =>
    intro off blob hpos
    rw [Binpatch.addSplit]
    by_cases h : 0 < M ∧ M < old
    · simp only [h, and_self, ↓reduceDIte, List.length_cons]
      rw [ih (old - M) (by omega) _ _ (by omega)]
      have : old - 1 = (old - M - 1) + M := by omega
      rw [this, Nat.add_div_right _ hM]
    · simp only [h, ↓reduceDIte, List.length_cons, List.length_nil]
      have : (old - 1) / M = 0 := Nat.div_eq_of_lt (by omega)
      omega

/-- **xar_patch_entries_eq.**  The patch set `Sign` returns has `⌈origTotal / (2^32−1)⌉` entries for a positive `origTotal` … -/
theorem xar_patch_entries_eq (ot : Int) (h : 0 < ot) (body : Bytes) :
    (patchSet ot body).length = ((ot.toNat - 1) / 4294967295) + 1 := by
  unfold patchSet
  have : ¬ ot < 0 := by omega
  simp only [this, ↓reduceIte, Binpatch.build, List.foldl_cons, List.foldl_nil, Binpatch.add, List.getLast?_nil, List.nil_append]
  exact xar_addSplit_length 4294967295 (by decide) ot.toNat 0 body (by omega)

/-- … and before fix 5d6eee4 `origTotal = 28 + CompressedSize + Σ <size>` was whatever the XML said: **the number of entries
    (16 bytes of header each, plus the loop that builds them) was not bounded by the length of the input** (F13-alloc-xar.Sign). -/
theorem xar_patch_entries_unbounded_orig (n : Nat) (hn : n < 2 ^ 30) :
    ∃ ot : Int, 0 < ot ∧ ot < 2 ^ 63 ∧ ∀ body, n < (patchSet ot body).length := by
  refine ⟨(n : Int) * 4294967295 + 1, by omega, by omega, ?_⟩
  intro body
  rw [xar_patch_entries_eq _ (by omega)]
  have : (((n : Int) * 4294967295 + 1).toNat - 1) / 4294967295 = n := by
    have e : ((n : Int) * 4294967295 + 1).toNat - 1 = n * 4294967295 := by omega
    rw [e]
    exact Nat.mul_div_cancel n (by omega)
  omega

/-! ### the patch of the current `Sign` -/

theorem xar_areasOfKey_length (N : Num) (key : String) : ∀ (ks : List Xml) (as : List (Int × Int)), areasOfKey N key ks = some as →
    as.length ≤ ks.length ∧ ∀ a ∈ as, a.2 ≤ 1000000
  | [], as, h => by simp [areasOfKey] at h; subst h; simp
  | .tx _ :: rest, as, h => by
    simp only [areasOfKey] at h
    obtain ⟨h1, h2⟩ := xar_areasOfKey_length N key rest as h
    exact ⟨by simp only [List.length_cons]; omega, h2⟩
  | .el n _ ks :: rest, as, h => by
    simp only [areasOfKey] at h
    split at h
    · cases h1 : areaOf N ks with
      | none => simp [h1] at h
      | some a1 =>
        cases h2 : areasOfKey N key rest with
        | none => simp [h1, h2] at h
        | some as2 =>
          simp only [h1, h2, Option.bind_some, Option.map_some, Option.some.injEq] at h
          subst h
          obtain ⟨g1, g2⟩ := xar_areasOfKey_length N key rest as2 h2
          refine ⟨by simp only [List.length_cons]; omega, ?_⟩
          intro a ha
          simp only [List.mem_cons] at ha
          rcases ha with rfl | ha
          · exact (areaOf_nonneg N ks _ h1).2.1
          · exact g2 a ha
    · obtain ⟨h1, h2⟩ := xar_areasOfKey_length N key rest as h
      exact ⟨by simp only [List.length_cons]; omega, h2⟩

theorem xar_length_insertArea (a : Int × Int) : ∀ l, (insertArea a l).length = l.length + 1
  | [] => rfl
  | x :: xs => by
    simp only [insertArea]
    split
    · rfl
    · simp [xar_length_insertArea a xs]

theorem xar_length_sortAreas (as : List (Int × Int)) : (sortAreas as).length = as.length := by
  unfold sortAreas
  suffices ∀ acc : List (Int × Int), (as.foldl (fun acc a => insertArea a acc) acc).length = acc.length + as.length by simpa using this []
  induction as with
  | nil => simp
  | cons a as ih => intro acc; simp only [List.foldl_cons, ih, xar_length_insertArea, List.length_cons]; omega

theorem xar_tile_le : ∀ (as : List (Int × Int)) (s0 s : Int), tile s0 as = some s → (∀ a ∈ as, a.2 ≤ 1000000) →
    s ≤ s0 + 1000000 * as.length
  | [], s0, s, h, _ => by simp [tile] at h; simp; omega
  | a :: r, s0, s, h, hn => by
    simp only [tile] at h
    split at h
    · cases h
    · have := xar_tile_le r (s0 + a.2) s h fun x hx => hn x (List.mem_cons_of_mem _ hx)
      have := hn a List.mem_cons_self
      simp only [List.length_cons]
      omega

/-- the old signature area the repaired `Sign` works with is at most 10^6 bytes per signature element -/
theorem xar_origSig_le (N : Num) (ks : List Xml) (s : Int) (h : checkSigAreas N ks = .ok s) : s ≤ 1000000 * (3 * ks.length) := by
  unfold checkSigAreas at h
  cases h1 : sigAreas N ks with
  | none => simp [h1] at h
  | some as =>
    simp only [h1] at h
    cases h2 : tile 0 (sortAreas as) with
    | none => simp [h2] at h
    | some s' =>
      simp only [h2, Except.ok.injEq] at h
      subst h
      unfold sigAreas at h1
      cases ha1 : areasOfKey N "checksum" ks with
      | none => simp [ha1] at h1
      | some a1 =>
        cases ha2 : areasOfKey N "signature" ks with
        | none => simp [ha1, ha2] at h1
        | some a2 =>
          cases ha3 : areasOfKey N "x-signature" ks with
          | none => simp [ha1, ha2, ha3] at h1
          | some a3 =>
            simp only [ha1, ha2, ha3, Option.bind_some, Option.map_some, Option.some.injEq] at h1
            subst h1
            obtain ⟨l1, m1⟩ := xar_areasOfKey_length N _ ks a1 ha1
            obtain ⟨l2, m2⟩ := xar_areasOfKey_length N _ ks a2 ha2
            obtain ⟨l3, m3⟩ := xar_areasOfKey_length N _ ks a3 ha3
            have := xar_tile_le _ 0 _ h2 (by
              intro a ha
              rw [mem_sortAreas] at ha
              simp only [List.mem_append] at ha
              rcases ha with (ha | ha) | ha
              · exact m1 a ha
              · exact m2 a ha
              · exact m3 a ha)
            rw [xar_length_sortAreas] at this
            simp only [List.length_append] at this
            omega

/-- `CompressedSize` of the header (0 when there is no header) -/
def xarHeaderClen (f : Bytes) : Int := match parseHeader f with | .ok (hd, _) => hd.clen | .error _ => 0

/-- **xar_sign_patch_entries_le** (current tree).  Whatever `Sign` accepts: `origTotal ≤ 28 + 10^6 + 3·10^6·k` for a `<toc>` with
    `k` children, so the patch set has at most `(10^6·(3k+1)+27)/(2^32−1)+1` entries — one for every TOC with fewer than
    1431 children, and never more than the TOC's own size allows (F13-alloc-xar.Sign, entry-count part).  (`k < 10^12` keeps
    the int64 sum from wrapping; the tree comes out of at most 10^7 inflated bytes, but the decoder is a parameter here.) -/
theorem xar_sign_patch_entries_le (C : Crypto) (E : Env) (f : Bytes) (hk : HK) (ki : KeyInfo) (so : SignOut)
    (h : (signPlan E f hk ki).run C = .ok so) :
    ∃ t n tks, E.decode (region f 28 (xarHeaderClen f)) = some (t, n) ∧ tocKids t = some tks ∧
      so.origSig ≤ 1000000 * (3 * tks.length) ∧
      (tks.length < 1000000000000 → 0 < so.origTotal ∧ so.origTotal ≤ 28 + 1000000 + 1000000 * (3 * tks.length) ∧
        ∀ body, (patchSet so.origTotal body).length ≤ (1000027 + 1000000 * (3 * tks.length)) / 4294967295 + 1) := by
  obtain ⟨hd, k0, t, n, p0, tks, hph, g1, g2, _, _, hdec, _, _, htk, hck, g0, _, hso, _⟩ := C01.xar_sign_guards C E f hk ki so h
  have hle := xar_origSig_le E.num tks so.origSig hck
  refine ⟨t, n, tks, by simpa [xarHeaderClen, hph] using hdec, htk, hle, ?_⟩
  intro hk3
  have hot : so.origTotal = 28 + hd.clen + so.origSig := by
    rw [hso]
    simp only
    exact w64_id (by unfold inI64; omega)
  refine ⟨by omega, by omega, ?_⟩
  intro body
  rw [xar_patch_entries_eq _ (by omega)]
  have : (so.origTotal.toNat - 1) / 4294967295 ≤ (1000027 + 1000000 * (3 * tks.length)) / 4294967295 :=
    Nat.div_le_div_right (by omega)
  omega

end Relic.Props.C11

/-
  C02 — Any change to signed content makes verification fail.   Mach-O part: the code pages.
  What is protected: every byte of the image below `codeLimit` (through the page slots of the CMS-signed code
  directory) — in particular the Mach-O header and all load commands.  What is NOT protected, stated explicitly below:
  bytes at or behind `codeLimit` other than the code directory / hashed items themselves, i.e. the zero padding
  behind the superblob inside the signature region and anything behind the signature (`macho_outside_codeLimit`).
-/
import Relic.Proofs.CodeDirVerify
namespace Relic.Props.C02
open Relic Relic.CodeDir

/-- **macho_verify_streams.** For a directory with one slot per page (`nCodeSlots = ⌈codeLimit/2^k⌉`, which is what
    relic's signer writes, see C05) and a file at least `codeLimit` long, the byte strings `VerifyPages` hashes are
    exactly the pages of `file[0:codeLimit]`, compared slot by slot, and it accepts iff all of them match. -/
theorem macho_verify_streams (ps : Nat) (hps : 0 < ps) (slots : List Bytes) (file : Bytes) (limit : Nat)
    (hfile : limit ≤ file.length) (hslots : slots.length = (pages ps (file.take limit)).length) :
    verifyLoop ps slots (file.take limit) (limit : Nat) ps = (zipChecks (pages ps (file.take limit)) slots, .ok ()) := by
  have hl : (file.take limit).length = limit := by simp [List.length_take]; omega
  have := verifyLoop_pages ps hps slots (file.take limit) hslots
  rw [hl] at this
  exact this

/-- **macho_tamper_evident.** Injectivity of the page decomposition, with locality: if two images of the same
    length differ at a position `p`, the page stream number `p / ps` differs — so for every hash function that does
    not collide on these two page streams the recomputed slot differs from the signed one, and `VerifyPages` fails
    with "digest mismatch: page p/ps". -/
theorem macho_tamper_evident (ps : Nat) (hps : 0 < ps) (a b : Bytes) (hl : a.length = b.length) (p : Nat)
    (hp : a[p]? ≠ b[p]?) : (pages ps a)[p / ps]? ≠ (pages ps b)[p / ps]? :=
  pages_differ_at ps hps a b hl p hp

/-- the global form: equal page streams ⇒ equal images (nothing below `codeLimit` escapes the pages) -/
theorem macho_pages_injective (ps : Nat) (hps : 0 < ps) (a b : Bytes) (h : pages ps a = pages ps b) : a = b :=
  pages_inj ps hps a b h

/-- consequence for a verifier run under collision-freeness on the streams involved: if the original `a` passes
    against `slots` and the mutant `b` (same length, differing at `p < limit`) is checked against the same slots,
    then some comparison of the mutant's plan hashes a stream different from the original's at the same index -/
theorem macho_mutant_plan_differs (ps : Nat) (hps : 0 < ps) (slots : List Bytes) (a b : Bytes) (limit p : Nat)
    (hla : limit ≤ a.length) (hlb : limit ≤ b.length) (hp : p < limit) (hdiff : a[p]? ≠ b[p]?)
    (hslots : slots.length = (pages ps (a.take limit)).length) :
    ∃ ca cb, (verifyLoop ps slots (a.take limit) (limit : Nat) ps).1[p / ps]? = some ca ∧
             (verifyLoop ps slots (b.take limit) (limit : Nat) ps).1[p / ps]? = some cb ∧
             ca.expected = cb.expected ∧ ca.stream ≠ cb.stream := by
  have hta : (a.take limit).length = limit := by simp [List.length_take]; omega
  have htb : (b.take limit).length = limit := by simp [List.length_take]; omega
  have hlen : (pages ps (a.take limit)).length = (pages ps (b.take limit)).length := by
    rw [pages_length ps hps, pages_length ps hps, hta, htb]
  rw [macho_verify_streams ps hps slots a limit hla hslots,
      macho_verify_streams ps hps slots b limit hlb (hslots.trans hlen)]
  have hd : (a.take limit)[p]? ≠ (b.take limit)[p]? := by
    rw [List.getElem?_take_of_lt hp, List.getElem?_take_of_lt hp]; exact hdiff
  have key := pages_differ_at ps hps (a.take limit) (b.take limit) (hta.trans htb.symm) p hd
  -- both page lists have an entry at p / ps
  have hq : p / ps < (pages ps (a.take limit)).length := by
    have := pages_getElem? ps hps (a.take limit) (p / ps)
    have c : p / ps * ps < (a.take limit).length := by
      rw [hta]; exact Nat.lt_of_le_of_lt (Nat.div_mul_le_self p ps) hp
    simp only [c, ↓reduceIte] at this
    exact (List.getElem?_eq_some_iff.mp this).1
  have hqb : p / ps < (pages ps (b.take limit)).length := hlen ▸ hq
  have hqs : p / ps < slots.length := hslots ▸ hq
  refine ⟨⟨(pages ps (a.take limit))[p / ps], slots[p / ps]⟩, ⟨(pages ps (b.take limit))[p / ps], slots[p / ps]⟩, ?_, ?_, rfl, ?_⟩
  · simp [zipChecks, List.getElem?_zip_eq_some, hq, hqs]
  · simp [zipChecks, List.getElem?_zip_eq_some, hqb, hqs]
  · intro h
    apply key
    rw [List.getElem?_eq_getElem hq, List.getElem?_eq_getElem hqb]
    exact congrArg some h

/-- **macho_outside_codeLimit** (what is NOT protected by the page slots): the verifier's page checks depend on the
    file only through `file[0:codeLimit]`.  Bytes behind `codeLimit` – the signature's zero padding, anything
    appended after the signature – never reach a hash. -/
theorem macho_outside_codeLimit (d : Dir) (f g : Bytes) (h : f.take (codeSize d.hdr).toNat = g.take (codeSize d.hdr).toNat) :
    verifyPages d f = verifyPages d g := by
  unfold verifyPages
  simp only [h]

/-! ### non-vacuity -/

example : (pages 4 [1, 2, 3, 4, 5, 6])[1]? ≠ (pages 4 [1, 2, 3, 4, 9, 6])[1]? := by decide
example : (verifyLoop 4 [[7], [8]] [1, 2, 3, 4, 5] 5 4) = ([⟨[1, 2, 3, 4], [7]⟩, ⟨[5], [8]⟩], .ok ()) := by decide
/-- too few slots for the indicated size are NOT an error at the end of the loop: the tail is unchecked
    (the slot count is under the CMS signature, so this is the signer's responsibility) -/
example : (verifyLoop 4 [[7]] [1, 2, 3, 4, 5] 5 4) = ([⟨[1, 2, 3, 4], [7]⟩], .ok ()) := by decide

end Relic.Props.C02

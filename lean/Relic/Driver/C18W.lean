/- line-protocol handlers for the comdoc writer model (C18: alloc / free / adds / wrm) -/
import Relic.Model.CfbWriter
namespace Relic.Driver.C18W
open Relic Relic.CfbW

def parseInts (s : String) : Option (List Int) :=
  if s = "_" then some [] else (s.splitOn ",").mapM (·.toInt?)

def parseNats (s : String) : Option (List Nat) :=
  if s = "_" then some [] else (s.splitOn ",").mapM (·.toNat?)

def showInts (l : List Int) : String :=
  if l.isEmpty then "_" else ",".intercalate (l.map toString)

def showNats (l : List Nat) : String :=
  if l.isEmpty then "_" else ",".intercalate (l.map toString)

def showRes {α} (f : α → String) : Res α → String
  | .ok a => "ok " ++ f a
  | .err e => "err " ++ e
  | .panic p => "panic " ++ p
  | .diverge => "diverge"

def parseSlot (s : String) : Option Slot :=
  match s.splitOn ":" with
  | [t, k, st, sz] => do
    let t ← t.toNat?; let k ← k.toNat?; let st ← st.toInt?; let sz ← sz.toNat?
    pure ⟨t, k, st, sz⟩
  | _ => none

def parseSlots (s : String) : Option (List Slot) :=
  if s = "_" then some [] else (s.splitOn ",").mapM parseSlot

/-- `ss,sss,cutoff,version,root,changed;sat;ssat;files;rootFiles;dirStart,dirCount,ssatStart,ssatCount;msat;msatList;satSectors,msatCount,msatNext;fileSectors` -/
def parseState (s : String) : Option St :=
  match s.splitOn ";" with
  | [h, sat, ssat, files, rf, h2, msat, ml, h3, fs] => do
    let h ← parseInts h
    let sat ← parseInts sat
    let ssat ← parseInts ssat
    let files ← parseSlots files
    let rf ← parseNats rf
    let h2 ← parseInts h2
    let msat ← parseInts msat
    let ml ← parseInts ml
    let h3 ← parseInts h3
    let fs ← fs.toNat?
    match h, h2, h3 with
    | [ss, sss, cutoff, version, root, changed], [ds, dc, ss0, sc], [satSectors, msatCount, msatNext] =>
      let rootSlot := files.getD root.toNat emptySlot
      pure {
        a := { ss := ss.toNat, sss := sss.toNat, sat, ssat, rootStart := rootSlot.start, rootSize := rootSlot.size }
        cutoff := cutoff.toNat, version := version.toNat
        files := files.set root.toNat { rootSlot with start := 0, size := 0 }
        root := root.toNat, rootFiles := rf, changed := changed != 0
        dirStart := ds, dirCount := dc.toNat, ssatStart := ss0, ssatCount := sc.toNat
        msat, msatList := ml, satSectors := satSectors.toNat, msatCount := msatCount.toNat, msatNext
        fileSectors := fs }
    | _, _, _ => none
  | _ => none

def showSlot (s : Slot) : String := s!"{s.typ}:{s.key}:{s.start}:{s.size}"

/-- canonical rendering, field by field (name=value) so that the first differing field can be named -/
def fields (st : St) : List (String × String) :=
  let rootSlot := st.files.getD st.root emptySlot
  let files := st.files.set st.root { rootSlot with start := st.a.rootStart, size := st.a.rootSize }
  [("hdr", s!"{st.a.ss},{st.a.sss},{st.cutoff},{st.version},{st.root}"),
   ("changed", if st.changed then "1" else "0"),
   ("sat", showInts st.a.sat), ("ssat", showInts st.a.ssat),
   ("files", if files.isEmpty then "_" else ",".intercalate (files.map showSlot)),
   ("rootFiles", showNats st.rootFiles),
   ("dir", s!"{st.dirStart},{st.dirCount}"), ("ssatHead", s!"{st.ssatStart},{st.ssatCount}"),
   ("msat", showInts st.msat), ("msatList", showInts st.msatList),
   ("counts", s!"{st.satSectors},{st.msatCount},{st.msatNext}"), ("fileSectors", toString st.fileSectors)]

def firstDiff (skip : List String) : List (String × String) → List (String × String) → Option String
  | (n, a) :: r1, (_, b) :: r2 => if a ≠ b ∧ ¬ skip.contains n then some n else firstDiff skip r1 r2
  | _, _ => none

def insertSorted (x : Nat) : List Nat → List Nat
  | [] => [x]
  | y :: r => if x ≤ y then x :: y :: r else y :: insertSorted x r

def sortNats (l : List Nat) : List Nat := l.foldr insertSorted []

def applyOp (st : St) (op : String) : Option (Res St) :=
  match op.splitOn ":" with
  | ["a", k, nu, len] => do
    let k ← k.toNat?; let nu ← nu.toNat?; let len ← len.toNat?
    pure (addFile st k nu len)
  | ["d", k] => do
    let k ← k.toNat?
    pure (deleteFile st k)
  | ["c"] => some (close st)
  | _ => none

def classOf {α} : Res α → String
  | .ok _ => "ok" | .err e => "err:" ++ e | .panic p => "panic:" ++ p | .diverge => "diverge"

/-- replay `op state op state …` from `st`; `i` = step number -/
def replay : Nat → St → List String → String → String
  | i, _, [], acc => s!"ok agree steps={i} #{acc}"
  | i, _, "x" :: why :: _, _ => s!"ok mismatch@{i}:reopen-failed:{why.take 60}"
  | i, st, "o" :: dump :: rest, acc =>
    -- reopen: what relic's reader found in the file it wrote must be the model's state after Close
    -- (rootFiles: same set, the reader lists them in tree order; `changed` is reset)
    match parseState dump with
    | none => "bad-op"
    | some d =>
      let st' := { st with changed := false, fileSectors := d.fileSectors }
      match firstDiff ["rootFiles", "changed"] (fields st') (fields d) with
      | some n => s!"ok mismatch@{i}:reopen:{n}"
      | none =>
        if sortNats st.rootFiles ≠ sortNats d.rootFiles then s!"ok mismatch@{i}:reopen:rootFiles"
        else replay (i + 1) d rest (acc ++ "o")
  | i, st, op :: outcome :: rest, acc =>
    match applyOp st op with
    | none => "bad-op"
    | some r =>
      match r with
      | .ok st' =>
        match parseState outcome with
        | none => s!"ok mismatch@{i}:{op}:model-ok-impl-{outcome}"
        | some d =>
          match firstDiff [] (fields st') (fields d) with
          | some n => s!"ok mismatch@{i}:{op}:{n}"
          | none => replay (i + 1) st' rest (acc ++ (op.take 1).toString)
      | r =>
        -- the model predicts an error / panic: the implementation must report the same class
        let same := match r with
          | .panic _ => outcome.startsWith "panic"
          | _ => outcome = classOf r
        if same then s!"ok agree steps={i} stopped={classOf r} #{acc}" else s!"ok mismatch@{i}:{op}:model-{classOf r}-impl-{outcome.take 40}"
  | _, _, _, _ => "bad-op"

def handle : List String → String
  | ["alloc", ss, _short, n, tbl] =>
    match ss.toNat?, n.toNat?, parseInts tbl with
    | some ss, some n, some tbl =>
      showRes (fun (p : List Nat × List Int) => s!"fl={showNats p.1} tbl={showInts p.2}") (makeFree (ss / 4) tbl n)
    | _, _, _ => "bad-op"
  | ["atab", ss, msat, ml, tbl] =>
    match ss.toNat?, parseInts msat, parseInts ml, parseInts tbl with
    | some ss, some msat, some ml, some tbl =>
      showRes (fun (p : List Int × List Int × List Int) => s!"sat={showInts p.1} msat={showInts p.2.1} ml={showInts p.2.2}")
        (allocTables ss (tbl.length + msat.length + 16) tbl msat ml)
    | _, _, _, _ => "bad-op"
  | ["free", start, tbl] =>
    match start.toInt?, parseInts tbl with
    | some s, some tbl => showRes (fun t => s!"tbl={showInts t}") (freeSectors tbl s)
    | _, _ => "bad-op"
  | ["adds", ss, sss, short, len, rs, rz, sat, ssat] =>
    match ss.toNat?, sss.toNat?, len.toNat?, rs.toInt?, rz.toNat?, parseInts sat, parseInts ssat with
    | some ss, some sss, some len, some rs, some rz, some sat, some ssat =>
      let a : Alloc := { ss, sss, sat, ssat, rootStart := rs, rootSize := rz }
      showRes (fun (p : Int × Alloc) =>
        s!"first={p.1} sat={showInts p.2.sat} ssat={showInts p.2.ssat} rs={p.2.rootStart} rz={p.2.rootSize}")
        (addStream a len (short = "1"))
    | _, _, _, _, _, _, _ => "bad-op"
  | "wrm" :: s0 :: rest =>
    match parseState s0 with
    | none => "bad-op"
    | some st => replay 0 st rest ""
  | _ => "bad-op"

end Relic.Driver.C18W

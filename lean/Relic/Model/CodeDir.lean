/-
  Relic.Model.CodeDir — executable model of the Apple code-directory layer of relic:
    /repo/lib/fruit/csblob/pagehash.go   (`hashPages`, `hashFunc`, `hashType`)
    /repo/lib/fruit/csblob/codedir.go    (`newCodeDirectory`, `parseCodeDirectory`, `cstring`)
    /repo/lib/fruit/csblob/superblob.go  (`newSuperItem`, `marshalSuperBlob`, `parseSuper` with the `offset < 0` guard)
    /repo/lib/fruit/csblob/verify.go     (`bestDir`, `CodeSize`, `VerifyPages`)
    /repo/lib/fruit/csblob/sign.go       (the deterministic part of `Sign`: special slots, items, order)
  Hash functions are parameters: whatever is hashed is kept as a `Seg.hash stream`; `render H` substitutes a hash
  function.  The driver prints the segments, the check hashes them (python), the theorems quantify over `H`.
-/
import Relic.Base.Bytes
namespace Relic.CodeDir
open Relic

/-! ### byte strings with holes for hash values -/

inductive Seg where
  | lit (b : Bytes)        -- literal bytes
  | hash (stream : Bytes)  -- `h.Reset(); h.Write(stream); h.Sum(..)`
  | zero                   -- `hashSize` zero bytes (an absent special slot)
  deriving Repr, DecidableEq

def Seg.render (H : Bytes → Bytes) (hs : Nat) : Seg → Bytes
  | .lit b => b
  | .hash s => H s
  | .zero => List.replicate hs 0

def render (H : Bytes → Bytes) (hs : Nat) (segs : List Seg) : Bytes := segs.flatMap (Seg.render H hs)

/-- rendered length when every hash value is `hs` bytes long -/
def Seg.len (hs : Nat) : Seg → Nat
  | .lit b => b.length
  | _ => hs

def segsLen (hs : Nat) (segs : List Seg) : Nat := (segs.map (Seg.len hs)).sum

/-! ### `hashPages` -/

/-- the read loop of `hashPages` (`io.ReadFull(pages, buf)` with `len(buf) = ps`): consecutive pages of `ps` bytes,
    the last one short.  `fuel` bounds the number of iterations (the stream length suffices). -/
def pagesF (ps : Nat) : Nat → Bytes → List Bytes
  | 0, _ => []
  | fuel + 1, b => if b.isEmpty then [] else b.take ps :: pagesF ps fuel (b.drop ps)

def pages (ps : Nat) (b : Bytes) : List Bytes := pagesF ps b.length b

structure PageHashes where
  slots : List Seg     -- `slots[0]`: the concatenated hash values
  count : Nat          -- slotCount
  limit : Nat          -- codeLimit
  deriving Repr, DecidableEq

/-- `hashPages(hashFuncs, pages, singlePage)` for one hash function on the stream `b` -/
def hashPages (b : Bytes) (single : Bool) : PageHashes :=
  if single then ⟨[.hash b], 1, b.length⟩
  else ⟨(pages 4096 b).map .hash, (pages 4096 b).length, b.length⟩

/-! ### hash identifiers -/

/-- `crypto.Hash` values the callers may pass (Go numbering): 3 SHA1, 5 SHA256, 6 SHA384, 7 SHA512 -/
def hashSizeOf (h : Nat) : Nat :=
  if h = 3 then 20 else if h = 5 then 32 else if h = 6 then 48 else if h = 7 then 64 else 0

/-- `hashType(h)` -/
def hashTypeOf (h : Nat) : Option Nat :=
  if h = 3 then some 1 else if h = 5 then some 2 else if h = 6 then some 4 else none

/-- `hashFunc(hashType, hashLen)`: the hash size on success -/
def hashFuncOf (ht hl : Nat) : Option Nat :=
  let sz := if ht = 1 then 20 else if ht = 2 then 32 else if ht = 4 then 48 else 0
  if sz = 0 then none else if sz ≠ hl then none else some sz

/-! ### `newCodeDirectory` -/

structure Params where
  flags : Nat                      -- SignatureFlags (uint32)
  ident : Bytes                    -- SigningIdentity
  team : Bytes                     -- TeamIdentifier ("" = absent)
  execBase : Nat                   -- int64 fields as their two's-complement uint64
  execLimit : Nat
  execFlags : Nat
  specials : List (Option Bytes)   -- nil or content, in the order of the slice (slot −len … −1)
  codeSlots : List Seg
  codeSlotCount : Nat
  hash : Nat                       -- crypto.Hash
  codeLimit : Nat                  -- int64, non-negative
  single : Bool
  deriving Repr, DecidableEq

/-- the 88 bytes `binary.Write(b, binary.BigEndian, hdr)` produces, field by field -/
structure Header where
  magic : Nat
  length : Nat
  version : Nat
  flags : Nat
  hashOffset : Nat
  identOffset : Nat
  nSpecial : Nat
  nCode : Nat
  codeLimit : Nat
  hashSize : Nat
  hashType : Nat
  pageShift : Nat
  scatterOffset : Nat
  teamOffset : Nat
  codeLimit64 : Nat
  execBase : Nat
  execLimit : Nat
  execFlags : Nat
  deriving Repr, DecidableEq

/-- `(width, value)` of every field `binary.Write` emits, in order (blank `_` fields are written as zero) -/
def Header.fields (h : Header) : List (Nat × Nat) :=
  [(4, h.magic), (4, h.length), (4, h.version), (4, h.flags), (4, h.hashOffset), (4, h.identOffset), (4, h.nSpecial),
   (4, h.nCode), (4, h.codeLimit), (1, h.hashSize), (1, h.hashType), (1, 0), (1, h.pageShift), (4, 0),
   (4, h.scatterOffset), (4, h.teamOffset), (4, 0), (8, h.codeLimit64), (8, h.execBase), (8, h.execLimit), (8, h.execFlags)]

def encFields (fs : List (Nat × Nat)) : Bytes := fs.flatMap (fun p => beBytes p.1 p.2)

def Header.enc (h : Header) : Bytes := encFields h.fields

def specialSeg : Option Bytes → Seg
  | some s => .hash s
  | none => .zero

/-- the header `newCodeDirectory` fills in -/
def mkHeader (p : Params) (ht : Nat) : Header :=
  let hs := hashSizeOf p.hash % 256
  let nsp := p.specials.length
  let identOff := 88
  let afterIdent := identOff + p.ident.length + 1
  let teamOff := if p.team.isEmpty then 0 else afterIdent
  let afterTeam := if p.team.isEmpty then afterIdent else afterIdent + p.team.length + 1
  let exec := p.execBase ≠ 0 ∨ p.execLimit ≠ 0 ∨ p.execFlags ≠ 0
  { magic := 0xfade0c02
    length := afterTeam + hashSizeOf p.hash * nsp + segsLen (hashSizeOf p.hash) p.codeSlots
    version := if exec then 0x20400 else 0x20300
    flags := p.flags
    -- `uint32(offset) + hdr.SpecialSlotCount*uint32(hdr.HashSize)`
    hashOffset := afterTeam + (nsp % 2 ^ 32) * hs
    identOffset := identOff
    nSpecial := nsp
    nCode := p.codeSlotCount
    codeLimit := if p.codeLimit > 2 ^ 31 - 2 then 0 else p.codeLimit
    hashSize := hs
    hashType := ht
    pageShift := if p.single then 0 else 12
    scatterOffset := 0
    teamOffset := teamOff
    codeLimit64 := if p.codeLimit > 2 ^ 31 - 2 then p.codeLimit else 0
    execBase := p.execBase, execLimit := p.execLimit, execFlags := p.execFlags }

/-- `newCodeDirectory(params)`: the marshalled directory with the hash values still symbolic -/
def newCodeDirectory (p : Params) : Res (List Seg) :=
  match hashTypeOf p.hash with
  | none => .err "hashtype"
  | some ht =>
    .ok ([.lit ((mkHeader p ht).enc ++ p.ident ++ [0] ++ (if p.team.isEmpty then [] else p.team ++ [0]))] ++
         p.specials.map specialSeg ++ p.codeSlots)

/-! ### superblobs -/

structure Item where
  magic : Nat
  itype : Nat
  data : List Seg
  deriving Repr, DecidableEq

def csItype (magic : Nat) : Nat :=
  if magic = 0xfade0c01 then 2 else if magic = 0xfade7171 then 5 else if magic = 0xfade7172 then 7
  else if magic = 0xfade0b01 then 0x10000 else 0

/-- `newSuperItem(magic, payload)` -/
def newSuperItem (magic : Nat) (payload : Bytes) : Item :=
  ⟨magic, csItype magic, [.lit (beBytes 4 magic ++ beBytes 4 (payload.length + 8) ++ payload)]⟩

/-- the index of `marshalSuperBlob`: `(itype, offset)` pairs, offsets accumulate from `12 + 8·count` -/
def superIndex (hs : Nat) : Nat → List Item → Bytes
  | _, [] => []
  | off, i :: is => beBytes 4 i.itype ++ beBytes 4 off ++ superIndex hs (off + segsLen hs i.data) is

/-- `marshalSuperBlob(magic, items)` -/
def marshalSuperBlob (hs : Nat) (magic : Nat) (items : List Item) : List Seg :=
  let start := 12 + 8 * items.length
  let total := start + (items.map (fun i => segsLen hs i.data)).sum
  [.lit (beBytes 4 magic ++ beBytes 4 total ++ beBytes 4 items.length ++ superIndex hs start items)] ++
    items.flatMap (·.data)

def be32 (b : Bytes) (off : Nat) : Nat := beVal ((b.drop off).take 4)

structure RawItem where
  magic : Nat
  itype : Nat
  off : Nat      -- position of the item inside the blob
  len : Nat
  deriving Repr, DecidableEq

/-- the entry loop of `parseSuper` (with the `offset < 0` guard of the fixed tree) -/
def superEntries (blob : Bytes) (dataOffset : Nat) : Nat → Nat → Res (List RawItem)
  | 0, _ => .ok []
  | n + 1, idx =>
    let itype := be32 blob idx
    let offRaw := be32 blob (idx + 4)
    let dataLen := blob.length - dataOffset
    if offRaw < dataOffset ∨ dataLen < 8 ∨ offRaw - dataOffset > dataLen - 8 then .err "short" else
    let length := be32 blob (offRaw + 4)
    if offRaw - dataOffset + length > dataLen then .err "short" else
    match superEntries blob dataOffset n (idx + 8) with
    | .ok rest => .ok (⟨be32 blob offRaw, itype, offRaw, length⟩ :: rest)
    | e => e

/-- `parseSuper(blob)`: magic and the located items -/
def parseSuper (blob : Bytes) : Res (Nat × List RawItem) :=
  if blob.length < 12 then .err "short" else
  let length := be32 blob 4
  let count := be32 blob 8
  if length < 8 ∨ blob.length < length then .err "length" else
  if blob.length - 12 < 8 * count then .err "short" else
  match superEntries blob (12 + 8 * count) count 12 with
  | .ok items => .ok (be32 blob 0, items)
  | .err e => .err e
  | .panic p => .panic p
  | .diverge => .diverge

/-! ### `parseCodeDirectory` -/

structure Dir where
  hdr : Header
  ident : Bytes
  team : Bytes
  hashSize : Nat
  code : List Bytes       -- the code slots as stored (an all-zero slot is `nil` in Go: it never compares equal)
  special : List Bytes    -- slots −1, −2, …
  deriving Repr, DecidableEq

def be8 (b : Bytes) (off : Nat) : Nat := beVal ((b.drop off).take 1)
def be64 (b : Bytes) (off : Nat) : Nat := beVal ((b.drop off).take 8)

/-- `cstring(blob, i)` -/
def cstring (blob : Bytes) (i : Nat) : Option Bytes :=
  if i ≥ blob.length then none else
  let t := blob.drop i
  if t.contains 0 then some (t.takeWhile (· ≠ 0)) else none

/-- `binary.Read` of the 88-byte header followed by the version switch -/
def readHeader (blob : Bytes) : Header :=
  let version := be32 blob 8
  { magic := be32 blob 0, length := be32 blob 4, version, flags := be32 blob 12, hashOffset := be32 blob 16,
    identOffset := be32 blob 20, nSpecial := be32 blob 24, nCode := be32 blob 28, codeLimit := be32 blob 32,
    hashSize := be8 blob 36, hashType := be8 blob 37, pageShift := be8 blob 39,
    scatterOffset := if version < 0x20100 then 0 else be32 blob 44,
    teamOffset := if version < 0x20200 then 0 else be32 blob 48,
    codeLimit64 := if version < 0x20300 then 0 else be64 blob 56,
    execBase := if version < 0x20400 then 0 else be64 blob 64,
    execLimit := if version < 0x20400 then 0 else be64 blob 72,
    execFlags := if version < 0x20400 then 0 else be64 blob 80 }

def slotAt (buf : Bytes) (base hs : Nat) (i : Nat) : Bytes := (buf.drop (base + i * hs)).take hs

/-- `parseCodeDirectory(blob, itype)`; `extra` are the bytes that follow `blob` inside the capacity of the Go slice
    (slicing `blob[a:b]` is checked against the capacity, not the length). -/
def parseCodeDirectory (blob extra : Bytes) : Res Dir :=
  if blob.length < 88 then .err "eof" else
  let h := readHeader blob
  match (if h.identOffset ≠ 0 then cstring blob h.identOffset else some []) with
  | none => .err "short"
  | some ident =>
  match (if h.teamOffset ≠ 0 then cstring blob h.teamOffset else some []) with
  | none => .err "short"
  | some team =>
  if h.scatterOffset ≠ 0 then .err "scatter" else
  match hashFuncOf h.hashType h.hashSize with
  | none => .err "hash"
  | some hs =>
    let cap := blob.length + extra.length
    -- code slots first: `blob[hashBase+i*hashLen : hashBase+(i+1)*hashLen]`
    if h.nCode ≠ 0 ∧ h.hashOffset + h.nCode * hs > cap then .panic "csblob.parseCodeDirectory:slice" else
    -- then the special slots −1 … −n
    if h.nSpecial ≠ 0 ∧ (h.hashOffset > cap ∨ h.hashOffset < h.nSpecial * hs) then .panic "csblob.parseCodeDirectory:slice" else
    let buf := blob ++ extra
    .ok { hdr := h, ident, team, hashSize := hs,
          code := (List.range h.nCode).map (slotAt buf h.hashOffset hs),
          special := (List.range h.nSpecial).map (fun i => slotAt buf (h.hashOffset - (i + 1) * hs) hs 0) }

/-! ### `VerifyPages` -/

def toI64 (n : Nat) : Int := if n % 2 ^ 64 < 2 ^ 63 then (n % 2 ^ 64 : Nat) else (n % 2 ^ 64 : Nat) - 2 ^ 64

/-- `SigBlob.CodeSize()` for the chosen directory -/
def codeSize (h : Header) : Int := if h.codeLimit64 ≠ 0 then toI64 h.codeLimit64 else h.codeLimit

/-- one comparison the verifier makes: the bytes it hashes and the slot it expects -/
structure Check where
  stream : Bytes
  expected : Bytes
  deriving Repr, DecidableEq

structure VerifyPlan where
  checks : List Check
  final : Res Unit       -- the outcome when every comparison succeeds
  deriving Repr, DecidableEq

/-- an all-zero slot is `nil` in the parsed directory: `hmac.Equal(computed, nil)` is false.  The model keeps the
    stored bytes; the check (python) applies this rule (a hash value is never all zero in practice). -/
def verifyLoop (ps : Nat) : List Bytes → Bytes → Int → Nat → List Check × Res Unit
  | [], _, _, _ => ([], .ok ())
  | e :: es, r, remaining, pageLen =>
    if remaining ≤ 0 then ([], .err "fewslots") else
    let pageLen := if remaining < pageLen then remaining.toNat else pageLen
    if r.length < pageLen then ([], .err "eof") else
    let (cs, fin) := verifyLoop ps es (r.drop pageLen) (remaining - pageLen) pageLen
    (⟨r.take pageLen, e⟩ :: cs, fin)

/-- `SigBlob.VerifyPages(io.NewSectionReader(r, 0, CodeSize()))` for a blob whose best directory is `d`;
    `file` is the whole image.  page sizes above 2^24 are refused. -/
def verifyPages (d : Dir) (file : Bytes) : VerifyPlan :=
  let remaining := codeSize d.hdr
  let r := file.take remaining.toNat       -- the section reader
  if d.hdr.pageShift = 0 then
    if d.code.length ≠ 1 then ⟨[], .err "slots1"⟩ else
    if (r.length : Int) ≠ remaining then ⟨[], .err "size"⟩ else
    ⟨[⟨r, d.code.headD []⟩], .ok ()⟩
  else if d.hdr.pageShift > 24 then ⟨[], .err "pagesize"⟩   -- refused since the fix (63: `make` panicked; 31..62: huge allocation)
  else
    let ps := 2 ^ d.hdr.pageShift
    let (cs, fin) := verifyLoop ps d.code r remaining ps
    ⟨cs, fin⟩

/-! ### the deterministic part of `csblob.Sign` -/

structure SignParams where
  hash : Nat
  flags : Nat
  ident : Bytes
  team : Bytes
  execBase : Nat
  execLimit : Nat
  execFlags : Nat
  requirements : Option Bytes
  entitlement : Option Bytes
  entitlementDER : Option Bytes
  infoPlist : Option Bytes
  resources : Option Bytes
  repSpecific : Option Bytes
  deriving Repr, DecidableEq

/-- the requirements item: a requirement set is re-wrapped, a single requirement becomes the designated one -/
def reqItem (v : Bytes) : Res Item :=
  if v.length < 8 then .err "requirements" else
  let magic := be32 v 0
  if magic = 0xfade0c01 then .ok (newSuperItem 0xfade0c01 (v.drop 8))
  else if magic = 0xfade0c00 then
    let j : Item := { newSuperItem 0xfade0c00 (v.drop 8) with itype := 3 }
    let set := render (fun _ => []) 0 (marshalSuperBlob 0 0xfade0c01 [j])
    .ok (newSuperItem 0xfade0c01 (set.drop 8))
  else .err "requirements"

def litOf (i : Item) : Bytes := render (fun _ => []) 0 i.data

/-- `for specials[0] == nil && len(specials) > 5 { specials = specials[1:] }` -/
def trimSpecials : List (Option Bytes) → List (Option Bytes)
  | none :: rest => if rest.length + 1 > 5 then trimSpecials rest else none :: rest
  | l => l

structure Signed where
  pages : PageHashes
  cd : List Seg            -- the code directory
  hashed : List Item       -- requirements / entitlements items
  deriving Repr, DecidableEq

/-- `csblob.Sign` up to the CMS step, on the page stream `stream` (old-signature defaults already applied) -/
def signBlob (p : SignParams) (stream : Bytes) : Res Signed :=
  let ph := hashPages stream p.repSpecific.isSome
  match (match p.requirements with | some v => (reqItem v).bind (fun i => .ok (some i)) | none => .ok none) with
  | .err e => .err e
  | .panic s => .panic s
  | .diverge => .diverge
  | .ok req =>
    let ent := p.entitlement.map (newSuperItem 0xfade7171)
    let entDER := p.entitlementDER.map (newSuperItem 0xfade7172)
    let specials := trimSpecials [entDER.map litOf, p.repSpecific, ent.map litOf, none, p.resources, req.map litOf, p.infoPlist]
    let cdp : Params := { flags := p.flags, ident := p.ident, team := p.team, execBase := p.execBase, execLimit := p.execLimit,
                          execFlags := p.execFlags, specials, codeSlots := ph.slots, codeSlotCount := ph.count,
                          hash := p.hash, codeLimit := ph.limit, single := p.repSpecific.isSome }
    match newCodeDirectory cdp with
    | .ok cd => .ok ⟨ph, cd, req.toList ++ ent.toList ++ entDER.toList⟩
    | .err e => .err e
    | .panic s => .panic s
    | .diverge => .diverge

/-- the embedded signature: `[code directory] ++ hashed items ++ [CMS wrapper]` -/
def superblob (hs : Nat) (s : Signed) (cms : Bytes) : List Seg :=
  marshalSuperBlob hs 0xfade0cc0 ([⟨0xfade0c02, 0, s.cd⟩] ++ s.hashed ++ [newSuperItem 0xfade0b01 cms])

end Relic.CodeDir

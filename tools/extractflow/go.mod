module extractflow

go 1.22

/-
  Relic.Proofs.Daemon — invariants of the Serve/Close machine of Relic.Model.Daemon.
-/
import Relic.Model.Daemon
namespace Relic.Daemon

/-! ### list lemmas -/

theorem all_set {α} (p : α → Bool) (x : α) : ∀ (l : List α) (i : Nat), l.all p = true → p x = true → (l.set i x).all p = true
  | [], _, _, _ => by simp
  | a :: l, 0, h, hx => by simp_all [List.set]
  | a :: l, i + 1, h, hx => by
    simp only [List.set, List.all_cons, Bool.and_eq_true] at h ⊢
    exact ⟨h.1, all_set p x l i h.2 hx⟩

theorem any_set {α} (p : α → Bool) (x : α) : ∀ (l : List α) (i : Nat), l.any p = true → p x = true → (l.set i x).any p = true
  | [], _, h, _ => by simp at h
  | a :: l, 0, h, hx => by simp_all [List.set]
  | a :: l, i + 1, h, hx => by
    simp only [List.set, List.any_cons, Bool.or_eq_true] at h ⊢
    rcases h with h | h
    · exact .inl h
    · exact .inr (any_set p x l i h hx)

theorem any_set_at {α} (p : α → Bool) (x y : α) : ∀ (l : List α) (i : Nat), l[i]? = some y → p x = true → (l.set i x).any p = true
  | [], _, h, _ => by simp at h
  | a :: l, 0, _, hx => by simp_all [List.set]
  | a :: l, i + 1, h, hx => by
    simp only [List.getElem?_cons_succ] at h
    simp only [List.set, List.any_cons, Bool.or_eq_true]
    exact .inr (any_set_at p x y l i h hx)

theorem all_at {α} (p : α → Bool) (y : α) (l : List α) (i : Nat) (h : l[i]? = some y) (ha : l.all p = true) : p y = true :=
  List.all_eq_true.mp ha y (List.mem_of_getElem? h)

theorem any_at {α} (p : α → Bool) (y : α) (l : List α) (i : Nat) (h : l[i]? = some y) (hy : p y = true) : l.any p = true :=
  List.any_eq_true.mpr ⟨y, List.mem_of_getElem? h, hy⟩

theorem ne_nil_at {α} (y : α) (l : List α) (i : Nat) (h : l[i]? = some y) : l ≠ [] := by
  intro hl; subst hl; simp at h

/-! ### the no-timeout invariant -/

/-- no stage carries an expired context or a Shutdown error -/
def CSt.clean : CSt → Bool
  | .waiting e => !e
  | .shutdownDone e => !e
  | .checked _ e => !e
  | .chClosed e => !e
  | .chDone e => !e
  | .returned e => !e

/-- Shutdown has returned -/
def CSt.past : CSt → Bool
  | .waiting _ => false
  | _ => true

/-- `close(s.closeCh)` was executed, or skipped because `s.closeCh` was nil -/
def CSt.late : CSt → Bool
  | .checked false _ => true
  | .chClosed _ => true
  | .chDone _ => true
  | .returned _ => true
  | _ => false

structure Inv (s : St) : Prop where
  clean : s.closers.all CSt.clean = true
  drained : s.closers.any CSt.past = true → s.inflight = []
  shut : s.closers = [] ∨ s.inShutdown = true
  tok : s.tokensOpen = false → s.closers.any CSt.past = true
  noClosedUse : ∀ r ∈ s.inflight, r.st ≠ .tokClosed
  good : ∀ p ∈ s.responses, p.2 = .good
  noUac : s.tokenUseAfterClose = false
  chNil : s.chNil = true → s.closedCh = true
  late : s.closers.any CSt.late = true → s.closedCh = true

theorem inv_init (n : Nat) : Inv (init n) := by
  constructor <;> simp [init]

theorem setErr_fields (s : St) (e : String) :
    (setErr s e).closers = s.closers ∧ (setErr s e).inflight = s.inflight ∧ (setErr s e).inShutdown = s.inShutdown ∧
    (setErr s e).tokensOpen = s.tokensOpen ∧ (setErr s e).responses = s.responses ∧
    (setErr s e).tokenUseAfterClose = s.tokenUseAfterClose ∧ (setErr s e).chNil = s.chNil ∧ (setErr s e).closedCh = s.closedCh ∧
    (setErr s e).accepted = s.accepted ∧ (setErr s e).lis = s.lis := by
  unfold setErr; split <;> simp

theorem inv_setErr (s : St) (e : String) (h : Inv s) : Inv (setErr s e) := by
  obtain ⟨a, b, c, d, f, g, i, j, _, _⟩ := setErr_fields s e
  constructor
  · rw [a]; exact h.clean
  · rw [a, b]; exact h.drained
  · rw [a, c]; exact h.shut
  · rw [a, d]; exact h.tok
  · rw [b]; exact h.noClosedUse
  · rw [f]; exact h.good
  · rw [g]; exact h.noUac
  · rw [i, j]; exact h.chNil
  · rw [a, j]; exact h.late

/-- every event except the expiry of a Shutdown context preserves the invariant -/
theorem inv_step (s : St) (e : Ev) (he : ∀ c, e ≠ .expire c) (h : Inv s) : Inv (step s e) := by
  cases e with
  | serve =>
    simp only [step]
    split
    · exact h
    · exact ⟨h.clean, h.drained, h.shut, h.tok, h.noClosedUse, h.good, h.noUac, h.chNil, h.late⟩
  | lstart i =>
    simp only [step]
    split
    · exact h
    · split
      · exact ⟨h.clean, h.drained, h.shut, h.tok, h.noClosedUse, h.good, h.noUac, h.chNil, h.late⟩
      · exact h
  | accept i id =>
    simp only [step]
    split
    · rename_i hg
      have hns : s.inShutdown = false := by simpa using hg.2.1
      have hcl : s.closers = [] := by
        rcases h.shut with hc | hc
        · exact hc
        · rw [hns] at hc; cases hc
      refine ⟨h.clean, ?_, h.shut, h.tok, ?_, h.good, h.noUac, h.chNil, h.late⟩
      · intro hp; simp [hcl] at hp
      · intro r hr
        simp only [List.mem_append, List.mem_singleton] at hr
        rcases hr with hr | hr
        · exact h.noClosedUse r hr
        · subst hr; simp
    · exact h
  | token id =>
    simp only [step]
    split
    · rename_i hg
      have hne : s.inflight ≠ [] := by
        intro hn; simp [hn] at hg
      have hopen : s.tokensOpen = true := by
        cases ht : s.tokensOpen
        · exact absurd (h.drained (h.tok ht)) hne
        · rfl
      refine ⟨h.clean, ?_, h.shut, ?_, ?_, h.good, ?_, h.chNil, h.late⟩
      · intro hp; exact absurd (h.drained hp) hne
      · intro ht; simp [hopen] at ht
      · intro r hr
        simp only [List.mem_map] at hr
        obtain ⟨q, hq, rfl⟩ := hr
        split
        · simp [hopen]
        · exact h.noClosedUse q hq
      · simp [hopen, h.noUac]
    · exact h
  | respond id =>
    simp only [step]
    split
    · rename_i r hf
      have hr := List.find?_some hf
      have hmem := List.mem_of_find?_eq_some hf
      have hne : s.inflight ≠ [] := List.ne_nil_of_mem hmem
      refine ⟨h.clean, ?_, h.shut, h.tok, ?_, ?_, h.noUac, h.chNil, h.late⟩
      · intro hp; exact absurd (h.drained hp) hne
      · intro q hq
        exact h.noClosedUse q (List.mem_filter.mp hq).1
      · intro p hp
        simp only [List.mem_append, List.mem_singleton] at hp
        rcases hp with hp | hp
        · exact h.good p hp
        · subst hp
          have h1 := h.noClosedUse r hmem
          have h2 : r.st ≠ .accepted := by
            simp only [Bool.and_eq_true, bne_iff_ne, ne_eq] at hr
            exact hr.2
          cases hst : r.st <;> simp_all
    · exact h
  | lfail i =>
    simp only [step]
    split
    · exact inv_setErr _ _ ⟨h.clean, h.drained, h.shut, h.tok, h.noClosedUse, h.good, h.noUac, h.chNil, h.late⟩
    · exact h
  | close =>
    simp only [step]
    refine ⟨?_, ?_, .inr rfl, ?_, h.noClosedUse, h.good, h.noUac, h.chNil, ?_⟩
    · simp [List.all_append, h.clean, CSt.clean]
    · intro hp
      simp only [List.any_append, List.any_cons, CSt.past, List.any_nil, Bool.or_false] at hp
      exact h.drained hp
    · intro ht
      simp only [List.any_append, List.any_cons, CSt.past, List.any_nil, Bool.or_false]
      exact h.tok ht
    · intro hl
      simp only [List.any_append, List.any_cons, CSt.late, List.any_nil, Bool.or_false] at hl
      exact h.late hl
  | expire c => exact absurd rfl (he c)
  | shutdownRet c =>
    simp only [step]
    split
    · rename_i ex hc
      have hex : ex = false := by simpa [CSt.clean] using all_at _ _ _ _ hc h.clean
      subst hex
      split
      · rename_i hemp
        have hinf : s.inflight = [] := by simpa using hemp
        refine ⟨all_set _ _ _ _ h.clean (by simp [CSt.clean]), fun _ => hinf, ?_, fun _ => any_set_at _ _ _ _ _ hc (by simp [CSt.past]),
          h.noClosedUse, h.good, h.noUac, h.chNil, ?_⟩
        · rcases h.shut with hs | hs
          · exact absurd hs (ne_nil_at _ _ _ hc)
          · exact .inr hs
        · intro hl
          -- a late stage after the update is an old one: `shutdownDone` is not late
          have : s.closers.any CSt.late = true := by
            rw [List.any_eq_true] at hl ⊢
            obtain ⟨x, hx, hxl⟩ := hl
            rcases List.mem_or_eq_of_mem_set hx with hx | hx
            · exact ⟨x, hx, hxl⟩
            · subst hx; simp [CSt.late] at hxl
          exact h.late this
      · simp; exact h
    · exact h
  | chk c =>
    simp only [step]
    split
    · rename_i e hc
      have hcl : e = false := by simpa [CSt.clean] using all_at _ _ _ _ hc h.clean
      subst hcl
      have hpast := any_at CSt.past _ _ _ hc (by simp [CSt.past])
      refine ⟨all_set _ _ _ _ h.clean (by simp [CSt.clean]), fun _ => h.drained hpast, ?_, fun _ => any_set_at _ _ _ _ _ hc (by simp [CSt.past]),
        h.noClosedUse, h.good, h.noUac, h.chNil, ?_⟩
      · rcases h.shut with hs | hs
        · exact absurd hs (ne_nil_at _ _ _ hc)
        · exact .inr hs
      · intro hl
        rw [List.any_eq_true] at hl
        obtain ⟨x, hx, hxl⟩ := hl
        rcases List.mem_or_eq_of_mem_set hx with hx | hx
        · exact h.late (List.any_eq_true.mpr ⟨x, hx, hxl⟩)
        · subst hx
          cases hn : s.chNil
          · simp [hn, CSt.late] at hxl
          · exact h.chNil hn
    · exact h
  | closeCh c =>
    simp only [step]
    split
    · rename_i e hc
      have hcl : e = false := by simpa [CSt.clean] using all_at _ _ _ _ hc h.clean
      subst hcl
      have hpast := any_at CSt.past _ _ _ hc (by simp [CSt.past])
      have hsh : (s.closers.set c (.chClosed false) = [] ∨ s.inShutdown = true) := by
        rcases h.shut with hs | hs
        · exact absurd hs (ne_nil_at _ _ _ hc)
        · exact .inr hs
      split
      · rename_i hcc
        exact ⟨all_set _ _ _ _ h.clean (by simp [CSt.clean]), fun _ => h.drained hpast, hsh, fun _ => any_set_at _ _ _ _ _ hc (by simp [CSt.past]),
          h.noClosedUse, h.good, h.noUac, h.chNil, fun _ => hcc⟩
      · exact ⟨all_set _ _ _ _ h.clean (by simp [CSt.clean]), fun _ => h.drained hpast, hsh, fun _ => any_set_at _ _ _ _ _ hc (by simp [CSt.past]),
          h.noClosedUse, h.good, h.noUac, fun _ => rfl, fun _ => rfl⟩
    · rename_i e hc
      have hcl : e = false := by simpa [CSt.clean] using all_at _ _ _ _ hc h.clean
      subst hcl
      have hpast := any_at CSt.past _ _ _ hc (by simp [CSt.past])
      have hlate := h.late (any_at CSt.late _ _ _ hc (by simp [CSt.late]))
      refine ⟨all_set _ _ _ _ h.clean (by simp [CSt.clean]), fun _ => h.drained hpast, ?_, fun _ => any_set_at _ _ _ _ _ hc (by simp [CSt.past]),
        h.noClosedUse, h.good, h.noUac, h.chNil, fun _ => hlate⟩
      rcases h.shut with hs | hs
      · exact absurd hs (ne_nil_at _ _ _ hc)
      · exact .inr hs
    · exact h
  | nilCh c =>
    simp only [step]
    split
    · rename_i e hc
      have hcl : e = false := by simpa [CSt.clean] using all_at _ _ _ _ hc h.clean
      subst hcl
      have hpast := any_at CSt.past _ _ _ hc (by simp [CSt.past])
      have hlate := h.late (any_at CSt.late _ _ _ hc (by simp [CSt.late]))
      refine ⟨all_set _ _ _ _ h.clean (by simp [CSt.clean]), fun _ => h.drained hpast, ?_, fun _ => any_set_at _ _ _ _ _ hc (by simp [CSt.past]),
        h.noClosedUse, h.good, h.noUac, fun _ => hlate, fun _ => hlate⟩
      rcases h.shut with hs | hs
      · exact absurd hs (ne_nil_at _ _ _ hc)
      · exact .inr hs
    · exact h
  | closeTokens c =>
    simp only [step]
    split
    · rename_i e hc
      have hcl : e = false := by simpa [CSt.clean] using all_at _ _ _ _ hc h.clean
      subst hcl
      have hpast := any_at CSt.past _ _ _ hc (by simp [CSt.past])
      have hlate := h.late (any_at CSt.late _ _ _ hc (by simp [CSt.late]))
      simp only [Bool.false_eq_true, if_false]
      refine ⟨all_set _ _ _ _ h.clean (by simp [CSt.clean]), fun _ => h.drained hpast, ?_, fun _ => any_set_at _ _ _ _ _ hc (by simp [CSt.past]),
        h.noClosedUse, h.good, h.noUac, h.chNil, fun _ => hlate⟩
      rcases h.shut with hs | hs
      · exact absurd hs (ne_nil_at _ _ _ hc)
      · exact .inr hs
    · exact h
  | serveRet =>
    simp only [step]
    split
    · exact ⟨h.clean, h.drained, h.shut, h.tok, h.noClosedUse, h.good, h.noUac, h.chNil, h.late⟩
    · exact h
  | healthExit =>
    simp only [step]
    split
    · exact ⟨h.clean, h.drained, h.shut, h.tok, h.noClosedUse, h.good, h.noUac, h.chNil, h.late⟩
    · exact h

def NoExpire (evs : List Ev) : Prop := ∀ c, Ev.expire c ∉ evs

theorem inv_run (evs : List Ev) : ∀ (s : St), NoExpire evs → Inv s → Inv (run s evs) := by
  induction evs with
  | nil => intro s _ h; exact h
  | cons e es ih =>
    intro s hn h
    simp only [run]
    apply ih
    · intro c hc; exact hn c (List.mem_cons_of_mem _ hc)
    · apply inv_step _ _ _ h
      intro c hc
      exact hn c (by simp [hc])

/-! ### after Shutdown began nothing is accepted -/

@[simp] theorem setErr_inShutdown (s : St) (e : String) : (setErr s e).inShutdown = s.inShutdown := (setErr_fields s e).2.2.1
@[simp] theorem setErr_accepted (s : St) (e : String) : (setErr s e).accepted = s.accepted := (setErr_fields s e).2.2.2.2.2.2.2.2.1

theorem step_shutdown (s : St) (e : Ev) (h : s.inShutdown = true) :
    (step s e).inShutdown = true ∧ (step s e).accepted = s.accepted := by
  cases e <;> simp only [step] <;> (repeat' split) <;> simp_all

theorem run_shutdown (evs : List Ev) : ∀ (s : St), s.inShutdown = true →
    (run s evs).inShutdown = true ∧ (run s evs).accepted = s.accepted := by
  induction evs with
  | nil => intro s h; exact ⟨h, rfl⟩
  | cons e es ih =>
    intro s h
    have := step_shutdown s e h
    have h2 := ih (step s e) this.1
    exact ⟨h2.1, by rw [run, h2.2, this.2]⟩

theorem run_append (a b : List Ev) : ∀ s, run s (a ++ b) = run (run s a) b := by
  induction a with
  | nil => intro s; rfl
  | cons e es ih => intro s; simp [run, ih]

end Relic.Daemon

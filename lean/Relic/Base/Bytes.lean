/-
  Relic.Base.Bytes — byte strings, hex codec for the line protocol, big/little-endian
  integer codecs, the explicit result type used by every modelled function.
  Core Lean only (no Mathlib): this file is linked into the native driver.
-/
namespace Relic

abbrev Bytes := List UInt8

/-- Error classes: a small enum that the Go harness maps real errors onto. -/
inductive Res (α : Type) where
  | ok (a : α)
  | err (e : String)
  | panic (site : String)
  | diverge
  deriving Repr, DecidableEq

namespace Res
def bind {α β} (r : Res α) (f : α → Res β) : Res β :=
  match r with
  | ok a => f a
  | err e => err e
  | panic s => panic s
  | diverge => diverge
instance : Monad Res where
  pure := ok
  bind := bind
def isOk {α} : Res α → Bool
  | ok _ => true
  | _ => false
end Res

/-! ### hex -/

def hexDigit (n : Nat) : Char :=
  if n < 10 then Char.ofNat (48 + n) else Char.ofNat (87 + n)

def hexOfByte (b : UInt8) : List Char :=
  [hexDigit (b.toNat / 16), hexDigit (b.toNat % 16)]

def toHex (b : Bytes) : String :=
  if b.isEmpty then "-" else String.ofList (b.flatMap hexOfByte)

def hexVal (c : Char) : Option Nat :=
  if '0' ≤ c ∧ c ≤ '9' then some (c.toNat - 48)
  else if 'a' ≤ c ∧ c ≤ 'f' then some (c.toNat - 87)
  else if 'A' ≤ c ∧ c ≤ 'F' then some (c.toNat - 55)
  else none

def fromHexChars : List Char → Option Bytes
  | [] => some []
  | [_] => none
  | a :: b :: rest => do
    let x ← hexVal a
    let y ← hexVal b
    let r ← fromHexChars rest
    pure (UInt8.ofNat (x * 16 + y) :: r)

def fromHex (s : String) : Option Bytes :=
  if s = "-" then some [] else fromHexChars s.toList

/-! ### integer codecs -/

/-- big-endian encoding of `n` on `w` bytes (truncating, as Go's conversions do) -/
def beBytes : Nat → Nat → Bytes
  | 0, _ => []
  | w + 1, n => UInt8.ofNat (n / 256 ^ w % 256) :: beBytes w n

def beVal : Bytes → Nat
  | [] => 0
  | b :: bs => b.toNat * 256 ^ bs.length + beVal bs

/-- little-endian encoding of `n` on `w` bytes -/
def leBytes : Nat → Nat → Bytes
  | 0, _ => []
  | w + 1, n => UInt8.ofNat (n % 256) :: leBytes w (n / 256)

def leVal : Bytes → Nat
  | [] => 0
  | b :: bs => b.toNat + 256 * leVal bs

/-- `b[lo:hi]` as Go would evaluate it on a slice of length `b.length`: `none` = panic. -/
def slice? (b : Bytes) (lo hi : Nat) : Option Bytes :=
  if lo ≤ hi ∧ hi ≤ b.length then some ((b.drop lo).take (hi - lo)) else none

def u16le? (b : Bytes) (off : Nat) : Option Nat := (slice? b off (off + 2)).map leVal
def u32le? (b : Bytes) (off : Nat) : Option Nat := (slice? b off (off + 4)).map leVal
def u64le? (b : Bytes) (off : Nat) : Option Nat := (slice? b off (off + 8)).map leVal
def u16be? (b : Bytes) (off : Nat) : Option Nat := (slice? b off (off + 2)).map beVal
def u32be? (b : Bytes) (off : Nat) : Option Nat := (slice? b off (off + 4)).map beVal
def u64be? (b : Bytes) (off : Nat) : Option Nat := (slice? b off (off + 8)).map beVal

/-- the reference notion of "replace `old` bytes at `off` by `blob`" -/
def splice (f : Bytes) (off old : Nat) (blob : Bytes) : Bytes :=
  f.take off ++ blob ++ f.drop (off + old)

/-! ### line protocol helpers -/

def words (s : String) : List String :=
  (s.trimAscii.toString.splitOn " ").filter (· ≠ "")

end Relic

/-
  Relic.Proofs.XmlSens — `canon` is sensitive to single edits of the input tree.
-/
import Relic.Proofs.Xml
namespace Relic.Xml.Sens
open Relic

/-! ### (A) one character-data node changed -/

mutual
/-- `TextEdit d d' t t'`: `t'` is `t` with exactly one character-data node `.text d c` replaced by `.text d' c` -/
def TextEdit (d d' : Bytes) : Node → Node → Prop
  | .elem sp tag as ks, .elem sp' tag' as' ks' => sp = sp' ∧ tag = tag' ∧ as = as' ∧ TextEditL d d' ks ks'
  | .text x c, .text y c' => x = d ∧ y = d' ∧ c = c'
  | _, _ => False
def TextEditL (d d' : Bytes) : List Node → List Node → Prop
  | n :: ns, m :: ms => (TextEdit d d' n m ∧ ns = ms) ∨ (n = m ∧ TextEditL d d' ns ms)
  | _, _ => False
end

theorem textEdit_elem (d d' sp tag : Bytes) (as : List Attr) (ks : List Node) (sp' tag' : Bytes) (as' : List Attr)
    (ks' : List Node) :
    TextEdit d d' (.elem sp tag as ks) (.elem sp' tag' as' ks') ↔
      (sp = sp' ∧ tag = tag' ∧ as = as' ∧ TextEditL d d' ks ks') := by
  rw [TextEdit]

theorem textEdit_text (d d' x y : Bytes) (c c' : Bool) :
    TextEdit d d' (.text x c) (.text y c') ↔ (x = d ∧ y = d' ∧ c = c') := by
  rw [TextEdit]

theorem textEditL_cons (d d' : Bytes) (n m : Node) (ns ms : List Node) :
    TextEditL d d' (n :: ns) (m :: ms) ↔ ((TextEdit d d' n m ∧ ns = ms) ∨ (n = m ∧ TextEditL d d' ns ms)) := by
  rw [TextEditL]

mutual
theorem pushDown_textEdit (d d' : Bytes) (t : Bool) (s v : Bytes) :
    ∀ n m, TextEdit d d' n m → TextEdit d d' (pushDown t s v n) (pushDown t s v m)
  | .elem sp tag as ks, m, h => by
    cases m with
    | elem sp' tag' as' ks' =>
      simp only [TextEdit] at h
      obtain ⟨rfl, rfl, rfl, hk⟩ := h
      simp only [pushDown]
      split
      · refine (textEdit_elem ..).2 ⟨rfl, rfl, rfl, hk⟩
      · split
        · refine (textEdit_elem ..).2 ⟨rfl, rfl, rfl, hk⟩
        · refine (textEdit_elem ..).2 ⟨rfl, rfl, rfl, pushDownList_textEdit d d' s v ks ks' hk⟩
    | text _ _ => simp [TextEdit] at h
    | comment _ => simp [TextEdit] at h
    | procinst _ _ => simp [TextEdit] at h
    | directive _ => simp [TextEdit] at h
  | .text x c, m, h => by
    cases m <;> simp [TextEdit] at h
    simp [pushDown, TextEdit, h]
  | .comment _, m, h => by cases m <;> simp [TextEdit] at h
  | .procinst _ _, m, h => by cases m <;> simp [TextEdit] at h
  | .directive _, m, h => by cases m <;> simp [TextEdit] at h
theorem pushDownList_textEdit (d d' : Bytes) (s v : Bytes) :
    ∀ ns ms, TextEditL d d' ns ms → TextEditL d d' (pushDownList s v ns) (pushDownList s v ms)
  | [], ms, h => by simp [TextEditL] at h
  | n :: ns, [], h => by simp [TextEditL] at h
  | n :: ns, m :: ms, h => by
    simp only [TextEditL] at h
    simp only [pushDownList]
    rw [textEditL_cons]
    rcases h with ⟨h1, rfl⟩ | ⟨rfl, h2⟩
    · exact Or.inl ⟨pushDown_textEdit d d' false s v n m h1, rfl⟩
    · exact Or.inr ⟨rfl, pushDownList_textEdit d d' s v ns ms h2⟩
end

theorem pullDownWith_textEdit (d d' : Bytes) (m : SpaceMap) (t t' : Node) (h : TextEdit d d' t t') :
    TextEdit d d' (pullDownWith m t) (pullDownWith m t') := by
  induction m generalizing t t' with
  | nil => exact h
  | cons e m ih =>
    simp only [pullDownWith, List.foldl_cons] at ih ⊢
    exact ih _ _ (pushDown_textEdit d d' false e.1 e.2 t t' h)

theorem walkLoop_textEdit (d d' : Bytes) (esp : Bytes) (done todo : List Attr) (ks ks' : List Node)
    (h : TextEditL d d' ks ks') :
    (walkLoop esp done todo ks).1 = (walkLoop esp done todo ks').1 ∧
      TextEditL d d' (walkLoop esp done todo ks).2 (walkLoop esp done todo ks').2 := by
  induction todo generalizing done ks ks' with
  | nil => simp [walkLoop, h]
  | cons a todo ih =>
    simp only [walkLoop]
    split
    · split
      · exact ih _ _ _ h
      · exact ih _ _ _ (pushDownList_textEdit d d' _ _ _ _ h)
    · exact ih _ _ _ h

theorem walk_textEdit_aux (d d' : Bytes) : ∀ k : Nat,
    (∀ n m, cnt n ≤ k → TextEdit d d' n m → TextEdit d d' (walk n) (walk m)) ∧
    (∀ ns ms, cntL ns ≤ k → TextEditL d d' ns ms → TextEditL d d' (walkKids ns) (walkKids ms)) := by
  intro k
  induction k with
  | zero =>
    constructor
    · intro n m h; have := cnt_pos n; omega
    · intro ns ms h he
      cases ns with
      | nil => simp [TextEditL] at he
      | cons n ns => simp only [cntL] at h; have := cnt_pos n; omega
  | succ k ih =>
    have hnode : ∀ n m, cnt n ≤ k + 1 → TextEdit d d' n m → TextEdit d d' (walk n) (walk m) := by
      intro n m h he
      cases n with
      | elem sp tag attrs kids =>
        cases m with
        | elem sp' tag' as' ks' =>
          simp only [TextEdit] at he
          obtain ⟨rfl, rfl, rfl, hk⟩ := he
          simp only [cnt] at h
          obtain ⟨h1, h2⟩ := walkLoop_textEdit d d' sp [] attrs kids ks' hk
          rw [walk, walk]
          refine (textEdit_elem ..).2 ⟨rfl, rfl, by rw [h1], ih.2 _ _ (by rw [cntL_walkLoop]; omega) h2⟩
        | text _ _ => simp [TextEdit] at he
        | comment _ => simp [TextEdit] at he
        | procinst _ _ => simp [TextEdit] at he
        | directive _ => simp [TextEdit] at he
      | text x c =>
        cases m <;> simp [TextEdit] at he
        simp [walk, TextEdit, he]
      | comment _ => cases m <;> simp [TextEdit] at he
      | procinst _ _ => cases m <;> simp [TextEdit] at he
      | directive _ => cases m <;> simp [TextEdit] at he
    refine ⟨hnode, ?_⟩
    intro ns
    induction ns with
    | nil => intro ms _ he; simp [TextEditL] at he
    | cons n ns ihl =>
      intro ms h he
      cases ms with
      | nil => simp [TextEditL] at he
      | cons m ms =>
        simp only [cntL] at h
        have hn := cnt_pos n
        simp only [TextEditL] at he
        rcases he with ⟨h1, rfl⟩ | ⟨rfl, h2⟩
        · have hw := hnode n m (by omega) h1
          cases n with
          | elem sp tag attrs kids =>
            cases m with
            | elem sp' tag' as' ks' =>
              rw [walkKids, walkKids]
              rw [textEditL_cons]
              exact Or.inl ⟨hw, rfl⟩
            | text _ _ => simp [TextEdit] at h1
            | comment _ => simp [TextEdit] at h1
            | procinst _ _ => simp [TextEdit] at h1
            | directive _ => simp [TextEdit] at h1
          | text x c =>
            cases m <;> simp [TextEdit] at h1
            rw [walkKids, walkKids]
            rw [textEditL_cons]
            exact Or.inl ⟨by simp [TextEdit, h1], rfl⟩
          | comment _ => cases m <;> simp [TextEdit] at h1
          | procinst _ _ => cases m <;> simp [TextEdit] at h1
          | directive _ => cases m <;> simp [TextEdit] at h1
        · have hns := ihl ms (by omega) h2
          cases n with
          | elem sp tag attrs kids =>
            rw [walkKids, walkKids]; rw [textEditL_cons]; exact Or.inr ⟨rfl, hns⟩
          | text x c =>
            rw [walkKids, walkKids]; rw [textEditL_cons]; exact Or.inr ⟨rfl, hns⟩
          | comment _ => rw [walkKids, walkKids]; exact hns
          | procinst _ _ => rw [walkKids, walkKids]; exact hns
          | directive _ => rw [walkKids, walkKids]; exact hns

theorem walk_textEdit (d d' : Bytes) (n m : Node) (h : TextEdit d d' n m) : TextEdit d d' (walk n) (walk m) :=
  (walk_textEdit_aux d d' (cnt n)).1 n m (Nat.le_refl _) h

mutual
theorem ser_textEdit (d d' : Bytes) (hd : d ≠ d') :
    ∀ n m, TextEdit d d' n m → ∀ x : Bytes, ser n ++ x ≠ ser m ++ x
  | .elem sp tag as ks, m, h, x => by
    cases m with
    | elem sp' tag' as' ks' =>
      simp only [TextEdit] at h
      obtain ⟨rfl, rfl, rfl, hk⟩ := h
      intro he
      simp only [ser, List.append_assoc, List.cons_append, List.cons.injEq, true_and,
        List.append_cancel_left_eq] at he
      exact serKids_textEdit d d' hd ks ks' hk _ he
    | text _ _ => simp [TextEdit] at h
    | comment _ => simp [TextEdit] at h
    | procinst _ _ => simp [TextEdit] at h
    | directive _ => simp [TextEdit] at h
  | .text y c, m, h, x => by
    cases m <;> simp [TextEdit] at h
    obtain ⟨rfl, rfl, rfl⟩ := h
    intro he
    cases c with
    | false =>
      simp only [ser] at he
      exact hd (escText_append_inj _ _ x x (by simpa using he) rfl).1
    | true =>
      simp only [ser, if_true, List.append_assoc, List.append_cancel_left_eq] at he
      rw [← List.append_assoc, ← List.append_assoc, List.append_cancel_right_eq] at he
      exact hd (List.append_cancel_right he)
  | .comment _, m, h, x => by cases m <;> simp [TextEdit] at h
  | .procinst _ _, m, h, x => by cases m <;> simp [TextEdit] at h
  | .directive _, m, h, x => by cases m <;> simp [TextEdit] at h
theorem serKids_textEdit (d d' : Bytes) (hd : d ≠ d') :
    ∀ ns ms, TextEditL d d' ns ms → ∀ x : Bytes, serKids ns ++ x ≠ serKids ms ++ x
  | [], ms, h, x => by simp [TextEditL] at h
  | n :: ns, [], h, x => by simp [TextEditL] at h
  | n :: ns, m :: ms, h, x => by
    simp only [TextEditL] at h
    simp only [serKids, List.append_assoc]
    rcases h with ⟨h1, rfl⟩ | ⟨rfl, h2⟩
    · exact ser_textEdit d d' hd n m h1 _
    · intro he
      rw [List.append_cancel_left_eq] at he
      exact serKids_textEdit d d' hd ns ms h2 x he
end

/-- replacing the data of one character-data node (anywhere below the apex) changes the canonical form -/
theorem canon_text_sensitive (ctx : List (List Attr)) (d d' : Bytes) (t t' : Node)
    (hd : d ≠ d') (h : TextEdit d d' t t') : canon ctx t ≠ canon ctx t' := by
  have h1 := walk_textEdit d d' _ _ (pullDownWith_textEdit d d' (collectSpaces ctx) t t' h)
  have h2 := ser_textEdit d d' hd _ _ h1 []
  simpa [canon, pullDown] using h2

/-! ### (B) the value of one non-declaration attribute changed -/

/-- the two attribute lists differ in the value of exactly one attribute `s:k` (same position) -/
def AttrsEdit (s k v v' : Bytes) (as as' : List Attr) : Prop :=
  ∃ pre post, as = pre ++ ⟨s, k, v⟩ :: post ∧ as' = pre ++ ⟨s, k, v'⟩ :: post

mutual
/-- `AttrEdit s k v v' t t'`: `t'` is `t` with the value of exactly one attribute `s:k="v"` of exactly one element
    replaced by `v'` -/
def AttrEdit (s k v v' : Bytes) : Node → Node → Prop
  | .elem sp tag as ks, .elem sp' tag' as' ks' =>
    sp = sp' ∧ tag = tag' ∧ ((AttrsEdit s k v v' as as' ∧ ks = ks') ∨ (as = as' ∧ AttrEditL s k v v' ks ks'))
  | _, _ => False
def AttrEditL (s k v v' : Bytes) : List Node → List Node → Prop
  | n :: ns, m :: ms => (AttrEdit s k v v' n m ∧ ns = ms) ∨ (n = m ∧ AttrEditL s k v v' ns ms)
  | _, _ => False
end

theorem attrEdit_elem (s k v v' sp tag : Bytes) (as : List Attr) (ks : List Node) (sp' tag' : Bytes) (as' : List Attr)
    (ks' : List Node) :
    AttrEdit s k v v' (.elem sp tag as ks) (.elem sp' tag' as' ks') ↔
      (sp = sp' ∧ tag = tag' ∧
        ((AttrsEdit s k v v' as as' ∧ ks = ks') ∨ (as = as' ∧ AttrEditL s k v v' ks ks'))) := by
  rw [AttrEdit]

theorem attrEditL_cons (s k v v' : Bytes) (n m : Node) (ns ms : List Node) :
    AttrEditL s k v v' (n :: ns) (m :: ms) ↔
      ((AttrEdit s k v v' n m ∧ ns = ms) ∨ (n = m ∧ AttrEditL s k v v' ns ms)) := by
  rw [AttrEditL]

theorem attrsEdit_append_right {s k v v' : Bytes} {l l' : List Attr} (h : AttrsEdit s k v v' l l') (r : List Attr) :
    AttrsEdit s k v v' (l ++ r) (l' ++ r) := by
  obtain ⟨pre, post, rfl, rfl⟩ := h
  exact ⟨pre, post ++ r, by simp, by simp⟩

theorem attrsEdit_append_left {s k v v' : Bytes} {l l' : List Attr} (p : List Attr) (h : AttrsEdit s k v v' l l') :
    AttrsEdit s k v v' (p ++ l) (p ++ l') := by
  obtain ⟨pre, post, rfl, rfl⟩ := h
  exact ⟨p ++ pre, post, by simp, by simp⟩

theorem attrsEdit_cons {s k v v' : Bytes} {l l' : List Attr} (b : Attr) (h : AttrsEdit s k v v' l l') :
    AttrsEdit s k v v' (b :: l) (b :: l') := attrsEdit_append_left [b] h

theorem attrsEdit_here (s k v v' : Bytes) (post : List Attr) :
    AttrsEdit s k v v' (⟨s, k, v⟩ :: post) (⟨s, k, v'⟩ :: post) := ⟨[], post, rfl, rfl⟩

theorem usesSpace_attrsEdit {s k v v' : Bytes} {l l' : List Attr} (h : AttrsEdit s k v v' l l') (esp sp : Bytes) :
    usesSpace esp l sp = usesSpace esp l' sp := by
  obtain ⟨pre, post, rfl, rfl⟩ := h
  simp [usesSpace, List.any_append]

theorem selectAttr_attrsEdit {s k v v' : Bytes} {l l' : List Attr} (h : AttrsEdit s k v v' l l') (name : Bytes × Bytes) :
    selectAttr name l = selectAttr name l' := by
  obtain ⟨pre, post, rfl, rfl⟩ := h
  simp [selectAttr, List.any_append]

theorem declName_ne {s k v : Bytes} (hnd : getDecl ⟨s, k, v⟩ = none) (sp : Bytes) :
    ¬ ((declName sp).1 = s ∧ (declName sp).2 = k) := by
  simp only [getDecl] at hnd
  by_cases h1 : s = [] ∧ k = sXmlns
  · rw [if_pos h1] at hnd; cases hnd
  · rw [if_neg h1] at hnd
    by_cases h2 : s = sXmlns
    · rw [if_pos h2] at hnd; cases hnd
    · unfold declName
      by_cases h3 : sp = []
      · rw [if_pos h3]; intro h; exact h1 ⟨h.1.symm, h.2.symm⟩
      · rw [if_neg h3]; intro h; exact h2 h.1.symm

theorem getDecl_val {s k v : Bytes} (v' : Bytes) (hnd : getDecl ⟨s, k, v⟩ = none) : getDecl ⟨s, k, v'⟩ = none := hnd

theorem createAttr_attrsEdit {s k v v' : Bytes} (hnd : getDecl ⟨s, k, v⟩ = none) (sp val : Bytes) {l l' : List Attr}
    (h : AttrsEdit s k v v' l l') :
    AttrsEdit s k v v' (createAttr (declName sp) val l) (createAttr (declName sp) val l') := by
  obtain ⟨pre, post, rfl, rfl⟩ := h
  have hne := declName_ne hnd sp
  induction pre with
  | nil =>
    simp only [List.nil_append, createAttr]
    rw [if_neg hne, if_neg hne]
    exact attrsEdit_here ..
  | cons b pre ih =>
    simp only [List.cons_append, createAttr]
    split
    · exact attrsEdit_cons _ ⟨pre, post, rfl, rfl⟩
    · exact attrsEdit_cons _ ih

theorem attrLess_val_left (s k v v' : Bytes) (b : Attr) : attrLess ⟨s, k, v⟩ b = attrLess ⟨s, k, v'⟩ b := rfl
theorem attrLess_val_right (s k v v' : Bytes) (b : Attr) : attrLess b ⟨s, k, v⟩ = attrLess b ⟨s, k, v'⟩ := rfl

theorem insertAttr_attrsEdit {s k v v' : Bytes} (b : Attr) {l l' : List Attr} (h : AttrsEdit s k v v' l l') :
    AttrsEdit s k v v' (insertAttr b l) (insertAttr b l') := by
  obtain ⟨pre, post, rfl, rfl⟩ := h
  induction pre with
  | nil =>
    simp only [List.nil_append, insertAttr]
    rw [attrLess_val_left s k v v' b]
    split
    · exact attrsEdit_here ..
    · exact attrsEdit_cons _ (attrsEdit_here ..)
  | cons c pre ih =>
    simp only [List.cons_append, insertAttr]
    split
    · exact attrsEdit_cons _ ih
    · exact attrsEdit_cons _ (attrsEdit_cons _ ⟨pre, post, rfl, rfl⟩)

theorem insertAttr_attrsEdit_here (s k v v' : Bytes) (l : List Attr) :
    AttrsEdit s k v v' (insertAttr ⟨s, k, v⟩ l) (insertAttr ⟨s, k, v'⟩ l) := by
  induction l with
  | nil => exact attrsEdit_here ..
  | cons c l ih =>
    simp only [insertAttr]
    rw [attrLess_val_right s k v v' c]
    split
    · exact attrsEdit_cons _ ih
    · exact attrsEdit_here ..

theorem sortAttrs_attrsEdit {s k v v' : Bytes} {l l' : List Attr} (h : AttrsEdit s k v v' l l') :
    AttrsEdit s k v v' (sortAttrs l) (sortAttrs l') := by
  obtain ⟨pre, post, rfl, rfl⟩ := h
  induction pre with
  | nil => exact insertAttr_attrsEdit_here ..
  | cons c pre ih => exact insertAttr_attrsEdit c ih

/-- `walkLoop` when the edited attribute has already been passed -/
theorem walkLoop_attrsEdit_done {s k v v' : Bytes} (esp : Bytes) (todo : List Attr) :
    ∀ (done done' : List Attr) (ks : List Node), AttrsEdit s k v v' done done' →
      AttrsEdit s k v v' (walkLoop esp done todo ks).1 (walkLoop esp done' todo ks).1 ∧
        (walkLoop esp done todo ks).2 = (walkLoop esp done' todo ks).2 := by
  induction todo with
  | nil => intro done done' ks h; exact ⟨h, rfl⟩
  | cons a todo ih =>
    intro done done' ks h
    simp only [walkLoop]
    split
    · rw [usesSpace_attrsEdit (attrsEdit_append_right h (a :: todo))]
      split
      · exact ih _ _ _ (attrsEdit_append_right h _)
      · exact ih _ _ _ h
    · exact ih _ _ _ (attrsEdit_append_right h _)

/-- `walkLoop` when the edited attribute is still to come -/
theorem walkLoop_attrsEdit_todo {s k v v' : Bytes} (hnd : getDecl ⟨s, k, v⟩ = none) (esp : Bytes)
    (pre post : List Attr) :
    ∀ (done : List Attr) (ks : List Node),
      AttrsEdit s k v v' (walkLoop esp done (pre ++ ⟨s, k, v⟩ :: post) ks).1
          (walkLoop esp done (pre ++ ⟨s, k, v'⟩ :: post) ks).1 ∧
        (walkLoop esp done (pre ++ ⟨s, k, v⟩ :: post) ks).2 = (walkLoop esp done (pre ++ ⟨s, k, v'⟩ :: post) ks).2 := by
  induction pre with
  | nil =>
    intro done ks
    simp only [List.nil_append, walkLoop, hnd, getDecl_val v' hnd]
    exact walkLoop_attrsEdit_done esp post _ _ ks (attrsEdit_append_left done (attrsEdit_here ..))
  | cons b pre ih =>
    intro done ks
    simp only [List.cons_append, walkLoop]
    split
    · rename_i sp hsp
      have hE : AttrsEdit s k v v' (done ++ b :: (pre ++ ⟨s, k, v⟩ :: post)) (done ++ b :: (pre ++ ⟨s, k, v'⟩ :: post)) :=
        attrsEdit_append_left done (attrsEdit_cons b ⟨pre, post, rfl, rfl⟩)
      rw [usesSpace_attrsEdit hE esp sp]
      split
      · exact ih _ _
      · exact ih _ _
    · exact ih _ _

theorem walkLoop_attrsEdit {s k v v' : Bytes} (hnd : getDecl ⟨s, k, v⟩ = none) (esp : Bytes) (l l' : List Attr)
    (ks : List Node) (h : AttrsEdit s k v v' l l') :
    AttrsEdit s k v v' (walkLoop esp [] l ks).1 (walkLoop esp [] l' ks).1 ∧
      (walkLoop esp [] l ks).2 = (walkLoop esp [] l' ks).2 := by
  obtain ⟨pre, post, rfl, rfl⟩ := h
  exact walkLoop_attrsEdit_todo hnd esp pre post [] ks

mutual
theorem pushDown_attrEdit (s k v v' : Bytes) (hnd : getDecl ⟨s, k, v⟩ = none) (t : Bool) (sp val : Bytes) :
    ∀ n m, AttrEdit s k v v' n m → AttrEdit s k v v' (pushDown t sp val n) (pushDown t sp val m)
  | .elem esp tag as ks, m, h => by
    cases m with
    | elem esp' tag' as' ks' =>
      rw [attrEdit_elem] at h
      obtain ⟨rfl, rfl, h⟩ := h
      rcases h with ⟨ha, rfl⟩ | ⟨rfl, hk⟩
      · simp only [pushDown]
        rw [selectAttr_attrsEdit ha, usesSpace_attrsEdit ha]
        split
        · exact (attrEdit_elem ..).2 ⟨rfl, rfl, Or.inl ⟨ha, rfl⟩⟩
        · split
          · exact (attrEdit_elem ..).2 ⟨rfl, rfl, Or.inl ⟨createAttr_attrsEdit hnd sp val ha, rfl⟩⟩
          · exact (attrEdit_elem ..).2 ⟨rfl, rfl, Or.inl ⟨ha, rfl⟩⟩
      · simp only [pushDown]
        split
        · exact (attrEdit_elem ..).2 ⟨rfl, rfl, Or.inr ⟨rfl, hk⟩⟩
        · split
          · exact (attrEdit_elem ..).2 ⟨rfl, rfl, Or.inr ⟨rfl, hk⟩⟩
          · exact (attrEdit_elem ..).2 ⟨rfl, rfl, Or.inr ⟨rfl, pushDownList_attrEdit s k v v' hnd sp val ks ks' hk⟩⟩
    | text _ _ => simp [AttrEdit] at h
    | comment _ => simp [AttrEdit] at h
    | procinst _ _ => simp [AttrEdit] at h
    | directive _ => simp [AttrEdit] at h
  | .text _ _, m, h => by cases m <;> simp [AttrEdit] at h
  | .comment _, m, h => by cases m <;> simp [AttrEdit] at h
  | .procinst _ _, m, h => by cases m <;> simp [AttrEdit] at h
  | .directive _, m, h => by cases m <;> simp [AttrEdit] at h
theorem pushDownList_attrEdit (s k v v' : Bytes) (hnd : getDecl ⟨s, k, v⟩ = none) (sp val : Bytes) :
    ∀ ns ms, AttrEditL s k v v' ns ms → AttrEditL s k v v' (pushDownList sp val ns) (pushDownList sp val ms)
  | [], ms, h => by simp [AttrEditL] at h
  | n :: ns, [], h => by simp [AttrEditL] at h
  | n :: ns, m :: ms, h => by
    rw [attrEditL_cons] at h
    simp only [pushDownList]
    rw [attrEditL_cons]
    rcases h with ⟨h1, rfl⟩ | ⟨rfl, h2⟩
    · exact Or.inl ⟨pushDown_attrEdit s k v v' hnd false sp val n m h1, rfl⟩
    · exact Or.inr ⟨rfl, pushDownList_attrEdit s k v v' hnd sp val ns ms h2⟩
end

theorem pullDownWith_attrEdit (s k v v' : Bytes) (hnd : getDecl ⟨s, k, v⟩ = none) (m : SpaceMap) (t t' : Node)
    (h : AttrEdit s k v v' t t') : AttrEdit s k v v' (pullDownWith m t) (pullDownWith m t') := by
  induction m generalizing t t' with
  | nil => exact h
  | cons e m ih =>
    simp only [pullDownWith, List.foldl_cons] at ih ⊢
    exact ih _ _ (pushDown_attrEdit s k v v' hnd false e.1 e.2 t t' h)

theorem walkLoop_attrEditL (s k v v' : Bytes) (hnd : getDecl ⟨s, k, v⟩ = none) (esp : Bytes) (done todo : List Attr)
    (ks ks' : List Node) (h : AttrEditL s k v v' ks ks') :
    (walkLoop esp done todo ks).1 = (walkLoop esp done todo ks').1 ∧
      AttrEditL s k v v' (walkLoop esp done todo ks).2 (walkLoop esp done todo ks').2 := by
  induction todo generalizing done ks ks' with
  | nil => simp [walkLoop, h]
  | cons a todo ih =>
    simp only [walkLoop]
    split
    · split
      · exact ih _ _ _ h
      · exact ih _ _ _ (pushDownList_attrEdit s k v v' hnd _ _ _ _ h)
    · exact ih _ _ _ h

theorem walk_attrEdit_aux (s k v v' : Bytes) (hnd : getDecl ⟨s, k, v⟩ = none) : ∀ b : Nat,
    (∀ n m, cnt n ≤ b → AttrEdit s k v v' n m → AttrEdit s k v v' (walk n) (walk m)) ∧
    (∀ ns ms, cntL ns ≤ b → AttrEditL s k v v' ns ms → AttrEditL s k v v' (walkKids ns) (walkKids ms)) := by
  intro b
  induction b with
  | zero =>
    constructor
    · intro n m h; have := cnt_pos n; omega
    · intro ns ms h he
      cases ns with
      | nil => simp [AttrEditL] at he
      | cons n ns => simp only [cntL] at h; have := cnt_pos n; omega
  | succ b ih =>
    have hnode : ∀ n m, cnt n ≤ b + 1 → AttrEdit s k v v' n m → AttrEdit s k v v' (walk n) (walk m) := by
      intro n m h he
      cases n with
      | elem sp tag attrs kids =>
        cases m with
        | elem sp' tag' as' ks' =>
          rw [attrEdit_elem] at he
          obtain ⟨rfl, rfl, he⟩ := he
          simp only [cnt] at h
          rcases he with ⟨ha, rfl⟩ | ⟨rfl, hk⟩
          · obtain ⟨h1, h2⟩ := walkLoop_attrsEdit hnd sp attrs as' kids ha
            rw [walk, walk]
            exact (attrEdit_elem ..).2 ⟨rfl, rfl, Or.inl ⟨sortAttrs_attrsEdit h1, by rw [h2]⟩⟩
          · obtain ⟨h1, h2⟩ := walkLoop_attrEditL s k v v' hnd sp [] attrs kids ks' hk
            rw [walk, walk]
            exact (attrEdit_elem ..).2 ⟨rfl, rfl, Or.inr ⟨by rw [h1], ih.2 _ _ (by rw [cntL_walkLoop]; omega) h2⟩⟩
        | text _ _ => simp [AttrEdit] at he
        | comment _ => simp [AttrEdit] at he
        | procinst _ _ => simp [AttrEdit] at he
        | directive _ => simp [AttrEdit] at he
      | text _ _ => cases m <;> simp [AttrEdit] at he
      | comment _ => cases m <;> simp [AttrEdit] at he
      | procinst _ _ => cases m <;> simp [AttrEdit] at he
      | directive _ => cases m <;> simp [AttrEdit] at he
    refine ⟨hnode, ?_⟩
    intro ns
    induction ns with
    | nil => intro ms _ he; simp [AttrEditL] at he
    | cons n ns ihl =>
      intro ms h he
      cases ms with
      | nil => simp [AttrEditL] at he
      | cons m ms =>
        simp only [cntL] at h
        have hn := cnt_pos n
        rw [attrEditL_cons] at he
        rcases he with ⟨h1, rfl⟩ | ⟨rfl, h2⟩
        · have hw := hnode n m (by omega) h1
          cases n with
          | elem sp tag attrs kids =>
            cases m with
            | elem sp' tag' as' ks' =>
              rw [walkKids, walkKids, attrEditL_cons]
              exact Or.inl ⟨hw, rfl⟩
            | text _ _ => simp [AttrEdit] at h1
            | comment _ => simp [AttrEdit] at h1
            | procinst _ _ => simp [AttrEdit] at h1
            | directive _ => simp [AttrEdit] at h1
          | text _ _ => cases m <;> simp [AttrEdit] at h1
          | comment _ => cases m <;> simp [AttrEdit] at h1
          | procinst _ _ => cases m <;> simp [AttrEdit] at h1
          | directive _ => cases m <;> simp [AttrEdit] at h1
        · have hns := ihl ms (by omega) h2
          cases n with
          | elem sp tag attrs kids =>
            rw [walkKids, walkKids, attrEditL_cons]; exact Or.inr ⟨rfl, hns⟩
          | text x c =>
            rw [walkKids, walkKids, attrEditL_cons]; exact Or.inr ⟨rfl, hns⟩
          | comment _ => rw [walkKids, walkKids]; exact hns
          | procinst _ _ => rw [walkKids, walkKids]; exact hns
          | directive _ => rw [walkKids, walkKids]; exact hns

theorem walk_attrEdit (s k v v' : Bytes) (hnd : getDecl ⟨s, k, v⟩ = none) (n m : Node) (h : AttrEdit s k v v' n m) :
    AttrEdit s k v v' (walk n) (walk m) :=
  (walk_attrEdit_aux s k v v' hnd (cnt n)).1 n m (Nat.le_refl _) h

theorem serAttrs_attrsEdit {s k v v' : Bytes} (hv : v ≠ v') {l l' : List Attr} (h : AttrsEdit s k v v' l l')
    (x : Bytes) : serAttrs l ++ x ≠ serAttrs l' ++ x := by
  obtain ⟨pre, post, rfl, rfl⟩ := h
  intro he
  simp only [serAttrs, serAttr, List.flatMap_append, List.flatMap_cons, List.append_assoc, List.cons_append,
    List.append_cancel_left_eq, List.cons.injEq, true_and] at he
  exact hv (escAttr_append_inj _ _ _ _ he rfl).1

mutual
theorem ser_attrEdit (s k v v' : Bytes) (hv : v ≠ v') :
    ∀ n m, AttrEdit s k v v' n m → ∀ x : Bytes, ser n ++ x ≠ ser m ++ x
  | .elem sp tag as ks, m, h, x => by
    cases m with
    | elem sp' tag' as' ks' =>
      rw [attrEdit_elem] at h
      obtain ⟨rfl, rfl, h⟩ := h
      intro he
      rcases h with ⟨ha, rfl⟩ | ⟨rfl, hk⟩
      · simp only [ser, List.append_assoc, List.cons_append, List.cons.injEq, true_and,
          List.append_cancel_left_eq] at he
        exact serAttrs_attrsEdit hv ha _ he
      · simp only [ser, List.append_assoc, List.cons_append, List.cons.injEq, true_and,
          List.append_cancel_left_eq] at he
        exact serKids_attrEdit s k v v' hv ks ks' hk _ he
    | text _ _ => simp [AttrEdit] at h
    | comment _ => simp [AttrEdit] at h
    | procinst _ _ => simp [AttrEdit] at h
    | directive _ => simp [AttrEdit] at h
  | .text _ _, m, h, x => by cases m <;> simp [AttrEdit] at h
  | .comment _, m, h, x => by cases m <;> simp [AttrEdit] at h
  | .procinst _ _, m, h, x => by cases m <;> simp [AttrEdit] at h
  | .directive _, m, h, x => by cases m <;> simp [AttrEdit] at h
theorem serKids_attrEdit (s k v v' : Bytes) (hv : v ≠ v') :
    ∀ ns ms, AttrEditL s k v v' ns ms → ∀ x : Bytes, serKids ns ++ x ≠ serKids ms ++ x
  | [], ms, h, x => by simp [AttrEditL] at h
  | n :: ns, [], h, x => by simp [AttrEditL] at h
  | n :: ns, m :: ms, h, x => by
    rw [attrEditL_cons] at h
    simp only [serKids, List.append_assoc]
    rcases h with ⟨h1, rfl⟩ | ⟨rfl, h2⟩
    · exact ser_attrEdit s k v v' hv n m h1 _
    · intro he
      rw [List.append_cancel_left_eq] at he
      exact serKids_attrEdit s k v v' hv ns ms h2 x he
end

/-- replacing the value of one attribute that is not a namespace declaration (on any element at or below the apex)
    changes the canonical form.  No hypothesis on the attribute names of the element is needed. -/
theorem canon_attrval_sensitive (ctx : List (List Attr)) (s k v v' : Bytes) (t t' : Node)
    (hnd : getDecl ⟨s, k, v⟩ = none) (hv : v ≠ v') (h : AttrEdit s k v v' t t') : canon ctx t ≠ canon ctx t' := by
  have h1 := walk_attrEdit s k v v' hnd _ _ (pullDownWith_attrEdit s k v v' hnd (collectSpaces ctx) t t' h)
  have h2 := ser_attrEdit s k v v' hv _ _ h1 []
  simpa [canon, pullDown] using h2

/-! ### (C) the local name of one element changed -/

mutual
/-- `TagEdit g g' t t'`: `t'` is `t` with the local name `g` of exactly one element replaced by `g'`
    (same prefix, attributes and children) -/
def TagEdit (g g' : Bytes) : Node → Node → Prop
  | .elem sp tag as ks, .elem sp' tag' as' ks' =>
    sp = sp' ∧ as = as' ∧ ((tag = g ∧ tag' = g' ∧ ks = ks') ∨ (tag = tag' ∧ TagEditL g g' ks ks'))
  | _, _ => False
def TagEditL (g g' : Bytes) : List Node → List Node → Prop
  | n :: ns, m :: ms => (TagEdit g g' n m ∧ ns = ms) ∨ (n = m ∧ TagEditL g g' ns ms)
  | _, _ => False
end

theorem tagEdit_elem (g g' sp tag : Bytes) (as : List Attr) (ks : List Node) (sp' tag' : Bytes) (as' : List Attr)
    (ks' : List Node) :
    TagEdit g g' (.elem sp tag as ks) (.elem sp' tag' as' ks') ↔
      (sp = sp' ∧ as = as' ∧ ((tag = g ∧ tag' = g' ∧ ks = ks') ∨ (tag = tag' ∧ TagEditL g g' ks ks'))) := by
  rw [TagEdit]

theorem tagEditL_cons (g g' : Bytes) (n m : Node) (ns ms : List Node) :
    TagEditL g g' (n :: ns) (m :: ms) ↔ ((TagEdit g g' n m ∧ ns = ms) ∨ (n = m ∧ TagEditL g g' ns ms)) := by
  rw [TagEditL]

mutual
theorem pushDown_tagEdit (g g' : Bytes) (t : Bool) (sp val : Bytes) :
    ∀ n m, TagEdit g g' n m → TagEdit g g' (pushDown t sp val n) (pushDown t sp val m)
  | .elem esp tag as ks, m, h => by
    cases m with
    | elem esp' tag' as' ks' =>
      rw [tagEdit_elem] at h
      obtain ⟨rfl, rfl, h⟩ := h
      rcases h with ⟨rfl, rfl, rfl⟩ | ⟨rfl, hk⟩
      · simp only [pushDown]
        split
        · exact (tagEdit_elem ..).2 ⟨rfl, rfl, Or.inl ⟨rfl, rfl, rfl⟩⟩
        · split
          · exact (tagEdit_elem ..).2 ⟨rfl, rfl, Or.inl ⟨rfl, rfl, rfl⟩⟩
          · exact (tagEdit_elem ..).2 ⟨rfl, rfl, Or.inl ⟨rfl, rfl, rfl⟩⟩
      · simp only [pushDown]
        split
        · exact (tagEdit_elem ..).2 ⟨rfl, rfl, Or.inr ⟨rfl, hk⟩⟩
        · split
          · exact (tagEdit_elem ..).2 ⟨rfl, rfl, Or.inr ⟨rfl, hk⟩⟩
          · exact (tagEdit_elem ..).2 ⟨rfl, rfl, Or.inr ⟨rfl, pushDownList_tagEdit g g' sp val ks ks' hk⟩⟩
    | text _ _ => simp [TagEdit] at h
    | comment _ => simp [TagEdit] at h
    | procinst _ _ => simp [TagEdit] at h
    | directive _ => simp [TagEdit] at h
  | .text _ _, m, h => by cases m <;> simp [TagEdit] at h
  | .comment _, m, h => by cases m <;> simp [TagEdit] at h
  | .procinst _ _, m, h => by cases m <;> simp [TagEdit] at h
  | .directive _, m, h => by cases m <;> simp [TagEdit] at h
theorem pushDownList_tagEdit (g g' : Bytes) (sp val : Bytes) :
    ∀ ns ms, TagEditL g g' ns ms → TagEditL g g' (pushDownList sp val ns) (pushDownList sp val ms)
  | [], ms, h => by simp [TagEditL] at h
  | n :: ns, [], h => by simp [TagEditL] at h
  | n :: ns, m :: ms, h => by
    rw [tagEditL_cons] at h
    simp only [pushDownList]
    rw [tagEditL_cons]
    rcases h with ⟨h1, rfl⟩ | ⟨rfl, h2⟩
    · exact Or.inl ⟨pushDown_tagEdit g g' false sp val n m h1, rfl⟩
    · exact Or.inr ⟨rfl, pushDownList_tagEdit g g' sp val ns ms h2⟩
end

theorem pullDownWith_tagEdit (g g' : Bytes) (m : SpaceMap) (t t' : Node)
    (h : TagEdit g g' t t') : TagEdit g g' (pullDownWith m t) (pullDownWith m t') := by
  induction m generalizing t t' with
  | nil => exact h
  | cons e m ih =>
    simp only [pullDownWith, List.foldl_cons] at ih ⊢
    exact ih _ _ (pushDown_tagEdit g g' false e.1 e.2 t t' h)

theorem walkLoop_tagEditL (g g' : Bytes) (esp : Bytes) (done todo : List Attr)
    (ks ks' : List Node) (h : TagEditL g g' ks ks') :
    (walkLoop esp done todo ks).1 = (walkLoop esp done todo ks').1 ∧
      TagEditL g g' (walkLoop esp done todo ks).2 (walkLoop esp done todo ks').2 := by
  induction todo generalizing done ks ks' with
  | nil => simp [walkLoop, h]
  | cons a todo ih =>
    simp only [walkLoop]
    split
    · split
      · exact ih _ _ _ h
      · exact ih _ _ _ (pushDownList_tagEdit g g' _ _ _ _ h)
    · exact ih _ _ _ h

theorem walk_tagEdit_aux (g g' : Bytes) : ∀ b : Nat,
    (∀ n m, cnt n ≤ b → TagEdit g g' n m → TagEdit g g' (walk n) (walk m)) ∧
    (∀ ns ms, cntL ns ≤ b → TagEditL g g' ns ms → TagEditL g g' (walkKids ns) (walkKids ms)) := by
  intro b
  induction b with
  | zero =>
    constructor
    · intro n m h; have := cnt_pos n; omega
    · intro ns ms h he
      cases ns with
      | nil => simp [TagEditL] at he
      | cons n ns => simp only [cntL] at h; have := cnt_pos n; omega
  | succ b ih =>
    have hnode : ∀ n m, cnt n ≤ b + 1 → TagEdit g g' n m → TagEdit g g' (walk n) (walk m) := by
      intro n m h he
      cases n with
      | elem sp tag attrs kids =>
        cases m with
        | elem sp' tag' as' ks' =>
          rw [tagEdit_elem] at he
          obtain ⟨rfl, rfl, he⟩ := he
          simp only [cnt] at h
          rcases he with ⟨rfl, rfl, rfl⟩ | ⟨rfl, hk⟩
          · rw [walk, walk]
            exact (tagEdit_elem ..).2 ⟨rfl, rfl, Or.inl ⟨rfl, rfl, rfl⟩⟩
          · obtain ⟨h1, h2⟩ := walkLoop_tagEditL g g' sp [] attrs kids ks' hk
            rw [walk, walk]
            exact (tagEdit_elem ..).2 ⟨rfl, by rw [h1], Or.inr ⟨rfl, ih.2 _ _ (by rw [cntL_walkLoop]; omega) h2⟩⟩
        | text _ _ => simp [TagEdit] at he
        | comment _ => simp [TagEdit] at he
        | procinst _ _ => simp [TagEdit] at he
        | directive _ => simp [TagEdit] at he
      | text _ _ => cases m <;> simp [TagEdit] at he
      | comment _ => cases m <;> simp [TagEdit] at he
      | procinst _ _ => cases m <;> simp [TagEdit] at he
      | directive _ => cases m <;> simp [TagEdit] at he
    refine ⟨hnode, ?_⟩
    intro ns
    induction ns with
    | nil => intro ms _ he; simp [TagEditL] at he
    | cons n ns ihl =>
      intro ms h he
      cases ms with
      | nil => simp [TagEditL] at he
      | cons m ms =>
        simp only [cntL] at h
        have hn := cnt_pos n
        rw [tagEditL_cons] at he
        rcases he with ⟨h1, rfl⟩ | ⟨rfl, h2⟩
        · have hw := hnode n m (by omega) h1
          cases n with
          | elem sp tag attrs kids =>
            cases m with
            | elem sp' tag' as' ks' =>
              rw [walkKids, walkKids, tagEditL_cons]
              exact Or.inl ⟨hw, rfl⟩
            | text _ _ => simp [TagEdit] at h1
            | comment _ => simp [TagEdit] at h1
            | procinst _ _ => simp [TagEdit] at h1
            | directive _ => simp [TagEdit] at h1
          | text _ _ => cases m <;> simp [TagEdit] at h1
          | comment _ => cases m <;> simp [TagEdit] at h1
          | procinst _ _ => cases m <;> simp [TagEdit] at h1
          | directive _ => cases m <;> simp [TagEdit] at h1
        · have hns := ihl ms (by omega) h2
          cases n with
          | elem sp tag attrs kids =>
            rw [walkKids, walkKids, tagEditL_cons]; exact Or.inr ⟨rfl, hns⟩
          | text x c =>
            rw [walkKids, walkKids, tagEditL_cons]; exact Or.inr ⟨rfl, hns⟩
          | comment _ => rw [walkKids, walkKids]; exact hns
          | procinst _ _ => rw [walkKids, walkKids]; exact hns
          | directive _ => rw [walkKids, walkKids]; exact hns

theorem walk_tagEdit (g g' : Bytes) (n m : Node) (h : TagEdit g g' n m) : TagEdit g g' (walk n) (walk m) :=
  (walk_tagEdit_aux g g' (cnt n)).1 n m (Nat.le_refl _) h

theorem fullName_length (sp g : Bytes) :
    (fullName sp g).length = (if sp = [] then 0 else sp.length + 1) + g.length := by
  unfold fullName
  split <;> simp <;> omega

/-- the serialisations of two elements that differ only in the local name (followed by a common suffix) differ -/
theorem ser_tag_ne (sp g g' : Bytes) (hg : g ≠ g') (as : List Attr) (ks : List Node) (x : Bytes) :
    ser (.elem sp g as ks) ++ x ≠ ser (.elem sp g' as ks) ++ x := by
  intro he
  have hl := congrArg List.length he
  simp only [ser, List.length_append, List.length_cons, fullName_length] at hl
  have hlen : g.length = g'.length := by
    generalize (if sp = [] then 0 else sp.length + 1) = c at hl
    omega
  by_cases hsp : sp = []
  · simp only [ser, fullName, if_pos hsp, List.append_assoc, List.cons_append, List.cons.injEq, true_and] at he
    exact hg (List.append_inj he hlen).1
  · simp only [ser, fullName, if_neg hsp, List.append_assoc, List.cons_append, List.cons.injEq, true_and,
      List.append_cancel_left_eq] at he
    exact hg (List.append_inj he hlen).1

mutual
theorem ser_tagEdit (g g' : Bytes) (hg : g ≠ g') :
    ∀ n m, TagEdit g g' n m → ∀ x : Bytes, ser n ++ x ≠ ser m ++ x
  | .elem sp tag as ks, m, h, x => by
    cases m with
    | elem sp' tag' as' ks' =>
      rw [tagEdit_elem] at h
      obtain ⟨rfl, rfl, h⟩ := h
      rcases h with ⟨rfl, rfl, rfl⟩ | ⟨rfl, hk⟩
      · exact ser_tag_ne sp _ _ hg as ks x
      · intro he
        simp only [ser, List.append_assoc, List.cons_append, List.cons.injEq, true_and,
          List.append_cancel_left_eq] at he
        exact serKids_tagEdit g g' hg ks ks' hk _ he
    | text _ _ => simp [TagEdit] at h
    | comment _ => simp [TagEdit] at h
    | procinst _ _ => simp [TagEdit] at h
    | directive _ => simp [TagEdit] at h
  | .text _ _, m, h, x => by cases m <;> simp [TagEdit] at h
  | .comment _, m, h, x => by cases m <;> simp [TagEdit] at h
  | .procinst _ _, m, h, x => by cases m <;> simp [TagEdit] at h
  | .directive _, m, h, x => by cases m <;> simp [TagEdit] at h
theorem serKids_tagEdit (g g' : Bytes) (hg : g ≠ g') :
    ∀ ns ms, TagEditL g g' ns ms → ∀ x : Bytes, serKids ns ++ x ≠ serKids ms ++ x
  | [], ms, h, x => by simp [TagEditL] at h
  | n :: ns, [], h, x => by simp [TagEditL] at h
  | n :: ns, m :: ms, h, x => by
    rw [tagEditL_cons] at h
    simp only [serKids, List.append_assoc]
    rcases h with ⟨h1, rfl⟩ | ⟨rfl, h2⟩
    · exact ser_tagEdit g g' hg n m h1 _
    · intro he
      rw [List.append_cancel_left_eq] at he
      exact serKids_tagEdit g g' hg ns ms h2 x he
end

/-- replacing the local name of one element (at or below the apex; same prefix) changes the canonical form.
    No hypothesis on the bytes of the names is needed: both serialisations contain the name twice (start and
    end tag) and are otherwise equal, so equal output forces equal name lengths, hence equal names. -/
theorem canon_tag_sensitive (ctx : List (List Attr)) (g g' : Bytes) (t t' : Node)
    (hg : g ≠ g') (h : TagEdit g g' t t') : canon ctx t ≠ canon ctx t' := by
  have h1 := walk_tagEdit g g' _ _ (pullDownWith_tagEdit g g' (collectSpaces ctx) t t' h)
  have h2 := ser_tagEdit g g' hg _ _ h1 []
  simpa [canon, pullDown] using h2

/-! ### (D) two adjacent child elements swapped -/

/-- the child lists differ by swapping two adjacent nodes related by `P` -/
def KidsSwap (P : Node → Node → Prop) (ks ks' : List Node) : Prop :=
  ∃ pre a b post, P a b ∧ ks = pre ++ a :: b :: post ∧ ks' = pre ++ b :: a :: post

mutual
/-- `SwapEdit P t t'`: `t'` is `t` with two adjacent children `a`, `b` (with `P a b`) of exactly one element swapped -/
def SwapEdit (P : Node → Node → Prop) : Node → Node → Prop
  | .elem sp tag as ks, .elem sp' tag' as' ks' =>
    sp = sp' ∧ tag = tag' ∧ as = as' ∧ (KidsSwap P ks ks' ∨ SwapEditL P ks ks')
  | _, _ => False
def SwapEditL (P : Node → Node → Prop) : List Node → List Node → Prop
  | n :: ns, m :: ms => (SwapEdit P n m ∧ ns = ms) ∨ (n = m ∧ SwapEditL P ns ms)
  | _, _ => False
end

theorem swapEdit_elem (P : Node → Node → Prop) (sp tag : Bytes) (as : List Attr) (ks : List Node) (sp' tag' : Bytes)
    (as' : List Attr) (ks' : List Node) :
    SwapEdit P (.elem sp tag as ks) (.elem sp' tag' as' ks') ↔
      (sp = sp' ∧ tag = tag' ∧ as = as' ∧ (KidsSwap P ks ks' ∨ SwapEditL P ks ks')) := by
  rw [SwapEdit]

theorem swapEditL_cons (P : Node → Node → Prop) (n m : Node) (ns ms : List Node) :
    SwapEditL P (n :: ns) (m :: ms) ↔ ((SwapEdit P n m ∧ ns = ms) ∨ (n = m ∧ SwapEditL P ns ms)) := by
  rw [SwapEditL]

def IsElem : Node → Prop
  | .elem _ _ _ _ => True
  | _ => False

theorem pushDownList_append (s v : Bytes) (l r : List Node) :
    pushDownList s v (l ++ r) = pushDownList s v l ++ pushDownList s v r := by
  induction l with
  | nil => simp [pushDownList]
  | cons n l ih => simp [pushDownList, ih]

theorem pushDownList_kidsSwap {P : Node → Node → Prop}
    (hpush : ∀ s v a b, P a b → P (pushDown false s v a) (pushDown false s v b))
    (s v : Bytes) {ks ks' : List Node} (h : KidsSwap P ks ks') :
    KidsSwap P (pushDownList s v ks) (pushDownList s v ks') := by
  obtain ⟨pre, a, b, post, hp, rfl, rfl⟩ := h
  refine ⟨pushDownList s v pre, pushDown false s v a, pushDown false s v b, pushDownList s v post,
    hpush s v a b hp, ?_, ?_⟩
  · simp [pushDownList_append, pushDownList]
  · simp [pushDownList_append, pushDownList]

mutual
theorem pushDown_swapEdit (P : Node → Node → Prop)
    (hpush : ∀ s v a b, P a b → P (pushDown false s v a) (pushDown false s v b)) (t : Bool) (sp val : Bytes) :
    ∀ n m, SwapEdit P n m → SwapEdit P (pushDown t sp val n) (pushDown t sp val m)
  | .elem esp tag as ks, m, h => by
    cases m with
    | elem esp' tag' as' ks' =>
      rw [swapEdit_elem] at h
      obtain ⟨rfl, rfl, rfl, h⟩ := h
      simp only [pushDown]
      split
      · exact (swapEdit_elem ..).2 ⟨rfl, rfl, rfl, h⟩
      · split
        · exact (swapEdit_elem ..).2 ⟨rfl, rfl, rfl, h⟩
        · refine (swapEdit_elem ..).2 ⟨rfl, rfl, rfl, ?_⟩
          rcases h with h | h
          · exact Or.inl (pushDownList_kidsSwap hpush sp val h)
          · exact Or.inr (pushDownList_swapEdit P hpush sp val ks ks' h)
    | text _ _ => simp [SwapEdit] at h
    | comment _ => simp [SwapEdit] at h
    | procinst _ _ => simp [SwapEdit] at h
    | directive _ => simp [SwapEdit] at h
  | .text _ _, m, h => by cases m <;> simp [SwapEdit] at h
  | .comment _, m, h => by cases m <;> simp [SwapEdit] at h
  | .procinst _ _, m, h => by cases m <;> simp [SwapEdit] at h
  | .directive _, m, h => by cases m <;> simp [SwapEdit] at h
theorem pushDownList_swapEdit (P : Node → Node → Prop)
    (hpush : ∀ s v a b, P a b → P (pushDown false s v a) (pushDown false s v b)) (sp val : Bytes) :
    ∀ ns ms, SwapEditL P ns ms → SwapEditL P (pushDownList sp val ns) (pushDownList sp val ms)
  | [], ms, h => by simp [SwapEditL] at h
  | n :: ns, [], h => by simp [SwapEditL] at h
  | n :: ns, m :: ms, h => by
    rw [swapEditL_cons] at h
    simp only [pushDownList]
    rw [swapEditL_cons]
    rcases h with ⟨h1, rfl⟩ | ⟨rfl, h2⟩
    · exact Or.inl ⟨pushDown_swapEdit P hpush false sp val n m h1, rfl⟩
    · exact Or.inr ⟨rfl, pushDownList_swapEdit P hpush sp val ns ms h2⟩
end

theorem pullDownWith_swapEdit (P : Node → Node → Prop)
    (hpush : ∀ s v a b, P a b → P (pushDown false s v a) (pushDown false s v b)) (m : SpaceMap) (t t' : Node)
    (h : SwapEdit P t t') : SwapEdit P (pullDownWith m t) (pullDownWith m t') := by
  induction m generalizing t t' with
  | nil => exact h
  | cons e m ih =>
    simp only [pullDownWith, List.foldl_cons] at ih ⊢
    exact ih _ _ (pushDown_swapEdit P hpush false e.1 e.2 t t' h)

theorem walkLoop_swap (P : Node → Node → Prop)
    (hpush : ∀ s v a b, P a b → P (pushDown false s v a) (pushDown false s v b)) (esp : Bytes)
    (done todo : List Attr) (ks ks' : List Node) :
    (KidsSwap P ks ks' →
      (walkLoop esp done todo ks).1 = (walkLoop esp done todo ks').1 ∧
        KidsSwap P (walkLoop esp done todo ks).2 (walkLoop esp done todo ks').2) ∧
    (SwapEditL P ks ks' →
      (walkLoop esp done todo ks).1 = (walkLoop esp done todo ks').1 ∧
        SwapEditL P (walkLoop esp done todo ks).2 (walkLoop esp done todo ks').2) := by
  induction todo generalizing done ks ks' with
  | nil => exact ⟨fun h => ⟨rfl, h⟩, fun h => ⟨rfl, h⟩⟩
  | cons a todo ih =>
    simp only [walkLoop]
    split
    · split
      · exact ih _ _ _
      · exact ⟨fun h => (ih _ _ _).1 (pushDownList_kidsSwap hpush _ _ h),
          fun h => (ih _ _ _).2 (pushDownList_swapEdit P hpush _ _ _ _ h)⟩
    · exact ih _ _ _

theorem walkKids_elem (sp tag : Bytes) (as : List Attr) (ks rest : List Node) :
    walkKids (.elem sp tag as ks :: rest) = walk (.elem sp tag as ks) :: walkKids rest := by rw [walkKids]

theorem walkKids_append (l r : List Node) : walkKids (l ++ r) = walkKids l ++ walkKids r := by
  induction l with
  | nil => rw [walkKids]; rfl
  | cons n l ih =>
    cases n with
    | elem sp tag as ks => rw [List.cons_append, walkKids_elem, walkKids_elem, ih]; rfl
    | text d c => rw [List.cons_append, walkKids, walkKids, ih]; rfl
    | comment d => rw [List.cons_append, walkKids, ih, walkKids]
    | procinst a b => rw [List.cons_append, walkKids, ih, walkKids]
    | directive d => rw [List.cons_append, walkKids, ih, walkKids]

/-- the relation between the two swapped nodes after `walk`: their serialisations do not commute -/
def SerNoncomm (a b : Node) : Prop := ∀ x : Bytes, ser a ++ (ser b ++ x) ≠ ser b ++ (ser a ++ x)

theorem walkKids_kidsSwap {P : Node → Node → Prop}
    (hel : ∀ a b, P a b → IsElem a ∧ IsElem b)
    (hser : ∀ a b, P a b → SerNoncomm (walk a) (walk b))
    {ks ks' : List Node} (h : KidsSwap P ks ks') : KidsSwap SerNoncomm (walkKids ks) (walkKids ks') := by
  obtain ⟨pre, a, b, post, hp, rfl, rfl⟩ := h
  obtain ⟨ha, hb⟩ := hel a b hp
  refine ⟨walkKids pre, walk a, walk b, walkKids post, hser a b hp, ?_, ?_⟩
  · cases a <;> simp only [IsElem] at ha
    cases b <;> simp only [IsElem] at hb
    rw [walkKids_append, walkKids_elem, walkKids_elem]
  · cases a <;> simp only [IsElem] at ha
    cases b <;> simp only [IsElem] at hb
    rw [walkKids_append, walkKids_elem, walkKids_elem]

theorem walk_swapEdit_aux (P : Node → Node → Prop)
    (hpush : ∀ s v a b, P a b → P (pushDown false s v a) (pushDown false s v b))
    (hel : ∀ a b, P a b → IsElem a ∧ IsElem b)
    (hser : ∀ a b, P a b → SerNoncomm (walk a) (walk b)) : ∀ k : Nat,
    (∀ n m, cnt n ≤ k → SwapEdit P n m → SwapEdit SerNoncomm (walk n) (walk m)) ∧
    (∀ ns ms, cntL ns ≤ k → SwapEditL P ns ms → SwapEditL SerNoncomm (walkKids ns) (walkKids ms)) := by
  intro k
  induction k with
  | zero =>
    constructor
    · intro n m h; have := cnt_pos n; omega
    · intro ns ms h he
      cases ns with
      | nil => simp [SwapEditL] at he
      | cons n ns => simp only [cntL] at h; have := cnt_pos n; omega
  | succ k ih =>
    have hnode : ∀ n m, cnt n ≤ k + 1 → SwapEdit P n m → SwapEdit SerNoncomm (walk n) (walk m) := by
      intro n m h he
      cases n with
      | elem sp tag attrs kids =>
        cases m with
        | elem sp' tag' as' ks' =>
          rw [swapEdit_elem] at he
          obtain ⟨rfl, rfl, rfl, he⟩ := he
          simp only [cnt] at h
          rcases he with hk | hk
          · obtain ⟨h1, h2⟩ := (walkLoop_swap P hpush sp [] attrs kids ks').1 hk
            rw [walk, walk]
            exact (swapEdit_elem ..).2 ⟨rfl, rfl, by rw [h1], Or.inl (walkKids_kidsSwap hel hser h2)⟩
          · obtain ⟨h1, h2⟩ := (walkLoop_swap P hpush sp [] attrs kids ks').2 hk
            rw [walk, walk]
            exact (swapEdit_elem ..).2
              ⟨rfl, rfl, by rw [h1], Or.inr (ih.2 _ _ (by rw [cntL_walkLoop]; omega) h2)⟩
        | text _ _ => simp [SwapEdit] at he
        | comment _ => simp [SwapEdit] at he
        | procinst _ _ => simp [SwapEdit] at he
        | directive _ => simp [SwapEdit] at he
      | text _ _ => cases m <;> simp [SwapEdit] at he
      | comment _ => cases m <;> simp [SwapEdit] at he
      | procinst _ _ => cases m <;> simp [SwapEdit] at he
      | directive _ => cases m <;> simp [SwapEdit] at he
    refine ⟨hnode, ?_⟩
    intro ns
    induction ns with
    | nil => intro ms _ he; simp [SwapEditL] at he
    | cons n ns ihl =>
      intro ms h he
      cases ms with
      | nil => simp [SwapEditL] at he
      | cons m ms =>
        simp only [cntL] at h
        have hn := cnt_pos n
        rw [swapEditL_cons] at he
        rcases he with ⟨h1, rfl⟩ | ⟨rfl, h2⟩
        · have hw := hnode n m (by omega) h1
          cases n with
          | elem sp tag attrs kids =>
            cases m with
            | elem sp' tag' as' ks' =>
              rw [walkKids, walkKids, swapEditL_cons]
              exact Or.inl ⟨hw, rfl⟩
            | text _ _ => simp [SwapEdit] at h1
            | comment _ => simp [SwapEdit] at h1
            | procinst _ _ => simp [SwapEdit] at h1
            | directive _ => simp [SwapEdit] at h1
          | text _ _ => cases m <;> simp [SwapEdit] at h1
          | comment _ => cases m <;> simp [SwapEdit] at h1
          | procinst _ _ => cases m <;> simp [SwapEdit] at h1
          | directive _ => cases m <;> simp [SwapEdit] at h1
        · have hns := ihl ms (by omega) h2
          cases n with
          | elem sp tag attrs kids =>
            rw [walkKids, walkKids, swapEditL_cons]; exact Or.inr ⟨rfl, hns⟩
          | text x c =>
            rw [walkKids, walkKids, swapEditL_cons]; exact Or.inr ⟨rfl, hns⟩
          | comment _ => rw [walkKids, walkKids]; exact hns
          | procinst _ _ => rw [walkKids, walkKids]; exact hns
          | directive _ => rw [walkKids, walkKids]; exact hns

theorem serKids_append (l r : List Node) : serKids (l ++ r) = serKids l ++ serKids r := by
  induction l with
  | nil => simp [serKids]
  | cons n l ih => simp [serKids, ih]

theorem serKids_kidsSwap {ks ks' : List Node} (h : KidsSwap SerNoncomm ks ks') (x : Bytes) :
    serKids ks ++ x ≠ serKids ks' ++ x := by
  obtain ⟨pre, a, b, post, hp, rfl, rfl⟩ := h
  intro he
  simp only [serKids_append, serKids, List.append_assoc, List.append_cancel_left_eq] at he
  exact hp _ he

mutual
theorem ser_swapEdit : ∀ n m, SwapEdit SerNoncomm n m → ∀ x : Bytes, ser n ++ x ≠ ser m ++ x
  | .elem sp tag as ks, m, h, x => by
    cases m with
    | elem sp' tag' as' ks' =>
      rw [swapEdit_elem] at h
      obtain ⟨rfl, rfl, rfl, h⟩ := h
      intro he
      simp only [ser, List.append_assoc, List.cons_append, List.cons.injEq, true_and,
        List.append_cancel_left_eq] at he
      rcases h with hk | hk
      · exact serKids_kidsSwap hk _ he
      · exact serKids_swapEdit ks ks' hk _ he
    | text _ _ => simp [SwapEdit] at h
    | comment _ => simp [SwapEdit] at h
    | procinst _ _ => simp [SwapEdit] at h
    | directive _ => simp [SwapEdit] at h
  | .text _ _, m, h, x => by cases m <;> simp [SwapEdit] at h
  | .comment _, m, h, x => by cases m <;> simp [SwapEdit] at h
  | .procinst _ _, m, h, x => by cases m <;> simp [SwapEdit] at h
  | .directive _, m, h, x => by cases m <;> simp [SwapEdit] at h
theorem serKids_swapEdit : ∀ ns ms, SwapEditL SerNoncomm ns ms → ∀ x : Bytes, serKids ns ++ x ≠ serKids ms ++ x
  | [], ms, h, x => by simp [SwapEditL] at h
  | n :: ns, [], h, x => by simp [SwapEditL] at h
  | n :: ns, m :: ms, h, x => by
    rw [swapEditL_cons] at h
    simp only [serKids, List.append_assoc]
    rcases h with ⟨h1, rfl⟩ | ⟨rfl, h2⟩
    · exact ser_swapEdit n m h1 _
    · intro he
      rw [List.append_cancel_left_eq] at he
      exact serKids_swapEdit ns ms h2 x he
end

/-- generic form: swapping two adjacent child elements `a`, `b` related by `P` changes the canonical form, provided `P`
    is stable under `pushDown`, holds of elements only, and forces the canonical serialisations not to commute -/
theorem canon_swap_sensitive_of (P : Node → Node → Prop)
    (hpush : ∀ s v a b, P a b → P (pushDown false s v a) (pushDown false s v b))
    (hel : ∀ a b, P a b → IsElem a ∧ IsElem b)
    (hser : ∀ a b, P a b → SerNoncomm (walk a) (walk b))
    (ctx : List (List Attr)) (t t' : Node) (h : SwapEdit P t t') : canon ctx t ≠ canon ctx t' := by
  have h1 := (walk_swapEdit_aux P hpush hel hser _).1 _ _ (Nat.le_refl _)
    (pullDownWith_swapEdit P hpush (collectSpaces ctx) t t' h)
  have h2 := ser_swapEdit _ _ h1 []
  simpa [canon, pullDown] using h2

/-! #### instance: the two swapped elements have different qualified names -/

/-- `a` is an element named `sp1:g1` and `b` an element named `sp2:g2` -/
def NamedPair (sp1 g1 sp2 g2 : Bytes) (a b : Node) : Prop :=
  (∃ as ks, a = .elem sp1 g1 as ks) ∧ (∃ as ks, b = .elem sp2 g2 as ks)

/-- no space and no `>` -/
def NoDelim (p : Bytes) : Prop := ∀ b ∈ p, b ≠ 0x20 ∧ b ≠ 0x3e

theorem delim_inj : ∀ (p q : Bytes) (c d : UInt8) (y z : Bytes), NoDelim p → NoDelim q →
    (c = 0x20 ∨ c = 0x3e) → (d = 0x20 ∨ d = 0x3e) → p ++ c :: y = q ++ d :: z → p = q
  | [], [], _, _, _, _, _, _, _, _, _ => rfl
  | [], b :: q, c, d, y, z, _, hq, hc, _, h => by
    simp only [List.nil_append, List.cons_append, List.cons.injEq] at h
    have := hq b (by simp)
    rcases hc with hc | hc
    · exact absurd (h.1 ▸ hc) this.1
    · exact absurd (h.1 ▸ hc) this.2
  | a :: p, [], c, d, y, z, hp, _, _, hd, h => by
    simp only [List.nil_append, List.cons_append, List.cons.injEq] at h
    have := hp a (by simp)
    rcases hd with hd | hd
    · exact absurd (h.1 ▸ hd) this.1
    · exact absurd (h.1 ▸ hd) this.2
  | a :: p, b :: q, c, d, y, z, hp, hq, hc, hd, h => by
    simp only [List.cons_append, List.cons.injEq] at h
    rw [h.1, delim_inj p q c d y z (fun e he => hp e (by simp [he])) (fun e he => hq e (by simp [he])) hc hd h.2]

theorem serAttrs_head (as : List Attr) (r : Bytes) :
    ∃ c y, (c = 0x20 ∨ c = 0x3e) ∧ serAttrs as ++ 0x3e :: r = c :: y := by
  cases as with
  | nil => exact ⟨0x3e, r, Or.inr rfl, by simp [serAttrs]⟩
  | cons a as =>
    refine ⟨0x20, fullName a.space a.key ++ [0x3d, 0x22] ++ escAttr a.value ++ [0x22] ++ serAttrs as ++ 0x3e :: r,
      Or.inl rfl, ?_⟩
    simp only [serAttrs, List.flatMap_cons, serAttr, List.cons_append]

theorem ser_elem_head (sp g : Bytes) (as : List Attr) (ks : List Node) (x : Bytes) :
    ∃ c y, (c = 0x20 ∨ c = 0x3e) ∧ ser (.elem sp g as ks) ++ x = 0x3c :: (fullName sp g ++ c :: y) := by
  obtain ⟨c, y, hc, hy⟩ := serAttrs_head as (serKids ks ++ ([0x3c, 0x2f] ++ (fullName sp g ++ ([0x3e] ++ x))))
  refine ⟨c, y, hc, ?_⟩
  rw [← hy]
  simp only [ser, List.append_assoc, List.cons_append]

theorem namedPair_noncomm (sp1 g1 sp2 g2 : Bytes) (hne : fullName sp1 g1 ≠ fullName sp2 g2)
    (h1 : NoDelim (fullName sp1 g1)) (h2 : NoDelim (fullName sp2 g2)) (a b : Node)
    (h : NamedPair sp1 g1 sp2 g2 a b) : SerNoncomm (walk a) (walk b) := by
  obtain ⟨⟨as1, ks1, rfl⟩, ⟨as2, ks2, rfl⟩⟩ := h
  intro x he
  rw [walk, walk] at he
  obtain ⟨c, y, hc, hy⟩ := ser_elem_head sp1 g1 (sortAttrs (walkLoop sp1 [] as1 ks1).1)
    (walkKids (walkLoop sp1 [] as1 ks1).2)
    (ser (.elem sp2 g2 (sortAttrs (walkLoop sp2 [] as2 ks2).1) (walkKids (walkLoop sp2 [] as2 ks2).2)) ++ x)
  obtain ⟨d, z, hd, hz⟩ := ser_elem_head sp2 g2 (sortAttrs (walkLoop sp2 [] as2 ks2).1)
    (walkKids (walkLoop sp2 [] as2 ks2).2)
    (ser (.elem sp1 g1 (sortAttrs (walkLoop sp1 [] as1 ks1).1) (walkKids (walkLoop sp1 [] as1 ks1).2)) ++ x)
  rw [hy, hz] at he
  simp only [List.cons.injEq, true_and] at he
  exact hne (delim_inj _ _ c d y z h1 h2 hc hd he)

/-- swapping two adjacent child elements (of any one element at or below the apex) whose qualified names
    `sp1:g1`, `sp2:g2` differ and contain neither a space nor `>` changes the canonical form -/
theorem canon_swap_sensitive (ctx : List (List Attr)) (sp1 g1 sp2 g2 : Bytes) (t t' : Node)
    (hne : fullName sp1 g1 ≠ fullName sp2 g2)
    (h1 : NoDelim (fullName sp1 g1)) (h2 : NoDelim (fullName sp2 g2))
    (h : SwapEdit (NamedPair sp1 g1 sp2 g2) t t') : canon ctx t ≠ canon ctx t' := by
  refine canon_swap_sensitive_of (NamedPair sp1 g1 sp2 g2) ?_ ?_ (namedPair_noncomm sp1 g1 sp2 g2 hne h1 h2) ctx t t' h
  · rintro s v a b ⟨⟨as1, ks1, rfl⟩, ⟨as2, ks2, rfl⟩⟩
    obtain ⟨a1, k1, e1⟩ := pushDown_elem_form false s v sp1 g1 as1 ks1
    obtain ⟨a2, k2, e2⟩ := pushDown_elem_form false s v sp2 g2 as2 ks2
    exact ⟨⟨a1, k1, e1⟩, ⟨a2, k2, e2⟩⟩
  · rintro a b ⟨⟨as1, ks1, rfl⟩, ⟨as2, ks2, rfl⟩⟩
    exact ⟨trivial, trivial⟩


/-! ### the relations are inhabited (sanity) -/

example : TextEdit [0x61] [0x62] (.elem [] [0x72] [] [.comment [], .elem [] [0x65] [] [.text [0x61] false]])
    (.elem [] [0x72] [] [.comment [], .elem [] [0x65] [] [.text [0x62] false]]) := by
  simp [TextEdit, TextEditL]

example : AttrEdit [] [0x6b] [0x61] [0x62] (.elem [] [0x72] [] [.elem [] [0x65] [⟨[], [0x69], []⟩, ⟨[], [0x6b], [0x61]⟩] []])
    (.elem [] [0x72] [] [.elem [] [0x65] [⟨[], [0x69], []⟩, ⟨[], [0x6b], [0x62]⟩] []]) := by
  refine (attrEdit_elem ..).2 ⟨rfl, rfl, Or.inr ⟨rfl, (attrEditL_cons ..).2 (Or.inl ⟨?_, rfl⟩)⟩⟩
  exact (attrEdit_elem ..).2 ⟨rfl, rfl, Or.inl ⟨⟨[⟨[], [0x69], []⟩], [], rfl, rfl⟩, rfl⟩⟩

example : TagEdit [0x61] [0x62] (.elem [] [0x72] [] [.elem [] [0x61] [] []]) (.elem [] [0x72] [] [.elem [] [0x62] [] []]) := by
  simp [TagEdit, TagEditL]

example : SwapEdit (NamedPair [] [0x61] [] [0x62]) (.elem [] [0x72] [] [.elem [] [0x61] [] [], .elem [] [0x62] [] []])
    (.elem [] [0x72] [] [.elem [] [0x62] [] [], .elem [] [0x61] [] []]) := by
  exact (swapEdit_elem ..).2 ⟨rfl, rfl, rfl, Or.inl ⟨[], _, _, [], ⟨⟨_, _, rfl⟩, ⟨_, _, rfl⟩⟩, rfl, rfl⟩⟩

end Relic.Xml.Sens

/-
  C03 — Signing never corrupts or alters the payload.   PE/COFF part (model `Relic.Model.PE`).
  Other formats add their theorems in `Relic/Props/C03_*.lean`.
-/
import Relic.Proofs.PESign
import Relic.Props.C08
namespace Relic.Props.C03
open Relic Relic.PE

/-- **pe_payload_preserved.** In the file that `Sign → Apply` writes, every byte of the input below the old end
    of image is where it was, except the 8 bytes of the certificate-table directory entry; what follows is
    zero padding to a multiple of 8 and the new certificate table.  (Headers, section table, every section's
    raw data and the overlay are therefore untouched; the `CheckSum` field is rewritten afterwards by
    `FixPEChecksum`, which is outside this theorem.) -/
theorem pe_payload_preserved (f : Bytes) (d : Digest) (sig : Bytes) (hp : 64 ≤ u32 f 0x3c) (e : DigestPE f = .ok d) :
    let g := signedBytes f d sig
    seg g 0 d.m.posDDCert = seg f 0 d.m.posDDCert ∧
    seg g (d.m.posDDCert + 8) d.certStart = seg f (d.m.posDDCert + 8) d.origSize ++ List.replicate (d.certStart - d.origSize) 0 ∧
    g.length = d.certStart + (8 + ceil8 sig.length) ∧
    d.origSize ≤ f.length ∧ d.certStart < d.origSize + 8 ∧
    (d.m.certSize = 0 → d.origSize = f.length) := by
  have H := DigestPE_spec f d hp e
  exact ⟨seg_signed_prefix f d sig H 0 _ (Nat.le_refl _), seg_signed_middle f d sig H, signedBytes_length f d sig H,
    H.origLe, H.padLt, H.unsigned⟩

/-- **pe_refusal_is_clean.** When the digest refuses a file (or panics) no patch exists, so nothing is written. -/
theorem pe_refusal_is_clean (f sig : Bytes) (h : (DigestPE f).isOk = false) : (C08.signRound f sig).isOk = false := by
  unfold C08.signRound
  cases hd : DigestPE f with
  | ok d => simp [hd, Res.isOk] at h
  | err _ => rfl
  | panic _ => rfl
  | diverge => rfl

/-- the patch handed to `binpatch` is constructible, so C12's exactness theorems apply to it -/
theorem pe_patch_constructible (f : Bytes) (d : Digest) (sig : Bytes) (ps : List Binpatch.Patch)
    (hp : 64 ≤ u32 f 0x3c) (e : DigestPE f = .ok d) (hm : makePatch d sig = .ok ps) :
    C12.Constructible f.length ps :=
  makePatch_constructible f d sig ps (DigestPE_spec f d hp e) hm

set_option maxRecDepth 100000 in
example : 64 ≤ u32 C08.minimalPE 0x3c ∧ (DigestPE C08.minimalPE).isOk = true := by decide

end Relic.Props.C03

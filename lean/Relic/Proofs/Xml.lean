/- helper lemmas about Relic.Model.Xml -/
import Relic.Model.Xml
namespace Relic.Xml
open Relic

/-! ### escaping is injective (prefix-free code) -/

theorem escTextByte_ne_nil (a : UInt8) : escTextByte a ≠ [] := by
  unfold escTextByte; repeat' split
  all_goals simp

theorem escAttrByte_ne_nil (a : UInt8) : escAttrByte a ≠ [] := by
  unfold escAttrByte; repeat' split
  all_goals simp

theorem escTextByte_prefix_free (a b : UInt8) (x y : Bytes) (h : escTextByte a ++ x = escTextByte b ++ y) :
    a = b ∧ x = y := by
  unfold escTextByte at h
  repeat' split at h
  all_goals simp_all

theorem escAttrByte_prefix_free (a b : UInt8) (x y : Bytes) (h : escAttrByte a ++ x = escAttrByte b ++ y) :
    a = b ∧ x = y := by
  unfold escAttrByte at h
  repeat' split at h
  all_goals simp_all

theorem escText_append_inj : ∀ (s t x y : Bytes), escText s ++ x = escText t ++ y → x.length = y.length → s = t ∧ x = y := by
  intro s
  induction s with
  | nil =>
    intro t x y h hl
    cases t with
    | nil => simpa [escText] using h
    | cons b t =>
      exfalso
      have := congrArg List.length h
      simp only [escText, List.flatMap_nil, List.nil_append, List.flatMap_cons, List.length_append] at this
      have := List.length_pos_iff.mpr (escTextByte_ne_nil b)
      omega
  | cons a s ih =>
    intro t x y h hl
    cases t with
    | nil =>
      exfalso
      have := congrArg List.length h
      simp only [escText, List.flatMap_nil, List.nil_append, List.flatMap_cons, List.length_append] at this
      have := List.length_pos_iff.mpr (escTextByte_ne_nil a)
      omega
    | cons b t =>
      simp only [escText, List.flatMap_cons, List.append_assoc] at h
      obtain ⟨hab, hrest⟩ := escTextByte_prefix_free a b _ _ h
      obtain ⟨hst, hxy⟩ := ih t x y hrest hl
      exact ⟨by rw [hab, hst], hxy⟩

theorem escAttr_append_inj : ∀ (s t x y : Bytes), escAttr s ++ x = escAttr t ++ y → x.length = y.length → s = t ∧ x = y := by
  intro s
  induction s with
  | nil =>
    intro t x y h hl
    cases t with
    | nil => simpa [escAttr] using h
    | cons b t =>
      exfalso
      have := congrArg List.length h
      simp only [escAttr, List.flatMap_nil, List.nil_append, List.flatMap_cons, List.length_append] at this
      have := List.length_pos_iff.mpr (escAttrByte_ne_nil b)
      omega
  | cons a s ih =>
    intro t x y h hl
    cases t with
    | nil =>
      exfalso
      have := congrArg List.length h
      simp only [escAttr, List.flatMap_nil, List.nil_append, List.flatMap_cons, List.length_append] at this
      have := List.length_pos_iff.mpr (escAttrByte_ne_nil a)
      omega
    | cons b t =>
      simp only [escAttr, List.flatMap_cons, List.append_assoc] at h
      obtain ⟨hab, hrest⟩ := escAttrByte_prefix_free a b _ _ h
      obtain ⟨hst, hxy⟩ := ih t x y hrest hl
      exact ⟨by rw [hab, hst], hxy⟩


/-! ### removing comments / processing instructions / directives -/

mutual
/-- remove every comment, processing instruction and directive below a node -/
def strip : Node → Node
  | .elem sp tag attrs kids => .elem sp tag attrs (stripKids kids)
  | n => n
def stripKids : List Node → List Node
  | [] => []
  | .elem sp tag attrs kids :: rest => .elem sp tag attrs (stripKids kids) :: stripKids rest
  | .text d c :: rest => .text d c :: stripKids rest
  | .comment _ :: rest => stripKids rest
  | .procinst _ _ :: rest => stripKids rest
  | .directive _ :: rest => stripKids rest
end

theorem pushDown_elem_form (t : Bool) (s v sp tag : Bytes) (attrs : List Attr) (kids : List Node) :
    ∃ a k, pushDown t s v (.elem sp tag attrs kids) = .elem sp tag a k := by
  simp only [pushDown]
  split
  · exact ⟨_, _, rfl⟩
  · split <;> exact ⟨_, _, rfl⟩

mutual
theorem pushDown_strip (t : Bool) (s v : Bytes) : ∀ n, pushDown t s v (strip n) = strip (pushDown t s v n)
  | .elem sp tag attrs kids => by
    simp only [strip, pushDown]
    split
    · simp
    · split
      · simp
      · simp [pushDownList_strip s v kids]
  | .text _ _ => by simp [strip, pushDown]
  | .comment _ => by simp [strip, pushDown]
  | .procinst _ _ => by simp [strip, pushDown]
  | .directive _ => by simp [strip, pushDown]
theorem pushDownList_strip (s v : Bytes) : ∀ ks, pushDownList s v (stripKids ks) = stripKids (pushDownList s v ks)
  | [] => by simp [stripKids, pushDownList]
  | .elem sp tag attrs kids :: rest => by
    have h1 := pushDown_strip false s v (.elem sp tag attrs kids)
    have h2 := pushDownList_strip s v rest
    obtain ⟨a, k, hk⟩ := pushDown_elem_form false s v sp tag attrs kids
    simp only [strip] at h1
    simp only [stripKids, pushDownList, h1, h2, hk]
  | .text d c :: rest => by
    simp [stripKids, pushDownList, pushDown, pushDownList_strip s v rest]
  | .comment d :: rest => by
    simp [stripKids, pushDownList, pushDown, pushDownList_strip s v rest]
  | .procinst a b :: rest => by
    simp [stripKids, pushDownList, pushDown, pushDownList_strip s v rest]
  | .directive d :: rest => by
    simp [stripKids, pushDownList, pushDown, pushDownList_strip s v rest]
end

theorem walkLoop_strip (esp : Bytes) (done todo : List Attr) (ks : List Node) :
    walkLoop esp done todo (stripKids ks) =
      ((walkLoop esp done todo ks).1, stripKids (walkLoop esp done todo ks).2) := by
  induction todo generalizing done ks with
  | nil => simp [walkLoop]
  | cons a todo ih =>
    simp only [walkLoop]
    split
    · split
      · exact ih _ _
      · rw [pushDownList_strip, ih]
    · exact ih _ _

theorem walk_strip_aux : ∀ k : Nat,
    (∀ n, cnt n ≤ k → walk (strip n) = walk n) ∧ (∀ ks, cntL ks ≤ k → walkKids (stripKids ks) = walkKids ks) := by
  intro k
  induction k with
  | zero =>
    constructor
    · intro n h; have := cnt_pos n; omega
    · intro ks h
      cases ks with
      | nil => simp [stripKids]
      | cons n ns => simp only [cntL] at h; have := cnt_pos n; omega
  | succ k ih =>
    have hnode : ∀ n, cnt n ≤ k + 1 → walk (strip n) = walk n := by
      intro n h
      cases n with
      | elem sp tag attrs kids =>
        simp only [cnt] at h
        simp only [strip]
        rw [walk, walk, walkLoop_strip]
        simp only
        rw [ih.2 _ (by rw [cntL_walkLoop]; omega)]
      | text d c => simp [strip]
      | comment d => simp [strip]
      | procinst a b => simp [strip]
      | directive d => simp [strip]
    refine ⟨hnode, ?_⟩
    intro ks
    induction ks with
    | nil => intro _; simp [stripKids]
    | cons n ns ihl =>
      intro h
      simp only [cntL] at h
      have hn := cnt_pos n
      have hns := ihl (by omega)
      cases n with
      | elem sp tag attrs kids =>
        have := hnode (.elem sp tag attrs kids) (by omega)
        simp only [strip] at this
        simp only [stripKids]
        rw [walkKids, walkKids, this, hns]
      | text d c => simp only [stripKids]; rw [walkKids, walkKids, hns]
      | comment d => simp only [stripKids]; rw [walkKids, hns]
      | procinst a b => simp only [stripKids]; rw [walkKids, hns]
      | directive d => simp only [stripKids]; rw [walkKids, hns]

theorem walk_strip (n : Node) : walk (strip n) = walk n := (walk_strip_aux (cnt n)).1 n (Nat.le_refl _)

theorem pullDownWith_strip (m : SpaceMap) (n : Node) : pullDownWith m (strip n) = strip (pullDownWith m n) := by
  induction m generalizing n with
  | nil => rfl
  | cons e m ih =>
    simp only [pullDownWith, List.foldl_cons] at ih ⊢
    rw [pushDown_strip, ih]

end Relic.Xml

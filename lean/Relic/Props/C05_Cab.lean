/-
  C05 fragment — the Authenticode digest relic computes for a cabinet (`cabfile.Digest`, lib/cabfile/cabfile.go; model
  `Relic.Cab.DigestCab`) equals the digest prescribed by the public description (`Relic.Spec.CabDigest`), on cabinets with
  the regular layout (`Cab.Regular`: OffsetFiles = end of the folder headers ≤ TotalSize, which `Digest` does not check —
  finding F35); outside it relic accepts and digests files for which the description has no digest (witness below).
-/
import Relic.Proofs.CabSpec
import Relic.Spec.CabDigest
import Relic.Props.C08_Cab
namespace Relic.Props.C05
open Relic Relic.Cab
open Relic.PE (seg u16 u32 seg_length seg_append seg_self)

/-- **cab_digest_eq_spec_signed** (verification side).  Whenever relic's digester accepts a cabinet that carries a
    signature header and has the regular layout, the stream it feeds to the hash is the specification's digest input of
    that file: bytes 0–3, 8–33, 56–59 and everything from byte 60 up to the signature. -/
theorem cab_digest_eq_spec_signed (g : Bytes) (d : Digest) (e : DigestCab g = .ok d) (hsig : d.hasSig = true)
    (R : Regular d) : Spec.CabDigest.digestInput g = some d.hashed := by
  have H := DigestCab_spec g d e
  have S := DigestCab_hasSig g d e hsig
  have W : NoWrap d := by intro h; rw [S.delta] at h; omega
  obtain ⟨e1, _, _, _, _⟩ := regular_arith g d H R W
  obtain ⟨r1, r2⟩ := R
  rw [S.fs] at r1
  have ht : d.total < 2 ^ 32 := by rw [H.total]; exact u32_lt g 8
  have ho : d.offFiles < 2 ^ 32 := by rw [H.off]; exact u32_lt g 16
  have hstop := H.stop
  have hlen := S.len
  have hlay : Spec.CabDigest.signedLayout g = true := by
    unfold Spec.CabDigest.signedLayout
    have a1 := H.magic; have a2 := S.flags; have a3 := S.hs
    have a4 : Spec.CabDigest.u8 g 38 = 0 := S.fsz
    have a5 : Spec.CabDigest.u8 g 39 = 0 := S.dsz
    have a6 : u32 g 16 = 60 + 8 * u16 g 26 := by rw [← H.off, ← H.nf]; exact r1
    have a7 : u32 g 16 ≤ u32 g 44 := by rw [S.cabSize, ← H.off]; exact r2
    have a8 : u32 g 44 + u32 g 48 = g.length := by rw [S.cabSize, ← S.sigSize]; omega
    simp [a1, a2, a3, a4, a5, a6, a7, a8, hlen]
    rw [← a6]; exact a7
  unfold Spec.CabDigest.digestInput
  rw [hlay, if_pos rfl]
  congr 1
  -- the header part
  have hr0 : ∀ x, x < 2 ^ 32 → rebase d.delta x = x := by
    intro x hx; rw [S.delta]; unfold rebase; omega
  have hb : d.hdr.sigBlob = seg g 0 4 ++ seg g 8 34 ++ seg g 56 60 := by
    rw [H.hdr]
    simp only [Hdr60.sigBlob, outHdr]
    rw [hr0 _ ht, hr0 _ ho, H.total, H.off, leBytes4_u32 g 8 (by omega), leBytes4_u32 g 16 (by omega), S.u3]
    have : leBytes 2 4 = seg g 30 32 := by rw [← S.flags]; exact leBytes2_u16 g 30 (by omega)
    rw [this]
    rw [← seg_append g 8 12 34 (by omega) (by omega), ← seg_append g 12 16 34 (by omega) (by omega),
      ← seg_append g 16 20 34 (by omega) (by omega), ← seg_append g 20 26 34 (by omega) (by omega),
      ← seg_append g 26 28 34 (by omega) (by omega), ← seg_append g 28 30 34 (by omega) (by omega),
      ← seg_append g 30 32 34 (by omega) (by omega)]
    simp only [List.append_assoc]
  -- folder headers and data
  have hf : d.folders = seg g 60 (60 + 8 * d.nFolders) := by
    rw [H.folders, S.delta, S.fs]
    exact rebaseFolders_zero g 60 d.nFolders (by omega)
  have hd : d.data = seg g (60 + 8 * d.nFolders) (u32 g 44) := by
    rw [H.data, S.fs, e1, S.cabSize]
  unfold Digest.hashed
  rw [hb, hf, hd, List.append_assoc (seg g 0 4 ++ seg g 8 34 ++ seg g 56 60),
    seg_append g 60 _ _ (by omega) (by rw [S.cabSize]; omega)]

/-- **cab_digest_eq_spec** (signing side).  For every cabinet relic accepts with the regular layout — unsigned, with a
    zero-filled reserve area, or already signed — the stream relic hashes (and signs) is the specification's digest input
    of the file that signing writes (`signedBytes`, which is what the real patch path produces:
    `C08.cab_signed_file`).  In particular that file has the signed layout of the specification. -/
theorem cab_digest_eq_spec (f : Bytes) (d : Digest) (sig : Bytes) (e : DigestCab f = .ok d) (R : Regular d) (W : NoWrap d)
    (hs : (padded sig).length < 2 ^ 32) :
    Spec.CabDigest.digestInput (signedBytes d sig) = some d.hashed := by
  have H := DigestCab_spec f d e
  have e' := DigestCab_signed f d sig H R W hs
  have R' := (resigned_regular f d sig H R W).1
  exact cab_digest_eq_spec_signed (signedBytes d sig) (resigned d sig) e' rfl R'

/-- end to end: the file written by the real patch path (`Add`, `Dump` order, rewrite loop) has, under the
    specification, exactly the digest input relic signed -/
theorem cab_written_file_digest_eq_spec (f : Bytes) (d : Digest) (sig g : Bytes) (M : Nat) (e : DigestCab f = .ok d)
    (R : Regular d) (W : NoWrap d) (hs : (padded sig).length < 2 ^ 32)
    (hg : Binpatch.applyRewrite f (Binpatch.build M (makePatch d sig)) = .ok g) :
    Spec.CabDigest.digestInput g = some d.hashed := by
  have h1 := C08.cab_signed_file f d sig e R W M
  have h2 : Res.ok (signedBytes d sig) = Res.ok g := h1.symm.trans hg
  have h3 : signedBytes d sig = g := Res.ok.inj h2
  rw [← h3]
  exact cab_digest_eq_spec f d sig e R W hs

/-! ### non-vacuity and the boundary of the class -/

def cabDigestOf (f : Bytes) : Digest :=
  match DigestCab f with
  | .ok d => d
  | _ => ⟨⟨[], [], [], [], [], [], [], [], [], [], [], [], [], [], [], [], [], [], []⟩, [], [], 0, 0, 0, 0, false, 0, [], 0, 0⟩

/-- `C08.minimalCab` signed with the blob [9, 9, 9] -/
def signedCab : Bytes := signedBytes (cabDigestOf C08.minimalCab) [9, 9, 9]

set_option maxRecDepth 100000 in
/-- the hypotheses of `cab_digest_eq_spec` hold for `minimalCab` and `paddedCab`, those of `cab_digest_eq_spec_signed`
    for `signedCab`; the specification's digest input of `signedCab` is 34 + 8 + 5 bytes long -/
example : DigestCab C08.minimalCab = .ok (cabDigestOf C08.minimalCab) ∧ DigestCab C08.paddedCab = .ok (cabDigestOf C08.paddedCab) ∧
    (cabDigestOf C08.minimalCab).offFiles = (cabDigestOf C08.minimalCab).foldersStart + 8 * (cabDigestOf C08.minimalCab).nFolders ∧
    (cabDigestOf C08.paddedCab).offFiles = (cabDigestOf C08.paddedCab).foldersStart + 8 * (cabDigestOf C08.paddedCab).nFolders ∧
    DigestCab signedCab = .ok (cabDigestOf signedCab) ∧ (cabDigestOf signedCab).hasSig = true ∧
    (Spec.CabDigest.digestInput signedCab).map List.length = some 47 := by decide

/-- a cabinet in signed layout except that OffsetFiles (70) is not the end of the folder headers (68): relic hashes the
    folder header and `TotalSize - OffsetFiles = 3` bytes, and takes the rest of the file as the signature -/
def irregularSignedCab : Bytes :=
  [0x4d, 0x53, 0x43, 0x46, 0, 0, 0, 0, 73, 0, 0, 0, 0, 0, 0, 0, 70, 0, 0, 0, 0, 0, 0, 0, 3, 1, 1, 0, 1, 0, 4, 0, 0x34, 0x12, 0, 0] ++
  [20, 0, 0, 0] ++ [0, 0, 0x10, 0, 73, 0, 0, 0, 10, 0, 0, 0, 0, 0, 0, 0, 0, 0, 0, 0] ++
  [60, 0, 0, 0, 1, 0, 0, 0] ++ [1, 2, 3, 4, 5] ++ [9, 9, 9, 0, 0, 0, 0, 0]

set_option maxRecDepth 100000 in
/-- **outside the class (F35 seen from the specification):** relic's digester — hence `VerifyCab` — accepts a signed
    cabinet whose OffsetFiles is not the end of the folder headers and digests it, while the description rejects the
    file (no digest: "corrupt coffFiles").  The bytes relic hashes are not even the ones the description would hash if the
    layout check were dropped (`seg g 60 sigpos`). -/
theorem cab_digest_irregular_differs :
    ∃ g d, DigestCab g = .ok d ∧ d.hasSig = true ∧ ¬ Regular d ∧ Spec.CabDigest.digestInput g = none ∧
      d.hashed ≠ seg g 0 4 ++ seg g 8 34 ++ seg g 56 60 ++ seg g 60 (u32 g 44) := by
  refine ⟨irregularSignedCab, cabDigestOf irregularSignedCab, by decide, by decide, ?_, by decide, by decide⟩
  unfold Regular
  decide

end Relic.Props.C05

"""C04 — a key is used only for callers entitled to it (server authentication / authorisation / real-ip)."""
import os
import runner

TIE = "corr:authz"
TIE_THEOREM = ("Relic.Props.C04.sign_only_if_entitled / not_entitled_refused / malformed_config_is_error / list_exact / "
               "untrusted_headers_ignored / derived_addr_spec (model Relic.Model.Authz + Relic.Model.RealIP vs server.Handler())")
RULE = ("seeded random: configurations (<=4 clients by SPKI fingerprint or by CA with real generated ECDSA chains incl. intermediate "
        "supplied/withheld, expired, wrong EKU, self-signed; <=5 keys: plain, alias, dangling alias, alias of alias, self alias, alias "
        "entries with own token/roles, hidden, without token, without roles, undefined token; 0-2 tokens; trusted-proxy lists of "
        "IPv4/IPv6 hosts and CIDRs incl. unparsable entries) x requests (POST /sign incl. missing key/filename and unknown sigtype, "
        "GET /keys/{k}, /list_keys, /, /health, /directory; every configured key name and an unknown one; direct peers inside/outside "
        "the trusted nets, IPv6, IPv4-mapped, '@', garbage; 0-2 X-Forwarded-For headers of 1-3 hops with varying separators; "
        "Ssl-Client-Cert absent / chain / undecodable / no PEM; TLS chain of 9 kinds / none / empty) against the real "
        "server.Handler() over recording fake tokens; requests with >=2 CA clients fired 6 times (map iteration order); 0-2 header variants "
        "per request. Non-trivial = distinct op that passed server construction and reached authentication with a certificate "
        "(i.e. model outcome is not start error, 401 certificate-required or a public endpoint).")
ASSUMPTIONS = ["certificate mode only (server.policy_url empty); the OPA/bearer-token mode is not modelled",
               "x509 path validation (ClientConfig.Match -> x509.Verify), PEM/URL decoding of Ssl-Client-Cert, net.ParseIP/IPNet.Contains "
               "are abstract relations supplied as data; the harness supplies them by construction of its certificates and address pool",
               "Go maps are association lists with distinct keys; iteration order is arbitrary (all choices are covered)",
               "list_exact: the server started and no token section is named \"\" (counter-example list_exact_needs_named_tokens)",
               "strings.TrimSpace: ASCII white space, U+0085 and U+00A0 only",
               "what a token does with a key name after GetKey is called is outside the model (fake tokens return the entry itself)"]
TRUSTED = ["models Relic.Model.Authz / Relic.Model.RealIP are hand-written; tied to server/, internal/authmodel, internal/realip, config by "
           "differential execution on every run",
           "tools/extractroutes (go/ast) regenerates Relic/Generated/Routes.lean from server/server.go on every run",
           "chi routing, net/http, crypto/x509, zerolog"]
UNPROVED = []
IMPL_PARALLEL = 16

_variants = {}


def generate(ctx):
    """T-gen: route table of Server.Handler() -> lean/Relic/Generated/Routes.lean"""
    tool = runner.build_tool("extractroutes")
    out = os.path.join(runner.LEAN, "Relic", "Generated", "Routes.lean")
    if os.path.exists(out):
        os.remove(out)
    r = runner.sh([tool, runner.REPO, out])
    if r.returncode != 0:
        raise runner.Broken("extractroutes failed on server/server.go", r.stdout[-2000:])
    return ["Relic.Props.C04.routes_guarded (regenerated Relic.Generated.Routes)"]


def _alts(line):
    return [a.strip() for a in line.split(" || ")]


def _parse(alt):
    """ok <status> <problem> ip= user= keys= ev= [extras]"""
    f = alt.split(" ")
    d = {"kind": f[0]}
    if f[0] == "ok":
        d["status"] = int(f[1])
        d["problem"] = f[2]
    for x in f[1:]:
        if "=" in x:
            k, v = x.split("=", 1)
            d[k] = v
    return d


def _tag(tag):
    d = {}
    for x in tag.split(" "):
        if "=" in x:
            k, v = x.split("=", 1)
            d[k] = v
    return d


def _pairs(s):
    out = {}
    if s and s != "-":
        for p in s.split(","):
            u, v = p.rsplit(":", 1)
            out[u] = v
    return out


def agree(op, il, mres, tag):
    """the implementation stops at whichever matching CA client the map iteration reaches first: every outcome it showed
    must be one the model allows"""
    if il == mres:
        return True
    ms = set(_alts(mres))
    return all(a in ms for a in _alts(il))


def nontrivial(op, mres, tag):
    if tag.startswith("start") or not mres.startswith("ok"):
        return mres.startswith("panic")
    f = op.split()
    if f[3] in ("health", "directory"):
        return False
    return "certificate-required" not in mres


def branch(op, mres, tag):
    f = op.split()
    a = _alts(mres)
    first = a[0].split(" ")
    key = f[3] + ":" + " ".join(first[:3] if first[0] == "ok" else first[:2])
    if "ev=getkey" in a[0]:
        key += ":token"
    if len(a) > 1:
        key += ":ambiguous"
    return key


def predicate(op, il, mres, tag):
    """the property itself, on the implementation's behaviour"""
    f = op.split()
    ep = f[3]
    t = _tag(tag)
    ent = _pairs(t.get("ent", "-"))
    lst = _pairs(t.get("list", "-"))
    keyed = ep in ("sign", "getkey")
    for alt in _alts(il):
        if alt.startswith("crash") or alt.startswith("not-run"):
            return ("Relic.Props.C04.no_panic", mres, "harness process died")
        d = _parse(alt)
        if d["kind"] == "panic":
            if t.get("mal") == "1":
                return ("Relic.Props.C04.malformed_config_is_error", "refusal (403), no panic",
                        "malformed configuration entry makes the handler panic")
            return ("Relic.Props.C04.no_panic", mres, "handler panicked")
        if d["kind"] != "ok":
            continue  # server construction refused the configuration
        for flag in ("audit-ip-differs", "audit-missing", "audit-unparseable"):
            if flag in alt:
                return ("Relic.Props.C04.untrusted_headers_ignored", "audit client.ip = derived address", flag)
        touched = d.get("ev", "-") != "-"
        ok2xx = 200 <= d["status"] < 300
        if keyed and (touched or ok2xx):
            if ent.get(d.get("user", "-")) != "1":
                return ("Relic.Props.C04.sign_only_if_entitled", "401/403 and empty token log",
                        "key used or disclosed for a caller the configuration does not entitle (user=%s)" % d.get("user"))
        if keyed and t.get("mal") == "1" and (touched or d["status"] not in (400, 401, 403, 500) or
                                               (d["status"] == 500 and "ssl=bad" not in op)):
            return ("Relic.Props.C04.malformed_config_is_error", "refusal, no token event", "malformed entry not refused")
        if not keyed and touched:
            return ("Relic.Props.C04.sign_only_if_entitled", "no token event", "token touched by an endpoint that names no key")
        if ep == "list" and d["status"] == 200:
            want = lst.get(d.get("user", "-"))
            got = d.get("keys", "-")
            got = "" if got == "-" else got.replace(",", "+")
            if want is None or want != got:
                return ("Relic.Props.C04.list_exact", "keys=" + str(want), "listing differs from the sorted non-hidden signable names")
        if ep != "health" and "xip" in t and d.get("ip") != t["xip"]:
            thm = "untrusted_headers_ignored" if t.get("ut") == "1" else "derived_addr_spec"
            return ("Relic.Props.C04." + thm, "ip=" + t["xip"],
                    "recorded address is not the specified one (peer itself if untrusted; else right-most untrusted hop, else left-most hop)")
        if t.get("ut") == "1" and ep != "health":
            if d.get("ip") != t.get("utip"):
                return ("Relic.Props.C04.untrusted_headers_ignored", "ip=" + t.get("utip", "?"),
                        "address derived for an untrusted peer is not the peer's")
    if t.get("ut") == "1" and len(_alts(mres)) == 1:
        # header variants of the same request from an untrusted peer: identical behaviour of the implementation
        key = " ".join(f[2:8] + [x for x in f[8:] if x.startswith("ra=") or x.startswith("tls=")])
        prev = _variants.get(key)
        cur = set(_alts(il))
        if prev is None:
            _variants[key] = cur
        elif prev != cur:
            return ("Relic.Props.C04.untrusted_headers_ignored", next(iter(prev)),
                    "response to an untrusted peer depends on X-Forwarded-For / Ssl-Client-Cert")
    return None


def matches_known(k, op, il, mres, tag):
    return False

/-
  Lemmas about `Relic.Model.XmlSig`:
  * `findIn`/`findElems` on a child list that ends in the appended Signature,
  * the canonical tree of a *plain* subtree (no prefixes, at most one non-declaration attribute per element, only elements
    and text) is the subtree itself, whatever the ancestors declare (except a default namespace, which the Signature
    element re-declares),
  * hence what `xml.Unmarshal` reads back from the Signature element `Sign` built.
-/
import Relic.Model.XmlSig
import Relic.Proofs.XmlEnv
namespace Relic.XmlSig
open Relic Relic.Xml

/-! ### RemoveElements / FindElements -/

theorem removeElements_none (tag : Bytes) (ks : List Node) : ∀ k ∈ removeElements tag ks, isElemTag tag k = false := by
  intro k hk
  simp only [removeElements, List.mem_filter] at hk
  simpa using hk.2

theorem removeElements_idem (tag : Bytes) (ks : List Node) : removeElements tag (removeElements tag ks) = removeElements tag ks := by
  simp [removeElements, List.filter_filter]

theorem removeElements_append (tag : Bytes) (a b : List Node) :
    removeElements tag (a ++ b) = removeElements tag a ++ removeElements tag b := by
  simp [removeElements]

theorem findIn_none (tag : Bytes) (f : Node → List (List Nat)) : ∀ (ks : List Node) (i : Nat),
    (∀ k ∈ ks, isElemTag tag k = false) → findIn tag f i ks = []
  | [], _, _ => rfl
  | k :: ks, i, h => by
    simp only [findIn, h k List.mem_cons_self, Bool.false_eq_true, if_false, List.nil_append]
    exact findIn_none tag f ks (i + 1) fun k' hk' => h k' (List.mem_cons_of_mem _ hk')

theorem findIn_append (tag : Bytes) (f : Node → List (List Nat)) : ∀ (a b : List Node) (i : Nat),
    findIn tag f i (a ++ b) = findIn tag f i a ++ findIn tag f (i + a.length) b
  | [], b, i => by simp [findIn]
  | k :: a, b, i => by
    simp only [List.cons_append, findIn, List.length_cons, List.append_assoc]
    rw [findIn_append tag f a b (i + 1)]
    have : i + 1 + a.length = i + (a.length + 1) := by omega
    rw [this]

/-- the children named `tag` of `clean ++ [s]`, `clean` having none and `s` being one: exactly `s` -/
theorem findElems_last (tag sp t : Bytes) (as : List Attr) (clean : List Node) (s : Node)
    (hc : ∀ k ∈ clean, isElemTag tag k = false) (hs : isElemTag tag s = true) :
    findElems [tag] (.elem sp t as (clean ++ [s])) = [[clean.length]] := by
  simp only [findElems, kidsOf]
  rw [findIn_append, findIn_none tag _ clean 0 hc]
  simp [findIn, hs]

/-! ### plain subtrees are canonical already -/

def plainAttrs (as : List Attr) : Bool := decide (as.length ≤ 1) && as.all fun a => decide (a.space = []) && decide (a.key ≠ sXmlns)

mutual
def plain : Node → Bool
  | .elem sp _ as ks => decide (sp = []) && plainAttrs as && plainL ks
  | .text _ _ => true
  | _ => false
def plainL : List Node → Bool
  | [] => true
  | n :: ns => plain n && plainL ns
end

/-- no pending declaration of the default namespace -/
def NoDef (ds : Env) : Prop := ∀ e ∈ ds, e.1 ≠ []

theorem getDecl_plain (a : Attr) (h1 : a.space = []) (h2 : a.key ≠ sXmlns) : getDecl a = none := by
  unfold getDecl
  have hx : ¬ (sXmlns = ([] : Bytes)) := by decide
  have hy : ¬ (([] : Bytes) = sXmlns) := by decide
  simp [h1, h2, hx, hy]

theorem plainAttrs_spec {as : List Attr} (h : plainAttrs as = true) :
    as.length ≤ 1 ∧ ∀ a ∈ as, a.space = [] ∧ a.key ≠ sXmlns := by
  simp only [plainAttrs, Bool.and_eq_true, decide_eq_true_eq, List.all_eq_true] at h
  exact ⟨h.1, fun a ha => by simpa using h.2 a ha⟩

theorem selectAttr_plain (s : Bytes) (hs : s ≠ []) (as : List Attr) (h : ∀ a ∈ as, a.space = [] ∧ a.key ≠ sXmlns) :
    selectAttr (declName s) as = false := by
  simp only [selectAttr, declName, hs, if_false, List.any_eq_false]
  intro a ha
  have := h a ha
  have hx : ¬ (sXmlns = ([] : Bytes)) := by decide
  have hy : ¬ (sXmlns = a.space) := by rw [this.1]; decide
  simp [hx, hy]

theorem usesSpace_plain (s : Bytes) (hs : s ≠ []) (as : List Attr) (h : ∀ a ∈ as, a.space = [] ∧ a.key ≠ sXmlns) :
    usesSpace [] as s = false := by
  unfold usesSpace
  have h1 : ¬ (([] : Bytes) = s) := fun e => hs e.symm
  simp only [h1, if_false, hs, List.any_eq_false]
  intro a ha
  have := (h a ha).1
  simp [this, h1]

theorem localStep_plain (as : List Attr) (h : ∀ a ∈ as, a.space = [] ∧ a.key ≠ sXmlns) : ∀ (ds : Env), NoDef ds →
    localStep [] as ds = (as, ds)
  | [], _ => rfl
  | (s, v) :: ds, hd => by
    have hs : s ≠ [] := hd (s, v) List.mem_cons_self
    have ih := localStep_plain as h ds fun e he => hd e (List.mem_cons_of_mem _ he)
    simp only [localStep, selectAttr_plain s hs as h, usesSpace_plain s hs as h, Bool.false_eq_true, if_false, ih]

theorem keepAttrs_plain (as : List Attr) (h : ∀ a ∈ as, a.space = [] ∧ a.key ≠ sXmlns) : keepAttrs [] as = as := by
  unfold keepAttrs
  apply List.filter_eq_self.mpr
  intro a ha
  simp [keepP, getDecl_plain a (h a ha).1 (h a ha).2]

theorem dropped_plain (as : List Attr) (h : ∀ a ∈ as, a.space = [] ∧ a.key ≠ sXmlns) : dropped [] as = [] := by
  unfold dropped
  apply List.filterMap_eq_nil_iff.mpr
  intro a ha
  simp [dropF, getDecl_plain a (h a ha).1 (h a ha).2]

theorem sortAttrs_short : ∀ (as : List Attr), as.length ≤ 1 → sortAttrs as = as
  | [], _ => rfl
  | [a], _ => rfl
  | _ :: _ :: _, h => by simp at h

mutual
theorem walkE_plain : ∀ (n : Node) (ds : Env), NoDef ds → plain n = true → walkE ds n = n
  | .elem sp tag as ks, ds, hd, hp => by
    simp only [plain, Bool.and_eq_true, decide_eq_true_eq] at hp
    obtain ⟨⟨rfl, ha⟩, hk⟩ := hp
    have hs := plainAttrs_spec ha
    simp only [walkE, localStep_plain as hs.2 ds hd, keepAttrs_plain as hs.2, dropped_plain as hs.2, List.append_nil,
      sortAttrs_short as hs.1, walkKidsE_plain ks ds hd hk]
  | .text _ _, _, _, _ => by simp [walkE]
  | .comment _, _, _, hp => by simp [plain] at hp
  | .procinst _ _, _, _, hp => by simp [plain] at hp
  | .directive _, _, _, hp => by simp [plain] at hp
theorem walkKidsE_plain : ∀ (ns : List Node) (ds : Env), NoDef ds → plainL ns = true → walkKidsE ds ns = ns
  | [], _, _, _ => by simp [walkKidsE]
  | .elem sp tag as ks :: rest, ds, hd, hp => by
    simp only [plainL, Bool.and_eq_true] at hp
    rw [walkKidsE_elem, walkE_plain _ ds hd hp.1, walkKidsE_plain rest ds hd hp.2]
  | .text d c :: rest, ds, hd, hp => by
    simp only [plainL, Bool.and_eq_true] at hp
    simp only [walkKidsE, walkKidsE_plain rest ds hd hp.2]
  | .comment _ :: _, _, _, hp => by simp [plainL, plain] at hp
  | .procinst _ _ :: _, _, _, hp => by simp [plainL, plain] at hp
  | .directive _ :: _, _, _, hp => by simp [plainL, plain] at hp
end

/-- `walk ∘ pullDown` in environment-passing style -/
theorem canonTree_eq_walkE (ctx : List (List Attr)) (n : Node) : canonTree ctx n = walkE (collectSpaces ctx) n := by
  unfold canonTree pullDown
  rw [pullDownWith_eq, walk_pushMany]

/-! ### the Signature element under arbitrary ancestors -/

/-- pending declarations at an element `<X xmlns="…">` without prefix: the default namespace is re-declared (forgotten),
    every other one is passed on -/
theorem localStep_xmlns (v : Bytes) : ∀ (ds : Env),
    localStep [] [⟨[], sXmlns, v⟩] ds = ([⟨[], sXmlns, v⟩], ds.filter fun e => decide (e.1 ≠ []))
  | [] => rfl
  | (s, w) :: ds => by
    have ih := localStep_xmlns v ds
    by_cases hs : s = []
    · subst hs
      have : selectAttr (declName []) [⟨[], sXmlns, v⟩] = true := by simp [selectAttr, declName]
      simp only [localStep, this, if_true, ih]
      simp
    · have h1 : selectAttr (declName s) [⟨[], sXmlns, v⟩] = false := by
        have hx : ¬ (sXmlns = ([] : Bytes)) := by decide
        simp [selectAttr, declName, hs, hx]
      have h2 : usesSpace [] [⟨[], sXmlns, v⟩] s = false := by
        have : ¬ (([] : Bytes) = s) := fun e => hs e.symm
        simp [usesSpace, hs, this]
      simp only [localStep, h1, h2, Bool.false_eq_true, if_false, ih]
      simp [hs]

theorem noDef_filter (ds : Env) : NoDef (ds.filter fun e => decide (e.1 ≠ [])) := by
  intro e he
  simpa using (List.mem_filter.mp he).2

/-- **the Signature element `Sign` builds is its own canonical tree under any ancestors**, provided its KeyInfo children
    are plain (RSA KeyValue, X509Data; the ECDSA KeyValue carries `xmlns:xsi`) -/
theorem canonTree_signature (ctx : List (List Attr)) (kids : List Node) (hk : plainL kids = true) :
    canonTree ctx (el sSignature [xmlnsAttr] kids) = el sSignature [xmlnsAttr] kids := by
  rw [canonTree_eq_walkE]
  simp only [el, xmlnsAttr, walkE, localStep_xmlns]
  have hkeep : keepAttrs [] [⟨[], sXmlns, nsXMLDsig⟩] = [⟨[], sXmlns, nsXMLDsig⟩] := by
    simp [keepAttrs, keepP, getDecl, usesSpace]
  have hdrop : dropped [] [⟨[], sXmlns, nsXMLDsig⟩] = [] := by
    simp [dropped, dropF, getDecl, usesSpace]
  rw [hkeep, hdrop, List.append_nil, walkKidsE_plain kids _ (noDef_filter _) hk]
  rfl

/-! ### what the decoder reads back -/

theorem decKeyInfoKids_fields (ks : List Node) : ∀ (s : SigInfo),
    (decKeyInfoKids s ks).c14nAlg = s.c14nAlg ∧ (decKeyInfoKids s ks).sigAlg = s.sigAlg ∧ (decKeyInfoKids s ks).ref = s.ref ∧
    (decKeyInfoKids s ks).sigValue = s.sigValue ∧
    (decKeyInfoKids s ks).keyValue = (decKeyInfoKids { keyValue := s.keyValue, certs := s.certs } ks).keyValue ∧
    (decKeyInfoKids s ks).certs = (decKeyInfoKids { keyValue := s.keyValue, certs := s.certs } ks).certs := by
  induction ks with
  | nil => intro s; simp [decKeyInfoKids]
  | cons k ks ih =>
    intro s
    cases k with
    | elem sp tag as kk =>
      simp only [decKeyInfoKids]
      split
      · have a := ih { s with keyValue := some (decKeyValue (s.keyValue.getD {}) kk) }
        simp only at a
        exact ⟨a.1, a.2.1, a.2.2.1, a.2.2.2.1, a.2.2.2.2.1, a.2.2.2.2.2⟩
      · split
        · have a := ih { s with certs := foldTag sX509Certificate (fun acc _ ks => acc ++ [textOf ks]) s.certs kk }
          simp only at a
          exact ⟨a.1, a.2.1, a.2.2.1, a.2.2.2.1, a.2.2.2.2.1, a.2.2.2.2.2⟩
        · exact ih s
    | text d c => simpa [decKeyInfoKids] using ih s
    | comment d => simpa [decKeyInfoKids] using ih s
    | procinst a b => simpa [decKeyInfoKids] using ih s
    | directive d => simpa [decKeyInfoKids] using ih s

end Relic.XmlSig

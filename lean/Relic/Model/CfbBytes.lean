/-
  Relic.Model.CfbBytes — lib/comdoc's compound-file writer lifted from allocation TABLES
  (`Relic.Model.CfbWriter`) to FILE BYTES.

  The file is `pre` (everything before sector 0: the 512-byte header and, for 4096-byte sectors, the
  3584 bytes after it) followed by whole sectors.  relic's writer never reads the file after `openFile`;
  it only calls `WriteAt` (whole sectors through `writeSector`, one mini sector inside a sector of the
  mini-stream container through `writeShortSector`, the 512 header bytes) and one final `Truncate`.
  A `WriteAt` beyond the end zero-fills the gap and the final `Truncate` cuts or zero-extends to a whole
  number of sectors, so "sector `s` of the file, all zero when the file is shorter" (`getSec`) is exact.

  Modelled line by line (every function is the byte-level twin of a table-level function of
  `Relic.Model.CfbWriter`, which it calls or mirrors; `Relic.Proofs.CfbBytes` proves the table component
  equal to the table model):
    reader.go  `openFile`   → `openFile`   (header checks, `readMSAT`, `readSAT`, `readShortSAT`, `readDir`, `ListDir`)
    sectors.go `writeSector` → `wSec`;  shortsector.go `writeShortSector` → `writeShortB`
    stream.go  `addStream`  → `addStreamB` (data placement, zero padding of the last sector)
    writer.go  `AddFile` / `DeleteFile` / `Close` → `addFileB` / `deleteFileB` / `closeB`
    shortsector.go `writeShortSAT` → `writeShortSATB`; dirent.go `rebuildTree`, `writeDirStream` →
    `rebuildTree`, `writeDirStreamB`; sectors.go `writeSAT` → `writeSATB`; msat.go `writeMSAT` → `writeMSATB`;
    header rewrite → `headerBytes`; `Truncate` → `truncSecs`.

  Partiality as in `CfbWriter` (`.panic site` for index/slice out of range, `.err` for a returned error,
  `.diverge` for Go loops without a bound that the model runs with fuel).  Names enter as UTF-16 code units;
  `strings.EqualFold` is modelled by equality of the upper-cased units (`nameKey`; exact for the names the
  harness generates: ASCII, U+0005, MSI's 0x3800–0x4840), `unicode.ToUpper` by `RedBlack.upperUnit`.
  Core Lean only: linked into the native driver.
-/
import Relic.Model.Cfb
import Relic.Model.CfbWriter
import Relic.Model.RedBlack
namespace Relic.CfbB
open Relic Relic.CfbW Relic.Cfb

/-! ### the file as header + sectors -/

structure File where
  ss : Nat
  pre : Bytes
  secs : List Bytes
  deriving Repr, DecidableEq

def zeros (n : Nat) : Bytes := List.replicate n 0

/-- `content` copied into a zeroed buffer of `n` bytes (`copy(buf, content); for i := len(content); i < n; i++ { buf[i] = 0 }`) -/
def pad (n : Nat) (c : Bytes) : Bytes := c.take n ++ zeros (n - c.length)

/-- sector `s`; all zero beyond the end of the file (what a later `WriteAt`/`Truncate` makes of the gap) -/
def getSec (f : File) (s : Nat) : Bytes := (f.secs[s]?).getD (zeros f.ss)

def setSec (f : File) (s : Nat) (c : Bytes) : File :=
  if s < f.secs.length then { f with secs := f.secs.set s c }
  else { f with secs := f.secs ++ List.replicate (s - f.secs.length) (zeros f.ss) ++ [c] }

/-- the bytes of the file -/
def bytes (f : File) : Bytes := f.pre ++ f.secs.flatten

/-- `writeSector(sector, content)` for `sector ≥ 0` -/
def wSec (f : File) (s : Nat) (c : Bytes) : Res File :=
  if c.length > f.ss then .panic "excessive write" else .ok (setSec f s (pad f.ss c))

/-- `WriteAt(c, sectorToOffset(s) + o)` for `o < ss`: fills sector `s` from `o` on and continues in the next
    sector when `c` is longer than what is left of it (never the case when the mini sector size divides the
    sector size).  Fuel = an upper bound on the sectors touched. -/
def writeRel (f : File) : Nat → Nat → Nat → Bytes → File
  | 0, _, _, _ => f
  | fuel + 1, s, o, c =>
    if c.isEmpty then f
    else
      let k := f.ss - o
      let sec := getSec f s
      let f' := setSec f s (sec.take o ++ c.take k ++ sec.drop (o + (c.take k).length))
      writeRel f' fuel (s + 1) 0 (c.drop k)

/-- `Truncate(sectorToOffset(n))`: cut, or extend with zeros -/
def truncSecs (f : File) (n : Nat) : File :=
  { f with secs := (f.secs ++ List.replicate (n - f.secs.length) (zeros f.ss)).take n }

/-! ### integer codecs -/

def dec32 (n : Nat) : Int := if n < 2147483648 then (n : Int) else (n : Int) - 4294967296
def enc32 (i : Int) : Nat := (i % 4294967296).toNat
def le16 (n : Nat) : Bytes := leBytes 2 n
def le32 (n : Nat) : Bytes := leBytes 4 n
def le64 (n : Nat) : Bytes := leBytes 8 n
/-- `binary.Write(buf, binary.LittleEndian, []SecID)` -/
def encInts (l : List Int) : Bytes := l.flatMap fun i => le32 (enc32 i)

/-- `binary.Write` of one `RawDirEnt` (the blank field `_ uint32` is written as zero) -/
def encEntry (e : DirEntry) : Bytes :=
  (e.units.flatMap le16) ++ le16 e.nameLen ++ [UInt8.ofNat e.typ, UInt8.ofNat e.color] ++
  le32 e.left ++ le32 e.right ++ le32 e.child ++ e.clsid ++ le32 e.state ++ le64 e.ctime ++ le64 e.mtime ++
  le32 e.start ++ le32 e.size ++ le32 0

def zeroEntry : DirEntry :=
  { units := List.replicate 32 0, nameLen := 0, typ := 0, color := 0, left := 0, right := 0, child := 0,
    clsid := List.replicate 16 0, state := 0, ctime := 0, mtime := 0, start := 0, size := 0, sizeHi := 0 }

/-- `RawDirEnt{LeftChild: -1, RightChild: -1, StorageRoot: -1}`: what `writeDirStream` writes for an empty slot -/
def blankEntry : DirEntry := { zeroEntry with left := NOSTREAM, right := NOSTREAM, child := NOSTREAM }

/-! ### names -/

/-- `RawDirEnt.Name()` as code units: `used := NameLength/2 - 1` in uint16 arithmetic; empty when the entry is
    empty or `used > 32` -/
def entryName (e : DirEntry) : List Nat :=
  let used := (e.nameLen / 2 + 65535) % 65536
  if e.typ = 0 ∨ used > 32 then [] else e.units.take used

/-- identity of a name up to `strings.EqualFold` (upper-cased units, injectively packed into a number) -/
def nameKey (u : List Nat) : Nat := u.foldl (fun a x => a * 65537 + RedBlack.upperUnit x + 1) 0

/-- `lessDirEnt` of dirent.go (repaired, F4-order): `NameLength` first, then all 32 upper-cased code units -/
def lessEnt (e f : DirEntry) : Bool :=
  if e.nameLen ≠ f.nameLen then e.nameLen < f.nameLen
  else RedBlack.lexLt (e.units.map RedBlack.upperUnit) (f.units.map RedBlack.upperUnit)

/-! ### the state -/

/-- table state + raw directory entries + file.  Of `ents[i]` the fields `typ`, `start`, `size` are superseded by
    `st.files[i]` (and by `st.a.rootStart/rootSize` for the root entry); the entry of an empty slot is never used. -/
structure BSt where
  st : St
  ents : List DirEntry
  file : File
  deriving Repr

/-- the directory entry of slot `i` as it is in relic's memory -/
def entryAt (b : BSt) (i : Nat) : DirEntry :=
  let sl := b.st.files.getD i emptySlot
  let e := b.ents.getD i zeroEntry
  if i = b.st.root then { e with typ := sl.typ, start := enc32 b.st.a.rootStart, size := b.st.a.rootSize, sizeHi := 0 }
  else { e with typ := sl.typ, start := enc32 sl.start, size := sl.size, sizeHi := 0 }

/-- what `writeDirStream` serialises for slot `i` -/
def entryOut (b : BSt) (i : Nat) : DirEntry :=
  if (b.st.files.getD i emptySlot).typ ≠ 0 then entryAt b i else blankEntry

/-! ### openFile -/

/-- `readSectorStruct(sector, []SecID)`: the whole sector must be inside the file -/
def readSecU32s (b : Buf) (first ss s : Nat) : Option (List Nat) :=
  if first + s * ss + ss ≤ b.size then u32s? b (first + s * ss) (ss / 4) else none

/-- `readMSAT`'s loop; a chain longer than the file has sectors revisits one: Go never leaves the loop -/
def readMsatLoop (b : Buf) (first ss : Nat) : Nat → Int → List Int → List Int → Res (List Int × List Int)
  | 0, _, _, _ => .diverge
  | fuel + 1, next, msat, ml =>
    if next < 0 then .ok (msat, ml)
    else
      match readSecU32s b first ss next.toNat with
      | none => .err "open"
      | some vs =>
        let vals := vs.map dec32
        match vals.getLast? with
        | none => .panic "readMSAT:values[count-1]"
        | some nx => readMsatLoop b first ss fuel nx (msat ++ vals.dropLast) (ml ++ [next])

/-- `for i := len(MSAT)-1; i >= 0; i-- { if MSAT[i] >= 0 { MSAT = MSAT[:i+1]; break } }` -/
def trimMsat (l : List Int) : List Int :=
  let r := l.reverse.dropWhile (· < 0)
  if r.isEmpty then l else r.reverse

/-- `readSAT`: `done` = blocks read so far -/
def readSatLoop (b : Buf) (first ss nSat : Nat) : List Int → Nat → List Int → Res (List Int)
  | [], done, acc => .ok (acc ++ List.replicate ((ss / 4) * (nSat - done)) 0)
  | s :: rest, done, acc =>
    if s < 0 then readSatLoop b first ss nSat rest done acc
    else if done ≥ nSat then .err "open"
    else
      match readSecU32s b first ss s.toNat with
      | none => .err "open"
      | some vs => readSatLoop b first ss nSat rest (done + 1) (acc ++ vs.map dec32)

/-- `readShortSAT`: `left` = blocks still expected -/
def readSsatLoop (b : Buf) (first ss : Nat) (sat : List Int) : Nat → Int → List Int → Res (List Int)
  | left, s, acc =>
    if s < 0 then .ok (acc ++ List.replicate ((ss / 4) * left) 0)
    else
      match left with
      | 0 => .err "open"
      | left + 1 =>
        match readSecU32s b first ss s.toNat with
        | none => .err "open"
        | some vs =>
          match sat[s.toNat]? with
          | none => .panic "readShortSAT:SAT[sector]"
          | some nx => readSsatLoop b first ss sat left nx (acc ++ vs.map dec32)

def readEntriesAt (b : Buf) (o : Nat) : Nat → Option (List DirEntry)
  | 0 => some []
  | n + 1 => do
    let e ← readDirEntry b o
    let r ← readEntriesAt b (o + 128) n
    pure (e :: r)

/-- `readDir`'s chain walk; more than `len(SAT)` steps means a cycle: Go appends for ever -/
def readDirLoop (b : Buf) (first ss : Nat) (sat : List Int) : Nat → Int → List DirEntry → Res (List DirEntry)
  | 0, s, acc => if s < 0 then .ok acc else .diverge
  | fuel + 1, s, acc =>
    if s < 0 then .ok acc
    else if first + s.toNat * ss + ss ≤ b.size then
      match readEntriesAt b (first + s.toNat * ss) (ss / 128) with
      | none => .err "open"
      | some es =>
        match sat[s.toNat]? with
        | none => .panic "readDir:SAT[sector]"
        | some nx => readDirLoop b first ss sat fuel nx (acc ++ es)
    else .err "open"

/-- index of the last entry of type root -/
def lastRoot : List DirEntry → Nat → Option Nat → Option Nat
  | [], _, r => r
  | e :: rest, i, r => lastRoot rest (i + 1) (if e.typ = 5 then some i else r)

/-- `&r.Files[x]` for an int32 `x` given as its uint32 encoding -/
def fileIdx (n : Nat) (x : Nat) : Option Nat := if x < 2147483648 ∧ x < n then some x else none

/-- `ListDir`'s stack loop (top of the stack = head); fuel: a tree visits each entry once, more visits than
    `4·len(Files)+4` only happen with shared or cyclic links (Go: exponential or endless) -/
def listLoop (ents : List DirEntry) : Nat → List Nat → List Nat → Res (List Nat)
  | _, [], acc => .ok acc.reverse
  | 0, _ :: _, _ => .diverge
  | fuel + 1, i :: stack, acc =>
    let e := ents.getD i zeroEntry
    let pushL : Res (List Nat) :=
      if e.left ≠ NOSTREAM then
        match fileIdx ents.length e.left with
        | some l => .ok (l :: stack)
        | none => .panic "ListDir:Files[item.LeftChild]"
      else .ok stack
    match pushL with
    | .ok st1 =>
      if e.right ≠ NOSTREAM then
        match fileIdx ents.length e.right with
        | some r => listLoop ents fuel (r :: st1) (i :: acc)
        | none => .panic "ListDir:Files[item.RightChild]"
      else listLoop ents fuel st1 (i :: acc)
    | .err x => .err x | .panic p => .panic p | .diverge => .diverge

/-- `ListDir(nil)` as indices -/
def listRoot (ents : List DirEntry) (root : Nat) : Res (List Nat) :=
  let e := ents.getD root zeroEntry
  if e.child ≥ 2147483648 then .ok []
  else
    match fileIdx ents.length e.child with
    | none => .panic "ListDir:Files[parent.StorageRoot]"
    | some t => listLoop ents (4 * ents.length + 4) [t] []

/-- split the bytes after `first` into whole sectors, the last one zero-padded -/
def chunkSecs (ss : Nat) : Nat → Bytes → List Bytes
  | 0, _ => []
  | fuel + 1, b => if b.isEmpty then [] else pad ss (b.take ss) :: chunkSecs ss fuel (b.drop ss)

def slotOf (e : DirEntry) : Slot := ⟨e.typ, nameKey (entryName e), dec32 e.start, e.size⟩

/-- `openFile` -/
def openFile (b : Buf) : Res BSt :=
  match readHeader b with
  | .error _ => .err "open"
  | .ok h =>
    if h.byteOrder ≠ 0xFFFE then .err "open"
    else if h.sectorShift < 5 ∨ h.sectorShift > 28 ∨ h.miniShift ≥ h.sectorShift then .err "open"
    else
      let ss := 2 ^ h.sectorShift
      let sss := 2 ^ h.miniShift
      let first := if ss < 512 then 512 else ss
      match readMsatLoop b first ss (b.size / ss + 2) (dec32 h.firstDifat) (h.difat.map dec32) [] with
      | .ok (msat0, ml) =>
        let msat := trimMsat msat0
        match readSatLoop b first ss h.numFatSectors msat 0 [] with
        | .ok sat =>
          match readSsatLoop b first ss sat h.numMiniFat (dec32 h.firstMiniFat) [] with
          | .ok ssat =>
            match readDirLoop b first ss sat (sat.length + 1) (dec32 h.firstDir) [] with
            | .ok ents =>
              match lastRoot ents 0 none with
              | none => .err "open"
              | some root =>
                match listRoot ents root with
                | .ok rf =>
                  let rootE := ents.getD root zeroEntry
                  let files := (ents.map slotOf).set root { slotOf rootE with start := 0, size := 0 }
                  let rest := (b.extract first b.size).toList
                  .ok {
                    st := {
                      a := { ss, sss, sat, ssat, rootStart := dec32 rootE.start, rootSize := rootE.size }
                      cutoff := h.miniCutoff, version := h.major, files, root, rootFiles := rf, changed := false
                      dirStart := dec32 h.firstDir, dirCount := h.numDirSectors
                      ssatStart := dec32 h.firstMiniFat, ssatCount := h.numMiniFat
                      msat, msatList := ml, satSectors := h.numFatSectors, msatCount := h.numDifat
                      msatNext := dec32 h.firstDifat, fileSectors := 0 }
                    ents
                    file := { ss, pre := (b.extract 0 first).toList, secs := chunkSecs ss (rest.length + 1) rest } }
                | .err e => .err e | .panic p => .panic p | .diverge => .diverge
            | .err e => .err e | .panic p => .panic p | .diverge => .diverge
          | .err e => .err e | .panic p => .panic p | .diverge => .diverge
        | .err e => .err e | .panic p => .panic p | .diverge => .diverge
      | .err e => .err e | .panic p => .panic p | .diverge => .diverge

/-! ### addStream with data placement -/

/-- per-sector effect of `addStream(contents, false)`: `writeSector(i, contents[:n]); contents = contents[n:]` -/
def wBig (ss : Nat) (i : Nat) (p : Bytes × File) : Res (Bytes × File) :=
  match wSec p.2 i (p.1.take ss) with
  | .ok f' => .ok (p.1.drop ss, f')
  | .err e => .err e | .panic s => .panic s | .diverge => .diverge

/-- `growContainer` returning also the big sector that holds the short sector -/
def growContainerB (spb : Nat) (sat : List Int) (bigIdx : Nat) (rs : Int) : Res (List Int × Nat) :=
  match walkBig sat bigIdx rs.toNat with
  | .ok (big, k) =>
    if k = 0 then .ok (sat, big)
    else
      match makeFree spb sat k with
      | .ok (fl, sat1) =>
        match extendLoop fl big sat1 with
        | .ok (big', sat2) =>
          match setChk sat2 big' EOC "writeShortSector:SAT[bigSectorID]=EOC" with
          | .ok sat3 => .ok (sat3, big')
          | .err e => .err e | .panic p => .panic p | .diverge => .diverge
        | .err e => .err e | .panic p => .panic p | .diverge => .diverge
      | .err e => .err e | .panic p => .panic p | .diverge => .diverge
  | .err e => .err e | .panic p => .panic p | .diverge => .diverge

/-- `writeShortSector(i, c)`: table effect as `CfbW.writeShort`, plus the `WriteAt` into the container -/
def writeShortB (ss sss : Nat) (i : Nat) (c : Bytes) (st : List Int × Int × Nat) (f : File) :
    Res ((List Int × Int × Nat) × File) :=
  if c.length > sss then .panic "excessive write"
  else if ss = 0 then .panic "writeShortSector:div0"
  else
    match ensureContainer (ss / 4) st.1 st.2.1 with
    | .ok (sat, rs) =>
      match growContainerB (ss / 4) sat (i * sss / ss) rs with
      | .ok (sat', big) =>
        let off := i * sss - (i * sss / ss) * ss
        let sl := ((i + 1) * sss) % 4294967296
        .ok ((sat', rs, if sl > st.2.2 then sl else st.2.2), writeRel f (sss + 1) big off (pad sss c))
      | .err e => .err e | .panic p => .panic p | .diverge => .diverge
    | .err e => .err e | .panic p => .panic p | .diverge => .diverge

/-- per-sector effect of `addStream(contents, true)` -/
def wShort (ss sss : Nat) (i : Nat) (p : (List Int × Int × Nat) × Bytes × File) :
    Res ((List Int × Int × Nat) × Bytes × File) :=
  match writeShortB ss sss i (p.2.1.take sss) p.1 p.2.2 with
  | .ok (t, f') => .ok (t, p.2.1.drop sss, f')
  | .err e => .err e | .panic s => .panic s | .diverge => .diverge

/-- `addStream(contents, short)` -/
def addStreamB (a : Alloc) (c : Bytes) (short : Bool) (f : File) : Res (Int × Alloc × File) :=
  if short then
    if a.sss = 0 then .panic "addStream:div0"
    else
      match makeFree (a.ss / 4) a.ssat ((c.length + a.sss - 1) / a.sss) with
      | .ok (fl, ssat1) =>
        match linkLoop (wShort a.ss a.sss) fl EOC EOC ssat1 ((a.sat, a.rootStart, a.rootSize), c, f) with
        | .ok (first, prev, ssat2, ((sat', rs, rz), rest, f')) =>
          match terminate ssat2 prev with
          | .ok ssat3 =>
            if rest.length > 0 then .panic "didn't allocate enough sectors"
            else .ok (first, { a with sat := sat', ssat := ssat3, rootStart := rs, rootSize := rz }, f')
          | .err e => .err e | .panic p => .panic p | .diverge => .diverge
        | .err e => .err e | .panic p => .panic p | .diverge => .diverge
      | .err e => .err e | .panic p => .panic p | .diverge => .diverge
  else
    if a.ss = 0 then .panic "addStream:div0"
    else
      match makeFree (a.ss / 4) a.sat ((c.length + a.ss - 1) / a.ss) with
      | .ok (fl, sat1) =>
        match linkLoop (wBig a.ss) fl EOC EOC sat1 (c, f) with
        | .ok (first, prev, sat2, (rest, f')) =>
          match terminate sat2 prev with
          | .ok sat3 =>
            if rest.length > 0 then .panic "didn't allocate enough sectors"
            else .ok (first, { a with sat := sat3 }, f')
          | .err e => .err e | .panic p => .panic p | .diverge => .diverge
        | .err e => .err e | .panic p => .panic p | .diverge => .diverge
      | .err e => .err e | .panic p => .panic p | .diverge => .diverge

/-! ### AddFile / DeleteFile -/

/-- `DeleteFile(name)`: tables as `CfbW.deleteFile`; `*item = DirEnt{}` leaves an empty slot whose raw entry is
    never used again; nothing is written to the file -/
def deleteFileB (b : BSt) (key : Nat) : Res BSt :=
  match deleteFile b.st key with
  | .ok st' => .ok { b with st := st' }
  | .err e => .err e | .panic p => .panic p | .diverge => .diverge

/-- `newDirEnt(name, size, sector)` before `appendDirEnt` -/
def newEntry (units : List Nat) : DirEntry :=
  { zeroEntry with units := (units ++ [0] ++ List.replicate 32 0).take 32, nameLen := (2 * (units.length + 1)) % 65536,
                   typ := 2, left := NOSTREAM, right := NOSTREAM, child := NOSTREAM }

/-- `AddFile(name, contents)`; `key = nameKey units` -/
def addFileB (b : BSt) (units : List Nat) (c : Bytes) : Res BSt :=
  let key := nameKey units
  match deleteFile b.st key with
  | .ok st1 =>
    match addStreamB st1.a c (decide (c.length < st1.cutoff)) b.file with
    | .ok (first, a', f') =>
      if units.length + 1 > 32 then .err "name-too-long"
      else
        let slot : Slot := ⟨2, key, first, c.length % 4294967296⟩
        let (index, files, ents) :=
          match firstEmpty st1.files 0 with
          | some i => (i, st1.files, b.ents)
          | none => (st1.files.length, st1.files ++ List.replicate (st1.a.ss / 128) emptySlot,
                     b.ents ++ List.replicate (st1.a.ss / 128) zeroEntry)
        if index < files.length then
          .ok { st := { st1 with a := a', files := files.set index slot, rootFiles := st1.rootFiles ++ [index], changed := true }
                ents := ents.set index (newEntry units)
                file := f' }
        else .panic "appendDirEnt:Files[index]"
    | .err e => .err e | .panic p => .panic p | .diverge => .diverge
  | .err e => .err e | .panic p => .panic p | .diverge => .diverge

/-! ### Close -/

/-- per-sector effect of the loops of `writeShortSAT` / `writeDirStream`: the `k`-th chunk goes to the `k`-th
    sector of the free list -/
def wChunk (chunk : Nat → Bytes) (sector : Nat) (p : Nat × File) : Res (Nat × File) :=
  match wSec p.2 sector (chunk p.1) with
  | .ok f' => .ok (p.1 + 1, f')
  | .err e => .err e | .panic s => .panic s | .diverge => .diverge

/-- `writeShortSAT` -/
def writeShortSATB (b : BSt) : Res BSt :=
  let st := b.st
  let spb := st.a.ss / 4
  if spb = 0 then .panic "writeShortSAT:div0"
  else
    match freeSectors st.a.sat st.ssatStart with
    | .ok sat0 =>
      match makeFree spb sat0 (st.a.ssat.length / spb) with
      | .ok (fl, sat1) =>
        match linkLoop (wChunk fun k => encInts ((st.a.ssat.drop (k * spb)).take spb)) fl EOC EOC sat1 (0, b.file) with
        | .ok (first, prev, sat2, (_, f')) =>
          match terminate sat2 prev with
          | .ok sat3 =>
            .ok { b with st := { st with a := { st.a with sat := sat3 }, ssatStart := first, ssatCount := fl.length % 4294967296 }
                         file := f' }
          | .err e => .err e | .panic p => .panic p | .diverge => .diverge
        | .err e => .err e | .panic p => .panic p | .diverge => .diverge
      | .err e => .err e | .panic p => .panic p | .diverge => .diverge
    | .err e => .err e | .panic p => .panic p | .diverge => .diverge

/-- key at the root of a tree, as `int32(e.Index)` / `-1` -/
def rootIdx : RedBlack.Tree Nat → Nat
  | .nil => NOSTREAM
  | .node _ _ k _ => k

/-- `Tree.Nodes()`: root first, then (stack discipline) the right subtree before the left one -/
def nodesOrder : RedBlack.Tree Nat → List (Bool × Nat × Nat × Nat)
  | .nil => []
  | .node c l k r => (c, k, rootIdx l, rootIdx r) :: (nodesOrder r ++ nodesOrder l)

def setLinks (ents : List DirEntry) : List (Bool × Nat × Nat × Nat) → List DirEntry
  | [] => ents
  | (red, k, l, r) :: rest =>
    let e := ents.getD k zeroEntry
    setLinks (ents.set k { e with color := if red then 0 else 1, left := l, right := r }) rest

/-- `rebuildTree(rootStorage, rootFiles)`: red-black insertion (lib/redblack, new nodes red, root re-blackened)
    of the root storage's children in `rootFiles` order under `lessDirEnt`; colours and links are written back -/
def rebuildTree (ents : List DirEntry) (root : Nat) (rootFiles : List Nat) : List DirEntry :=
  let less := fun i j => lessEnt (ents.getD i zeroEntry) (ents.getD j zeroEntry)
  let t := RedBlack.insertAll less true true .nil rootFiles
  let re := ents.getD root zeroEntry
  let ents1 := ents.set root { re with child := NOSTREAM }
  let ents2 :=
    match nodesOrder t with
    | [] => ents1
    | (red, k, l, r) :: rest =>
      -- the first node is `tree.Root`: `r.Files[parent].StorageRoot = int32(e.Index)` comes before its colour
      let re1 := ents1.getD root zeroEntry
      setLinks (ents1.set root { re1 with child := k }) ((red, k, l, r) :: rest)
  ents2

/-- `writeDirStream` -/
def writeDirStreamB (b : BSt) : Res BSt :=
  let st := b.st
  let per := st.a.ss / 128
  let ents := rebuildTree b.ents st.root st.rootFiles
  let b1 : BSt := { b with ents := ents }
  match freeSectors st.a.sat st.dirStart with
  | .ok sat0 =>
    if per = 0 then .panic "writeDirStream:div0"
    else if st.files.length % per ≠ 0 then .panic "irregularly sized directory stream"
    else
      match makeFree (st.a.ss / 4) sat0 (st.files.length / per) with
      | .ok (fl, sat1) =>
        match linkLoop (wChunk fun k => ((List.range per).flatMap fun j => encEntry (entryOut b1 (k * per + j)))) fl EOC EOC sat1 (0, b.file) with
        | .ok (first, prev, sat2, (_, f')) =>
          if prev < 0 then .panic "writeDirStream:SAT[previous]"
          else
            match setChk sat2 prev.toNat EOC "writeDirStream:SAT[previous]" with
            | .ok sat3 =>
              .ok { st := { st with a := { st.a with sat := sat3 }, dirStart := first,
                                    dirCount := if st.version ≥ 4 then fl.length % 4294967296 else st.dirCount }
                    ents := ents, file := f' }
            | .err e => .err e | .panic p => .panic p | .diverge => .diverge
        | .err e => .err e | .panic p => .panic p | .diverge => .diverge
      | .err e => .err e | .panic p => .panic p | .diverge => .diverge
  | .err e => .err e | .panic p => .panic p | .diverge => .diverge

/-- `writeSAT`: block `i` of the FAT goes to the sector `MSAT[i]`; a negative entry makes `WriteAt` fail -/
def writeSATB (spb : Nat) (sat : List Int) : List Int → Nat → File → Res File
  | [], _, f => .ok f
  | s :: rest, i, f =>
    if (i + 1) * spb > sat.length then .panic "writeSAT:SAT[j:j+satPerSector]"
    else if s < 0 then .err "negative-offset"
    else
      match wSec f s.toNat (encInts ((sat.drop (i * spb)).take spb)) with
      | .ok f' => writeSATB spb sat rest (i + 1) f'
      | .err e => .err e | .panic p => .panic p | .diverge => .diverge

/-- the MSAT rounded up to header + whole DIFAT sectors, unused slots FREESECT -/
def msatPadded (spb : Nat) (msat ml : List Int) : List Int :=
  let n := 109 + ml.length * (spb - 1)
  msat.take n ++ List.replicate (n - msat.length) FREE

/-- `writeMSAT`'s loop over `msatList` -/
def writeMSATB (spb : Nat) (tail : List Int) : List Int → Nat → File → Res File
  | [], _, f => .ok f
  | s :: rest, i, f =>
    let j := i * (spb - 1)
    if j + (spb - 1) > tail.length then .panic "writeMSAT:msat[j:j+msatPerSector]"
    else if s < 0 then .err "negative-offset"
    else
      let chunk := (tail.drop j).take (spb - 1) ++ [rest.headD EOC]
      match wSec f s.toNat (encInts chunk) with
      | .ok f' => writeMSATB spb tail rest (i + 1) f'
      | .err e => .err e | .panic p => .panic p | .diverge => .diverge

/-- the 512 header bytes `Close` writes: the fields relic read, with the chain heads, counts and the first 109 MSAT
    entries replaced (`binary.Write(buf, binary.LittleEndian, r.Header)`) -/
def headerBytes (pre : Bytes) (st : St) (msat109 : List Int) : Bytes :=
  magic ++ (pre.drop 8).take 20 ++ [0xfe, 0xff] ++ (pre.drop 30).take 10 ++
  le32 st.dirCount ++ le32 st.satSectors ++ le32 (enc32 st.dirStart) ++ (pre.drop 52).take 8 ++
  le32 (enc32 st.ssatStart) ++ le32 st.ssatCount ++ le32 (enc32 st.msatNext) ++ le32 st.msatCount ++ encInts msat109

/-- the file `Close` leaves once the FAT and DIFAT sectors are written: new header bytes, then
    `Truncate(sectorToOffset(lu))` when some FAT entry is in use -/
def finalFile (f4 : File) (pre' : Bytes) (lu : Nat) : File :=
  if lu = 0 then { f4 with pre := pre' } else truncSecs { f4 with pre := pre' } lu

/-- the header fields `Close` sets after `allocSectorTables` -/
def closeState (st2 : St) (sat msat ml : List Int) : St :=
  { st2 with a := { st2.a with sat := sat }, msat := msat, msatList := ml,
             satSectors := msat.length % 4294967296, msatCount := ml.length % 4294967296,
             msatNext := ml.headD EOC,
             fileSectors := if lastUsed sat = 0 then st2.fileSectors else lastUsed sat }

/-- `Close()` -/
def closeB (b : BSt) : Res BSt :=
  if !b.st.changed then .ok b
  else
    match writeShortSATB b with
    | .ok b1 =>
      match writeDirStreamB b1 with
      | .ok b2 =>
        match allocTables b2.st.a.ss (b2.st.a.sat.length + b2.st.msat.length + 16) b2.st.a.sat b2.st.msat b2.st.msatList with
        | .ok (sat, msat, ml) =>
          if msat.length * (b2.st.a.ss / 4) > sat.length then .panic "writeSAT:SAT[j:j+satPerSector]"
          else
            match writeSATB (b2.st.a.ss / 4) sat msat 0 b2.file with
            | .ok f3 =>
              match writeMSATB (b2.st.a.ss / 4) ((msatPadded (b2.st.a.ss / 4) msat ml).drop 109) ml 0 f3 with
              | .ok f4 =>
                .ok { st := closeState b2.st sat msat ml, ents := b2.ents
                      file := finalFile f4 (headerBytes f4.pre (closeState b2.st sat msat ml)
                                ((msatPadded (b2.st.a.ss / 4) msat ml).take 109) ++ f4.pre.drop 512) (lastUsed sat) }
              | .err e => .err e | .panic p => .panic p | .diverge => .diverge
            | .err e => .err e | .panic p => .panic p | .diverge => .diverge
        | .err e => .err e | .panic p => .panic p | .diverge => .diverge
      | .err e => .err e | .panic p => .panic p | .diverge => .diverge
    | .err e => .err e | .panic p => .panic p | .diverge => .diverge

/-! ### sessions -/

/-- one step of a history: add/replace the root-level stream `name` with `data`, or delete it -/
inductive Op where
  | add (name : List Nat) (data : Bytes)
  | del (name : List Nat)
  deriving Repr

def step (b : BSt) : Op → Res BSt
  | .add n d => addFileB b n d
  | .del n => deleteFileB b (nameKey n)

def run : BSt → List Op → Res BSt
  | b, [] => .ok b
  | b, op :: ops =>
    match step b op with
    | .ok b' => run b' ops
    | .err e => .err e | .panic p => .panic p | .diverge => .diverge

/-- `WriteFile(f)`, the operations, `Close()`: the bytes of the file afterwards (untouched when nothing changed) -/
def session (buf : Buf) (ops : List Op) : Res Bytes :=
  match openFile buf with
  | .ok b =>
    match run b ops with
    | .ok b1 =>
      match closeB b1 with
      | .ok b2 => if b1.st.changed then .ok (bytes b2.file) else .ok buf.toList
      | .err e => .err e | .panic p => .panic p | .diverge => .diverge
    | .err e => .err e | .panic p => .panic p | .diverge => .diverge
  | .err e => .err e | .panic p => .panic p | .diverge => .diverge

end Relic.CfbB

/- line-protocol handler for the MSI sign → insert → verify model (token `MSIS`; properties C01, C02, C03, C08).

   The model is parametric in the hash and in the CMS layer.  The driver runs it with *term* instances: `Hsym alg x`
   is a marker, the algorithm, the length and the pre-image itself (an injective "hash"), `mkSym alg imprint` likewise for
   the PKCS#7 blob.  Equality tests between digests are then decided as for any collision-free hash; the python side
   replaces every term by the real digest before comparing with what relic produced. -/
import Relic.Model.MsiSign
import Relic.Driver.MSI
import Relic.Proofs.MsiTree
namespace Relic.Driver.MsiSign
open Relic Relic.MsiDigest Relic.MsiSign

def MARK : Bytes := [0xde, 0xc0, 0xad, 0x0b, 0x5e, 0xed, 0xf0, 0x0d, 0x4d, 0x53, 0x49, 0x48, 0x41, 0x53, 0x48, 0x21]
def CMARK : Bytes := [0xde, 0xc0, 0xad, 0x0b, 0x5e, 0xed, 0xf0, 0x0d, 0x4d, 0x53, 0x49, 0x43, 0x4d, 0x53, 0x21, 0x21]

def Hsym (alg : Nat) (x : Bytes) : Bytes := MARK ++ [UInt8.ofNat alg] ++ leBytes 4 x.length ++ x
/-- check byte of the CMS term: any single-byte change of the term is an invalid signature -/
def chk (b : Bytes) : UInt8 := b.foldl (fun acc x => acc * 31 + x + 1) 7

def mkSym (alg : Nat) (imprint : Bytes) : Bytes :=
  CMARK ++ [UInt8.ofNat alg] ++ leBytes 4 imprint.length ++ imprint ++ [chk imprint]

def cmsSym (b : Bytes) : Res CmsInfo :=
  if b.take 16 = CMARK ∧ 22 ≤ b.length ∧ leVal ((b.drop 17).take 4) = b.length - 22 ∧
      b.getLast? = some (chk ((b.drop 21).take (b.length - 22))) then
    .ok ⟨((b.drop 16).headD 0).toNat, (b.drop 21).take (b.length - 22)⟩
  else .err "cms"

/-! ### output -/

def showUnits (u : List Nat) : String :=
  if u.isEmpty then "-" else String.ofList (u.flatMap fun x => (hexOfByte (UInt8.ofNat (x / 256))) ++ hexOfByte (UInt8.ofNat (x % 256)))

/-- dump of a node below the root level, `ListDir` order: every field (`full`, signing rounds: nothing below the root may
    change) or the fields that survive a new layout of the file (edits) -/
partial def showDeep (full : Bool) : Node → String
  | .mk m c kids =>
    (if full then
      s!"{showUnits m.slots}:{m.nameLen}:{m.typ}:{m.color}:{m.left}:{m.right}:{m.child}:{toHex m.clsid}:{m.state}:{m.ctime}:{m.mtime}:{m.start}:{m.size}:C{toHex c}"
     else
      s!"{showUnits m.slots}:{m.nameLen}:{m.typ}:{toHex m.clsid}:{m.state}:{m.ctime}:{m.mtime}:{m.size}:C{toHex c}") ++
    "{" ++ "|".intercalate (kids.map (showDeep full)) ++ "}"

/-- an entry of the root storage: the fields signing must not change (no tree links, no start sector) -/
def showTop (full : Bool) : Node → String
  | .mk m c kids =>
    s!"{showUnits m.slots}:{m.nameLen}:{m.typ}:{toHex m.clsid}:{m.state}:{m.ctime}:{m.mtime}:S{m.size}:C{toHex c}" ++
    "{" ++ "|".intercalate (kids.map (showDeep full)) ++ "}"

def showDoc (d : Node) (full : Bool := true) : String :=
  s!"root={toHex d.meta.clsid}:{d.meta.state}:{d.meta.ctime}:{d.meta.mtime};dir=" ++
  (if d.kids.isEmpty then "-" else ",".intercalate (d.kids.map (showTop full)))

def showV {α : Type} : Res α → String
  | .ok _ => "ok"
  | .err e => "err:" ++ e
  | .panic s => "panic:" ++ s
  | .diverge => "diverge"

def hypOf (d : Node) : String :=
  let ok := okAtB true d && d.meta.typ == typRoot
  let safe := tarRootOkB d.kids
  let alias := noAliasB d.kids
  let strm := sigsAreStreamsB d.kids
  s!"okat={if ok then 1 else 0} safe={if safe then 1 else 0} noalias={if alias then 1 else 0} strm={if strm then 1 else 0}"

/-! ### rounds -/

structure Round where
  alg : Nat
  noExt : Bool

def parseRound (s : String) : Option Round :=
  match s.toList with
  | a :: f :: _ =>
    let alg := a.toNat - 48
    if f = 'x' then some ⟨alg, false⟩ else if f = 'n' then some ⟨alg, true⟩ else none
  | _ => none

def parseRounds (s : String) : Option (List Round) := (s.splitOn ",").mapM parseRound

def verdict (d : Node) : String := showV (verifyMSI Hsym cmsSym d false)

/-- one signing round on the in-memory document; a refused round leaves the document as it was -/
def runRound (d : Node) (r : Round) : Node × String :=
  match signMSI Hsym mkSym r.alg r.noExt d 0 0 with
  | .ok d' => (d', s!"sign=ok;v={verdict d'};{showDoc d'}")
  | e => (d, s!"sign={showV e};v={verdict d};{showDoc d}")

def runRounds : Node → List Round → List String
  | _, [] => []
  | d, r :: rest => let (d', s) := runRound d r; s :: runRounds d' rest

/-! ### edits of a signed document (C02) -/

def unitsOfHex (s : String) : Option (List Nat) := do
  let b ← fromHex s
  let rec go : Bytes → Option (List Nat)
    | [] => some []
    | [_] => none
    | a :: b :: rest => do pure ((a.toNat * 256 + b.toNat) :: (← go rest))
  go b

def parsePath (s : String) : Option (List (List Nat)) :=
  if s = "." then some [] else (s.splitOn "/").mapM unitsOfHex

def nameOf (n : Node) : List Nat := nameUnits n.meta

def setName (m : Meta) (u : List Nat) : Meta :=
  { m with slots := u ++ List.replicate (32 - u.length) 0, nameLen := 2 * (u.length + 1) }

/-- replace the first child called `nm` by `f child` (a list: empty = delete) -/
def replKid (nm : List Nat) (f : Node → List Node) : List Node → List Node
  | [] => []
  | k :: rest => if nameOf k = nm then f k ++ rest else k :: replKid nm f rest

/-- apply `f` to the node at `path` (relative to `n`); the node is replaced by the list `f` returns -/
def editAt (f : Node → List Node) : List (List Nat) → Node → Node
  | [], n => (f n).headD n
  | [nm], .mk m c kids => .mk m c (replKid nm f kids)
  | nm :: p, .mk m c kids => .mk m c (replKid nm (fun k => [editAt f p k]) kids)

def findAt : List (List Nat) → Node → Option Node
  | [], n => some n
  | nm :: p, .mk _ _ kids =>
    match kids.find? (fun k => nameOf k = nm) with
    | some k => findAt p k
    | none => none

def setContent (c : Bytes) : Node → Node
  | .mk m _ kids => .mk { m with size := c.length } c kids

def flipAt (off : Nat) (c : Bytes) : Bytes :=
  match c[off]? with
  | some b => c.set off (b ^^^ 1)
  | none => c

def stream (nm : List Nat) (c : Bytes) : Node := .mk (newMeta nm c.length 0) c []
def storage (nm : List Nat) (clsid : Bytes) : Node := .mk { newMeta nm 0 0 with typ := typStorage, clsid := clsid } [] []

def addKid (k : Node) : Node → List Node
  | .mk m c kids => [.mk m c (kids ++ [k])]

def rootStream (nm : List Nat) (d : Node) : Option Node := d.kids.find? (fun k => nameOf k = nm)

/-- one edit; `d2` = the second signed document of the op (donor of signature streams) -/
def applyEdit (d2 : Option Node) (d : Node) (e : String) : Option Node :=
  match e.splitOn ":" with
  | ["flip", p, off] => do
    let p ← parsePath p; let off ← off.toNat?
    pure (editAt (fun n => [setContent (flipAt off n.content) n]) p d)
  | ["ren", p, nn] => do
    let p ← parsePath p; let u ← unitsOfHex nn
    pure (editAt (fun | .mk m c k => [.mk (setName m u) c k]) p d)
  | ["mv", pa, pb, k] => do
    let pa ← parsePath pa; let pb ← parsePath pb; let k ← k.toNat?
    let a ← findAt pa d
    let tail := a.content.drop (a.content.length - k)
    let d1 := editAt (fun n => [setContent (n.content.take (n.content.length - k)) n]) pa d
    pure (editAt (fun n => [setContent (tail ++ n.content) n]) pb d1)
  | ["ct", p, v] => do
    let p ← parsePath p; let v ← v.toNat?
    pure (editAt (fun | .mk m c k => [.mk { m with ctime := v } c k]) p d)
  | ["mt", p, v] => do
    let p ← parsePath p; let v ← v.toNat?
    pure (editAt (fun | .mk m c k => [.mk { m with mtime := v } c k]) p d)
  | ["st", p, v] => do
    let p ← parsePath p; let v ← v.toNat?
    pure (editAt (fun | .mk m c k => [.mk { m with state := v } c k]) p d)
  | ["cl", p, h] => do
    let p ← parsePath p; let b ← fromHex h
    pure (editAt (fun | .mk m c k => [.mk { m with clsid := b } c k]) p d)
  | ["del", p] => do
    let p ← parsePath p
    pure (editAt (fun _ => []) p d)
  | ["set", p, h] => do
    let p ← parsePath p; let b ← fromHex h
    pure (editAt (fun n => [setContent b n]) p d)
  | ["add", p, nn, h] => do
    let p ← parsePath p; let u ← unitsOfHex nn; let b ← fromHex h
    pure (editAt (addKid (stream u b)) p d)
  | ["adds", p, nn, h] => do
    let p ← parsePath p; let u ← unitsOfHex nn; let b ← fromHex h
    pure (editAt (addKid (storage u b)) p d)
  | ["exfirst", nn] => do
    let u ← unitsOfHex nn
    let ex ← rootStream sigExName d
    let d1 := editAt (fun _ => []) [sigExName] d
    pure (editAt (addKid (stream u ex.content)) [] d1)
  | ["sigfrom2"] => do
    let o ← d2
    let d1 := editAt (fun _ => []) [sigExName] (editAt (fun _ => []) [sigName] d)
    let d1 := match rootStream sigName o with
      | some s => editAt (addKid (stream sigName s.content)) [] d1
      | none => d1
    pure (match rootStream sigExName o with
      | some s => editAt (addKid (stream sigExName s.content)) [] d1
      | none => d1)
  | ["sigonly2"] => do
    let o ← d2
    let s ← rootStream sigName o
    pure (editAt (fun n => [setContent s.content n]) [sigName] d)
  | ["sigtrunc"] => do
    let s ← rootStream sigName d
    pure (editAt (fun n => [setContent (s.content.take (s.content.length - 1)) n]) [sigName] d)
  | ["sigflip"] => do
    let s ← rootStream sigName d
    pure (editAt (fun n => [setContent (flipAt (s.content.length - 1) n.content) n]) [sigName] d)
  | ["nop"] => some d
  | _ => none

def applyEdits (d2 : Option Node) : Node → List String → Option Node
  | d, [] => some d
  | d, e :: rest => do
    let d' ← applyEdit d2 d e
    applyEdits d2 d' rest

def splitBar (l : List String) : List String × List String :=
  (l.takeWhile (· ≠ "|"), (l.dropWhile (· ≠ "|")).drop 1)

def signOnce (d : Node) (r : Round) : Option Node :=
  match signMSI Hsym mkSym r.alg r.noExt d 0 0 with
  | .ok d' => some d'
  | _ => none

/-- `hist <tag> <rounds> <file> <tree…>`: signing rounds; `mut <tag> <round> <edits> <file> <file2> <tree…> [| <tree2…>]`:
    sign, edit the signed document, verify -/
def handle : List String → String
  | "hist" :: _tag :: rounds :: _file :: rest =>
    match parseRounds rounds, Relic.Driver.MSI.parseNode rest with
    | some rs, some (root, []) =>
      "ok " ++ " ".intercalate ((s!"in=1;v={verdict root};" ++ showDoc root) :: runRounds root rs) ++ " #" ++ hypOf root
    | _, _ => "bad-op"
  | "mut" :: _tag :: round :: edits :: _file :: _file2 :: rest =>
    let (t1, t2) := splitBar rest
    match parseRound round, Relic.Driver.MSI.parseNode t1 with
    | some r, some (root, []) =>
      let d2 : Option Node := match Relic.Driver.MSI.parseNode t2 with
        | some (root2, []) => signOnce root2 r
        | _ => none
      match signOnce root r with
      | none => "ok sign=fail #" ++ hypOf root
      | some d =>
        match applyEdits d2 d (edits.splitOn ";") with
        | none => "bad-op"
        | some dm =>
          s!"ok sign=ok;v0={verdict d};v={verdict dm};{showDoc dm false} #" ++ hypOf root ++
            s!" mokat={if okAtB true dm then 1 else 0} ex={if (exCount dm.kids) > 0 then 1 else 0}"
    | _, _ => "bad-op"
  | _ => "bad-op"

end Relic.Driver.MsiSign

package xar

import (
	"crypto"
	"crypto/rsa"
	"crypto/x509"
	"encoding/base64"
	"encoding/pem"
	"strings"
	"sync"

	"github.com/sassoftware/relic/v8/lib/certloader"
)

// Keys the ops may name.  "chain" = RSA-2048 leaf with the issuing CA certificate behind it.
var KeyNames = []string{"rsa", "p256", "rsa3", "chain"}

var (
	certMu    sync.Mutex
	certCache = map[string]*certloader.Certificate{}
)

func mustCert(name string) *x509.Certificate {
	blk, _ := pem.Decode([]byte(certPEM[name]))
	if blk == nil {
		panic("no certificate " + name)
	}
	c, err := x509.ParseCertificate(blk.Bytes)
	if err != nil {
		panic(err)
	}
	return c
}

// Cert: the fixed key of that name as relic's certificate bundle.
func Cert(name string) *certloader.Certificate {
	certMu.Lock()
	defer certMu.Unlock()
	if c := certCache[name]; c != nil {
		return c
	}
	kn, cn := name, []string{name}
	if name == "chain" {
		kn, cn = "leaf", []string{"leaf", "ca"}
	}
	blk, _ := pem.Decode([]byte(keyPEM[kn]))
	if blk == nil {
		panic("no key " + name)
	}
	k, err := x509.ParsePKCS8PrivateKey(blk.Bytes)
	if err != nil {
		panic(err)
	}
	var chain []*x509.Certificate
	for _, n := range cn {
		chain = append(chain, mustCert(n))
	}
	c := &certloader.Certificate{Leaf: chain[0], Certificates: chain, PrivateKey: k.(crypto.PrivateKey), KeyName: "verif-xar-" + name}
	certCache[name] = c
	return c
}

// RSASize: modulus size in bytes of the key's leaf (0 for a non-RSA key).
func RSASize(name string) int {
	if pk, ok := Cert(name).Leaf.PublicKey.(*rsa.PublicKey); ok {
		return pk.Size()
	}
	return 0
}

// CertDERs: the DER certificates of the bundle.
func CertDERs(name string) [][]byte {
	var out [][]byte
	for _, c := range Cert(name).Certificates {
		out = append(out, c.Raw)
	}
	return out
}

// B64Lines: standard base64 with a newline after every 72 characters (own rendering, for the generator's archives).
func B64Lines(der []byte) string {
	s := base64.StdEncoding.EncodeToString(der)
	var sb strings.Builder
	for len(s) > 72 {
		sb.WriteString(s[:72] + "\n")
		s = s[72:]
	}
	sb.WriteString(s)
	return sb.String()
}

// CertText: certificate text of the leaf of that key as it stands in a table of contents.
func CertText(name string) string { return B64Lines(Cert(name).Leaf.Raw) }

// CertTextOK: what encoding/base64 and crypto/x509 say about a certificate text.
func CertTextOK(text string) bool {
	b, err := base64.StdEncoding.DecodeString(text)
	if err != nil {
		return false
	}
	_, err = x509.ParseCertificate(b)
	return err == nil
}

package main

// registration of the Apple code-signature decision model (harness/csvfy; first op token CSV) – kept in its own file so
// that it merges without touching main.go.  C11 keeps its own runner (worker children); its CSV ops run as a second
// correspondence under the pseudo-property C11CSV (checklib/models/csvfy.py `second`), routed by first token through
// hx.Dispatch.

import "verifharness/csvfy"

func init() {
	handlers["CSV"] = csvfy.Handle
	for _, p := range []string{"C01", "C02", "C08"} {
		gens[p] = append(gens[p], forProp(p, csvfy.Gen))
	}
	gens["C11CSV"] = []genFunc{forProp("C11", csvfy.Gen)}
}

/-
  C12 — Binary patches apply exactly, in place or by rewrite.
  Property theorems about `Relic.Model.Binpatch` (model of /repo/lib/binpatch/binpatch.go).
  Helper lemmas live in Relic/Proofs/Binpatch*.lean.
-/
import Relic.Proofs.Binpatch
import Relic.Proofs.BinpatchCodec
import Relic.Proofs.BinpatchInPlace
import Relic.Proofs.BinpatchSort
namespace Relic.Props.C12
open Relic Relic.Binpatch

/-- A call sequence is *constructible* for a file of length `n`: offsets ascending, ranges
    disjoint or touching, every range inside the file.  (Decidable; this is what every relic
    builder emits.) -/
abbrev Constructible (n : Nat) (cs : List Patch) : Prop := wfFrom n 0 cs = true

/-- **add_spec.** For every coalescing/splitting threshold `M`, every file and every constructible
    sequence of `Add` calls, the write-then-rename strategy applied to the accumulated patch set
    yields exactly the reference result ("the original bytes with each listed range replaced by
    its blob").  Covers zero-length, inserting, extending, truncating, adjacent (coalesced or, at
    the caps, not coalesced) and over-`M` (split) ranges. -/
theorem add_spec (M : Nat) (f : Bytes) (cs : List Patch) (h : Constructible f.length cs) :
    applyRewrite f (build M cs) = .ok (sem f cs) := by
  obtain ⟨r, hr, hs⟩ := rewriteLoop_spec f 0 (build M cs) (Nat.zero_le _) (wf_build M f.length cs h)
  rw [applyRewrite, hr, ← sem_build M f cs h, ← hs]
  simp

/-- **load_dump.** Serialising and parsing gives back the patch list (fields within the widths
    `Dump` writes), even when followed by trailing bytes. -/
theorem load_dump (ps : List Patch) (rest : Bytes) (h : ∀ p ∈ ps, Fits p) (hn : ps.length < 256 ^ 4) :
    load (dumpSorted ps ++ rest) = .ok ps :=
  load_dumpSorted ps h hn rest

/-- **dump_load_apply.** The production path `Dump → Load → applyRewrite` on builder output. -/
theorem dump_load_apply (M : Nat) (f : Bytes) (cs : List Patch) (h : Constructible f.length cs)
    (hf : ∀ p ∈ build M cs, Fits p) (hn : (build M cs).length < 256 ^ 4) :
    (load (dump (build M cs))).bind (applyRewrite f) = .ok (sem f cs) := by
  have w := wf_build M f.length cs h
  have e : dump (build M cs) = dumpSorted (build M cs) ++ [] := by
    simp [dump, sortByOff_id f.length 0 _ w]
  rw [e, load_dumpSorted _ hf hn]
  exact add_spec M f cs h

/-- **sort_instability_irrelevant.** `sort.Sort` is not stable.  Whatever permutation it returns, if
    it is sorted by offset and the offsets are pairwise distinct then it is the list the model's
    (stable) sort returns. -/
theorem sort_instability_irrelevant (ps qs : List Patch) (hp : qs.Perm ps)
    (hs : qs.Pairwise (fun a b => a.off ≤ b.off)) (nd : (ps.map (·.off)).Nodup) : qs = sortByOff ps := by
  have p2 := sortByOff_perm ps
  have nd2 : ((sortByOff ps).map (·.off)).Nodup := (p2.map _).nodup_iff.mpr nd
  have st := strict_of_sorted_nodup _ (sortByOff_sorted ps) nd2
  exact strict_sorted_perm_unique _ qs st (hp.trans p2.symm) hs

/-- **load_prefix_rejected.** Every proper prefix of a serialised patch set is refused. -/
theorem load_prefix_rejected (ps : List Patch) (b x : Bytes) (h : ∀ p ∈ ps, Fits p) (hn : ps.length < 256 ^ 4)
    (hb : b ++ x = dumpSorted ps) (hx : x ≠ []) : ∀ qs, load b ≠ .ok qs := by
  intro qs hq
  have m := load_mono b x qs hq
  have full : load (dumpSorted ps ++ []) = .ok ps := load_dumpSorted ps h hn []
  rw [List.append_nil, ← hb, m] at full
  injection full with e
  subst e
  have c := load_consumes b qs hq
  have l := dumpSorted_length qs
  rw [← hb, List.length_append] at l
  have : 0 < x.length := List.length_pos_iff.mpr hx
  omega

/-- **inplace_eq_rewrite.** Whenever `Apply` chooses the in-place strategy (all patches
    size-preserving except possibly a last one ending at EOF) on a patch set whose ranges are
    ascending and inside the file, the in-place result is the reference – hence identical to what
    write-then-rename produces. -/
theorem inplace_eq_rewrite (f : Bytes) (ps : List Patch) (size : Nat)
    (w : wfFrom f.length 0 ps = true) (e : inPlaceSize f.length ps f.length = some size) :
    applyInPlace f ps size = sem f ps ∧ applyRewrite f ps = .ok (sem f ps) := by
  refine ⟨inplace_spec ps f 0 size w e, ?_⟩
  obtain ⟨r, hr, hs⟩ := rewriteLoop_spec f 0 ps (Nat.zero_le _) w
  rw [applyRewrite, hr, ← hs]; simp

/-- **apply_exact.** Whatever strategy `Apply` picks (same path or other path, hard link or not),
    the bytes found at the output path are the reference result. -/
theorem apply_exact (M : Nat) (f : Bytes) (cs : List Patch) (h : Constructible f.length cs) (canOverwrite : Bool) :
    ∃ strategy, apply f (build M cs) canOverwrite = .ok (sem f cs, strategy) := by
  have w := wf_build M f.length cs h
  unfold apply
  cases hsz : (if canOverwrite = true then inPlaceSize f.length (build M cs) f.length else none) with
  | some size =>
    refine ⟨true, ?_⟩
    have e : inPlaceSize f.length (build M cs) f.length = some size := by
      cases canOverwrite <;> simp_all
    simp only
    rw [(inplace_eq_rewrite f _ size w e).1, sem_build M f cs h]
  | none =>
    refine ⟨false, ?_⟩
    simp only
    rw [add_spec M f cs h]

/-- the point excluded from `inplace_eq_rewrite`: a size-preserving patch reaching past EOF is
    truncated away by the in-place strategy but kept by the rewrite strategy.  Not constructible
    (its range is outside the file). -/
theorem inplace_differs_past_eof :
    apply [1, 2] [⟨1, 2, [7, 8]⟩] true = .ok ([1, 7], true) ∧
    apply [1, 2] [⟨1, 2, [7, 8]⟩] false = .ok ([1, 7, 8], false) ∧
    ¬ Constructible 2 [⟨1, 2, [7, 8]⟩] := by decide

/-! ### non-vacuity: concrete, non-trivial values satisfy the hypotheses -/

example : Constructible 10 [⟨0, 0, [1]⟩, ⟨2, 3, []⟩, ⟨5, 1, [9, 9]⟩, ⟨10, 0, [4]⟩] := by decide
example : build 4 [⟨0, 3, [1]⟩, ⟨3, 3, [2]⟩, ⟨6, 9, []⟩] =
    [⟨0, 3, [1]⟩, ⟨3, 3, [2]⟩, ⟨6, 4, []⟩, ⟨10, 4, []⟩, ⟨14, 1, []⟩] := by
  simp [build, add, addSplit]
example : inPlaceSize 5 [⟨0, 1, [7]⟩, ⟨3, 2, [1, 2, 3]⟩] 5 = some 6 := by decide
example : Fits ⟨5, 3, [1, 2]⟩ := by unfold Fits; decide

end Relic.Props.C12

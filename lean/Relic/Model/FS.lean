/-
  Relic.Model.FS — an abstract POSIX file-system state and the system calls relic's output phase
  issues (lib/atomicfile, lib/binpatch.applyRewrite, signers.fileProducer.Apply, signers/msi,
  signers/pgp).  Used by property C13.

  * A state is a finite map path → inode number, inode → (content, mode), and a table of open
    descriptors (inode, offset).  Inode numbers `< next` are allocated; a new file takes `next`.
  * An `Op` is one *successful* system call as strace prints it (its arguments and its result:
    the descriptor returned by `openat`, the byte count returned by `read`/`copy_file_range`,
    the offset returned by `lseek`).  A call that fails in the kernel changes nothing; the model
    is total and treats an op whose precondition does not hold as such a no-op.
  * A *program* is a `List Op`; a crash (SIGKILL) at a system-call boundary = run a prefix
    (`tr.take k`).  A `write` cut short by the kill is a `write` of a prefix of its buffer,
    i.e. a prefix of another chunking of the same program – theorems quantify over all chunkings.
  * `rename` replaces the target atomically (POSIX; trusted).  No durability/fsync modelling:
    the property is about killing the process, not the machine.
  Core Lean only.
-/
import Relic.Base.Bytes
import Relic.Model.Binpatch
namespace Relic.FS
open Relic

structure FdEnt where
  ino : Nat
  off : Nat
  deriving Repr, DecidableEq

structure State where
  names : String → Option Nat
  data : Nat → Bytes
  mode : Nat → Nat
  fds : Nat → Option FdEnt
  next : Nat

inductive Op where
  /-- `openat(p, flags) = fd`; `creat`/`excl`/`trunc` = O_CREAT / O_EXCL / O_TRUNC present -/
  | openF (p : String) (fd : Nat) (creat excl trunc : Bool)
  /-- `write(fd, b) = |b|` at the descriptor's offset -/
  | write (fd : Nat) (b : Bytes)
  /-- `pwrite64(fd, b, off) = |b|` -/
  | pwrite (fd off : Nat) (b : Bytes)
  /-- `copy_file_range(in, NULL, out, NULL, _) = n` / `sendfile(out, in, NULL, _) = n` -/
  | copy (fdIn fdOut n : Nat)
  | ftruncate (fd n : Nat)
  | fchmod (fd m : Nat)
  /-- `read(fd, _) = n` (only the offset matters) -/
  | read (fd n : Nat)
  /-- `lseek(fd, _, _) = res` -/
  | lseek (fd res : Nat)
  | close (fd : Nat)
  | unlink (p : String)
  | rename (a b : String)
  deriving Repr, DecidableEq

def upd {α β} [DecidableEq α] (f : α → β) (a : α) (b : β) : α → β :=
  fun x => if x = a then b else f x

@[simp] theorem upd_same {α β} [DecidableEq α] (f : α → β) (a : α) (b : β) : upd f a b a = b := by
  simp [upd]

theorem upd_other {α β} [DecidableEq α] (f : α → β) (a x : α) (b : β) (h : x ≠ a) : upd f a b x = f x := by
  simp [upd, h]

/-- bytes `n` bytes long starting at `off` (short at EOF) -/
def readAt (c : Bytes) (off n : Nat) : Bytes := (c.drop off).take n

/-- write `b` into the inode behind `e` at offset `off` -/
def putAt (s : State) (ino off : Nat) (b : Bytes) : State :=
  { s with data := upd s.data ino (Binpatch.writeAt (s.data ino) off b) }

def setOff (s : State) (fd : Nat) (e : FdEnt) (off : Nat) : State :=
  { s with fds := upd s.fds fd (some { e with off := off }) }

def step (s : State) : Op → State
  | .openF p fd creat excl trunc =>
    match s.names p with
    | some i =>
      if creat && excl then s   -- EEXIST
      else
        { s with fds := upd s.fds fd (some ⟨i, 0⟩),
                 data := if trunc then upd s.data i [] else s.data }
    | none =>
      if creat then
        { s with names := upd s.names p (some s.next),
                 data := upd s.data s.next [],
                 mode := upd s.mode s.next 384,
                 fds := upd s.fds fd (some ⟨s.next, 0⟩),
                 next := s.next + 1 }
      else s   -- ENOENT
  | .write fd b =>
    match s.fds fd with
    | some e => setOff (putAt s e.ino e.off b) fd e (e.off + b.length)
    | none => s
  | .pwrite fd off b =>
    match s.fds fd with
    | some e => putAt s e.ino off b
    | none => s
  | .copy fin fout n =>
    match s.fds fin, s.fds fout with
    | some ei, some eo =>
      let b := readAt (s.data ei.ino) ei.off n
      let s1 := setOff (putAt s eo.ino eo.off b) fout eo (eo.off + b.length)
      if fin = fout then s1 else setOff s1 fin ei (ei.off + b.length)
    | _, _ => s
  | .ftruncate fd n =>
    match s.fds fd with
    | some e => { s with data := upd s.data e.ino (Binpatch.truncate (s.data e.ino) n) }
    | none => s
  | .fchmod fd m =>
    match s.fds fd with
    | some e => { s with mode := upd s.mode e.ino m }
    | none => s
  | .read fd n =>
    match s.fds fd with
    | some e => setOff s fd e (e.off + n)
    | none => s
  | .lseek fd res =>
    match s.fds fd with
    | some e => setOff s fd e res
    | none => s
  | .close fd => { s with fds := upd s.fds fd none }
  | .unlink p => { s with names := upd s.names p none }
  | .rename a b =>
    match s.names a with
    | some i => if a = b then s else { s with names := upd (upd s.names b (some i)) a none }
    | none => s

def run : List Op → State → State
  | [], s => s
  | op :: rest, s => run rest (step s op)

theorem run_append (xs ys : List Op) (s : State) : run (xs ++ ys) s = run ys (run xs s) := by
  induction xs generalizing s with
  | nil => rfl
  | cons x xs ih => simp [run, ih]

/-- content found at a path (`none` = no such file) -/
def lookup (s : State) (p : String) : Option Bytes := (s.names p).map s.data

/-- initial states: nothing open, every named inode allocated -/
structure Init (s : State) : Prop where
  nofd : ∀ fd, s.fds fd = none
  wf : ∀ p i, s.names p = some i → i < s.next

/-- initial state from a listing: the i-th listed path is inode i -/
def mkState (init : List (String × Bytes)) : State :=
  { names := fun p => init.findIdx? (fun e => e.1 = p),
    data := fun i => match init[i]? with | some e => e.2 | none => [],
    mode := fun _ => 420,
    fds := fun _ => none,
    next := init.length }

/-! ### The property, as a decidable predicate on (initial, current, final) states -/

/-- the crash-state invariant of C13: `dest` holds its complete previous or its complete new content,
    it has not disappeared if it existed, and `input` is untouched -/
def Inv (dest input : String) (s0 s sfin : State) : Prop :=
  (lookup s dest = lookup s0 dest ∨ lookup s dest = lookup sfin dest) ∧
  (lookup s0 dest ≠ none → lookup s dest ≠ none) ∧
  lookup s input = lookup s0 input

instance (dest input : String) (s0 s sfin : State) : Decidable (Inv dest input s0 s sfin) := by
  unfold Inv; exact inferInstance

/-- first prefix length at which the invariant fails, scanning every prefix of `tr` (executable) -/
def firstBad (dest input : String) (s0 sfin : State) : List Op → State → Nat → Option Nat
  | [], s, k => if Inv dest input s0 s sfin then none else some k
  | op :: rest, s, k =>
    if Inv dest input s0 s sfin then firstBad dest input s0 sfin rest (step s op) (k + 1) else some k

/-! ### The shape of an atomic output trace

  Phase A (before the commit): the trace may create files with `O_CREAT|O_EXCL` at paths other than
  `dest`/`input` and write only through descriptors it obtained that way; it may open existing
  files without `O_CREAT`/`O_TRUNC`; it may unlink/rename paths other than `dest`/`input`.
  The commit is one `rename a dest`.  Phase B (after it): no call that changes file content or the
  names `dest`/`input`.  A trace without a commit (an aborted output) is fine too. -/

structure Sh where
  opened : List Nat   -- descriptors currently open (as far as the trace tells)
  owned : List Nat    -- those returned by an O_CREAT|O_EXCL open of this trace
  deriving Repr

def quiet (dest input : String) : Op → Bool
  | .openF _ _ creat _ trunc => !creat && !trunc
  | .read _ _ => true
  | .lseek _ _ => true
  | .close _ => true
  | .unlink p => p ≠ dest && p ≠ input
  | .rename a b => a ≠ dest && a ≠ input && b ≠ dest && b ≠ input
  | _ => false

def isCommit (dest input : String) : Op → Bool
  | .rename a b => b = dest && a ≠ dest && a ≠ input
  | _ => false

def stepA (dest input : String) (sh : Sh) : Op → Option Sh
  | .openF p fd creat excl trunc =>
    if sh.opened.contains fd then none
    else if creat && excl then
      if p ≠ dest && p ≠ input then some ⟨fd :: sh.opened, fd :: sh.owned⟩ else none
    else if !creat && !trunc then some ⟨fd :: sh.opened, sh.owned.filter (· ≠ fd)⟩
    else none
  | .write fd _ => if sh.owned.contains fd then some sh else none
  | .pwrite fd _ _ => if sh.owned.contains fd then some sh else none
  | .copy _ fout _ => if sh.owned.contains fout then some sh else none
  | .ftruncate fd _ => if sh.owned.contains fd then some sh else none
  | .fchmod fd _ => if sh.owned.contains fd then some sh else none
  | .read _ _ => some sh
  | .lseek _ _ => some sh
  | .close fd => some ⟨sh.opened.filter (· ≠ fd), sh.owned.filter (· ≠ fd)⟩
  | .unlink p => if p ≠ dest && p ≠ input then some sh else none
  | .rename a b => if a ≠ dest && a ≠ input && b ≠ dest && b ≠ input then some sh else none

def shapeFrom (dest input : String) : Sh → List Op → Bool
  | _, [] => true
  | sh, op :: rest =>
    if isCommit dest input op then rest.all (quiet dest input)
    else match stepA dest input sh op with
      | none => false
      | some sh' => shapeFrom dest input sh' rest

/-- the decidable trace predicate evaluated on every recorded real trace -/
def atomicShape (dest input : String) (tr : List Op) : Bool :=
  dest ≠ input && shapeFrom dest input ⟨[], []⟩ tr

/-! ### Programs derived from the code -/

/-- `atomicfile.New` … `Write`* … `Commit` as it should be (and is after the F3 fix):
    `openat(tmp, O_RDWR|O_CREAT|O_EXCL) ; write* ; fchmod 0644 ; close ; rename tmp dest` -/
def commitProg (tmp dest : String) (fd : Nat) (chunks : List Bytes) : List Op :=
  .openF tmp fd true true false :: (chunks.map (.write fd) ++ [.fchmod fd 420, .close fd, .rename tmp dest])

/-- what `atomicfile.Commit` runs on the unchanged tree: `os.Remove(dest)` before `os.Rename` -/
def commitProgUnlinkFirst (tmp dest : String) (fd : Nat) (chunks : List Bytes) : List Op :=
  .openF tmp fd true true false :: (chunks.map (.write fd) ++ [.fchmod fd 420, .close fd, .unlink dest, .rename tmp dest])

/-- a handled error after some writes: the deferred `atomicFile.Close` = `close ; unlink tmp` -/
def abortProg (tmp : String) (fd : Nat) (chunks : List Bytes) : List Op :=
  .openF tmp fd true true false :: (chunks.map (.write fd) ++ [.close fd, .unlink tmp])

/-- an error return that skips `Close` (signers.fileProducer.Apply when `io.Copy` fails; WriteInPlace
    when its copy fails): nothing after the writes -/
def leakProg (tmp : String) (fd : Nat) (chunks : List Bytes) : List Op :=
  .openF tmp fd true true false :: chunks.map (.write fd)

end Relic.FS

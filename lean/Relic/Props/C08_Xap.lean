/-
  C08 — Re-signing replaces the signature; digests ignore existing signatures.   XAP part, over `Relic.Model.Xap`, at the
  level of lib/signxap's own functions (DigestXapTar, removeSignature, XapDigest.Sign) on the two-member framing
  `ZipToTar` would deliver for `(file, directory offset)`.

  Finding F10 concerned the step *before* these functions: `signers/zipbased.Transform` runs `zipslicer.FindDirectory`,
  which looks at the last 22 bytes of the file only; on relic's own output those are the last 12 bytes of the PKCS#7 blob
  and the 10-byte trailer, so that transform – not `DigestXapTar` – refused (`xap_f10_transform_refuses`, a statement about
  `transformOrig`).  Repaired: signers/xap now has its own transform, which locates the directory in the part of the file
  in front of a trailing signature frame (`transform`); `xap_resign_module` / `xap_history_module` are the same theorems
  with the transform included.
-/
import Relic.Proofs.XapSign
namespace Relic.Props.C08
open Relic Relic.Xap

/-- **xap_digest_ignores_signature.** Digesting relic's own output (same directory offset) succeeds and feeds the hash
    exactly the stream that was hashed for the input: the frame added by `Sign` is invisible to `DigestXapTar`. -/
theorem xap_digest_ignores_signature (z : Bytes) (loc : Nat) (s : Bytes) (hloc : loc ≤ z.length)
    (hs : s.length + 8 < 4294967296) :
    ∃ d d', digestTar (zipToTar z loc) true = .ok d ∧
      digestTar (zipToTar (base z loc ++ sigBlock s) loc) true = .ok d' ∧ d'.hashed = d.hashed := by
  have hl : loc ≤ (base z loc ++ sigBlock s).length := by
    have := base_length z loc hloc
    simp only [List.length_append]; omega
  refine ⟨_, _, digestTar_zipToTar z loc hloc, digestTar_zipToTar _ loc hl, ?_⟩
  exact base_signed z loc s hloc hs

/-- **xap_resign_replaces.** Signing relic's own output again yields exactly what signing the original with the new blob
    yields: the earlier header, blob and trailer are gone, nothing else moved. -/
theorem xap_resign_replaces (z : Bytes) (loc : Nat) (s1 s2 : Bytes) (hloc : loc ≤ z.length)
    (h1 : s1.length + 8 < 4294967296) :
    signRound (base z loc ++ sigBlock s1) loc s2 = .ok (base z loc ++ sigBlock s2) ∧
    signRound z loc s2 = .ok (base z loc ++ sigBlock s2) := by
  have hl : loc ≤ (base z loc ++ sigBlock s1).length := by
    have := base_length z loc hloc
    simp only [List.length_append]; omega
  refine ⟨?_, signRound_eq z loc s2 hloc⟩
  rw [signRound_eq _ loc s2 hl, base_signed z loc s1 hloc h1]

/-- **xap_history.** Every history of signing rounds `s₁ … sₙ` applied to relic's own output succeeds, and the file after
    the last round is the original signed once with the last blob. -/
theorem xap_history (z : Bytes) (loc : Nat) (hloc : loc ≤ z.length) :
    ∀ (sigs : List Bytes) (last : Bytes), last.length + 8 < 4294967296 →
      (∀ s ∈ sigs, s.length + 8 < 4294967296) →
      sigs.foldlM (fun g s => signRound g loc s) (base z loc ++ sigBlock last) =
        .ok (base z loc ++ sigBlock ((last :: sigs).getLast (by simp))) := by
  intro sigs
  induction sigs with
  | nil => intro last _ _; rfl
  | cons s rest ih =>
    intro last hl hs
    rw [List.foldlM_cons, (xap_resign_replaces z loc last s hloc hl).1]
    have := ih s (hs s (by simp)) (fun x hx => hs x (by simp [hx]))
    rw [List.getLast_cons (by simp)]
    exact this

/-- **xap_f10_transform_refuses** (finding F10, stated exactly, about the code before its repair). `FindDirectory` reads the 42 bytes before the end of the
    file and tests the four bytes at `size − 22` against "PK\x05\x06"; nothing else is searched.  Any file of at least
    42 bytes whose bytes `[size−22, size−18)` differ from that signature is refused by the transform with
    "zip central directory not found" – before `DigestXapTar` or `removeSignature` see a byte. -/
theorem xap_f10_transform_refuses (g : Bytes) (h42 : 42 ≤ g.length) (hl : g.length < 9223372036854775808)
    (hsig : leVal ((g.drop (g.length - 22)).take 4) ≠ Zip.sigEnd) :
    transformOrig g = .err "notfound" ∧ ∀ s, signFileOrig g s = .err "notfound" := by
  have hfd : Zip.findDirectory ⟨g, false, 0⟩ = .err "notfound" := by
    unfold Zip.findDirectory
    simp only []
    rw [if_neg (by omega)]
    have hr : Zip.Rd.readAt ⟨g, false, 0⟩ (g.length - 42) 42 = .ok ((g.drop (g.length - 42)).take 42, ⟨g, false, 0⟩) := by
      unfold Zip.Rd.readAt
      have p63 : (2 : Nat) ^ 63 = 9223372036854775808 := by decide
      rw [p63, if_neg (by omega)]
      simp only [Bool.false_eq_true, if_false]
      rw [if_neg (by omega), if_pos (by omega)]
    rw [hr]
    simp only []
    have he : (Zip.parseEnd (((g.drop (g.length - 42)).take 42).drop 20)).sig = leVal ((g.drop (g.length - 22)).take 4) := by
      unfold Zip.parseEnd Zip.fld
      simp only [List.drop_zero]
      rw [sub_take_drop _ 20 4 42 (by omega), List.drop_drop]
      congr 3; omega
    rw [if_pos (by rw [he]; exact hsig)]
  have ht : transformOrig g = .err "notfound" := by
    unfold transformOrig; rw [hfd]; rfl
  refine ⟨ht, fun s => ?_⟩
  unfold signFileOrig; rw [ht]; rfl

/-- on relic's own output the four bytes `FindDirectory` tests are the four bytes twelve before the end of the PKCS#7
    blob: the transform refuses it unless the blob happens to carry "PK\x05\x06" there -/
theorem xap_f10_on_signed (b s : Bytes) (h12 : 12 ≤ s.length) :
    ((b ++ sigBlock s).drop ((b ++ sigBlock s).length - 22)).take 4 = (s.drop (s.length - 12)).take 4 := by
  have e : b ++ sigBlock s = (b ++ (header 1 1 s.length ++ s.take (s.length - 12))) ++ (s.drop (s.length - 12) ++ trailer 1 (s.length + 8)) := by
    simp only [sigBlock, List.append_assoc, List.append_cancel_left_eq]
    rw [← List.append_assoc (s.take _), List.take_append_drop]
  have hl : (b ++ sigBlock s).length - 22 = (b ++ (header 1 1 s.length ++ s.take (s.length - 12))).length := by
    simp only [List.length_append, sigBlock_length, header_length, List.length_take]; omega
  rw [hl]
  conv => lhs; rw [e]
  rw [drop_append_len _ _ _ rfl, take_append_len' ]
where
  take_append_len' : ((s.drop (s.length - 12) ++ trailer 1 (s.length + 8)).take 4) = (s.drop (s.length - 12)).take 4 := by
    rw [List.take_append_of_le_length (by simp only [List.length_drop]; omega)]

/-- **xap_resign_module** (F10 repaired). Through the signer module, transform included: a file `b` whose directory
    `FindDirectory` locates inside it, signed (`b ++ frame s₁`), is accepted again, and signing it with `s₂` yields exactly
    what signing `b` with `s₂` yields. -/
theorem xap_resign_module (b s₁ s₂ : Bytes) (loc : Nat) (hfd : Zip.findDirectory ⟨b, false, 0⟩ = .ok loc)
    (hloc : loc ≤ b.length) (h1 : s₁.length + 8 < 4294967296) :
    signFile (b ++ sigBlock s₁) s₂ = .ok (b ++ sigBlock s₂) := signFile_signed b s₁ s₂ loc hfd hloc h1

/-- **xap_history_module.** Every history of signing rounds through the signer module succeeds: starting from an unsigned
    archive `z` (no frame at its end, directory found inside it), the file after rounds `s₀, s₁ … sₙ` is `z` followed by the
    frame of the last blob – the original signed once with the last signature. -/
theorem xap_history_module (z : Bytes) (loc : Nat) (hu : frameSize z = 0) (hfd : Zip.findDirectory ⟨z, false, 0⟩ = .ok loc)
    (hloc : loc ≤ z.length) :
    ∀ (sigs : List Bytes) (first : Bytes), first.length + 8 < 4294967296 →
      (∀ s ∈ sigs, s.length + 8 < 4294967296) →
      (first :: sigs).foldlM signFile z = .ok (z ++ sigBlock ((first :: sigs).getLast (by simp))) := by
  have hfirst : ∀ s, signFile z s = .ok (z ++ sigBlock s) := fun s => by
    rw [signFile_eq z s loc (by rw [hu, Nat.sub_zero, List.take_length]; exact hfd) hloc, base_of_unsigned z loc hu]
  have hrest : ∀ (sigs : List Bytes) (last : Bytes), last.length + 8 < 4294967296 →
      (∀ s ∈ sigs, s.length + 8 < 4294967296) →
      sigs.foldlM signFile (z ++ sigBlock last) = .ok (z ++ sigBlock ((last :: sigs).getLast (by simp))) := by
    intro sigs
    induction sigs with
    | nil => intro last _ _; rfl
    | cons s rest ih =>
      intro last hl hs
      rw [List.foldlM_cons, xap_resign_module z last s loc hfd hloc hl]
      have := ih s (hs s (by simp)) (fun x hx => hs x (by simp [hx]))
      rw [List.getLast_cons (by simp)]
      exact this
  intro sigs first hf hs
  rw [List.foldlM_cons, hfirst first]
  exact hrest sigs first hf hs

/-! ### non-vacuity -/

/-- one stored member "a" holding "hi", directory at offset 33 (same archive as in C01_Xap) -/
def oneMemberZip : Bytes :=
  [0x50, 0x4b, 3, 4, 20, 0, 0, 0, 0, 0, 0, 0, 0, 0, 0xd8, 0x2c, 0x75, 0xac, 2, 0, 0, 0, 2, 0, 0, 0, 1, 0, 0, 0, 0x61, 0x68, 0x69] ++
  [0x50, 0x4b, 1, 2, 20, 0, 20, 0, 0, 0, 0, 0, 0, 0, 0, 0, 0xd8, 0x2c, 0x75, 0xac, 2, 0, 0, 0, 2, 0, 0, 0, 1, 0, 0, 0, 0, 0, 0, 0, 0, 0,
   0, 0, 0, 0, 0, 0, 0, 0, 0x61] ++
  [0x50, 0x4b, 5, 6, 0, 0, 0, 0, 1, 0, 1, 0, 47, 0, 0, 0, 33, 0, 0, 0, 0, 0]

def blobA : Bytes := List.replicate 20 7
def blobB : Bytes := [1, 2, 3]

set_option maxRecDepth 100000 in
example : (33 : Nat) ≤ oneMemberZip.length ∧ blobA.length + 8 < 4294967296 ∧ base oneMemberZip 33 = oneMemberZip ∧
    Zip.findDirectory ⟨oneMemberZip, false, 0⟩ = .ok 33 ∧
    -- the transform accepts the original and refuses the signed file
    42 ≤ (oneMemberZip ++ sigBlock blobA).length ∧
    leVal (((oneMemberZip ++ sigBlock blobA).drop ((oneMemberZip ++ sigBlock blobA).length - 22)).take 4) ≠ Zip.sigEnd := by decide

set_option maxRecDepth 100000 in
example : [blobA, blobB, blobA].foldlM signFile oneMemberZip = .ok (oneMemberZip ++ sigBlock blobA) ∧
    -- before the repair of F10 the second round was refused
    signFileOrig (oneMemberZip ++ sigBlock blobA) blobB = .err "notfound" :=
  ⟨xap_history_module oneMemberZip 33 (by decide) (by decide) (by decide) [blobB, blobA] blobA (by decide) (by decide),
   (xap_f10_transform_refuses _ (by decide) (by decide) (by decide)).2 blobB⟩

set_option maxRecDepth 100000 in
example : [blobB, blobA].foldlM (fun g s => signRound g 33 s) (base oneMemberZip 33 ++ sigBlock blobA) =
    .ok (base oneMemberZip 33 ++ sigBlock blobA) :=
  xap_history oneMemberZip 33 (by decide) [blobB, blobA] blobA (by decide) (by decide)

end Relic.Props.C08

package magic

// Generator: fixtures, files built by the other format packages' builders, near-misses of every pattern of the
// decision list, overlaps (two patterns in one file), the MZ probe around every boundary, ZIP member lists, compressed
// wrappers, the look-up functions, random prefixes.

import (
	"archive/zip"
	"bufio"
	"bytes"
	"compress/gzip"
	"encoding/binary"
	"encoding/hex"
	"fmt"
	"os"
	"path/filepath"
	"sort"
	"strings"

	"verifharness/apkb"
	"verifharness/cab"
	"verifharness/deb"
	"verifharness/hx"
	"verifharness/macho"
	"verifharness/pe"
	"verifharness/ps"
)

type pat struct {
	name string
	b    []byte
	pos  int // -1: contains within 256
}

var pats = []pat{
	{"rpm", []byte{0xed, 0xab, 0xee, 0xdb}, 0},
	{"deb", []byte("!<arch>\ndebian"), 0},
	{"armor", []byte("-----BEGIN PGP"), 0},
	{"oidctl", []byte{0x06, 0x09, 0x2B, 0x06, 0x01, 0x04, 0x01, 0x82, 0x37, 0x0A, 0x01}, -1},
	{"oidsigned", []byte{0x06, 0x09, 0x2A, 0x86, 0x48, 0x86, 0xF7, 0x0D, 0x01, 0x07, 0x02}, -1},
	{"ustar", []byte("ustar"), 257},
	{"mz", []byte("MZ"), 0},
	{"cfb", []byte{0xd0, 0xcf}, 0},
	{"mscf", []byte("MSCF"), 0},
	{"asm1", []byte("<assembly"), -1},
	{"asm2", []byte(":assembly"), -1},
	{"macho64", []byte{0xcf, 0xfa, 0xed, 0xfe}, 0},
	{"macho32", []byte{0xce, 0xfa, 0xed, 0xfe}, 0},
	{"fat", []byte{0xca, 0xfe, 0xba, 0xbe}, 0},
	{"xar", []byte("xar!"), 0},
	{"pgp89", []byte{0x89}, 0},
	{"pgpc2", []byte{0xc2}, 0},
	{"pgpc4", []byte{0xc4}, 0},
	{"gzip", []byte{0x1f, 0x8b}, 0},
	{"xz", []byte("\xfd7zXZ\x00"), 0},
	{"zip", []byte("PK\x03\x04"), 0},
}

// a minimal xz stream holding "hello\n" and one holding 300 bytes with "ustar" at offset 257 (made with python's lzma)
var xzHello, _ = hex.DecodeString("fd377a585a0000016922de360200210116000000742fe5a301000568656c6c6f0a00000020303a3600011a06c5eac8799042990d010000000001595a")
var xzTar, _ = hex.DecodeString("fd377a585a0000016922de360200210116000000742fe5a3e0012b000f5d00006fdab5c7c8d5ba27838e475c0000000042718122000127ac020000004f5b22c63e300d8b020000000001595a")

type emitter struct {
	w    *bufio.Writer
	r    *hx.Rng
	seen map[string]bool
	c11  bool
}

func (e *emitter) line(s string) {
	if e.seen[s] {
		return
	}
	e.seen[s] = true
	fmt.Fprintln(e.w, s)
}

func contentOf(data []byte, withZip bool) string {
	zn := "-"
	if withZip {
		zn = ZipNames(data)
	}
	hl := HeadLen(data)
	if len(data) <= hl {
		return fmt.Sprintf("= %s %d %s", hx.Hex(data), len(data), zn)
	}
	tail := data[hl:]
	constant := true
	for _, b := range tail {
		if b != tail[0] {
			constant = false
			break
		}
	}
	if constant {
		return fmt.Sprintf("pad:%d:%02x %s %d %s", len(tail), tail[0], hx.Hex(data[:hl]), len(data), zn)
	}
	return fmt.Sprintf("tail:%s %s %d %s", hex.EncodeToString(tail), hx.Hex(data[:hl]), len(data), zn)
}

func srcContent(src string, data []byte) string {
	n := HeadLen(data)
	return fmt.Sprintf("%s %s %d %s", src, hx.Hex(data[:n]), len(data), ZipNames(data))
}

func hs(s string) string {
	if s == "" {
		return "-"
	}
	return hex.EncodeToString([]byte(s))
}

func expTag(exp string) string {
	if exp == "" {
		return ""
	}
	return " exp=" + exp
}

// detect + dc on raw bytes
func (e *emitter) raw(data []byte) {
	e.line("MAGIC detect " + contentOf(data, false))
	e.line("MAGIC dc " + contentOf(data, true))
}

// every front end on a named file
func (e *emitter) file(name, content, exp string) {
	if e.c11 {
		e.line("MAGIC detect " + content)
		e.line("MAGIC dc " + content)
		return
	}
	e.line("MAGIC byfile " + hs(name) + " - " + content + expTag(exp))
	e.line("MAGIC remote " + hs(name) + " - " + content + expTag(exp))
	e.line("MAGIC verify " + hs(name) + " " + content + expTag(exp))
	e.line("MAGIC dc " + content)
	e.line("MAGIC detect " + content)
}

var fixtureType = map[string]string{
	"App1_1.0.3.0_x64.appx": "appx", "ClassLibrary1.dll": "pe-coff", "InRelease": "pgp", "Release.gpg": "pgp",
	"VSIXProject1.vsix": "vsix", "WindowsFormsApplication1.exe": "pe-coff", "WindowsFormsApplication1.exe.manifest": "appmanifest",
	"dummy.apk": "apk", "dummy.cab": "cab", "dummy.dmg": "dmg", "dummy.msi": "msi", "dummy.pkg": "xar", "dummy.xap": "xap",
	"hello.jar": "jar", "hello.mof": "ps", "hello.ps1": "ps", "hello.ps1xml": "ps", "hyperv.cat": "cat",
	"rocky-basesystem-11-13.el9.noarch.rpm": "rpm", "zlib1g_1.2.8.dfsg-5_i386.deb": "deb",
	"slimfile.app/dummyapp": "mach-o", "fatfile.app/Contents/MacOS/dummy": "mach-o-fat",
}

var corpusType = map[string]string{
	"signed-pe-ph.dll": "pe-coff", "signed-pe.exe": "pe-coff", "signed.apk": "apk", "signed.appx": "appx", "signed.cab": "cab",
	"signed.cat": "cat", "signed.deb": "deb", "signed.dmg": "dmg", "signed.jar": "jar", "signed.macho": "mach-o",
	"signed.manifest": "appmanifest", "signed.msi": "msi", "signed.pgp": "pgp", "signed.pkg": "xar", "signed.ps1": "ps",
	"signed.rpm": "rpm", "signed.vsix": "vsix", "signed.xap": "xap",
}

func (e *emitter) fixtures() {
	root := filepath.Join(repoDir(), "functest", "packages")
	var rels []string
	filepath.Walk(root, func(p string, info os.FileInfo, err error) error {
		if err == nil && info.Mode().IsRegular() {
			rel, _ := filepath.Rel(root, p)
			rels = append(rels, filepath.ToSlash(rel))
		}
		return nil
	})
	sort.Strings(rels)
	for _, rel := range rels {
		data, err := os.ReadFile(filepath.Join(root, filepath.FromSlash(rel)))
		if err != nil || filepath.Base(rel) == ".gitignore" {
			continue
		}
		c := srcContent("fx:"+rel, data)
		exp := fixtureType[rel]
		e.file(filepath.Base(rel), c, exp)
		if !e.c11 {
			// the same bytes under a name that says nothing, and under a PowerShell / dmg name
			e.line("MAGIC byfile " + hs("blob") + " - " + c)
			e.line("MAGIC byfile " + hs("blob.ps1") + " - " + c)
			e.line("MAGIC byfile " + hs("blob.dmg") + " - " + c)
			if exp != "" {
				e.line("MAGIC byfile " + hs(filepath.Base(rel)) + " " + hs(exp) + " " + c + expTag(exp))
				e.line("MAGIC remote " + hs("blob") + " " + hs(exp) + " " + c + expTag(exp))
			}
		}
	}
	dir := filepath.Join(verifDir(), "corpus", "C11", "bases")
	ents, _ := os.ReadDir(dir)
	for _, en := range ents {
		data, err := os.ReadFile(filepath.Join(dir, en.Name()))
		if err != nil {
			continue
		}
		name := en.Name()
		if name == "signed.macho" {
			name = "signed"
		}
		e.file(name, srcContent("cx:"+en.Name(), data), corpusType[en.Name()])
	}
}

func mkZip(names []string) []byte {
	var buf bytes.Buffer
	zw := zip.NewWriter(&buf)
	for i, n := range names {
		w, err := zw.CreateHeader(&zip.FileHeader{Name: n, Method: zip.Store})
		if err != nil {
			continue
		}
		if !strings.HasSuffix(n, "/") {
			w.Write([]byte{byte('a' + i%26)})
		}
	}
	zw.Close()
	return buf.Bytes()
}

var zipMarkers = []struct{ name, typ string }{
	{"AndroidManifest.xml", "apk"}, {"AppManifest.xaml", "xap"}, {"AppxManifest.xml", "appx"},
	{"AppxMetadata/AppxBundleManifest.xml", "appx"}, {"extension.vsixmanifest", "vsix"}, {"META-INF/MANIFEST.MF", "jar"},
	{"Payload/X.app/Info.plist", "ipa"}, {"X.app/Contents/Info.plist", "ipa"},
}

func (e *emitter) zips() {
	r := e.r
	filler := []string{"a.txt", "lib/x.so", "META-INF/", "res/", "classes.dex", "[Content_Types].xml", "x.app/Info.plist.bak", "Info.plist"}
	for _, m := range zipMarkers {
		e.file("z.zip", contentOf(mkZip([]string{m.name}), true), m.typ)
		e.file("z.zip", contentOf(mkZip([]string{"a.txt", m.name, "b.txt"}), true), m.typ)
		// the forms path.Clean folds into the marker, and the ones it does not
		for _, v := range []string{"./" + m.name, "/" + m.name, "x/../" + m.name, m.name + "/", "//" + m.name, m.name + "/.", "./x/.././" + m.name,
			"../" + m.name, "x/" + m.name, strings.ToLower(m.name), strings.ToUpper(m.name), m.name + " ", " " + m.name, m.name + "\x00",
			strings.ReplaceAll(m.name, "/", "\\"), m.name[:len(m.name)-1], m.name + "x"} {
			e.file("z.zip", contentOf(mkZip([]string{"a.txt", v}), true), "")
		}
		// pairs: which of two markers wins (directory order)
		for _, m2 := range zipMarkers {
			if m2.name != m.name {
				e.file("z.zip", contentOf(mkZip([]string{m.name, m2.name}), true), "")
			}
		}
	}
	for _, v := range []string{".app/Info.plist", "a.app/Info.plist", "a/b.app/Contents/Info.plist", "a.app/Info.plist/", "a.app/./Info.plist",
		"a.app//Info.plist", "a.APP/Info.plist", "a.app/info.plist", "xapp/Info.plist", "a.app/x/../Info.plist", "a.app/Contents/Resources/Info.plist"} {
		e.file("z.zip", contentOf(mkZip([]string{"a.txt", v}), true), "")
	}
	n := 60
	if hx.Tier() == "thorough" {
		n = 600
	}
	for i := 0; i < n; i++ {
		var names []string
		k := 1 + r.Intn(6)
		for j := 0; j < k; j++ {
			if r.Intn(3) == 0 {
				m := zipMarkers[r.Intn(len(zipMarkers))].name
				switch r.Intn(6) {
				case 0:
					m = "./" + m
				case 1:
					m = "/" + m
				case 2:
					m = "d/" + m
				}
				names = append(names, m)
			} else {
				names = append(names, filler[r.Intn(len(filler))])
			}
		}
		e.file("z.zip", contentOf(mkZip(names), true), "")
	}
	// not (quite) archives
	z := mkZip([]string{"META-INF/MANIFEST.MF", "a.class"})
	e.file("z.jar", contentOf(mkZip(nil), true), "")                                   // no members: starts with the end record
	e.file("z.jar", contentOf(append([]byte("#!/bin/sh\nexec java -jar $0\n"), z...), true), "") // launcher script in front
	e.file("z.jar", contentOf(z[:len(z)-1], true), "")
	e.file("z.jar", contentOf(z[:4], true), "")
	e.file("z.jar", contentOf(z[:30], true), "")
	e.file("z.jar", contentOf(append(append([]byte{}, z...), 0), true), "")
	bad := append([]byte{}, z...)
	bad[len(bad)-22] ^= 0xff
	e.file("z.jar", contentOf(bad, true), "")
	big := mkZip([]string{"META-INF/MANIFEST.MF", strings.Repeat("d/", 40) + "f"})
	e.file("z.jar", contentOf(append(big, bytes.Repeat([]byte{0}, 0)...), true), "jar")
	var many []string
	for i := 0; i < 120; i++ {
		many = append(many, fmt.Sprintf("com/example/C%03d.class", i))
	}
	many = append(many, "AndroidManifest.xml")
	e.file("big.apk", contentOf(mkZip(many), true), "apk") // larger than the buffer: marker is the last member
	for i := 0; i < 4; i++ {
		e.file("g.apk", contentOf(apkb.GenApk(r, r.Bool()), true), "apk")
	}
}

func (e *emitter) builders() {
	r := e.r
	n := 6
	if hx.Tier() == "thorough" {
		n = 60
	}
	for i := 0; i < n; i++ {
		e.file("g.exe", contentOf(pe.Build(r, pe.RandParams(r)), true), "pe-coff")
		e.file("g.cab", contentOf(cab.Build(r, cab.RandParams(r)), true), "cab")
		e.file("g.deb", contentOf(deb.Build("!<arch>\n", deb.RandMembers(r)), true), "deb")
		mp := macho.RandParams(r)
		mp.BE = false
		e.file("g", contentOf(macho.Build(r, mp, nil), true), "mach-o")
		pp := ps.RandParams(r)
		ext := map[int]string{1: ".ps1", 2: ".ps1xml", 3: ".mof"}[pp.Style]
		if pp.Style == 1 && r.Bool() {
			ext = []string{".psd1", ".psm1"}[r.Intn(2)]
		} else if pp.Style == 2 && r.Bool() {
			ext = []string{".psc1", ".cdxml"}[r.Intn(2)]
		}
		e.file("g"+ext, contentOf(ps.Build(r, pp), true), "ps")
	}
	// a big-endian image (machos.scanFile and debug/macho read both byte orders)
	mp := macho.RandParams(r)
	mp.BE = true
	e.file("g", contentOf(macho.Build(r, mp, nil), true), "mach-o")
	mp.Is64 = !mp.Is64
	e.file("g", contentOf(macho.Build(r, mp, nil), true), "mach-o")
	// PE images whose header lies deep in the file (large DOS stub) and further MZ-probe boundaries
	for _, lf := range []int{64, 128, 256, 264, 4080, 4088, 4096, 4104, 8192, 32768, 65520, 65528, 65536, 65536 + 128} {
		p := pe.Params{Machine: 0x14c, StubLen: lf - 64, NumDirs: 16, FileAlign: 512, Sections: []int{512}}
		if lf > 4000 {
			p.HdrSlack = (lf + 1024) / 512
		}
		img := pe.Build(r, p)
		for i := 64; i < lf && i < len(img); i++ { // a quiet stub: nothing that another pattern could see
			img[i] = 0
		}
		e.file("deep.exe", contentOf(img, true), "pe-coff")
	}
	// PowerShell text that says ":assembly" / "<assembly" early, late, in another case
	for _, txt := range []string{"param($x)\n$script:assemblyName = 'x'\n", "$env:assemblyPath\n", "# <assembly>\nWrite-Host 1\n",
		strings.Repeat("# pad pad pad pad\n", 15) + "$script:assemblyName = 1\n", "$script:AssemblyName = 1\n", "[Reflection.Assembly]::Load('x')\n",
		"<!-- <assemblyIdentity/> -->\n<Types/>\n"} {
		e.file("t.ps1", contentOf([]byte(txt), true), "ps")
	}
	e.file("t.ps1xml", contentOf([]byte("<Configuration xmlns:x=\"u\"><x:assemblyRef/></Configuration>\n"), true), "ps")
	for _, nm := range []string{"T.PS1", "t.Ps1", "t.ps1.txt", "t.ps2", "ps1", ".ps1", "t.ps1 ", "t..ps1", "t.mof", "t.MOF", "a.dmg", "a.DMG", "a.dmg.bak", ".dmg"} {
		exp := ""
		switch strings.ToLower(filepath.Ext(nm)) { // Windows and macOS compare file names without regard to case
		case ".ps1", ".mof":
			exp = "ps"
		case ".dmg":
			exp = "dmg"
		}
		e.file(nm, contentOf([]byte("Write-Host 1\n"), true), exp)
	}
	// application manifests: the root element within / beyond the 256-byte window
	for _, lead := range []int{0, 100, 200, 208, 209, 210, 240, 256, 300, 5000} {
		head := "<?xml version=\"1.0\" encoding=\"utf-8\"?>\n"
		cm := ""
		if lead > 0 {
			cm = "<!--" + strings.Repeat("x", lead) + "-->\n"
		}
		for _, root := range []string{"<asmv1:assembly xmlns:asmv1=\"urn:schemas-microsoft-com:asm.v1\" manifestVersion=\"1.0\"></asmv1:assembly>",
			"<assembly xmlns=\"urn:schemas-microsoft-com:asm.v1\" manifestVersion=\"1.0\"></assembly>"} {
			e.file("app.manifest", contentOf([]byte(head+cm+root+"\n"), true), "appmanifest")
		}
	}
	e.file("app.manifest", contentOf([]byte("\xef\xbb\xbf<?xml version=\"1.0\"?><assembly/>"), true), "appmanifest")
	e.file("app.manifest", contentOf([]byte("\xff\xfe<\x00a\x00s\x00s\x00e\x00m\x00b\x00l\x00y\x00/\x00>\x00"), true), "")
	// PGP: armour, binary packets by first byte
	for _, s := range []string{"-----BEGIN PGP SIGNATURE-----\n", "-----BEGIN PGP SIGNED MESSAGE-----\n", "-----BEGIN PGP MESSAGE-----\n", "-----BEGIN PGP", "-----BEGIN PG",
		"\n-----BEGIN PGP SIGNATURE-----\n", " -----BEGIN PGP SIGNATURE-----", "-----BEGIN CERTIFICATE-----\n"} {
		e.file("s.asc", contentOf([]byte(s), true), "")
	}
	for _, b := range []byte{0x88, 0x89, 0x8a, 0x8b, 0x90, 0x99, 0xc2, 0xc4, 0xc6, 0xcb, 0xa3, 0x85} {
		e.file("s.sig", contentOf(append([]byte{b, 0x01, 0x0d, 0x04, 0x00, 0x01, 0x08}, e.r.Bytes(20)...), true), "")
	}
	// DER: SignedData with / without the CTL content type, OIDs near the window's end
	ctl := pats[3].b
	sd := pats[4].b
	der := func(prefixLen int, inner []byte) []byte {
		b := []byte{0x30, 0x82, 0x10, 0x00}
		b = append(b, sd...)
		b = append(b, 0xa0, 0x82, 0x0f, 0xf0, 0x30, 0x82, 0x0f, 0xe0, 0x02, 0x01, 0x01, 0x31)
		b = append(b, byte(prefixLen))
		b = append(b, bytes.Repeat([]byte{0x05}, prefixLen)...)
		b = append(b, 0x30, 0x20)
		b = append(b, inner...)
		return append(b, bytes.Repeat([]byte{0}, 64)...)
	}
	for _, pl := range []int{0, 15, 100, 200, 214, 215, 216, 217, 218, 230} {
		e.file("c.p7b", contentOf(der(pl, ctl), true), "")
		e.file("c.p7b", contentOf(der(pl, []byte{0x06, 0x09, 0x2A, 0x86, 0x48, 0x86, 0xF7, 0x0D, 0x01, 0x07, 0x01}), true), "")
	}
	e.file("c.pem", contentOf([]byte("-----BEGIN PKCS7-----\nMIIB\n-----END PKCS7-----\n"), true), "")
	// other container magics
	e.file("x.msi", contentOf(append([]byte{0xd0, 0xcf, 0x11, 0xe0, 0xa1, 0xb1, 0x1a, 0xe1}, make([]byte, 504)...), true), "msi")
	e.file("x.doc", contentOf([]byte{0xd0, 0xcf}, true), "")
	e.file("x.rpm", contentOf(append([]byte{0xed, 0xab, 0xee, 0xdb, 3, 0, 0, 0}, make([]byte, 88)...), true), "rpm")
	e.file("x.pkg", contentOf(append([]byte("xar!\x00\x1c\x00\x01"), make([]byte, 20)...), true), "xar")
	e.file("x.class", contentOf(append([]byte{0xca, 0xfe, 0xba, 0xbe, 0, 0, 0, 0x34}, make([]byte, 20)...), true), "")
	e.file("x.png", contentOf([]byte("\x89PNG\r\n\x1a\n\x00\x00\x00\rIHDR"), true), "")
	e.file("x.tar", contentOf(tarLike(nil), true), "")
	e.file("x.tar", contentOf(tarLike([]byte("MZ")), true), "")
}

// 512 bytes with "ustar" at 257, starting with `start`
func tarLike(start []byte) []byte {
	b := make([]byte, 512)
	copy(b, "name")
	copy(b, start)
	copy(b[257:], "ustar\x0000")
	return b
}

func gz(data []byte, name string) []byte {
	var z bytes.Buffer
	zw := gzip.NewWriter(&z)
	zw.Name = name
	zw.Write(data)
	zw.Close()
	return z.Bytes()
}

func (e *emitter) compressed() {
	r := e.r
	peImg := pe.Build(r, pe.Params{Machine: 0x14c, NumDirs: 16, FileAlign: 512, Sections: []int{512}})
	for _, d := range [][]byte{tarLike(nil), peImg, nil, []byte("x"), bytes.Repeat([]byte{0}, 100000)} {
		z := gz(d, "")
		e.file("c.tar.gz", contentOf(z, true), "")
		e.file("c.ps1", contentOf(z, true), "")
		e.file("c.dmg", contentOf(gz(d, strings.Repeat("n", 600)), true), "") // name field longer than gzip's 512-byte limit
		if len(z) > 12 {
			e.file("c.gz", contentOf(z[:10], true), "")
			e.file("c.gz", contentOf(z[:len(z)-9], true), "")
			y := append([]byte{}, z...)
			y[2] = 7 // unknown method
			e.file("c.gz", contentOf(y, true), "")
			y = append([]byte{}, z...)
			y[3] = 0xff // every optional header field claimed
			e.file("c.gz", contentOf(y, true), "")
		}
	}
	e.file("c.gz", contentOf([]byte{0x1f, 0x8b}, true), "")
	e.file("c.gz", contentOf([]byte{0x1f}, true), "")
	e.file("c.gz", contentOf([]byte{0x1f, 0x8c, 8, 0}, true), "")
	e.file("c.xz", contentOf(xzHello, true), "")
	e.file("c.tar.xz", contentOf(xzTar, true), "")
	e.file("c.ps1", contentOf(xzHello, true), "")
	e.file("c.xz", contentOf(xzHello[:6], true), "")
	e.file("c.xz", contentOf(xzHello[:5], true), "")
	e.file("c.xz", contentOf(xzHello[:12], true), "")
	e.file("c.xz", contentOf(append(append([]byte{}, xzHello[:6]...), r.Bytes(40)...), true), "")
	y := append([]byte{}, xzHello...)
	y[7] = 0x0f // unsupported check type
	e.file("c.xz", contentOf(y, true), "")
	y = append([]byte{}, xzHello...)
	y[5] = 1
	e.file("c.xz", contentOf(y, true), "")
	// the LZMA2 dictionary size named in the block header: 64 MiB (the decoder's default limit), 96 MiB, 1 GiB
	for _, h := range []string{"fd377a585a0000016922de36020021011c00000010cf58cc01000568656c6c6f0a00000020303a3600011a06c5eac8799042990d010000000001595a",
		"fd377a585a0000016922de36020021011d00000075a8e47401000568656c6c6f0a00000020303a3600011a06c5eac8799042990d010000000001595a",
		"fd377a585a0000016922de3602002101240000005e1fc7f901000568656c6c6f0a00000020303a3600011a06c5eac8799042990d010000000001595a"} {
		b, _ := hex.DecodeString(h)
		e.file("d.xz", contentOf(b, true), "")
		e.line(fmt.Sprintf("MAGIC decomp 2 %s", h))
	}
	e.file("c.bz2", contentOf([]byte("BZh91AY&SY\x00\x00\x00\x00"), true), "")
	e.file("c.zst", contentOf([]byte{0x28, 0xb5, 0x2f, 0xfd, 0, 0, 0}, true), "")
	// Decompress itself
	for _, d := range [][]byte{nil, []byte("hello"), tarLike(nil)[:100]} {
		z := gz(d, "")
		for ct := -1; ct <= 4; ct++ {
			e.line(fmt.Sprintf("MAGIC decomp %d %s", ct, hx.Hex(z)))
			e.line(fmt.Sprintf("MAGIC decomp %d %s", ct, hx.Hex(d)))
		}
		e.line(fmt.Sprintf("MAGIC decomp 1 %s", hx.Hex(z[:len(z)/2])))
		y := append([]byte{}, z...)
		y[len(y)-5] ^= 1 // CRC
		e.line(fmt.Sprintf("MAGIC decomp 1 %s", hx.Hex(y)))
	}
	e.line(fmt.Sprintf("MAGIC decomp 2 %s", hx.Hex(xzHello)))
	e.line(fmt.Sprintf("MAGIC decomp 2 %s", hx.Hex(xzHello[:20])))
	e.line(fmt.Sprintf("MAGIC decomp 1 %s", hx.Hex(xzHello)))
	e.line(fmt.Sprintf("MAGIC decomp 2 %s", hx.Hex(gz([]byte("x"), ""))))
}

// near-misses of every pattern; pairs of patterns; the 256-byte window; the tar position; the MZ probe
func (e *emitter) patterns() {
	r := e.r
	place := func(buf []byte, p pat, at int) []byte {
		need := at + len(p.b)
		for len(buf) < need {
			buf = append(buf, 0)
		}
		copy(buf[at:], p.b)
		return buf
	}
	home := func(p pat) int {
		if p.pos >= 0 {
			return p.pos
		}
		return 20
	}
	for _, p := range pats {
		at := home(p)
		full := place(nil, p, at)
		e.raw(full)
		e.raw(append(append([]byte{}, full...), r.Bytes(40)...))
		for cut := 1; cut <= len(p.b); cut++ {
			e.raw(full[:len(full)-cut])
		}
		for i := range p.b { // every byte of the pattern changed
			y := append(append([]byte{}, full...), 0, 0, 0)
			y[at+i] ^= byte(1 << uint(r.Intn(8)))
			e.raw(y)
		}
		if at > 0 {
			e.raw(place(nil, p, at-1))
		}
		e.raw(place(nil, p, at+1))
		if p.pos < 0 { // the window: the pattern has to end within the first 256 bytes
			for _, end := range []int{len(p.b), 255, 256, 257, 258, 300} {
				y := place(make([]byte, 0), p, end-len(p.b))
				e.raw(y)
				e.raw(append(y, 0, 0, 0, 0))
				e.raw(append(bytes.Repeat([]byte{' '}, 3), y...))
			}
		}
	}
	// pairs: both patterns present; the earlier rule has to win
	for i, p := range pats {
		for j, q := range pats {
			if i == j {
				continue
			}
			buf := place(make([]byte, 300), q, home(q))
			if q.pos < 0 {
				buf = place(make([]byte, 300), q, 60)
			}
			buf = place(buf, p, home(p))
			e.raw(buf)
		}
	}
	// tar position and file length
	for _, n := range []int{256, 257, 258, 261, 262, 263, 512} {
		b := make([]byte, n)
		if n > 257 {
			copy(b[257:], "ustar")
		}
		e.raw(b)
		if n > 2 {
			b2 := append([]byte{}, b...)
			copy(b2, "MZ")
			e.raw(b2)
		}
	}
	// the MZ probe: header length, e_lfanew values, file length around e_lfanew+4, the buffer boundary
	mz := func(n int, lfanew uint32, sigAt int, sig string) []byte {
		b := make([]byte, n)
		copy(b, "MZ")
		if n >= 0x40 {
			binary.LittleEndian.PutUint32(b[0x3c:], lfanew)
		} else if n >= 0x3e {
			binary.LittleEndian.PutUint16(b[0x3c:], uint16(lfanew))
		}
		if sigAt >= 0 && sigAt+len(sig) <= n {
			copy(b[sigAt:], sig)
		}
		return b
	}
	for _, n := range []int{2, 3, 0x3c, 0x3d, 0x3e, 0x3f, 0x40, 0x44} {
		e.raw(mz(n, 0, -1, ""))
		e.raw(mz(n, 0x3a, -1, ""))
	}
	for _, lf := range []int{0, 1, 2, 4, 0x38, 0x3a, 0x3c, 0x3e, 0x40, 0x80, 0xf8, 0xfc, 0x100, 0x105, 4000, 4088, 4091, 4092, 4093, 4094, 4096, 4100, 8192, 0xfffb, 0xfffc, 0xffff} {
		for _, extra := range []int{3, 4, 5, 100} {
			n := lf + extra
			if n < 0x40 {
				n = 0x40
			}
			e.raw(mz(n, uint32(lf), lf, "PE\x00\x00"))
			e.raw(mz(n, uint32(lf), lf, "PE\x00\x01"))
			e.raw(mz(n, uint32(lf), lf, "pE\x00\x00"))
			e.raw(mz(n, uint32(lf), lf+1, "PE\x00\x00"))
		}
		// e_lfanew is a 32-bit field: the upper half is not looked at
		e.raw(mz(lf+0x200, uint32(lf)|0x10000, lf, "PE\x00\x00"))
		e.raw(mz(0x10000+lf+8, uint32(lf)|0x10000, 0x10000+lf, "PE\x00\x00"))
	}
	// MZ that also is something else further down the list
	for _, q := range []pat{pats[9], pats[10], pats[3], pats[4], pats[5]} {
		b := mz(0x200, 0x100, 0x100, "PE\x00\x00")
		at := 0x50
		if q.pos > 0 {
			at = q.pos
		}
		copy(b[at:], q.b)
		e.raw(b)
	}
}

func (e *emitter) random() {
	r := e.r
	n := 150
	if hx.Tier() == "thorough" {
		n = 3000
	}
	lens := []int{0, 1, 2, 3, 4, 5, 8, 13, 14, 15, 61, 62, 63, 64, 255, 256, 257, 261, 262, 263, 300, 4095, 4096, 4097, 5000, 5000, 5000, 65539, 65541}
	for i := 0; i < n; i++ {
		b := r.Bytes(lens[r.Intn(len(lens))])
		if r.Intn(3) > 0 && len(b) > 0 {
			p := pats[r.Intn(len(pats))]
			at := p.pos
			if at < 0 {
				at = r.Intn(260)
			}
			if r.Intn(4) == 0 {
				at += r.Pick(-1, 1)
			}
			if at >= 0 && at+len(p.b) <= len(b) {
				copy(b[at:], p.b)
				if r.Intn(5) == 0 {
					b[at+r.Intn(len(p.b))] ^= 0x20
				}
			} else if at >= 0 && at < len(b) {
				copy(b[at:], p.b) // truncated pattern
			}
		}
		if len(b) >= 0x40 && b[0] == 'M' && b[1] == 'Z' && r.Bool() {
			lf := r.Pick(0x40, 0x80, 4092, 4093, 65535, len(b)-4, len(b)-3)
			if lf >= 0 && lf+4 <= len(b) {
				binary.LittleEndian.PutUint32(b[0x3c:], uint32(lf))
				copy(b[lf:], "PE\x00\x00")
			}
		}
		e.raw(b)
	}
}

var modNames = []string{"appmanifest", "cosign", "deb", "dmg", "mach-o-fat", "ipa", "mach-o", "pe-coff", "cab", "msi", "msi-tar", "pgp", "pkcs7", "cat",
	"ps", "rpm", "xar", "apk", "appx", "jar", "vsix", "xap"}

func (e *emitter) lookups() {
	e.line("MAGIC table")
	var names []string
	for _, n := range modNames {
		names = append(names, n, strings.ToUpper(n), n+" ", " "+n, n[:len(n)-1], n+"x", n+"\x00", strings.ReplaceAll(n, "-", "_"))
	}
	names = append(names, "", "-", "pe", "pecoff", "pe-coff,msi", "msi-tar-", "tar", "macho", "mach-o-", "pkcs", "pkcs7\n", "\xff\xfe", "Ps", "authenticode", "x509", "zip", "unknown")
	for _, n := range names {
		e.line("MAGIC name " + hs(n))
		if n != "-" { // "-" is how the op line spells the empty string
			e.line("MAGIC srv " + hs(n) + " " + hs("a.bin"))
		}
	}
	e.line("MAGIC srv - " + hs("a.bin"))
	e.line("MAGIC srv " + hs("pe-coff") + " -")
	e.line("MAGIC srv " + hs("nosuch") + " -")
	e.line("MAGIC srv - -")
	for _, fn := range []string{"a.ps1", "a.dmg", "a.exe", "a.msi"} { // the server must not fall back to the file name
		e.line("MAGIC srv - " + hs(fn))
		e.line("MAGIC srv " + hs("nosuch") + " " + hs(fn))
	}
	e.line("MAGIC srv " + hs("ps") + " " + hs("a.dmg"))
	e.line("MAGIC srv " + hs("dmg") + " " + hs("a.ps1"))
	for _, n := range []string{"a.dmg", "a.DMG", ".dmg", "dmg", "a.dmg ", "a.dmg/", "a.dmg/b", "d.dmg/b.ps1", "a.dmgx", "a.xdmg", "a..dmg", "a.ps1", "a.PS1", "a.ps1xml",
		"a.psc1", "a.psd1", "a.psm1", "a.cdxml", "a.mof", "a.ps1.bak", "a.ps2", ".ps1", "ps1", "a.ps1/", "d.ps1/x", "d.ps1/x.mof", "a.b.ps1", "a.ps1.mof", "a.mof.dmg",
		"a.dmg.mof", "", ".", "..", "a.", "a", "/", "a/b.c/d", "a.ps1\x00", "\xff.ps1", "a.ps", "a.ps11", "a.p.s1", "C:\\x\\a.ps1", "a.ps1\\b"} {
		e.line("MAGIC fname " + hs(n))
		e.line("MAGIC ext " + hs(n))
	}
	for i := -2; i <= 24; i++ {
		e.line(fmt.Sprintf("MAGIC bymagic %d", i))
	}
	e.line("MAGIC bymagic 1000000")
	for _, n := range []string{"", ".", "/", "//", "a", "a/", "/a", "a/..", "a/../..", "../a", "./a", "a/./b", "a//b", "/../a", "/a/../..", "a/b/../../c", "..", "../..",
		"/.", "/..", "a/../b/../c", ".../a", "a/...", "\x00", "a\\..\\b", "META-INF/../META-INF/MANIFEST.MF", "/AndroidManifest.xml", "//AndroidManifest.xml",
		"./AndroidManifest.xml/", "x/y/../../AndroidManifest.xml", "../AndroidManifest.xml", "/../AndroidManifest.xml"} {
		e.line("MAGIC clean " + hs(n))
	}
	r := e.r
	alpha := []string{"a", "b", ".", "..", "/", "//", "./", "../", "AndroidManifest.xml", "x.app", "Info.plist", ""}
	for i := 0; i < 60; i++ {
		var sb strings.Builder
		k := 1 + r.Intn(6)
		for j := 0; j < k; j++ {
			sb.WriteString(alpha[r.Intn(len(alpha))])
			if r.Bool() {
				sb.WriteString("/")
			}
		}
		e.line("MAGIC clean " + hs(sb.String()))
		e.line("MAGIC ext " + hs(sb.String()))
		e.line("MAGIC fname " + hs(sb.String()))
	}
	// explicit --sig-type on arbitrary content; stdin
	body := contentOf([]byte("just text\n"), true)
	for _, n := range modNames {
		e.line("MAGIC byfile " + hs("f.bin") + " " + hs(n) + " " + body)
		e.line("MAGIC remote " + hs("f.bin") + " " + hs(n) + " " + body)
	}
	e.line("MAGIC byfile " + hs("f.bin") + " " + hs("nosuch") + " " + body)
	e.line("MAGIC remote " + hs("f.bin") + " " + hs("MSI") + " " + body)
}

// Gen writes the ops for property prop.
func Gen(w *bufio.Writer, seed uint64, tier string, prop string) {
	e := &emitter{w: w, r: hx.NewRng(seed ^ 0x6d61676963), seen: map[string]bool{}, c11: prop == "C11"}
	e.fixtures()
	e.builders()
	e.zips()
	e.compressed()
	e.patterns()
	e.random()
	if !e.c11 {
		e.lookups()
	}
}

"""C17 — relic reads and rewrites ZIP structures exactly as standard readers see them (lib/zipslicer)."""
import os, subprocess, sys
from collections import Counter

TIE = "corr:zipslicer"
TIE_THEOREM = ("Relic.Model.Zip vs lib/zipslicer (Read, ReadZipTar+Dump, GetTotalSize, GetLocalHeader, GetDataDescriptor, "
               "WriteDirectory, GetOriginalDirectory, AddFile/NewFile/WriteDirectory rewrite, source directory after Mangle), differential on every run")
RULE = ("archives from a harness-owned raw ZIP writer: fixed corner grid (stored/deflated x empty/1 byte/23 bytes x descriptor "
        "none/16/24 x with/without signature x ZIP64 end records forced or not, alone and followed by a second member) plus seeded random "
        "archives (0-6 members, names 0-13 bytes, sizes 0-300, general-purpose flags 0/2/4/6/8/0x800, extra fields before/after the ZIP64 one, "
        "ZIP64 central extra complete / only-needed / Go-style, ZIP64 local extra, member and archive comments, directory entries, duplicate "
        "names, leading junk, gaps, ZIP64 end records with all or some 32-bit fields at their maximum) and a malformed stream (truncation, "
        "byte corruption in the tail or anywhere, local name mismatch, descriptor flag in one header only). Each archive: relic random access "
        "+ relic single pass (ZipToTar/ReadZipTar) vs Lean model (tie), relic vs archive/zip on archives Spec.Zip calls valid (property), "
        "archive/zip vs Spec.Zip (spec validation), CPython zipfile in the thorough tier. Every second archive is rewritten by relic "
        "(delete mask, new files stored/deflated with/without descriptor, forceZip64), the result is read back (round 2), rewritten again "
        "Mangler-style (second signing) and read back (round 3); the read-back judges name, content, extra field (without ZIP64 records) and "
        "file comment of every kept and added member as archive/zip sees them, also when model and implementation disagree on the rewrite. "
        "Targeted archives: members with extra AND comment / extra only / comment only moved by deleting an earlier member, new members with "
        "extra fields, ZIP64 records in moved entries. srcdir ops: the SOURCE directory is serialised (WriteDirectory, GetOriginalDirectory) "
        "before and after Mangle (delete a non-last member; per-member steps and the real Directory.Mangle + MakePatch) and must not change. "
        "Non-trivial = distinct op on which the model's Read succeeds with >= 1 member "
        "or a rewrite that produced an archive.")
ASSUMPTIONS = ["inflate/deflate and CRC-32 are not modelled: contents and CRCs are compared dynamically between relic, archive/zip (and zipfile)",
               "offsets and sizes below 2^63 (negative int64 never generated); archives a few KiB, so ZIP64 paths are reached by forcing ZIP64 "
               "records/markers on small archives, not by 4 GiB members",
               "single-disk, unencrypted archives, methods 0 and 8",
               "DOS time conversion (time.Time -> mtime/mdate) is an input of the model, not modelled",
               "after the first failing member of a pass the harness stops using that File (zipslicer caches partial state)"]
TRUSTED = ["model Relic.Model.Zip is hand-written; tied to lib/zipslicer by differential execution on every run",
           "Relic.Spec.Zip is hand-written from APPNOTE; validated against Go archive/zip on every run and CPython zipfile in the thorough tier",
           "Go archive/zip, compress/flate, hash/crc32, CPython zipfile as reference readers"]
UNPROVED = ["read_agrees_spec_full (false: negation proved, F7a/F7c/F7d/F7e)",
            "write_read_roundtrip_full (false: not_write_read_roundtrip_full, F7a); under relicReadable it is the theorem "
            "write_read_roundtrip_readable (full strength since fix-F7g 9179c59: rewrite_roundtrip, rewrite_refuses_iff)",
            "reemit_unmodified_full (false for the unrepaired GetOriginalDirectory: not_reemit_unmodified_full; the repaired function: "
            "reemit_original_directory, proved for every relicReadable archive; WriteDirectory: reemit_unmodified_readable, exact class canonEnds)",
            "zip_rewrite_preserves_members_full (C03) is refuted without the fixed-layout ZIP64 clause "
            "(not_zip_rewrite_preserves_members_full, F7e); with it: zip_rewrite_preserves_members_readable",
            "Read after WriteDirectory on the archives relic itself writes: read_write_directory_own_output (proved); WriteDirectory twice: "
            "write_directory_idempotent (proved for the code with fix 7d5f1c2; before it: write_directory_twice_prepends_twice_orig, F-APPX-ZIP64)"]
IMPL_PARALLEL = 16

READ_FLAGS = {"eocd-comment": "F7c", "tiny": "F7c", "desc-nosig": "F7d", "zip64-partial": "F7e"}


def parse_tag(tag):
    t = {"valid": tag.startswith("spec=valid"), "flags": set(), "st": None, "orig": None}
    if not t["valid"]:
        if " godfix=" in tag:
            t["godfix"] = tag.split(" godfix=")[1].split(" ")[0]
        return t
    for part in tag.split(" "):
        if part.startswith("flags="):
            t["flags"] = set(x for x in part[6:].split(",") if x)
        elif part.startswith("orig="):
            t["orig"] = part[5:]
        elif part.startswith("godfix="):
            t["godfix"] = part[7:]
        elif part.split("=")[0] in ("fwd", "fwds", "canon", "room", "rt", "rdbl"):
            t[part.split("=")[0]] = part.split("=", 1)[1]
    i, j = tag.find("st=[ "), tag.find(" ] orig=")
    if i >= 0 and j >= 0:
        body = tag[i + 5:j].strip()
        t["st"] = [r.strip() for r in body.split(" ; ")] if body else []
    elif "st=[  ]" in tag:
        t["st"] = []
    return t


def rows_of(s):
    """'... [ a ; b ] ...' -> ['a', 'b']"""
    i, j = s.find("[ "), s.rfind(" ]")
    if i < 0 or j < 0 or j < i:
        return []
    body = s[i + 2:j].strip()
    return [r.strip() for r in body.split(" ; ")] if body else []


def split_impl(il):
    parts = il.split(" @@ ")
    core = parts[0]
    ex = {}
    for p in parts[1:]:
        ex[p[:1]] = p[2:]
    return core, ex


def _sha(x):
    """content outcome: a digest, or 'error' (corrupt data is refused by every reader, each with its own error)"""
    return x if len(x) == 16 and ":" not in x else ("skip" if x == "skip" else "error")


def _noz64(h):
    """an extra field (hex, '-' = empty) without its ZIP64 extended-information records (tag 0x0001), which a writer may add or drop"""
    b = b"" if h in ("-", "") else bytes.fromhex(h)
    out, i = b"", 0
    while i + 4 <= len(b):
        n = b[i + 2] | b[i + 3] << 8
        if i + 4 + n > len(b):
            break
        if b[i:i + 2] != b"\x01\x00":
            out += b[i:i + 4 + n]
        i += 4 + n
    return (out + b[i:]).hex() or "-"


def _exp_entry(e):
    """'name:sha[:extra:comment]' written by the harness from an independent reader's view of the input"""
    p = e.split(":")
    if len(p) >= 4:
        return "%s:%s:%s:%s" % (p[0], _sha(":".join(p[1:-2])), _noz64(p[-2]), p[-1])
    return e


def _got_entry(r):
    f = r.split(" ")
    if len(f) >= 11:
        return "%s:%s:%s:%s" % (f[0], _sha(f[8]), _noz64(f[9]), f[10])
    return "%s:%s" % (f[0], f[8])


def nontrivial(op, mres, tag):
    if op.split(" ")[1] in ("wd", "wdx"):
        return True
    if op.split(" ")[1] == "srcdir":
        return mres.startswith("ok")
    if op.split(" ")[1] == "read":
        return mres.startswith("R ok") and " n=0 " not in mres
    return mres.startswith("ok")


def branch(op, mres, tag):
    kind = op.split(" ")[1]
    f = mres.split(" ")
    t = parse_tag(tag)
    sv = "valid" if t["valid"] else "invalid"
    if kind == "wd":
        return "wd:" + ("zip64" if "504b0606" in mres else "plain")
    if kind == "wdx":
        return "wdx:" + ("refused" if mres.startswith("err") else "emitted")
    if kind == "srcdir":
        return "srcdir:%s:%s" % (f[0] if f[0] == "ok" else " ".join(f[:2]), sv)
    if kind == "many":
        return "many:" + ("zip64" if int(op.split(" ")[2]) + int(op.split(" ")[3]) >= 65535 else "plain")
    if kind == "read":
        return "read:%s:%s:%s" % (" ".join(f[1:3]) if f[1] != "ok" else "ok", sv, ",".join(sorted(t["flags"] - {"contig"})))
    return "rewrite:%s:%s" % (f[0] if f[0] == "ok" else " ".join(f[:2]), sv)


def evaluate(op, il, mres, tag, origin, pyline=None):
    """the property on what the implementation did: list of (theorem, cause, expected, note)"""
    core, ex = split_impl(il)
    t = parse_tag(tag)
    kind = op.split(" ")[1]
    out = []
    if kind == "wd":
        # write_directory_idempotent: a second WriteDirectory on the same directory writes a central directory of the same
        # length (F-APPX-ZIP64, fixed 7d5f1c2: before it every ZIP64 entry grew by 28 bytes per call)
        g = core.split(" ")
        if g[0] == "ok" and len(g) >= 6 and g[5] != g[1]:
            out.append(("Relic.Props.C17.write_directory_idempotent", "second-directory-longer-by-28-bytes-per-entry", g[1],
                        "second WriteDirectory on the same directory wrote %s bytes of central directory, the first %s" % (g[5], g[1])))
        return out
    if kind == "wdx":
        # whatever GetDirectoryHeader emits must be as long as its own length fields say (else no reader finds the next
        # record); F7g (fixed 9179c59): it refuses when the ZIP64 field does not fit (Props/C17_Write dirHeader_refuses_iff,
        # extraRoom_necessary_orig for the code before the fix)
        n, cs, us, off = [int(x) for x in op.split(" ")[2:6]]
        g = core.split(" ")
        big = cs >= 0xffffffff or us >= 0xffffffff or off >= 0xffffffff
        if g[0] == "ok" and len(g) >= 5:
            head = bytes.fromhex(g[4])
            le16 = lambda b: b[0] | b[1] << 8
            if 46 + le16(head[28:]) + le16(head[30:]) + le16(head[32:]) != int(g[1]):
                out.append(("Relic.Props.C17.dirHeader_refuses_iff", "wdx-record-length-differs",
                            "ExtraLen = %d" % (int(g[1]) - 46 - le16(head[28:]) - le16(head[32:])),
                            "GetDirectoryHeader: the central record says ExtraLen=%d but carries %d extra bytes (extra field of %d bytes, "
                            "ZIP64 field prepended)" % (le16(head[30:]), int(g[1]) - 46 - le16(head[28:]) - le16(head[32:]), n)))
        elif not (big and n + 28 >= 65536):
            out.append(("Relic.Props.C17.dirHeader_refuses_iff", "wdx-refused:" + core[:60], "ok <record>",
                        "GetDirectoryHeader refuses an entry whose extra block has room for the ZIP64 field (or needs none)"))
        return out
    if kind == "many":
        kv = dict(x.split("=", 1) for x in core.split(" ")[1:] if "=" in x)
        if not core.startswith("ok ") or kv.get("go") != "ok":
            out.append(("Relic.Props.C17.write_read_roundtrip_partial", "many-output-invalid:" + core[:60], "go=ok",
                        "an archive relic wrote (%s members + %s added) is not read back by archive/zip" % tuple(op.split(" ")[2:4])))
        elif kv.get("relic") != "ok":
            out.append(("Relic.Props.C17.write_read_roundtrip_partial", "many-relic-rereads:" + kv.get("relic", "?")[:60], "relic=ok",
                        "relic cannot read back an archive it wrote itself (%s members + %s added)" % tuple(op.split(" ")[2:4])))
        return out
    if kind == "srcdir":
        # re-serialising the SOURCE directory after Mangle ran over it (an unmodified directory: the caller never touched it)
        if core.startswith("ok before ") and " after " in core:
            before, after = core[len("ok before "):].split(" after ", 1)
            if before != after:
                out.append(("Relic.Props.C17.reemit_unmodified", "srcdir-changed-by-mangle", before[:400],
                            "WriteDirectory / GetOriginalDirectory of the source directory give other bytes after Mangle than before: "
                            "the entries of the unmodified directory were written through"))
        return out
    if kind == "rewrite":
        # (a refusal by the guard of fix-F7g is by design: Props/C17_Write rewrite_refuses_iff)
        if t["valid"] and "contig" in t["flags"] and not core.startswith("ok ") and "wd-extratoolong" not in core:
            out.append(("Relic.Props.C17.write_read_roundtrip_partial", "rewrite-refused:" + core.replace("err ", ""),
                        "ok <archive>", "relic refuses to rewrite a valid, contiguous archive"))
        # rewrite_roundtrip_small evaluated by the specification on the model's output (= the implementation's, by the tie)
        if (t["valid"] and "contig" in t["flags"] and t.get("rdbl") == "1" and t.get("room") == "1"
                and t.get("rt") == "bad"):
            out.append(("Relic.Props.C17.rewrite_roundtrip_small", "rewrite-view-differs", "kept ++ added views",
                        "Spec.Zip reads something else than the kept and the requested members in the archive relic wrote"))
        return out
    # read
    G = ex.get("G", "")
    if origin is not None and origin["claim"]:
        # an archive relic wrote from a valid contiguous archive: must be valid and hold the expected members
        if not t["valid"] or not G.startswith("ok"):
            out.append(("Relic.Props.C17.write_read_roundtrip_partial", "rewrite-output-invalid", "a valid archive",
                        "archive written by relic is not a valid ZIP (spec=%s, archive/zip=%s)" % (t["valid"], G[:3])))
            return out
        if origin["exp"] != ["unknown"]:
            got = [_got_entry(r) for r in rows_of(G)]
            want = [_exp_entry(e) for e in origin["exp"]]
            if got != want:
                out.append(("Relic.Props.C17.write_read_roundtrip_partial", "rewrite-output-content", ",".join(want),
                            "archive written by relic does not hold the kept and added members (name, content, extra field without "
                            "ZIP64 records, file comment, as a standard reader sees them): " + ",".join(got)))
    # rewrite_roundtrip: what relic wrote from a readable contiguous input is again relicReadable, unless an added member is
    # empty with a descriptor (F7a) or the output is the 22-byte empty archive (F7c-tiny)
    if (origin is not None and origin["claim"] and origin.get("readable_in") and origin.get("newsok")
            and len(op.split(" ")[2]) >= 84 and t["valid"] and t.get("rdbl") != "1"):
        out.append(("Relic.Props.C17.rewrite_roundtrip", "rewrite-output-unreadable", "rdbl=1",
                    "archive written by relic from a readable input is outside the class relicReadable"))
    if not t["valid"]:
        return out
    thm = "Relic.Props.C17.read_agrees_spec_partial"
    grow = rows_of(G)
    # the specification is what the standard reader sees
    if not G.startswith("ok") or [" ".join(r.split(" ")[:8]) for r in grow] != t["st"]:
        out.append(("Relic.SpecZip.parse (specification validation)", "spec-vs-archive/zip", " ; ".join(t["st"] or []),
                    "Spec.Zip and Go archive/zip disagree on an archive the spec calls valid: " + G[:300]))
        return out
    # validity of the compressed data (inflates to usize bytes with the right CRC) is outside Spec.Zip:
    # it is judged by the reference reader; contents are compared only when every member is readable by it
    content_valid = all(_sha(g.split(" ")[8]) != "error" for g in grow)
    if pyline is not None:
        prow = rows_of(pyline)
        want = [" ".join(r.split(" ")[:7] + ([_sha(r.split(" ")[8])] if content_valid else [])) for r in grow]
        prow = [" ".join(r.split(" ")[:7] + ([_sha(r.split(" ")[7])] if content_valid else [])) for r in prow]
        if not pyline.startswith("ok") or prow != want:
            out.append(("Relic.SpecZip.parse (specification validation)", "spec-vs-zipfile", " ; ".join(want),
                        "CPython zipfile and Go archive/zip disagree on an archive the spec calls valid: " + pyline[:300]))
    rpart, _, spart = core.partition(" | S ")
    rpart = rpart[2:]
    if not rpart.startswith("ok"):
        out.append((thm, "read-refused:" + rpart.replace("err ", "").replace("panic ", "panic-"), "ok", "relic refuses a valid archive (random access)"))
    else:
        rrow = rows_of(rpart.split(" wd=")[0])
        for i, (r, g) in enumerate(zip(rrow, grow)):
            rf, gf = r.split(" "), g.split(" ")
            if rf[:7] != gf[:7]:
                out.append((thm, "table-differs", " ".join(gf[:7]), "member %d: relic's directory fields differ from archive/zip: %s" % (i, " ".join(rf[:7]))))
                continue
            tt = rf[7]
            if tt.startswith("terr:"):
                out.append((thm, "member-refused:" + tt[5:], "data offset " + gf[7], "member %d: relic cannot locate the member" % i))
                continue
            tf = tt.split(":")
            if tf[1] != gf[7]:
                out.append((thm, "dataoffset-differs", gf[7], "member %d: data offset %s" % (i, tf[1])))
            if tf[5] != gf[3]:
                out.append((thm, "crc-differs", gf[3], "member %d: CRC after descriptor %s" % (i, tf[5])))
        if len(rrow) != len(grow):
            out.append((thm, "count-differs", str(len(grow)), "relic sees %d members" % len(rrow)))
        gsha = [g.split(" ")[8] for g in grow]
        rs = [x for x in ex.get("X", "").split(" ")[0][3:].split(",") if x]
        if len(rs) == len(gsha) and content_valid:
            for i, (a, b) in enumerate(zip(rs, gsha)):
                if _sha(a) != _sha(b) and a != "skip":
                    out.append((thm, "content-differs", b, "member %d: decompressed content (random access) %s" % (i, a)))
        # re-serialising an unmodified directory reproduces the original bytes
        god = rpart.split(" god=")[1] if " god=" in rpart else ""
        if god != "ok:" + t["orig"]:
            out.append(("Relic.Props.C17.reemit_unmodified", "god:" + god[:40], "ok:" + t["orig"][:200],
                        "GetOriginalDirectory(false) does not return the original directory bytes"))
        wd = rpart.split(" wd=")[1].split(" ")[0]
        if wd.split(":")[0] != t["orig"].split(":")[0]:
            out.append(("Relic.Props.C17.reemit_unmodified", "wd-entries-differ", t["orig"].split(":")[0][:200],
                        "WriteDirectory of an unmodified directory does not re-emit the original central entries"))
        # reemit_unmodified_readable: the end records are reproduced exactly on canonEnds
        if t.get("rdbl") == "1" and t.get("canon") in ("0", "1"):
            same = wd.split(":")[1] == t["orig"].split(":")[1]
            if same != (t["canon"] == "1"):
                out.append(("Relic.Props.C17.reemit_unmodified_readable", "wd-ends-" + ("differ" if not same else "equal-outside-canon"),
                            "end records reproduced iff canonEnds", "canon=%s but WriteDirectory %s the original end records"
                            % (t["canon"], "reproduces" if same else "does not reproduce")))
    # stream_forward_readable: forward order follows from validity on the readable class
    if t.get("rdbl") == "1" and t.get("fwds") == "0":
        out.append(("Relic.Props.C17.stream_forward_readable", "not-forward", "fwds=1",
                    "a valid relicReadable archive whose members do not lie forward of one another (true descriptor widths)"))
    # stream_equals_random_access: forward order in relic's measure => the single pass reports what random access reports
    if rpart.startswith("ok") and spart.startswith("ok") and t.get("fwd") == "1":
        rr = rows_of(rpart.split(" wd=")[0])
        sr = rows_of(spart)
        tots = [r.split(" ")[7].split(":")[2] if r.split(" ")[7].startswith("t:") else None for r in rr]
        if None not in tots:
            got = [x.split(":")[1] if x.startswith("d:") else x for x in sr]
            if got != tots:
                out.append(("Relic.Props.C17.stream_equals_random_access", "stream-size-differs", ",".join(tots),
                            "forward-ordered archive: the single pass reports " + ",".join(got)))
    # single pass
    if not spart.startswith("ok"):
        out.append((thm, "stream-refused:" + spart.replace("err ", "").replace("panic ", "panic-"), "ok", "relic refuses a valid archive (streaming)"))
    else:
        srow = rows_of(spart)
        bad = [s for s in srow if not s.startswith("d:")]
        if bad:
            out.append((thm, "stream-member-refused:" + bad[0][5:], "every member dumped", "streaming pass stops at a member"))
        elif len(srow) != len(grow):
            out.append((thm, "stream-count-differs", str(len(grow)), "streaming pass sees %d members" % len(srow)))
        ss = [x for x in (ex.get("X", "").split(" ss=")[1] if " ss=" in ex.get("X", "") else "").split(",") if x]
        gsha = [g.split(" ")[8] for g in grow]
        for i, a in enumerate(ss if content_valid else []):
            if i < len(gsha) and _sha(a) != _sha(gsha[i]):
                # a failure already reported as member-refused in the random-access pass is the same event
                out.append((thm, "stream-content-differs:" + (a if ":" in a else "sha"), gsha[i], "member %d: decompressed content (streaming) %s" % (i, a)))
                break
    return out


def _report_op(op, origin, cause):
    """a defect of an archive relic wrote is reported with the rewrite op that produced it: replaying that op reads the output back"""
    if origin and cause.startswith("rewrite-output") and origin.get("from_op"):
        return origin["from_op"]
    return op


def known_match(k, cause, flags, origin_flags):
    """ONLY the exact triggers: the identity names the model tag that must be present and the observation it explains."""
    ident = k.get("identity", {})
    trig = ident.get("trigger")
    where = origin_flags if ident.get("on") == "rewrite-input" else flags
    if trig != "*" and trig not in where:
        return False
    return any(cause == c or (c.endswith("*") and cause.startswith(c[:-1])) for c in ident.get("observed", []))


def matches_known(k, op, il, mres, tag):   # interface of the default driver (unused: run() below does the matching per cause)
    return False


def predicate(op, il, mres, tag):
    ev = evaluate(op, il, mres, tag, None)
    return (ev[0][0], ev[0][2], ev[0][3]) if ev else None


def run(ctx):
    import runner as R
    env = dict(R.GOENV, VERIF_SEED=str(ctx["seed"]), VERIF_TIER=ctx["tier"])
    known = [k for k in R.load_known() if k.get("property") == "C17" and k.get("status") == "known"]
    findings, known_hits = [], []
    tags, kinds = Counter(), Counter()
    seen, nontriv, total = set(), 0, 0
    samples = []
    thorough = ctx["tier"] == "thorough"
    pyscript = os.path.join(os.path.dirname(os.path.abspath(__file__)), "c17_pyzip.py")

    def do_round(ops, origins, rnd):
        nonlocal nontriv, total
        impl = R.run_lines([R.VH, "C17", "impl"], ops, env=env, parallel=IMPL_PARALLEL)
        model = R.run_lines([R.DRIVER], ops, parallel=R.NCPU)
        py = {}
        if thorough:
            rd = [o for o in ops if o.split(" ")[1] == "read"]
            pl = R.run_lines([sys.executable, pyscript], [o.split(" ")[2] for o in rd], parallel=R.NCPU)
            py = dict(zip(rd, pl))
        nxt = []
        for op, il, ml in zip(ops, impl, model):
            mres, tag = R.split_tag(ml)
            core, ex = split_impl(il)
            total += 1
            kinds["r%d %s" % (rnd, op.split(" ")[1])] += 1
            tags[branch(op, mres, tag)] += 1
            if op not in seen:
                seen.add(op)
                if nontrivial(op, mres, tag):
                    nontriv += 1
            t = parse_tag(tag)
            origin = origins.get(op)
            # F7b has a proposed repair (fix-F7b.patch): the model of the repaired function is
            # Model.Zip.originalDirectorySpec; an implementation that behaves like it is tied to that variant
            if core != mres and t.get("godfix") and " god=" in core and " god=" in mres:
                ig = core.split(" god=")[1].split(" ")[0]
                mg = mres.split(" god=")[1].split(" ")[0]
                if ig == t["godfix"] and mg == "panic:nil-writer":
                    mres = mres.replace(" god=" + mg, " god=" + ig)
            if core != mres:
                findings.append(R.Finding("broken-tie", TIE, TIE_THEOREM, op, mres, core,
                                          "model and implementation disagree (round %d)" % rnd))
                # search: the property predicates need only the specification-side tag and the implementation's line
                try:
                    for thm, cause, expected, note in evaluate(op, il, mres, tag, origins.get(op), py.get(op)):
                        if not thm.startswith("Relic.SpecZip") and not any(known_match(k, cause, t["flags"], set()) for k in known):
                            findings.append(R.Finding("counterexample", TIE, thm, _report_op(op, origins.get(op), cause), expected,
                                                      cause + " :: " + core[:2000], note))
                except (IndexError, KeyError, ValueError):
                    pass
                # what the implementation wrote is read back all the same (rounds 2, 3): that is where a wrong archive shows
                if op.split(" ")[1] == "rewrite" and core.startswith("ok ") and len(core.split(" ")[1]) % 2 == 0:
                    exp = ex.get("E", "unknown").split(",") if ex.get("E") else []
                    nxt.append((core.split(" ")[1], {"claim": t["valid"] and "contig" in t["flags"], "flags": t["flags"], "exp": exp,
                                                     "from": op[:80], "from_op": op}))
                continue
            oflags = origin["flags"] if origin else set()
            for thm, cause, expected, note in evaluate(op, il, mres, tag, origin, py.get(op)):
                kn = next((k for k in known if known_match(k, cause, t["flags"], oflags)), None)
                if kn is not None:
                    known_hits.append((kn, op))
                else:
                    kind = "broken-tie" if thm.startswith("Relic.SpecZip") else "counterexample"
                    findings.append(R.Finding(kind, TIE, thm, _report_op(op, origin, cause), expected, cause + " :: " + core[:2000], note))
            if op.split(" ")[1] == "rewrite" and core.startswith("ok "):
                outhex = core.split(" ")[1]
                exp = ex.get("E", "unknown").split(",") if ex.get("E") else []
                f = op.split(" ")
                k = int(f[7]) if len(f) > 7 else 0
                news = [f[8 + 7 * i:15 + 7 * i] for i in range(k)]
                newsok = all(not (n[6] == "1" and n[3] == "0") for n in news if len(n) == 7)
                nxt.append((outhex, {"claim": t["valid"] and "contig" in t["flags"], "flags": t["flags"], "exp": exp, "from": op[:80],
                                     "readable_in": t.get("rdbl") == "1" and t.get("room") == "1", "newsok": newsok}))
                nxt.append((outhex, {"claim": t["valid"] and "contig" in t["flags"], "flags": t["flags"], "exp": exp, "from": op[:80], "from_op": op}))
        return nxt

    if ctx.get("replay_ops") is not None:
        ops = ctx["replay_ops"]
        nxt = do_round(ops, {}, 1)
        if nxt:   # a replayed rewrite op: read back what the implementation wrote, as the rounds of a full run do
            origins = {"C17 read " + outhex: org for outhex, org in nxt}
            do_round(list(origins), origins, 2)
    else:
        g = subprocess.run([R.VH, "C17", "gen"], stdout=subprocess.PIPE, stderr=subprocess.PIPE, text=True, env=env)
        if g.returncode != 0:
            raise R.Broken("vh C17 gen failed", g.stderr[-2000:])
        ops = R.corpus_lines("C17") + [l for l in g.stdout.split("\n") if l]
        samples = [ops[i][:600] for i in sorted({0, len(ops) // 3, (2 * len(ops)) // 3, len(ops) - 1})]
        origins = {}
        for rnd in (1, 2, 3):
            nxt = do_round(ops, origins, rnd)
            if rnd == 3 or not nxt:
                break
            origins, ops, r2in = {}, [], []
            for outhex, org in nxt:
                o = "C17 read " + outhex
                if o not in origins:
                    origins[o] = org
                    ops.append(o)
                    r2in.append("%d %s" % (len(org["exp"]) if org["exp"] != ["unknown"] else 0, outhex))
            if rnd == 1:
                # second signing of what relic wrote (only archives whose member count is known)
                r2 = subprocess.run([R.VH, "C17", "round2"], input="\n".join(l for l in r2in if not l.startswith("0 ")) + "\n",
                                    stdout=subprocess.PIPE, stderr=subprocess.PIPE, text=True, env=env)
                if r2.returncode != 0:
                    raise R.Broken("vh C17 round2 failed", r2.stderr[-2000:])
                ops += [l for l in r2.stdout.split("\n") if l]
    cov = {"evaluations": total, "distinct_nontrivial": nontriv, "rule": RULE, "samples": samples or [o[:600] for o in ops[:2]],
           "op_kinds": dict(kinds), "model_branches": dict(tags.most_common(60)), "traces_validated_against_impl": total,
           "third_reader_cpython": thorough}
    return cov, findings, known_hits

/-
  C05 — relic's encodings are what the specifications prescribe.   OpenPGP part (model `Relic.Model.Pgp` of
  lib/pgptools/inline.go, specification `Relic.Spec.OpenPgp` transcribed from RFC 4880 §4.2, §5.9).
-/
import Relic.Proofs.Pgp
namespace Relic.Props.C05
open Relic Relic.Pgp Relic.Spec.OpenPgp

/-- **pgp_length_roundtrip.** For every length below 2^32 the octets `serializeHeader` writes behind the tag decode
    (RFC 4880 §4.2.2) to exactly that length, consume nothing else, and use the form the RFC's ranges prescribe:
    one octet up to 191, two octets for 192..8383, five octets above (never a partial length). -/
theorem pgp_length_roundtrip (n : Nat) (h : n < 2 ^ 32) (rest : Bytes) :
    decodeLength (serializeLength n ++ rest) = some (prescribedForm n, n, rest) :=
  decodeLength_serialize n h rest

example : serializeLength 191 = [191] ∧ serializeLength 192 = [192, 0] ∧ serializeLength 8383 = [223, 255] ∧
    serializeLength 8384 = [255, 0, 0, 32, 192] ∧ serializeLength 4294967295 = [255, 255, 255, 255, 255] := by decide

/-- **pgp_length_octets.** the number of length octets is 1, 2 or 5 exactly on the RFC's ranges
    (boundaries 191/192 and 8383/8384) -/
theorem pgp_length_octets (n : Nat) :
    (serializeLength n).length = if n ≤ 191 then 1 else if n ≤ 8383 then 2 else 5 := by
  rw [serializeLength_length]
  by_cases h1 : n < 192
  · have : n ≤ 191 := by omega
    simp [h1, this]
  · have h1' : ¬ n ≤ 191 := by omega
    by_cases h2 : n < 8384
    · have : n ≤ 8383 := by omega
      simp [h1, h1', h2, this]
    · have : ¬ n ≤ 8383 := by omega
      simp [h1, h1', h2, this]

example : (serializeLength 8383).length = 2 ∧ (serializeLength 8384).length = 5 := by decide

/-- **pgp_length_wraps_at_2_32.** the bound of `pgp_length_roundtrip` is sharp: at 2^32 the four length octets wrap to 0
    (`serializeLiteral` refuses such sizes: `pgp_literal_too_big_refused`) -/
theorem pgp_length_wraps_at_2_32 : decodeLength (serializeLength (2 ^ 32)) = some (.five, 0, []) := by decide

/-- **pgp_packet_roundtrip.** a packet written as `serializeHeader tag len(body) ‖ body` is read back by the RFC's packet
    reader as that tag and that body, for every body below 4 GiB and whatever follows -/
theorem pgp_packet_roundtrip (tag : Nat) (ht : tag < 64) (body rest : Bytes) (h : body.length < 2 ^ 32) :
    parsePacket (serializeHeader tag body.length ++ body ++ rest) = some (⟨tag, body⟩, rest) :=
  parsePacket_serialize tag ht body rest h

example : parsePacket (serializeHeader 11 3 ++ [1, 2, 3] ++ [9]) = some (⟨11, [1, 2, 3]⟩, [9]) := by decide

/-- **pgp_literal_header_roundtrip.** For every body and file name (total below 4 GiB) `serializeLiteral` succeeds and its
    output is one literal data packet (tag 11) that reads back per RFC 4880 §5.9 as: binary format, the file name cut to its
    first 255 bytes, date 0, and exactly the body. -/
theorem pgp_literal_header_roundtrip (body filename rest : Bytes)
    (h : body.length + (6 + min 255 filename.length) < 2 ^ 32) :
    ∃ out, serializeLiteral body filename = .ok out ∧
      parsePacket (out ++ rest) = some (⟨11, literalMeta filename ++ body⟩, rest) ∧
      parseLiteral (literalMeta filename ++ body) = some ⟨0x62, filename.take 255, 0, body⟩ := by
  have hm := literalMeta_length filename
  have hlen : (literalMeta filename ++ body).length = body.length + (literalMeta filename).length := by
    rw [List.length_append]; omega
  refine ⟨serializeHeader 11 (body.length + (literalMeta filename).length) ++ literalMeta filename ++ body, ?_, ?_,
    parseLiteral_meta filename body⟩
  · unfold serializeLiteral
    have : ¬ (body.length + (literalMeta filename).length > 2 ^ 32 - 1) := by rw [hm]; omega
    simp only [this, if_false]
  · rw [← hlen, List.append_assoc (serializeHeader 11 _)]
    exact parsePacket_serialize 11 (by omega) _ rest (by rw [hlen, hm]; exact h)

example : serializeLiteral [104, 105] [102] = .ok [0xcb, 9, 0x62, 1, 102, 0, 0, 0, 0, 104, 105] := by decide

/-- **pgp_literal_name_kept_below_256.** a file name of at most 255 bytes is stored whole -/
theorem pgp_literal_name_kept_below_256 (body filename : Bytes) (h : filename.length ≤ 255) :
    parseLiteral (literalMeta filename ++ body) = some ⟨0x62, filename, 0, body⟩ := by
  rw [parseLiteral_meta, List.take_of_length_le h]

/-- **pgp_literal_long_filename_truncated.** at 256 bytes and above the stored name is the first 255 bytes – not the file
    name (the length octet cannot hold more); the body is unaffected -/
theorem pgp_literal_long_filename_truncated (body filename : Bytes) (h : filename.length ≥ 256) :
    ∃ l, parseLiteral (literalMeta filename ++ body) = some l ∧ l.filename.length = 255 ∧ l.filename ≠ filename ∧ l.data = body := by
  refine ⟨_, parseLiteral_meta filename body, ?_, ?_, rfl⟩
  · simp only [List.length_take]; omega
  · intro e
    have := congrArg List.length e
    simp only [List.length_take] at this
    omega

example : (List.replicate 256 (110 : UInt8)).length ≥ 256 := by rw [List.length_replicate]; omega

/-- **pgp_literal_too_big_refused.** sizes that do not fit the five-octet length are refused, not wrapped -/
theorem pgp_literal_too_big_refused (body filename : Bytes) (h : body.length + (6 + min 255 filename.length) > 2 ^ 32 - 1) :
    serializeLiteral body filename = .err "toobig" := by
  unfold serializeLiteral
  have : body.length + (literalMeta filename).length > 2 ^ 32 - 1 := by rw [literalMeta_length]; exact h
  simp only [this, if_true]

end Relic.Props.C05

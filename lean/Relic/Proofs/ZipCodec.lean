/- field-access lemmas for the ZIP model (C17) -/
import Relic.Model.Zip
import Relic.Proofs.Codec
namespace Relic.Zip
open Relic

theorem leBytes_add (a b n : Nat) : leBytes (a + b) n = leBytes a n ++ leBytes b (n / 256 ^ a) := by
  induction a generalizing n with
  | zero => simp [leBytes]
  | succ a ih =>
    have e : a + 1 + b = (a + b) + 1 := by omega
    rw [e]
    simp only [leBytes, ih, List.cons_append]
    congr 2
    rw [Nat.div_div_eq_div_mul, Nat.pow_succ, Nat.mul_comm]

theorem fld_skip (a r : Bytes) (n k w : Nat) (h : a.length = n) : fld (a ++ r) (n + k) w = fld r k w := by
  unfold fld
  rw [← List.drop_drop, List.drop_left' h]

theorem fld_head (x r : Bytes) (w : Nat) (h : x.length = w) : fld (x ++ r) 0 w = leVal x := by
  unfold fld
  rw [List.drop_zero, List.take_left' h]

theorem fld_all (x : Bytes) (w : Nat) (h : x.length = w) : fld x 0 w = leVal x := by
  have := fld_head x [] w h
  simpa using this

end Relic.Zip

/- line-protocol handlers for the CAB model (used by C01, C02, C03, C08, C11) -/
import Relic.Model.Cab
import Relic.Spec.CabDigest
namespace Relic.Driver.Cab
open Relic Relic.Cab

def showRes {α} (r : Res α) (f : α → String) : String :=
  match r with
  | .ok a => f a
  | .err e => s!"err {e}"
  | .panic p => s!"panic {p}"
  | .diverge => "diverge"

def handle : List String → String
  | ["digest", fhex] =>
    match fromHex fhex with
    | none => "bad-op"
    | some f =>
      showRes (DigestCab f) fun d =>
        s!"ok stream={toHex d.hashed} patched={toHex d.patched} {d.total} {d.offFiles} {d.oldSigSize} #fs={d.foldersStart} de={d.dataEnd} delta={d.delta}"
  -- C05: the SPECIFICATION's digest input (Relic.Spec.CabDigest) of the signed form of the cabinet: of the file itself
  -- when it carries a signature header (cab_digest_eq_spec_signed), else of the file the patch path writes for a dummy
  -- blob (cab_written_file_digest_eq_spec); printed for regular layouts only
  | ["specdigest", fhex] =>
    match fromHex fhex with
    | none => "bad-op"
    | some f =>
      showRes (DigestCab f) fun d =>
        if d.offFiles = d.foldersStart + 8 * d.nFolders ∧ d.offFiles ≤ d.total ∧ (d.delta = 24 → d.total + 24 < 2 ^ 32) then
          let g : Option Bytes := if d.hasSig then some f else
            match Binpatch.applyRewrite f (Binpatch.build 4294967295 (makePatch d [1, 2, 3])) with
            | .ok g => some g
            | _ => none
          match g with
          | none => "err apply"
          | some g =>
            match Spec.CabDigest.digestInput g with
            | some st => s!"ok spec stream={toHex st} #{if d.hasSig then "signed" else "unsigned"}"
            | none => "ok spec none"
        else "ok skip"
  | ["sign", fhex, sighex] =>
    match fromHex fhex, fromHex sighex with
    | some f, some sig =>
      showRes (DigestCab f) fun d =>
        match Binpatch.applyRewrite f (Binpatch.build 4294967295 (makePatch d sig)) with
        | .ok g =>
          let again := match DigestCab g with
            | .ok d2 => if d2.hashed = d.hashed then "same-digest" else "digest-changed"
            | .err e => s!"redigest-err-{e}"
            | .panic p => s!"redigest-panic-{p}"
            | .diverge => "diverge"
          let loc := match locate g with
            | .ok b => if b = padded sig then "located" else "located-other"
            | .err e => s!"locate-err-{e}"
            | .panic p => s!"locate-panic-{p}"
            | .diverge => "diverge"
          let regular := if d.offFiles = d.foldersStart + 8 * d.nFolders ∧ d.offFiles ≤ d.total then "1" else "0"
          s!"ok {toHex g} {again} #{loc} regular={regular} off={d.offFiles} total={d.total} fs={d.foldersStart} nf={d.nFolders} delta={d.delta} de={d.dataEnd}"
        | .err e => s!"err apply #{e}"
        | _ => "bad-op"
    | _, _ => "bad-op"
  | ["resign", fhex, s1hex, s2hex] =>
    match fromHex fhex, fromHex s1hex, fromHex s2hex with
    | some f, some s1, some s2 =>
      let round (x sig : Bytes) : Res Bytes :=
        match DigestCab x with
        | .ok d => match Binpatch.applyRewrite x (Binpatch.build 4294967295 (makePatch d sig)) with
          | .ok g => .ok g
          | _ => .err "apply"
        | .err e => .err e
        | .panic p => .panic p
        | .diverge => .diverge
      showRes (round f s1) fun g1 =>
        match round g1 s2 with
        | .ok g2 =>
          showRes (round f s2) fun direct => s!"ok {toHex g2} {if g2 = direct then "replaced" else "not-replaced"}"
        | .err e => s!"err second-{e}"
        | .panic p => s!"panic {p}"
        | .diverge => "diverge"
    | _, _, _ => "bad-op"
  | ["realsign", fhex, _key] =>
    -- the real signer's output, signature blob cut off, `SignatureSize` as for an empty blob
    match fromHex fhex with
    | none => "bad-op"
    | some f =>
      showRes (DigestCab f) fun d =>
        match Binpatch.applyRewrite f (Binpatch.build 4294967295 (makePatch d [])) with
        | .ok g => s!"ok {toHex g}"
        | _ => "err apply"
  | "mutate" :: fhex :: _n :: muts =>
    match fromHex fhex with
    | none => "bad-op"
    | some f =>
      match DigestCab f, locate f with
      | .ok d0, .ok blob0 =>
        let one (m : String) : String :=
          match m.splitOn ":" with
          | [p, b] =>
            match p.toNat?, b.toNat? with
            | some pos, some byte =>
              let g := f.set pos (UInt8.ofNat byte)
              if g = f then "same" else
              match locate g with
              | .ok blob =>
                if blob ≠ blob0 then "any"          -- the PKCS#7 blob itself changed: outside the model
                else match DigestCab g with
                  | .ok d => if d.hashed = d0.hashed then "pass" else "fail"
                  | _ => "fail"
              | _ => "fail"
            | _, _ => "bad"
          | _ => "bad"
        s!"ok {" ".intercalate (muts.map one)} #fs={d0.foldersStart} de={d0.dataEnd}"
      | _, _ => "err unsigned-or-bad"
  | ["locate", fhex] =>
    match fromHex fhex with
    | none => "bad-op"
    | some f => showRes (locate f) fun b => s!"ok {toHex b}"
  | _ => "bad-op"

end Relic.Driver.Cab

/-
  C01 — Every signature relic produces verifies.   Security catalogs (signers/cat, verifier signers/pkcs.Verify).
-/
import Relic.Props.C08_Cat
import Relic.Model.Cms
namespace Relic.Props.C01
open Relic Relic.Der Relic.CatSign

/-- what `pkcs.Verify` (no `--content`) digests for a file: `pkcs7.Unmarshal`, then `ContentInfo.Bytes()`; a detached
    structure is "pkcs7: missing content" -/
def verifyInput (blob : Bytes) : Res Bytes :=
  match unmarshalCI blob with
  | .ok ci =>
    match ciBytes ci with
    | .ok (some c) => .ok c
    | .ok none => .err "missing-content"
    | .err e => .err e
    | .panic s => .panic s
    | .diverge => .diverge
  | .err e => .err e
  | .panic s => .panic s
  | .diverge => .diverge

/-- **cat_sign_then_verify** (file level).  The verifier, run on the file `cat.sign` wrote, parses it, finds the catalog's
    ContentInfo and digests exactly the octets the signature was made over. -/
theorem cat_sign_then_verify (H : Bytes → Bytes) (k : Signer) (x : Bytes) (s : Signed) (h : sign H k x = .ok s)
    (hk : k.WF) (hfit : C08.Fits k s.ci) :
    verifyInput s.out = .ok s.content ∧ s.sig = k.sign (H s.content) := by
  obtain ⟨_, _, hc, hs, hout⟩ := sign_inv H k x s h
  have hu := unmarshalCI_signed H k x s h hk (by rw [hout, hs]; exact hfit _)
  exact ⟨by simp [verifyInput, hu, hc], hs⟩

example (H : Bytes → Bytes) : verifyInput (emitSD C08.demoKey C08.demoCI [0xAA, 0xBB]) = .ok [0x05, 0x00] := by
  have h := C08.demo_signable H
  have := cat_sign_then_verify H C08.demoKey _ _ h (by unfold Signer.WF C08.demoKey; show (splitTLVs []).isOk = true; rw [splitTLVs_nil]; rfl)
    (by intro d; show (emitSD C08.demoKey C08.demoCI [0xAA, 0xBB]).length < 2 ^ 31; decide)
  exact this.1

open Relic.Cms in
/-- the signer info `SignatureBuilder.Sign` builds when no authenticated attribute was added: it names the leaf by issuer and
    serial and carries the requested digest algorithm -/
def builtSI (C : Cms.Crypto) (leaf : Cms.Cert C) (alg : Cms.Alg) (sa : Cms.SigAlg) (sig : C.Sig) : Cms.SignerInfo C :=
  { id := 0, issuer := leaf.issuer, serial := leaf.serial, digestAlg := some alg, attrs := none, attrsBytes := [], sigAlg := sa, sig := sig }

open Relic.Cms in
/-- the SignedData value `cat.sign` builds, as `SignedData.Verify` sees it after parsing: eContentType CTL, the content
    attached, the leaf first among the certificates, that one signer info -/
def builtSD (C : Cms.Crypto) (leaf : Cms.Cert C) (more : List (Cms.Cert C)) (alg : Cms.Alg) (sa : Cms.SigAlg) (content : Bytes)
    (sig : C.Sig) : Cms.SignedData C :=
  { contentType := oidCTL, content := some content, certs := leaf :: more, badCerts := false, signers := [builtSI C leaf alg sa sig] }

open Relic.Cms in
theorem findCert_head {C : Cms.Crypto} (leaf : Cms.Cert C) (more : List (Cms.Cert C)) :
    findCert (leaf :: more) leaf.issuer leaf.serial = some leaf := by
  unfold findCert
  rw [List.find?_cons]
  simp

open Relic.Cms in
/-- **cat_sign_then_verify_cms** (value level, over `Relic.Model.Cms`).  `SignedData.Verify(nil, false)` accepts what
    `cat.sign` built and reports the configured leaf, whenever the signature primitive accepts the key's signature over
    `H alg content` – which the next theorem shows for every sound scheme. -/
theorem cat_sign_then_verify_cms {C : Crypto} (H : Alg → Bytes → Bytes) (alg : Alg) (sa : SigAlg) (leaf : Cert C)
    (more : List (Cert C)) (content : Bytes) (sig : C.Sig)
    (hv : verifySig C leaf.pub alg sa (H alg content) sig = .ok ()) :
    verifySignedData H (builtSD C leaf more alg sa content sig) none false = .ok (leaf, builtSI C leaf alg sa sig) := by
  have hf := findCert_head leaf more
  simp [verifySignedData, verifySignedDataWith, resolveContent, builtSD, builtSI, verifyAll, verifyOne, verifySignerInfo, mdStage,
    hf, hv, ctypeStage]

open Relic.Cms in
/-- the hypothesis of `cat_sign_then_verify_cms` for every signature scheme: RSA key with `rsaEncryption`, EC key with
    `id-ecPublicKey` (what `x509tools.PkixAlgorithms` writes), any digest algorithm -/
theorem cat_signature_accepted (S : KeyMatch.SigScheme) (kind : S.Pub → KeyKind) (priv : S.Priv) (alg : Alg) (d : Bytes) :
    (kind (S.pub priv) = .rsa → verifySig (Crypto.ofScheme S kind) (S.pub priv) alg (.rsa none) d (S.sign priv d) = .ok ()) ∧
    (kind (S.pub priv) = .ecdsa → verifySig (Crypto.ofScheme S kind) (S.pub priv) alg (.ecdsa none) d (S.sign priv d) = .ok ()) := by
  constructor <;> intro hk <;> simp [verifySig, SigAlg.hash, Crypto.ofScheme, hk, S.sound]

end Relic.Props.C01

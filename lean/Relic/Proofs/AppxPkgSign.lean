/-
  Lemmas for the sign-then-verify theorem of `Relic.Model.AppxPkg`: 64 KiB blocks, `CopySizes`, the Publisher attribute,
  `files[name]` on the written package.
-/
import Relic.Proofs.AppxPkg
namespace Relic.AppxPkg
open Relic Relic.Appx

/-! ### blocks -/

theorem chunks_nil (n : Nat) : chunks n [] = [] := by cases n <;> rfl

theorem take_min_length (p : Bytes) (k : Nat) : p.take (min p.length k) = p.take k := by
  rcases Nat.le_total p.length k with h | h
  · rw [Nat.min_eq_left h, List.take_of_length_le (Nat.le_refl _), List.take_of_length_le h]
  · rw [Nat.min_eq_right h]

theorem drop_min_length (p : Bytes) (k : Nat) : p.drop (min p.length k) = p.drop k := by
  rcases Nat.le_total p.length k with h | h
  · rw [Nat.min_eq_left h, List.drop_of_length_le (Nat.le_refl _), List.drop_of_length_le h]
  · rw [Nat.min_eq_right h]

theorem chunks_length : ∀ (n : Nat) (b : Bytes), b.length ≤ n → (chunks n b).length = nblocks b.length
  | 0, b, h => by
    have : b = [] := List.eq_nil_of_length_eq_zero (by omega)
    subst this; decide
  | n + 1, [], _ => by simp [chunks, nblocks, blockSize]
  | n + 1, x :: xs, h => by
    unfold chunks
    simp only [List.length_cons]
    rw [chunks_length n ((x :: xs).drop blockSize) (by simp only [List.length_drop, List.length_cons] at h ⊢; unfold blockSize; omega)]
    simp only [List.length_drop, List.length_cons]
    unfold nblocks blockSize
    omega

/-- the verifier's block loop accepts the blocks the signer cut and hashed -/
theorem blockSteps_chunks (H : Nat → Bytes → Bytes) (alg : Nat) : ∀ (n : Nat) (p : Bytes), p.length ≤ n →
    run H (blockSteps alg p p.length ((chunks n p).map fun c => some (H alg c))) = .ok ()
  | 0, p, h => by
    have : p = [] := List.eq_nil_of_length_eq_zero (by omega)
    subst this; simp [chunks, blockSteps, run]
  | n + 1, [], _ => by simp [chunks, blockSteps, run]
  | n + 1, x :: xs, h => by
    unfold chunks
    simp only [List.map_cons]
    rw [blockSteps_ok]
    refine ⟨Nat.min_le_left _ _, ?_, ?_⟩
    · rw [take_min_length]
    · rw [drop_min_length]
      have hl : (x :: xs).length - min (x :: xs).length blockSize = ((x :: xs).drop blockSize).length := by
        rw [List.length_drop]; omega
      rw [hl]
      exact blockSteps_chunks H alg n _ (by simp only [List.length_drop, List.length_cons] at h ⊢; unfold blockSize; omega)

/-- the `File` element the verifier parses from what the signer marshalled: hashes of the block streams -/
def hashBm (H : Nat → Bytes → Bytes) (alg : Nat) (f : Appx.BmFile) : AppxPkg.BmFile :=
  ⟨f.name, f.size, f.blocks.map fun b => some (H alg b.1)⟩

/-- what of a `File` element verification depends on -/
def core (f : Appx.BmFile) : Bytes × Nat × List Bytes := (f.name, f.size, f.blocks.map (·.1))

theorem hashBm_of_core {H : Nat → Bytes → Bytes} {alg : Nat} {f g : Appx.BmFile} (h : core f = core g) : hashBm H alg f = hashBm H alg g := by
  unfold core at h
  simp only [Prod.mk.injEq] at h
  obtain ⟨h1, h2, h3⟩ := h
  unfold hashBm
  have : (f.blocks.map fun b => some (H alg b.1)) = (f.blocks.map (·.1)).map fun c => some (H alg c) := by simp
  rw [this, h3, h1, h2]; simp

/-! ### `CopySizes` only writes the `Size` attributes -/

theorem setSizes_fst : ∀ (bs : List (Bytes × Nat)) (ns : List Nat) (bs' : List (Bytes × Nat)), setSizes bs ns = some bs' →
    bs'.map (·.1) = bs.map (·.1)
  | bs, [], bs', h => by simp [setSizes] at h; rw [h]
  | [], _ :: _, bs', h => by simp [setSizes] at h
  | (s, k) :: bs, n :: ns, bs', h => by
    simp only [setSizes, Option.map_eq_some_iff] at h
    obtain ⟨t, ht, rfl⟩ := h
    simp [setSizes_fst bs ns t ht]

theorem copySizes_core : ∀ (old : List (Bytes × List Nat)) (i : Nat) (bm bm' : List Appx.BmFile), copySizes i bm old = .ok bm' →
    bm'.map core = bm.map core
  | [], i, bm, bm', h => by simp [copySizes] at h; rw [h]
  | (name, sizes) :: rest, i, bm, bm', h => by
    unfold copySizes at h
    simp only at h
    split at h
    · exact copySizes_core rest _ _ _ h
    · split at h
      · cases h
      next nf hnf =>
        split at h
        · cases h
        · split at h
          · cases h
          next bs hbs =>
            rw [copySizes_core rest _ _ _ h]
            have hi : i < bm.length := (List.getElem?_eq_some_iff.1 hnf).1
            apply List.ext_getElem?
            intro j
            simp only [List.getElem?_map, List.getElem?_set]
            by_cases hj : i = j
            · subst hj
              simp only [hi, if_true, hnf, Option.map_some]
              simp only [core, setSizes_fst _ _ _ hbs]
            · simp [hj]

theorem tailParse_core (S : SignEnv) : ∀ (tl : List InMember) (t0 t : Parsed), tailParse S tl t0 = .ok t →
    t.bm.map core = t0.bm.map core
  | [], t0, t, h => by simp [tailParse] at h; rw [h]
  | f :: fs, t0, t, h => by
    unfold tailParse at h
    split at h
    · split at h
      · (have := tailParse_core S fs _ t h; exact this)
      · cases h
    · split at h
      · split at h
        · (have := tailParse_core S fs _ t h; exact this)
        · cases h
      · split at h
        · split at h
          · cases h
          next old _ =>
            split at h
            next bm hcs =>
              rw [tailParse_core S fs _ t h]
              exact copySizes_core old 0 _ _ hcs
            all_goals cases h
        · split at h
          · split at h
            · (have := tailParse_core S fs _ t h; exact this)
            · cases h
          · split at h
            · (have := tailParse_core S fs _ t h; exact this)
            · cases h

/-! ### the Publisher attribute -/

theorem eolNorm_id : ∀ (s : Bytes), (13 : UInt8) ∉ s → eolNorm s = s
  | [], _ => rfl
  | b :: r, h => by
    have hb : b ≠ 13 := fun e => h (by simp [e])
    have hr : (13 : UInt8) ∉ r := fun e => h (by simp [e])
    have ih := eolNorm_id r hr
    rw [eolNorm.eq_4 b r (fun _ h _ => hb h) (fun h => hb h), ih]

theorem eolNorm_nil : eolNorm [] = [] := rfl

theorem readAttr_inner_map (key : Bytes) : ∀ (a : List Xml.Attr) (acc : Bytes),
    (a.map fun x => { x with value := eolNorm x.value }).foldl (fun a x => if x.key = key then x.value else a) (eolNorm acc) =
      eolNorm (a.foldl (fun a x => if x.key = key then x.value else a) acc)
  | [], acc => rfl
  | x :: a, acc => by
    simp only [List.map_cons, List.foldl_cons]
    by_cases h : x.key = key
    · simp only [h, if_true]; exact readAttr_inner_map key a x.value
    · simp only [h, if_false]; exact readAttr_inner_map key a acc

theorem readAttr_reread_aux (key : Bytes) : ∀ (ids : List (List Xml.Attr)) (acc : Bytes),
    (ids.map fun a => a.map fun x => { x with value := eolNorm x.value }).foldl
        (fun acc attrs => attrs.foldl (fun a x => if x.key = key then x.value else a) acc) (eolNorm acc) =
      eolNorm (ids.foldl (fun acc attrs => attrs.foldl (fun a x => if x.key = key then x.value else a) acc) acc)
  | [], acc => rfl
  | a :: ids, acc => by
    simp only [List.map_cons, List.foldl_cons]
    rw [readAttr_inner_map]
    exact readAttr_reread_aux key ids _

/-- reading a written manifest back: the attribute values, with end-of-line handling -/
theorem readAttr_reread (key : Bytes) (d : MDoc) : readAttr key (reread d).ids = eolNorm (readAttr key d.ids) := by
  unfold readAttr reread
  exact readAttr_reread_aux key d.ids []

theorem find_createAttr (v : Bytes) : ∀ (a : List Xml.Attr),
    ((Xml.createAttr ([], sPublisher) v a).find? fun x => x.space = [] ∧ x.key = sPublisher).map (·.value) = some v
  | [] => by simp [Xml.createAttr]
  | x :: a => by
    unfold Xml.createAttr
    by_cases h : ([] : Bytes) = x.space ∧ sPublisher = x.key
    · simp only [h, and_self, if_true]
      simp [List.find?, h.1.symm, h.2.symm]
    · simp only [h, if_false]
      have : ¬ (x.space = [] ∧ x.key = sPublisher) := fun e => h ⟨e.1.symm, e.2.symm⟩
      simp only [List.find?, this, decide_false]
      exact find_createAttr v a

theorem visiblePublisher_set (p : Bytes) (d : MDoc) (hr : d.rootNamed = true) (hi : d.ids ≠ []) :
    visiblePublisher (setPublisher p d) = some p := by
  unfold setPublisher visiblePublisher
  simp only [hr, if_true]
  cases h : d.ids with
  | nil => exact absurd h hi
  | cons a r => simp only; exact find_createAttr p a

theorem visiblePublisher_reread (d : MDoc) : visiblePublisher (reread d) = (visiblePublisher d).map eolNorm := by
  unfold visiblePublisher reread
  cases d.ids with
  | nil => rfl
  | cons a r =>
    simp only [List.map_cons]
    induction a with
    | nil => rfl
    | cons x a ih =>
      simp only [List.map_cons, List.find?]
      by_cases h : x.space = [] ∧ x.key = sPublisher
      · simp [h]
      · simp only [h, decide_false]; exact ih

/-- the manifest is such that the attribute `SetPublisher` writes is the one `encoding/xml` reads (unrepaired verifier) -/
def NoShadow (d : MDoc) : Prop := ∀ p, readAttr sPublisher (setPublisher p d).ids = p

/-- a sufficient condition: one `Identity` element, whose attributes called `Publisher` are at most one, unprefixed -/
theorem noShadow_of_single (a : List Xml.Attr) (h1 : ∀ x ∈ a, x.key = sPublisher → x.space = [])
    (h2 : (a.filter fun x => x.key = sPublisher).length ≤ 1) : NoShadow ⟨true, [a]⟩ := by
  intro p
  simp only [setPublisher, if_true, readAttr, List.foldl_cons, List.foldl_nil]
  suffices h : ∀ (a : List Xml.Attr) (acc : Bytes), (∀ x ∈ a, x.key = sPublisher → x.space = []) →
      (a.filter fun x => x.key = sPublisher).length ≤ 1 →
      (Xml.createAttr ([], sPublisher) p a).foldl (fun a x => if x.key = sPublisher then x.value else a) acc = p from h a [] h1 h2
  intro a
  induction a with
  | nil => intro acc _ _; simp [Xml.createAttr]
  | cons x a ih =>
    intro acc h1 h2
    unfold Xml.createAttr
    by_cases hk : x.key = sPublisher
    · have hs : x.space = [] := h1 x (by simp) hk
      simp only [hs, hk, and_self, if_true, List.foldl_cons]
      -- no further Publisher in a
      have hnone : ∀ y ∈ a, y.key ≠ sPublisher := by
        intro y hy hyk
        have : 2 ≤ ((x :: a).filter fun x => x.key = sPublisher).length := by
          simp only [List.filter_cons, hk, decide_true, if_true, List.length_cons]
          have : y ∈ a.filter fun x => x.key = sPublisher := List.mem_filter.2 ⟨hy, by simpa using hyk⟩
          have := List.length_pos_of_mem this
          omega
        omega
      clear ih h1 h2
      induction a generalizing p with
      | nil => rfl
      | cons y a ih2 =>
        simp only [List.foldl_cons, hnone y (by simp), if_false]
        exact ih2 p (fun z hz => hnone z (by simp [hz]))
    · have : ¬ (([] : Bytes) = x.space ∧ sPublisher = x.key) := fun e => hk e.2.symm
      simp only [this, if_false, List.foldl_cons, hk]
      exact ih _ (fun y hy => h1 y (by simp [hy])) (by
        simp only [List.filter_cons, hk, decide_false] at h2; exact h2)

/-- **the Publisher that is written is the Publisher that is read**, for the manifests characterised by the hypotheses -/
theorem publisher_readable (fx : Fx) (p : Bytes) (d : MDoc) (hr : d.rootNamed = true) (hi : d.ids ≠ [])
    (hs : fx.pub = true ∨ NoShadow d) (hcr : (13 : UInt8) ∉ p) :
    readPublisher fx.pub (reread (setPublisher p d)) = p := by
  unfold readPublisher
  have hr' : (reread (setPublisher p d)).rootNamed = true := by
    unfold reread setPublisher
    simp only [hr, if_true]
    cases d.ids <;> simp [hr]
  cases hp : fx.pub with
  | true =>
    simp only [if_true, hr']
    rw [visiblePublisher_reread, visiblePublisher_set p d hr hi]
    simp [eolNorm_id p hcr]
  | false =>
    simp only [Bool.false_eq_true, if_false]
    rw [readAttr_reread]
    rcases hs with h | h
    · rw [hp] at h; cases h
    · rw [h p, eolNorm_id p hcr]

/-! ### the written package as the verifier sees it -/

/-- a written member as `archive/zip` presents it (contents readable, size = length) -/
def toEntry (m : OutMember) : Entry := ⟨m.name, m.stored, m.content.length, 0, .ok m.content, m.content⟩

/-- the view of the signed package, given the two streams `verifyMeta` recomputes from the written file -/
def outView (r : SignedPkg) (sigm : OutMember) (axpc axcd : Bytes) : View :=
  ⟨(r.members ++ [sigm]).map toEntry, .ok (axpc, axcd)⟩

theorem find_append_left (z z' : Res (Bytes × Bytes)) (a b : List Entry) (n : Bytes) (h : ∀ e ∈ a, (e.name == n) = false) :
    View.find ⟨a ++ b, z⟩ n = View.find ⟨b, z'⟩ n := by
  unfold View.find
  simp only [List.filter_append]
  have : a.filter (fun e => e.name == n) = [] := by
    rw [List.filter_eq_nil_iff]; intro e he; simp [h e he]
  rw [this, List.nil_append]

theorem special_false {n : Bytes} (h : special n = false) :
    (n == Appx.sManifest) = false ∧ (n == sBlockMap) = false ∧ (n == sCTypes) = false ∧ (n == sCatalog) = false ∧
    (n == sSignature) = false ∧ (n == sBundle) = false := by
  unfold special at h
  simp only [Bool.or_eq_false_iff] at h
  obtain ⟨⟨⟨⟨⟨h1, h2⟩, h3⟩, h4⟩, h5⟩, h6⟩ := h
  exact ⟨h1, h2, h3, h4, h5, h6⟩

theorem mem_takeWhile_true {α : Type} (p : α → Bool) : ∀ (l : List α) (x : α), x ∈ l.takeWhile p → p x = true
  | [], x, h => by simp at h
  | a :: l, x, h => by
    rw [List.takeWhile_cons] at h
    by_cases ha : p a = true
    · simp only [ha, if_true, List.mem_cons] at h
      rcases h with rfl | h
      · exact ha
      · exact mem_takeWhile_true p l x h
    · simp [ha] at h

theorem payload_not_special (ms : List InMember) : ∀ m ∈ payloadOf ms, special m.name = false := by
  intro m hm
  have := mem_takeWhile_true _ _ _ hm
  simpa using this

/-- the parts `Sign` appends, as entries -/
def newsOf (c : Bool) (man bmm ctm cat sg : Bytes) : List Entry :=
  (([⟨Appx.sManifest, true, man⟩, ⟨sBlockMap, false, bmm⟩, ⟨sCTypes, false, ctm⟩] : List OutMember) ++
    (if c then [(⟨sCatalog, false, cat⟩ : OutMember)] else []) ++ [(⟨sSignature, false, sg⟩ : OutMember)]).map toEntry

theorem find_news (z : Res (Bytes × Bytes)) (c : Bool) (man bmm ctm cat sg : Bytes) :
    View.find ⟨newsOf c man bmm ctm cat sg, z⟩ sSignature = some (toEntry ⟨sSignature, false, sg⟩) ∧
    View.find ⟨newsOf c man bmm ctm cat sg, z⟩ sBlockMap = some (toEntry ⟨sBlockMap, false, bmm⟩) ∧
    View.find ⟨newsOf c man bmm ctm cat sg, z⟩ sCTypes = some (toEntry ⟨sCTypes, false, ctm⟩) ∧
    View.find ⟨newsOf c man bmm ctm cat sg, z⟩ sCatalog = (if c then some (toEntry ⟨sCatalog, false, cat⟩) else none) ∧
    View.find ⟨newsOf c man bmm ctm cat sg, z⟩ Appx.sManifest = some (toEntry ⟨Appx.sManifest, true, man⟩) ∧
    View.find ⟨newsOf c man bmm ctm cat sg, z⟩ sBundle = none := by
  have n1 : (Appx.sManifest == sSignature) = false := by decide
  have n2 : (sBlockMap == sSignature) = false := by decide
  have n3 : (sCTypes == sSignature) = false := by decide
  have n4 : (sCatalog == sSignature) = false := by decide
  have n5 : (Appx.sManifest == sBlockMap) = false := by decide
  have n6 : (sCTypes == sBlockMap) = false := by decide
  have n7 : (sCatalog == sBlockMap) = false := by decide
  have n8 : (sSignature == sBlockMap) = false := by decide
  have n9 : (Appx.sManifest == sCTypes) = false := by decide
  have n10 : (sBlockMap == sCTypes) = false := by decide
  have n11 : (sCatalog == sCTypes) = false := by decide
  have n12 : (sSignature == sCTypes) = false := by decide
  have n13 : (Appx.sManifest == sCatalog) = false := by decide
  have n14 : (sBlockMap == sCatalog) = false := by decide
  have n15 : (sCTypes == sCatalog) = false := by decide
  have n16 : (sSignature == sCatalog) = false := by decide
  have n17 : (sBlockMap == Appx.sManifest) = false := by decide
  have n18 : (sCTypes == Appx.sManifest) = false := by decide
  have n19 : (sCatalog == Appx.sManifest) = false := by decide
  have n20 : (sSignature == Appx.sManifest) = false := by decide
  have n21 : (Appx.sManifest == sBundle) = false := by decide
  have n22 : (sBlockMap == sBundle) = false := by decide
  have n23 : (sCTypes == sBundle) = false := by decide
  have n24 : (sCatalog == sBundle) = false := by decide
  have n25 : (sSignature == sBundle) = false := by decide
  cases c <;>
    simp [View.find, newsOf, toEntry, List.filter, n1, n2, n3, n4, n5, n6, n7, n8, n9, n10, n11, n12, n13, n14, n15, n16, n17, n18,
      n19, n20, n21, n22, n23, n24, n25]

/-! ### the digest list the signer writes -/

/-- `HashValues` after `readSignature` has walked the list `writeSignature` wrote -/
def digestVals (a b c d : Bytes) (ci : Option Bytes) : SMap :=
  ([(tAXPC, a), (tAXCD, b), (tAXCT, c), (tAXBM, d)] ++ (match ci with | some e => [(tAXCI, e)] | none => [])).foldl
    (fun m x => Vsix.mset m x.1 x.2) ([] : SMap)

theorem tagValue_digests (a b c d : Bytes) (ci : Option Bytes) :
    tagValue (digestVals a b c d ci) tAXPC = some a ∧ tagValue (digestVals a b c d ci) tAXCD = some b ∧
    tagValue (digestVals a b c d ci) tAXCT = some c ∧ tagValue (digestVals a b c d ci) tAXBM = some d ∧
    tagValue (digestVals a b c d ci) tAXCI = ci := by
  have d1 : tAXPC ≠ tAXCD := by decide
  have d2 : tAXPC ≠ tAXCT := by decide
  have d3 : tAXPC ≠ tAXBM := by decide
  have d4 : tAXPC ≠ tAXCI := by decide
  have d5 : tAXCD ≠ tAXCT := by decide
  have d6 : tAXCD ≠ tAXBM := by decide
  have d7 : tAXCD ≠ tAXCI := by decide
  have d8 : tAXCT ≠ tAXBM := by decide
  have d9 : tAXCT ≠ tAXCI := by decide
  have d10 : tAXBM ≠ tAXCI := by decide
  cases ci <;>
    simp [digestVals, Vsix.mset, tagValue, List.filter, List.find?, d1, d2, d3, d4, d5, d6, d7, d8, d9, d10, d1.symm, d2.symm, d3.symm,
      d4.symm, d5.symm, d6.symm, d7.symm, d8.symm, d9.symm, d10.symm]

end Relic.AppxPkg

/- line-protocol handler for C04 (authentication / authorisation / real-ip) -/
import Relic.Model.Authz
namespace Relic.Driver.C04
open Relic Relic.Authz Relic.RealIP

def undash (s : String) : String := if s = "-" then "" else s
def dash (s : String) : String := if s = "" then "-" else s

def splitPlus (s : String) : List String := if s = "-" ∨ s = "" then [] else s.splitOn "+"

def unhexStr (s : String) : Option String :=
  (fromHex s).map fun bs => String.ofList (bs.map fun b => Char.ofNat b.toNat)

def hexStr (s : String) : String :=
  if s = "" then "-" else toHex (s.toList.map fun c => UInt8.ofNat c.toNat)

def unhexList (s : String) : Option (List String) := (splitPlus s).mapM unhexStr

def parseNats (xs : List String) : Option (List Nat) := xs.mapM (·.toNat?)

def parseClient (s : String) : Option Client :=
  match s.splitOn "," with
  | [key, v, nick, roles, ca] => do
    let ca ← if ca = "n" then pure none
             else (parseNats (splitPlus (ca.drop 1).toString)).map some
    pure { key, valid64 := v = "1", nick := undash nick, roles := splitPlus roles, ca }
  | _ => none

def parseKey (s : String) : Option Key :=
  match s.splitOn "," with
  | [name, tok, alias, roles, hide] =>
    some { name, token := undash tok, alias := undash alias, roles := splitPlus roles, hide := hide = "1" }
  | _ => none

def barList (s : String) : List String := if s = "-" then [] else s.splitOn "|"

structure RawCfg where
  clients : List Client := []
  keys : List Key := []
  tokens : List String := []
  proxiesOK : Bool := true
  nets : List String := []

def parseCfgPart (c : RawCfg) (part : String) : Option RawCfg :=
  match part.splitOn "=" with
  | ["C", v] => do pure { c with clients := ← (barList v).mapM parseClient }
  | ["K", v] => do pure { c with keys := ← (barList v).mapM parseKey }
  | ["T", v] => some { c with tokens := splitPlus v }
  | ["P", _] => some c
  | ["OK", v] => some { c with proxiesOK := v = "1" }
  | ["N", v] => do pure { c with nets := ← unhexList v }
  | _ => none

def parseCfg (s : String) : Option Config := do
  let raw ← (s.splitOn ";").foldlM parseCfgPart {}
  pure { clients := raw.clients, keys := raw.keys, tokens := raw.tokens, proxiesOK := raw.proxiesOK,
         inNets := fun a => raw.nets.contains a }

/-- `<id>:<leaf>:<anchors>`; id `none`/`empty`/`absent`/… carry no chain -/
def parseChain (s : String) : Option (String × Option Chain) :=
  match s.splitOn ":" with
  | [id, leaf, anchors] =>
    if leaf = "-" then some (id, none)
    else (parseNats (splitPlus anchors)).map fun as => (id, some { fp := leaf, anchors := as })
  | _ => none

def field (pfx : String) (s : String) : Option String :=
  if s.startsWith pfx then some (s.drop pfx.length).toString else none

def parseReq : List String → Option Req
  | [ep, key, file, sig, ra, tls, xff, ssl] => do
    let ra ← (field "ra=" ra).bind unhexStr
    let (_, tlsc) ← (field "tls=" tls).bind parseChain
    let xff ← (field "xff=" xff).bind unhexList
    let (sid, sc) ← (field "ssl=" ssl).bind parseChain
    let sslCert : HdrCert :=
      if sid = "absent" then .absent
      else if sid = "badesc" ∨ sid = "badder" then .bad
      else if sid = "nopem" then .certs none
      else .certs sc
    let key := undash key
    let ep ← match ep with
      | "health" => some Endpoint.health
      | "directory" => some Endpoint.directory
      | "home" => some Endpoint.home
      | "list" => some Endpoint.listKeys
      | "getkey" => some (Endpoint.getKey key)
      | "sign" => some (Endpoint.sign key (file = "1") (sig = "1"))
      | _ => none
    pure { remoteAddr := ra, tls := tlsc, xff, sslCert, ep }
  | _ => none

def commaList (xs : List String) : String := if xs.isEmpty then "-" else ",".intercalate xs

def showOutcome : Outcome → String
  | .resp r => s!"ok {r.status} {dash r.problem} ip={hexStr r.ip} user={dash r.user} keys={commaList r.keys} ev={commaList (r.events.map fun e => e.op ++ ":" ++ e.token ++ ":" ++ e.key)}"
  | .panic _ ip => s!"panic nil-deref ip={hexStr ip}"
  | .startErr c => s!"err start:{c}"

def tagOf (cfg : Config) (req : Req) : String :=
  match startCheck cfg with
  | some _ => "start"
  | none =>
    let ut := !hopTrusted cfg.inNets (stripPort req.remoteAddr)
    let cands : List (Client × Chain) :=
      match presented cfg req with
      | some ch => (candidates cfg ch).map fun c => (c, ch)
      | none => []
    let ent := cands.map fun (c, ch) =>
      let e := match req.ep.keyName with
        | some n => recognises c ch && entitled cfg c n
        | none => false
      s!"{userName c ch}:{if e then 1 else 0}"
    let lst := cands.map fun (c, ch) => s!"{userName c ch}:{"+".intercalate (specList cfg c)}"
    let mal := match req.ep.keyName with
      | some n => malformed cfg n
      | none => false
    let xip := stripPort (specAddr cfg.inNets req.remoteAddr (parseHops req.xff))
    -- the entry the requested name stands for (one alias hop): the only key a token may be asked to use
    let res := match req.ep.keyName with
      | some n => (match resolve cfg n with | some t => t.name | none => "-")
      | none => "-"
    s!"xip={hexStr xip} ut={if ut then 1 else 0} utip={hexStr (stripPort req.remoteAddr)} mal={if mal then 1 else 0} res={if res = "" then "-" else res} ent={commaList ent} list={commaList lst}"

def handle : List String → String
  | "req" :: cfg :: rest =>
    match parseCfg cfg, parseReq rest with
    | some cfg, some req =>
      let outs := ((Authz.handle cfg req).map showOutcome).eraseDups
      " || ".intercalate (sortStrings outs) ++ " #" ++ tagOf cfg req
    | _, _ => "bad-op"
  | _ => "bad-op"

end Relic.Driver.C04

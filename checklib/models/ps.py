"""PowerShell model glue: canonicalisation and the per-property predicates evaluated on the implementation's output."""
import hashlib

TOKENS = ["PS"]
RULE = ("PS: structure-aware generator (3 comment styles x UTF-8 / UTF-8+BOM / UTF-16LE+BOM / UTF-16LE without BOM x CRLF/LF x ASCII / BMP / "
        "BMP code units containing a 0x0A byte / astral x with and without final newline x unsigned / signed once / signed twice) plus a "
        "malformed stream (marker on the first line, marker after a too-short line, delimiter-only signature lines, missing end marker, "
        "LF-only block, truncation, odd trailing byte, BOM flips, stray 0x0A bytes, invalid UTF-8, lone surrogates, trailing text, two blocks, "
        "near-marker lines, unknown style); ops: digest (hash stream, TextSize, SigSize), sign (MakePatch + real patch application + "
        "re-digest), resign (two rounds vs one), locate (VerifyPowershell line scan), realsign (signer module with real keys, two "
        "rounds, real verifier, every style x encoding), mutate (C02); C02 also gets digest ops on UTF-8 scripts with 2/3/4-byte characters, "
        "predicate ps_hashed_is_utf16 (imprint = SHA-256 of the UTF-16LE encoding of the text, computed by the check). Non-trivial = distinct op with a known style.")
TRUSTED = ["Relic.Model.PS is hand-written from lib/authenticode/powershell.go; tied by differential execution",
           "SHA-256 of the model's byte stream is computed by the check (hashlib), never in Lean: hashes are parameters",
           "encoding/base64 decoding of the located signature lines is Go's"]
ASSUMPTIONS = ["PS theorems about re-digesting assume the text in front of the signature block contains no line that turns into the begin "
               "marker when CRLF is appended (NoFalseMarker); such inputs are exercised by the correspondence only",
               "the cryptographic signature blob is opaque to the model"]


def _b(h):
    return b"" if h == "-" else bytes.fromhex(h)


def canon_model(op, mres):
    f = op.split()
    if f[1] == "digest" and mres.startswith("ok stream="):
        parts = mres.split(" ")
        return "ok imprint=%s %s" % (hashlib.sha256(_b(parts[1][len("stream="):])).hexdigest(), " ".join(parts[2:]))
    if f[1] == "locate" and mres.startswith("ok"):
        return "ok"
    return mres


def equiv(op, il, mres):
    if il == mres:
        return True
    f = op.split()
    if f[1] == "mutate" and il.startswith("ok") and mres.startswith("ok"):
        a, b = il.split(" ")[1:], mres.split(" ")[1:]
        return len(a) == len(b) and all(x == y or y == "any" for x, y in zip(a, b))
    return False


def weight(op):
    f = op.split(" ", 5)
    return int(f[4]) if f[1] == "mutate" else 1


def nontrivial(op, mres, tag):
    return mres not in ("err style", "bad-op")


def branch(op, mres, tag):
    f = op.split()
    r = mres.split(" ")
    key = r[0] if r[0] == "ok" else " ".join(r[:2])
    if f[1] == "sign" and r[0] == "ok":
        kv = _kv(tag)
        key += ":" + r[2] + ":" + tag.split(" ")[0] + ":u16=" + kv.get("u16", "?") + ":resign=" + ("1" if kv.get("ss", "0") != "0" else "0")
    if f[1] == "resign" and r[0] == "ok":
        key += ":" + r[2]
    return "ps-%s-style%s:%s" % (f[1], f[2], key)


def _kv(tag):
    return dict(p.split("=") for p in tag.split(" ") if "=" in p)


def _valid_utf16(data):
    if data[:2] != b"\xff\xfe" or len(data) % 2:
        return False
    try:
        data[2:].decode("utf-16-le")
        return True
    except UnicodeDecodeError:
        return False


def predicate(prop, op, il, mres, tag):
    f = op.split()
    if il.startswith("crash") or il.startswith("not-run"):
        return ("Relic.Props.%s (ps)" % prop, mres, "implementation process died")
    if il.startswith("panic") and f[1] != "mutate":
        return ("Relic.Props.C03.ps_refusal_is_clean", "ok or err", "powershell code panicked instead of returning an error: " + il)
    if f[1] in ("realsign", "signfail") and il.startswith("err"):
        return ("Relic.Props.C01.ps_sign_then_redigest", "ok", "sign -> verify through the signer module failed on a well-formed script: " + il)
    if f[1] in ("digest", "sign") and il == "err malformed" and _valid_utf16(_b(f[3])):
        return ("Relic.Props.C01.ps_sign_then_redigest", mres.split(" ")[0],
                "a well-formed UTF-16LE script is refused with 'malformed utf16' (a code unit contains a 0x0A byte)")
    if f[1] == "digest" and il.startswith("ok imprint="):
        # Relic.Props.C02.ps_hashed_is_utf16: text that is not UTF-16 and is valid UTF-8 is hashed as the UTF-16LE
        # encoding of its characters (evaluated on the implementation's imprint, independently of the model)
        parts = il.split(" ")
        if len(parts) >= 5 and parts[4] == "0":
            text = _b(f[3])[:int(parts[2])]
            try:
                want = hashlib.sha256(text.decode("utf-8").encode("utf-16-le")).hexdigest()
            except UnicodeDecodeError:
                want = None
            if want is not None and parts[1] != "imprint=" + want:
                return ("Relic.Props.C02.ps_hashed_is_utf16", "imprint=" + want,
                        "the text in front of the signature block is valid UTF-8 but the digest is not that of its UTF-16LE encoding")
    if f[1] == "sign" and il.startswith("ok "):
        parts = il.split(" ")
        kv = _kv(tag)
        model_same = mres.startswith("ok ") and mres.split(" ")[2] == "same-digest"
        if model_same and prop in ("C08", "C01") and parts[2] != "same-digest":
            return ("Relic.Props.C08.ps_digest_ignores_signature", "same-digest",
                    "digest of the signed script differs from the digest that was signed: " + parts[2])
        if prop in ("C03", "C01") and mres.startswith("ok "):
            ts = int(kv["ts"])
            inp, out = _b(f[3]), _b(parts[1])
            if out[:ts] != inp[:ts] or len(out) <= ts:
                return ("Relic.Props.C03.ps_payload_preserved", "script text unchanged in front of the signature block",
                        "script bytes moved or changed by signing")
    if f[1] == "resign" and il.startswith("ok ") and prop in ("C08", "C01") and il.split(" ")[2] != "replaced":
        if mres.startswith("ok ") and mres.split(" ")[2] == "replaced":
            return ("Relic.Props.C08.ps_resign_replaces", "replaced", "signing twice differs from signing once with the last signature")
    if f[1] == "mutate" and il.startswith("ok ") and mres.startswith("ok "):
        kv = _kv(tag)
        ts = int(kv["ts"])
        outs = il.split(" ")[1:]
        for m, o in zip(f[5:], outs):
            pos = int(m.split(":")[0])
            if pos < ts and o == "pass":
                return ("Relic.Props.C02.ps_hashed_injective_utf16", "fail",
                        "byte %d lies in the script text yet the verifier accepted the mutated script" % pos)
            if o.startswith("panic"):
                return ("Relic.Props.C02 (ps verify)", "fail", "verifier panicked on mutated file: " + o)
    return None


def matches_known(k, op, il, mres, tag):
    ident = k.get("identity", {})
    site = ident.get("site", "")
    return il.startswith("panic") and mres.startswith("panic") and site and site in il and site in mres

#!/bin/sh
# mkmut.sh <name>: scratch worktree of /repo (current HEAD) for an independent seeded-change agent; nothing from /verif
set -e
n="$1"; d=/tmp/mut/$n
mkdir -p /tmp/mut; [ -d "$d" ] && { echo "$d exists"; exit 1; }
mkdir -p "$d/out"
git -C /repo worktree add --detach "$d/repo" HEAD >/dev/null 2>&1
echo "$d"

/-
  C02 — Any change to signed content or to the signature makes verification fail.   xar / flat package part.

  What `Verify` binds: the CMS (or classic RSA) signature is over `H(compressed TOC)`; the TOC names, for every member that
  `gatherDataFiles` reaches, offset, length and `<archived-checksum>`; `checkFile` compares that checksum with the heap bytes.
  `xar_tamper_evident`: two files that both verify and whose signatures are over the same TOC hash have — under
  collision-freeness of the hash functions on the streams in question — the same compressed TOC, hence the same decoded
  table of contents, and byte-identical data for every gathered member.
  Outside the protected set (each a theorem, each replayed on the real code by the `mutate` ops):
  * `xar_rsa_unchecked_with_cms` — the classic RSA signature bytes when a CMS signature is present (listed finding FXAR4);
  * `xar_children_of_data_file_unchecked` — members below a `<file>` that has data itself (FXAR5);
  * `xar_skip_digests_checks_no_member` — with `NoDigests` no heap byte is looked at;
  * header `UncompressedSize`, bytes between members, zero-length members, the CMS padding, the notary trailer behind the last
    member: no comparison of `verifyPlan` reads them (`xar_checked_streams`: the streams are the TOC region and the gathered
    member ranges, nothing else).
-/
import Relic.Proofs.XarSign
namespace Relic.Props.C02
open Relic Relic.Xar

/-- what `checkFile` (verify side) establishes about one member -/
def XarCheckedAt (C : Crypto) (f : Bytes) (base : Int) (r : Ref) : Prop :=
  ∃ k exp, hkOfStyle r.style = some k ∧ unhex r.digest = some exp ∧
    (base + r.offset).toNat + r.length.toNat ≤ f.length ∧ C.H k (sl f (base + r.offset).toNat r.length.toNat) = exp

theorem xar_checkFileAt_ok (C : Crypto) (f : Bytes) (base : Int) (r : Ref) (h : (checkFileAt f base r).run C = .ok ()) :
    XarCheckedAt C f base r := by
  rw [run_ok_iff] at h
  obtain ⟨hc, hf⟩ := h
  unfold checkFileAt at hc hf
  cases hs : hkOfStyle r.style with
  | none => simp [hs, Plan.fail] at hf
  | some k =>
    simp only [hs] at hc hf
    cases hx : unhex r.digest with
    | none => simp [hx, Plan.fail] at hf
    | some exp =>
      simp only [hx] at hc hf
      split at hf
      · simp [Plan.fail] at hf
      · rename_i h1
        simp only [h1, ↓reduceIte] at hc
        split at hf
        · rename_i h2
          simp only [h2, ↓reduceIte] at hc
          refine ⟨k, exp, hs, hx, h2, ?_⟩
          have := hc _ List.mem_cons_self
          simpa [Check.holds] using this
        · simp [Plan.fail] at hf

theorem xar_checkAllAt_ok_imp (C : Crypto) (f : Bytes) (base : Int) : ∀ rs : List Ref,
    (checkAllAt f base rs).run C = .ok () → ∀ r ∈ rs, XarCheckedAt C f base r
  | [], _, r, hr => by simp at hr
  | x :: xs, h, r, hr => by
    simp only [checkAllAt] at h
    obtain ⟨_, h1, h2⟩ := run_bind_ok C _ _ _ h
    simp only [List.mem_cons] at hr
    rcases hr with rfl | hr
    · exact xar_checkFileAt_ok C f base _ h1
    · exact xar_checkAllAt_ok_imp C f base xs h2 r hr

/-- the members `Verify` hashes, in the order it hashes them -/
def xarGatheredRefs (o : Opened) : List Ref := sortRefs ((gather o.toc.files).map XFile.ref)

/-- what a successful `Open` tells about where its table of contents came from -/
theorem xar_open_ok (fx : Bool) (C : Crypto) (E : Env) (f : Bytes) (o : Opened) (h : (openPlanG fx E f).run C = .ok o) :
    ∃ hd root n, parseHeader f = .ok (hd, o.hk) ∧ tocRegion f = regionSR f hd.hsize hd.clen ∧
      E.decode (tocRegion f) = some (root, n) ∧ unmarshal E.num root = some o.toc ∧ C.H o.hk (tocRegion f) = o.tocHash := by
  rw [run_ok_iff] at h
  obtain ⟨hc, hf⟩ := h
  unfold openPlanG at hc hf
  cases hp : parseHeader f with
  | error e => simp [hp, Plan.fail] at hf
  | ok v =>
    obtain ⟨hd, k⟩ := v
    have hreg : tocRegion f = regionSR f hd.hsize hd.clen := by
      unfold tocRegion
      unfold parseHeader at hp
      cases hr : readHdr f with
      | none => simp [hr] at hp
      | some h' =>
        simp only [hr] at hp
        split at hp
        · cases hp
        · split at hp
          · cases hp
          · split at hp
            · cases hp
            · simp only [Except.ok.injEq, Prod.mk.injEq] at hp
              rw [hp.1]
    simp only [hp] at hc hf
    cases hg1 : (fx && !tocSizesOk hd f.length) with
    | true => simp [hg1, Plan.fail] at hf
    | false =>
    simp only [hg1, Bool.false_eq_true, ↓reduceIte] at hc hf
    cases hz : E.decode (regionSR f hd.hsize hd.clen) with
    | none => simp [hz, Plan.fail] at hf
    | some v =>
      obtain ⟨root, n⟩ := v
      simp only [hz] at hc hf
      cases hg2 : (fx && decide ((n : Int) > hd.ulen)) with
      | true => simp [hg2, Plan.fail] at hf
      | false =>
      simp only [hg2, Bool.false_eq_true, ↓reduceIte] at hc hf
      cases hu : unmarshal E.num root with
      | none => simp [hu, Plan.fail] at hf
      | some toc =>
        simp only [hu, openBody] at hc hf
        split at hf
        · simp [Plan.fail] at hf
        · rename_i hsz
          simp only [hsz, ↓reduceIte] at hc
          split at hf
          · simp [Plan.fail] at hf
          · rename_i stored hr
            simp only [hr] at hc
            simp only [openRest] at hf
            cases h1 : readSig fx E f (w64 (hd.hsize + hd.clen)) toc.sig with
            | ok sg =>
              simp only [h1, Res.bind] at hf
              cases h2 : readXSig fx f (w64 (hd.hsize + hd.clen)) toc.xsig with
              | ok x =>
                simp only [h2] at hf
                cases h3 : readTicket f toc.files (w64 (hd.hsize + hd.clen)) with
                | ok t =>
                  simp only [h3, Res.ok.injEq] at hf
                  subst hf
                  refine ⟨hd, root, n, rfl, hreg, by rw [hreg]; exact hz, hu, ?_⟩
                  have := hc _ List.mem_cons_self
                  simp only [Check.holds, beq_iff_eq] at this
                  rw [hreg]; exact this
                | err e => simp [h3] at hf
                | panic p => simp [h3] at hf
                | diverge => simp [h3] at hf
              | err e => simp [h2] at hf
              | panic p => simp [h2] at hf
              | diverge => simp [h2] at hf
            | err e => simp [h1, Res.bind] at hf
            | panic p => simp [h1, Res.bind] at hf
            | diverge => simp [h1, Res.bind] at hf

/-- **xar_checked_streams.**  What a successful `Open` + `Verify` (digests on) has compared: the stored checksum with the hash
    of the compressed TOC region, the signature with that hash, and for every gathered member its `<archived-checksum>` with
    the hash of its heap range.  Nothing else is read from the heap. -/
theorem xar_checked_streams (C : Crypto) (E : Env) (f : Bytes) (v : Verified) (h : (verifyPlan E f false).run C = .ok v) :
    ∃ o, (openPlan E f).run C = .ok o ∧ v.hk = o.hk ∧ ∀ r ∈ xarGatheredRefs o, XarCheckedAt C f o.base r := by
  unfold verifyPlan at h
  obtain ⟨o, ho, hv⟩ := run_bind_ok C _ _ _ h
  refine ⟨o, ho, ?_, ?_⟩
  · unfold verifyOpened at hv
    simp only at hv
    obtain ⟨_, _, hv2⟩ := run_bind_ok C _ _ _ hv
    obtain ⟨_, _, hv3⟩ := run_bind_ok C _ _ _ hv2
    rw [run_ok_iff] at hv3
    simp only [Plan.pure, Res.ok.injEq] at hv3
    rw [← hv3.2]
  · unfold verifyOpened at hv
    simp only at hv
    obtain ⟨_, _, hv2⟩ := run_bind_ok C _ _ _ hv
    obtain ⟨_, hfiles, _⟩ := run_bind_ok C _ _ _ hv2
    simp only [Bool.false_eq_true, ↓reduceIte] at hfiles
    exact xar_checkAllAt_ok_imp C f o.base _ hfiles

/-- the bytes of the gathered members -/
def xarMemberBytes (f : Bytes) (o : Opened) : List Bytes :=
  (xarGatheredRefs o).map fun r => sl f (o.base + r.offset).toNat r.length.toNat

/-- **xar_tamper_evident.**  Let `f` and `f'` both pass `Open` + `Verify` with digests, and let their
    signatures be over the same TOC hash (`H(tocRegion f) = H(tocRegion f')`: what a CMS or RSA signature that verifies for
    both pins down).  If `H` is collision-free then the compressed tables of contents are the same bytes, the decoded
    tables of contents (every name, offset, length, checksum, certificate) are the same, and every gathered member has the
    same bytes in both files. -/
theorem xar_tamper_evident (C : Crypto) (E : Env) (hcf : ∀ k a b, C.H k a = C.H k b → a = b)
    (f f' : Bytes) (v v' : Verified) (h : (verifyPlan E f false).run C = .ok v) (h' : (verifyPlan E f' false).run C = .ok v')
    (hsame : C.H v.hk (tocRegion f) = C.H v.hk (tocRegion f')) :
    tocRegion f = tocRegion f' ∧
    ∃ o o', (openPlan E f).run C = .ok o ∧ (openPlan E f').run C = .ok o' ∧ o.toc = o'.toc ∧ xarMemberBytes f o = xarMemberBytes f' o' := by
  have hreg := hcf _ _ _ hsame
  obtain ⟨o, ho, hko, hm⟩ := xar_checked_streams C E f v h
  obtain ⟨o', ho', hko', hm'⟩ := xar_checked_streams C E f' v' h'
  obtain ⟨hd, root, n, _, _, hz, hu, _⟩ := xar_open_ok true C E f o ho
  obtain ⟨hd', root', n', _, _, hz', hu', _⟩ := xar_open_ok true C E f' o' ho'
  rw [hreg, hz'] at hz
  simp only [Option.some.injEq, Prod.mk.injEq] at hz
  obtain ⟨rfl, rfl⟩ := hz
  rw [hu'] at hu
  simp only [Option.some.injEq] at hu
  refine ⟨hreg, o, o', ho, ho', hu.symm, ?_⟩
  unfold xarMemberBytes
  have hg : xarGatheredRefs o = xarGatheredRefs o' := by unfold xarGatheredRefs; rw [hu]
  rw [hg]
  apply List.map_congr_left
  intro r hr
  obtain ⟨k, exp, s1, s2, _, s4⟩ := hm r (by rw [hg]; exact hr)
  obtain ⟨k', exp', t1, t2, _, t4⟩ := hm' r hr
  rw [s1] at t1
  simp only [Option.some.injEq] at t1
  subst t1
  rw [s2] at t2
  simp only [Option.some.injEq] at t2
  subst t2
  exact hcf k _ _ (by rw [s4, t4])

/-! ### every entry with data is hashed, whatever its `<type>` -/

/-- the structs `gatherDataFiles` reaches: non-zero length, at the top level or below structs of zero length, at any depth -/
inductive XarReached : List XFile → XFile → Prop
  | here (a : FileAcc) (ks rest : List XFile) (h : a.length ≠ 0) : XarReached (.mk a ks :: rest) (.mk a ks)
  | under (a : FileAcc) (ks rest : List XFile) (x : XFile) (h : a.length = 0) : XarReached ks x → XarReached (.mk a ks :: rest) x
  | next (y : XFile) (rest : List XFile) (x : XFile) : XarReached rest x → XarReached (y :: rest) x

theorem xar_reached_gather : ∀ (fs : List XFile) (x : XFile), XarReached fs x → x ∈ gather fs := by
  intro fs x h
  induction h with
  | here a ks rest h => simp [gather, h]
  | under a ks rest x h _ ih => simp [gather, h, ih]
  | next y rest x _ ih =>
    cases y with
    | mk a ks =>
      simp only [gather]
      split
      · exact List.mem_cons_of_mem _ ih
      · exact List.mem_append_right _ ih

/-- **xar_every_data_entry_checked.**  When `Open` + `Verify` (digests on) succeed, every entry of the table of contents whose
    struct has a non-zero data length and that is reached through entries of zero length — at any depth — has had its heap
    range hashed and compared with its `<archived-checksum>` (style sha1 / sha256 / sha512 required).  The struct is filled
    from the `<data>` element alone: the walk does not look at `<type>` (`xar_walk_ignores_type`), so this holds for files,
    the first of a set of hard links (`<type link="original">hardlink</type>`), and any type relic has never heard of. -/
theorem xar_every_data_entry_checked (C : Crypto) (E : Env) (f : Bytes) (v : Verified) (h : (verifyPlan E f false).run C = .ok v) :
    ∃ o, (openPlan E f).run C = .ok o ∧ ∀ x, XarReached o.toc.files x → XarCheckedAt C f o.base x.ref := by
  obtain ⟨o, ho, _, hm⟩ := xar_checked_streams C E f v h
  refine ⟨o, ho, fun x hx => hm x.ref ?_⟩
  unfold xarGatheredRefs
  rw [mem_sortRefs]
  exact List.mem_map_of_mem (xar_reached_gather _ x hx)

mutual
/-- the document with every `<type>` element replaced by `<type>s</type>` -/
def xarRetype (s : String) : Xml → Xml
  | .el n as ks => if n = "type" then .el "type" [] [.tx s] else .el n as (xarRetypeKids s ks)
  | .tx t => .tx t
def xarRetypeKids (s : String) : List Xml → List Xml
  | [] => []
  | k :: ks => xarRetype s k :: xarRetypeKids s ks
end

theorem xar_allText_retypeKids (s : String) : ∀ ks, allText (xarRetypeKids s ks) = allText ks
  | [] => rfl
  | .tx t :: ks => by simp [xarRetypeKids, xarRetype, allText, xar_allText_retypeKids s ks]
  | .el n as k :: ks => by
    simp only [xarRetypeKids, xarRetype]
    split <;> simp [allText, xar_allText_retypeKids s ks]

theorem xar_intOf_retypeKids (N : Num) (s : String) (ks : List Xml) : intOf N (xarRetypeKids s ks) = intOf N ks := by
  simp [intOf, xar_allText_retypeKids]

theorem xar_umData_retype (N : Num) (s : String) : ∀ (ks : List Xml) (a : FileAcc), umData N (xarRetypeKids s ks) a = umData N ks a
  | [], a => rfl
  | .tx t :: ks, a => by simpa [xarRetypeKids, xarRetype, umData] using xar_umData_retype N s ks a
  | .el n as k :: ks, a => by
    simp only [xarRetypeKids, xarRetype]
    by_cases ht : n = "type"
    · subst ht
      have e1 : ¬ "type" = "offset" := by decide
      have e2 : ¬ "type" = "length" := by decide
      have e3 : ¬ "type" = "size" := by decide
      have e4 : ¬ "type" = "archived-checksum" := by decide
      simp only [↓reduceIte, umData, e1, e2, e3, e4]
      exact xar_umData_retype N s ks a
    · simp only [ht, ↓reduceIte, umData, xar_intOf_retypeKids, xar_allText_retypeKids]
      split
      · cases intOf N k <;> simp [xar_umData_retype N s ks]
      · split
        · cases intOf N k <;> simp [xar_umData_retype N s ks]
        · split
          · cases intOf N k <;> simp [xar_umData_retype N s ks]
          · split
            · exact xar_umData_retype N s ks _
            · exact xar_umData_retype N s ks a

/-- **xar_walk_ignores_type.**  What `encoding/xml` + `gatherDataFiles` + `checkFile` work with does not depend on any `<type>`
    element: replace every `<type>` in the children of a `<file>` (at every depth) by any text and the same structs result. -/
theorem xar_walk_ignores_type (N : Num) (s : String) : ∀ (ks : List Xml) (a : FileAcc),
    umFileKids N (xarRetypeKids s ks) a = umFileKids N ks a
  | [], a => rfl
  | .tx t :: ks, a => by simpa [xarRetypeKids, xarRetype, umFileKids] using xar_walk_ignores_type N s ks a
  | .el n as k :: ks, a => by
    simp only [xarRetypeKids, xarRetype]
    by_cases ht : n = "type"
    · subst ht
      have e1 : ¬ "type" = "name" := by decide
      have e2 : ¬ "type" = "data" := by decide
      have e3 : ¬ "type" = "file" := by decide
      simp only [↓reduceIte, umFileKids, e1, e2, e3]
      exact xar_walk_ignores_type N s ks a
    · simp only [ht, ↓reduceIte, umFileKids, xar_allText_retypeKids, xar_umData_retype, xar_walk_ignores_type N s k,
        xar_walk_ignores_type N s ks]

example : XarReached [.mk { length := 0 } [.mk { length := 14, hasData := true } []]] (.mk { length := 14, hasData := true } []) :=
  .under _ _ _ _ rfl (.here _ _ _ (by decide))

/-- **xar_rsa_unchecked_with_cms.**  When a CMS signature is present, `Verify` does not depend on the classic RSA signature
    bytes at all (`else if`): any change to them passes. -/
theorem xar_rsa_unchecked_with_cms (f reg : Bytes) (o : Opened) (blob : Bytes) (hc : o.cmsSig = some blob) (x : Option Bytes) (skip : Bool) :
    verifyOpened f reg { o with rsaSig := x } skip = verifyOpened f reg o skip := by
  unfold verifyOpened
  simp only [hc]

/-- **xar_children_of_data_file_unchecked.**  `gatherDataFiles` takes a file with a non-zero length and does NOT visit its
    children: whatever they are, the list of members `Verify` hashes is the same. -/
theorem xar_children_of_data_file_unchecked (a : FileAcc) (h : a.length ≠ 0) (ks ks' : List XFile) (rest : List XFile) :
    (gather (.mk a ks :: rest)).map XFile.ref = (gather (.mk a ks' :: rest)).map XFile.ref := by
  simp [gather, h, XFile.ref, XFile.acc]

/-- **xar_skip_digests_checks_no_member.**  With `NoDigests` the only comparisons are the TOC checksum and the signature. -/
theorem xar_skip_digests_checks_no_member (f reg : Bytes) (o : Opened) :
    (verifyOpened f reg o true).checks.length ≤ 1 := by
  unfold verifyOpened
  simp only [↓reduceIte]
  cases o.cmsSig with
  | some b => simp [Plan.bind, Plan.pure]
  | none =>
    cases o.rsaSig with
    | some s => simp [Plan.bind, Plan.pure]
    | none => simp [Plan.bind, Plan.fail]

/-- the full statement the code does not meet: every byte of a verified file is determined by the signed TOC hash -/
def xar_every_byte_protected_full : Prop :=
  ∀ (C : Crypto) (E : Env), (∀ k a b, C.H k a = C.H k b → a = b) →
  ∀ (f f' : Bytes) (v v' : Verified), (verifyPlan E f false).run C = .ok v → (verifyPlan E f' false).run C = .ok v' →
    C.H v.hk (tocRegion f) = C.H v.hk (tocRegion f') → f = f'

example : gather [.mk { length := 5, hasData := true } [.mk { length := 7, hasData := true } []]] =
    [.mk { length := 5, hasData := true } [.mk { length := 7, hasData := true } []]] := by
  simp [gather]

end Relic.Props.C02

/-
  `Relic.Model.Appx.digest` / `assemble` characterised: what `DigestAppxTar` hands to `Sign` (AXPC so far = the
  payload prefix of the file), and the exact layout `Sign` + the binary patch produce, in terms of the entries and
  bytes of consecutive `NewFile` calls (`Relic.Zip.newEntries`) and of `WriteDirectory`.
-/
import Relic.Proofs.Appx
import Relic.Spec.AppxDigest
namespace Relic.Appx
open Relic Relic.Zip

/-! ### entries made by `ReadWithDirectory` are fresh -/

theorem readEntry_fresh {cd rest : Bytes} {f : File} (h : readEntry cd = .ok (f, rest)) : Fresh f ∧ f.raw ≠ [] := by
  unfold readEntry at h
  split at h
  · cases h
  next h46 =>
    simp only [] at h
    split at h
    · cases h
    · split at h
      · cases h
      · split at h
        · cases h
        · split at h
          · cases h
          · injection h with h
            injection h with h1 h2
            subst h1
            refine ⟨⟨rfl, rfl⟩, ?_⟩
            simp only []
            intro hc
            have := congrArg List.length hc
            rw [List.length_take] at this
            simp only [List.length_nil] at this
            omega

theorem readEntries_fresh : ∀ (fuel : Nat) (cd : Bytes) (fs : List File) (rest : Bytes),
    readEntries fuel cd = .ok (fs, rest) → ∀ f ∈ fs, Fresh f ∧ f.raw ≠ []
  | 0, _, _, _, h => by cases h
  | fuel + 1, cd, fs, rest, h => by
    unfold readEntries at h
    split at h
    · cases h
    · split at h
      · injection h with h
        injection h with h1 h2
        subst h1
        intro f hf; cases hf
      · split at h
        next f0 r0 h0 =>
          split at h
          next fs1 r1 h1 =>
            injection h with h
            injection h with e1 e2
            subst e1
            intro f hf
            rcases List.mem_cons.mp hf with rfl | hf
            · exact readEntry_fresh h0
            · exact readEntries_fresh fuel r0 fs1 r1 h1 f hf
          all_goals cases h
        all_goals cases h

theorem readWithDirectory_fresh {size : Nat} {cd : Bytes} {d : Directory} (h : readWithDirectory size cd = .ok d) :
    ∀ f ∈ d.files, Fresh f ∧ f.raw ≠ [] := by
  unfold readWithDirectory at h
  split at h
  next files tail h1 =>
    have := readEntries_fresh _ _ _ _ h1
    simp only [] at h
    split at h
    · injection h with h; subst h; exact this
    · split at h
      · injection h with h; subst h; exact this
      · cases h
  all_goals cases h

/-! ### `DigestAppxTar` -/

theorem mem_payloadOf {fs : List File} {f : File} (h : f ∈ payloadOf fs) : f ∈ fs :=
  (List.takeWhile_sublist _).subset h

/-- **digest_spec.** When `DigestAppxTar` succeeds: AXPC so far is exactly the first `patchStart` bytes of the input, the
    running directory offset of `outz` is `patchStart`, the members are laid out back to back from offset 0 to
    `patchStart`, and `outz` lists the input's own entries (offsets and raw bytes untouched). -/
theorem digest_spec {c : Codec} {z : Bytes} {g : Digested} (h : digest c z = .ok g) :
    g.p.axpc = z.take g.patchStart ∧ g.p.outz.dirLoc = g.patchStart ∧ g.patchStart ≤ z.length ∧
    g.p.outz.files = g.p.members.map (·.file) ∧ contigMs 0 g.p.members g.patchStart ∧
    (∀ f ∈ g.p.outz.files, f.raw ≠ []) := by
  unfold digest at h
  split at h
  next loc hl =>
    split at h
    · cases h
    · split at h
      next d hd =>
        have hfresh := readWithDirectory_fresh hd
        unfold digestDir at h
        split at h
        next p r hp =>
          have hinv0 : PInv z ({} : PState) := ⟨by simp, rfl, rfl, by simp⟩
          obtain ⟨i1, _, _, _, i5, i6, i7⟩ := payloadPass_spec (payloadOf d.files) ⟨z, true, 0⟩ r {} p rfl rfl
            (fun f hf => (hfresh f (mem_payloadOf hf)).1) hinv0 hp
          split at h
          · cases h
          next f0 tl htl =>
            split at h
            · cases h
            next hne =>
              have hpos : f0.offset = p.pos := by
                by_cases hq : f0.offset = p.pos
                · exact hq
                · exact absurd hq hne
              split at h
              next t ht =>
                split at h
                · cases h
                · injection h with h
                  subst h
                  simp only []
                  refine ⟨by rw [hpos]; exact i1.axpc, by rw [hpos]; exact i1.loc, by rw [hpos]; exact i1.le, i1.files,
                          by rw [hpos]; simpa using i7, ?_⟩
                  intro f hf
                  rw [i1.files] at hf
                  -- every member's entry is the input's entry with crc / lfh / ddb filled in: raw untouched
                  exact payload_raw (c := c) _ _ _ _ _ (fun f hf => (hfresh f (mem_payloadOf hf))) (by simp) hp f hf
              all_goals cases h
        all_goals cases h
      all_goals cases h
  all_goals cases h
where
  payload_raw {c : Codec} : ∀ (fs : List File) (r r' : Rd) (s s' : PState),
      (∀ f ∈ fs, Fresh f ∧ f.raw ≠ []) → (∀ m ∈ s.members, m.file.raw ≠ []) →
      payloadPass c r fs s = .ok (s', r') → ∀ f ∈ s'.members.map (·.file), f.raw ≠ [] := by
    intro fs
    induction fs with
    | nil =>
      intro r r' s s' _ hm h
      unfold payloadPass at h
      injection h with h
      injection h with h1 h2
      subst h1
      intro f hf
      obtain ⟨m, hm1, rfl⟩ := List.mem_map.mp hf
      exact hm m hm1
    | cons f fs ih =>
      intro r r' s s' hfr hm h
      unfold payloadPass at h
      split at h
      next hd r1 h1 =>
        split at h
        · cases h
        · split at h
          · cases h
          · refine ih r1 r' (s.step c f hd) s' (fun g hg => hfr g (by simp [hg])) ?_ h
            intro m hm'
            simp only [PState.step, List.mem_append, List.mem_singleton] at hm'
            rcases hm' with hm' | rfl
            · exact hm m hm'
            · -- the member just measured
              unfold hashMember at h1
              split at h1
              · split at h1
                · cases h1
                · simp only [] at h1
                  split at h1
                  · split at h1
                    · split at h1
                      · cases h1
                      · split at h1
                        · injection h1 with h1
                          injection h1 with e1 e2
                          subst e1
                          exact (hfr f (by simp)).2
                        all_goals cases h1
                    all_goals cases h1
                  all_goals cases h1
              all_goals cases h1
      all_goals cases h

end Relic.Appx

namespace Relic.Appx
open Relic Relic.Zip

/-! ### `Sign` -/

theorem newFile_eq' (mt md : Nat) (d : Directory) (name extra compd : Bytes) (usize crc : Nat) (dfl ud : Bool) :
    newFile d name extra compd usize crc mt md dfl ud =
      (newBytes mt md ⟨name, extra, compd, usize, crc, dfl, ud⟩,
       { d with dirLoc := d.dirLoc + (newBytes mt md ⟨name, extra, compd, usize, crc, dfl, ud⟩).length,
                files := d.files ++ [newEntryAt mt md ⟨name, extra, compd, usize, crc, dfl, ud⟩ d.dirLoc] }) :=
  newFile_eq mt md d ⟨name, extra, compd, usize, crc, dfl, ud⟩

/-- the parts `Sign` regenerates before the signature, as `NewFile` requests -/
def partMembers (hasPE : Bool) (ps : Parts) : List NewMember :=
  [⟨sManifest, [], ps.manifest.plain, ps.manifest.plain.length, ps.manifest.crc, false, true⟩,
   ⟨sBlockMap, [], ps.blockmap.compd, ps.blockmap.plain.length, ps.blockmap.crc, true, true⟩,
   ⟨sCTypes, [], ps.ctypes.compd, ps.ctypes.plain.length, ps.ctypes.crc, true, false⟩] ++
  (if hasPE then [⟨sCatalog, [], ps.catalog.compd, ps.catalog.plain.length, ps.catalog.crc, true, false⟩] else [])

def sigMember (ps : Parts) : NewMember :=
  ⟨sSignature, [], ps.signature.compd, ps.signature.plain.length, ps.signature.crc, true, false⟩

/-- local file records of the regenerated parts -/
def partsBytes (g : Digested) (ps : Parts) : Bytes :=
  (newEntries ps.mt ps.md (partMembers g.p.hasPE ps) g.p.outz.dirLoc).2

/-- the directory when AXCD is taken: payload entries, then the regenerated parts -/
def d4Of (g : Digested) (ps : Parts) : Directory :=
  { g.p.outz with dirLoc := g.p.outz.dirLoc + (partsBytes g ps).length,
                  files := g.p.outz.files ++ (newEntries ps.mt ps.md (partMembers g.p.hasPE ps) g.p.outz.dirLoc).1 }

def sigBytes (ps : Parts) : Bytes := newBytes ps.mt ps.md (sigMember ps)

/-- the final directory: the same entries (as `WriteDirectory` left them) plus the signature part's -/
def d5Of (g : Digested) (ps : Parts) : Directory :=
  { d4Of g ps with dirLoc := (d4Of g ps).dirLoc + (sigBytes ps).length,
                   files := (headersOf (d4Of g ps).files).2 ++ [newEntryAt ps.mt ps.md (sigMember ps) (d4Of g ps).dirLoc] }

theorem assemble_ok {z : Bytes} {g : Digested} {ps : Parts} {r : Signed} (h : assemble z g ps = .ok r) :
    g.unverified = false ∧
    r.out = z.take g.patchStart ++ (partsBytes g ps ++ sigBytes ps ++
              ((writeDirectory (d5Of g ps) true).1 ++ (writeDirectory (d5Of g ps) true).2.1)) ∧
    r.streams = ⟨g.p.axpc ++ partsBytes g ps,
                 (writeDirectory (d4Of g ps) true).1 ++ (writeDirectory (d4Of g ps) true).2.1,
                 ps.ctypes.plain, ps.blockmap.plain, if g.p.hasPE then some ps.catalog.plain else none⟩ ∧
    r.sigOff = (d4Of g ps).dirLoc ∧ r.cdOff = (d5Of g ps).dirLoc := by
  unfold assemble at h
  simp only [addDeflated, newFile_eq'] at h
  split at h
  · cases h
  next hu =>
    have hu' : g.unverified = false := by
      cases hx : g.unverified
      · rfl
      · exact absurd hx hu
    refine ⟨hu', ?_⟩
    injection h with h
    subst h
    cases hpe : g.p.hasPE <;>
      simp [hpe, partsBytes, d4Of, d5Of, sigBytes, sigMember, partMembers, newEntries, writeDirectory, List.append_assoc,
            Nat.add_assoc]

end Relic.Appx

#!/usr/bin/env python3
"""mergekf.py <name>: append the known_findings entries an agent added in /tmp/wk/<name>/verif (by id+property)"""
import json, sys
n = sys.argv[1]
ours = json.load(open('/verif/known_findings.json'))
theirs = json.load(open('/tmp/wk/%s/verif/known_findings.json' % n))
have = {(e.get('id'), e.get('property'), e.get('status')) for e in ours}
ids = {(e.get('id'), e.get('property')) for e in ours}
for e in theirs:
    k = (e.get('id'), e.get('property'))
    if k not in ids:
        ours.append(e); ids.add(k); print("ADD", e.get('id'), e.get('property'), e.get('status'))
    else:
        o = next(x for x in ours if (x.get('id'), x.get('property')) == k)
        if o != e:
            print("DIFFERS (kept ours)", k, "ours:", o.get('status'), "theirs:", e.get('status'))
json.dump(ours, open('/verif/known_findings.json', 'w'), indent=1)

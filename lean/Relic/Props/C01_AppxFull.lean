/-
  C01 (APPX), end to end: relic's verifier accepts what relic's signer wrote (`appx_sign_then_verify_zip`), under explicit
  hypotheses; the statement `appx_sign_then_verify_full` of C01_Appx.lean, which has none of them, is false
  (`not_appx_sign_then_verify_full`).
  Proofs: Relic/Proofs/ZipOwn.lean (ZIP round trip on relic's own output), Relic/Proofs/AppxVerify.lean,
  Relic/Proofs/AppxRoundTrip.lean.
-/
import Relic.Props.C01_Appx
import Relic.Proofs.AppxRoundTrip
namespace Relic.Props.C01
open Relic Relic.Zip Relic.ZipOwn Relic.Appx

theorem sign_digest_unique {c : Codec} {z : Bytes} {ps : Parts} {r : Signed} (h : sign c z ps = .ok r) {g : Digested}
    (hg : digest c z = .ok g) : r.streams.axci.isSome = g.p.hasPE := by
  obtain ⟨g', hg', e⟩ := appx_catalog_iff_pe c z ps r h
  rw [hg] at hg'
  injection hg' with hg'
  rw [e, hg']

/-- **appx_sign_then_verify_zip.** For every codec, package and regenerated parts: if relic signs (`sign c z ps = .ok r`), then
    relic's verifier accepts the output under the signed streams and the marshalled block map — with the SAME codec —
    provided that
    * the deflated parts the verifier inflates are coherent with the codec (block map, content types, and the catalog when
      one is written; the manifest is stored; the signature part is not inflated by `verify`);
    * the manifest is not empty and the block map's 24-byte descriptor is not taken for a 16-byte one (F7a:
      `descWideOk`, true whenever the block map is not empty and its deflated form is below 4 GiB);
    * the sizes of the regenerated parts and the signature's uncompressed length fit 64 bits; the output is below 2^63.
      (Since fix 7d5f1c2 NO 4 GiB limit: `WriteDirectory` leaves the directory as it was — `write_directory_idempotent` of C17 —
      so the directory hashed for AXCD is the directory written also when parts or the signature part lie at or beyond
      0xffffffff.  Before that fix the ZIP64 field was prepended a second time: `write_directory_twice_prepends_twice_orig`.)
    * no payload member is named `*.appx` (F41: `blockMap.AddFile` leaves it out, `verifyBlockMap` demands it).
    No hypothesis about the payload members otherwise (whatever the forward pass read during signing is read again, at
    the same offsets, by the random-access reader), none about PE members (`verify` carries fix-F19). -/
theorem appx_sign_then_verify_zip (c : Codec) (z : Bytes) (ps : Parts) (r : Signed) (hsign : sign c z ps = .ok r)
    (hbm : c.inflate ps.blockmap.compd = some ps.blockmap.plain)
    (hct : c.inflate ps.ctypes.compd = some ps.ctypes.plain)
    (hcat : r.streams.axci.isSome = true → c.inflate ps.catalog.compd = some ps.catalog.plain)
    (hman : ps.manifest.plain ≠ [] ∧ ps.manifest.plain.length < 2 ^ 64)
    (hbms : descWideOk ps.blockmap.compd.length ps.blockmap.plain.length ∧
      ps.blockmap.compd.length < 2 ^ 64 ∧ ps.blockmap.plain.length < 2 ^ 64)
    (hcts : ps.ctypes.compd.length < 2 ^ 64 ∧ ps.ctypes.plain.length < 2 ^ 64)
    (hcats : r.streams.axci.isSome = true → ps.catalog.compd.length < 2 ^ 64 ∧ ps.catalog.plain.length < 2 ^ 64)
    (hsigs : ps.signature.plain.length < 2 ^ 64)
    (h63 : r.out.length < 2 ^ 63)
    (happx : ∀ g, digest c z = .ok g → ∀ m ∈ g.p.members, endsWith m.file.name sAppx = false) :
    verify c r.out r.streams (some r.bm) = .ok () := by
  have hsmall : ∀ g, digest c z = .ok g → PartsSmall g.p.hasPE ps := by
    intro g hg n hn
    have hpe := sign_digest_unique hsign hg
    cases hb : g.p.hasPE <;> simp only [partMembers, hb, List.append_nil, List.cons_append, List.nil_append, List.mem_cons,
      List.not_mem_nil, or_false, if_true, if_false, Bool.false_eq_true] at hn
    · rcases hn with rfl | rfl | rfl
      · exact ⟨hman.2, hman.2⟩
      · exact ⟨hbms.2.1, hbms.2.2⟩
      · exact hcts
    · rcases hn with rfl | rfl | rfl | rfl
      · exact ⟨hman.2, hman.2⟩
      · exact ⟨hbms.2.1, hbms.2.2⟩
      · exact hcts
      · exact hcats (by rw [hpe, hb])
  exact sign_then_verify ⟨hsign, hman.1, hbms.1, hsmall, hsigs, h63⟩ hbm hct
    (fun g hg hb => hcat (by rw [sign_digest_unique hsign hg, hb])) happx


/-! ### non-vacuity -/

/-- a codec that inflates the three deflated parts of `C05.psEx` -/
def cW : Codec :=
  { inflate := fun x => if x = [3, 0] then some [66] else if x = [3, 1] then some [67]
      else if x = [9, 9] then some [80, 75, 67, 88] else none,
    peOk := fun _ => true, manifestOk := fun _ => true, blockMap := fun _ => none, ctypesOk := fun _ => true }

theorem okAnd_ok {α} {r : Res α} {p : α → Bool} (h : C05.okAnd r p = true) : ∃ a, r = .ok a ∧ p a = true := by
  cases r <;> simp [C05.okAnd] at h
  exact ⟨_, rfl, h⟩

set_option maxRecDepth 20000 in
/-- the hypotheses of `appx_sign_then_verify_zip` hold for the witness package of C05 (one payload member, no catalog), so the
    verifier accepts its signed form -/
example : ∃ r, sign cW C05.zEx C05.psEx = .ok r ∧ verify cW r.out r.streams (some r.bm) = .ok () := by
  have h : C05.okAnd (sign cW C05.zEx C05.psEx) (fun r => r.streams.axci.isNone &&
      decide (r.out.length < 2 ^ 63)) = true := by decide
  obtain ⟨r, hr, hp⟩ := okAnd_ok h
  simp only [Bool.and_eq_true, decide_eq_true_eq] at hp
  obtain ⟨h1, h3⟩ := hp
  have hnone : ¬ r.streams.axci.isSome = true := by
    cases hx : r.streams.axci <;> simp [hx] at h1 ⊢
  have hd : C05.okAnd (digest cW C05.zEx) (fun g => g.p.members.all fun m => !endsWith m.file.name sAppx) = true := by decide
  refine ⟨r, hr, appx_sign_then_verify_zip cW C05.zEx C05.psEx r hr (by decide) (by decide) (fun hc => absurd hc hnone)
    (by decide) ⟨by unfold descWideOk; decide, by decide, by decide⟩ (by decide) (fun hc => absurd hc hnone) (by decide) h3 ?_⟩
  intro g hg m hm
  rw [hg] at hd
  simp only [C05.okAnd, List.all_eq_true, Bool.not_eq_true'] at hd
  exact hd m hm


/-! ### the statement without hypotheses is false -/

/-- whatever the codec: an accepting `verify` has recomputed the signed AXPC and AXCD with `verifyMeta`, which does not
    use the codec -/
theorem verify_ok_meta {c : Codec} {out : Bytes} {s : Streams} {bm : Option (List BmFile)} (h : verify c out s bm = .ok ()) :
    ∃ cd, verifyMeta out = .ok (s.axpc, cd) := by
  unfold verify at h
  split at h
  · split at h
    · cases h
    · split at h
      · split at h
        · split at h
          · split at h
            · cases h
            · split at h
              · split at h
                next pc cd hm =>
                  split at h
                  · cases h
                  next h1 =>
                    refine ⟨cd, ?_⟩
                    have : pc = s.axpc := by
                      by_cases hq : pc = s.axpc
                      · exact hq
                      · exact absurd hq h1
                    rw [hm, this]
                all_goals cases h
              all_goals cases h
          all_goals cases h
        all_goals cases h
      all_goals cases h
  all_goals cases h

/-- witness: one stored member `a.exe` (so that a catalog is written) and a stored `AppxManifest.xml` -/
def zX : Bytes := [80, 75, 3, 4, 20, 0, 0, 0, 0, 0, 0, 0, 0, 0, 153, 40, 230, 143, 2, 0, 0, 0, 2, 0, 0, 0, 5, 0, 0, 0, 97, 46, 101, 120, 101, 120, 121, 80, 75, 3, 4, 20, 0, 0, 0, 0, 0, 0, 0, 0, 0, 115, 147, 120, 36, 4, 0, 0, 0, 4, 0, 0, 0, 16, 0, 0, 0, 65, 112, 112, 120, 77, 97, 110, 105, 102, 101, 115, 116, 46, 120, 109, 108, 60, 80, 47, 62, 80, 75, 1, 2, 20, 0, 20, 0, 0, 0, 0, 0, 0, 0, 0, 0, 153, 40, 230, 143, 2, 0, 0, 0, 2, 0, 0, 0, 5, 0, 0, 0, 0, 0, 0, 0, 0, 0, 0, 0, 0, 0, 0, 0, 0, 0, 97, 46, 101, 120, 101, 80, 75, 1, 2, 20, 0, 20, 0, 0, 0, 0, 0, 0, 0, 0, 0, 115, 147, 120, 36, 4, 0, 0, 0, 4, 0, 0, 0, 16, 0, 0, 0, 0, 0, 0, 0, 0, 0, 0, 0, 0, 0, 37, 0, 0, 0, 65, 112, 112, 120, 77, 97, 110, 105, 102, 101, 115, 116, 46, 120, 109, 108, 80, 75, 5, 6, 0, 0, 0, 0, 2, 0, 2, 0, 113, 0, 0, 0, 87, 0, 0, 0, 0, 0]

/-- witness parts: an EMPTY manifest part (24-byte descriptor, uncompressed size 0: F7a) -/
def psX : Parts := ⟨⟨[], [], 0⟩, ⟨[66], [3, 0], 1⟩, ⟨[67], [3, 1], 2⟩, ⟨[68], [3, 2], 4⟩, ⟨[80, 75, 67, 88], [9, 9], 3⟩, 0, 33⟩

set_option maxRecDepth 20000 in
/-- **not_appx_sign_then_verify_full.** The unconditional statement of C01_Appx.lean is false: the model signs `zX` with an
    empty manifest part, and no codec makes the verifier accept the result, because `verifyMeta` — which uses no codec —
    takes the 24-byte descriptor of the empty manifest for a 16-byte one (F7a) and recomputes an AXPC that is 8 bytes short.
    (The statement is mis-stated rather than a new defect of the code: relic never writes an empty manifest.  Other
    ways to falsify it: parts that no single `inflate` explains, a `*.appx` payload member (F41), parts ≥ 4 GiB.) -/
theorem not_appx_sign_then_verify_full : ¬ appx_sign_then_verify_full := by
  intro hfull
  have h : C05.okAnd (sign C05.cEx zX psX) (fun r => match verifyMeta r.out with
      | .ok (pc, _) => pc != r.streams.axpc
      | _ => true) = true := by decide
  obtain ⟨r, hr, hp⟩ := okAnd_ok h
  have hd : C05.okAnd (digest C05.cEx zX) (fun g => g.p.hasPE) = true := by decide
  obtain ⟨g, hg, hpe⟩ := okAnd_ok hd
  obtain ⟨c', hv⟩ := hfull C05.cEx zX psX r hr ⟨g, hg, hpe⟩
  obtain ⟨cd, hm⟩ := verify_ok_meta hv
  rw [hm] at hp
  simp at hp

end Relic.Props.C01

/-
  Relic.Model.SignFlow — a small sequential language for the control flow of relic's signing
  entry points (server.(*Server).serveSign, cmdline/token.signCmd, signinit.PublishAudit,
  audit.(*Info).AppendTo), its semantics under a *fault oracle*, and a decidable
  all-paths checker (`wp`).  Terms of this language are re-emitted from the Go source on every
  run by tools/extractflow into Relic/Generated/SignFlow.lean.

  Core Lean only.
-/
namespace Relic.SignFlow

/-- audit sinks relic knows: the AMQP exchange and the audit log file -/
inductive Sink | amqp | file
  deriving DecidableEq, Repr

/-- callees that matter, everything else is `other` -/
inductive Prim
  | init                              -- signinit.Init (creates the audit record)
  | sign                              -- mod.Sign
  | publishAudit                      -- signinit.PublishAudit (interpreted by running its extracted body)
  | publishAmqp                       -- (*audit.Info).Publish
  | appendTo                          -- (*audit.Info).AppendTo
  | openFile (flags : List String)    -- os.OpenFile
  | marshal                           -- (*audit.Info).Marshal
  | write (arg : String)              -- (*os.File).Write of a symbolic value
  | responseWrite                     -- any use of the http.ResponseWriter other than rw.Header()
  | apply                             -- transform.Apply (standalone: writes the signed output)
  | other (name : String)
  deriving DecidableEq, Repr

inductive Cond
  | err                               -- `err != nil` on the most recently assigned error
  | notErr                            -- `err == nil`
  | configured (s : Sink)             -- the configuration test guarding a sink
  | opaque (what : String)            -- anything else: both branches possible
  deriving DecidableEq, Repr

/-- what a `return` statement returns as its error result -/
inductive RetK | nil | err | lastErr | unknown
  deriving DecidableEq, Repr

inductive Stmt
  | skip
  | call (p : Prim) (assignsErr : Bool)   -- call; `assignsErr` when its error result is stored in `err`
  | ret (k : RetK)
  | seq (a b : Stmt)
  | ite (c : Cond) (t e : Stmt)
  | block (b : Stmt)                     -- block that declares its own `err` (restored on exit)
  | loop (b : Stmt)
  deriving Repr

/-- right-nested sequencing of a statement list (what the extractor emits for a Go block) -/
def Stmt.seqs : List Stmt → Stmt
  | [] => .skip
  | [a] => a
  | a :: rest => .seq a (Stmt.seqs rest)

/-- which expressions carry the audit record (extracted next to the control flow) -/
structure DataFlow where
  initOpts : String      -- variable receiving the `*signers.SignOpts` returned by signinit.Init
  signArg : String       -- last argument of mod.Sign
  auditArg : String      -- argument of signinit.PublishAudit
  reassigned : Bool      -- `initOpts` assigned again after Init
  deriving Repr, DecidableEq

/-- the record published is the one `Init` created and `Sign` amended -/
def DataFlow.sameRecord (d : DataFlow) : Bool :=
  d.initOpts != "" && d.signArg == "*" ++ d.initOpts && d.auditArg == d.initOpts ++ ".Audit" && !d.reassigned

/-- the spellings used in DESIGN.md -/
abbrev Stmt.returnNil : Stmt := .ret .nil
abbrev Stmt.returnErr : Stmt := .ret .err
abbrev Stmt.ifErrReturn : Stmt := .ite .err (.ret .lastErr) .skip
abbrev Stmt.writeRw : Stmt := .call .responseWrite true

/-- observable events -/
inductive Ev
  | signed
  | delivered (s : Sink)
  | sinkFailed (s : Sink)
  | response
  | applied
  | opened (flags : List String)
  | wrote (arg : String) (ok : Bool)
  deriving DecidableEq, Repr

inductive Out | norm | retNil | retErr
  deriving DecidableEq, Repr

structure Cfg where
  amqp : Bool
  file : Bool
  deriving DecidableEq, Repr

def Cfg.has (c : Cfg) : Sink → Bool
  | .amqp => c.amqp
  | .file => c.file

def allCfgs : List Cfg := [⟨false, false⟩, ⟨false, true⟩, ⟨true, false⟩, ⟨true, true⟩]

theorem mem_allCfgs (c : Cfg) : c ∈ allCfgs := by
  cases c with | mk a f => cases a <;> cases f <;> simp [allCfgs]

structure St where
  trace : List Ev
  lastErr : Bool
  deriving DecidableEq, Repr

/-- The fault oracle: one number per fallible primitive / opaque decision, `0` = "no fault" /
    "condition false" (the default once the script is exhausted), for `loop` the iteration count. -/
abbrev Script := List Nat

def next : Script → Nat × Script
  | [] => (0, [])
  | n :: r => (n, r)

/-- events of a primitive that succeeded / failed -/
def evOk : Prim → List Ev
  | .sign => [.signed]
  | .publishAmqp => [.delivered .amqp]
  | .appendTo => [.delivered .file]
  | .openFile fl => [.opened fl]
  | .write a => [.wrote a true]
  | .responseWrite => [.response]
  | .apply => [.applied]
  | _ => []

def evFail : Prim → List Ev
  | .publishAmqp => [.sinkFailed .amqp]
  | .appendTo => [.sinkFailed .file]
  | .write a => [.wrote a false]
  | .responseWrite => [.response]      -- a failed body write may have emitted part of the body
  | _ => []

/-- calls that cannot be observed at all are no-ops (and consume no oracle entry) -/
def inert (p : Prim) (assigns : Bool) : Bool :=
  match p, assigns with
  | .other _, false => true
  | _, _ => false

def stepPrim (p : Prim) (assigns failed : Bool) (s : St) : St :=
  { trace := s.trace ++ (if failed then evFail p else evOk p),
    lastErr := if assigns then failed else s.lastErr }

def condVal (cfg : Cfg) (s : St) : Cond → Option Bool
  | .err => some s.lastErr
  | .notErr => some (!s.lastErr)
  | .configured k => some (cfg.has k)
  | .opaque _ => none

/-- interpretation of the `publishAudit` primitive: trace in, oracle ↦ trace out, failed? -/
abbrev PA := List Ev → Script → List Ev × Bool × Script

def iter (f : St → Script → St × Out × Script) : Nat → St → Script → St × Out × Script
  | 0, s, sc => (s, .norm, sc)
  | n + 1, s, sc =>
    match f s sc with
    | (s', .norm, sc') => iter f n s' sc'
    | r => r

/-- big-step semantics under a fault script -/
def exec (pa : PA) (cfg : Cfg) : Stmt → St → Script → St × Out × Script
  | .skip, s, sc => (s, .norm, sc)
  | .call p assigns, s, sc =>
    if inert p assigns then (s, .norm, sc)
    else if p = .publishAudit then
      match pa s.trace sc with
      | (tr, failed, sc') => ({ trace := tr, lastErr := if assigns then failed else s.lastErr }, .norm, sc')
    else
      match next sc with
      | (n, sc') => (stepPrim p assigns (n != 0) s, .norm, sc')
  | .ret .nil, s, sc => (s, .retNil, sc)
  | .ret .err, s, sc => (s, .retErr, sc)
  | .ret .lastErr, s, sc => (s, if s.lastErr then .retErr else .retNil, sc)
  | .ret .unknown, s, sc =>
    match next sc with
    | (n, sc') => (s, if n != 0 then .retErr else .retNil, sc')
  | .seq a b, s, sc =>
    match exec pa cfg a s sc with
    | (s', .norm, sc') => exec pa cfg b s' sc'
    | r => r
  | .ite c t e, s, sc =>
    match condVal cfg s c with
    | some true => exec pa cfg t s sc
    | some false => exec pa cfg e s sc
    | none =>
      match next sc with
      | (n, sc') => if n != 0 then exec pa cfg t s sc' else exec pa cfg e s sc'
  | .block b, s, sc =>
    match exec pa cfg b s sc with
    | (s', o, sc') => ({ s' with lastErr := s.lastErr }, o, sc')
  | .loop b, s, sc =>
    match next sc with
    | (n, sc') => iter (exec pa cfg b) n s sc'

/-- continuation-style all-paths checker: `wp paw cfg p k s = true` means that `k` holds of the
    outcome of *every* execution of `p` from `s` (every fault script).  `paw` is the checker of the
    `publishAudit` interpretation.  Loops are rejected (none of the four functions has one). -/
abbrev PAW := List Ev → (List Ev → Bool → Bool) → Bool

def wp (paw : PAW) (cfg : Cfg) : Stmt → (Out → St → Bool) → St → Bool
  | .skip, k, s => k .norm s
  | .call p assigns, k, s =>
    if inert p assigns then k .norm s
    else if p = .publishAudit then
      paw s.trace (fun tr failed => k .norm { trace := tr, lastErr := if assigns then failed else s.lastErr })
    else
      k .norm (stepPrim p assigns false s) && k .norm (stepPrim p assigns true s)
  | .ret .nil, k, s => k .retNil s
  | .ret .err, k, s => k .retErr s
  | .ret .lastErr, k, s => k (if s.lastErr then .retErr else .retNil) s
  | .ret .unknown, k, s => k .retNil s && k .retErr s
  | .seq a b, k, s => wp paw cfg a (fun o s' => if o = .norm then wp paw cfg b k s' else k o s') s
  | .ite c t e, k, s =>
    match condVal cfg s c with
    | some true => wp paw cfg t k s
    | some false => wp paw cfg e k s
    | none => wp paw cfg t k s && wp paw cfg e k s
  | .block b, k, s => wp paw cfg b (fun o s' => k o { s' with lastErr := s.lastErr }) s
  | .loop _, _, _ => false

/-- `paw` is a sound checker for `pa` -/
def PASound (pa : PA) (paw : PAW) : Prop :=
  ∀ tr k, paw tr k = true → ∀ sc, k (pa tr sc).1 (pa tr sc).2.1 = true

theorem wp_sound (pa : PA) (paw : PAW) (hpa : PASound pa paw) (cfg : Cfg) (p : Stmt) :
    ∀ (k : Out → St → Bool) (s : St), wp paw cfg p k s = true →
      ∀ sc, k (exec pa cfg p s sc).2.1 (exec pa cfg p s sc).1 = true := by
  induction p with
  | skip => intro k s h sc; simpa [wp, exec] using h
  | call p assigns =>
    intro k s h sc
    simp only [wp] at h
    simp only [exec]
    by_cases hi : inert p assigns = true
    · simpa [hi] using h
    · simp only [hi] at h ⊢
      by_cases hp : p = .publishAudit
      · simp only [hp, if_true] at h ⊢
        have := hpa _ _ h sc
        simpa using this
      · simp only [hp, if_false, Bool.false_eq_true, Bool.and_eq_true] at h ⊢
        cases hn : (next sc).1 != 0
        · simpa [hn] using h.1
        · simpa [hn] using h.2
  | ret r =>
    intro k s h sc
    cases r with
    | nil => simpa [wp, exec] using h
    | err => simpa [wp, exec] using h
    | lastErr => simpa [wp, exec] using h
    | unknown =>
      simp only [wp, Bool.and_eq_true] at h
      simp only [exec]
      cases hn : (next sc).1 != 0
      · simpa [hn] using h.1
      · simpa [hn] using h.2
  | seq a b iha ihb =>
    intro k s h sc
    simp only [wp] at h
    have ha := iha _ _ h sc
    simp only [exec]
    generalize exec pa cfg a s sc = r at ha
    obtain ⟨s', o, sc'⟩ := r
    cases o with
    | norm => simp only [if_true] at ha; exact ihb _ _ ha sc'
    | retNil => simpa using ha
    | retErr => simpa using ha
  | ite c t e iht ihe =>
    intro k s h sc
    simp only [wp] at h
    simp only [exec]
    cases hc : condVal cfg s c with
    | some b =>
      cases b with
      | true => simp only [hc] at h ⊢; exact iht _ _ h sc
      | false => simp only [hc] at h ⊢; exact ihe _ _ h sc
    | none =>
      simp only [hc, Bool.and_eq_true] at h ⊢
      generalize next sc = r
      obtain ⟨n, sc'⟩ := r
      by_cases hn : (n != 0) = true
      · simp only [hn, if_true]; exact iht _ _ h.1 _
      · simp only [hn]; exact ihe _ _ h.2 _
  | block b ih =>
    intro k s h sc
    simp only [wp] at h
    have := ih _ _ h sc
    simpa [exec] using this
  | loop b _ => intro k s h; simp [wp] at h

/-! ### the two interpretations of `publishAudit` -/

/-- inside the callee itself (or when nothing is known): an opaque fallible call -/
def paLeaf : PA := fun tr sc => (tr, (next sc).1 != 0, (next sc).2)
def pawLeaf : PAW := fun tr k => k tr false && k tr true

theorem paLeaf_sound : PASound paLeaf pawLeaf := by
  intro tr k h sc
  simp only [pawLeaf, Bool.and_eq_true] at h
  simp only [paLeaf]
  cases hn : (next sc).1 != 0
  · exact h.1
  · exact h.2

/-- in a caller: run the extracted body `q` of PublishAudit (own `err`, shared trace and oracle) -/
def paBody (cfg : Cfg) (q : Stmt) : PA := fun tr sc =>
  match exec paLeaf cfg q ⟨tr, false⟩ sc with
  | (s', o, sc') => (s'.trace, o == .retErr, sc')

def pawBody (cfg : Cfg) (q : Stmt) : PAW := fun tr k =>
  wp pawLeaf cfg q (fun o s' => o != .norm && k s'.trace (o == .retErr)) ⟨tr, false⟩

theorem paBody_sound (cfg : Cfg) (q : Stmt) : PASound (paBody cfg q) (pawBody cfg q) := by
  intro tr k h sc
  have := wp_sound paLeaf pawLeaf paLeaf_sound cfg q _ _ h sc
  simp only [Bool.and_eq_true] at this
  simpa [paBody] using this.2

structure Result where
  trace : List Ev
  out : Out
  deriving Repr

def s0 : St := ⟨[], false⟩

/-- run entry point `p` with `PublishAudit` bound to `q`, sink configuration `cfg`, fault script `sc` -/
def runTop (cfg : Cfg) (q p : Stmt) (sc : Script) : Result :=
  match exec (paBody cfg q) cfg p s0 sc with
  | (s, o, _) => ⟨s.trace, o⟩

/-- run a leaf function (AppendTo) on its own -/
def runLeaf (r : Stmt) (sc : Script) : Result :=
  match exec paLeaf ⟨false, false⟩ r s0 sc with
  | (s, o, _) => ⟨s.trace, o⟩

/-! ### the property on traces (decidable) -/

def sinks : List Sink := [.amqp, .file]

/-- events before the first response write -/
def beforeResponse (tr : List Ev) : List Ev := tr.takeWhile (fun e => e != .response)

def deliveredOnce (cfg : Cfg) (tr : List Ev) : Bool :=
  sinks.all fun s => tr.count (.delivered s) == (if cfg.has s then 1 else 0)

def noSinkFailed (tr : List Ev) : Bool := sinks.all fun s => !tr.contains (.sinkFailed s)

def okSign (cfg : Cfg) (o : Out) (tr : List Ev) : Bool :=
  o != .norm
  && (!tr.contains .response || (deliveredOnce cfg (beforeResponse tr) && deliveredOnce cfg tr && noSinkFailed tr))
  && (!(o == .retNil && tr.contains .signed) || (deliveredOnce cfg tr && noSinkFailed tr))
  && (noSinkFailed tr || (!tr.contains .response && o == .retErr))

/-- **the generated obligation**: on every path through `p` (with PublishAudit = `q`), for every
    sink configuration, the final trace satisfies `okSign`. -/
def auditGuardsResponse (q p : Stmt) : Bool :=
  allCfgs.all fun cfg => wp (pawBody cfg q) cfg p (fun o s => okSign cfg o s.trace) s0

theorem auditGuardsResponse_sound (q p : Stmt) (h : auditGuardsResponse q p = true) (cfg : Cfg) (sc : Script) :
    okSign cfg (runTop cfg q p sc).out (runTop cfg q p sc).trace = true := by
  have hc := List.all_eq_true.mp h cfg (mem_allCfgs cfg)
  have := wp_sound (paBody cfg q) (pawBody cfg q) (paBody_sound cfg q) cfg p _ _ hc sc
  simpa [runTop] using this

/-! ### AppendTo: open with O_APPEND, exactly one Write of marshal ++ "\n" -/

def isFileEv : Ev → Bool
  | .opened _ => true
  | .wrote _ _ => true
  | _ => false

def isWrote : Ev → Bool
  | .wrote _ _ => true
  | _ => false

def lineArg : String := "marshal+nl"

def appendFlagsOk (fl : List String) : Bool :=
  fl.contains "O_APPEND" && (fl.contains "O_WRONLY" || fl.contains "O_RDWR") && !fl.contains "O_TRUNC"

def okAppend (o : Out) (tr : List Ev) : Bool :=
  let fe := tr.filter isFileEv
  o != .norm
  && (match fe with
      | [] => o == .retErr
      | [.opened fl] => appendFlagsOk fl && o == .retErr
      | [.opened fl, .wrote a ok] => appendFlagsOk fl && a == lineArg && (o == .retNil) == ok
      | _ => false)

def appendShape (r : Stmt) : Bool :=
  wp pawLeaf ⟨false, false⟩ r (fun o s => okAppend o s.trace) s0

theorem appendShape_sound (r : Stmt) (h : appendShape r = true) (sc : Script) :
    okAppend (runLeaf r sc).out (runLeaf r sc).trace = true := by
  have := wp_sound paLeaf pawLeaf paLeaf_sound ⟨false, false⟩ r _ _ h sc
  simpa [runLeaf] using this

end Relic.SignFlow

/-
  Relic.Model.Authz — executable model of relic's server-side authentication and
  key authorisation in certificate mode:

    config/config.go         GetKey, ListServedTokens, Normalize (client key check)
    config/client.go         ClientConfig.Match  (x509 path validation is the abstract `chainsTo`)
    internal/authmodel       Middleware, CertificateAuth.Authenticate, CertificateInfo.Allowed
    internal/realip          (Relic.Model.RealIP)
    server/server.go         New/openTokens (start-up), Handler (routes)
    server/view_sign.go      serveSign up to and including the token calls
    server/view_getkey.go    serveGetKey
    server/view_listkeys.go  serveListKeys
    internal/httperror       status codes / problem types

  The token layer is an event log (`getkey:<token>:<name>`, `sign:<token>:<name>`), so
  "before any token or key is touched" is a statement about that log.
  Go maps are modelled as association lists; where the code iterates over a map and stops
  at the first hit (`Authenticate` over CA clients) the model returns *every* possible
  outcome (`handle : … → List Outcome`, one per client the iteration could stop at).
  Policy (OPA) mode: Relic.Model.AuthzPolicy.  Core Lean only.
-/
import Relic.Base.Bytes
import Relic.Model.RealIP
namespace Relic.Authz
open Relic Relic.RealIP

/-- a client entry of `clients:`.  `key` is the map key (lower-cased by Normalize): the hex
    SHA-256 of the SPKI for fingerprint clients, anything for CA clients.
    `ca = some anchors`: `certificate:` is set and holds these trust anchors. -/
structure Client where
  key : String
  valid64 : Bool          -- len(key) == 64 (only checked by Normalize when no certificate is set)
  nick : String
  roles : List String
  ca : Option (List Nat)
  deriving Repr, DecidableEq

structure Key where
  name : String
  token : String
  alias : String
  roles : List String
  hide : Bool
  deriving Repr, DecidableEq

/-- the certificate chain a peer presented: fingerprint of the leaf SPKI and the set of trust
    anchors to which `x509.Verify(leaf, intermediates, ClientAuth)` finds a valid path
    (`anchors` is the abstract `chainsTo` relation, given as data) -/
structure Chain where
  fp : String
  anchors : List Nat
  deriving Repr, DecidableEq

structure Config where
  clients : List Client
  keys : List Key
  tokens : List String
  proxiesOK : Bool            -- every trusted_proxies entry parses
  inNets : String → Bool      -- ParseIP(addr) ≠ nil ∧ some trusted net contains it

/-- decoded `Ssl-Client-Cert` header -/
inductive HdrCert where
  | absent                       -- header missing or empty
  | bad                          -- URL-unescape or x509.ParseCertificate fails
  | certs (c : Option Chain)     -- PEM decodes; `none`: no CERTIFICATE block
  deriving Repr, DecidableEq

inductive Endpoint where
  | health | directory | home | listKeys
  | getKey (name : String)
  | sign (key : String) (hasFilename : Bool) (sigTypeKnown : Bool)
  deriving Repr, DecidableEq

structure Req where
  remoteAddr : String
  tls : Option Chain             -- req.TLS.PeerCertificates (none: no TLS or empty list)
  xff : List String              -- X-Forwarded-For header values
  sslCert : HdrCert
  ep : Endpoint
  deriving Repr, DecidableEq

/-- one call into the token layer -/
structure Event where
  op : String                    -- "getkey" | "sign"
  token : String
  key : String
  deriving Repr, DecidableEq

structure Resp where
  status : Nat
  problem : String := ""
  ip : String := ""              -- StripPort(req.RemoteAddr) after the realip middleware
  user : String := ""            -- name of the authenticated client ("" before authentication)
  keys : List String := []
  events : List Event := []      -- token event log
  deriving Repr, DecidableEq

inductive Outcome where
  | resp (r : Resp)
  | panic (site : String) (ip : String)   -- handler panics (RecoveryMiddleware turns it into a 500)
  | startErr (cls : String)               -- server construction refuses the configuration
  deriving Repr, DecidableEq

def Outcome.events : Outcome → List Event
  | .resp r => r.events
  | _ => []
def Outcome.is2xx : Outcome → Bool
  | .resp r => decide (200 ≤ r.status) && decide (r.status < 300)
  | _ => false
def Outcome.isPanic : Outcome → Bool
  | .panic _ _ => true
  | _ => false

/-! ### config.GetKey -/

def lookupKey (cfg : Config) (n : String) : Option Key := cfg.keys.find? (·.name == n)

/-- `config.GetKey`.  `fixed = false` is the code as found (046e39f): when the alias names no key the error message
    dereferences the nil result of the lookup.  `fixed = true` is the code after fix-F2.patch. -/
def getKeyWith (fixed : Bool) (cfg : Config) (n : String) : Res Key :=
  match lookupKey cfg n with
  | none => .err "key-not-found"
  | some k =>
    if k.alias ≠ "" then
      match lookupKey cfg k.alias with
      | none => if fixed then .err "alias-undefined" else .panic "config.GetKey:nil-alias"
      | some t => if t.token = "" then .err "no-token" else .ok t
    else if k.token = "" then .err "no-token" else .ok k

def getKey := getKeyWith true

/-! ### start-up: Normalize, realip.Middleware, openTokens -/

/-- `ListServedTokens` (as a list with possible repetitions) -/
def servedTokens (cfg : Config) : List String :=
  (cfg.keys.filter (fun k => !k.roles.isEmpty)).map (·.token)

def startCheck (cfg : Config) : Option String :=
  if cfg.clients.any (fun c => c.ca.isNone && !c.valid64) then some "clients"
  else if !cfg.proxiesOK then some "proxies"
  else if (servedTokens cfg).any (fun t => !cfg.tokens.contains t) then some "tokens"
  else none

/-- `s.tokens[name] != nil` -/
def tokenOpen (cfg : Config) (t : String) : Bool := (servedTokens cfg).contains t && cfg.tokens.contains t

/-! ### authentication (certificate mode) -/

/-- `ClientConfig.Match` -/
def chainsTo (ch : Chain) (c : Client) : Bool :=
  match c.ca with
  | none => false
  | some as => as.any (fun a => ch.anchors.contains a)

/-- every client `Authenticate` can end up with: the fingerprint entry if there is one,
    otherwise whichever CA client the map iteration reaches first -/
def candidates (cfg : Config) (ch : Chain) : List Client :=
  match cfg.clients.find? (·.key == ch.fp) with
  | some c => [c]
  | none => cfg.clients.filter (chainsTo ch)

/-- `realip.PeerCertificates` -/
def peerCerts (proxied : Bool) (req : Req) : Res (Option Chain) :=
  if !proxied then .ok req.tls
  else match req.sslCert with
    | .absent => .ok none
    | .bad => .err "ssl-client-cert"
    | .certs c => .ok c

/-- `CertificateInfo.Allowed` -/
def allowed (c : Client) (k : Key) : Bool := k.roles.any (fun r => c.roles.contains r)

/-- `user.Name`: the nickname, else the first 12 hex digits of the *presented* fingerprint (printed as `~fp`) -/
def userName (c : Client) (ch : Chain) : String := if c.nick = "" then "~" ++ ch.fp else c.nick

/-! ### views -/

def insertSorted (a : String) : List String → List String
  | [] => [a]
  | b :: bs => if a ≤ b then a :: b :: bs else b :: insertSorted a bs

/-- `sort.Strings` -/
def sortStrings : List String → List String
  | [] => []
  | a :: as => insertSorted a (sortStrings as)

/-- the loop body of serveListKeys -/
def listed (cfg : Config) (c : Client) (k : Key) : Bool :=
  if k.hide then false
  else if k.alias ≠ "" then
    match lookupKey cfg k.alias with
    | none => false
    | some t => !t.hide && allowed c t
  else !k.hide && allowed c k

def listKeys (cfg : Config) (c : Client) : List String :=
  sortStrings ((cfg.keys.filter (listed cfg c)).map (·.name))

def forbidden (ip user : String) : Outcome := .resp { status := 403, problem := "forbidden", ip, user }

def view (fixed : Bool) (cfg : Config) (c : Client) (user : String) (ip : String) : Endpoint → Outcome
  | .health | .directory | .home => .resp { status := 200, ip, user }
  | .listKeys => .resp { status := 200, ip, user, keys := listKeys cfg c }
  | .getKey n =>
    match getKeyWith fixed cfg n with
    | .ok kc =>
      if allowed c kc then
        if tokenOpen cfg kc.token then
          .resp { status := 200, ip, user, events := [⟨"getkey", kc.token, kc.name⟩] }
        else .resp { status := 500, problem := "missing-token", ip, user }
      else forbidden ip user
    | .panic s => .panic s ip
    | _ => forbidden ip user
  | .sign n hasFile sigOK =>
    if n = "" then .resp { status := 400, problem := "missing-parameter", ip, user }
    else if !hasFile then .resp { status := 400, problem := "missing-parameter", ip, user }
    else match getKeyWith fixed cfg n with
      | .ok kc =>
        if allowed c kc then
          if !sigOK then .resp { status := 400, problem := "unknown-signature-type", ip, user }
          else if tokenOpen cfg kc.token then
            .resp { status := 200, ip, user,
                    events := [⟨"getkey", kc.token, kc.name⟩, ⟨"sign", kc.token, kc.name⟩] }
          else .resp { status := 500, problem := "missing-token", ip, user }
        else forbidden ip user
      | .panic s => .panic s ip
      | _ => forbidden ip user

def Endpoint.isPublic : Endpoint → Bool
  | .health | .directory => true
  | _ => false

/-- what the rest of the server sees of the transport: derived address, and the certificates
    `PeerCertificates` would return -/
def transportView (cfg : Config) (req : Req) : String × Res (Option Chain) :=
  let (addr, proxied) := trustedClient cfg.inNets req.remoteAddr req.xff
  (stripPort addr, peerCerts proxied req)

/-- the whole server: start-up, realip, routing, authentication middleware, view.
    One outcome per client the map iteration in `Authenticate` could select. -/
def handleWith (fixed : Bool) (cfg : Config) (req : Req) : List Outcome :=
  match startCheck cfg with
  | some e => [.startErr e]
  | none =>
    let (ip, pc) := transportView cfg req
    if req.ep.isPublic then
      -- /health marks itself DontLog: no address is recorded at all
      [.resp { status := 200, ip := if req.ep = .health then "" else ip }]
    else match pc with
      | .ok none => [.resp { status := 401, problem := "certificate-required", ip }]
      | .ok (some ch) =>
        match candidates cfg ch with
        | [] => [.resp { status := 401, problem := "certificate-not-recognized", ip }]
        | cs => cs.map fun c => view fixed cfg c (userName c ch) ip req.ep
      | _ => [.resp { status := 500, problem := "unhandled", ip }]

def handle := handleWith true

/-! ### specification-side notions (used by the theorems and by the driver's ground-truth tag) -/

/-- the key a name stands for: one alias hop -/
def resolve (cfg : Config) (n : String) : Option Key :=
  match lookupKey cfg n with
  | none => none
  | some k => if k.alias = "" then some k else lookupKey cfg k.alias

/-- the configuration recognises the presenter of `ch` as client `c` -/
def recognises (c : Client) (ch : Chain) : Bool := c.key == ch.fp || chainsTo ch c

def sharesRole (c : Client) (k : Key) : Bool := c.roles.any (fun r => k.roles.contains r)

/-- the certificates that count as presented by the caller: the TLS peer chain, unless the direct peer is
    a trusted proxy that relays a forwarded-for hop, in which case the proxy's `Ssl-Client-Cert` -/
def presented (cfg : Config) (req : Req) : Option Chain :=
  match (transportView cfg req).2 with
  | .ok c => c
  | _ => none

def Endpoint.keyName : Endpoint → Option String
  | .getKey n => some n
  | .sign n _ _ => some n
  | _ => none

/-- ground truth of the property for client `c`: may `c` use the key that `n` resolves to? -/
def entitled (cfg : Config) (c : Client) (n : String) : Bool :=
  match resolve cfg n with
  | some t => sharesRole c t
  | none => false

/-- a name is hidden if its own entry or the entry it is an alias of says so -/
def hidden (cfg : Config) (k : Key) : Bool :=
  k.hide || (if k.alias = "" then false else match lookupKey cfg k.alias with | some t => t.hide | none => false)

/-- would `/sign?key=n` pass authorisation (reach the token) for client `c` -/
def signAuthorised (cfg : Config) (c : Client) (n : String) : Bool :=
  match getKey cfg n with
  | .ok kc => allowed c kc
  | _ => false

/-- specification of the listing: sorted non-hidden names for which /sign would pass authorisation -/
def specList (cfg : Config) (c : Client) : List String :=
  sortStrings ((cfg.keys.filter fun k => !hidden cfg k && signAuthorised cfg c k.name).map (·.name))

/-- the malformed entries of the property text -/
def malformed (cfg : Config) (n : String) : Bool :=
  match lookupKey cfg n with
  | none => false
  | some k =>
    if k.alias ≠ "" then
      match lookupKey cfg k.alias with
      | none => true                       -- dangling alias
      | some t => t.token == ""            -- alias of an alias (or of any entry) that has no token
    else k.token == ""                     -- key without token

/-! ### the property as predicates (statement level; not executed) -/

/-- the caller presented a certificate the configuration recognises as some client that shares a role with
    the key the requested name resolves to (one alias hop) -/
def Entitled (cfg : Config) (req : Req) (n : String) : Prop :=
  ∃ ch c t, presented cfg req = some ch ∧ c ∈ cfg.clients ∧ recognises c ch = true ∧
    resolve cfg n = some t ∧ (∃ r, r ∈ c.roles ∧ r ∈ t.roles)

/-- the same with the witnesses exposed, plus: the token calls go to the resolved key's token -/
def EntitledFor (cfg : Config) (req : Req) (n : String) (o : Outcome) : Prop :=
  ∃ ch c t, presented cfg req = some ch ∧ c ∈ cfg.clients ∧ recognises c ch = true ∧
    resolve cfg n = some t ∧ (∃ r, r ∈ c.roles ∧ r ∈ t.roles) ∧ ∀ e ∈ o.events, e.token = t.token ∧ e.key = t.name

/-- a request is refused: nothing was signed or disclosed, no token was touched, and the answer is one of
    the refusal codes.  400 only for a missing `key`/`filename` parameter (checked before authorisation);
    500 only when a trusted proxy's `Ssl-Client-Cert` header does not decode. -/
def Refused (req : Req) : Outcome → Prop
  | .startErr _ => True
  | .panic _ _ => False
  | .resp r => r.events = [] ∧ r.keys = [] ∧
      (r.status = 401 ∨ r.status = 403 ∨ (r.status = 400 ∧ r.problem = "missing-parameter") ∨
       (r.status = 500 ∧ r.problem = "unhandled" ∧ req.sslCert = .bad))

end Relic.Authz

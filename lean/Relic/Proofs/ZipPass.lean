/-
  Relic.Proofs.ZipPass — the single forward pass of the rewriters (`passMembers` over the stream reader)
  measures every member as random access does (`passMember_ra`, `passMembers_measured`).
-/
import Relic.Proofs.ZipMangle
namespace Relic.Zip
open Relic Relic.SpecZip

theorem readAt_st_some {z : Bytes} {p off n : Nat} {b : Bytes} {r : Rd} (h : (ST z p).readAt off n = .ok (b, r)) :
    off < 2 ^ 63 ∧ p ≤ off ∧ off + n ≤ z.length ∧ b = (z.drop off).take n ∧ r = ST z (off + n) := by
  unfold Rd.readAt at h
  by_cases c1 : off ≥ 2 ^ 63
  · rw [if_pos c1] at h; cases h
  · rw [if_neg c1] at h
    simp only [if_true] at h
    by_cases c2 : off < p
    · rw [if_pos c2] at h; cases h
    · rw [if_neg c2] at h
      by_cases c3 : off + n ≤ z.length
      · rw [if_pos c3] at h
        simp only [Res.ok.injEq, Prod.mk.injEq] at h
        exact ⟨by omega, by omega, c3, h.1.symm, h.2.symm⟩
      · rw [if_neg c3] at h; cases h

theorem readAt_st_ra {z : Bytes} {p off n : Nat} {b : Bytes} {r : Rd} (hn : n ≠ 0) (h : (ST z p).readAt off n = .ok (b, r)) :
    (RA z).readAt off n = .ok (b, RA z) ∧ r = ST z (off + n) := by
  obtain ⟨h1, _, h3, rfl, h5⟩ := readAt_st_some h
  refine ⟨?_, h5⟩
  unfold Rd.readAt
  rw [if_neg (by omega)]
  simp only [Bool.false_eq_true, if_false]
  rw [if_neg (by omega), if_pos h3]

theorem readFullAt_st_ra {z : Bytes} {p off n : Nat} {b : Bytes} {r : Rd} (h : (ST z p).readFullAt off n = .ok (b, r)) :
    (RA z).readFullAt off n = .ok (b, RA z) ∧ ∃ q, r = ST z q := by
  unfold Rd.readFullAt at h ⊢
  by_cases hn : n = 0
  · rw [if_pos hn] at h ⊢
    simp only [Res.ok.injEq, Prod.mk.injEq] at h
    exact ⟨by rw [h.1], p, h.2.symm⟩
  · rw [if_neg hn] at h ⊢
    obtain ⟨h1, h2⟩ := readAt_st_ra hn h
    exact ⟨h1, _, h2⟩

theorem readLocalHeader_st_ra {z : Bytes} {f : File} {p : Nat} {l : Lfh} {r : Rd} (hl : f.lfh = none)
    (h : readLocalHeader (ST z p) f = .ok (l, r)) : readLocalHeader (RA z) f = .ok (l, RA z) ∧ ∃ q, r = ST z q := by
  unfold readLocalHeader at h ⊢
  rw [hl] at h ⊢
  simp only at h ⊢
  cases h1 : (ST z p).readFullAt f.offset 30 with
  | ok x =>
    obtain ⟨b, r1⟩ := x
    rw [h1] at h
    obtain ⟨e1, q1, rfl⟩ := readFullAt_st_ra h1
    rw [e1]
    simp only at h ⊢
    split at h
    · cases h
    · next hsig =>
      rw [if_neg hsig]
      cases h2 : (ST z q1).readFullAt (f.offset + 30) (fld b 26 2) with
      | ok x2 =>
        obtain ⟨nm, r2⟩ := x2
        rw [h2] at h
        obtain ⟨e2, q2, rfl⟩ := readFullAt_st_ra h2
        rw [e2]
        simp only at h ⊢
        cases h3 : (ST z q2).readFullAt (f.offset + 30 + fld b 26 2) (fld b 28 2) with
        | ok x3 =>
          obtain ⟨ex, r3⟩ := x3
          rw [h3] at h
          obtain ⟨e3, q3, rfl⟩ := readFullAt_st_ra h3
          rw [e3]
          simp only [Res.ok.injEq, Prod.mk.injEq] at h ⊢
          exact ⟨⟨h.1, trivial⟩, q3, h.2.symm⟩
        | err e => rw [h3] at h; cases h
        | panic s => rw [h3] at h; cases h
        | diverge => rw [h3] at h; cases h
      | err e => rw [h2] at h; cases h
      | panic s => rw [h2] at h; cases h
      | diverge => rw [h2] at h; cases h
  | err e => rw [h1] at h; cases h
  | panic s => rw [h1] at h; cases h
  | diverge => rw [h1] at h; cases h

theorem readDataDesc_st_ra {z : Bytes} {f : File} {l : Lfh} {p : Nat} {d : Bytes} {c : Nat} {r : Rd} (hd : f.ddb = [])
    (h : readDataDesc (ST z p) f l = .ok (d, c, r)) : readDataDesc (RA z) f l = .ok (d, c, RA z) ∧ ∃ q, r = ST z q := by
  unfold readDataDesc at h ⊢
  split at h
  · next hf =>
    rw [if_pos hf]
    simp only [Res.ok.injEq, Prod.mk.injEq] at h ⊢
    exact ⟨⟨h.1, h.2.1, trivial⟩, p, h.2.2.symm⟩
  · next hf =>
    rw [if_neg hf]
    rw [if_neg (by rw [hd]; exact fun c => c rfl)] at h ⊢
    simp only at h ⊢
    generalize f.offset + (30 + l.name.length + l.extra.length) + f.csize = pos at *
    cases h1 : (ST z p).readAt pos 16 with
    | ok x =>
      obtain ⟨d16, r1⟩ := x
      rw [h1] at h
      obtain ⟨e1, rfl⟩ := readAt_st_ra (by omega) h1
      rw [e1]
      simp only at h ⊢
      split at h
      · cases h
      · next hsig =>
        rw [if_neg hsig]
        split at h
        · next hw =>
          rw [if_pos hw]
          cases h2 : (ST z (pos + 16)).readAt (pos + 16) 8 with
          | ok x2 =>
            obtain ⟨d8, r2⟩ := x2
            rw [h2] at h
            obtain ⟨e2, rfl⟩ := readAt_st_ra (by omega) h2
            rw [e2]
            simp only at h ⊢
            split at h
            · cases h
            · next hbad =>
              rw [if_neg hbad]
              simp only [Res.ok.injEq, Prod.mk.injEq] at h ⊢
              exact ⟨⟨h.1, h.2.1, trivial⟩, _, h.2.2.symm⟩
          | err e => rw [h2] at h; cases h
          | panic s => rw [h2] at h; cases h
          | diverge => rw [h2] at h; cases h
        · next hw =>
          rw [if_neg hw]
          simp only [Res.ok.injEq, Prod.mk.injEq] at h ⊢
          exact ⟨⟨h.1, h.2.1, trivial⟩, _, h.2.2.symm⟩
    | err e => rw [h1] at h; cases h
    | panic s => rw [h1] at h; cases h
    | diverge => rw [h1] at h; cases h

/-- one member of the single forward pass (whether or not the caller consumed the contents) is measured as
    random access measures it -/
theorem passMember_ra {z : Bytes} {f : File} {p : Nat} {b : Bool} {m : Member} {r : Rd} (hf : f.fresh)
    (h : passMember (ST z p) f b = .ok (m, r)) : getTotalSize (RA z) f = .ok (m, RA z) ∧ ∃ q, r = ST z q := by
  obtain ⟨hl, hd, _⟩ := hf
  unfold passMember at h
  cases h1 : readLocalHeader (ST z p) f with
  | ok x =>
    obtain ⟨l, r1⟩ := x
    rw [h1] at h
    simp only at h
    obtain ⟨e1, q1, rfl⟩ := readLocalHeader_st_ra hl h1
    have key : ∀ (r2 : Rd) (q : Nat), r2 = ST z q → getTotalSize r2 { f with lfh := some l } = .ok (m, r) →
        getTotalSize (RA z) f = .ok (m, RA z) ∧ ∃ q, r = ST z q := by
      intro r2 q hr2 hg
      subst hr2
      unfold getTotalSize at hg ⊢
      rw [e1]
      simp only [readLocalHeader] at hg ⊢
      cases h2 : readDataDesc (ST z q) { f with lfh := some l } l with
      | ok x2 =>
        obtain ⟨ddb, crc, r3⟩ := x2
        rw [h2] at hg
        obtain ⟨e2, q3, hq3⟩ := readDataDesc_st_ra (f := { f with lfh := some l }) hd h2
        have e2' : readDataDesc (RA z) f l = .ok (ddb, crc, RA z) := e2
        rw [e2']
        simp only [Res.ok.injEq, Prod.mk.injEq] at hg ⊢
        exact ⟨⟨hg.1, trivial⟩, q3, by rw [← hg.2, hq3]⟩
      | err e => rw [h2] at hg; cases hg
      | panic s => rw [h2] at hg; cases hg
      | diverge => rw [h2] at hg; cases hg
    split at h
    · cases h2 : (ST z q1).readAt (f.offset + 30 + l.nameLen + l.extraLen) f.csize with
      | ok x2 =>
        obtain ⟨dat, r2⟩ := x2
        rw [h2] at h
        obtain ⟨_, _, _, _, rfl⟩ := readAt_st_some h2
        exact key _ _ rfl h
      | err e => rw [h2] at h; cases h
      | panic s => rw [h2] at h; cases h
      | diverge => rw [h2] at h; cases h
    · exact key _ _ rfl h
  | err e => rw [h1] at h; cases h
  | panic s => rw [h1] at h; cases h
  | diverge => rw [h1] at h; cases h

/-- **the single forward pass measures what random access measures** -/
theorem passMembers_measured {z : Bytes} {a : Archive} (rd : File → Bool) : ∀ (kms : List KM) (at_ p : Nat) (ms : List Member),
    MeasuredL z a at_ kms → passMembers rd (ST z p) (filesOf z at_ (kms.map (·.2.1.entry))) = .ok ms →
    ms = kms.map (·.2.2) := by
  intro kms
  induction kms with
  | nil => intro _ _ ms _ h; simp only [List.map_nil, filesOf, passMembers, Res.ok.injEq] at h; rw [← h]; rfl
  | cons q r ih =>
    intro at_ p ms hM h
    obtain ⟨k, sm, m⟩ := q
    obtain ⟨_, _, hg, _, _, _, _, _, hrest⟩ := hM
    simp only [List.map_cons, filesOf] at h ⊢
    unfold passMembers at h
    cases h1 : passMember (ST z p) (fileOf z at_ sm.entry) (rd (fileOf z at_ sm.entry)) with
    | ok x =>
      obtain ⟨m', r'⟩ := x
      rw [h1] at h
      simp only at h
      obtain ⟨e1, q1, rfl⟩ := passMember_ra ⟨rfl, rfl, rfl⟩ h1
      rw [hg] at e1
      simp only [Res.ok.injEq, Prod.mk.injEq] at e1
      obtain ⟨rfl, _⟩ := e1
      cases h2 : passMembers rd (ST z q1) (filesOf z (at_ + sm.entry.len) (r.map (·.2.1.entry))) with
      | ok ms' =>
        rw [h2] at h
        simp only [Res.ok.injEq] at h
        rw [← h, ih _ _ _ hrest h2]
      | err e => rw [h2] at h; cases h
      | panic s => rw [h2] at h; cases h
      | diverge => rw [h2] at h; cases h
    | err e => rw [h1] at h; cases h
    | panic s => rw [h1] at h; cases h
    | diverge => rw [h1] at h; cases h
end Relic.Zip

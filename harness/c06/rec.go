// rec.go: the "record names what was used" half of C06.
//
//	C06 rec srv|cmd <key> <sigtype> <digest|-> <client|-> <filename hex>
//
// One sign request against the REAL /sign handler (srv; real "file" token, real client side
// transform/apply as cmdline/remotecmd does) or one run of the REAL standalone command
// `relic sign` (cmd; this binary re-executed as `vh C06 signcmd ...` = shared.Main()).
//
// Output: ok type=.. key=.. hash=.. x509=.. pgp=.. cname=.. cdn=.. cip=.. file=..
// where every value is read back from the audit record found in the audit file (certificates
// are printed as the universe's identifier of the certificate whose fingerprint, subject and
// issuer the record carries), or `err <http status | exit code>`.  After " | " come the
// observations for the predicate: the same quantities derived independently from the
// signature that was produced (applied to the input file and verified by relic's verifier)
// and from the configuration (config.GetKey of the requested name).
package c06

import (
	"bufio"
	"bytes"
	"crypto"
	"crypto/ecdsa"
	"crypto/elliptic"
	"crypto/rand"
	"crypto/rsa"
	"crypto/tls"
	"crypto/x509"
	"crypto/x509/pkix"
	"encoding/hex"
	"encoding/json"
	"encoding/pem"
	"fmt"
	"io"
	"math/big"
	"net/http"
	"net/http/httptest"
	"net/url"
	"os"
	"os/exec"
	"path/filepath"
	"sort"
	"strings"
	"sync"
	"time"

	"github.com/ProtonMail/go-crypto/openpgp"
	"github.com/ProtonMail/go-crypto/openpgp/packet"

	"github.com/sassoftware/relic/v8/cmdline/shared"
	_ "github.com/sassoftware/relic/v8/cmdline/token"
	"github.com/sassoftware/relic/v8/config"
	"github.com/sassoftware/relic/v8/lib/pgptools"
	"github.com/sassoftware/relic/v8/lib/x509tools"
	"github.com/sassoftware/relic/v8/server"
	"github.com/sassoftware/relic/v8/signers"
	_ "github.com/sassoftware/relic/v8/signers/apk"
	_ "github.com/sassoftware/relic/v8/signers/appmanifest"
	_ "github.com/sassoftware/relic/v8/signers/cab"
	_ "github.com/sassoftware/relic/v8/signers/cat"
	_ "github.com/sassoftware/relic/v8/signers/deb"
	_ "github.com/sassoftware/relic/v8/signers/jar"
	_ "github.com/sassoftware/relic/v8/signers/msi"
	_ "github.com/sassoftware/relic/v8/signers/pecoff"
	_ "github.com/sassoftware/relic/v8/signers/pkcs"
	_ "github.com/sassoftware/relic/v8/signers/rpm"
	_ "github.com/sassoftware/relic/v8/signers/vsix"
	_ "github.com/sassoftware/relic/v8/signers/xap"

	"verifharness/hx"
)

// ---------------------------------------------------------------------------------------------
// the fixed universe of the rec ops (mirrored by Relic.Driver.C06Rec.universe in Lean)

// key sections of the configuration: name -> (alias, key file, x509 certificate id, pgp id, roles)
type recKey struct {
	name, alias, keyFile, x509, pgp string
	roles                           []string
}

var recKeys = []recKey{
	{name: "k1", keyFile: "A", x509: "A", pgp: "PA", roles: []string{"rel"}},
	{name: "k2", keyFile: "B", x509: "B", pgp: "PB", roles: []string{"rel", "dev"}},
	{name: "k3", keyFile: "C", x509: "C", roles: []string{"dev"}},
	{name: "k1x", keyFile: "A", x509: "A2", roles: []string{"rel"}}, // same private key as k1, another certificate
	{name: "k2p", keyFile: "B", pgp: "PB", roles: []string{"dev"}},  // pgp certificate only
	{name: "rel", alias: "k1", roles: []string{"dev"}},              // alias; its own roles are not what counts
	{name: "prod", alias: "k2"},
	{name: "devk", alias: "k3"},
	{name: "aa", alias: "rel"},      // alias of an alias: resolved one level only
	{name: "dangling", alias: "kx"}, // alias of nothing
}

// clients: name -> (pinned by fingerprint | issued by the client CA, nickname, roles)
type recClient struct {
	name, nick string
	viaCA      bool
	roles      []string
	sameKeyAs  string
}

var recClients = []recClient{
	{name: "alice", nick: "alice", roles: []string{"rel"}},
	{name: "bob", nick: "bob", roles: []string{"dev"}},
	{name: "carol", nick: "team", viaCA: true, roles: []string{"rel", "dev"}},
	{name: "dave", nick: "team", viaCA: true, roles: []string{"rel", "dev"}},
	// carol's key pair re-issued by the same CA under another subject (renamed owner): same SubjectPublicKeyInfo, other DN
	{name: "carol2", nick: "team", viaCA: true, roles: []string{"rel", "dev"}, sameKeyAs: "carol"},
	{name: "mallory"}, // unknown to the server
}

// signature types driven: name -> fixture in functest/packages
var recFixtures = map[string]string{
	"pe-coff":     "WindowsFormsApplication1.exe",
	"jar":         "hello.jar",
	"pgp":         "hello.mof",
	"deb":         "zlib1g_1.2.8.dfsg-5_i386.deb",
	"rpm":         "rocky-basesystem-11-13.el9.noarch.rpm",
	"msi":         "dummy.msi",
	"ps":          "hello.ps1",
	"cat":         "hyperv.cat",
	"cab":         "dummy.cab",
	"apk":         "dummy.apk",
	"xap":         "dummy.xap",
	"vsix":        "VSIXProject1.vsix",
	"appmanifest": "WindowsFormsApplication1.exe.manifest",
}

type recUniverse struct {
	dir      string
	priv     map[string]crypto.Signer
	certs    map[string]*x509.Certificate // A A2 B C
	pgps     map[string]*openpgp.Entity   // PA PB
	clients  map[string]*ident
	cfg      *config.Config
	srv      *httptest.Server
	audit    string // audit file of the server
	cmdAudit string // audit file of the standalone command
	cmdCfg   string
	self     string
	n        int
}

var (
	recOnce sync.Once
	recU    *recUniverse
	recErr  error
)

func fixturesDir() string {
	if r := os.Getenv("VERIF_REPO"); r != "" {
		return filepath.Join(r, "functest", "packages")
	}
	return "/repo/functest/packages"
}

func mkCert(cn string, serial int64, pub crypto.PublicKey, parent *x509.Certificate, parentKey crypto.Signer, usage x509.ExtKeyUsage, isCA bool) (*x509.Certificate, error) {
	t := &x509.Certificate{
		SerialNumber:          big.NewInt(serial),
		Subject:               pkix.Name{CommonName: cn, Organization: []string{"verif c06"}, Country: []string{"XX"}},
		NotBefore:             time.Now().Add(-time.Hour),
		NotAfter:              time.Now().Add(48 * time.Hour),
		KeyUsage:              x509.KeyUsageDigitalSignature,
		ExtKeyUsage:           []x509.ExtKeyUsage{usage},
		BasicConstraintsValid: true,
	}
	if isCA {
		t.IsCA = true
		t.KeyUsage |= x509.KeyUsageCertSign
	}
	if parent == nil {
		parent = t
	}
	der, err := x509.CreateCertificate(rand.Reader, t, parent, pub, parentKey)
	if err != nil {
		return nil, err
	}
	return x509.ParseCertificate(der)
}

func pemCert(cs ...*x509.Certificate) []byte {
	var b bytes.Buffer
	for _, c := range cs {
		_ = pem.Encode(&b, &pem.Block{Type: "CERTIFICATE", Bytes: c.Raw})
	}
	return b.Bytes()
}

func mkPgp(name string) (*openpgp.Entity, *rsa.PrivateKey, error) {
	ent, err := openpgp.NewEntity(name, "", strings.ReplaceAll(name, " ", ".")+"@example.com", &packet.Config{RSABits: 2048})
	if err != nil {
		return nil, nil, err
	}
	return ent, ent.PrivateKey.PrivateKey.(*rsa.PrivateKey), nil
}

func buildRecUniverse() (*recUniverse, error) {
	dir, err := os.MkdirTemp("", "verif-c06rec-")
	if err != nil {
		return nil, err
	}
	u := &recUniverse{dir: dir, priv: map[string]crypto.Signer{}, certs: map[string]*x509.Certificate{},
		pgps: map[string]*openpgp.Entity{}, clients: map[string]*ident{}}
	hx.OnExit(func() {
		if u.srv != nil {
			u.srv.Close()
		}
		os.RemoveAll(dir)
	})
	if u.self, err = os.Executable(); err != nil {
		return nil, err
	}
	pa, ka, err := mkPgp("verif c06 pgp A")
	if err != nil {
		return nil, err
	}
	pb, kb, err := mkPgp("verif c06 pgp B")
	if err != nil {
		return nil, err
	}
	u.pgps["PA"], u.pgps["PB"] = pa, pb
	kc, _ := ecdsa.GenerateKey(elliptic.P256(), rand.Reader)
	kca, _ := ecdsa.GenerateKey(elliptic.P256(), rand.Reader)
	u.priv["A"], u.priv["B"], u.priv["C"] = ka, kb, kc
	for n, k := range u.priv {
		der, err := x509.MarshalPKCS8PrivateKey(k)
		if err != nil {
			return nil, err
		}
		if err := os.WriteFile(filepath.Join(dir, "key"+n+".pem"), pem.EncodeToMemory(&pem.Block{Type: "PRIVATE KEY", Bytes: der}), 0o600); err != nil {
			return nil, err
		}
	}
	// signing certificates: A, A2 self-signed over the same key; B issued by a CA (issuer != subject); C self-signed EC
	signCA, err := mkCert("verif c06 signing CA", 10, &kca.PublicKey, nil, kca, x509.ExtKeyUsageCodeSigning, true)
	if err != nil {
		return nil, err
	}
	if u.certs["A"], err = mkCert("verif c06 key A", 11, &ka.PublicKey, nil, ka, x509.ExtKeyUsageCodeSigning, false); err != nil {
		return nil, err
	}
	if u.certs["A2"], err = mkCert("verif c06 key A second certificate", 12, &ka.PublicKey, nil, ka, x509.ExtKeyUsageCodeSigning, false); err != nil {
		return nil, err
	}
	if u.certs["B"], err = mkCert("verif c06 key B", 13, &kb.PublicKey, signCA, kca, x509.ExtKeyUsageCodeSigning, false); err != nil {
		return nil, err
	}
	if u.certs["C"], err = mkCert("verif c06 key C", 14, &kc.PublicKey, nil, kc, x509.ExtKeyUsageCodeSigning, false); err != nil {
		return nil, err
	}
	for n, c := range u.certs {
		blob := pemCert(c)
		if n == "B" {
			blob = pemCert(c, signCA)
		}
		if err := os.WriteFile(filepath.Join(dir, "cert"+n+".pem"), blob, 0o600); err != nil {
			return nil, err
		}
	}
	for n, e := range u.pgps {
		var b bytes.Buffer
		if err := e.Serialize(&b); err != nil {
			return nil, err
		}
		if err := os.WriteFile(filepath.Join(dir, n+".pgp"), b.Bytes(), 0o600); err != nil {
			return nil, err
		}
	}
	// clients
	cak, _ := ecdsa.GenerateKey(elliptic.P256(), rand.Reader)
	clientCA, err := mkCert("verif c06 client CA", 20, &cak.PublicKey, nil, cak, x509.ExtKeyUsageClientAuth, true)
	if err != nil {
		return nil, err
	}
	cfg := &config.Config{
		Tokens:  map[string]*config.TokenConfig{"ftok": {Type: "file"}},
		Keys:    map[string]*config.KeyConfig{},
		Clients: map[string]*config.ClientConfig{},
		Server:  &config.ServerConfig{TokenCacheSeconds: -1},
	}
	for i, c := range recClients {
		k, _ := ecdsa.GenerateKey(elliptic.P256(), rand.Reader)
		if c.sameKeyAs != "" {
			k = u.clients[c.sameKeyAs].key
		}
		var crt *x509.Certificate
		if c.viaCA {
			crt, err = mkCert("verif c06 client "+c.name, int64(30+i), &k.PublicKey, clientCA, cak, x509.ExtKeyUsageClientAuth, false)
		} else {
			crt, err = mkCert("verif c06 client "+c.name, int64(30+i), &k.PublicKey, nil, k, x509.ExtKeyUsageClientAuth, false)
		}
		if err != nil {
			return nil, err
		}
		id := &ident{key: k, cert: crt, fp: spkiFp(crt)}
		u.clients[c.name] = id
		if !c.viaCA && c.nick != "" {
			cfg.Clients[id.fp] = &config.ClientConfig{Nickname: c.nick, Roles: c.roles}
		}
	}
	cfg.Clients["team-ca"] = &config.ClientConfig{Nickname: "team", Roles: []string{"rel", "dev"}, Certificate: string(pemCert(clientCA))}
	// keys
	var y strings.Builder
	y.WriteString("tokens:\n  ftok:\n    type: file\nkeys:\n")
	for _, k := range recKeys {
		kc := &config.KeyConfig{Alias: k.alias, Roles: k.roles}
		fmt.Fprintf(&y, "  %s:\n", k.name)
		if k.alias != "" {
			fmt.Fprintf(&y, "    alias: %s\n", k.alias)
		}
		if k.alias == "" || len(k.roles) > 0 {
			kc.Token = "ftok"
			y.WriteString("    token: ftok\n")
		}
		if k.keyFile != "" {
			kc.KeyFile = filepath.Join(dir, "key"+k.keyFile+".pem")
			fmt.Fprintf(&y, "    keyfile: %s\n", kc.KeyFile)
		}
		if k.x509 != "" {
			kc.X509Certificate = filepath.Join(dir, "cert"+k.x509+".pem")
			fmt.Fprintf(&y, "    x509certificate: %s\n", kc.X509Certificate)
		}
		if k.pgp != "" {
			kc.PgpCertificate = filepath.Join(dir, k.pgp+".pgp")
			fmt.Fprintf(&y, "    pgpcertificate: %s\n", kc.PgpCertificate)
		}
		cfg.Keys[k.name] = kc
	}
	u.audit = filepath.Join(dir, "audit-srv.log")
	u.cmdAudit = filepath.Join(dir, "audit-cmd.log")
	cfg.AuditFile = u.audit
	fmt.Fprintf(&y, "auditfile: %s\n", u.cmdAudit)
	u.cmdCfg = filepath.Join(dir, "relic-cmd.yml")
	if err := os.WriteFile(u.cmdCfg, []byte(y.String()), 0o600); err != nil {
		return nil, err
	}
	if err := cfg.Normalize(filepath.Join(dir, "relic-srv.yml")); err != nil {
		return nil, err
	}
	u.cfg = cfg
	s, err := server.VerifNew(cfg)
	if err != nil {
		return nil, err
	}
	u.srv = httptest.NewUnstartedServer(s.Handler())
	u.srv.TLS = &tls.Config{ClientAuth: tls.RequestClientCert}
	u.srv.Config.ErrorLog = nil
	u.srv.StartTLS()
	return u, nil
}

func spkiFp(c *x509.Certificate) string {
	d := crypto.SHA256.New()
	d.Write(c.RawSubjectPublicKeyInfo)
	return hex.EncodeToString(d.Sum(nil))
}

func getRecUniverse() (*recUniverse, error) {
	recOnce.Do(func() { recU, recErr = buildRecUniverse() })
	return recU, recErr
}

// ---------------------------------------------------------------------------------------------
// identification of what a record / a signature names

func (u *recUniverse) x509ID(fp, subject, issuer string) string {
	if fp == "" && subject == "" && issuer == "" {
		return "-"
	}
	for n, c := range u.certs {
		if fp == sha1hex(c.Raw) {
			if subject == x509tools.FormatSubject(c) && issuer == x509tools.FormatIssuer(c) {
				return n
			}
			return "?" + n + "-with-other-names"
		}
	}
	return "?unknown"
}

func (u *recUniverse) pgpID(fp, name string) string {
	if fp == "" && name == "" {
		return "-"
	}
	for n, e := range u.pgps {
		if fp == hex.EncodeToString(e.PrimaryKey.Fingerprint) {
			if name == pgptools.EntityName(e) {
				return n
			}
			return "?" + n + "-with-other-name"
		}
	}
	return "?unknown"
}

func str(rec map[string]interface{}, k string) string { s, _ := rec[k].(string); return s }

func tok(s string) string {
	if s == "" {
		return "-"
	}
	return strings.ReplaceAll(s, " ", "_")
}

// recordLine prints the identity attributes of a parsed audit record
func (u *recUniverse) recordLine(rec map[string]interface{}) string {
	return fmt.Sprintf("type=%s key=%s hash=%s x509=%s pgp=%s cname=%s cdn=%s cip=%s file=%s",
		tok(str(rec, "sig.type")), tok(str(rec, "sig.keyname")), tok(str(rec, "sig.hash")),
		u.x509ID(str(rec, "sig.x509.fingerprint"), str(rec, "sig.x509.subject"), str(rec, "sig.x509.issuer")),
		u.pgpID(str(rec, "sig.pgp.fingerprint"), str(rec, "sig.pgp.entity")),
		tok(str(rec, "client.name")), tok(str(rec, "client.dn")), tok(str(rec, "client.ip")),
		hexOrDash(rec["client.filename"]))
}

func hexOrDash(v interface{}) string {
	s, ok := v.(string)
	if !ok {
		return "-"
	}
	return "x" + hex.EncodeToString([]byte(s))
}

// newLines returns the complete lines appended to path since offset
func newLines(path string, off int64) ([]string, int64, error) {
	blob, err := os.ReadFile(path)
	if err != nil {
		if os.IsNotExist(err) {
			return nil, 0, nil
		}
		return nil, off, err
	}
	if int64(len(blob)) < off {
		return nil, int64(len(blob)), fmt.Errorf("audit file shrank")
	}
	rest := string(blob[off:])
	if rest == "" {
		return nil, off, nil
	}
	if !strings.HasSuffix(rest, "\n") {
		return nil, int64(len(blob)), fmt.Errorf("audit file does not end in a newline")
	}
	return strings.Split(strings.TrimSuffix(rest, "\n"), "\n"), int64(len(blob)), nil
}

// verifySigned runs relic's verifier on the signed artefact and names hash and certificate found in it
func (u *recUniverse) verifySigned(mod *signers.Signer, signedPath, contentPath string) (hash, x5, pg string, err error) {
	f, err := os.Open(signedPath)
	if err != nil {
		return "", "", "", err
	}
	defer f.Close()
	vo := signers.VerifyOpts{FileName: signedPath, NoChain: true, TrustedPgp: openpgp.EntityList{u.pgps["PA"], u.pgps["PB"]}}
	if mod.Name == "pgp" {
		vo.Content = contentPath
	}
	var sigs []*signers.Signature
	switch {
	case mod.Verify != nil:
		sigs, err = mod.Verify(f, vo)
	case mod.VerifyStream != nil:
		sigs, err = mod.VerifyStream(f, vo)
	default:
		return "", "", "", fmt.Errorf("no verifier")
	}
	if err != nil {
		return "", "", "", err
	}
	if len(sigs) != 1 {
		return "", "", "", fmt.Errorf("%d signatures", len(sigs))
	}
	s := sigs[0]
	hash, x5, pg = "-", "-", "-"
	if s.Hash != 0 {
		hash = x509tools.HashNames[s.Hash]
	}
	if s.X509Signature != nil && s.X509Signature.Certificate != nil {
		c := s.X509Signature.Certificate
		x5 = u.x509ID(sha1hex(c.Raw), x509tools.FormatSubject(c), x509tools.FormatIssuer(c))
	}
	if s.SignerPgp != nil {
		pg = u.pgpID(hex.EncodeToString(s.SignerPgp.PrimaryKey.Fingerprint), pgptools.EntityName(s.SignerPgp))
	}
	return hash, x5, pg, nil
}

func (u *recUniverse) keyByName(n string) *recKey {
	for i := range recKeys {
		if recKeys[i].name == n {
			return &recKeys[i]
		}
	}
	return nil
}

// ---------------------------------------------------------------------------------------------

func copyFile(dst, src string) error {
	b, err := os.ReadFile(src)
	if err != nil {
		return err
	}
	return os.WriteFile(dst, b, 0o600)
}

func diag(ok2 bool, miss, dup, mism int, detail []string) string {
	d := "-"
	if len(detail) > 0 {
		if len(detail) > 6 {
			detail = detail[:6]
		}
		d = strings.ReplaceAll(strings.Join(detail, ";"), " ", "_")
	}
	n := 0
	if ok2 {
		n = 1
	}
	return fmt.Sprintf(" | n2xx=%d sinkfail=0 torn=0 miss=%d dup=%d mism=%d prelost=0 orphan=0 detail=%s", n, miss, dup, mism, d)
}

func runRec(f []string) string {
	if len(f) != 7 {
		return "bad-op"
	}
	path, key, sigtype, digest, client := f[1], f[2], f[3], f[4], f[5]
	if i := strings.LastIndex(client, ">"); i >= 0 {
		// "a>b": the same request by client a first (outcome not reported), then by b, on the one running server, so that
		// an op whose outcome depends on an earlier request replays by itself
		g := append([]string{}, f...)
		g[5] = client[:i]
		runRec(g)
		client = client[i+1:]
	}
	if len(f[6]) < 1 || f[6][0] != 'x' {
		return "bad-op"
	}
	fnb, err := hex.DecodeString(f[6][1:])
	if err != nil || (path != "srv" && path != "cmd") {
		return "bad-op"
	}
	filename := string(fnb)
	u, err := getRecUniverse()
	if err != nil {
		return "err setup " + strings.ReplaceAll(err.Error(), " ", "_")
	}
	u.n++
	work := filepath.Join(u.dir, fmt.Sprintf("w%d", u.n))
	if err := os.Mkdir(work, 0o700); err != nil {
		return "err setup mkdir"
	}
	defer os.RemoveAll(work)
	mod := signers.ByName(sigtype)
	fx := "hello.ps1"
	if mod != nil && recFixtures[mod.Name] != "" {
		fx = recFixtures[mod.Name]
	}
	in := filepath.Join(work, "in-"+fx)
	out := filepath.Join(work, "out-"+fx)
	if err := copyFile(in, filepath.Join(fixturesDir(), fx)); err != nil {
		return "err setup fixture"
	}
	var (
		rec      map[string]interface{}
		detail   []string
		mism     int
		t0       = time.Now().Add(-time.Second)
		respType string
	)
	bad := func(format string, a ...interface{}) { mism++; detail = append(detail, fmt.Sprintf(format, a...)) }
	if path == "srv" {
		shared.CurrentConfig = u.cfg
		id := u.clients[client]
		if id == nil {
			return "bad-op"
		}
		_, off, err := newLines(u.audit, 0)
		if err != nil {
			return "err setup audit file"
		}
		// the client side of a remote sign: transform, upload, apply (cmdline/remotecmd/signcmd.go)
		var body io.Reader = strings.NewReader("no such signer, nothing to transform")
		var transform signers.Transformer
		var infile *os.File
		var fv *signers.FlagValues
		if mod != nil {
			infile, err = os.Open(in)
			if err != nil {
				return "err setup open"
			}
			defer infile.Close()
			hash := x509tools.HashByName(digest)
			if hash == 0 {
				hash = crypto.SHA256
			}
			fv, _ = mod.FlagsFromQuery(url.Values{})
			transform, err = mod.GetTransform(infile, signers.SignOpts{Path: in, Hash: hash, Flags: fv})
			if err != nil {
				return "err setup transform " + tok(err.Error())
			}
			if body, err = transform.GetReader(); err != nil {
				return "err setup reader"
			}
		}
		v := url.Values{}
		v.Set("key", key)
		v.Set("filename", filename)
		v.Set("sigtype", sigtype)
		if digest != "-" {
			v.Set("digest", digest)
		}
		if fv != nil { // flags a transform has set (ps-style from the file name)
			_ = fv.ToQuery(v)
		}
		pool := x509.NewCertPool()
		pool.AddCert(u.srv.Certificate())
		cl := &http.Client{Timeout: 60 * time.Second, Transport: &http.Transport{TLSClientConfig: &tls.Config{
			RootCAs: pool, Certificates: []tls.Certificate{{Certificate: [][]byte{id.cert.Raw}, PrivateKey: id.key}}}}}
		defer cl.CloseIdleConnections()
		resp, err := cl.Post(u.srv.URL+"/sign?"+v.Encode(), "application/octet-stream", struct{ io.Reader }{body}) // hide Close: Apply reads the input file again
		if err != nil {
			return "err transport " + tok(err.Error())
		}
		blob, err := io.ReadAll(resp.Body)
		resp.Body.Close()
		if err != nil {
			return "err transport body"
		}
		lines, _, lerr := newLines(u.audit, off)
		if lerr != nil {
			return "ok torn" + " | n2xx=1 sinkfail=0 torn=1 miss=0 dup=0 mism=0 prelost=0 orphan=0 detail=" + tok(lerr.Error())
		}
		if resp.StatusCode/100 != 2 {
			return fmt.Sprintf("err %d", resp.StatusCode) + diag(false, 0, 0, 0, nil)
		}
		if len(lines) != 1 {
			miss, dup := 0, 0
			if len(lines) == 0 {
				miss = 1
			} else {
				dup = 1
			}
			return "ok records=" + fmt.Sprint(len(lines)) + diag(true, miss, dup, 0, []string{fmt.Sprintf("%d audit lines for one 2xx response", len(lines))})
		}
		if err := json.Unmarshal([]byte(lines[0]), &rec); err != nil || rec == nil {
			return "ok torn | n2xx=1 sinkfail=0 torn=1 miss=0 dup=0 mism=0 prelost=0 orphan=0 detail=unparsable-line"
		}
		respType = resp.Header.Get("Content-Type")
		if transform == nil {
			bad("2xx for an unknown signature type")
		} else if err := transform.Apply(out, respType, bytes.NewReader(blob)); err != nil {
			bad("applying the returned signature: %v", err)
		} else if mod.Fixup != nil {
			if fo, err := os.OpenFile(out, os.O_RDWR, 0); err == nil {
				if err := mod.Fixup(fo); err != nil {
					bad("fixup: %v", err)
				}
				fo.Close()
			}
		}
	} else {
		_, off, err := newLines(u.cmdAudit, 0)
		if err != nil {
			return "err setup audit file"
		}
		args := []string{"C06", "signcmd", "--config", u.cmdCfg, "sign", "--key", key, "--file", in, "--output", out}
		if sigtype != "-" {
			args = append(args, "--sig-type", sigtype)
		}
		if digest != "-" {
			args = append(args, "--digest", digest)
		}
		cmd := exec.Command(u.self, args...)
		cmd.Stdin = nil
		var eb bytes.Buffer
		cmd.Stderr = &eb
		cmd.Stdout = &eb
		cmd.Env = append(os.Environ(), "VERIF_C06_CHILD=1")
		rerr := cmd.Run()
		lines, _, lerr := newLines(u.cmdAudit, off)
		if lerr != nil {
			return "ok torn | n2xx=1 sinkfail=0 torn=1 miss=0 dup=0 mism=0 prelost=0 orphan=0 detail=" + tok(lerr.Error())
		}
		if rerr != nil {
			code := -1
			if ee, ok := rerr.(*exec.ExitError); ok {
				code = ee.ExitCode()
			}
			return fmt.Sprintf("err exit%d", code) + diag(false, 0, 0, 0, []string{lastLine(eb.String())})
		}
		if len(lines) != 1 {
			miss, dup := 0, 0
			if len(lines) == 0 {
				miss = 1
			} else {
				dup = 1
			}
			return "ok records=" + fmt.Sprint(len(lines)) + diag(true, miss, dup, 0, []string{fmt.Sprintf("%d audit lines for one successful sign command", len(lines))})
		}
		if err := json.Unmarshal([]byte(lines[0]), &rec); err != nil || rec == nil {
			return "ok torn | n2xx=1 sinkfail=0 torn=1 miss=0 dup=0 mism=0 prelost=0 orphan=0 detail=unparsable-line"
		}
		if mod == nil { // type was auto-detected by the command: verify with the module the record names
			mod = signers.ByName(str(rec, "sig.type"))
		}
	}
	// ---- what the produced signature says
	var sHash, sX5, sPg = "?", "?", "?"
	if mism == 0 && mod != nil {
		var verr error
		sHash, sX5, sPg, verr = u.verifySigned(mod, out, in)
		if verr != nil {
			bad("produced signature does not verify: %v", verr)
		}
	}
	rHash, rType, rKey := str(rec, "sig.hash"), str(rec, "sig.type"), str(rec, "sig.keyname")
	rX5 := u.x509ID(str(rec, "sig.x509.fingerprint"), str(rec, "sig.x509.subject"), str(rec, "sig.x509.issuer"))
	rPg := u.pgpID(str(rec, "sig.pgp.fingerprint"), str(rec, "sig.pgp.entity"))
	if mism == 0 {
		if sHash != "-" && sHash != rHash {
			bad("digest in signature %s, record says %s", sHash, rHash)
		}
		if sX5 != "-" && sX5 != rX5 {
			bad("certificate in signature %s, record says %s", sX5, rX5)
		}
		if sPg != "-" && sPg != rPg {
			bad("pgp key of signature %s, record says %s", sPg, rPg)
		}
		if sX5 == "-" && sPg == "-" {
			bad("verifier named no signer")
		}
		// the key section the record names must be the one whose certificate made the signature
		if k := u.keyByName(rKey); k == nil || k.alias != "" {
			bad("record names key %q which is not a key section with key material", rKey)
		} else {
			if sX5 != "-" && k.x509 != sX5 {
				bad("record names key %s (certificate %s) but the signature carries certificate %s", rKey, tok(k.x509), sX5)
			}
			if sPg != "-" && k.pgp != sPg {
				bad("record names key %s (pgp %s) but the signature was made by %s", rKey, tok(k.pgp), sPg)
			}
		}
	}
	// ---- what the configuration says (config.GetKey is the resolution every token uses)
	if kc, err := u.cfg.GetKey(key); err != nil || kc.Name() != rKey {
		bad("requested key %s resolves to %v, record says %s", key, kc, rKey)
	}
	if mod != nil && rType != mod.Name {
		bad("signer module %s, record says %s", mod.Name, rType)
	}
	// ---- who the record says made the request: the certificate presented on THIS connection
	if path == "srv" {
		id := u.clients[client]
		var rc *recClient
		for i := range recClients {
			if recClients[i].name == client {
				rc = &recClients[i]
			}
		}
		if rc != nil && id != nil {
			if got := str(rec, "client.name"); got != rc.nick {
				bad("client.name %q, the presented certificate belongs to %q", got, rc.nick)
			}
			wantDN := ""
			if rc.viaCA {
				wantDN = x509tools.FormatPkixName(id.cert.RawSubject, x509tools.NameStyleOpenSsl)
			}
			if got := str(rec, "client.dn"); got != wantDN {
				bad("client.dn %q, the certificate presented for this request has subject %q", got, wantDN)
			}
		}
	}
	// ---- timestamp, content type
	if ts, err := time.Parse(time.RFC3339Nano, str(rec, "sig.timestamp")); err != nil || ts.Before(t0) || ts.After(time.Now().Add(time.Second)) {
		bad("sig.timestamp %q outside the request's time window", str(rec, "sig.timestamp"))
	}
	if path == "srv" {
		if ct := str(rec, "content-type"); ct != respType && !(ct == "" && respType == "application/octet-stream") {
			bad("content-type attribute %q, response header %q", ct, respType)
		}
	}
	keys := make([]string, 0, len(rec))
	for k := range rec {
		keys = append(keys, k)
	}
	sort.Strings(keys)
	if path == "cmd" {
		// the standalone record must name the file given with --file (a temporary path, rendered symbolically)
		if fnv, ok := rec["client.filename"].(string); ok && fnv == in {
			rec["client.filename"] = "ARG"
		}
	}
	return "ok " + u.recordLine(rec) + diag(true, 0, 0, mism, detail) +
		fmt.Sprintf(" sig=%s/%s/%s attrs=%s", sHash, sX5, sPg, strings.Join(keys, ","))
}

func lastLine(s string) string {
	s = strings.TrimSpace(s)
	if i := strings.LastIndexByte(s, '\n'); i >= 0 {
		s = s[i+1:]
	}
	if len(s) > 160 {
		s = s[:160]
	}
	return s
}

// SignCmdMain is relic's main() for the standalone command: `vh C06 signcmd <relic arguments>`.
func SignCmdMain(args []string) {
	os.Args = append([]string{"relic"}, args...)
	shared.Main()
}

// ---------------------------------------------------------------------------------------------
// generator

var (
	recSigX509  = []string{"pe-coff", "jar", "msi", "ps", "cat", "cab", "apk", "xap", "vsix", "appmanifest"}
	recSigPgp   = []string{"pgp", "deb", "rpm"}
	recDigests  = []string{"-", "sha256", "sha384", "sha512", "sha256", "SHA-512", "sha1"}
	recFileName = []string{"hello.ps1", "setup.exe", "dir with space/app one.jar", "q\"uo'te\\.msi", "caf\u00e9-\u2603.rpm",
		"a&b=c?d#e.cab", "x.deb", "../../etc/passwd", "line\nbreak.cat", "k1", "alice"}
)

func genRec(w *bufio.Writer, r *hx.Rng, tier string) {
	emit := func(path, key, sigtype, digest, client, fn string) {
		if path == "cmd" {
			client, fn = "-", "-"
		}
		fmt.Fprintf(w, "C06 rec %s %s %s %s %s x%s\n", path, key, sigtype, digest, client, hex.EncodeToString([]byte(fn)))
	}
	fn := func() string { return recFileName[r.Intn(len(recFileName))] }
	// 1. every driven signature type through both entry points, with a key that fits
	for i, st := range append(append([]string{}, recSigX509...), recSigPgp...) {
		key := []string{"k1", "k2", "prod", "rel"}[i%4]
		emit("srv", key, st, recDigests[r.Intn(4)], []string{"alice", "carol", "dave"}[i%3], fn())
		emit("cmd", []string{"k2", "rel", "k1", "prod"}[i%4], st, recDigests[r.Intn(4)], "-", "-")
	}
	// 2. every key section x one x509 and one pgp type
	for _, k := range recKeys {
		emit("srv", k.name, "ps", "-", "carol", fn())
		emit("srv", k.name, "pgp", "sha512", "dave", fn())
		emit("cmd", k.name, "jar", "sha384", "-", "-")
	}
	// 3. aliases of signature types, auto-detection by the command, every client
	emit("srv", "k2", "msi-tar", "sha256", "alice", "x.msi")
	emit("cmd", "k1x", "-", "-", "-", "-")
	for _, c := range recClients {
		emit("srv", "k2", "pe-coff", "sha256", c.name, fn())
		emit("srv", "devk", "cat", "-", c.name, fn())
	}
	// 3b. one key pair, two certificates with different subjects, requests alternating on the one running server: each
	// record names the subject of the certificate that was presented for THAT request
	for i, c := range []string{"carol>carol2", "carol2>carol", "carol>carol", "dave>carol2", "carol2>dave>carol", "alice>carol2", "carol>alice"} {
		emit("srv", []string{"k2", "k1"}[i%2], []string{"ps", "pgp", "jar"}[i%3], "sha256", c, fn())
	}
	// 4. seeded
	n := 40
	if tier == "thorough" {
		n = 1200
	}
	allKeys := []string{"k1", "k2", "k3", "k1x", "k2p", "rel", "prod", "devk", "aa", "dangling", "nokey"}
	for i := 0; i < n; i++ {
		var st string
		switch x := r.Intn(20); {
		case x < 12:
			st = recSigX509[r.Intn(len(recSigX509))]
		case x < 18:
			st = recSigPgp[r.Intn(len(recSigPgp))]
		case x == 18:
			st = "msi-tar"
		default:
			st = "bogus"
		}
		key := allKeys[r.Intn(len(allKeys))]
		if r.Intn(3) > 0 {
			key = allKeys[r.Intn(8)]
		}
		dg := recDigests[r.Intn(len(recDigests))]
		if r.Intn(25) == 0 {
			dg = "bogus"
		}
		if r.Intn(4) == 0 {
			emit("cmd", key, st, dg, "-", "-")
		} else {
			emit("srv", key, st, dg, recClients[r.Intn(len(recClients))].name, fn())
		}
	}
}

package c11

// Implementation side of the ops that have an executable Lean model (byte-for-byte comparison):
// APKBLK (signers/apk getSigBlock + block loop + unmarshalR), CSBLOB (csblob.parseSuper), XAPSIG
// (signxap.removeSignature via DigestXapTar), BINLOAD (binpatch.Load).

import (
	"archive/tar"
	"bytes"
	"crypto"
	"encoding/binary"
	"errors"
	"fmt"
	"io"
	"os"
	"path/filepath"
	"strings"

	"github.com/sassoftware/relic/v8/lib/binpatch"
	"github.com/sassoftware/relic/v8/lib/fruit/csblob"
	"github.com/sassoftware/relic/v8/lib/signxap"
	"github.com/sassoftware/relic/v8/lib/zipslicer"
	"github.com/sassoftware/relic/v8/signers"
	"github.com/sassoftware/relic/v8/signers/sigerrors"
)

// ApkWithGap: dummy.apk with `gap` between the last member and the central directory.
func ApkWithGap(gap []byte) ([]byte, error) {
	b, err := os.ReadFile(filepath.Join(fixturesDir(), "dummy.apk"))
	if err != nil {
		return nil, err
	}
	if len(b) < 22 || !bytes.Equal(b[len(b)-22:len(b)-18], []byte("PK\x05\x06")) {
		return nil, errors.New("dummy.apk: no plain end record")
	}
	eocd := len(b) - 22
	cd := int(binary.LittleEndian.Uint32(b[eocd+16:]))
	out := append([]byte{}, b[:cd]...)
	out = append(out, gap...)
	out = append(out, b[cd:]...)
	binary.LittleEndian.PutUint32(out[len(out)-22+16:], uint32(cd+len(gap)))
	return out, nil
}

func modelOp(tok, kind string, data []byte) string {
	switch tok {
	case "APKBLK":
		apk, err := ApkWithGap(data)
		if err != nil {
			return "harness-error " + err.Error()
		}
		p, err := writeInput("in.apk", apk)
		if err != nil {
			return "harness-error write"
		}
		f, err := os.Open(p)
		if err != nil {
			return "harness-error open"
		}
		defer f.Close()
		_, err = signers.ByName("apk").Verify(f, signers.VerifyOpts{FileName: p, NoChain: true})
		if err == nil {
			return "ok"
		}
		s := err.Error()
		var ns sigerrors.NotSignedError
		switch {
		case errors.As(err, &ns):
			return "err notsigned"
		case strings.Contains(s, "malformed APK signing block"):
			return "err malformed"
		case strings.Contains(s, "truncated APK signing block"):
			return "err truncated"
		case strings.Contains(s, "parsing signature block") && strings.Contains(s, "unexpected EOF"):
			return "err eof"
		case strings.Contains(s, "parsing signature block") && strings.Contains(s, "trailing data"):
			return "err trailing"
		case strings.Contains(s, "empty APK signing block"):
			return "err empty"
		}
		return "err post"
	case "CSBLOB":
		_, err := csblob.Verify(data, csblob.VerifyParams{})
		if err == nil {
			return "ok"
		}
		s := err.Error()
		switch {
		case strings.Contains(s, "short read in signature blob"):
			return "err short"
		case strings.Contains(s, "invalid length in signature blob"):
			return "err length"
		case strings.Contains(s, "expected embedded signature but got"):
			return "err magic"
		}
		return "err post"
	case "XAPSIG":
		// upload tar whose directory member is `data`; the zip member is empty, so that after removeSignature the
		// directory parser is the next thing to run
		var tb bytes.Buffer
		tw := tar.NewWriter(&tb)
		_ = tw.WriteHeader(&tar.Header{Name: zipslicer.TarMemberCD, Mode: 0o644, Size: int64(len(data))})
		_, _ = tw.Write(data)
		_ = tw.WriteHeader(&tar.Header{Name: zipslicer.TarMemberZip, Mode: 0o644, Size: 0})
		_ = tw.Close()
		_, err := signxap.DigestXapTar(&tb, crypto.SHA256, false)
		return cls(err)
	case "BINLOAD":
		ps, err := binpatch.Load(data)
		if err != nil {
			if errors.Is(err, io.EOF) || errors.Is(err, io.ErrUnexpectedEOF) {
				return "err short"
			}
			if strings.Contains(err.Error(), "unsupported binpatch version") {
				return "err version"
			}
			return "err other"
		}
		return fmt.Sprintf("ok %d", len(ps.Patches))
	}
	return "bad-op"
}

"""C03 — see DESIGN.md section 5; format models: PE (more to come)."""
from composite import install
TIE = "corr:pe"
TIE_THEOREM = "Relic.Props.C03 (models Relic.Model.PE vs lib/authenticode)"
UNPROVED = ['zip_rewrite_preserves_members_full (view of the output through Relic.Spec.Zip = added ++ kept): statement only; proved at layout level (zip_rewrite_preserves_members)']
IMPL_PARALLEL = 16
install(globals(), "C03", ["pe", "e2e", "cab", "ps", "jar", "ziprw"])

/-
  Relic.Model.ReaderCalls — the calls relic's streaming digesters make on their reader, as the reader programs of
  Relic.Model.ReaderProgs model them: per Go function, every call on its reader and on readers derived from it, in source
  order, with the primitive of the calculus (Relic.Model.Reader) that stands for it.  tools/extractreaders re-extracts the
  (callee, arguments) pairs from /repo on every run (Relic/Generated/Readers.lean); `Relic.Props.C09.readers_generated_ok`
  demands equality.  A change like "io.ReadFull replaced by a Read loop that counts per Read" changes the list.

  Classification:
    readFull    io.ReadFull / binary.Read of a fixed-size value                       Prog.readFull
    copy        io.Copy / io.CopyN / ioutil.ReadAll (any sink, any limit)             Prog.copy
    probe       `_, err := r.Read(make([]byte, 1))`, only `err` looked at             Prog.probe   (Plain streams only)
    bufioNew, peek, readString, readByte, bufDrain   bufio.Reader                      Prog.wrapBufio … Prog.bufDrain
    derived     constructor of a reader whose Read is a (limited / counted / teed) pass-through of its source's Read
    framing     Next() of archive/tar or blakesmith/ar: discard (io.CopyN to Discard) + io.ReadFull of a header block
    pass        the pass-through `Read` inside a wrapper's own Read method
    helper      a function of the same package, listed under its own name
    client      hands the (derived) reader to code that is only exercised (decompressors, the ZIP directory reader)
-/
namespace Relic.Rd.Calls

inductive Prim where
  | readFull | copy | probe | bufioNew | peek | readString | readByte | bufDrain
  | derived | framing | pass | helper | client
  /-- a raw `Read` whose byte count the caller acts on: not in the calculus -/
  | rawObserved
  deriving Repr, DecidableEq

structure Entry where
  callee : String
  args : String
  prim : Prim
  deriving Repr, DecidableEq

def expected : List (String × List Entry) := [
  ("authenticode.DigestPE", [
    ⟨"readDosHeader", "r, buf", .helper⟩,
    ⟨"io.CopyN", "buf, r, peStart - dosHeaderSize", .copy⟩,
    ⟨"readCoffHeader", "r, buf", .helper⟩,
    ⟨"readOptHeader", "r, buf, peStart, fh", .helper⟩,
    ⟨"readSections", "r, buf, fh, hvals", .helper⟩,
    ⟨"io.CopyN", "digester.imageDigest, r, int64(sections[0].PointerToRawData) - hvals.sizeOfHdr", .copy⟩,
    ⟨"digester.section", "r, sh", .helper⟩,
    ⟨"readTrailer", "r, digester.imageDigest, nextSection, hvals.certStart, hvals.certSize", .helper⟩]),
  ("authenticode.imageHasher.section", [
    ⟨"io.CopyN", "h.imageDigest, r, int64(sh.SizeOfRawData)", .copy⟩,
    ⟨"io.ReadFull", "r, buf", .readFull⟩]),
  ("authenticode.readDosHeader", [
    ⟨"readAndHash", "r, d, dosHeaderSize", .helper⟩]),
  ("authenticode.readCoffHeader", [
    ⟨"readAndHash", "r, d, 4", .helper⟩,
    ⟨"readAndHash", "r, d, 20", .helper⟩]),
  ("authenticode.readOptHeader", [
    ⟨"io.ReadFull", "r, buf", .readFull⟩]),
  ("authenticode.readSections", [
    ⟨"readAndHash", "r, d, size", .helper⟩,
    ⟨"io.CopyN", "d, r, hvals.sizeOfHdr - secTblEnd", .copy⟩]),
  ("authenticode.readTrailer", [
    ⟨"io.Copy", "d, r", .copy⟩,
    ⟨"io.CopyN", "d, r, certStart - lastSection", .copy⟩,
    ⟨"io.CopyN", "ioutil.Discard, r, certSize", .copy⟩,
    ⟨"io.Copy", "ioutil.Discard, r", .copy⟩]),
  ("authenticode.readAndHash", [
    ⟨"io.ReadFull", "r, buf", .readFull⟩]),
  ("cabfile.Digest", [
    ⟨"binary.Read", "r, binary.LittleEndian, &cab.Header", .readFull⟩,
    ⟨"binary.Read", "r, binary.LittleEndian, &cab.ReserveHeader", .readFull⟩,
    ⟨"binary.Read", "r, binary.LittleEndian, cab.SignatureHeader", .readFull⟩,
    ⟨"io.ReadFull", "r, pbuf", .readFull⟩,
    ⟨"binary.Read", "r, binary.LittleEndian, &fh", .readFull⟩,
    ⟨"io.CopyN", "dw, r, int64(cab.Header.TotalSize - cab.Header.OffsetFiles)", .copy⟩,
    ⟨"io.ReadFull", "r, cab.Signature", .readFull⟩,
    ⟨"io.Copy", "io.Discard, r", .copy⟩]),
  ("authenticode.DigestPowershell", [
    ⟨"bufio.NewReader", "r", .bufioNew⟩,
    ⟨"detectUtf16", "br, si.start, si.end", .helper⟩,
    ⟨"readLine", "br, isUtf16", .helper⟩,
    ⟨"io.Copy", "io.Discard, br", .bufDrain⟩]),
  ("authenticode.detectUtf16", [
    ⟨"br.Peek", "2", .peek⟩]),
  ("authenticode.readLine", [
    ⟨"br.ReadString", "'\\n'", .readString⟩,
    ⟨"br.ReadByte", "", .readByte⟩,
    ⟨"br.ReadByte", "", .readByte⟩]),
  ("signxap.DigestXapTar", [
    ⟨"tar.NewReader", "r", .derived⟩,
    ⟨"tr.Next", "", .framing⟩,
    ⟨"ioutil.ReadAll", "tr", .copy⟩,
    ⟨"io.CopyN", "d, tr, bodySize", .copy⟩]),
  ("authenticode.DigestMsiTar", [
    ⟨"tar.NewReader", "r", .derived⟩,
    ⟨"tr.Next", "", .framing⟩,
    ⟨"ioutil.ReadAll", "tr", .copy⟩,
    ⟨"io.Copy", "d, tr", .copy⟩]),
  ("zipslicer.ReadZipTar", [
    ⟨"tar.NewReader", "r", .derived⟩,
    ⟨"tr.Next", "", .framing⟩,
    ⟨"ioutil.ReadAll", "tr", .copy⟩,
    ⟨"tr.Next", "", .framing⟩,
    ⟨"&zipTarReader", "tr: tr", .derived⟩,
    ⟨"ReadStream", "zr, hdr.Size, zipdir", .helper⟩]),
  ("zipslicer.zipTarReader.Read", [
    ⟨"z.tr.Read", "d", .pass⟩,
    ⟨"z.tr.Next", "", .framing⟩]),
  ("zipslicer.ReadStream", [
    ⟨"&streamReaderAt", "r: r", .derived⟩,
    ⟨"ReadWithDirectory", "ra, size, cd", .client⟩]),
  ("zipslicer.streamReaderAt.ReadAt", [
    ⟨"io.CopyN", "ioutil.Discard, r.r, p - r.pos", .copy⟩,
    ⟨"io.ReadFull", "r.r, d", .readFull⟩]),
  ("signjar.DigestJarStream", [
    ⟨"zipslicer.ReadZipTar", "r", .helper⟩]),
  ("signappx.DigestAppxTar", [
    ⟨"zipslicer.ReadZipTar", "r", .helper⟩,
    ⟨"io.Copy", "ioutil.Discard, r", .copy⟩]),
  ("signdeb.Sign", [
    ⟨"readercounter.New", "r", .derived⟩,
    ⟨"ar.NewReader", "counter", .derived⟩,
    ⟨"reader.Next", "", .framing⟩,
    ⟨"parseControl", "r, ext", .client⟩,
    ⟨"io.Copy", "ioutil.Discard, r", .copy⟩,
    ⟨"io.Copy", "io.MultiWriter(md5, sha1, save), reader", .copy⟩]),
  ("readercounter.ReaderCounter.Read", [
    ⟨"c.R.Read", "d", .pass⟩]),
  ("csblob.hashPages", [
    ⟨"io.Copy", "io.MultiWriter(writers...), pages", .copy⟩,
    ⟨"io.ReadFull", "pages, buf", .readFull⟩]),
  ("machos.Sign", [
    ⟨"io.TeeReader", "r, &saved", .derived⟩,
    ⟨"scanFile", "tee", .helper⟩,
    ⟨"io.ReadFull", "r, make([]byte, extended)", .readFull⟩,
    ⟨"io.LimitReader", "r, markers.codeSize - int64(len(headerBuf))", .derived⟩,
    ⟨"io.MultiReader", "bytes.NewReader(headerBuf), code, bytes.NewReader(make([]byte, padding))", .derived⟩,
    ⟨"io.LimitReader", "io.MultiReader(bytes.NewReader(headerBuf), code, bytes.NewReader(make([]byte, padding))), sigStart", .derived⟩,
    ⟨"io.LimitReader", "r, markers.sigLen", .derived⟩,
    ⟨"io.Copy", "ioutil.Discard, r", .copy⟩]),
  ("pgptools.readOneSignature", [
    ⟨"packet.Read", "r", .client⟩,
    ⟨"io.ReadFull", "r, make([]byte, 1)", .readFull⟩]),
  ("machos.scanFile", [
    ⟨"io.ReadFull", "r, ident[0:]", .readFull⟩,
    ⟨"io.MultiReader", "bytes.NewReader(ident[:]), r", .derived⟩,
    ⟨"binary.Read", "rr, f.ByteOrder, &f.FileHeader", .readFull⟩,
    ⟨"io.ReadFull", "r, ident[:]", .readFull⟩,
    ⟨"io.ReadFull", "r, dat", .readFull⟩])
]

/-- the view the extractor produces -/
def asGenerated (t : List (String × List Entry)) : List (String × List (String × String)) :=
  t.map fun p => (p.1, p.2.map fun e => (e.callee, e.args))

/-- no call in the table exposes the size of a single `Read` to the digester -/
def allInCalculus (t : List (String × List Entry)) : Bool :=
  t.all fun p => p.2.all fun e => e.prim != .rawObserved

/-- the probes: calls that are split independent only over plain streams -/
def probes (t : List (String × List Entry)) : List String :=
  (t.filter fun p => p.2.any fun e => e.prim == .probe).map (·.1)

end Relic.Rd.Calls

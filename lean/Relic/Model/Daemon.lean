/-
  Relic.Model.Daemon — the server *daemon layer* of relic:

    /repo/server/daemon/daemon.go   New (listener plan, `test` mode, error paths), Serve (one goroutine per listener in an
                                    errgroup, ErrServerClosed ↦ nil), Close (Shutdown(ctx 5 min) inside the errgroup, then
                                    server.Close)
    /repo/server/server.go          Close: `if s.closeCh != nil { close(s.closeCh); s.closeCh = nil }`, then every token's Close
    /repo/internal/activation       GetListener: einhorn → socketmaster → systemd → net.Listen; popEnvInt; fd = 3 + index
    /repo/internal/zhttp            RecoveryMiddleware / Logger (what a handler panic becomes)
    /repo/cmdline/servecmd          watchSignals (first signal → Close in a goroutine, second → os.Exit(0))

  Part 2 is a small-step machine: every goroutine step that touches shared state is one event; theorems quantify over ALL
  event lists (= all interleavings; an event that is not enabled is a no-op).  net/http's Shutdown contract is modelled as
  documented: it sets inShutdown, closes the tracked listeners, and returns nil once no connection is active, or ctx.Err()
  when its context expires first (it does NOT close active connections).
  Core Lean only: linked into the native driver.
-/
import Relic.Base.Bytes
import Relic.Model.Authz
namespace Relic.Daemon
open Relic

/-! ## 1. socket activation (internal/activation/activation.go) -/

/-- value of a decimal digit string -/
def digitsVal (cs : List Char) : Nat := cs.foldl (fun a c => a * 10 + (c.toNat - 48)) 0

/-- `strconv.Atoi` on a 64-bit platform: optional sign, at least one ASCII digit, nothing else, value in int64 -/
def atoi (s : String) : Option Int :=
  let cs := s.toList
  let neg := cs.head? == some '-'
  let ds := match cs with
    | '-' :: r => r
    | '+' :: r => r
    | r => r
  if ds.isEmpty || !ds.all Char.isDigit then none
  else
    let v := digitsVal ds
    if neg then (if v ≤ 9223372036854775808 then some (-(v : Int)) else none)
    else (if v < 9223372036854775808 then some (v : Int) else none)

/-- environment: name ↦ value, "" = unset (`popEnv` cannot tell the two apart) -/
abbrev Env := List (String × String)
def Env.get (e : Env) (n : String) : String := (e.lookup n).getD ""

/-- `popEnvInt`: unset ↦ -1; otherwise Atoi (an error is returned to the caller) -/
def popEnvInt (e : Env) (n : String) : Res Int :=
  let s := e.get n
  if s = "" then .ok (-1) else match atoi s with
    | some v => .ok v
    | none => .err ("atoi:" ++ n)

/-- what a file descriptor number refers to in the process (oracle: the kernel's answer) -/
inductive FdKind where
  | tcpListener      -- listening TCP socket
  | unixListener     -- listening unix stream socket
  | tcpConn          -- stream socket that is not listening: net.FileListener succeeds, Accept fails later
  | bad              -- closed, or not a stream socket: SetNonblock / net.FileListener fail
  deriving DecidableEq, Repr

structure World where
  env : Env
  pid : Int
  ppid : Int
  fds : Int → FdKind

/-- outcome of `GetListener` -/
inductive Got where
  | inherited (fd : Int) (k : FdKind)
  | listen                              -- `net.Listen(family, laddr)` is called
  deriving DecidableEq, Repr

/-- `fdListener` -/
def fdListener (w : World) (fd : Int) : Res (Option Got) :=
  match w.fds fd with
  | .bad => .err "fd"
  | k => .ok (some (.inherited fd k))

/-- `systemdListener(index)`: (nil, nil) = `.ok none` -/
def systemdListener (w : World) (index : Nat) : Res (Option Got) :=
  match popEnvInt w.env "LISTEN_PID" with
  | .ok pid =>
    if pid ≠ -1 ∧ pid ≠ w.pid then .ok none
    else match popEnvInt w.env "LISTEN_FDS" with
      | .ok nfds => if nfds < (index : Int) + 1 then .ok none else fdListener w (3 + (index : Int))
      | .err e => .err e
      | .panic s => .panic s
      | .diverge => .diverge
  | .err e => .err e
  | .panic s => .panic s
  | .diverge => .diverge

/-- `einhornListener(index)` -/
def einhornListener (w : World) (index : Nat) : Res (Option Got) :=
  match popEnvInt w.env "EINHORN_MASTER_PID" with
  | .ok ppid =>
    if ppid ≠ -1 ∧ ppid ≠ w.ppid then .ok none
    else match popEnvInt w.env "EINHORN_FD_COUNT" with
      | .ok n =>
        if n < (index : Int) + 1 then .ok none
        else match popEnvInt w.env ("EINHORN_FD_" ++ toString index) with
          | .ok fd => if fd < 0 then .err "einhorn:missing" else fdListener w fd
          | .err e => .err e
          | .panic s => .panic s
          | .diverge => .diverge
      | .err e => .err e
      | .panic s => .panic s
      | .diverge => .diverge
  | .err e => .err e
  | .panic s => .panic s
  | .diverge => .diverge

/-- `socketmasterListener(index)`: `fds[index]` is an index expression (panic site if unguarded) -/
def socketmasterListener (w : World) (index : Nat) : Res (Option Got) :=
  let s := w.env.get "EINHORN_FDS"
  if s = "" then .ok none
  else
    let fds := s.splitOn " "
    if fds.length < index + 1 then .ok none
    else match fds[index]? with
      | none => .panic "activation.socketmasterListener:fds[index]"
      | some f => match atoi f with
        | none => .err "atoi:EINHORN_FDS"
        | some fd => fdListener w fd

/-- `GetListener(index, family, laddr)` -/
def getListener (w : World) (index : Nat) : Res Got :=
  match einhornListener w index with
  | .ok (some g) => .ok g
  | .err e => .err e
  | .panic s => .panic s
  | .diverge => .diverge
  | .ok none =>
    match socketmasterListener w index with
    | .ok (some g) => .ok g
    | .err e => .err e
    | .panic s => .panic s
    | .diverge => .diverge
    | .ok none =>
      match systemdListener w index with
      | .ok (some g) => .ok g
      | .err e => .err e
      | .panic s => .panic s
      | .diverge => .diverge
      | .ok none => .ok .listen

/-! ### daemon.New: the listener plan -/

inductive Role where
  | tls | plain | metrics
  deriving DecidableEq, Repr

structure Cfg where
  listen : Bool          -- config.Server.Listen != ""
  listenHTTP : Bool
  listenMetrics : Bool
  deriving DecidableEq, Repr

/-- the (role, activation index) pairs in the order New opens them; note `// index++` after the metrics listener -/
def plan (c : Cfg) : List (Role × Nat) :=
  let a := if c.listen then [(Role.tls, 0)] else []
  let b := if c.listenHTTP then [(Role.plain, a.length)] else []
  let m := if c.listenMetrics then [(Role.metrics, a.length + b.length)] else []
  a ++ b ++ m

/-- how New ends -/
inductive NewRes where
  | daemon (ls : List (Role × Got))
  | testOk                       -- `test`: srv.Close(); return nil, nil
  | err (stage : String)
  deriving DecidableEq, Repr

structure NewOut where
  res : NewRes
  serverOpen : Bool      -- server.New succeeded and srv.Close() was not called: tokens open, health goroutine running
  opened : Nat           -- listeners opened and still open, owned by nobody when `res` is an error
  deriving DecidableEq, Repr

/-- what the environment decides for New -/
structure NewIn where
  cfg : Cfg
  test : Bool
  loggingOk : Bool       -- zhttp.SetupLogging
  serverOk : Bool        -- server.New (tokens opened, startHealthCheck)
  tlsOk : Bool           -- makeTLSConfig + http2.ConfigureServer
  netListenOk : Role → Bool   -- net.Listen on the configured address
  world : World

/-- a TLS listener must be tcp (`getListener` in daemon.go); the other two roles take whatever was inherited -/
def acceptable (r : Role) (g : Got) : Bool :=
  match r, g with
  | .tls, .inherited _ .unixListener => false
  | _, _ => true

/-- open the planned listeners in order; stops at the first failure -/
def openAll (i : NewIn) : List (Role × Nat) → List (Role × Got) → Except (String × Nat) (List (Role × Got))
  | [], acc => .ok acc.reverse
  | (r, idx) :: rest, acc =>
    match getListener i.world idx with
    | .ok g =>
      if g = .listen ∧ !i.netListenOk r then .error ("listen", acc.length)
      else if !acceptable r g then .error ("not-tcp", acc.length + 1)   -- the inherited listener stays open as well
      else openAll i rest ((r, g) :: acc)
    | .err e => .error (e, acc.length)
    | .panic s => .error ("panic:" ++ s, acc.length)
    | .diverge => .error ("diverge", acc.length)

/-- `daemon.New(config, test)` -/
def new (i : NewIn) : NewOut :=
  if !i.loggingOk then ⟨.err "logging", false, 0⟩
  else if !i.serverOk then ⟨.err "server", false, 0⟩
  else if i.cfg.listen ∧ !i.tlsOk then ⟨.err "tls", true, 0⟩
  else if i.test then ⟨.testOk, false, 0⟩
  else
    let main := (plan i.cfg).filter (fun p => p.1 ≠ .metrics)
    match openAll i main [] with
    | .error (e, n) => ⟨.err e, true, n⟩
    | .ok ls =>
      if ls.isEmpty then ⟨.err "no-listeners", true, 0⟩
      else match openAll i ((plan i.cfg).filter (fun p => p.1 = .metrics)) [] with
        | .error (e, n) => ⟨.err e, true, ls.length + n⟩
        | .ok ms => ⟨.daemon (ls ++ ms), true, ls.length + ms.length⟩

/-! ## 2. Serve / Close as a small-step machine -/

/-- a listener as seen by its `httpServer.Serve(l)` goroutine -/
inductive LSt where
  | bound      -- socket is listening (connections queue in the backlog) but the goroutine has not called Serve yet
  | serving    -- tracked by the http.Server; Accept loop running
  | closed     -- closed by Shutdown (goroutine returned ErrServerClosed ↦ nil)
  | failed     -- Accept returned a permanent error (goroutine returned it)
  deriving DecidableEq, Repr

inductive RSt where
  | accepted   -- handler running, token operation not yet performed
  | tokOk      -- token operation done while the tokens were open
  | tokClosed  -- token operation attempted on a closed token
  deriving DecidableEq, Repr

structure Req where
  id : Nat
  lis : Nat
  st : RSt
  deriving DecidableEq, Repr

/-- stages of one `Close()` call's errgroup goroutine -/
inductive CSt where
  | waiting (expired : Bool)     -- inside Shutdown (polling for idle); `expired`: its 5-minute context is done
  | shutdownDone (err : Bool)    -- Shutdown returned (err = context.DeadlineExceeded); about to call server.Close
  | checked (nonNil err : Bool)  -- evaluated `s.closeCh != nil` (err: what Shutdown returned, carried to the end)
  | chClosed (err : Bool)        -- `close(s.closeCh)` done
  | chDone (err : Bool)          -- past the `if` (`s.closeCh = nil` stored, or branch skipped)
  | returned (err : Bool)        -- tokens closed, goroutine returned
  deriving DecidableEq, Repr

def CSt.active : CSt → Bool
  | .returned _ => false
  | _ => true

/-- response the client received in full -/
inductive Resp where
  | good          -- computed with open tokens
  | tokenClosed   -- an error response: the token was closed under the request
  deriving DecidableEq, Repr

structure St where
  serveCalled : Bool := false
  lis : List LSt                       -- main listeners (TLS, plaintext)
  inShutdown : Bool := false           -- http.Server.inShutdown
  inflight : List Req := []
  accepted : List Nat := []            -- ids of every request ever accepted (history)
  responses : List (Nat × Resp) := []  -- delivered, in order
  closers : List CSt := []
  tokensOpen : Bool := true
  tokenCloses : Nat := 0               -- rounds of `for _, t := range s.tokens { t.Close() }`
  closedCh : Bool := false             -- the Closed channel is closed
  chNil : Bool := false                -- s.closeCh == nil
  firstErr : Option String := none     -- errgroup's errOnce
  serveRet : Option (Option String) := none   -- Serve() returned (with this error)
  crashed : Option String := none      -- unrecovered panic in a goroutine: the process dies
  healthRunning : Bool := true         -- the healthCheckLoop goroutine (started by server.New)
  tokenUseAfterClose : Bool := false
  deriving Repr

def init (n : Nat) : St := { lis := List.replicate n .bound }

inductive Ev where
  | serve                  -- Serve() called (goroutines spawned; it then blocks in eg.Wait)
  | lstart (i : Nat)       -- listener goroutine i calls httpServer.Serve(l)
  | accept (i id : Nat)    -- listener i accepts a connection, request `id` is read and its handler starts
  | token (id : Nat)       -- the handler of `id` performs its token operation
  | respond (id : Nat)     -- the handler of `id` writes its response and returns
  | lfail (i : Nat)        -- Accept on listener i fails permanently
  | close                  -- Close() called: a closer goroutine enters Shutdown
  | expire (c : Nat)       -- closer c's 5-minute context expires
  | shutdownRet (c : Nat)  -- closer c's Shutdown returns
  | chk (c : Nat)          -- closer c evaluates `s.closeCh != nil`
  | closeCh (c : Nat)      -- closer c executes `close(s.closeCh)`
  | nilCh (c : Nat)        -- closer c stores `s.closeCh = nil` / leaves the if
  | closeTokens (c : Nat)  -- closer c closes every token and returns
  | serveRet               -- eg.Wait() in Serve returns
  | healthExit             -- the health loop takes its `<-s.Closed` case
  deriving DecidableEq, Repr

def allDone (s : St) : Bool :=
  s.lis.all (fun l => l == .closed || l == .failed) && s.closers.all (fun c => !c.active)

def setErr (s : St) (e : String) : St := if s.firstErr.isSome then s else { s with firstErr := some e }

def step (s : St) : Ev → St
  | .serve => if s.serveCalled then s else { s with serveCalled := true }
  | .lstart i =>
    if !s.serveCalled then s else
    match s.lis[i]? with
    | some .bound => { s with lis := s.lis.set i (if s.inShutdown then .closed else .serving) }
    | _ => s
  | .accept i id =>
    if s.lis[i]? = some .serving ∧ !s.inShutdown ∧ !s.accepted.contains id then
      { s with inflight := s.inflight ++ [⟨id, i, .accepted⟩], accepted := s.accepted ++ [id] }
    else s
  | .token id =>
    if s.inflight.any (fun r => r.id == id && r.st == .accepted) then
      { s with inflight := s.inflight.map (fun r => if r.id == id then { r with st := if s.tokensOpen then .tokOk else .tokClosed } else r),
               tokenUseAfterClose := s.tokenUseAfterClose || !s.tokensOpen }
    else s
  | .respond id =>
    match s.inflight.find? (fun r => r.id == id && r.st != .accepted) with
    | some r => { s with inflight := s.inflight.filter (fun q => q.id != id),
                         responses := s.responses ++ [(id, if r.st == .tokOk then .good else .tokenClosed)] }
    | none => s
  | .lfail i =>
    if s.lis[i]? = some .serving then setErr { s with lis := s.lis.set i .failed } "accept" else s
  | .close =>
    { s with inShutdown := true, closers := s.closers ++ [.waiting false],
             lis := s.lis.map (fun l => if l == .serving then .closed else l) }
  | .expire c =>
    match s.closers[c]? with
    | some (.waiting _) => { s with closers := s.closers.set c (.waiting true) }
    | _ => s
  | .shutdownRet c =>
    match s.closers[c]? with
    | some (.waiting ex) =>
      if s.inflight.isEmpty then { s with closers := s.closers.set c (.shutdownDone false) }
      else if ex then { s with closers := s.closers.set c (.shutdownDone true) }
      else s
    | _ => s
  | .chk c =>
    match s.closers[c]? with
    | some (.shutdownDone e) => { s with closers := s.closers.set c (.checked (!s.chNil) e) }
    | _ => s
  | .closeCh c =>
    match s.closers[c]? with
    | some (.checked true e) =>
      if s.closedCh then { s with crashed := some "close of closed channel", closers := s.closers.set c (.chClosed e) }
      else { s with closedCh := true, closers := s.closers.set c (.chClosed e) }
    | some (.checked false e) => { s with closers := s.closers.set c (.chDone e) }
    | _ => s
  | .nilCh c =>
    match s.closers[c]? with
    | some (.chClosed e) => { s with chNil := true, closers := s.closers.set c (.chDone e) }
    | _ => s
  | .closeTokens c =>
    match s.closers[c]? with
    | some (.chDone e) =>
      let s' := { s with tokensOpen := false, tokenCloses := s.tokenCloses + 1, closers := s.closers.set c (.returned e) }
      if e then setErr s' "deadline" else s'
    | _ => s
  | .serveRet =>
    if s.serveCalled ∧ s.serveRet.isNone ∧ allDone s then { s with serveRet := some s.firstErr } else s
  | .healthExit => if s.closedCh then { s with healthRunning := false } else s

def run (s : St) : List Ev → St
  | [] => s
  | e :: es => run (step s e) es

/-- the closers' own steps, in program order, for closer `c` (used by the driver to run a Close() to quiescence) -/
def closerSteps (c : Nat) : List Ev := [.shutdownRet c, .chk c, .closeCh c, .nilCh c, .closeTokens c]

/-- everything that can proceed without the environment: listener goroutines, closers, the health loop, Serve's return -/
def settle (s : St) : St :=
  let s := if s.serveCalled then run s ((List.range s.lis.length).map .lstart) else s
  let s := run s ((List.range s.closers.length).flatMap closerSteps)
  run s [.healthExit, .serveRet]

/-! ## 3. listener kind → what the handler sees (C04) -/

inductive Listener where
  | tls | plain
  deriving DecidableEq, Repr

/-- a connection as the client makes it -/
structure Conn where
  remoteAddr : String
  clientCert : Option Authz.Chain     -- certificate the client is able / willing to present in a TLS handshake
  xff : List String
  sslCert : Authz.HdrCert
  ep : Authz.Endpoint

/-- `ClientAuth: tls.RequestClientCert`: the certificate is requested, not required and not verified; on the plaintext
    listener `req.TLS == nil` -/
def toReq (l : Listener) (c : Conn) : Authz.Req :=
  { remoteAddr := c.remoteAddr, tls := (match l with | .tls => c.clientCert | .plain => none),
    xff := c.xff, sslCert := c.sslCert, ep := c.ep }

def serveOn (cfg : Authz.Config) (l : Listener) (c : Conn) : List Authz.Outcome := Authz.handle cfg (toReq l c)

/-! ## 4. zhttp: what a handler panic becomes -/

inductive PanicVal where
  | abortHandler     -- http.ErrAbortHandler
  | other
  deriving DecidableEq, Repr

inductive Where where
  | handlerGoroutine     -- inside next.ServeHTTP, on the request's goroutine
  | spawnedGoroutine     -- in a goroutine the handler started (no recover there)
  deriving DecidableEq, Repr

inductive PanicOutcome where
  | status (code : Nat) (logged : Bool)   -- a complete response with this status; access-log entry with `error`/`stack`
  | connAborted                           -- re-panicked ErrAbortHandler: net/http closes the connection, server lives
  | truncated (code : Nat)                -- headers already sent with `code`: body cut short, status line cannot change
  | processDies
  deriving DecidableEq, Repr

/-- `RecoveryMiddleware` + `WriteUnhandledError` + zhttp.Logger.WriteHeader (which suppresses a second WriteHeader but
    records the later status for the log). `ctxErr`: 0 none, 1 DeadlineExceeded, 2 Canceled. -/
def onPanic (w : Where) (v : PanicVal) (headersSent : Option Nat) (ctxErr : Nat) : PanicOutcome :=
  match w with
  | .spawnedGoroutine => .processDies
  | .handlerGoroutine =>
    match v with
    | .abortHandler => .connAborted
    | .other =>
      let code := if ctxErr = 0 then 500 else if ctxErr = 1 then 504 else 499
      match headersSent with
      | some c => .truncated c
      | none => .status code true

/-- status recorded in the access log (zhttp.Logger.status is overwritten by every WriteHeader call) -/
def loggedStatus (ctxErr : Nat) : Nat :=
  if ctxErr = 0 then 500 else if ctxErr = 1 then 504 else 499

/-! ## 5. write timeout vs. audit record (C06 relation) -/

/-- order of effects in a sign request: token operation, audit record written (before the response body is sent),
    response written.  `deadlineBefore k`: the connection's write deadline fires before effect number k. -/
inductive SignEffect where
  | tokenSign | auditWritten | responseDelivered
  deriving DecidableEq, Repr

/-- the handler is not interrupted by WriteTimeout (net/http only sets a deadline on the connection): it runs to the end;
    only the delivery fails when the deadline has passed. -/
def signEffects (tokenHonoursCtx deadlineDuringToken deadlinePassedAtWrite : Bool) : List SignEffect :=
  if deadlineDuringToken ∧ tokenHonoursCtx then []     -- SignContext returns ctx.Err(): 504 attempted, nothing recorded
  else [.tokenSign, .auditWritten] ++ (if deadlineDuringToken ∨ deadlinePassedAtWrite then [] else [.responseDelivered])

end Relic.Daemon

// appxbig replays finding F-APPX-ZIP64 on the real code: an APPX package whose regenerated parts (AppxManifest.xml,
// AppxBlockMap.xml, [Content_Types].xml, …) land at an offset ≥ 0xffffffff.  zipslicer.(*File).GetDirectoryHeader
// stores the ZIP64 extra field it synthesises back into f.Extra, and signappx calls Directory.WriteDirectory twice on the
// same directory (once for the AXCD hash in writeSignature, once for the directory that is written): the second call
// prepends the 28-byte field again, so the directory in the file is not the directory that was hashed, and relic's own
// verifier (like Windows) rejects the package it has just signed.
// Usage: appxbig [members]   (members of 900 MiB each, sparse zeros; default 5 = 4.4 GiB; 4 = 3.5 GiB is the control)
// Needs about 2x the package size of disk space under $TMPDIR and a few minutes.
package main

import (
	"bytes"
	"crypto"
	"crypto/sha256"
	"encoding/base64"
	"encoding/binary"
	"fmt"
	"hash/crc32"
	"io"
	"os"
	"path/filepath"
	"strconv"
	"strings"

	"github.com/sassoftware/relic/v8/lib/signappx"

	"verifharness/sg"
)

const member = 900 << 20

const xmlHdr = "<?xml version=\"1.0\" encoding=\"UTF-8\" standalone=\"no\"?>\r\n"

var manifest = []byte(xmlHdr + `<Package xmlns="http://schemas.microsoft.com/appx/manifest/foundation/windows10"><Identity Name="verif.big" Publisher="CN=somebody else" Version="1.0.3.0" ProcessorArchitecture="x64"/><Properties><DisplayName>verif big</DisplayName><PublisherDisplayName>verif</PublisherDisplayName><Logo>a.png</Logo></Properties></Package>`)

var ctypes = []byte("<?xml version=\"1.0\" encoding=\"UTF-8\" standalone=\"yes\"?>\r\n" +
	`<Types xmlns="http://schemas.openxmlformats.org/package/2006/content-types"><Default Extension="bin" ContentType="application/octet-stream"/>` +
	`<Default Extension="xml" ContentType="application/vnd.ms-appx.manifest+xml"/><Override PartName="/AppxBlockMap.xml" ContentType="application/vnd.ms-appx.blockmap+xml"/></Types>`)

type entry struct {
	name      string
	crc       uint32
	size, off uint64
}

func le(vs ...interface{}) []byte {
	var b bytes.Buffer
	for _, v := range vs {
		_ = binary.Write(&b, binary.LittleEndian, v)
	}
	return b.Bytes()
}

func main() {
	n := 5
	if len(os.Args) > 1 {
		n, _ = strconv.Atoi(os.Args[1])
	}
	dir, err := os.MkdirTemp("", "appxbig-")
	if err != nil {
		panic(err)
	}
	defer os.RemoveAll(dir)
	in, out := filepath.Join(dir, "in.appx"), filepath.Join(dir, "out.appx")
	f, err := os.Create(in)
	if err != nil {
		panic(err)
	}
	// CRC-32 and block hash of zeros
	zero := make([]byte, 1<<20)
	c := crc32.NewIEEE()
	for i := 0; i < member>>20; i++ {
		c.Write(zero)
	}
	zcrc := c.Sum32()
	bh := sha256.Sum256(zero[:65536])
	blockHash := base64.StdEncoding.EncodeToString(bh[:])
	var ents []entry
	var pos uint64
	lfh := func(name string, crc uint32, size uint64) {
		h := le(uint32(0x04034b50), uint16(20), uint16(0), uint16(0), uint16(0), uint16(0x21), crc, uint32(size), uint32(size), uint16(len(name)), uint16(0))
		h = append(h, name...)
		if _, err := f.Write(h); err != nil {
			panic(err)
		}
		ents = append(ents, entry{name, crc, size, pos})
		pos += uint64(len(h)) + size
	}
	var bm strings.Builder
	bm.WriteString(xmlHdr + `<BlockMap xmlns="http://schemas.microsoft.com/appx/2010/blockmap" HashMethod="http://www.w3.org/2001/04/xmlenc#sha256">`)
	for i := 0; i < n; i++ {
		name := fmt.Sprintf("d%d.bin", i)
		lfh(name, zcrc, member)
		if _, err := f.Seek(member, io.SeekCurrent); err != nil { // sparse: reads back as zeros
			panic(err)
		}
		fmt.Fprintf(&bm, `<File Name="%s" Size="%d" LfhSize="%d">`, name, member, 30+len(name))
		for b := 0; b < member/65536; b++ {
			fmt.Fprintf(&bm, `<Block Hash="%s"></Block>`, blockHash)
		}
		bm.WriteString(`</File>`)
	}
	mh := sha256.Sum256(manifest)
	fmt.Fprintf(&bm, `<File Name="AppxManifest.xml" Size="%d" LfhSize="%d"><Block Hash="%s"></Block></File></BlockMap>`, len(manifest), 30+16,
		base64.StdEncoding.EncodeToString(mh[:]))
	for _, p := range []struct {
		name string
		data []byte
	}{{"AppxManifest.xml", manifest}, {"AppxBlockMap.xml", []byte(bm.String())}, {"[Content_Types].xml", ctypes}} {
		lfh(p.name, crc32.ChecksumIEEE(p.data), uint64(len(p.data)))
		if _, err := f.Write(p.data); err != nil {
			panic(err)
		}
	}
	cdOff := pos
	var cd bytes.Buffer
	for _, e := range ents {
		if e.off >= 0xffffffff {
			extra := le(uint16(1), uint16(24), e.size, e.size, e.off)
			cd.Write(le(uint32(0x02014b50), uint16(45), uint16(45), uint16(0), uint16(0), uint16(0), uint16(0x21), e.crc, uint32(0xffffffff), uint32(0xffffffff),
				uint16(len(e.name)), uint16(len(extra)), uint16(0), uint16(0), uint16(0), uint32(0), uint32(0xffffffff)))
			cd.WriteString(e.name)
			cd.Write(extra)
		} else {
			cd.Write(le(uint32(0x02014b50), uint16(20), uint16(20), uint16(0), uint16(0), uint16(0), uint16(0x21), e.crc, uint32(e.size), uint32(e.size),
				uint16(len(e.name)), uint16(0), uint16(0), uint16(0), uint16(0), uint32(0), uint32(e.off)))
			cd.WriteString(e.name)
		}
	}
	cdSize := uint64(cd.Len())
	cnt := uint64(len(ents))
	cd.Write(le(uint32(0x06064b50), uint64(44), uint16(45), uint16(45), uint32(0), uint32(0), cnt, cnt, cdSize, cdOff))
	cd.Write(le(uint32(0x07064b50), uint32(0), cdOff+cdSize, uint32(1)))
	cd.Write(le(uint32(0x06054b50), uint16(0), uint16(0), uint16(0xffff), uint16(0xffff), uint32(0xffffffff), uint32(0xffffffff), uint16(0)))
	if _, err := f.Write(cd.Bytes()); err != nil {
		panic(err)
	}
	f.Close()
	fmt.Printf("package: %d members of 900 MiB, regenerated parts from offset %d (0xffffffff = %d), %d bytes\n", n, ents[n].off, uint64(0xffffffff), pos+uint64(cd.Len()))
	if err := sg.Sign("appx", in, out, sg.Cert("rsa"), crypto.SHA256, nil); err != nil {
		fmt.Println("sign: error:", err)
		os.Exit(2)
	}
	g, err := os.Open(out)
	if err != nil {
		panic(err)
	}
	defer g.Close()
	st, _ := g.Stat()
	fmt.Printf("sign: ok, output %d bytes\n", st.Size())
	if _, err := signappx.Verify(g, st.Size(), true); err != nil {
		fmt.Println("verify: error:", err)
		os.Exit(1)
	}
	fmt.Println("verify: ok")
}

/-
  C11 — no panic, no hang.   OpenPGP part: relic's framing code (lib/pgptools inline.go / clearsign.go) has no panic site
  (no indexing beyond `filename[:255]` under its guard, `buf[:n]` with n ≤ 6); its scanner stops with an error at a line
  of 64 KiB or more – which `DetachClearSign` turns into a deadlock on the unchanged tree (finding F-PGP1).
-/
import Relic.Proofs.PgpClear
namespace Relic.Props.C11
open Relic Relic.Pgp

/-- **pgp_framing_no_panic.** for all inputs the modelled functions return a value or an error class, never a panic -/
theorem pgp_framing_no_panic (i : SigInfo) (sig body filename hashName text : Bytes) (s : String) :
    serializeLiteral body filename ≠ .panic s ∧ mergeSignature i sig body filename ≠ .panic s ∧
    headClearSign text ≠ .panic s ∧ tailClearSign text ≠ .panic s ∧ mergeClearSign hashName text sig ≠ .panic s := by
  have hl : ∀ q, serializeLiteral body filename ≠ .panic q := by
    intro q
    unfold serializeLiteral
    simp only []
    split <;> simp
  refine ⟨hl s, ?_, headToks_no_panic _ s, tailToks_no_panic _ false s, ?_⟩
  · unfold mergeSignature
    split
    · simp
    · cases h : serializeLiteral body filename with
      | ok o => simp
      | err e => simp
      | panic q => exact absurd h (hl q)
      | diverge => simp
  · unfold mergeClearSign headClearSign
    cases h : headToks (rawTokens (clearSign hashName text fakeArmor)) with
    | ok o => simp
    | err e => simp
    | panic q => exact absurd h (headToks_no_panic _ q)
    | diverge => simp

/-- **pgp_scanner_stops_at_long_line.** `tailClearSign`'s scanner gives up (ErrTooLong) at the first line of
    `bufio.MaxScanTokenSize` = 65536 bytes or more, whatever comes before (shorter lines) and after -/
theorem pgp_scanner_stops_at_long_line (c : Bool) (pre : List Bytes) (t : Bytes) (post : List Bytes)
    (hp : ∀ p ∈ pre, p.length < maxTok) (ht : t.length ≥ maxTok) :
    tailToks c (pre ++ t :: post) = .err "toolong" :=
  tailToks_long c pre t post hp ht

example : tailToks false [[1], List.replicate 65536 120] = .err "toolong" :=
  pgp_scanner_stops_at_long_line false [[1]] _ [] (by intro p hp; simp at hp; subst hp; decide)
    (by rw [List.length_replicate]; decide)

theorem tailToks_no_diverge (ts : List Bytes) : ∀ c, tailToks c ts ≠ .diverge := by
  induction ts with
  | nil => intro c; simp [tailToks]
  | cons t ts ih =>
    intro c
    unfold tailToks
    split
    · simp
    · split
      · cases h : tailToks true ts with
        | ok o => simp
        | err e => simp
        | panic q => simp
        | diverge => exact absurd h (ih true)
      · exact ih false

/-- **pgp_detach_terminates.** (tree with fix_detach_deadlock.patch) `DetachClearSign` returns for every document: the
    scanner's error is handed back instead of parking both goroutines -/
theorem pgp_detach_terminates (h t a : Bytes) : detachClearSign h t a ≠ .diverge :=
  tailToks_no_diverge _ false

end Relic.Props.C11

/-
  C03 — Signing never corrupts or alters the payload.   XAP part, over `Relic.Model.Xap`.
  The payload of a XAP is the ZIP; the signature area is what follows it (header ++ PKCS#7 ++ trailer).
-/
import Relic.Proofs.XapSign
import Relic.Props.C08_Xap
namespace Relic.Props.C03
open Relic Relic.Xap

/-- **xap_payload_preserved.** The file one signing round writes is `base z loc ++ header ++ s ++ trailer`, where
    `base z loc` is a prefix of the input at least as long as the directory offset: every byte in front of the patch
    position is the input's byte, nothing is inserted or moved.  For an input that already ends in a consistent frame
    (`z = b ++ header ++ s₀ ++ trailer`, directory inside `b`) the prefix is exactly `b`: the old frame is gone, the ZIP is
    intact.  For an input whose directory blob does not end in the trailer magic the prefix is the whole input. -/
theorem xap_payload_preserved (z : Bytes) (loc : Nat) (s : Bytes) (hloc : loc ≤ z.length) :
    signRound z loc s = .ok (base z loc ++ sigBlock s) ∧
    base z loc = z.take (base z loc).length ∧ loc ≤ (base z loc).length ∧ (base z loc).length ≤ z.length ∧
    (∀ b s₀ : Bytes, z = b ++ sigBlock s₀ → loc ≤ b.length → s₀.length + 8 < 4294967296 → base z loc = b) ∧
    (trMagic (z.drop loc) ≠ trailerMagic → base z loc = z) := by
  refine ⟨signRound_eq z loc s hloc, base_eq_take z loc hloc, ?_, base_length_le z loc hloc, ?_, ?_⟩
  · rw [base_length z loc hloc]; omega
  · intro b s₀ hz hb hs₀
    subst hz
    have e : b ++ sigBlock s₀ = b.take loc ++ (b.drop loc ++ sigBlock s₀) := by
      rw [← List.append_assoc, List.take_append_drop]
    have hl : (b.take loc).length = loc := by simp; omega
    show (b ++ sigBlock s₀).take loc ++ removeSignature ((b ++ sigBlock s₀).drop loc) = b
    rw [e, take_append_len _ _ loc hl, drop_append_len _ _ loc hl, append_sigBlock, removeSignature_framed _ _ _ _ _ hs₀,
      List.take_append_drop]
  · intro hm
    rcases removeSignature_cases (z.drop loc) with ⟨h, _⟩ | ⟨_, _, h, _⟩
    · unfold base; rw [h]; exact List.take_append_drop loc z
    · exact absurd h hm

/-- **xap_patch_constructible.** The patch `Sign` hands to `binpatch` is one range that lies inside the file and ends at its
    end: constructible, so C12's exactness theorems (`add_spec`, `apply_exact`, `inplace_eq_rewrite`) apply to it. -/
theorem xap_patch_constructible (z : Bytes) (loc : Nat) (s : Bytes) (hloc : loc ≤ z.length) :
    ∃ d, digestTar (zipToTar z loc) true = .ok d ∧ patchCalls d s = some [thePatch z loc s] ∧
      C12.Constructible z.length [thePatch z loc s] ∧
      (thePatch z loc s).off + (thePatch z loc s).old = z.length ∧
      ∀ canOverwrite, ∃ strategy,
        Binpatch.apply z (Binpatch.build uint32Max [thePatch z loc s]) canOverwrite = .ok (base z loc ++ sigBlock s, strategy) := by
  have hle := base_length_le z loc hloc
  refine ⟨_, digestTar_zipToTar z loc hloc, patchCalls_digest z loc s hloc, thePatch_constructible z loc s hloc, ?_, ?_⟩
  · show (base z loc).length + (z.length - (base z loc).length) = z.length
    omega
  · intro c
    obtain ⟨st, h⟩ := C12.apply_exact uint32Max z _ (thePatch_constructible z loc s hloc) c
    exact ⟨st, by rw [h, sem_thePatch z loc s hloc]⟩

/-- **xap_refusal_is_clean.** A successful signing passes through a successful transform and a successful digest; when
    either refuses, no patch exists and nothing is written. -/
theorem xap_refusal_is_clean (z s g : Bytes) (h : signFile z s = .ok g) :
    ∃ ms d, transform z = .ok ms ∧ digestTar ms true = .ok d ∧ applyPatch z d s = .ok g := by
  unfold signFile at h
  obtain ⟨ms, h1, h⟩ := bind_eq_ok h
  obtain ⟨d, h2, h⟩ := bind_eq_ok h
  exact ⟨ms, d, h1, h2, h⟩

/-- through the transform: when `FindDirectory` answers `loc` (inside the file) the signer module writes what
    `signRound` writes -/
theorem xap_signFile_eq (z s : Bytes) (loc : Nat) (hfd : Zip.findDirectory ⟨z, false, 0⟩ = .ok loc) (hloc : loc ≤ z.length) :
    signFile z s = .ok (base z loc ++ sigBlock s) := by
  have ht : transform z = .ok (zipToTar z loc) := by
    unfold transform; rw [hfd, bind_ok, if_neg (by omega)]
  have := signRound_eq z loc s hloc
  unfold signRound at this
  unfold signFile
  rw [ht, bind_ok]
  exact this

/-! ### the exception: a trailer look-alike is cut off although it is no signature -/

/-- `C01.oneMemberZip` with the EOCD's "size of the central directory" field set to 0x53706158 ("XapS"): the last ten bytes
    of the file now read as an `xapTrailer` with `TrailerSize = 0` -/
def lookalikeZip : Bytes :=
  [0x50, 0x4b, 3, 4, 20, 0, 0, 0, 0, 0, 0, 0, 0, 0, 0xd8, 0x2c, 0x75, 0xac, 2, 0, 0, 0, 2, 0, 0, 0, 1, 0, 0, 0, 0x61, 0x68, 0x69] ++
  [0x50, 0x4b, 1, 2, 20, 0, 20, 0, 0, 0, 0, 0, 0, 0, 0, 0, 0xd8, 0x2c, 0x75, 0xac, 2, 0, 0, 0, 2, 0, 0, 0, 1, 0, 0, 0, 0, 0, 0, 0, 0, 0,
   0, 0, 0, 0, 0, 0, 0, 0, 0x61] ++
  [0x50, 0x4b, 5, 6, 0, 0, 0, 0, 1, 0, 1, 0, 0x58, 0x61, 0x70, 0x53, 33, 0, 0, 0, 0, 0]

set_option maxRecDepth 100000 in
/-- **xap_lookalike_not_preserved** (finding FX1).  `removeSignature` trusts the ten trailer bytes alone.  The archive above
    is accepted by the transform (`FindDirectory` does not read the size field), is *not* signed by the standard of relic's
    own `Verify` (no header in front: "invalid xap file"), yet signing it cuts the last ten bytes of its end-of-central-
    directory record: the output is not the input plus a signature, and no ZIP reader will find a directory in it.
    "Refuse or preserve" fails for it. -/
theorem xap_lookalike_not_preserved (s : Bytes) :
    locate lookalikeZip lookalikeZip.length = .err "invalid" ∧
    signFile lookalikeZip s = .ok (lookalikeZip.take 92 ++ sigBlock s) ∧ lookalikeZip.length = 102 := by
  refine ⟨by decide, ?_, by decide⟩
  rw [xap_signFile_eq lookalikeZip s 33 (by decide) (by decide)]
  have : base lookalikeZip 33 = lookalikeZip.take 92 := by decide
  rw [this]

/-! ### non-vacuity -/

set_option maxRecDepth 100000 in
example : (33 : Nat) ≤ C08.oneMemberZip.length ∧ Zip.findDirectory ⟨C08.oneMemberZip, false, 0⟩ = .ok 33 ∧
    trMagic (C08.oneMemberZip.drop 33) ≠ trailerMagic ∧ (transform (C08.oneMemberZip.take 60)).isOk = false := by decide

set_option maxRecDepth 100000 in
example : signFile C08.oneMemberZip [5, 6] = .ok (C08.oneMemberZip ++ sigBlock [5, 6]) := by
  rw [xap_signFile_eq C08.oneMemberZip [5, 6] 33 (by decide) (by decide)]
  have : base C08.oneMemberZip 33 = C08.oneMemberZip := by decide
  rw [this]

end Relic.Props.C03

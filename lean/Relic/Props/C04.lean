/-
  Property C04 — a key is used only for callers entitled to it.

  Theorems about `Relic.Model.Authz` / `Relic.Model.RealIP` (certificate mode).  `handleWith fixed`
  returns one outcome for *every* client the map iteration in `Authenticate` could stop at, so a
  statement `∀ o ∈ handleWith …` holds for every such choice.
  `fixed = true` (`handle`) is the tree with fix-F2.patch; `fixed = false` the tree as found.
-/
import Relic.Model.Authz
import Relic.Proofs.Authz
import Relic.Generated.Routes
namespace Relic.Props.C04
open Relic Relic.Authz Relic.RealIP Relic.Proofs.Authz


/-! ### entitlement (`Entitled`, `EntitledFor`, `Refused` are defined in Relic.Model.Authz) -/

/-- **C04, main statement.**  If `/sign` or `/keys/{k}` answers 2xx or makes any call into the token layer, then
    the caller presented a certificate that the configuration recognises as a client sharing a role with the key
    the name resolves to, and every token call went to that key's token.  For every choice among matching CA clients
    (`o` ranges over all of them), for the tree as found and the fixed tree alike. -/
theorem sign_only_if_entitled (fixed : Bool) (cfg : Config) (req : Req) (n : String) (o : Outcome)
    (ho : o ∈ handleWith fixed cfg req) (hn : req.ep.keyName = some n)
    (hs : o.is2xx = true ∨ o.events ≠ []) : EntitledFor cfg req n o := by
  unfold handleWith at ho
  cases hst : startCheck cfg with
  | some e =>
    simp only [hst, List.mem_singleton] at ho
    subst ho; simp [Outcome.is2xx, Outcome.events] at hs
  | none =>
    simp only [hst] at ho
    have hpub : req.ep.isPublic = false := by
      cases hep : req.ep <;> simp_all [Endpoint.keyName, Endpoint.isPublic]
    simp only [hpub, Bool.false_eq_true, ↓reduceIte] at ho
    cases hpc : (transportView cfg req).2 with
    | ok oc =>
      cases oc with
      | none =>
        simp only [hpc, List.mem_singleton] at ho
        subst ho; simp [Outcome.is2xx, Outcome.events] at hs
      | some ch =>
        simp only [hpc] at ho
        have hmem : ∃ c ∈ candidates cfg ch, o = view fixed cfg c (userName c ch) (transportView cfg req).1 req.ep := by
          cases hc : candidates cfg ch with
          | nil =>
            simp only [hc, List.mem_singleton] at ho
            subst ho; simp [Outcome.is2xx, Outcome.events] at hs
          | cons c cs =>
            simp only [hc, List.mem_map] at ho
            obtain ⟨c', hc', rfl⟩ := ho
            exact ⟨c', hc', rfl⟩
        obtain ⟨c, hc, rfl⟩ := hmem
        obtain ⟨t, hr, ha, hev⟩ := view_entitled hn hs
        obtain ⟨hcm, hrec⟩ := candidates_mem hc
        exact ⟨ch, c, t, by simp [presented, hpc], hcm, hrec, hr, (allowed_iff c t).1 ha, hev⟩
    | err e =>
      simp only [hpc, List.mem_singleton] at ho
      subst ho; simp [Outcome.is2xx, Outcome.events] at hs
    | panic s =>
      simp only [hpc, List.mem_singleton] at ho
      subst ho; simp [Outcome.is2xx, Outcome.events] at hs
    | diverge =>
      simp only [hpc, List.mem_singleton] at ho
      subst ho; simp [Outcome.is2xx, Outcome.events] at hs

/-- **Contrapositive, with the response codes** (fixed tree): a caller who is not entitled is refused with
    401/403 (400 for a missing parameter, 500 for an undecodable proxy header), no token event, no panic. -/
theorem not_entitled_refused (cfg : Config) (req : Req) (n : String) (o : Outcome)
    (ho : o ∈ handle cfg req) (hn : req.ep.keyName = some n) (hne : ¬ Entitled cfg req n) :
    Refused req o := by
  apply handle_refused cfg req n o ho hn
  intro ch c hp hc kc hg
  obtain ⟨hcm, hrec⟩ := candidates_mem hc
  cases ha : allowed c kc with
  | false => rfl
  | true =>
    exact absurd ⟨ch, c, kc, hp, hcm, hrec, (getKeyWith_ok hg).1, (allowed_iff c kc).1 ha⟩ hne

/-! ### malformed configuration entries -/

/-- **Malformed entries** (fixed tree): for a name whose entry is a dangling alias, an alias of an entry without a
    token (in particular alias-of-alias), or a key without a token, `GetKey` returns an error and every request for
    that name is refused — never a panic, never a token event — or server construction already refused the
    configuration.  No hypothesis on the configuration. -/
theorem malformed_config_is_error (cfg : Config) (req : Req) (n : String) (o : Outcome)
    (hm : malformed cfg n = true) (hn : req.ep.keyName = some n) (ho : o ∈ handle cfg req) :
    (∃ e, getKey cfg n = .err e) ∧ Refused req o := by
  obtain ⟨e, he⟩ := malformed_getKey_err hm
  refine ⟨⟨e, he⟩, handle_refused cfg req n o ho hn ?_⟩
  intro ch c _ _ kc hg
  rw [he] at hg
  cases hg

/-- **F2 (tree as found).**  A dangling alias makes `config.GetKey` dereference nil: the handler panics
    (RecoveryMiddleware answers 500) instead of refusing with 403.  Witness: key `a` is an alias of the
    undefined `nokey`; a recognised client asks for `/keys/a`. -/
def f2Cfg : Config :=
  { clients := [{ key := "L0", valid64 := true, nick := "n0", roles := ["r0"], ca := none }],
    keys := [{ name := "a", token := "", alias := "nokey", roles := [], hide := false }],
    tokens := ["t0"], proxiesOK := true, inNets := fun _ => false }
def f2Req : Req :=
  { remoteAddr := "1.2.3.4:5", tls := some { fp := "L0", anchors := [] }, xff := [], sslCert := .absent,
    ep := .getKey "a" }

theorem malformed_config_panics_unfixed :
    malformed f2Cfg "a" = true ∧
    handleWith false f2Cfg f2Req = [.panic "config.GetKey:nil-alias" "1.2.3.4"] ∧
    handleWith true f2Cfg f2Req = [forbidden "1.2.3.4" "n0"] := by
  refine ⟨by decide, by decide, by decide⟩

/-- the fixed tree never panics, on any endpoint -/
theorem no_panic (cfg : Config) (req : Req) (o : Outcome) (ho : o ∈ handle cfg req) : o.isPanic = false := by
  unfold handle handleWith at ho
  cases hst : startCheck cfg with
  | some e => simp only [hst, List.mem_singleton] at ho; subst ho; rfl
  | none =>
    simp only [hst] at ho
    split at ho
    · simp only [List.mem_singleton] at ho; subst ho; rfl
    · split at ho
      · simp only [List.mem_singleton] at ho; subst ho; rfl
      · split at ho
        · simp only [List.mem_singleton] at ho; subst ho; rfl
        · simp only [List.mem_map] at ho
          obtain ⟨c, -, rfl⟩ := ho
          exact view_no_panic ..
      · simp only [List.mem_singleton] at ho; subst ho; rfl

/-! ### key listing -/

/-- **Key listing.**  When the server started (every entry with roles names a configured token), no token is
    named "", and `Keys` is a map (an entry is found under its own name): the listing is exactly the sorted list of
    non-hidden names for which `/sign` would pass authorisation for this client. -/
theorem list_exact (cfg : Config) (c : Client) (hst : startCheck cfg = none) (hnt : "" ∉ cfg.tokens)
    (hd : ∀ k ∈ cfg.keys, lookupKey cfg k.name = some k) :
    listKeys cfg c = specList cfg c ∧ (listKeys cfg c).Pairwise (· ≤ ·) ∧
    ∀ n, n ∈ listKeys cfg c ↔
      ∃ k ∈ cfg.keys, k.name = n ∧ hidden cfg k = false ∧ signAuthorised cfg c n = true := by
  have hf : cfg.keys.filter (listed cfg c) =
      cfg.keys.filter (fun k => !hidden cfg k && signAuthorised cfg c k.name) := by
    apply List.filter_congr
    intro k hk
    exact listed_eq_spec hst hnt hk (hd k hk)
  have heq : listKeys cfg c = specList cfg c := by
    unfold listKeys specList
    rw [hf]
  refine ⟨heq, sorted_sortStrings _, ?_⟩
  intro n
  rw [heq]
  unfold specList
  simp only [mem_sortStrings, List.mem_map, List.mem_filter, Bool.and_eq_true, Bool.not_eq_eq_eq_not, Bool.not_true]
  constructor
  · rintro ⟨k, ⟨hk, hh, hs⟩, rfl⟩
    exact ⟨k, hk, rfl, hh, hs⟩
  · rintro ⟨k, hk, rfl, hh, hs⟩
    exact ⟨k, ⟨hk, hh, hs⟩, rfl⟩

/-- why the hypothesis on token names is needed: with a token named "" an entry without `token:` passes start-up,
    is listed, but cannot be signed with -/
theorem list_exact_needs_named_tokens :
    let cfg : Config := { clients := [], keys := [{ name := "k", token := "", alias := "", roles := ["r"], hide := false }],
                          tokens := [""], proxiesOK := true, inNets := fun _ => false }
    let c : Client := { key := "L0", valid64 := true, nick := "n", roles := ["r"], ca := none }
    startCheck cfg = none ∧ listKeys cfg c = ["k"] ∧ signAuthorised cfg c "k" = false := by
  refine ⟨by decide, by decide, by decide⟩

/-! ### real-ip: headers from untrusted peers -/

/-- **Untrusted headers.**  If the direct peer is not a trusted proxy, the address the server derives and the peer
    certificates it authenticates are those of the connection itself, whatever `X-Forwarded-For` and
    `Ssl-Client-Cert` say; hence the whole response is independent of both headers. -/
theorem untrusted_headers_ignored (fixed : Bool) (cfg : Config) (req : Req) (xff' : List String) (ssl' : HdrCert)
    (hu : hopTrusted cfg.inNets (stripPort req.remoteAddr) = false) :
    transportView cfg { req with xff := xff', sslCert := ssl' } = (stripPort (stripPort req.remoteAddr), .ok req.tls) ∧
    handleWith fixed cfg { req with xff := xff', sslCert := ssl' } = handleWith fixed cfg req := by
  have tv : ∀ x s, transportView cfg { req with xff := x, sslCert := s } =
      (stripPort (stripPort req.remoteAddr), .ok req.tls) := by
    intro x s
    simp [transportView, trustedClient, trustedClientHops, hu, peerCerts]
  refine ⟨tv _ _, ?_⟩
  have tv0 : transportView cfg req = (stripPort (stripPort req.remoteAddr), .ok req.tls) := tv req.xff req.sslCert
  unfold handleWith
  rw [tv0]
  simp only [tv]

/-- `Ssl-Client-Cert` is consulted only for proxied requests -/
theorem ssl_header_only_if_proxied (req : Req) : peerCerts false req = .ok req.tls := by
  simp [peerCerts]

/-- **Derived address.**  `trustedClient` computes exactly the specified address (`specAddr`): the peer itself unless it
    is a trusted proxy; then the right-most hop that is not a trusted proxy, else the left-most hop, else the peer. -/
theorem derived_addr_spec (inNets : String → Bool) (remote : String) (hops : List String) :
    (trustedClientHops inNets remote hops).1 = specAddr inNets remote hops := by
  unfold trustedClientHops specAddr
  by_cases ht : hopTrusted inNets (stripPort remote) = true
  · simp only [ht, Bool.not_true, Bool.false_eq_true, ↓reduceIte]
    rw [find?_reverse_eq_getLast?_filter]
    cases (hops.filter fun h => !hopTrusted inNets h).getLast? with
    | some h => rfl
    | none => cases hops <;> rfl
  · simp [ht]

/-- trusted peer: the address is the right-most hop that is not itself a trusted proxy -/
theorem trusted_uses_rightmost_untrusted (inNets : String → Bool) (remote : String) (pre suf : List String) (h : String)
    (ht : hopTrusted inNets (stripPort remote) = true) (hh : hopTrusted inNets h = false)
    (hs : ∀ x ∈ suf, hopTrusted inNets x = true) :
    trustedClientHops inNets remote (pre ++ h :: suf) = (h, true) := by
  unfold trustedClientHops
  simp only [ht, Bool.not_true, Bool.false_eq_true, ↓reduceIte]
  have : (pre ++ h :: suf).reverse.find? (fun h => !hopTrusted inNets h) = some h := by
    rw [List.reverse_append, List.reverse_cons, List.append_assoc, List.find?_append]
    have : suf.reverse.find? (fun h => !hopTrusted inNets h) = none := by
      rw [List.find?_eq_none]
      intro x hx
      simp [hs x (List.mem_reverse.1 hx)]
    simp [this, hh]
  rw [this]

/-- trusted peer, every hop trusted: the left-most hop; no hop at all: the peer itself, and the request is not proxied -/
theorem trusted_all_hops_trusted (inNets : String → Bool) (remote : String) (hops : List String)
    (ht : hopTrusted inNets (stripPort remote) = true) (hs : ∀ x ∈ hops, hopTrusted inNets x = true) :
    trustedClientHops inNets remote hops = ((hops.head?.getD (stripPort remote)), !hops.isEmpty) := by
  unfold trustedClientHops
  simp only [ht, Bool.not_true, Bool.false_eq_true, ↓reduceIte]
  have : hops.reverse.find? (fun h => !hopTrusted inNets h) = none := by
    rw [List.find?_eq_none]
    intro x hx
    simp [hs x (List.mem_reverse.1 hx)]
  rw [this]
  cases hops <;> rfl

/-! ### routes (generated from server/server.go) -/

def endpointRoute : Endpoint → String × String
  | .health => ("GET", "/health")
  | .directory => ("GET", "/directory")
  | .home => ("GET", "/")
  | .listKeys => ("GET", "/list_keys")
  | .getKey _ => ("GET", "/keys/{key}")
  | .sign _ _ _ => ("POST", "/sign")

/-- the model's endpoints with the model's public/authenticated split -/
def modelRoutes : List (String × String × Bool) :=
  [Endpoint.health, .directory, .home, .listKeys, .getKey "", .sign "" true true].map fun e =>
    ((endpointRoute e).1, (endpointRoute e).2, !e.isPublic)

open Relic.Generated.Routes in
/-- **Routes.**  In `Server.Handler()` as it is in the source now: every statement was understood by the extractor, the
    root router is what is returned, `realIP` is the outermost middleware and the recovery middleware is installed,
    every route other than GET /health and GET /directory is registered on the router wrapped by
    `authmodel.Middleware`, and the route table is exactly the model's. -/
theorem routes_guarded :
    unknown = [] ∧ returnsRoot = true ∧ uses.head? = some "s.realIP" ∧ "zhttp.RecoveryMiddleware" ∈ uses ∧
    (∀ r ∈ routes, r.viaAuthRouter = true ∨ (r.method = "GET" ∧ (r.path = "/health" ∨ r.path = "/directory"))) ∧
    routes.map (fun r => (r.method, r.path, r.viaAuthRouter)) = modelRoutes := by
  decide

/-! ### non-vacuity -/

/-- two CA clients (`ca1`: anchor 0, role r0; `ca2`: anchors 0 and 1, role r9), a fingerprint client, keys with an alias,
    a hidden key, a dangling alias, an alias of an alias; 10.0.0.0/8 trusted -/
def exCfg : Config :=
  { clients := [{ key := "ca1", valid64 := false, nick := "n1", roles := ["r0"], ca := some [0] },
                { key := "ca2", valid64 := false, nick := "n2", roles := ["r9"], ca := some [0, 1] },
                { key := "L1", valid64 := true, nick := "", roles := ["r1"], ca := none }],
    keys := [{ name := "k1", token := "t0", alias := "", roles := ["r0", "r1"], hide := false },
             { name := "a", token := "", alias := "k1", roles := [], hide := false },
             { name := "h", token := "t0", alias := "", roles := ["r0"], hide := true },
             { name := "d", token := "", alias := "nokey", roles := [], hide := false },
             { name := "aa", token := "", alias := "a", roles := [], hide := false },
             { name := "K0", token := "t1", alias := "", roles := ["r0"], hide := false }],
    tokens := ["t0", "t1"], proxiesOK := true,
    inNets := fun a => a == "10.0.0.1" }

def exReq (ep : Endpoint) : Req :=
  { remoteAddr := "1.2.3.4:999", tls := some { fp := "L0", anchors := [0] }, xff := ["6.6.6.6"],
    sslCert := .certs (some { fp := "L1", anchors := [] }), ep }

/-- the premise of `sign_only_if_entitled` is met, and map iteration order matters: the same request is answered 200
    (client n1 chosen) or 403 (client n2 chosen) -/
example : handle exCfg (exReq (.sign "a" true true)) =
    [.resp { status := 200, ip := "1.2.3.4", user := "n1",
             events := [⟨"getkey", "t0", "k1"⟩, ⟨"sign", "t0", "k1"⟩] },
     forbidden "1.2.3.4" "n2"] := by decide

example : handle exCfg (exReq (.getKey "a")) =
    [.resp { status := 200, ip := "1.2.3.4", user := "n1", events := [⟨"getkey", "t0", "k1"⟩] },
     forbidden "1.2.3.4" "n2"] := by decide

/-! ### F50: the key a token uses is the key that was authorised

  Every token (file, PKCS#11, cloud, worker) resolves the name it is handed through `config.GetKey` once more.
  Events therefore carry the name of the entry the TOKEN ends up using.  `serveSign` hands the token the requested
  name (same resolution, same entry: `EntitledFor`'s last conjunct).  `serveGetKey` handed it the name of the
  RESOLVED entry (`keyConf.Name()`), i.e. a second alias hop: with `build -> mid -> prod`, where `mid` carries its own
  token and roles, a caller entitled to `mid` only was shown `prod`'s certificate.  Repaired in /repo (bc89e5c: the
  requested name is passed); the witness below is the configuration on which the old code disclosed the wrong key. -/

/-- what the token layer resolves a name it is handed to -/
def tokenUses (cfg : Config) (passed : String) : Option Key :=
  match getKey cfg passed with
  | .ok k => some k
  | _ => none

/-- handing the token the REQUESTED name makes it use exactly the authorised entry (the code as repaired) -/
theorem token_uses_authorised_key (cfg : Config) (n : String) (kc : Key) (h : getKey cfg n = .ok kc) :
    tokenUses cfg n = some kc := by
  simp [tokenUses, h]

def f50Cfg : Config :=
  { clients := [{ key := "L0", valid64 := true, nick := "dev", roles := ["dev"], ca := none }],
    keys := [{ name := "build", token := "", alias := "mid", roles := [], hide := false },
             { name := "mid", token := "t0", alias := "prod", roles := ["dev"], hide := false },
             { name := "prod", token := "t0", alias := "", roles := ["release"], hide := false }],
    tokens := ["t0"], proxiesOK := true, inNets := fun _ => false }

/-- **getkey_double_hop_orig.**  Handing the token the RESOLVED entry's name (the old `serveGetKey`) makes it use an
    entry the caller shares no role with: `build` resolves to `mid` (roles: dev, caller entitled), the token resolves
    `mid` to `prod` (roles: release). -/
theorem getkey_double_hop_orig :
    ∃ mid prod c, getKey f50Cfg "build" = .ok mid ∧ c ∈ f50Cfg.clients ∧ allowed c mid = true ∧
      tokenUses f50Cfg mid.name = some prod ∧ allowed c prod = false ∧ prod.name ≠ mid.name := by
  refine ⟨⟨"mid", "t0", "prod", ["dev"], false⟩, ⟨"prod", "t0", "", ["release"], false⟩,
    ⟨"L0", true, "dev", ["dev"], none⟩, by decide, by decide, by decide, by decide, by decide, by decide⟩

/-- premises of `not_entitled_refused` / `malformed_config_is_error`: dangling alias and alias of alias -/
example : malformed exCfg "d" = true ∧ malformed exCfg "aa" = true ∧
    handle exCfg (exReq (.sign "d" true true)) = [forbidden "1.2.3.4" "n1", forbidden "1.2.3.4" "n2"] ∧
    handle exCfg (exReq (.getKey "aa")) = [forbidden "1.2.3.4" "n1", forbidden "1.2.3.4" "n2"] := by
  refine ⟨by decide, by decide, by decide, by decide⟩

/-- premises of `list_exact`, with a hidden key, aliases of all shapes and a name order that differs from map order -/
example : startCheck exCfg = none ∧ "" ∉ exCfg.tokens ∧ (∀ k ∈ exCfg.keys, lookupKey exCfg k.name = some k) ∧
    listKeys exCfg { key := "ca1", valid64 := false, nick := "n1", roles := ["r0"], ca := some [0] } = ["K0", "a", "k1"] := by
  refine ⟨by decide, by decide, by decide, by decide⟩

/-- premise of `untrusted_headers_ignored`, and its contrast: the same headers from a trusted proxy do change the
    identity (L1, a fingerprint client) and the address -/
example : hopTrusted exCfg.inNets (stripPort (exReq .home).remoteAddr) = false ∧
    handle exCfg (exReq .home) = [.resp { status := 200, ip := "1.2.3.4", user := "n1" },
                                  .resp { status := 200, ip := "1.2.3.4", user := "n2" }] ∧
    handle exCfg { exReq .home with remoteAddr := "10.0.0.1:7" } =
      [.resp { status := 200, ip := "6.6.6.6", user := "~L1" }] := by
  refine ⟨by decide, by decide, by decide⟩

/-- premises of `trusted_uses_rightmost_untrusted` -/
example : trustedClient exCfg.inNets "10.0.0.1:7" ["6.6.6.6, 7.7.7.7", "10.0.0.1"] = ("7.7.7.7", true) := by decide

end Relic.Props.C04

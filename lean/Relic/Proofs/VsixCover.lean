/-
  What `verify` looks at.  `lookups E files` lists every name the verifier may pass to the name → member map on this run
  (a superset: the loops are not cut at their first error); `verifyF_congr`: two maps that agree on these names get the same
  verdict, whatever it is.  Then: what an accepting run implies (`verifyF_ok_inv`, `checkRefs_ok_inv`).
-/
import Relic.Proofs.VsixSign
namespace Relic.Vsix
open Relic Relic.Xml Relic.XmlSig

/-- targets of the certificate relationships -/
def certLookups : List Rel → List Bytes
  | [] => []
  | r :: rs => if r.type ≠ certType then certLookups rs else cleanRel r.target :: certLookups rs

def relsOrNil (E : Env) (files : Files) (p : Bytes) : List Rel :=
  match parseRelsAt E files p with
  | .ok rs => rs
  | _ => []

/-- names consulted by `readSignature` -/
def sigLookups (E : Env) (files : Files) : List Bytes :=
  relPath [] ::
    match relsFind (relsOrNil E files (relPath [])) sigOriginType with
    | none => []
    | some origin =>
      relPath origin ::
        match relsFind (relsOrNil E files (relPath origin)) sigType with
        | none => []
        | some sp => sp :: relPath sp :: certLookups (relsOrNil E files (relPath sp))

/-- names consulted by `checkManifest` -/
def refLookups (refs : List RefInfo) : List Bytes := refs.map fun r => uriPath r.uri

/-- names consulted by `checkManifest` on this run -/
def manifestLookups (E : Env) (files : Files) : List Bytes :=
  match readSignature E files with
  | .ok sc =>
    match E.xopen sc.1 sc.2 with
    | .ok o => refLookups (decodeManifest o.reference)
    | _ => []
  | _ => []

/-- every name `verify` may look up on this run -/
def lookups (E : Env) (files : Files) : List Bytes := sigLookups E files ++ manifestLookups E files

theorem readZip_congr {files files' : Files} {p : Bytes} (h : files' p = files p) : readZip files' p = readZip files p := by
  simp [readZip, h]

theorem parseRelsAt_congr (E : Env) {files files' : Files} {p : Bytes} (h : files' p = files p) :
    parseRelsAt E files' p = parseRelsAt E files p := by
  simp [parseRelsAt, readZip_congr h]

theorem readCerts_congr (E : Env) {files files' : Files} : ∀ (rs : List Rel),
    (∀ n ∈ certLookups rs, files' n = files n) → readCerts E files' rs = readCerts E files rs := by
  intro rs
  induction rs with
  | nil => intro _; rfl
  | cons r rs ih =>
    intro h
    simp only [readCerts]
    by_cases ht : r.type = certType
    · have h1 : files' (cleanRel r.target) = files (cleanRel r.target) := h _ (by simp [certLookups, ht])
      have h2 := ih (fun n hn => h n (by simp [certLookups, ht, hn]))
      simp only [ht, ne_eq, not_true_eq_false, if_false, readZip_congr h1, h2]
    · have h2 := ih (fun n hn => h n (by simp [certLookups, ht, hn]))
      simp only [ne_eq, ht, not_false_eq_true, if_true, h2]

theorem checkRefs_congr (E : Env) {files files' : Files} : ∀ (refs : List RefInfo),
    (∀ n ∈ refLookups refs, files' n = files n) → checkRefs E files' refs = checkRefs E files refs := by
  intro refs
  induction refs with
  | nil => intro _; rfl
  | cons r rs ih =>
    intro h
    have h1 : files' (uriPath r.uri) = files (uriPath r.uri) := h _ (by simp [refLookups])
    have h2 := ih (fun n hn => h n (by simp only [refLookups, List.map_cons] at hn ⊢; exact List.mem_cons_of_mem _ hn))
    simp only [checkRefs, h1, h2]

theorem readSignature_congr (E : Env) {files files' : Files} (h : ∀ n ∈ sigLookups E files, files' n = files n) :
    readSignature E files' = readSignature E files := by
  have h0 : files' (relPath []) = files (relPath []) := h _ (by simp [sigLookups])
  unfold readSignature
  simp only [h0, parseRelsAt_congr E h0]
  cases hf : (files (relPath [])).isNone with
  | true => rfl
  | false =>
  simp only [Bool.false_eq_true, if_false]
  cases hp1 : parseRelsAt E files (relPath []) with
  | ok r =>
    simp only
    have hr : relsOrNil E files (relPath []) = r := by simp [relsOrNil, hp1]
    cases ho : relsFind r sigOriginType with
    | none => rfl
    | some origin =>
      simp only
      have h1 : files' (relPath origin) = files (relPath origin) := h _ (by simp [sigLookups, hr, ho])
      rw [parseRelsAt_congr E h1]
      cases hp2 : parseRelsAt E files (relPath origin) with
      | ok r2 =>
        simp only
        have hr2 : relsOrNil E files (relPath origin) = r2 := by simp [relsOrNil, hp2]
        cases hs : relsFind r2 sigType with
        | none => rfl
        | some sp =>
          simp only
          have h2 : files' sp = files sp := h _ (by simp [sigLookups, hr, ho, hr2, hs])
          have h3 : files' (relPath sp) = files (relPath sp) := h _ (by simp [sigLookups, hr, ho, hr2, hs])
          rw [readZip_congr h2, h3, parseRelsAt_congr E h3]
          cases hz : readZip files sp with
          | ok blob =>
            simp only
            cases hn : (files (relPath sp)).isNone with
            | true => rfl
            | false =>
              simp only [Bool.false_eq_true, if_false]
              cases hp3 : parseRelsAt E files (relPath sp) with
              | ok r3 =>
                simp only
                have hr3 : relsOrNil E files (relPath sp) = r3 := by simp [relsOrNil, hp3]
                rw [readCerts_congr E r3 (fun n hn => h n (by simp [sigLookups, hr, ho, hr2, hs, hr3, hn]))]
              | err x => rfl
              | panic x => rfl
              | diverge => rfl
          | err x => rfl
          | panic x => rfl
          | diverge => rfl
      | err x => rfl
      | panic x => rfl
      | diverge => rfl
  | err x => rfl
  | panic x => rfl
  | diverge => rfl

/-- the part of `verify` before the walk over the archive depends on the package only through the names in `lookups` -/
theorem verifyCore_congr (E : Env) {files files' : Files} (h : ∀ n ∈ lookups E files, files' n = files n) :
    verifyCore E files' = verifyCore E files := by
  have hs := readSignature_congr E (files := files) (files' := files') (fun n hn => h n (by simp [lookups, hn]))
  unfold verifyCore
  rw [hs]
  cases hr : readSignature E files with
  | ok sc =>
    simp only
    cases ho : E.xopen sc.1 sc.2 with
    | ok o =>
      simp only
      rw [checkRefs_congr E _ (fun n hn => h n (by simp [lookups, manifestLookups, hr, ho, hn]))]
    | err x => rfl
    | panic x => rfl
    | diverge => rfl
  | err x => rfl
  | panic x => rfl
  | diverge => rfl

theorem uncovered_congr {names names' : List Bytes} (h : ∀ n, keepFile n = true → (n ∈ names' ↔ n ∈ names)) (checked : List (Bytes × Bytes)) :
    uncovered names' checked = uncovered names checked := by
  have key : ∀ a b : List Bytes, (∀ n, keepFile n = true → (n ∈ a → n ∈ b)) → uncovered a checked = true → uncovered b checked = true := by
    intro a b hab hu
    simp only [uncovered, List.any_eq_true, Bool.and_eq_true, Bool.not_eq_true'] at hu ⊢
    obtain ⟨n, hn, hk, hc⟩ := hu
    exact ⟨n, hab n hk hn, hk, hc⟩
  cases h1 : uncovered names checked with
  | true => exact key _ _ (fun n hk => (h n hk).mpr) h1
  | false =>
    cases h2 : uncovered names' checked with
    | true => rw [key _ _ (fun n hk => (h n hk).mp) h2] at h1; cases h1
    | false => rfl

/-- **the verdict depends on the package only through the members under the names in `lookups`** and, for the repaired
    verifier, through which payload names (`keepFile`) occur at all -/
theorem verifyF_congr (fx : Bool) (E : Env) {files files' : Files} {names names' : List Bytes}
    (h : ∀ n ∈ lookups E files, files' n = files n)
    (hn : fx = true → ∀ n, keepFile n = true → (n ∈ names' ↔ n ∈ names)) :
    verifyF fx E files' names' = verifyF fx E files names := by
  unfold verifyF
  rw [verifyCore_congr E h]
  cases fx with
  | false => rfl
  | true =>
    cases hc : verifyCore E files with
    | ok r => simp only [Bool.true_and, uncovered_congr (hn rfl) r.2.2]
    | err x => rfl
    | panic x => rfl
    | diverge => rfl

/-! ### what acceptance implies -/

theorem checkRefs_ok_inv (E : Env) (files : Files) : ∀ (refs : List RefInfo) (l : List (Bytes × Bytes)), checkRefs E files refs = .ok l →
    ∀ r ∈ refs, ∃ f h, files (uriPath r.uri) = some f ∧ hashOfName (stripNs r.digestAlg) = some h ∧
      E.digestCmp h f.data r.digestValue = .ok ∧ (uriPath r.uri, f.data) ∈ l := by
  intro refs
  induction refs with
  | nil => intro l _ r hr; cases hr
  | cons r0 rs ih =>
    intro l hl r hr
    simp only [checkRefs] at hl
    cases hf : files (uriPath r0.uri) with
    | none => simp [hf] at hl
    | some f =>
      simp only [hf] at hl
      cases hh : hashOfName (stripNs r0.digestAlg) with
      | none => simp [hh] at hl
      | some h =>
        simp only [hh] at hl
        cases hd : E.digestCmp h f.data r0.digestValue with
        | badB64 => simp [hd] at hl
        | mismatch => simp [hd] at hl
        | ok =>
          simp only [hd] at hl
          cases hrest : checkRefs E files rs with
          | ok rest =>
            simp only [hrest, Res.ok.injEq] at hl
            subst hl
            rcases List.mem_cons.mp hr with rfl | hr'
            · exact ⟨f, h, hf, hh, hd, List.mem_cons_self⟩
            · obtain ⟨f', h', a, b, c, d⟩ := ih rest hrest r hr'
              exact ⟨f', h', a, b, c, List.mem_cons_of_mem _ d⟩
          | err x => simp [hrest] at hl
          | panic x => simp [hrest] at hl
          | diverge => simp [hrest] at hl

/-- the names in the verdict are the names the references map to, in order -/
theorem checkRefs_names (E : Env) (files : Files) : ∀ (refs : List RefInfo) (l : List (Bytes × Bytes)), checkRefs E files refs = .ok l →
    l.map (·.1) = refLookups refs := by
  intro refs
  induction refs with
  | nil => intro l h; simp only [checkRefs, Res.ok.injEq] at h; subst h; rfl
  | cons r0 rs ih =>
    intro l hl
    simp only [checkRefs] at hl
    cases hf : files (uriPath r0.uri) with
    | none => simp [hf] at hl
    | some f =>
      simp only [hf] at hl
      cases hh : hashOfName (stripNs r0.digestAlg) with
      | none => simp [hh] at hl
      | some h =>
        simp only [hh] at hl
        cases hd : E.digestCmp h f.data r0.digestValue with
        | badB64 => simp [hd] at hl
        | mismatch => simp [hd] at hl
        | ok =>
          simp only [hd] at hl
          cases hrest : checkRefs E files rs with
          | ok rest =>
            simp only [hrest, Res.ok.injEq] at hl
            subst hl
            have := ih rest hrest
            simp only [refLookups] at this
            simp [refLookups, this]
          | err x => simp [hrest] at hl
          | panic x => simp [hrest] at hl
          | diverge => simp [hrest] at hl

theorem verifyCore_ok_inv (E : Env) (files : Files) (r : (Bytes × List Bytes) × Opened × List (Bytes × Bytes))
    (h : verifyCore E files = .ok r) :
    readSignature E files = .ok r.1 ∧ E.xopen r.1.1 r.1.2 = .ok r.2.1 ∧ checkRefs E files (decodeManifest r.2.1.reference) = .ok r.2.2 := by
  unfold verifyCore at h
  cases hr : readSignature E files with
  | ok sc =>
    simp only [hr] at h
    cases ho : E.xopen sc.1 sc.2 with
    | ok o =>
      simp only [ho] at h
      cases hc : checkRefs E files (decodeManifest o.reference) with
      | ok checked =>
        simp only [hc, Res.ok.injEq] at h
        subst h
        exact ⟨rfl, ho, hc⟩
      | err x => simp [hc] at h
      | panic x => simp [hc] at h
      | diverge => simp [hc] at h
    | err x => simp [ho] at h
    | panic x => simp [ho] at h
    | diverge => simp [ho] at h
  | err x => simp [hr] at h
  | panic x => simp [hr] at h
  | diverge => simp [hr] at h

theorem verifyF_ok_inv (fx : Bool) (E : Env) (files : Files) (names : List Bytes) (v : Verdict) (hv : verifyF fx E files names = .ok v) :
    ∃ sc o, readSignature E files = .ok sc ∧ E.xopen sc.1 sc.2 = .ok o ∧
      checkRefs E files (decodeManifest o.reference) = .ok v.checked ∧ o.ts = none ∧ v.hash = o.hash ∧ v.key = o.key ∧
      v.key ∈ sc.2 ++ o.embedded ∧ (fx = true → uncovered names v.checked = false) := by
  unfold verifyF at hv
  cases hc : verifyCore E files with
  | ok r =>
    simp only [hc] at hv
    obtain ⟨h1, h2, h3⟩ := verifyCore_ok_inv E files r hc
    by_cases hu : (fx && uncovered names r.2.2) = true
    · simp [hu] at hv
    · simp only [hu, Bool.false_eq_true, if_false] at hv
      cases ht : r.2.1.ts with
      | some e => simp [ht] at hv
      | none =>
        simp only [ht] at hv
        by_cases hl : (r.1.2 ++ r.2.1.embedded).any (fun k => k = r.2.1.key) = true
        · simp only [hl, if_true, Res.ok.injEq] at hv
          subst hv
          refine ⟨r.1, r.2.1, h1, h2, h3, ht, rfl, rfl, ?_, ?_⟩
          · simp only [List.any_eq_true, decide_eq_true_eq] at hl
            obtain ⟨k, hk, rfl⟩ := hl
            exact hk
          · intro hfx
            subst hfx
            simpa using hu
        · simp [hl] at hv
  | err x => simp [hc] at hv
  | panic x => simp [hc] at hv
  | diverge => simp [hc] at hv

end Relic.Vsix

#!/bin/bash
# runall.sh [tier]: run every claimed check on the current /repo tree; summary at the end
tier=${1:-quick}
cd "$(dirname "$0")"
git -C /repo status --short | grep -v '^??' | head -3
for p in $(python3 -c "import json;print(' '.join(c['property_id'] for c in json.load(open('MANIFEST.json'))['checks']))"); do
  s=$(date +%s)
  out=$(./check $p --tier $tier 2>&1)
  rc=$?
  echo "$p rc=$rc $(( $(date +%s) - s ))s $(echo "$out" | grep -c KNOWN-FINDING) known :: $(echo "$out" | grep -v KNOWN-FINDING | tail -1 | cut -c1-150)"
done

/- the frame property of the PE header parser: which bytes `readHeaders` depends on, and what follows for
   the signed file (re-digest succeeds, the locator finds the embedded blob) -/
import Relic.Proofs.PESign
namespace Relic.PE
open Relic

/-- complete characterisation of a successful `readHeaders` (for `e_lfanew ≥ 64`): every condition checked and
    every value produced, as a predicate on the file -/
structure HeadersFull (f : Bytes) (h : Headers) : Prop where
  mz : seg f 0 2 = [77, 90]
  pe : h.m.peStart = u32 f 60
  pe64 : 64 ≤ h.m.peStart
  off : h.m.hdrOff = h.m.peStart
  sig : seg f h.m.peStart (h.m.peStart + 4) = [80, 69, 0, 0]
  soh : h.m.soh = u16 f (h.m.peStart + 20)
  nsec : h.m.nsec = u16 f (h.m.peStart + 6)
  page : h.m.pageSize = if u16 f (h.m.peStart + 4) = 512 ∨ u16 f (h.m.peStart + 4) = 388 ∨ u16 f (h.m.peStart + 4) = 644
            then 8192 else 4096
  variant : (u16 f (h.m.peStart + 24) = 267 ∧ h.m.dd4Start = 128 ∧ 224 ≤ h.m.soh ∧ 5 ≤ u32 f (h.m.peStart + 24 + 92)) ∨
            (u16 f (h.m.peStart + 24) = 523 ∧ h.m.dd4Start = 144 ∧ 240 ≤ h.m.soh ∧ 5 ≤ u32 f (h.m.peStart + 24 + 108))
  dd : h.m.posDDCert = h.m.peStart + 24 + h.m.dd4Start
  tbl : h.m.secTblStart = h.m.peStart + 24 + h.m.soh
  fa : h.m.fileAlign = u32 f (h.m.peStart + 24 + 36)
  noOverlap : h.m.peStart + 24 + h.m.soh + h.m.nsec * 40 ≤ u32 f (h.m.peStart + 24 + 60)
  fix : fixSections (h.m.peStart + 24 + h.m.soh + h.m.nsec * 40) (u32 f (h.m.peStart + 24 + 36))
          (rawSections f (h.m.peStart + 24 + h.m.soh) h.m.nsec) (u32 f (h.m.peStart + 24 + 60))
          = .ok (h.sections, h.m.sizeOfHdr)
  cur : h.cur = h.m.sizeOfHdr
  curLe : h.cur ≤ f.length
  hashed : h.hashed = seg f 0 (h.m.peStart + 24 + 64) ++ seg f (h.m.peStart + 24 + 68) h.m.posDDCert ++
              seg f (h.m.posDDCert + 8) h.cur
  certStart : h.m.certStart = u32 f h.m.posDDCert
  certSize : h.m.certSize = u32 f (h.m.posDDCert + 4)

theorem HeadersFull.tblEndLe {f : Bytes} {h : Headers} (F : HeadersFull f h) :
    h.m.peStart + 24 + h.m.soh + h.m.nsec * 40 ≤ h.cur := by
  rw [F.cur]
  exact fixSections_ge _ _ _ _ _ _ F.fix F.noOverlap

theorem readHeaders_full (f : Bytes) (h : Headers) (hp : 64 ≤ u32 f 0x3c) (e : readHeaders f = .ok h) :
    HeadersFull f h := by
  unfold readHeaders at e
  simp only [hp, if_true] at e
  generalize hP : u32 f 60 = P at e hp
  generalize hS : u16 f (P + 20) = S at e
  generalize hN : u16 f (P + 6) = N at e
  by_cases c1 : f.length < 64
  · simp [c1] at e
  rw [if_neg c1] at e
  by_cases c2 : seg f 0 2 ≠ [77, 90]
  · simp [c2] at e
  rw [if_neg c2] at e
  by_cases c3 : f.length < P
  · simp [c3] at e
  rw [if_neg c3] at e
  by_cases c4 : f.length < P + 4
  · simp [c4] at e
  rw [if_neg c4] at e
  by_cases c5 : seg f P (P + 4) ≠ [80, 69, 0, 0]
  · simp [c5] at e
  rw [if_neg c5] at e
  by_cases c6 : f.length < P + 24
  · simp [c6] at e
  rw [if_neg c6] at e
  by_cases c7 : f.length < P + 24 + S
  · simp [c7] at e
  rw [if_neg c7] at e
  by_cases c8 : S < 2
  · simp [c8] at e
  rw [if_neg c8] at e
  have c2' : seg f 0 2 = [77, 90] := Decidable.of_not_not c2
  have c5' : seg f P (P + 4) = [80, 69, 0, 0] := Decidable.of_not_not c5
  -- the two optional-header variants
  have key : ∀ need nrva dd4,
      ((u16 f (P + 24) = 267 ∧ dd4 = 128 ∧ need = 224 ∧ nrva = 92) ∨ (u16 f (P + 24) = 523 ∧ dd4 = 144 ∧ need = 240 ∧ nrva = 108)) →
      (if S < need then (Res.err "eof" : Res Headers)
       else if u32 f (P + 24 + nrva) < 5 then Res.err "noroom"
       else if u32 f (P + 24 + 60) < P + 24 + S + N * 40 then Res.err "secoverlap"
       else if f.length < P + 24 + S + N * 40 then Res.err "eof"
       else match fixSections (P + 24 + S + N * 40) (u32 f (P + 24 + 36)) (rawSections f (P + 24 + S) N) (u32 f (P + 24 + 60)) with
        | Res.err e => Res.err e
        | Res.panic p => Res.panic p
        | Res.diverge => Res.diverge
        | Res.ok (sections, sizeOfHdr) =>
          if f.length < P + 24 + S + N * 40 + (sizeOfHdr - (P + 24 + S + N * 40)) then Res.err "eof"
          else Res.ok
            { m := { peStart := P, hdrOff := P, soh := S, dd4Start := dd4, posDDCert := P + 24 + dd4,
                     secTblStart := P + 24 + S, sizeOfHdr := sizeOfHdr,
                     pageSize := if u16 f (P + 4) = 512 ∨ u16 f (P + 4) = 388 ∨ u16 f (P + 4) = 644 then 8192 else 4096,
                     fileAlign := u32 f (P + 24 + 36), certStart := u32 f (P + 24 + dd4),
                     certSize := u32 f (P + 24 + dd4 + 4), nsec := N },
              sections := sections,
              hashed := seg f 0 (P + 24 + 64) ++ seg f (P + 24 + 68) (P + 24 + dd4) ++
                seg f (P + 24 + dd4 + 8) (P + 24 + S + N * 40 + (sizeOfHdr - (P + 24 + S + N * 40))),
              cur := P + 24 + S + N * 40 + (sizeOfHdr - (P + 24 + S + N * 40)) }) = Res.ok h →
      HeadersFull f h := by
    intro need nrva dd4 hdd e
    by_cases d1 : S < need
    · simp [d1] at e
    rw [if_neg d1] at e
    by_cases d2 : u32 f (P + 24 + nrva) < 5
    · simp [d2] at e
    rw [if_neg d2] at e
    by_cases d3 : u32 f (P + 24 + 60) < P + 24 + S + N * 40
    · simp [d3] at e
    rw [if_neg d3] at e
    by_cases d4 : f.length < P + 24 + S + N * 40
    · simp [d4] at e
    rw [if_neg d4] at e
    cases hfix : fixSections (P + 24 + S + N * 40) (u32 f (P + 24 + 36)) (rawSections f (P + 24 + S) N) (u32 f (P + 24 + 60)) with
    | err _ => simp [hfix] at e
    | panic _ => simp [hfix] at e
    | diverge => simp [hfix] at e
    | ok v =>
      obtain ⟨sections, soh'⟩ := v
      simp only [hfix] at e
      have hge := fixSections_ge _ _ _ _ _ _ hfix (by omega)
      by_cases d5 : f.length < P + 24 + S + N * 40 + (soh' - (P + 24 + S + N * 40))
      · simp [d5] at e
      rw [if_neg d5] at e
      injection e with e
      subst e
      have hc : P + 24 + S + N * 40 + (soh' - (P + 24 + S + N * 40)) = soh' := by omega
      refine ⟨c2', hP.symm, hp, rfl, c5', hS.symm, hN.symm, rfl, ?_, rfl, rfl, rfl, ?_, hfix, ?_, ?_, ?_, rfl, ?_⟩
      · simp only
        rcases hdd with ⟨a, b, c, d⟩ | ⟨a, b, c, d⟩
        · subst b c d; exact Or.inl ⟨a, rfl, by omega, by omega⟩
        · subst b c d; exact Or.inr ⟨a, rfl, by omega, by omega⟩
      · simp only; omega
      · simp only; exact hc
      · simp only; omega
      · simp only
      · simp only [Nat.add_assoc]
  by_cases m1 : u16 f (P + 24) = 267
  · simp only [m1, if_true] at e
    exact key 224 92 128 (Or.inl ⟨m1, rfl, rfl, rfl⟩) e
  · by_cases m2 : u16 f (P + 24) = 523
    · rw [if_neg m1, if_pos m2] at e
      exact key 240 108 144 (Or.inr ⟨m2, rfl, rfl, rfl⟩) e
    · simp [m1, m2] at e

/-- the converse: the characterisation is complete -/
theorem readHeaders_complete (g : Bytes) (h : Headers) (F : HeadersFull g h) : readHeaders g = .ok h := by
  have hEnd := F.tblEndLe
  obtain ⟨m, sections, hashed, cur⟩ := h
  obtain ⟨peStart, hdrOff, soh, dd4Start, posDDCert, secTblStart, sizeOfHdr, pageSize, fileAlign, certStart, certSize, nsec⟩ := m
  obtain ⟨mz, pe, pe64, off, sig, hsoh, hnsec, page, variant, dd, tbl, fa, noOv, fix, hcur, curLe, hhashed, hcs, hcz⟩ := F
  simp only at mz pe pe64 off sig hsoh hnsec page variant dd tbl fa noOv fix hcur curLe hhashed hcs hcz hEnd
  unfold readHeaders
  simp only [← pe, pe64, if_true]
  simp only [← hsoh, ← hnsec]
  have hsoh136 : 224 ≤ soh := by rcases variant with v | v <;> omega
  rw [if_neg (by omega), if_neg (by simp [mz]), if_neg (by omega), if_neg (by omega), if_neg (by simp [sig]),
    if_neg (by omega), if_neg (by omega), if_neg (by omega)]
  have key : ∀ need nrva dd4, dd4 = dd4Start → need ≤ soh → 5 ≤ u32 g (peStart + 24 + nrva) →
      (if soh < need then (Res.err "eof" : Res Headers)
       else if u32 g (peStart + 24 + nrva) < 5 then Res.err "noroom"
       else if u32 g (peStart + 24 + 60) < peStart + 24 + soh + nsec * 40 then Res.err "secoverlap"
       else if g.length < peStart + 24 + soh + nsec * 40 then Res.err "eof"
       else match fixSections (peStart + 24 + soh + nsec * 40) (u32 g (peStart + 24 + 36)) (rawSections g (peStart + 24 + soh) nsec) (u32 g (peStart + 24 + 60)) with
        | Res.err e => Res.err e
        | Res.panic p => Res.panic p
        | Res.diverge => Res.diverge
        | Res.ok (sections, sizeOfHdr) =>
          if g.length < peStart + 24 + soh + nsec * 40 + (sizeOfHdr - (peStart + 24 + soh + nsec * 40)) then Res.err "eof"
          else Res.ok
            { m := { peStart := peStart, hdrOff := peStart, soh := soh, dd4Start := dd4, posDDCert := peStart + 24 + dd4,
                     secTblStart := peStart + 24 + soh, sizeOfHdr := sizeOfHdr,
                     pageSize := if u16 g (peStart + 4) = 512 ∨ u16 g (peStart + 4) = 388 ∨ u16 g (peStart + 4) = 644 then 8192 else 4096,
                     fileAlign := u32 g (peStart + 24 + 36), certStart := u32 g (peStart + 24 + dd4),
                     certSize := u32 g (peStart + 24 + dd4 + 4), nsec := nsec },
              sections := sections,
              hashed := seg g 0 (peStart + 24 + 64) ++ seg g (peStart + 24 + 68) (peStart + 24 + dd4) ++
                seg g (peStart + 24 + dd4 + 8) (peStart + 24 + soh + nsec * 40 + (sizeOfHdr - (peStart + 24 + soh + nsec * 40))),
              cur := peStart + 24 + soh + nsec * 40 + (sizeOfHdr - (peStart + 24 + soh + nsec * 40)) }) =
      Res.ok { m := { peStart := peStart, hdrOff := hdrOff, soh := soh, dd4Start := dd4Start, posDDCert := posDDCert,
                      secTblStart := secTblStart, sizeOfHdr := sizeOfHdr, pageSize := pageSize, fileAlign := fileAlign,
                      certStart := certStart, certSize := certSize, nsec := nsec },
               sections := sections, hashed := hashed, cur := cur } := by
    intro need nrva dd4 hd4 hneed hnr
    subst hd4
    rw [if_neg (by omega), if_neg (by omega), if_neg (by omega), if_neg (by omega)]
    simp only [fix]
    have hc : peStart + 24 + soh + nsec * 40 + (sizeOfHdr - (peStart + 24 + soh + nsec * 40)) = sizeOfHdr := by omega
    rw [hc, if_neg (by omega)]
    subst hcur off dd tbl fa
    rw [page, hcs, hcz, hhashed]
  rcases variant with ⟨hm, hd4, hneed, hnr⟩ | ⟨hm, hd4, hneed, hnr⟩
  · simp only [hm, if_true]
    exact key 224 92 128 hd4.symm hneed hnr
  · rw [if_neg (by omega), if_pos hm]
    exact key 240 108 144 hd4.symm hneed hnr

/-! ### the frame: `readHeaders` reads only `[0, cur)`, and of the bytes `[dd, dd+8)` nothing but the two values -/

/-- `g` agrees with `f` on every read below `n` that stays clear of `[dd, dd+8)` -/
def Agree (f g : Bytes) (dd n : Nat) : Prop :=
  n ≤ f.length ∧ n ≤ g.length ∧ ∀ a b, b ≤ n → (b ≤ dd ∨ dd + 8 ≤ a) → seg g a b = seg f a b

theorem Agree.u16_lo {f g : Bytes} {dd n : Nat} (A : Agree f g dd n) (off : Nat) (h1 : off + 2 ≤ dd) (h2 : dd ≤ n) :
    u16 g off = u16 f off := by
  unfold u16; rw [A.2.2 _ _ (by omega) (Or.inl h1)]

theorem Agree.u32_lo {f g : Bytes} {dd n : Nat} (A : Agree f g dd n) (off : Nat) (h1 : off + 4 ≤ dd) (h2 : dd ≤ n) :
    u32 g off = u32 f off := by
  unfold u32; rw [A.2.2 _ _ (by omega) (Or.inl h1)]

theorem Agree.u32_hi {f g : Bytes} {dd n : Nat} (A : Agree f g dd n) (off : Nat) (h1 : dd + 8 ≤ off) (h2 : off + 4 ≤ n) :
    u32 g off = u32 f off := by
  unfold u32; rw [A.2.2 _ _ h2 (Or.inr h1)]

theorem Agree.rawSections_eq {f g : Bytes} {dd n : Nat} (A : Agree f g dd n) (k tbl : Nat) (h1 : dd + 8 ≤ tbl)
    (h2 : tbl + k * 40 ≤ n) : rawSections g tbl k = rawSections f tbl k := by
  induction k generalizing tbl with
  | zero => rfl
  | succ k ih =>
    simp only [rawSections]
    rw [A.u32_hi _ (by omega) (by omega), A.u32_hi _ (by omega) (by omega), ih _ (by omega) (by omega)]

/-- **frame lemma.** -/
theorem HeadersFull.frame {f g : Bytes} {h : Headers} (F : HeadersFull f h) (A : Agree f g h.m.posDDCert h.cur) :
    HeadersFull g { h with m := { h.m with certStart := u32 g h.m.posDDCert, certSize := u32 g (h.m.posDDCert + 4) } } := by
  have hEnd := F.tblEndLe
  have hdd := F.dd
  have h64 := F.pe64
  have hv : (h.m.dd4Start = 128 ∨ h.m.dd4Start = 144) ∧ 224 ≤ h.m.soh ∧ h.m.dd4Start + 8 ≤ h.m.soh := by
    rcases F.variant with v | v <;> omega
  have r60 : u32 g 60 = u32 f 60 := A.u32_lo _ (by omega) (by omega)
  refine ⟨?_, ?_, F.pe64, F.off, ?_, ?_, ?_, ?_, ?_, F.dd, F.tbl, ?_, ?_, ?_, F.cur, A.2.1, ?_, rfl, rfl⟩
  · rw [A.2.2 _ _ (by omega) (Or.inl (by omega))]; exact F.mz
  · (try simp only); rw [r60]; exact F.pe
  · (try simp only); rw [A.2.2 _ _ (by omega) (Or.inl (by omega))]; exact F.sig
  · (try simp only); rw [A.u16_lo _ (by omega) (by omega)]; exact F.soh
  · (try simp only); rw [A.u16_lo _ (by omega) (by omega)]; exact F.nsec
  · (try simp only); rw [A.u16_lo _ (by omega) (by omega)]; exact F.page
  · (try simp only)
    rw [A.u16_lo _ (by omega) (by omega), A.u32_lo (h.m.peStart + 24 + 92) (by omega) (by omega),
      A.u32_lo (h.m.peStart + 24 + 108) (by omega) (by omega)]
    exact F.variant
  · (try simp only); rw [A.u32_lo _ (by omega) (by omega)]; exact F.fa
  · (try simp only); rw [A.u32_lo _ (by omega) (by omega)]; exact F.noOverlap
  · (try simp only)
    rw [A.u32_lo (h.m.peStart + 24 + 36) (by omega) (by omega), A.u32_lo (h.m.peStart + 24 + 60) (by omega) (by omega),
      A.rawSections_eq _ _ (by omega) (by omega)]
    exact F.fix
  · (try simp only)
    rw [A.2.2 _ _ (by omega) (Or.inl (by omega)), A.2.2 _ _ (by omega) (Or.inl (Nat.le_refl _)),
      A.2.2 _ _ (Nat.le_refl _) (Or.inr (Nat.le_refl _))]
    exact F.hashed

/-- the frame property of `readHeaders`, in one statement -/
theorem readHeaders_frame (f g : Bytes) (h : Headers) (hp : 64 ≤ u32 f 0x3c) (e : readHeaders f = .ok h)
    (A : Agree f g h.m.posDDCert h.cur) :
    readHeaders g = .ok { h with m := { h.m with certStart := u32 g h.m.posDDCert,
                                                   certSize := u32 g (h.m.posDDCert + 4) } } :=
  readHeaders_complete g _ ((readHeaders_full f h hp e).frame A)

/-! ### generic facts about `seg` -/

theorem seg_append_right (X Y : Bytes) (a b : Nat) (h : X.length ≤ a) :
    seg (X ++ Y) a b = seg Y (a - X.length) (b - X.length) := by
  unfold seg
  rw [List.drop_append, List.drop_eq_nil_of_le h, List.nil_append]
  congr 1
  omega

theorem seg_append_left (Y Z : Bytes) (a b : Nat) (h : b ≤ Y.length) : seg (Y ++ Z) a b = seg Y a b := by
  unfold seg
  by_cases hab : a ≤ b
  · rw [List.drop_append_of_le_length (by omega), List.take_append_of_le_length (by simp [List.length_drop]; omega)]
  · have : b - a = 0 := by omega
    simp [this]

theorem seg_seg (f : Bytes) (x y a b : Nat) (h : x + b ≤ y) : seg (seg f x y) a b = seg f (x + a) (x + b) := by
  unfold seg
  rw [List.drop_take, List.take_take, List.drop_drop]
  congr 1
  omega

/-- reads between the data-directory entry and the old end of image see the original bytes -/
theorem seg_signed_mid (f : Bytes) (d : Digest) (sig : Bytes) (H : DigestOk f d) (a b : Nat)
    (ha : d.m.posDDCert + 8 ≤ a) (hb : b ≤ d.origSize) : seg (signedBytes f d sig) a b = seg f a b := by
  have h1 := H.ddLe
  have h2 := H.origLe
  have lt : (List.take d.m.posDDCert f).length = d.m.posDDCert := by simp [List.length_take]; omega
  have lm : (seg f (d.m.posDDCert + 8) d.origSize).length = d.origSize - (d.m.posDDCert + 8) := seg_length f _ _ h2
  unfold signedBytes
  have l8 : (leBytes 4 d.certStart ++ leBytes 4 ((8 + ceil8 sig.length + 0) % 2 ^ 32)).length = 8 := by simp
  generalize leBytes 4 d.certStart ++ leBytes 4 ((8 + ceil8 sig.length + 0) % 2 ^ 32) = ddb at l8 ⊢
  have e : List.take d.m.posDDCert f ++ ddb ++ seg f (d.m.posDDCert + 8) d.origSize ++
        List.replicate (d.certStart - d.origSize) 0 ++ certTable sig
      = (List.take d.m.posDDCert f ++ ddb) ++ (seg f (d.m.posDDCert + 8) d.origSize ++
        (List.replicate (d.certStart - d.origSize) 0 ++ certTable sig)) := by simp [List.append_assoc]
  have lx : (List.take d.m.posDDCert f ++ ddb).length = d.m.posDDCert + 8 := by simp [lt, l8]
  by_cases hab : a ≤ b
  · rw [e, seg_append_right _ _ _ _ (by omega), lx, seg_append_left _ _ _ _ (by omega), seg_seg _ _ _ _ _ (by omega)]
    congr 1 <;> omega
  · have : b - a = 0 := by omega
    simp [seg, this]

/-! ### re-digesting the signed file succeeds -/

theorem readSectionData_mono (flen : Nat) (ss : List Section) (i cur next c n : Nat) (ex : List (Nat × Nat × Nat))
    (e : readSectionData flen ss i cur next = .ok (c, n, ex)) :
    cur ≤ c ∧ ∀ flen', c ≤ flen' → readSectionData flen' ss i cur next = .ok (c, n, ex) := by
  induction ss generalizing i cur next c n ex with
  | nil =>
    simp [readSectionData] at e
    obtain ⟨e1, e2, e3⟩ := e
    subst e1 e2 e3
    exact ⟨Nat.le_refl _, fun _ _ => by simp [readSectionData]⟩
  | cons s rest ih =>
    simp only [readSectionData] at e ⊢
    by_cases z : s.size = 0
    · rw [if_pos z] at e
      simp only [z, if_true]
      exact ih _ _ _ _ _ _ e
    · rw [if_neg z] at e
      by_cases o : s.ptr ≠ next
      · simp [o] at e
      rw [if_neg o] at e
      by_cases l : flen < cur + s.size
      · simp [l] at e
      rw [if_neg l] at e
      cases hr : readSectionData flen rest (i + 1) (cur + s.size) (next + s.size) with
      | ok v =>
        obtain ⟨c', n', ex'⟩ := v
        simp only [hr] at e
        injection e with e; injection e with e1 e2; injection e2 with e2 e3
        subst e1 e2 e3
        obtain ⟨g1, g2⟩ := ih _ _ _ _ _ _ hr
        refine ⟨by omega, fun flen' hf => ?_⟩
        rw [if_neg z, if_neg o, if_neg (by omega), g2 flen' hf]
      | err _ => simp [hr] at e
      | panic _ => simp [hr] at e
      | diverge => simp [hr] at e

/-- the intermediate values of a successful `DigestPE` -/
theorem DigestPE_inv (f : Bytes) (d : Digest) (hp : 64 ≤ u32 f 0x3c) (e : DigestPE f = .ok d) :
    ∃ h cur2 ex, readHeaders f = .ok h ∧ d.m = h.m ∧
      readSectionData f.length h.sections 0 (h.cur + gapOf h.sections h.m.sizeOfHdr)
        (h.cur + gapOf h.sections h.m.sizeOfHdr) = .ok (cur2, cur2, ex) ∧
      h.cur + gapOf h.sections h.m.sizeOfHdr ≤ cur2 ∧ cur2 ≤ d.origSize := by
  unfold DigestPE at e
  cases hh : readHeaders f with
  | err _ => simp [hh] at e
  | panic _ => simp [hh] at e
  | diverge => simp [hh] at e
  | ok h =>
    have H := readHeaders_spec f h hp hh
    simp only [hh] at e
    generalize hgap : gapOf h.sections h.m.sizeOfHdr = gap at e
    by_cases g1 : f.length < h.cur + gap
    · simp [g1] at e
    rw [if_neg g1] at e
    have hnext : (if gap = 0 then h.m.sizeOfHdr else h.m.sizeOfHdr + gap) = h.cur + gap := by
      rw [H.cur]; split <;> omega
    rw [hnext] at e
    cases hs : readSectionData f.length h.sections 0 (h.cur + gap) (h.cur + gap) with
    | err _ => simp [hs] at e
    | panic _ => simp [hs] at e
    | diverge => simp [hs] at e
    | ok v =>
      obtain ⟨cur2, next2, extents⟩ := v
      simp only [hs] at e
      obtain ⟨e1, e2, e3⟩ := readSectionData_spec _ _ _ _ _ _ _ _ hs rfl (by omega)
      subst e1
      refine ⟨h, cur2, extents, rfl, ?_, by rw [hgap]; exact hs, by rw [hgap]; exact e2, ?_⟩
      · by_cases t1 : h.m.certSize = 0
        · rw [if_pos t1] at e
          injection e with e; subst e; rfl
        · rw [if_neg t1] at e
          by_cases t2 : h.m.certStart < cur2
          · simp [t2] at e
          rw [if_neg t2] at e
          by_cases t3 : f.length < cur2 + (h.m.certStart - cur2)
          · simp [t3] at e
          rw [if_neg t3] at e
          by_cases t4 : f.length < cur2 + (h.m.certStart - cur2) + h.m.certSize
          · simp [t4] at e
          rw [if_neg t4] at e
          by_cases t5 : cur2 + (h.m.certStart - cur2) + h.m.certSize < f.length
          · simp [t5] at e
          rw [if_neg t5] at e
          injection e with e; subst e; rfl
      · by_cases t1 : h.m.certSize = 0
        · rw [if_pos t1] at e
          injection e with e; subst e; simp only; omega
        · rw [if_neg t1] at e
          by_cases t2 : h.m.certStart < cur2
          · simp [t2] at e
          rw [if_neg t2] at e
          by_cases t3 : f.length < cur2 + (h.m.certStart - cur2)
          · simp [t3] at e
          rw [if_neg t3] at e
          by_cases t4 : f.length < cur2 + (h.m.certStart - cur2) + h.m.certSize
          · simp [t4] at e
          rw [if_neg t4] at e
          by_cases t5 : cur2 + (h.m.certStart - cur2) + h.m.certSize < f.length
          · simp [t5] at e
          rw [if_neg t5] at e
          injection e with e; subst e; simp only; omega

/-- the signed file agrees with the original on everything the header parser reads -/
theorem agree_signed (f : Bytes) (d : Digest) (sig : Bytes) (H : DigestOk f d) (n : Nat) (hn : n ≤ d.origSize) :
    Agree f (signedBytes f d sig) d.m.posDDCert n := by
  have h2 := H.origLe
  have h3 := H.padLe
  refine ⟨by omega, by rw [signedBytes_length f d sig H]; omega, fun a b hb hab => ?_⟩
  rcases hab with hab | hab
  · exact seg_signed_prefix f d sig H a b hab
  · exact seg_signed_mid f d sig H a b hab (by omega)

/-- the header of the signed file parses to the same values, with the new data-directory entry -/
theorem readHeaders_signed (f : Bytes) (d : Digest) (sig : Bytes) (h : Headers) (hp : 64 ≤ u32 f 0x3c)
    (e : DigestPE f = .ok d) (hh : readHeaders f = .ok h) (hcs : d.certStart < 2 ^ 32) (hsig : 8 + ceil8 sig.length < 2 ^ 32) :
    readHeaders (signedBytes f d sig) =
      .ok { h with m := { h.m with certStart := d.certStart, certSize := 8 + ceil8 sig.length } } := by
  have H := DigestPE_spec f d hp e
  obtain ⟨h0, cur2, ex, hh0, hm, hs, hge, hle⟩ := DigestPE_inv f d hp e
  rw [hh] at hh0
  injection hh0 with hh0
  subst hh0
  have A := agree_signed f d sig H h.cur (by omega)
  rw [hm] at A
  have hg := readHeaders_frame f _ h hp hh A
  obtain ⟨s1, s2⟩ := seg_signed_dd f d sig H
  have cs' : u32 (signedBytes f d sig) h.m.posDDCert = d.certStart := by
    rw [← hm]; unfold u32; rw [s1, leVal_leBytes_of_lt 4 _ (by omega)]
  have cz' : u32 (signedBytes f d sig) (h.m.posDDCert + 4) = 8 + ceil8 sig.length := by
    rw [← hm]; unfold u32
    have : 8 + ceil8 sig.length + 0 = 8 + ceil8 sig.length := by omega
    rw [s2, this, Nat.mod_eq_of_lt hsig, leVal_leBytes_of_lt 4 _ (by omega)]
  rw [cs', cz'] at hg
  exact hg

/-- **re-digesting the signed file succeeds** -/
theorem DigestPE_signed_ok (f : Bytes) (d : Digest) (sig : Bytes) (hp : 64 ≤ u32 f 0x3c)
    (e : DigestPE f = .ok d) (hcs : d.certStart < 2 ^ 32) (hsig : 8 + ceil8 sig.length < 2 ^ 32) :
    ∃ d', DigestPE (signedBytes f d sig) = .ok d' := by
  have H := DigestPE_spec f d hp e
  obtain ⟨h, cur2, ex, hh, hm, hs, hge, hle⟩ := DigestPE_inv f d hp e
  have Hh := readHeaders_spec f h hp hh
  have hg := readHeaders_signed f d sig h hp e hh hcs hsig
  have hl := signedBytes_length f d sig H
  have h3 := H.padLe
  generalize signedBytes f d sig = g at hg hl ⊢
  unfold DigestPE
  rw [hg]
  simp only
  generalize gapOf h.sections h.m.sizeOfHdr = gap at hs hge ⊢
  have hnext : (if gap = 0 then h.m.sizeOfHdr else h.m.sizeOfHdr + gap) = h.cur + gap := by
    rw [Hh.cur]; split <;> omega
  rw [hnext, if_neg (by omega), (readSectionData_mono _ _ _ _ _ _ _ _ hs).2 g.length (by omega)]
  simp only
  rw [if_neg (by omega), if_neg (by omega), if_neg (by omega), if_neg (by omega), if_neg (by omega)]
  exact ⟨_, rfl⟩

/-! ### the verifier's locator -/

/-- on a file whose headers `readHeaders` accepts, `findSignatures` returns the data-directory entry -/
theorem findSignatures_of_full (f : Bytes) (h : Headers) (F : HeadersFull f h) :
    findSignatures f = .ok (h.m.certStart, h.m.certSize) := by
  have hEnd := F.tblEndLe
  have hcur := F.curLe
  have h64 := F.pe64
  have hsoh : 224 ≤ h.m.soh := by rcases F.variant with v | v <;> omega
  unfold findSignatures
  simp only [← F.pe, ← F.soh]
  rw [if_neg (by omega), if_neg (by simp [F.mz]), if_neg (by omega), if_neg (by simp [F.sig]),
    if_neg (by omega), if_neg (by omega), if_neg (by omega)]
  rw [F.certStart, F.certSize, F.dd]
  rcases F.variant with ⟨hm, hd4, hneed, hnr⟩ | ⟨hm, hd4, hneed, hnr⟩
  · simp only [hm, if_true]
    rw [if_neg (by omega), if_neg (by omega), hd4]
  · rw [if_neg (by omega), if_pos hm]
    simp only
    rw [if_neg (by omega), if_neg (by omega), hd4]

theorem ceil8_ceil8 (n : Nat) : ceil8 (8 + ceil8 n) = 8 + ceil8 n := by
  unfold ceil8; omega

theorem walkCerts_nil (fuel : Nat) : walkCerts fuel [] = .ok [] := by
  cases fuel <;> simp [walkCerts]

/-- the table `MakePatch` writes holds exactly one entry: the signature, zero-padded to 8 -/
theorem walkCerts_certTable (sig : Bytes) (hsig : 8 + ceil8 sig.length < 2 ^ 32) :
    walkCerts (8 + ceil8 sig.length) (certTable sig)
      = .ok [sig ++ List.replicate (ceil8 sig.length - sig.length) 0] := by
  have hl := certTable_length sig
  have hle : sig.length ≤ ceil8 sig.length := by unfold ceil8; omega
  have e : 8 + ceil8 sig.length = (7 + ceil8 sig.length) + 1 := by omega
  have t4 : (certTable sig).take 4 = leBytes 4 (8 + ceil8 sig.length) := by
    unfold certTable
    simp only [List.append_assoc]
    rw [List.take_left' (leBytes_length 4 _)]
  have d8 : (certTable sig).drop 8 = sig ++ List.replicate (ceil8 sig.length - sig.length) 0 := by
    unfold certTable
    have : (leBytes 4 (8 + ceil8 sig.length) ++ leBytes 2 0x0200 ++ leBytes 2 0x0002).length = 8 := by simp
    simp only [List.append_assoc] at this ⊢
    rw [← List.append_assoc (leBytes 2 512), ← List.append_assoc (leBytes 4 _), List.drop_left' (by simp)]
  have ne : (certTable sig).isEmpty = false := by
    cases hc : certTable sig with
    | nil => rw [hc] at hl; simp at hl; omega
    | cons _ _ => rfl
  conv => lhs; rw [e]
  unfold walkCerts
  rw [ne]
  simp only [Bool.false_eq_true, if_false]
  rw [t4, leVal_leBytes_of_lt 4 _ (by omega), ceil8_ceil8, hl, if_neg (by omega), if_neg (by omega)]
  rw [List.drop_eq_nil_of_le (by omega), walkCerts_nil, d8]
  have : 8 + ceil8 sig.length - 8 = (sig ++ List.replicate (ceil8 sig.length - sig.length) (0 : UInt8)).length := by
    simp; omega
  rw [this, List.take_length]

theorem seg_signed_table (f : Bytes) (d : Digest) (sig : Bytes) (H : DigestOk f d) :
    seg (signedBytes f d sig) d.certStart (d.certStart + (8 + ceil8 sig.length)) = certTable sig := by
  have h1 := H.ddLe
  have h2 := H.origLe
  have h3 := H.padLe
  have lp : (f.take d.m.posDDCert ++
    (leBytes 4 d.certStart ++ leBytes 4 ((8 + ceil8 sig.length + 0) % 2 ^ 32)) ++
    seg f (d.m.posDDCert + 8) d.origSize ++ List.replicate (d.certStart - d.origSize) 0).length = d.certStart := by
    simp [seg_length f _ _ h2, List.length_take]; omega
  unfold signedBytes
  rw [seg_append_right _ _ _ _ (by omega), lp]
  unfold seg
  have : d.certStart + (8 + ceil8 sig.length) - d.certStart - 0 = (certTable sig).length := by
    rw [certTable_length]; omega
  rw [Nat.sub_self, List.drop_zero, this, List.take_length]

/-- **the locator finds exactly the embedded blob** -/
theorem locate_signed (f : Bytes) (d : Digest) (sig : Bytes) (hp : 64 ≤ u32 f 0x3c)
    (e : DigestPE f = .ok d) (hcs : d.certStart < 2 ^ 32) (hsig : 8 + ceil8 sig.length < 2 ^ 32) :
    locate (signedBytes f d sig) = .ok [sig ++ List.replicate (ceil8 sig.length - sig.length) 0] := by
  have H := DigestPE_spec f d hp e
  obtain ⟨h, cur2, ex, hh, hm, hs, hge, hle⟩ := DigestPE_inv f d hp e
  have hg := readHeaders_signed f d sig h hp e hh hcs hsig
  have hP : u32 (signedBytes f d sig) 0x3c = u32 f 0x3c := by
    have := H.dd; have := H.pe; have := H.dd4
    unfold u32; rw [seg_signed_prefix f d sig H _ _ (by omega)]
  have F' := readHeaders_full _ _ (by rw [hP]; exact hp) hg
  have hf := findSignatures_of_full _ _ F'
  simp only at hf
  have hl := signedBytes_length f d sig H
  have ht := seg_signed_table f d sig H
  unfold locate
  rw [hf]
  simp only
  rw [if_neg (by omega), if_neg (by omega), ht]
  exact walkCerts_certTable sig hsig

end Relic.PE

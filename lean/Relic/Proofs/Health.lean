/- helper lemmas for C20 (health counter and loop skeleton) -/
import Relic.Model.Health
import Relic.Model.HealthLoop
namespace Relic.Health

theorem trailingFailures_nil : trailingFailures [] = 0 := rfl

theorem trailingFailures_snoc_true (h : List Bool) : trailingFailures (h ++ [true]) = 0 := by
  simp [trailingFailures]

theorem trailingFailures_snoc_false (h : List Bool) :
    trailingFailures (h ++ [false]) = trailingFailures h + 1 := by
  simp [trailingFailures]

theorem runFrom_snoc (N : Int) (st : State) (h : History) (e : Bool × Int) :
    runFrom N st (h ++ [e]) = check N (runFrom N st h) e.1 e.2 := by
  simp [runFrom]

/-- status after a history, stated for reversed lists so that plain list induction applies -/
theorem status_rev (N t0 : Int) (hN : 1 ≤ N) (l : History) :
    (runFrom N (start N t0) l.reverse).status
      = N - min N (trailingFailures (l.reverse.map (·.1)) : Int) := by
  induction l with
  | nil => simp [runFrom, start, trailingFailures]; omega
  | cons e r ih =>
    obtain ⟨b, t⟩ := e
    rw [List.reverse_cons, runFrom_snoc, List.map_append]
    cases b with
    | true =>
      simp only [check, List.map_cons, List.map_nil, trailingFailures_snoc_true]
      simp; omega
    | false =>
      simp only [check, List.map_cons, List.map_nil, trailingFailures_snoc_false, ih]
      simp
      omega

theorem lastPing_rev (N t0 : Int) (l : History) :
    (runFrom N (start N t0) l.reverse).lastPing = lastCompleted t0 l.reverse := by
  cases l with
  | nil => simp [runFrom, start, lastCompleted]
  | cons e r =>
    rw [List.reverse_cons, runFrom_snoc]
    simp [check, lastCompleted]

/-- with a non-positive threshold the counter never moves -/
theorem status_nonpos (N t0 : Int) (hN : N ≤ 0) (l : History) :
    (runFrom N (start N t0) l.reverse).status = N := by
  induction l with
  | nil => simp [runFrom, start]
  | cons e r ih =>
    obtain ⟨b, t⟩ := e
    rw [List.reverse_cons, runFrom_snoc]
    cases b <;> simp [check, ih] <;> omega

/-- `N ≤ |takeWhile p l|` iff the first `N` elements exist and all satisfy `p` -/
theorem le_length_takeWhile {α} (p : α → Bool) (l : List α) (n : Nat) :
    n ≤ (l.takeWhile p).length ↔ n ≤ l.length ∧ ∀ b ∈ l.take n, p b = true := by
  induction l generalizing n with
  | nil => simp
  | cons a r ih =>
    cases n with
    | zero => simp
    | succ n =>
      by_cases h : p a = true
      · simp [h, ih]
      · simp [h]

end Relic.Health

namespace Relic.HealthLoop

theorem exec_quiet (hc : String) (l : List Stmt) (h : l.all (Stmt.quiet hc) = true) :
    (exec l).2 = .fall ∧ hc ∉ (exec l).1 := by
  induction l with
  | nil => simp [exec]
  | cons s r ih =>
    simp only [List.all_cons, Bool.and_eq_true] at h
    have ih := ih h.2
    have h1 := h.1
    cases s with
    | call n =>
      simp only [Stmt.quiet, bne_iff_ne, ne_eq] at h1
      simp only [exec, List.mem_cons, not_or]
      exact ⟨ih.1, fun e => h1 e.symm, ih.2⟩
    | other => simpa [exec] using ih
    | break_ lb => simp [Stmt.quiet] at h1
    | continue_ lb => simp [Stmt.quiet] at h1
    | return_ => simp [Stmt.quiet] at h1
    | unsupported w => simp [Stmt.quiet] at h1

theorem exec_passive (l : List Stmt) (h : l.all Stmt.passive = true) : (exec l).2 = .fall := by
  induction l with
  | nil => simp [exec]
  | cons s r ih =>
    simp only [List.all_cons, Bool.and_eq_true] at h
    have ih := ih h.2
    cases s <;> simp_all [exec, Stmt.passive]

theorem exec_quietEnd (hc : String) (l : List Stmt) (h : quietEnd hc l = true) :
    ((exec l).2 = .fall ∨ (exec l).2 = .ret) ∧ hc ∉ (exec l).1 := by
  induction l with
  | nil => simp [exec]
  | cons s r ih =>
    cases s with
    | call n =>
      simp only [quietEnd, Stmt.quiet, Bool.and_eq_true, bne_iff_ne, ne_eq] at h
      have ih := ih h.2
      simp only [exec, List.mem_cons, not_or]
      exact ⟨ih.1, fun e => h.1 e.symm, ih.2⟩
    | other =>
      simp only [quietEnd, Stmt.quiet, Bool.true_and] at h
      simpa [exec] using ih h
    | break_ lb => simp [quietEnd, Stmt.quiet] at h
    | continue_ lb => simp [quietEnd, Stmt.quiet] at h
    | return_ => simp [exec]
    | unsupported w => simp [quietEnd, Stmt.quiet] at h

theorem exec_endsInExit (hc : String) (ll sl : Option String) (ao : Bool) (l : List Stmt)
    (h : endsInExit hc ll sl ao l = true) :
    hc ∉ (exec l).1 ∧ ((exec l).2 = .ret ∨
      ∃ x, (exec l).2 = .brk (some x) ∧ ll = some x ∧ sl ≠ some x ∧ ao = true) := by
  induction l with
  | nil => simp [endsInExit] at h
  | cons s r ih =>
    cases s with
    | call n =>
      simp only [endsInExit, Stmt.quiet, Bool.and_eq_true] at h
      have ih := ih h.2
      simp only [exec]
      refine ⟨?_, ih.2⟩
      simp only [List.mem_cons, not_or]
      refine ⟨fun e => ?_, ih.1⟩
      have := h.1
      simp [e] at this
    | other =>
      simp only [endsInExit, Stmt.quiet, Bool.true_and] at h
      simpa [exec] using ih h
    | break_ lb =>
      cases lb with
      | none => simp [endsInExit, Stmt.quiet] at h
      | some x =>
        simp only [endsInExit, Bool.and_eq_true, beq_iff_eq, bne_iff_ne] at h
        simp only [exec]
        exact ⟨by simp, .inr ⟨x, rfl, h.1.1, h.1.2, h.2⟩⟩
    | continue_ lb => simp [endsInExit, Stmt.quiet] at h
    | return_ => simp [exec]
    | unsupported w => simp [endsInExit, Stmt.quiet] at h

/-- the body of a case that cannot end the loop -/
theorem exec_noExit (l : List Stmt)
    (h : l.all (fun s => s.passive || s == .break_ none || s == .continue_ none) = true) :
    (exec l).2 = .fall ∨ (exec l).2 = .brk none ∨ (exec l).2 = .cont none := by
  induction l with
  | nil => simp [exec]
  | cons s r ih =>
    simp only [List.all_cons, Bool.and_eq_true] at h
    have ih := ih h.2
    have h1 := h.1
    cases s with
    | call n => simpa [exec] using ih
    | other => simpa [exec] using ih
    | break_ lb =>
      cases lb with
      | none => simp [exec]
      | some x => simp [Stmt.passive] at h1
    | continue_ lb =>
      cases lb with
      | none => simp [exec]
      | some x => simp [Stmt.passive] at h1
    | return_ => simp [Stmt.passive] at h1
    | unsupported w => simp [Stmt.passive] at h1

theorem run_append (t : Loop) (s1 s2 : List Nat) (calls : List String)
    (h : run t s1 = (.running, calls)) :
    run t (s1 ++ s2) = ((run t s2).1, calls ++ (run t s2).2) := by
  induction s1 generalizing calls with
  | nil =>
    simp only [run, Prod.mk.injEq, true_and] at h
    subst h
    simp
  | cons c cs ih =>
    simp only [List.cons_append, run] at h ⊢
    rcases hi : iter t c with ⟨o, cl⟩
    rw [hi] at h
    cases o with
    | running =>
      simp only [Prod.mk.injEq] at h
      rcases hr : run t cs with ⟨o2, c2⟩
      rw [hr] at h
      simp only at h
      obtain ⟨h1, h2⟩ := h
      subst h1
      have := ih c2 hr
      simp [this, ← h2]
    | exited => simp at h
    | stuck => simp at h

end Relic.HealthLoop

package main

// registration of the scdaemon / assuan token model (harness/scd; first op token SCD) – kept in its own file so that it
// merges without touching main.go.  C14, C07, C11 and C15 keep their own runners; the SCD ops run as a further
// correspondence under the pseudo-properties C14SCD, C07SCD, C11SCD, C15SCD (checklib/models/scd.py `second`), routed by
// first token through hx.Dispatch.

import "verifharness/scd"

func init() {
	handlers["SCD"] = scd.Handle
	for _, p := range []string{"C14", "C07", "C11", "C15"} {
		gens[p+"SCD"] = []genFunc{forProp(p, scd.Gen)}
	}
}

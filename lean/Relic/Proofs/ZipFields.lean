/-
  Relic.Proofs.ZipFields — fixed-layout records as lists of (width, value) fields: reading a field back
  out of the encoding (`fld_encFields`), and the encodings of lib/zipslicer's structs in that form
  (end record, ZIP64 end record and locator, local header, central header).
-/
import Relic.Proofs.ZipCodec
namespace Relic.Zip
open Relic

/-- little-endian fields one after the other -/
def encFields : List (Nat × Nat) → Bytes
  | [] => []
  | (w, v) :: r => leBytes w v ++ encFields r

/-- offset of the `i`-th field -/
def fieldOff : List (Nat × Nat) → Nat → Nat
  | [], _ => 0
  | _ :: _, 0 => 0
  | (w, _) :: r, i + 1 => w + fieldOff r i

def fieldsLen : List (Nat × Nat) → Nat
  | [] => 0
  | (w, _) :: r => w + fieldsLen r

theorem encFields_length : ∀ fs, (encFields fs).length = fieldsLen fs
  | [] => rfl
  | (w, v) :: r => by simp [encFields, fieldsLen, encFields_length r]

/-- the `i`-th field read back: its value modulo its width -/
theorem fld_encFields (rest : Bytes) : ∀ (fs : List (Nat × Nat)) (i : Nat), i < fs.length →
    fld (encFields fs ++ rest) (fieldOff fs i) (fs[i]!).1 = (fs[i]!).2 % 256 ^ (fs[i]!).1 := by
  intro fs
  induction fs with
  | nil => intro i hi; simp at hi
  | cons p r ih =>
    obtain ⟨w, v⟩ := p
    intro i hi
    cases i with
    | zero =>
      simp only [encFields, fieldOff, List.append_assoc, List.getElem!_cons_zero]
      rw [fld_head _ _ w (leBytes_length w v), leVal_leBytes]
    | succ i =>
      simp only [encFields, fieldOff, List.append_assoc, List.getElem!_cons_succ]
      rw [fld_skip _ _ w _ _ (leBytes_length w v)]
      exact ih i (by simpa using hi)

theorem fld_append_left (a b : Bytes) (k w : Nat) (h : k + w ≤ a.length) : fld (a ++ b) k w = fld a k w := by
  unfold fld
  rw [List.drop_append_of_le_length (by omega), List.take_append_of_le_length (by rw [List.length_drop]; omega)]

theorem fld_eq_of_take {x y : Bytes} {L : Nat} (h : x.take L = y.take L) (k w : Nat) (hk : k + w ≤ L) :
    fld x k w = fld y k w := by
  have hx : fld (x.take L) k w = fld x k w := by
    unfold fld; rw [List.drop_take, List.take_take, Nat.min_eq_left (by omega)]
  have hy : fld (y.take L) k w = fld y k w := by
    unfold fld; rw [List.drop_take, List.take_take, Nat.min_eq_left (by omega)]
  rw [← hx, ← hy, h]

/-- a segment inside a prefix -/
theorem seg_take (x : Bytes) (L a b : Nat) (h : a + b ≤ L) : ((x.take L).drop a).take b = (x.drop a).take b := by
  rw [List.drop_take, List.take_take, Nat.min_eq_left (by omega)]

theorem seg_eq_of_take {x y : Bytes} {L : Nat} (h : x.take L = y.take L) (a b : Nat) (hk : a + b ≤ L) :
    (x.drop a).take b = (y.drop a).take b := by
  rw [← seg_take x L a b hk, ← seg_take y L a b hk, h]

/-! ### the structs -/

def endFields (e : EndRec) : List (Nat × Nat) :=
  [(4, e.sig), (2, e.disk), (2, e.diskCD), (2, e.diskCount), (2, e.total), (4, e.cdSize), (4, e.cdOff), (2, e.commentLen)]

theorem encEnd_fields (e : EndRec) : encEnd e = encFields (endFields e) := by
  simp [encEnd, encFields, endFields]

def end64Fields (e : End64) : List (Nat × Nat) :=
  [(4, e.sig), (8, e.recSize), (2, e.creator), (2, e.reader), (4, e.disk), (4, e.firstDisk), (8, e.diskCount),
   (8, e.total), (8, e.cdSize), (8, e.cdOff)]

theorem encEnd64_fields (e : End64) : encEnd64 e = encFields (end64Fields e) := by
  simp [encEnd64, encFields, end64Fields]

def loc64Fields (l : Loc64) : List (Nat × Nat) := [(4, l.sig), (4, l.disk), (8, l.off), (4, l.diskCount)]

theorem encLoc64_fields (l : Loc64) : encLoc64 l = encFields (loc64Fields l) := by
  simp [encLoc64, encFields, loc64Fields]

def lfhFields (l : Lfh) : List (Nat × Nat) :=
  [(4, sigFile), (2, l.reader), (2, l.flags), (2, l.method), (2, l.mtime), (2, l.mdate), (4, l.crc), (4, l.csize),
   (4, l.usize), (2, l.nameLen), (2, l.extraLen)]

theorem encLfh_fields (l : Lfh) : encLfh l = encFields (lfhFields l) := by
  simp [encLfh, encFields, lfhFields]

theorem encEnd_length (e : EndRec) : (encEnd e).length = 22 := by simp [encEnd]
theorem encEnd64_length (e : End64) : (encEnd64 e).length = 56 := by simp [encEnd64]
theorem encLoc64_length (l : Loc64) : (encLoc64 l).length = 20 := by simp [encLoc64]

/-- every field of an encoded end record, read back at its offset (any suffix) -/
theorem fld_encEnd (e : EndRec) (rest : Bytes) :
    fld (encEnd e ++ rest) 0 4 = e.sig % 2 ^ 32 ∧ fld (encEnd e ++ rest) 4 2 = e.disk % 2 ^ 16 ∧
    fld (encEnd e ++ rest) 6 2 = e.diskCD % 2 ^ 16 ∧ fld (encEnd e ++ rest) 8 2 = e.diskCount % 2 ^ 16 ∧
    fld (encEnd e ++ rest) 10 2 = e.total % 2 ^ 16 ∧ fld (encEnd e ++ rest) 12 4 = e.cdSize % 2 ^ 32 ∧
    fld (encEnd e ++ rest) 16 4 = e.cdOff % 2 ^ 32 ∧ fld (encEnd e ++ rest) 20 2 = e.commentLen % 2 ^ 16 := by
  rw [encEnd_fields]
  have F := fld_encFields rest (endFields e)
  have F0 := F 0 (by simp [endFields]); have F1 := F 1 (by simp [endFields]); have F2 := F 2 (by simp [endFields])
  have F3 := F 3 (by simp [endFields]); have F4 := F 4 (by simp [endFields]); have F5 := F 5 (by simp [endFields])
  have F6 := F 6 (by simp [endFields]); have F7 := F 7 (by simp [endFields])
  simp only [endFields, fieldOff, List.getElem!_cons_zero, List.getElem!_cons_succ, Nat.reduceAdd, Nat.reducePow] at F0 F1 F2 F3 F4 F5 F6 F7
  exact ⟨F0, F1, F2, F3, F4, F5, F6, F7⟩

theorem fld_encEnd64 (e : End64) (rest : Bytes) :
    fld (encEnd64 e ++ rest) 0 4 = e.sig % 2 ^ 32 ∧ fld (encEnd64 e ++ rest) 4 8 = e.recSize % 2 ^ 64 ∧
    fld (encEnd64 e ++ rest) 12 2 = e.creator % 2 ^ 16 ∧ fld (encEnd64 e ++ rest) 14 2 = e.reader % 2 ^ 16 ∧
    fld (encEnd64 e ++ rest) 16 4 = e.disk % 2 ^ 32 ∧ fld (encEnd64 e ++ rest) 20 4 = e.firstDisk % 2 ^ 32 ∧
    fld (encEnd64 e ++ rest) 24 8 = e.diskCount % 2 ^ 64 ∧ fld (encEnd64 e ++ rest) 32 8 = e.total % 2 ^ 64 ∧
    fld (encEnd64 e ++ rest) 40 8 = e.cdSize % 2 ^ 64 ∧ fld (encEnd64 e ++ rest) 48 8 = e.cdOff % 2 ^ 64 := by
  rw [encEnd64_fields]
  have F := fld_encFields rest (end64Fields e)
  have F0 := F 0 (by simp [end64Fields]); have F1 := F 1 (by simp [end64Fields]); have F2 := F 2 (by simp [end64Fields])
  have F3 := F 3 (by simp [end64Fields]); have F4 := F 4 (by simp [end64Fields]); have F5 := F 5 (by simp [end64Fields])
  have F6 := F 6 (by simp [end64Fields]); have F7 := F 7 (by simp [end64Fields]); have F8 := F 8 (by simp [end64Fields])
  have F9 := F 9 (by simp [end64Fields])
  simp only [end64Fields, fieldOff, List.getElem!_cons_zero, List.getElem!_cons_succ, Nat.reduceAdd, Nat.reducePow] at F0 F1 F2 F3 F4 F5 F6 F7 F8 F9
  exact ⟨F0, F1, F2, F3, F4, F5, F6, F7, F8, F9⟩

theorem fld_encLoc64 (l : Loc64) (rest : Bytes) :
    fld (encLoc64 l ++ rest) 0 4 = l.sig % 2 ^ 32 ∧ fld (encLoc64 l ++ rest) 4 4 = l.disk % 2 ^ 32 ∧
    fld (encLoc64 l ++ rest) 8 8 = l.off % 2 ^ 64 ∧ fld (encLoc64 l ++ rest) 16 4 = l.diskCount % 2 ^ 32 := by
  rw [encLoc64_fields]
  have F := fld_encFields rest (loc64Fields l)
  have F0 := F 0 (by simp [loc64Fields]); have F1 := F 1 (by simp [loc64Fields]); have F2 := F 2 (by simp [loc64Fields])
  have F3 := F 3 (by simp [loc64Fields])
  simp only [loc64Fields, fieldOff, List.getElem!_cons_zero, List.getElem!_cons_succ, Nat.reduceAdd, Nat.reducePow] at F0 F1 F2 F3
  exact ⟨F0, F1, F2, F3⟩

/-- the fields of an encoded local header the readers look at -/
theorem fld_encLfh (l : Lfh) (rest : Bytes) :
    fld (encLfh l ++ rest) 0 4 = sigFile ∧ fld (encLfh l ++ rest) 4 2 = l.reader % 2 ^ 16 ∧
    fld (encLfh l ++ rest) 6 2 = l.flags % 2 ^ 16 ∧ fld (encLfh l ++ rest) 8 2 = l.method % 2 ^ 16 ∧
    fld (encLfh l ++ rest) 10 2 = l.mtime % 2 ^ 16 ∧ fld (encLfh l ++ rest) 12 2 = l.mdate % 2 ^ 16 ∧
    fld (encLfh l ++ rest) 14 4 = l.crc % 2 ^ 32 ∧ fld (encLfh l ++ rest) 18 4 = l.csize % 2 ^ 32 ∧
    fld (encLfh l ++ rest) 22 4 = l.usize % 2 ^ 32 ∧ fld (encLfh l ++ rest) 26 2 = l.nameLen % 2 ^ 16 ∧
    fld (encLfh l ++ rest) 28 2 = l.extraLen % 2 ^ 16 := by
  rw [encLfh_fields]
  have F := fld_encFields rest (lfhFields l)
  have F0 := F 0 (by simp [lfhFields]); have F1 := F 1 (by simp [lfhFields]); have F2 := F 2 (by simp [lfhFields])
  have F3 := F 3 (by simp [lfhFields]); have F4 := F 4 (by simp [lfhFields]); have F5 := F 5 (by simp [lfhFields])
  have F6 := F 6 (by simp [lfhFields]); have F7 := F 7 (by simp [lfhFields]); have F8 := F 8 (by simp [lfhFields])
  have F9 := F 9 (by simp [lfhFields]); have F10 := F 10 (by simp [lfhFields])
  simp only [lfhFields, fieldOff, List.getElem!_cons_zero, List.getElem!_cons_succ, Nat.reduceAdd, Nat.reducePow] at F0 F1 F2 F3 F4 F5 F6 F7 F8 F9 F10
  refine ⟨?_, F1, F2, F3, F4, F5, F6, F7, F8, F9, F10⟩
  simp only [lfhFields]
  rw [F0]; decide

/-! ### the central header `GetDirectoryHeader` synthesises -/

/-- the 46 fixed bytes, given the values that go into the 32-bit size/offset fields, the version needed
    and the three lengths -/
def cdhFields (f : File) (rv cs us off nameLen extraLen commentLen : Nat) : List (Nat × Nat) :=
  [(4, sigDir), (2, f.creator), (2, rv), (2, f.flags), (2, f.method), (2, f.mtime), (2, f.mdate), (4, f.crc),
   (4, cs), (4, us), (2, nameLen), (2, extraLen), (2, commentLen), (2, 0), (2, f.iattrs), (4, f.eattrs), (4, off)]

theorem fld_cdh (f : File) (rv cs us off nl el cl : Nat) (rest : Bytes) :
    let h := encFields (cdhFields f rv cs us off nl el cl) ++ rest
    fld h 0 4 = sigDir ∧ fld h 4 2 = f.creator % 2 ^ 16 ∧ fld h 6 2 = rv % 2 ^ 16 ∧ fld h 8 2 = f.flags % 2 ^ 16 ∧
    fld h 10 2 = f.method % 2 ^ 16 ∧ fld h 12 2 = f.mtime % 2 ^ 16 ∧ fld h 14 2 = f.mdate % 2 ^ 16 ∧
    fld h 16 4 = f.crc % 2 ^ 32 ∧ fld h 20 4 = cs % 2 ^ 32 ∧ fld h 24 4 = us % 2 ^ 32 ∧ fld h 28 2 = nl % 2 ^ 16 ∧
    fld h 30 2 = el % 2 ^ 16 ∧ fld h 32 2 = cl % 2 ^ 16 ∧ fld h 36 2 = f.iattrs % 2 ^ 16 ∧
    fld h 38 4 = f.eattrs % 2 ^ 32 ∧ fld h 42 4 = off % 2 ^ 32 := by
  intro h
  have F := fld_encFields rest (cdhFields f rv cs us off nl el cl)
  have F0 := F 0 (by simp [cdhFields]); have F1 := F 1 (by simp [cdhFields]); have F2 := F 2 (by simp [cdhFields])
  have F3 := F 3 (by simp [cdhFields]); have F4 := F 4 (by simp [cdhFields]); have F5 := F 5 (by simp [cdhFields])
  have F6 := F 6 (by simp [cdhFields]); have F7 := F 7 (by simp [cdhFields]); have F8 := F 8 (by simp [cdhFields])
  have F9 := F 9 (by simp [cdhFields]); have F10 := F 10 (by simp [cdhFields]); have F11 := F 11 (by simp [cdhFields])
  have F12 := F 12 (by simp [cdhFields]); have F14 := F 14 (by simp [cdhFields]); have F15 := F 15 (by simp [cdhFields])
  have F16 := F 16 (by simp [cdhFields])
  simp only [cdhFields, fieldOff, List.getElem!_cons_zero, List.getElem!_cons_succ, Nat.reduceAdd, Nat.reducePow] at F0 F1 F2 F3 F4 F5 F6 F7 F8 F9 F10 F11 F12 F14 F15 F16
  refine ⟨?_, F1, F2, F3, F4, F5, F6, F7, F8, F9, F10, F11, F12, F14, F15, F16⟩
  show fld (encFields (cdhFields f rv cs us off nl el cl) ++ rest) 0 4 = sigDir
  simp only [cdhFields] at F0 ⊢
  rw [F0]; decide

theorem cdh_length (f : File) (rv cs us off nl el cl : Nat) : (encFields (cdhFields f rv cs us off nl el cl)).length = 46 := by
  rw [encFields_length]; rfl

end Relic.Zip

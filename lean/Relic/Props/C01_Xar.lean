/-
  C01 — Every signature relic produces verifies.   xar / flat package part (model `Relic.Model.Xar`).

  `Sign` works on the table of contents through etree (`/xar/toc`, `//file/data`, `//data/offset`), `Open` / `Verify` read
  what it wrote through `encoding/xml` structs: two readers with different rules (first vs last child, `Text()` vs all
  character data, untrimmed vs trimmed numbers).  `xar_sign_then_verify` (current tree) shows that on regular documents they
  agree and that the verifier then finds the signature, compares the hash of exactly the TOC bytes the signer wrote, and
  finds every member's bytes at the shifted offset.  Since fix 5d6eee4 the signer enforces the layout and checksum
  conditions itself (`xar_sign_guards`; exactly when it succeeds: `xar_sign_ok_iff`; otherwise a clean error:
  `xar_sign_refusal_is_clean`, `xar_sign_refuses_bad_layouts`), so they are no hypotheses any more; what remains is
  stated in the theorem.
  The tree before the fix: `xar_sign_then_verify_orig` needs them as hypotheses, and `xar_verify_needs_archived_checksum`
  (a member without `<archived-checksum>` was skipped by `Sign` but is refused by `Verify`: finding FXAR1) and C03
  `xar_front_member_lost` (members in front of the old signature area: FXAR3) show that they were needed.
-/
import Relic.Proofs.XarSign
namespace Relic.Props.C01
open Relic Relic.Xar

/-- **xar_sign_guards.**  What a successful run of the current `Sign` (fix 5d6eee4) has established itself: sizes of the
    header sane and the TOC no larger than declared; the old checksum / signature / x-signature areas valid
    (`0 ≤ size ≤ 10^6`, `0 ≤ offset`, numbers readable) and lying back to back from heap offset 0 (`checkSigAreas`), their
    total being the `origSigSize` it works with; every `//file/data` of non-zero length begins behind that area and has an
    `<archived-checksum>`.  Contrapositive: an archive violating one of these is refused (classes toolarge / toc /
    sigfield / sigtile / ffront / fnosum). -/
theorem xar_sign_guards (C : Crypto) (E : Env) (f : Bytes) (hk : HK) (ki : KeyInfo) (so : SignOut)
    (h : (signPlan E f hk ki).run C = .ok so) :
    ∃ hd k0 t n p0 tks, parseHeader f = .ok (hd, k0) ∧ 0 ≤ hd.clen ∧ hd.clen ≤ 1000000 ∧ 0 ≤ hd.ulen ∧ hd.ulen ≤ 10000000 ∧
      E.decode (region f 28 hd.clen) = some (t, n) ∧ (n : Int) ≤ hd.ulen ∧
      prep E.num hk ki t = some p0 ∧ tocKids t = some tks ∧ checkSigAreas E.num tks = .ok so.origSig ∧ 0 ≤ so.origSig ∧
      (∀ d ∈ dRefs E.num none p0.doc1, d.length ≠ 0 → so.origSig ≤ d.offset ∧ d.sum ≠ none) ∧
      so = ⟨hk, adjust E.num true (w64 (p0.newSig - so.origSig)) false p0.doc1, so.origSig, p0.newSig,
            w64 (28 + hd.clen + so.origSig), ki.rsaSize⟩ ∧
      (checkAllStream (f.drop (28 + hd.clen.toNat)) 0 (sortRefs (eRefs E.num p0.doc1))).run C = .ok () := by
  obtain ⟨hd, k0, t, n, p, hp, h1, h2, hdec, hfx, hso, hstream⟩ := signPlanG_ok true C E f hk ki so h
  simp only [↓reduceIte] at hfx
  obtain ⟨hprep, g1, g2, g3, hfc⟩ := hfx
  obtain ⟨p0, tks, s, e1, e2, e3, rfl⟩ := prepFx_ok E.num hk ki t p hprep
  subst hso
  exact ⟨hd, k0, t, n, p0, tks, hp, g1, h1, g2, h2, hdec, g3, e1, e2, e3, checkSigAreas_nonneg E.num tks s e3,
    frontCheck_none s _ hfc, rfl, hstream⟩

/-- **xar_sign_ok_iff** (current tree).  `Sign` succeeds exactly when: the header parses, both TOC sizes lie in
    `[0, 10^6]` / `[0, 10^7]`, the region behind byte 28 inflates (to at most the declared size) and parses, there is a
    `/xar/toc`, the old signature elements are readable and tile the start of the heap (`prepFx`), no member with bytes
    begins in front of the end of that area or lacks an `<archived-checksum>` (`frontCheck`), and every summed member
    checks out on the forward-only heap.  In every other case it returns an error (`xar_sign_refusal_is_clean`). -/
theorem xar_sign_ok_iff (C : Crypto) (E : Env) (f : Bytes) (hk : HK) (ki : KeyInfo) (so : SignOut) :
    (signPlan E f hk ki).run C = .ok so ↔
    ∃ hd k0 t n p, parseHeader f = .ok (hd, k0) ∧ 0 ≤ hd.clen ∧ hd.clen ≤ 1000000 ∧ 0 ≤ hd.ulen ∧ hd.ulen ≤ 10000000 ∧
      E.decode (region f 28 hd.clen) = some (t, n) ∧ (n : Int) ≤ hd.ulen ∧ prepFx E.num hk ki t = .ok p ∧
      frontCheck p.origSig (dRefs E.num none p.doc1) = none ∧
      (checkAllStream (f.drop (28 + hd.clen.toNat)) 0 (sortRefs (eRefs E.num p.doc1))).run C = .ok () ∧
      so = ⟨hk, p.tree E.num true, p.origSig, p.newSig, w64 (28 + hd.clen + p.origSig), ki.rsaSize⟩ := by
  constructor
  · intro h
    obtain ⟨hd, k0, t, n, p, hp, h1, h2, hdec, hfx, hso, hstream⟩ := signPlanG_ok true C E f hk ki so h
    simp only [↓reduceIte] at hfx
    obtain ⟨hprep, g1, g2, g3, hfc⟩ := hfx
    exact ⟨hd, k0, t, n, p, hp, g1, h1, g2, h2, hdec, g3, hprep, hfc, hstream, hso⟩
  · rintro ⟨hd, k0, t, n, p, hp, g1, h1, g2, h2, hdec, g3, hprep, hfc, hstream, hso⟩
    unfold signPlan signPlanG
    have c1 : ¬ (hd.clen > 1000000 ∨ hd.ulen > 10000000) := by omega
    have c2 : ¬ (hd.clen < 0 ∨ hd.ulen < 0) := by omega
    have c3 : ¬ ((n : Int) > hd.ulen) := by omega
    simp only [hp, c1, c2, c3, hdec, hprep, hfc, ↓reduceIte, Bool.true_and, decide_false, Bool.false_eq_true]
    apply run_bind_of_ok C _ _ () so hstream
    rw [hso]
    rfl

/-- **xar_sign_refusal_is_clean.**  `Sign` ends in ok or in an error, never in a panic, on both trees; when it does not end in
    ok there is no `SignOut`, hence no patch (signers/xar returns the error before `SetBinPatch`): the input is not touched. -/
theorem xar_sign_refusal_is_clean (fx : Bool) (C : Crypto) (E : Env) (f : Bytes) (hk : HK) (ki : KeyInfo) :
    (∃ so, (signPlanG fx E f hk ki).run C = .ok so) ∨ ∃ e, (signPlanG fx E f hk ki).run C = .err e := by
  cases hr : (signPlanG fx E f hk ki).run C with
  | ok so => exact Or.inl ⟨so, rfl⟩
  | err e => exact Or.inr ⟨e, rfl⟩
  | panic s =>
    have := runChecks_panic C _ _ s hr
    rcases signPlanG_final fx E f hk ki with ⟨so, h⟩ | ⟨e, h⟩ <;> rw [h] at this <;> cases this
  | diverge =>
    have := runChecks_diverge C _ _ hr
    rcases signPlanG_final fx E f hk ki with ⟨so, h⟩ | ⟨e, h⟩ <;> rw [h] at this <;> cases this

/-- **xar_sign_then_verify** (current tree).  For every hash function `H` of the right output length, every hash kind the
    format has a number for, every key (certificate texts that parse, any chain length, RSA or not), every classic signature
    `rsa` of modulus length and every CMS blob `cms` that fits the reserved space and verifies over `H(compressed TOC)`
    (trailing zero padding is ignored by the BER reader): let `Sign` succeed on input `f`, whose TOC at offset 28 decodes to a
    regular document (`regularDoc`: one `<toc>`; per `<file>` at most one `<data>`; per `<data>` one `<offset>`, at most one
    `<length>` / `<archived-checksum>`, numbers spelled as `ParseInt` accepts them) that `encoding/xml` accepts, and let the
    patch be applicable (the old signature area ends inside the file, `h1`; otherwise `Apply` fails).
    Then `Open` + `Verify` (digests on) on the patched file succeed and name the requested hash: the checksum comparison is
    over the compressed TOC bytes the signer wrote (`open_layout`), the CMS check over their hash, and every member check
    reads, at `newBase + offset + newSigSize − origSigSize`, the bytes `Sign` hashed at `base + offset` (`member_check_after`).
    No hypothesis on checksums, on where members lie, or on the old signature elements: the signer tests those itself. -/
theorem xar_sign_then_verify (C : Crypto) (E : Env) (hE : E.Laws) (hH : ∀ k b, (C.H k b).length = k.size)
    (f : Bytes) (hk : HK) (ki : KeyInfo) (hki : ki.small) (so : SignOut) (rsa cms body : Bytes)
    (hs : (signPlan E f hk ki).run C = .ok so)
    (hb : newBytes C E so rsa cms = some body)
    (hrsa : rsa.length = ki.rsaSize.getD 0)
    (hc1 : ki.certTexts ≠ []) (hc2 : ∀ c ∈ ki.certTexts, E.certOk c = true)
    (hcms : C.cmsOk (cms ++ zeros (so.newSig.toNat - (so.hk.size + rsa.length + cms.length))) (C.H hk (E.encode so.tree).1) = true)
    (hd : Hdr) (k0 : HK) (t : Xml) (n : Nat) (x0 : XToc)
    (hp : parseHeader f = .ok (hd, k0)) (hdec : E.decode (region f 28 hd.clen) = some (t, n))
    (hreg : regularDoc E.num t = true) (hu : unmarshal E.num t = some x0)
    (h1 : 28 + hd.clen + so.origSig ≤ f.length) (hfl : f.length < 2 ^ 60)
    (hzl : (E.encode so.tree).1.length < 2 ^ 40) (hul : (E.encode so.tree).2 ≤ 100000000) :
    ∃ v, (verifyPlan E (written f so.origTotal body) false).run C = .ok v ∧ v.hk = hk := by
  obtain ⟨hd', k0', t', n', p0, tks, hp', g1, _, _, _, hdec', _, hprep, _, _, g0, hmem, hso, hstream⟩ := xar_sign_guards C E f hk ki so hs
  rw [hp] at hp'
  simp only [Except.ok.injEq, Prod.mk.injEq] at hp'
  obtain ⟨rfl, rfl⟩ := hp'
  rw [hdec] at hdec'
  simp only [Option.some.injEq, Prod.mk.injEq] at hdec'
  obtain ⟨rfl, rfl⟩ := hdec'
  generalize hsv : so.origSig = s at *
  subst hso
  simp only at hb hcms hzl hul ⊢
  exact verify_written true C E hE hH f hk ki hki rsa cms body hd k0 t n x0 p0 s hp hprep hstream hb hrsa hc1 hc2 hcms hreg hu
    hmem g0 g1 h1 hfl hzl hul

/-- **xar_sign_then_verify_orig** (tree before 5d6eee4 / a62cce4): the same conclusion needed, as hypotheses, what the signer now
    tests: every `//file/data` of non-zero length behind the old signature area and with an `<archived-checksum>`, a
    non-negative `origSigSize`, a non-negative `CompressedSize`. -/
theorem xar_sign_then_verify_orig (C : Crypto) (E : Env) (hE : E.Laws) (hH : ∀ k b, (C.H k b).length = k.size)
    (f : Bytes) (hk : HK) (ki : KeyInfo) (hki : ki.small) (so : SignOut) (rsa cms body : Bytes)
    (hs : (signPlanOrig E f hk ki).run C = .ok so)
    (hb : newBytes C E so rsa cms = some body)
    (hrsa : rsa.length = ki.rsaSize.getD 0)
    (hc1 : ki.certTexts ≠ []) (hc2 : ∀ c ∈ ki.certTexts, E.certOk c = true)
    (hcms : C.cmsOk (cms ++ zeros (so.newSig.toNat - (so.hk.size + rsa.length + cms.length))) (C.H hk (E.encode so.tree).1) = true)
    (hd : Hdr) (k0 : HK) (t : Xml) (n : Nat) (x0 : XToc)
    (hp : parseHeader f = .ok (hd, k0)) (hdec : E.decode (region f 28 hd.clen) = some (t, n))
    (hreg : regularDoc E.num t = true) (hu : unmarshal E.num t = some x0)
    (hmem : ∀ p, prep E.num hk ki t = some p → ∀ d ∈ dRefs E.num none p.doc1, d.length ≠ 0 → so.origSig ≤ d.offset ∧ d.sum ≠ none)
    (h0 : 0 ≤ so.origSig) (hcl : 0 ≤ hd.clen)
    (h1 : 28 + hd.clen + so.origSig ≤ f.length) (hfl : f.length < 2 ^ 60)
    (hzl : (E.encode so.tree).1.length < 2 ^ 40) (hul : (E.encode so.tree).2 ≤ 100000000) :
    ∃ v, (verifyPlanOrig E (written f so.origTotal body) false).run C = .ok v ∧ v.hk = hk := by
  obtain ⟨hd', k0', t', n', p, hp', _, _, hdec', hprep, hso, hstream⟩ := signPlanG_ok false C E f hk ki so hs
  simp only [Bool.false_eq_true, ↓reduceIte] at hprep
  rw [hp] at hp'
  simp only [Except.ok.injEq, Prod.mk.injEq] at hp'
  obtain ⟨rfl, rfl⟩ := hp'
  rw [hdec] at hdec'
  simp only [Option.some.injEq, Prod.mk.injEq] at hdec'
  obtain ⟨rfl, rfl⟩ := hdec'
  subst hso
  simp only [Prep.tree] at hb hcms hzl hul hmem h0 h1 ⊢
  exact verify_written false C E hE hH f hk ki hki rsa cms body hd k0 t n x0 p p.origSig hp hprep hstream hb hrsa hc1 hc2 hcms
    hreg hu (hmem p hprep) h0 hcl h1 hfl hzl hul

/-- **xar_sign_refuses_bad_layouts** (current tree).  An archive with a `//file/data` of non-zero length that has no
    `<archived-checksum>` (FXAR1), or that begins in front of the end of the old signature area however that area is
    computed (FXAR3), is refused. -/
theorem xar_sign_refuses_bad_layouts (C : Crypto) (E : Env) (f : Bytes) (hk : HK) (ki : KeyInfo)
    (hd : Hdr) (k0 : HK) (t : Xml) (n : Nat) (p0 : Prep)
    (hp : parseHeader f = .ok (hd, k0)) (hdec : E.decode (region f 28 hd.clen) = some (t, n)) (hprep : prep E.num hk ki t = some p0)
    (hbad : ∃ d ∈ dRefs E.num none p0.doc1, d.length ≠ 0 ∧ (d.sum = none ∨ ∀ s, checkSigAreas E.num ((tocKids t).getD []) = .ok s → d.offset < s)) :
    ∀ so, (signPlan E f hk ki).run C ≠ .ok so := by
  intro so h
  obtain ⟨hd', k0', t', n', p0', tks, hp', _, _, _, _, hdec', _, hprep', htk, hck, _, hmem, _, _⟩ := xar_sign_guards C E f hk ki so h
  rw [hp] at hp'
  simp only [Except.ok.injEq, Prod.mk.injEq] at hp'
  obtain ⟨rfl, rfl⟩ := hp'
  rw [hdec] at hdec'
  simp only [Option.some.injEq, Prod.mk.injEq] at hdec'
  obtain ⟨rfl, rfl⟩ := hdec'
  rw [hprep] at hprep'
  simp only [Option.some.injEq] at hprep'
  subst hprep'
  obtain ⟨d, hdm, hl, hor⟩ := hbad
  obtain ⟨m1, m2⟩ := hmem d hdm hl
  rcases hor with hn | hf
  · exact m2 hn
  · have := hf so.origSig (by rw [htk]; exact hck)
    omega

/-- the statement without `regularDoc`: not true on either tree — a `<file>` with two `<data>` children, or a number the two
    readers read differently (`" 5"`), is shifted by etree where `encoding/xml` reads another element / another value
    (exercised by the `dup-*` and `num-text` ops of the malformed stream, where sign → verify is compared with the model) -/
def xar_sign_then_verify_full : Prop :=
  ∀ (C : Crypto) (E : Env), E.Laws → (∀ k b, (C.H k b).length = k.size) →
  ∀ (f : Bytes) (hk : HK) (ki : KeyInfo) (so : SignOut) (rsa cms body : Bytes),
    (signPlan E f hk ki).run C = .ok so → newBytes C E so rsa cms = some body →
    (∀ pad, C.cmsOk (cms ++ zeros pad) (C.H hk (E.encode so.tree).1) = true) →
    ∃ v, (verifyPlan E (written f so.origTotal body) false).run C = .ok v

/-! ### the hypotheses are satisfiable -/

/-- a regular document: one file with data and checksum, one directory with a nested file, white space, foreign elements -/
def xarSampleDoc (off1 off2 : String) : Xml :=
  .el "xar" [] [.tx "\n", .el "toc" [] [
    .el "creation-time" [] [.tx "2024-01-02T03:04:05"],
    .el "checksum" [("style", "sha1")] [.el "offset" [] [.tx "0"], .el "size" [] [.tx "20"]],
    .el "file" [("id", "1")] [.el "name" [] [.tx "a"], .tx " ",
      .el "data" [] [.el "length" [] [.tx "11"], .el "offset" [] [.tx off1], .el "encoding" [("style", "application/octet-stream")] [],
        .el "archived-checksum" [("style", "sha1")] [.tx "00"]]],
    .el "file" [("id", "2")] [.el "name" [] [.tx "d"], .el "type" [] [.tx "directory"],
      .el "file" [("id", "3")] [.el "ea" [] [.el "offset" [] [.tx "9"]],
        .el "data" [] [.el "offset" [] [.tx off2], .el "length" [] [.tx "0"]]]]]]

example (N : Num) (h1 : (N.atoi "20").2 = true) (h2 : (N.atoi "31").2 = true) (h3 : (N.atoi "11").2 = true) (h4 : (N.atoi "0").2 = true) :
    regularDoc N (xarSampleDoc "20" "31") = true := by
  simp [regularDoc, xarSampleDoc, splitFirst, regFileKids, regFile, regData, regDataKid, numOk, allTx, etext, count, named, h1, h2, h3, h4]

/-! ### why `<archived-checksum>` was a hypothesis (tree before 5d6eee4) -/

/-- `checkFiles` on the signing side never looks at a `<data>` without `<archived-checksum>` … -/
theorem xar_sign_skips_unsummed (d : DRef) (h : d.sum = none) : d.toRef? = none := by simp [DRef.toRef?, h]

/-- … **xar_verify_needs_archived_checksum**: while `Verify` hands every struct of non-zero length to `checkFile`, which
    refuses a style other than sha1 / sha256 / sha512 — the empty style of a missing element included — before it reads a
    byte.  So for such an archive `Sign` succeeds (exit 0) and relic's own verifier rejects the result, as it rejects the
    input's member check. -/
theorem xar_verify_needs_archived_checksum (C : Crypto) (f : Bytes) (base : Int) : ∀ (rs : List Ref),
    (∃ r ∈ rs, hkOfStyle r.style = none) → (checkAllAt f base rs).run C ≠ .ok ()
  | [], h => by obtain ⟨r, hr, _⟩ := h; simp at hr
  | x :: xs, h => by
    intro hok
    simp only [checkAllAt] at hok
    obtain ⟨u, h1, h2⟩ := run_bind_ok C _ _ _ hok
    obtain ⟨r, hr, hs⟩ := h
    simp only [List.mem_cons] at hr
    rcases hr with rfl | hr
    · rw [run_ok_iff] at h1
      unfold checkFileAt at h1
      simp [hs, Plan.fail] at h1
    · exact xar_verify_needs_archived_checksum C f base xs ⟨r, hr, hs⟩ h2

example : hkOfStyle "" = none := by decide

end Relic.Props.C01

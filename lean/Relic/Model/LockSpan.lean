/-
  Relic.LockSpan — how a function body uses its mutex, as extracted from the Go source (tools/extractlocks).
  `heldThroughout` is the shape that justifies modelling the body as ONE atomic step of the shared state:
  the first statement takes the lock, the second defers its release, and the body mentions no other lock operation
  (in particular no Unlock in the middle, also not inside a nested block or closure).
-/
namespace Relic.LockSpan

inductive Stmt
  | lock (m : String)
  | deferUnlock (m : String)
  | other
  deriving Repr, DecidableEq

structure Func where
  name : String
  top : List Stmt
  lockCalls : List (String × String)     -- every (receiver, method) of a Lock/Unlock/RLock/RUnlock/TryLock call in the body
  deriving Repr

def heldThroughout (f : Func) : Bool :=
  match f.top with
  | .lock m :: .deferUnlock m' :: rest =>
    m == m' && rest.all (· == .other) &&
    f.lockCalls == [(m, "Lock"), (m, "Unlock")]
  | _ => false

/-! ### use of a shared *os.File by a transform goroutine

  The upload transforms stream the input from a goroutine while the caller keeps the same *os.File for Apply.  A consumer may
  stop reading before the stream ends, so the goroutine can still be reading when Apply seeks and copies the file: the
  goroutine must not go through the file offset.  `positional` = every use is positional (ReadAt, a section reader, the
  directory locator which takes an io.ReaderAt), or reads metadata, or is the size query `Seek(0, io.SeekEnd)` at the very
  start (before the consumer can have returned). -/

structure FileUse where
  name : String
  methods : List (String × String)      -- (method, argument text) of calls on the file itself
  passedTo : List String                -- callees that receive the file as an argument
  escapes : List String                 -- assignments of the file to another variable (not followed: rejected)
  deriving Repr

def positional (u : FileUse) : Bool :=
  u.methods.all (fun (m, a) => m == "ReadAt" || m == "Stat" || m == "Name" || (m == "Seek" && a == "0, io.SeekEnd")) &&
  u.passedTo.all (fun c => c == "io.NewSectionReader" || c == "FindDirectory" || c == "zipslicer.FindDirectory" ||
    c == "signxap.SignatureFrameSize") &&       -- both take an io.ReaderAt
  u.escapes.isEmpty

end Relic.LockSpan

/- line-protocol handler for C06: predicts, from the scenario alone, which requests get a 2xx,
   how many audit lines are added and how many messages the broker receives.  The prediction
   follows the extracted control flow: PublishAudit runs after a successful Sign, tries the AMQP
   sink first and returns on its failure, then the file sink; the response is written only when
   PublishAudit returned nil. -/
import Relic.Model.SignFlow
import Relic.Driver.C06Rec
namespace Relic.Driver.C06
open Relic.SignFlow

/-- does the request reach a successful `mod.Sign`?  (key known, client entitled to it, signer
    known and compatible with the key's certificates, digest known, payload acceptable) -/
def validReq (r : String) : Option Bool :=
  match r.splitOn ":" with
  | [key, client, sigtype, digest, body] =>
    let keyOk := key = "kec" || key = "krsa"
    let allowed := (client = "alice") || (client = "bob" && key = "kec")
    let sigOk := sigtype = "cosign" || sigtype = "ps" || (sigtype = "pgp" && key = "krsa")
    let digOk := digest = "sha256" || digest = "sha384" || digest = "sha512"
    let bodyOk := !(sigtype = "cosign" && body = "bad")   -- body "big": a good payload under a 4.8 kB file name
    some (keyOk && allowed && sigOk && digOk && bodyOk)
  | _ => none

/-- fault script for the extracted `PublishAudit` body: one entry per configured sink, in order -/
def sinkCfg (fmode amode : String) : Cfg := ⟨amode != "none", fmode != "none"⟩
def amqpFails (amode : String) : Bool := amode != "ok" && amode != "none"
def fileFails (fmode : String) : Bool := fmode != "ok" && fmode != "none"

/-- run the tiny reference flow sign → publish(amqp → file) → respond on the model semantics -/
def flow : Stmt :=
  Stmt.seqs [.call .sign true, .ifErrReturn, .call .publishAudit true, .ifErrReturn, .writeRw, .ret .lastErr]
def publish : Stmt :=
  Stmt.seqs [.ite (.configured .amqp) (Stmt.seqs [.call .publishAmqp true, .ifErrReturn]) .skip,
             .ite (.configured .file) (Stmt.seqs [.call .appendTo true, .ifErrReturn]) .skip, .ret .nil]

def outcome (fmode amode : String) (valid : Bool) : Result :=
  let cfg := sinkCfg fmode amode
  let script : Script :=
    [if valid then 0 else 1] ++ (if cfg.amqp then [if amqpFails amode then 1 else 0] else [])
      ++ (if cfg.file then [if fileFails fmode then 1 else 0] else [])
  runTop cfg publish flow script

def handle : List String → String
  | "rec" :: rest => Relic.Driver.C06Rec.handle ("rec" :: rest)
  | kind :: fmode :: amode :: _pre :: n :: reqs =>
    if kind != "seq" && kind != "conc" then "bad-op" else
    match n.toNat?, reqs.mapM validReq with
    | some n, some vs =>
      if n != vs.length then "bad-op" else
      let rs := vs.map (outcome fmode amode)
      let st := String.ofList (rs.map fun r => if r.trace.contains .response then '2' else 'e')
      -- a message that reached a nack-ing broker was received by it, though not "delivered"
      let lines := (rs.filter fun r => r.trace.contains (.delivered .file)).length
      let amqp := (rs.filter fun r => r.trace.contains (.delivered .amqp) || r.trace.contains (.sinkFailed .amqp) && amode = "nack").length
      let tag := if (amqpFails amode || fileFails fmode) then "sinkfail" else if vs.all id then "allvalid" else "mixed"
      s!"ok st={st} lines={lines} amqp={amqp} #{kind}:{tag}"
    | _, _ => "bad-op"
  | _ => "bad-op"

end Relic.Driver.C06

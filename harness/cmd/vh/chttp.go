package main

// registration of the compression-layer model (harness/chttp; first op token CHTTP) – kept in its own file so that it
// merges without touching main.go.  The properties it serves keep their own runners; the CHTTP ops run as a second
// correspondence under the pseudo-properties C09CH, C11CH and C14CH (checklib/models/chttp.py `second`), routed by
// first token through hx.Dispatch.

import "verifharness/chttp"

func init() {
	handlers["CHTTP"] = chttp.Handle
	gens["C09CH"] = []genFunc{forProp("C09", chttp.Gen)}
	gens["C11CH"] = []genFunc{forProp("C11", chttp.Gen)}
	gens["C14CH"] = []genFunc{forProp("C14", chttp.Gen)}
}

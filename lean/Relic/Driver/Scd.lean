/- line-protocol handlers for the scdaemon / assuan token model (first token SCD; used by C14, C07, C11, C15) -/
import Relic.Model.ScdToken
import Relic.Model.FileToken
namespace Relic.Driver.Scd
open Relic Relic.Assuan Relic.ScdToken

def hx (b : Bytes) : String := toHex b

def unhexOpt (s : String) : Option Bytes := fromHex s

def field (fs : List String) (k : String) : Option String :=
  (fs.find? (·.startsWith (k ++ "="))).map fun s => (s.drop (k.length + 1)).toString

def plain (s : String) : Bytes := if s = "-" then [] else Assuan.ascii s

/-! ### placeholders for what only the Go side can compute (real RSA keys and signatures) -/

def csAtom (b : Bytes) : Bytes := decDigits b.length ++ [58] ++ b
def csList (items : List Bytes) : Bytes := [40] ++ items.flatten ++ [41]

/-- READKEY answer of the honest daemon: slot n's public key, with the modulus replaced by the two bytes EE <n> -/
def pubBlob (n kind : Nat) : Bytes :=
  if kind = 0 then
    csList [csAtom (Assuan.ascii "public-key"), csList [csAtom (Assuan.ascii "rsa"),
      csList [csAtom [110], csAtom [0, 0xEE, UInt8.ofNat n]], csList [csAtom [101], csAtom [1, 0, 1]]]]
  else
    csList [csAtom (Assuan.ascii "public-key"), csList [csAtom (Assuan.ascii "ecc"),
      csList [csAtom (Assuan.ascii "curve"), csAtom (Assuan.ascii "NIST P-256")], csList [csAtom [113], csAtom [4, 0xEC, UInt8.ofNat n]]]]

def lowerHexB (b : Bytes) : Bytes := Assuan.ascii (if b.isEmpty then "-" else toHex b)

/-- the signature of slot n over (hash, digest), as the text the harness prints after VERIFYING the real signature -/
def sigOf (n : Nat) (hash d : Bytes) : Bytes :=
  Assuan.ascii "sig." ++ decDigits n ++ [46] ++ hash ++ [46] ++ lowerHexB d

def strOf (b : Bytes) : String := String.ofList (b.map fun c => Char.ofNat c.toNat)

def showBlob (b : Bytes) : String :=
  if (Assuan.ascii "sig.").isPrefixOf b then strOf b else "raw." ++ hx b

def showPub (p : RsaPub) : String :=
  let h := (Nat.toDigits 16 p.n)
  "n" ++ String.ofList h ++ "e" ++ toString p.e

def showOut {α} (o : Out α) (f : α → String) : String :=
  match o with
  | .ok a => f a
  | .fail e => "err:" ++ e.cls
  | .panic s => "panic:" ++ (s.replace " " "_")
  | .block => "block"

def showLog (l : List Bytes) : String := if l.isEmpty then "-" else ",".intercalate (l.map hx)

/-! ### parsing -/

def parseSlots (s : String) : Option (List Slot) :=
  if s = "-" then some [] else
  (s.splitOn ",").mapM fun it =>
    match it.toList with
    | [d, 'r'] => some ⟨d.toNat - 48, 0⟩
    | [d, 'e'] => some ⟨d.toNat - 48, 1⟩
    | [d, 'x'] => some ⟨d.toNat - 48, 2⟩
    | _ => none

def parseD (s : String) : Option Honest :=
  match s.splitOn "/" with
  | [serial, pin, inq, slots] => do
    let p ← unhexOpt pin
    let sl ← parseSlots slots
    pure { serial := plain serial, pin := p, inqSign := inq = "1", slots := sl, data := none, awaiting := none, answer := [],
           pubBlob := pubBlob, sigOf := sigOf }
  | _ => none

def parseKeys (s : String) : Option (List KeyConf) :=
  if s = "-" then some [] else
  (s.splitOn ",").mapM fun it =>
    match it.splitOn ":" with
    | [n, id] => do pure ⟨n, ← unhexOpt id⟩
    | _ => none

def parseC (s : String) (keys : List KeyConf) : Option TokenConf :=
  match s.splitOn "/" with
  | [serial, pin, getter] => do
    let p ← if pin = "nil" then pure none else (unhexOpt pin).map some
    let g ← if getter = "none" then pure none
            else if getter = "-" then pure (some [])
            else ((getter.splitOn ".").mapM unhexOpt).map some
    pure { serial := plain serial, pin := p, getter := g, keys := keys }
  | _ => none

def parseOpts (s : String) : SignOpts :=
  if s = "nil" then .nilOpts else if s = "zero" then .zeroHash else if s = "pss" then .pss
  else if s = "other" then .unnamed else .named (Assuan.ascii s)

inductive Step where
  | get (name : String)
  | sign (h : Nat) (opts : SignOpts) (d : Bytes)
  | ping
  | list (id : Bytes) (values : Bool)
  | close

def parseStep (s : String) : Option Step :=
  match s.splitOn "." with
  | ["g", n] => some (.get n)
  | ["s", h, o, d] => do pure (.sign (← h.toNat?) (parseOpts o) (← unhexOpt d))
  | ["p"] => some .ping
  | ["l", id, v] => do pure (.list (← unhexOpt id) (v = "1"))
  | ["c"] => some .close
  | _ => none

def parseSteps (s : String) : Option (List Step) :=
  if s = "-" then some [] else (s.splitOn ";").mapM parseStep

def parseScript (s : String) : Option Script :=
  if s = "-" then some ⟨[]⟩ else do
  let l ← (s.splitOn ",").mapM fun it =>
    match it.splitOn ":" with
    | [b, c] => do pure ((← unhexOpt b), c = "1")
    | _ => none
  pure ⟨l⟩

/-! ### ListKeys output -/

def padText (i : Nat) (id fpr grip : Bytes) : Bytes :=
  Assuan.ascii ("key " ++ toString i ++ ":\n id:          ") ++ id ++ Assuan.ascii "\n fingerprint: " ++ fpr ++
    Assuan.ascii "\n keygrip:     " ++ grip ++ [10]

def showChunk : Chunk → String
  | .serial s => "S" ++ hx s
  | .header i id fpr grip => "H" ++ hx (padText i id fpr grip)
  | .readErr e => "E" ++ e.cls
  | .rsa p => "N" ++ showPub p

/-! ### running a program -/

structure RunSt (σ : Type) where
  tok : Token σ
  handles : List Key
  out : List String

/-- one step; `none` in the second component = the step blocked (the program stops) -/
def runStep {σ} (dm : Daemon σ) (r : RunSt σ) : Step → RunSt σ × Bool
  | .get n =>
    match getKey dm r.tok n with
    | (t, .ok k) => ({ tok := t, handles := r.handles ++ [k], out := r.out ++ ["ok:" ++ showPub k.pub] }, true)
    | (t, .block) => ({ r with tok := t, out := r.out ++ ["block"] }, false)
    | (t, o) => ({ r with tok := t, out := r.out ++ [showOut o fun _ => "ok"] }, true)
  | .sign h opts d =>
    match r.handles[h]? with
    | none => ({ r with out := r.out ++ ["nohandle"] }, true)
    | some k =>
      match keySign dm r.tok k d opts with
      | (t, .block) => ({ r with tok := t, out := r.out ++ ["block"] }, false)
      | (t, o) => ({ r with tok := t, out := r.out ++ [showOut o fun b => "ok:" ++ showBlob b] }, true)
  | .ping => ({ r with out := r.out ++ ["ok"] }, true)
  | .list id v =>
    match listKeys dm r.tok id v with
    | (t, .block) => ({ r with tok := t, out := r.out ++ ["block"] }, false)
    | (t, o) => ({ r with tok := t, out := r.out ++ [showOut o fun cs => "ok:" ++ "|".intercalate (cs.map showChunk)] }, true)
  | .close => ({ r with tok := closeToken r.tok, out := r.out ++ ["ok"] }, true)

def runSteps {σ} (dm : Daemon σ) : RunSt σ → List Step → RunSt σ
  | r, [] => r
  | r, s :: rest => match runStep dm r s with
    | (r', true) => runSteps dm r' rest
    | (r', false) => r'

def showR (l : List String) : String := if l.isEmpty then "-" else ";".intercalate l

def runProgram {σ} (dm : Daemon σ) (s0 : σ) (tc : TokenConf) (steps : List Step) : String :=
  match openToken dm s0 tc with
  | (_, .ok t) =>
    let r := runSteps dm { tok := t, handles := [], out := [] } steps
    s!"ok R={showR r.out} L={showLog r.tok.sock.conn.log}"
  | (s, o) => s!"{showOut o fun _ => "ok"} R=- L={showLog s.conn.log}"

/-- concurrent jobs: the model runs them one after the other (any order gives the same results under the lock discipline:
    Relic.Props.C14.scd_sign_pair_atomic); the log is given per job, the python side accepts any order of the blocks -/
def runConc (s0 : Honest) (tc : TokenConf) (gets : List String) (jobs : List Step) : String :=
  match openToken honest s0 tc with
  | (_, .ok t) =>
    let r0 := runSteps honest { tok := t, handles := [], out := [] } (gets.map Step.get)
    if r0.handles.length ≠ gets.length then s!"err:setup R={showR r0.out} L={showLog r0.tok.sock.conn.log}" else
    let setupLog := r0.tok.sock.conn.log
    let (rf, blocks) := jobs.foldl (fun (acc : RunSt Honest × List String) j =>
        let before := acc.1.tok.sock.conn.log.length
        let (r', _) := runStep honest { acc.1 with out := [] } j
        let blk := r'.tok.sock.conn.log.drop before
        ({ r' with out := acc.1.out ++ r'.out }, acc.2 ++ [showLog blk])) ({ r0 with out := [] }, [])
    s!"ok R={showR rf.out} L={showLog setupLog} B={"/".intercalate blocks}"
  | (s, o) => s!"{showOut o fun _ => "ok"} R=- L={showLog s.conn.log}"

partial def showCs : CsExp → String
  | .atom v => "a" ++ hx v
  | .list l => "(" ++ " ".intercalate (l.map showCs) ++ ")"

/-! ### ftok ops (Relic.FileToken) -/

def secretPw : Bytes := Assuan.ascii "secret"

/-- the fixtures of harness/scd/ftok.go, described by what the library parsers say about them -/
def ftokConf (kind : String) : Option FileToken.KeyConf :=
  let mk (c : FileToken.Content) (p12 : Bool := false) : Option FileToken.KeyConf :=
    some { keyFile := true, exists_ := true, isPkcs12 := p12, content := c }
  match kind with
  | "empty" => mk .empty
  | "junk" => mk .junk
  | "junkhi" => mk (.pgp false false false [] false)
  | "der" => mk (.der true)
  | "derbad" => mk (.der false)
  | "pem" => mk (.pem true false [] true)
  | "pemec" => mk (.pem true false [] true)
  | "pemcertkey" => mk (.pem true false [] true)
  | "pemed" => mk (.pem true false [] false)
  | "pemkeybad" => mk (.pem true false [] false)
  | "pemenc" => mk (.pem true true secretPw true)
  | "pemnokey" => mk (.pem false false [] false)
  | "pemjunk" => mk (.pem false false [] false)
  | "pgprsa" => mk (.pgp true true false [] true)
  | "pgpbin" => mk (.pgp true true false [] true)
  | "pgppub" => mk (.pgp true false false [] false)
  | "pgped" => mk (.pgp true true false [] false)
  | "pgpbad" => mk (.pgp false false false [] false)
  | "pgprsaenc" => mk (.pgp true true true secretPw true)
  | "pgpbinenc" => mk (.pgp true true true secretPw true)
  | "pgpedenc" => mk (.pgp true true true secretPw false)
  | "p12" => mk (.p12 true secretPw) true
  | "p12empty" => mk (.p12 true []) true
  | "p12bad" => mk .junk true
  | "pemasp12" => mk (.pem true false [] true) true
  | "p12askey" => mk (.p12 true secretPw)
  | "nokeyfile" => some { keyFile := false, exists_ := false, isPkcs12 := false, content := .empty }
  | "missing" => some { keyFile := true, exists_ := false, isPkcs12 := false, content := .empty }
  | _ => none

def parseGetter (s : String) : Option FileToken.Getter :=
  if s = "none" then some none
  else if s = "-" then some (some [])
  else ((s.splitOn ".").mapM unhexOpt).map fun l => some l

def handle (fs : List String) : String :=
  match fs with
  | "ftok" :: rest =>
    match (do
      let k ← ftokConf (← field rest "F")
      let g ← parseGetter (← field rest "G")
      pure (k, g)) with
    | some (k, g) =>
      let (n, o) := FileToken.getKey k g
      s!"{showOut o fun _ => "ok"} prompts={n}"
    | none => "bad-op"
  | "seq" :: rest =>
    match (do
      let d ← parseD (← field rest "D")
      let ks ← parseKeys (← field rest "K")
      let c ← parseC (← field rest "C") ks
      let p ← parseSteps (← field rest "P")
      pure (d, c, p)) with
    | some (d, c, p) => runProgram honest d c p
    | none => "bad-op"
  | "conc" :: rest =>
    match (do
      let d ← parseD (← field rest "D")
      let ks ← parseKeys (← field rest "K")
      let c ← parseC (← field rest "C") ks
      let g := (← field rest "G")
      let j ← parseSteps (← field rest "J")
      pure (d, c, (if g = "-" then [] else g.splitOn ","), j)) with
    | some (d, c, g, j) => runConc d c g j
    | none => "bad-op"
  | "hostile" :: rest =>
    match (do
      let ks ← parseKeys (← field rest "K")
      let c ← parseC (← field rest "C") ks
      let sc ← parseScript (← field rest "R")
      let p ← parseSteps (← field rest "P")
      pure (sc, c, p)) with
    | some (sc, c, p) => runProgram scripted sc c p
    | none => "bad-op"
  | ["csexp", h] =>
    match unhexOpt h with
    | none => "bad-op"
    | some b =>
      match parseCsExp b with
      | .ok items => "ok " ++ showCs (.list items)
      | .err e => "err " ++ e
      | .panic s => "panic " ++ s
      | .diverge => "diverge"
  | ["esc", h] =>
    match unhexOpt h with
    | none => "bad-op"
    | some b => "ok " ++ hx (pathEscape b) ++ " " ++ (match pathUnescape b with | some u => "u" ++ hx u | none => "bad") ++
        (if pathUnescape (pathEscape b) = some b then " rt=1" else " rt=0")
  | _ => "bad-op"

end Relic.Driver.Scd

/- what `unquoteBytes` yields is a list of Unicode scalar values, whatever the bytes -/
import Relic.Model.Json
namespace Relic.Json
open Relic

def AllScalar (l : List Nat) : Prop := ∀ c ∈ l, isScalar c = true

theorem allScalar_nil : AllScalar [] := by intro c h; cases h
theorem allScalar_cons {c : Nat} {l : List Nat} (hc : isScalar c = true) (hl : AllScalar l) : AllScalar (c :: l) := by
  intro x hx
  rcases List.mem_cons.mp hx with rfl | hx
  · exact hc
  · exact hl x hx
theorem allScalar_append {a b : List Nat} (ha : AllScalar a) (hb : AllScalar b) : AllScalar (a ++ b) := by
  intro x hx
  rcases List.mem_append.mp hx with hx | hx
  · exact ha x hx
  · exact hb x hx
theorem allScalar_fffd (n : Nat) : AllScalar (fffd n) := by
  intro c hc
  simp only [fffd, List.mem_replicate] at hc
  rw [hc.2]; decide

theorem scalarOr_scalar (r : Nat) : isScalar (scalarOr r) = true := by
  unfold scalarOr
  split
  · assumption
  · decide

theorem isScalar_lt (n : Nat) (h : n < 0xD800) : isScalar n = true := by
  simp [isScalar]; omega

theorem startByte_scalar (b : UInt8) : AllScalar (startByte b).1 := by
  unfold startByte
  split
  · exact allScalar_cons (isScalar_lt _ (by omega)) allScalar_nil
  · split
    · exact allScalar_nil
    · exact allScalar_cons (by decide) allScalar_nil

/-- the items `itemize` produces: one-character escapes are bytes -/
def ItemsOK (items : List Item) : Prop := ∀ it ∈ items, ∀ c, it = Item.chr c → c < 256

theorem uint8_lt (b : UInt8) : b.toNat < 256 := by
  have := b.toBitVec.isLt
  simpa using this

theorem escChar_lt (e : UInt8) : escChar e < 256 := by
  unfold escChar
  have := uint8_lt e
  repeat' split
  all_goals omega

theorem itemsOK_cons (it : Item) (tl : List Item) (hit : ∀ c, it = Item.chr c → c < 256) (htl : ItemsOK tl) : ItemsOK (it :: tl) := by
  intro x hx c e
  rcases List.mem_cons.mp hx with rfl | hx
  · exact hit c e
  · exact htl x hx c e

theorem itemize_ok (bs : Bytes) : ItemsOK (itemize bs) := by
  fun_induction itemize bs
  · intro it h; cases h
  · rename_i ih; exact itemsOK_cons _ _ (by intro c e; cases e) ih
  · rename_i ih; exact itemsOK_cons _ _ (by intro c e; cases e; exact escChar_lt _) ih
  · rename_i ih; exact itemsOK_cons _ _ (by intro c e; cases e) ih

theorem itemsOK_tail {it : Item} {tl : List Item} (h : ItemsOK (it :: tl)) : ItemsOK tl :=
  fun x hx => h x (by simp [hx])

theorem decodeItems_scalar : ∀ (items : List Item) (hi : Option Nat) (u : List UInt8), ItemsOK items →
    (∀ h, hi = some h → 0xD800 ≤ h ∧ h < 0xDC00) → AllScalar (decodeItems hi u items)
  | [], hi, u, _, _ => by
    simp only [decodeItems]
    exact allScalar_append (allScalar_fffd _) (allScalar_fffd _)
  | .chr c :: tl, hi, u, ok, _ => by
    simp only [decodeItems]
    refine allScalar_append (allScalar_append (allScalar_fffd _) (allScalar_fffd _)) ?_
    refine allScalar_cons (isScalar_lt _ ?_) (decodeItems_scalar tl none [] (itemsOK_tail ok) (by intro h e; cases e))
    have := ok (.chr c) (by simp) c rfl
    omega
  | .u16 r :: tl, hi, u, ok, hh => by
    have rec0 := decodeItems_scalar tl none [] (itemsOK_tail ok) (by intro h e; cases e)
    simp only [decodeItems]
    refine allScalar_append (allScalar_fffd _) ?_
    cases hi with
    | none =>
      simp only
      split
      · rename_i hr
        simp only [Bool.and_eq_true, decide_eq_true_eq] at hr
        exact decodeItems_scalar tl (some r) [] (itemsOK_tail ok) (by intro h e; cases e; exact hr)
      · split
        · exact allScalar_cons (by decide) rec0
        · exact allScalar_cons (scalarOr_scalar _) rec0
    | some h =>
      have hb := hh h rfl
      simp only
      split
      · rename_i hr
        simp only [Bool.and_eq_true, decide_eq_true_eq] at hr
        refine allScalar_cons ?_ rec0
        simp only [isScalar, Bool.or_eq_true, Bool.and_eq_true, decide_eq_true_eq]
        omega
      · split
        · rename_i hr
          simp only [Bool.and_eq_true, decide_eq_true_eq] at hr
          exact allScalar_cons (by decide) (decodeItems_scalar tl (some r) [] (itemsOK_tail ok) (by intro h e; cases e; exact hr))
        · exact allScalar_cons (by decide) (allScalar_cons (scalarOr_scalar _) rec0)
  | .raw b :: tl, hi, u, ok, _ => by
    have rec0 := decodeItems_scalar tl none [] (itemsOK_tail ok) (by intro h e; cases e)
    have recU := fun u' => decodeItems_scalar tl none u' (itemsOK_tail ok) (by intro h e; cases e)
    have start : AllScalar ((startByte b).1 ++ decodeItems none (startByte b).2 tl) :=
      allScalar_append (startByte_scalar b) (recU _)
    simp only [decodeItems]
    refine allScalar_append (allScalar_fffd _) ?_
    split
    · exact start
    · rename_i b0
      split
      · rename_i h0
        split
        · refine allScalar_cons (isScalar_lt _ ?_) rec0
          have := uint8_lt b
          omega
        · exact allScalar_cons (by decide) start
      · split
        · exact recU _
        · exact allScalar_cons (by decide) start
    · split
      · split
        · exact allScalar_cons (scalarOr_scalar _) rec0
        · exact recU _
      · exact allScalar_append (allScalar_fffd _) start
    · split
      · exact allScalar_cons (scalarOr_scalar _) rec0
      · exact allScalar_append (allScalar_fffd _) start
    · exact allScalar_append (allScalar_fffd _) start

/-- **unquote_scalar**: whatever the bytes between the quotes, the Go string that results is valid UTF-8 -/
theorem unquote_scalar (bs : Bytes) : ∀ c ∈ unquote bs, isScalar c = true :=
  decodeItems_scalar (itemize bs) none [] (itemize_ok bs) (by intro h e; cases e)

end Relic.Json

/- the composition step of C01 for thin Mach-O images: `machos.Verify` on a file whose signature region holds the embedded
   signature `csblob.Sign` assembled (followed by the zero padding of the reserved region) and whose first `codeLimit`
   bytes are the image that was hashed -/
import Relic.Proofs.SignedBlob
import Relic.Proofs.CodeDirVerify
import Relic.Proofs.DmgFull
namespace Relic.MachO
open Relic Relic.CodeDir

/-- every special-slot comparison `csblob.Verify` makes on relic's own Mach-O signature succeeds -/
theorem specialChecks_own (H : Bytes → Bytes) (sp : SignParams) (stream blob : Bytes) (sig : OldSig) (items : List RawItem)
    (d : Dir) (O : OwnSig H sp stream blob sig items d) (hrep : sp.repSpecific = none) :
    ∀ c ∈ specialChecks d (itemData blob items 7) (itemData blob items 5) (itemData blob items 2), H c.stream = c.expected := by
  intro c hc
  unfold specialChecks at hc
  simp only [List.mem_append] at hc
  rcases hc with ((hc | hc) | hc) | hc
  · cases hd : d.special[7 - 1]? with
    | none => simp [hd] at hc
    | some x =>
      cases hz : x.all (· = 0) with
      | true => simp [hd, hz] at hc
      | false =>
        simp only [hd, hz, Bool.false_eq_true, ↓reduceIte, List.mem_cons, List.mem_nil_iff, or_false] at hc
        subst hc
        exact (O.slot7 x hd hz).symm
  · cases hd : d.special[5 - 1]? with
    | none => simp [hd] at hc
    | some x =>
      cases hz : x.all (· = 0) with
      | true => simp [hd, hz] at hc
      | false =>
        simp only [hd, hz, Bool.false_eq_true, ↓reduceIte, List.mem_cons, List.mem_nil_iff, or_false] at hc
        subst hc
        exact (O.slot5 x hd hz).symm
  · cases hd : d.special[2 - 1]? with
    | none => simp [hd] at hc
    | some x =>
      cases hz : x.all (· = 0) with
      | true => simp [hd, hz] at hc
      | false =>
        simp only [hd, hz, Bool.false_eq_true, ↓reduceIte, List.mem_cons, List.mem_nil_iff, or_false] at hc
        subst hc
        exact (O.slot2 x hd hz).symm
  · cases hd : d.special[6 - 1]? with
    | none => simp [hd] at hc
    | some x =>
      cases hz : x.all (· = 0) with
      | true => simp [hd, hz] at hc
      | false =>
        obtain ⟨r, hr, _⟩ := O.slot6 x hd hz
        rw [hrep] at hr
        cases hr

theorem rd32_bound (be : Bool) (b : Bytes) (off : Nat) : rd32 be b off < 2 ^ 32 := by
  unfold rd32
  have hl : ((b.drop off).take 4).length ≤ 4 := by simp [List.length_take]; omega
  split
  · have := Dmg.beVal_lt ((b.drop off).take 4)
    exact Nat.lt_of_lt_of_le this (Nat.pow_le_pow_right (by decide) hl)
  · have : ∀ l : Bytes, leVal l < 256 ^ l.length := by
      intro l
      induction l with
      | nil => simp [leVal]
      | cons x xs ih =>
        simp only [leVal, List.length_cons, Nat.pow_succ]
        have := x.toNat_lt
        omega
    exact Nat.lt_of_lt_of_le (this _) (Nat.pow_le_pow_right (by decide) hl)

/-- what `readSigBlob` guarantees about the region it returns -/
theorem locate_bounds (g : Bytes) (off len : Nat) (hloc : locate g = .ok (off, len)) :
    off < 2 ^ 32 ∧ len ≤ 10000000 ∧ off + len ≤ g.length := by
  unfold locate at hloc
  split at hloc
  · cases hloc
  · cases hloc
  · cases hloc
  · rename_i be loads _
    split at hloc
    · cases hloc
    · split at hloc
      · cases hloc
      · simp only at hloc
        split at hloc
        · cases hloc
        · split at hloc
          · cases hloc
          · simp only [Res.ok.injEq, Prod.mk.injEq] at hloc
            obtain ⟨rfl, rfl⟩ := hloc
            refine ⟨rd32_bound _ _ _, by omega, by omega⟩

theorem take_length_of_take (g s : Bytes) (k : Nat) (h : g.take k = s) : g.take s.length = s := by
  subst h
  rw [List.length_take]
  by_cases c : k ≤ g.length
  · rw [Nat.min_eq_left c]
  · rw [Nat.min_eq_right (by omega), List.take_of_length_le (Nat.le_refl _), List.take_of_length_le (by omega)]

theorem zipChecks_map (H : Bytes → Bytes) : ∀ (l : List Bytes) (c : Check), c ∈ zipChecks l (l.map H) → H c.stream = c.expected := by
  intro l
  induction l with
  | nil => intro c hc; simp [zipChecks] at hc
  | cons a l ih =>
    intro c hc
    simp only [zipChecks, List.map_cons, List.zip_cons_cons, List.mem_cons] at hc
    rcases hc with rfl | hc
    · rfl
    · exact ih c hc

/-- **verifyFile_own.** Let `g` be a file in which the verifier's locator finds a region `(off, len)` that holds the embedded
    signature `csblob.Sign` assembled for the page stream `stream` (followed by zero padding up to the reserved size), and
    whose first `|stream|` bytes are `stream`.  Then for every hash function with values of the advertised size
    `machos.Verify`'s plan ends in `ok` and every comparison in it holds: the special slots against the items found in the
    blob, and one page comparison per 4096-byte page of the image. -/
theorem verifyFile_own (H : Bytes → Bytes) (sp : SignParams) (stream : Bytes) (s : Signed) (cms g : Bytes) (off len : Nat)
    (hH : ∀ x, (H x).length = hashSizeOf sp.hash) (hcms : 8 < cms.length) (e : signBlob sp stream = .ok s)
    (hrep : sp.repSpecific = none) (hlim : stream.length < 2 ^ 63)
    (hloc : locate g = .ok (off, len))
    (hblen : (render H (hashSizeOf sp.hash) (superblob (hashSizeOf sp.hash) s cms)).length ≤ len)
    (hslice : sliceOf g off len = render H (hashSizeOf sp.hash) (superblob (hashSizeOf sp.hash) s cms) ++
      zeros (len - (render H (hashSizeOf sp.hash) (superblob (hashSizeOf sp.hash) s cms)).length))
    (hpre : g.take stream.length = stream) :
    ∃ vp, verifyFile g = .ok vp ∧ vp.sigOff = off ∧ vp.sigLen = len ∧ vp.final = .ok () ∧ ∀ c ∈ vp.checks, H c.stream = c.expected := by
  have hlen7 : len ≤ 10000000 := (locate_bounds g off len hloc).2.1
  generalize hb0 : render H (hashSizeOf sp.hash) (superblob (hashSizeOf sp.hash) s cms) = blob0 at *
  have h32 : (blob0 ++ zeros (len - blob0.length)).length < 2 ^ 32 := by
    simp only [List.length_append, zeros, List.length_replicate]; omega
  obtain ⟨sig, items, d, hps, O⟩ := by
    have := parseSignature_own_tail H sp stream s cms (zeros (len - blob0.length)) hH hcms e (by rw [hb0]; exact h32)
    rw [hb0] at this
    exact this
  have hnone : sp.repSpecific.isSome = false := by rw [hrep]; rfl
  have hcode : d.code = (pages 4096 stream).map H := by
    rw [O.code, hnone]
    simp [hashPages, Seg.render, List.map_map, Function.comp_def]
  have hps12 : d.hdr.pageShift = 12 := by rw [O.pageShift, hnone]; rfl
  have hcs : codeSize d.hdr = (stream.length : Int) := O.limit hlim
  have hvp : verifyPages d g = ⟨zipChecks (pages 4096 stream) ((pages 4096 stream).map H), .ok ()⟩ := by
    unfold verifyPages
    have h0 : ¬ ((12 : Nat) = 0) := by decide
    have h24 : ¬ ((12 : Nat) > 24) := by decide
    simp only [hps12, h0, h24, ↓reduceIte, hcs, Int.toNat_natCast, hpre, hcode]
    have h4096 : (2 : Nat) ^ 12 = 4096 := by decide
    rw [h4096]
    have := verifyLoop_pages 4096 (by decide) ((pages 4096 stream).map H) stream (by simp)
    rw [this]
  have hbest : bestDir sig.dirs = some d := by rw [O.dirs]; rfl
  have hsp := specialChecks_own H sp stream _ sig items d O hrep
  refine ⟨⟨off, len, be32 (blob0 ++ zeros (len - blob0.length)) 4, items,
    specialChecks d (itemData (blob0 ++ zeros (len - blob0.length)) items 7) (itemData (blob0 ++ zeros (len - blob0.length)) items 5)
      (itemData (blob0 ++ zeros (len - blob0.length)) items 2) ++ zipChecks (pages 4096 stream) ((pages 4096 stream).map H), .ok ()⟩,
    ?_, rfl, rfl, rfl, ?_⟩
  · unfold verifyFile
    simp only [hloc, hslice, hps, hbest, O.cms, ne_eq, not_true_eq_false, ↓reduceIte, hvp]
    rw [O.dirs]
    simp
  · intro c hc
    simp only [List.mem_append] at hc
    rcases hc with hc | hc
    · exact hsp c hc
    · exact zipChecks_map H _ c hc

/-- the pieces of a successful `machos.Sign` -/
theorem sign_pieces (f : Bytes) (p : SignParams) (so : SignOut) (h : signOrig f p = .ok so) :
    ∃ p' : SignParams,
      planOrig f (hashSizeOf p.hash) ((p.entitlement.map (·.length)).getD 0) ((p.requirements.map (·.length)).getD 0) = .ok so.plan ∧
      signBlob p' so.plan.stream = .ok so.signed ∧ p'.hash = p.hash ∧ p'.repSpecific = p.repSpecific := by
  unfold signOrig at h
  split at h
  · cases h
  · cases h
  · cases h
  · rename_i pl hpl
    split at h
    · cases h
    · cases h
    · cases h
    · rename_i p' opq hd
      split at h
      · rename_i s hs
        simp only [Res.ok.injEq] at h
        subst h
        obtain ⟨a, b⟩ := Dmg.defaults_keeps _ _ _ _ hd
        exact ⟨p', hpl, hs, a, b⟩
      · cases h
      · cases h
      · cases h

/-- the size of the region `PatchSignature` reserves: the old region when it is big enough, the 8-aligned estimate otherwise -/
theorem patchSignature_sigBufLen (m : Markers) (hdr : Bytes) (sigSize : Int) (po : PatchOut)
    (h : patchSignature m hdr sigSize = .ok po) :
    ((m.sigLen : Int) ≥ sigSize ∧ po.sigBufLen = m.sigLen) ∨ (¬ (m.sigLen : Int) ≥ sigSize ∧ po.sigBufLen = align sigSize.toNat 8) := by
  unfold patchSignature at h
  split at h
  · rename_i hc
    left
    simp only [Res.ok.injEq] at h
    subst h
    exact ⟨hc, rfl⟩
  · rename_i hc
    right
    refine ⟨hc, ?_⟩
    simp only at h
    repeat' (split at h)
    all_goals (first | (simp only [Res.ok.injEq] at h; subst h; rfl) | cases h)

theorem plan_pieces (f : Bytes) (hs e r : Nat) (pl : Plan) (h : planOrig f hs e r = .ok pl) :
    scanOrig f = .ok pl.m ∧
    patchSignature pl.m (f.take pl.m.consumed) (Int.tdiv (pl.m.codeSize * (20 + hs : Nat)) 4096 + (e + r : Nat) + 16384) = .ok pl.po := by
  unfold planOrig at h
  split at h
  · cases h
  · cases h
  · cases h
  · rename_i m hm
    simp only at h
    split at h
    · cases h
    · cases h
    · cases h
    · rename_i po hpo
      split at h
      · cases h
      · simp only [Res.ok.injEq] at h
        subst h
        exact ⟨hm, hpo⟩

end Relic.MachO

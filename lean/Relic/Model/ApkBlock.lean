/-
  Relic.Model.ApkBlock — executable model of /repo/signers/apk: `getSigBlock` (verify.go), the part loop of
  `verify`, and `unmarshalR` (serializer.go) specialised to the type it is called with (`[]apkSigner`).
  Every Go slice expression is rendered as a possibly-panicking step.  The flag `fx` selects the code with
  the two guards of fix-apk.unmarshalR.patch / fix-apk.getSigBlock.patch (`fx = false`: the unchanged tree).
  Values are not modelled, only the control flow: which error, which panic, how many signers.
-/
import Relic.Base.Bytes
namespace Relic.ApkBlock
open Relic

/-- "APK Sig Block 42" -/
def magic : Bytes := [65, 80, 75, 32, 83, 105, 103, 32, 66, 108, 111, 99, 107, 32, 52, 50]

/-- 0x7109871a -/
def sigApkV2 : Nat := 1896449818

/-- `binary.LittleEndian.Uint32(blob)` (callers check the length) -/
def u32 (b : Bytes) : Nat := leVal (b.take 4)
def u64 (b : Bytes) : Nat := leVal (b.take 8)

/-- the uint32 length prefix of `unmarshalR`:
    ```
    if len(blob) < 4 { return ErrUnexpectedEOF }
    size := int(binary.LittleEndian.Uint32(blob))
    if 4+len(blob) < size { return ErrUnexpectedEOF }      // unchanged tree: the test is the wrong way round
    remainder := blob[4+size:]                               // panics when len(blob) < 4+size
    ```
    returns (inner, remainder) -/
def readPrefix (fx : Bool) (blob : Bytes) : Res (Bytes × Bytes) :=
  if blob.length < 4 then .err "eof" else
  let size := u32 blob
  if (if fx then blob.length < 4 + size else 4 + blob.length < size) then .err "eof" else
  if blob.length < 4 + size then .panic "apk.unmarshalR:slice" else
  .ok ((blob.drop 4).take size, blob.drop (4 + size))

/-- `struct { ID uint32; Value []byte }` (apkSignature): returns the remainder after the element -/
def parseAttr (fx : Bool) (blob : Bytes) : Res Bytes :=
  (readPrefix fx blob).bind fun (inner, rem) =>
    if inner.length < 4 then .err "eof" else
    (readPrefix fx (inner.drop 4)).bind fun (_, rest) =>
      if rest.isEmpty then .ok rem else .err "trailing"

/-- `for len(blob) > 0 { append; blob, err = unmarshalR(blob, elem) }`; fuel: every element consumes ≥ 4 bytes -/
def loopAttrs (fx : Bool) : Nat → Bytes → Res Unit
  | 0, blob => if blob.isEmpty then .ok () else .diverge
  | fuel + 1, blob =>
    if blob.isEmpty then .ok () else
    (parseAttr fx blob).bind fun rest => loopAttrs fx fuel rest

/-- `struct { SignedData apkRaw; Signatures []apkSignature; PublicKey []byte }` -/
def parseSigner (fx : Bool) (blob : Bytes) : Res Bytes :=
  (readPrefix fx blob).bind fun (inner, rem) =>
    (readPrefix fx inner).bind fun (_, r1) =>
      (readPrefix fx r1).bind fun (sigs, r2) =>
        (loopAttrs fx sigs.length sigs).bind fun _ =>
          (readPrefix fx r2).bind fun (_, r3) =>
            if r3.isEmpty then .ok rem else .err "trailing"

/-- the element loop of `[]apkSigner`; returns the number of signers -/
def loopSigners (fx : Bool) : Nat → Bytes → Res Nat
  | 0, blob => if blob.isEmpty then .ok 0 else .diverge
  | fuel + 1, blob =>
    if blob.isEmpty then .ok 0 else
    (parseSigner fx blob).bind fun rest =>
      (loopSigners fx fuel rest).bind fun n => .ok (n + 1)

/-- `unmarshal(partBlob, &signerList)` -/
def unmarshalSigners (fx : Bool) (blob : Bytes) : Res Nat :=
  (readPrefix fx blob).bind fun (inner, rem) =>
    (loopSigners fx inner.length inner).bind fun n =>
      if rem.isEmpty then .ok n else .err "trailing"

/-- the part loop of `verify`.  A v2 part whose signer list parses with at least one signer hands over to
    `apkSigner.Verify` (cryptography, outside the model): class "post". -/
def loopParts (fx : Bool) : Nat → Bytes → Res Unit
  | 0, block => if block.isEmpty then .ok () else .diverge
  | fuel + 1, block =>
    if block.isEmpty then .ok () else
    if block.length < 12 then .err "truncated" else
    let partSize := u64 block
    let b1 := block.drop 8
    if partSize < 4 ∨ b1.length < partSize then .err "truncated" else
    let partType := u32 b1
    let partBlob := (b1.take partSize).drop 4
    let rest := b1.drop partSize
    if partType ≠ sigApkV2 then loopParts fx fuel rest else
    (unmarshalSigners fx partBlob).bind fun n =>
      if n = 0 then .err "empty" else .err "post"

/-- does `blob` end in the magic? -/
def hasMagic (blob : Bytes) : Bool := blob.drop (blob.length - 16) == magic ∧ 16 ≤ blob.length

/-- `getSigBlock` on the bytes between the last member and the central directory (non-empty) -/
def getSigBlock (fx : Bool) (blob : Bytes) : Res Bytes :=
  if fx ∧ blob.length < 32 then .err "malformed" else
  if ¬ hasMagic blob then .err "malformed" else
  -- size2 := binary.LittleEndian.Uint64(blob[len(blob)-24:])
  if blob.length < 24 then .panic "apk.getSigBlock:slice" else
  let size1 := u64 blob
  let size2 := u64 (blob.drop (blob.length - 24))
  if size1 ≠ blob.length - 8 ∨ size2 ≠ blob.length - 8 then .err "malformed" else
  -- return blob[8 : len(blob)-24]
  if blob.length - 24 < 8 then .panic "apk.getSigBlock:slice" else
  .ok ((blob.drop 8).take (blob.length - 24 - 8))

/-- `verify` on dummy.apk (unsigned JAR-wise) with `gap` in front of its central directory -/
def verifyGap (fx : Bool) (gap : Bytes) : Res Unit :=
  if gap.isEmpty then .err "notsigned" else
  (getSigBlock fx gap).bind fun block =>
    (loopParts fx block.length block).bind fun _ => .err "notsigned"

end Relic.ApkBlock

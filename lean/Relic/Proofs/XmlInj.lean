/-
  Unique parse of relic's canonical serialisation (C19 `canon_sensitive`): on well-formed trees (`wfNode`:
  what etree presents after parsing with encoding/xml, after `walk` removed comments / PIs / directives) `ser`
  is injective, and an element's serialisation is self-delimiting.
-/
import Relic.Proofs.Xml
import Relic.Proofs.XmlSens
namespace Relic.Xml.Inj
open Relic Relic.Xml Relic.Xml.Sens

/-! ### well-formedness (decidable) -/

/-- a byte that can occur in a name as encoding/xml reads it (letters, digits, `_ : . -`, bytes ≥ 0x80): in
    particular none of the delimiters of a tag: SP `>` `=` `/` `!` -/
def nameByte (b : UInt8) : Bool := b != 0x20 && b != 0x3e && b != 0x3d && b != 0x2f && b != 0x21

def nameOK (p : Bytes) : Bool := p.all nameByte

/-- no colon except possibly as the last byte -/
def noColonButLast : Bytes → Bool
  | [] => true
  | [_] => true
  | c :: d :: r => c != 0x3a && noColonButLast (d :: r)

/-- no colon strictly inside (encoding/xml leaves `:a` and `a:` unsplit, with an empty prefix) -/
def noInnerColon : Bytes → Bool
  | [] => true
  | _ :: r => noColonButLast r

/-- a (prefix, local name) pair as encoding/xml + etree deliver it: name bytes only, the prefix without colon, the
    local name non-empty and, under a non-empty prefix, without colon; under the empty prefix without *inner* colon.
    On such pairs `fullName` is injective. -/
def qnameOK (sp tag : Bytes) : Bool :=
  nameOK sp && nameOK tag && !sp.contains 0x3a && !tag.isEmpty &&
    (if sp.isEmpty then noInnerColon tag else !tag.contains 0x3a)

def attrOK (a : Attr) : Bool := qnameOK a.space a.key

def isPlainText : Node → Bool
  | .text _ false => true
  | _ => false

def startsPlainText : List Node → Bool
  | n :: _ => isPlainText n
  | [] => false

mutual
/-- well-formed canonical tree: elements with proper names and attribute names, non-empty character data without
    the CDATA flag (etree sets it only under `ReadSettings.PreserveCData`, which relic does not use), no other
    token kinds (`walk` removes them), and no two character-data nodes next to each other -/
def wfNode : Node → Bool
  | .elem sp tag attrs kids => qnameOK sp tag && attrs.all attrOK && wfKids kids
  | .text d c => !c && !d.isEmpty
  | _ => false
def wfKids : List Node → Bool
  | [] => true
  | n :: ns => wfNode n && wfKids ns && !(isPlainText n && startsPlainText ns)
end

/-! ### delimiters -/

/-- splitting at the first occurrence of a byte that occurs in neither prefix -/
theorem split_at_byte (c : UInt8) : ∀ (p q y z : Bytes), c ∉ p → c ∉ q → p ++ c :: y = q ++ c :: z → p = q ∧ y = z
  | [], [], y, z, _, _, h => by simpa using h
  | [], b :: q, y, z, _, hq, h => by
    simp only [List.nil_append, List.cons_append, List.cons.injEq] at h
    exact absurd (by simp [h.1]) hq
  | a :: p, [], y, z, hp, _, h => by
    simp only [List.nil_append, List.cons_append, List.cons.injEq] at h
    exact absurd (by simp [← h.1]) hp
  | a :: p, b :: q, y, z, hp, hq, h => by
    simp only [List.cons_append, List.cons.injEq] at h
    obtain ⟨e1, e2⟩ := split_at_byte c p q y z (fun hm => hp (by simp [hm])) (fun hm => hq (by simp [hm])) h.2
    exact ⟨by rw [h.1, e1], e2⟩

/-- a byte-wise prefix code followed by a terminator that begins no code word -/
theorem code_delim_inj (f : UInt8 → Bytes) (c : UInt8)
    (hpf : ∀ a b x y, f a ++ x = f b ++ y → a = b ∧ x = y)
    (hne : ∀ b, ∃ h t, f b = h :: t ∧ h ≠ c) :
    ∀ (s t x y : Bytes), s.flatMap f ++ c :: x = t.flatMap f ++ c :: y → s = t ∧ x = y
  | [], [], x, y, h => by simpa using h
  | [], b :: t, x, y, h => by
    obtain ⟨hd, tl, e, hn⟩ := hne b
    simp only [List.flatMap_nil, List.nil_append, List.flatMap_cons, e, List.cons_append, List.cons.injEq] at h
    exact absurd h.1.symm hn
  | a :: s, [], x, y, h => by
    obtain ⟨hd, tl, e, hn⟩ := hne a
    simp only [List.flatMap_nil, List.nil_append, List.flatMap_cons, e, List.cons_append, List.cons.injEq] at h
    exact absurd h.1 hn
  | a :: s, b :: t, x, y, h => by
    simp only [List.flatMap_cons, List.append_assoc] at h
    obtain ⟨e1, h'⟩ := hpf a b _ _ h
    obtain ⟨e2, e3⟩ := code_delim_inj f c hpf hne s t x y h'
    exact ⟨by rw [e1, e2], e3⟩

theorem escTextByte_head (b : UInt8) : ∃ h t, escTextByte b = h :: t ∧ h ≠ 0x3c := by
  unfold escTextByte
  repeat' split
  all_goals first
    | exact ⟨_, _, rfl, by decide⟩
    | exact ⟨b, [], rfl, by assumption⟩

theorem escAttrByte_head (b : UInt8) : ∃ h t, escAttrByte b = h :: t ∧ h ≠ 0x22 := by
  unfold escAttrByte
  repeat' split
  all_goals first
    | exact ⟨_, _, rfl, by decide⟩
    | exact ⟨b, [], rfl, by assumption⟩

/-- character data runs to the next `<` -/
theorem escText_delim (s t x y : Bytes) (h : escText s ++ 0x3c :: x = escText t ++ 0x3c :: y) : s = t ∧ x = y :=
  code_delim_inj escTextByte 0x3c escTextByte_prefix_free escTextByte_head s t x y h

/-- an attribute value runs to the next `"` -/
theorem escAttr_delim (s t x y : Bytes) (h : escAttr s ++ 0x22 :: x = escAttr t ++ 0x22 :: y) : s = t ∧ x = y :=
  code_delim_inj escAttrByte 0x22 escAttrByte_prefix_free escAttrByte_head s t x y h

theorem escText_head (d : Bytes) (hd : d ≠ []) : ∃ h t, escText d = h :: t ∧ h ≠ 0x3c := by
  cases d with
  | nil => exact absurd rfl hd
  | cons b r =>
    obtain ⟨h, t, e, hn⟩ := escTextByte_head b
    exact ⟨h, t ++ escText r, by simp [escText, e], hn⟩

/-! ### names -/

theorem nameOK_mem {p : Bytes} (h : nameOK p = true) : ∀ b ∈ p, nameByte b = true := List.all_eq_true.mp h

theorem nameByte_colon : nameByte 0x3a = true := by decide

theorem nameOK_fullName {sp tag : Bytes} (h1 : nameOK sp = true) (h2 : nameOK tag = true) :
    ∀ b ∈ fullName sp tag, nameByte b = true := by
  intro b hb
  unfold fullName at hb
  split at hb
  · exact nameOK_mem h2 b hb
  · simp only [List.mem_append, List.mem_cons] at hb
    rcases hb with hb | rfl | hb
    · exact nameOK_mem h1 b hb
    · exact nameByte_colon
    · exact nameOK_mem h2 b hb

theorem nameByte_facts {b : UInt8} (h : nameByte b = true) : b ≠ 0x20 ∧ b ≠ 0x3e ∧ b ≠ 0x3d ∧ b ≠ 0x2f ∧ b ≠ 0x21 := by
  simp only [nameByte, Bool.and_eq_true, bne_iff_ne, ne_eq] at h
  obtain ⟨⟨⟨⟨a, b'⟩, c⟩, d⟩, e⟩ := h
  exact ⟨a, b', c, d, e⟩

theorem noColonButLast_split : ∀ (p q : Bytes), noColonButLast (p ++ 0x3a :: q) = true → q = []
  | [], [], _ => rfl
  | [], d :: r, h => by simp [noColonButLast] at h
  | c :: p, q, h => by
    have : ∃ d r, p ++ 0x3a :: q = d :: r := by cases p <;> simp
    obtain ⟨d, r, e⟩ := this
    rw [List.cons_append, e, noColonButLast] at h
    simp only [Bool.and_eq_true] at h
    rw [← e] at h
    exact noColonButLast_split p q h.2

theorem noInnerColon_split (p q : Bytes) (h : noInnerColon (p ++ 0x3a :: q) = true) : p = [] ∨ q = [] := by
  cases p with
  | nil => exact Or.inl rfl
  | cons a p => exact Or.inr (noColonButLast_split p q (by simpa [noInnerColon] using h))

structure QName (sp tag : Bytes) : Prop where
  okS : nameOK sp = true
  okT : nameOK tag = true
  spc : (0x3a : UInt8) ∉ sp
  ne : tag ≠ []
  col : if sp = [] then noInnerColon tag = true else (0x3a : UInt8) ∉ tag

theorem qname_of {sp tag : Bytes} (h : qnameOK sp tag = true) : QName sp tag := by
  simp only [qnameOK, Bool.and_eq_true, Bool.not_eq_true', List.contains_eq_mem, decide_eq_false_iff_not,
    List.isEmpty_eq_false_iff] at h
  obtain ⟨⟨⟨⟨a, b⟩, c⟩, d⟩, e⟩ := h
  refine ⟨a, b, by simpa using c, d, ?_⟩
  by_cases hs : sp = []
  · subst hs; simpa using e
  · have : sp.isEmpty = false := by cases sp <;> simp_all
    simp only [hs, if_false]
    simpa [this] using e

/-- **`fullName` is injective on proper names** -/
theorem fullName_inj {sp tag sp' tag' : Bytes} (h : QName sp tag) (h' : QName sp' tag')
    (e : fullName sp tag = fullName sp' tag') : sp = sp' ∧ tag = tag' := by
  unfold fullName at e
  by_cases hs : sp = []
  · by_cases hs' : sp' = []
    · subst hs; subst hs'; simpa using e
    · subst hs
      simp only [if_true, hs', if_false] at e
      have := h.col
      simp only [if_true] at this
      rw [e] at this
      rcases noInnerColon_split _ _ this with h1 | h1
      · exact absurd h1 hs'
      · exact absurd h1 h'.ne
  · by_cases hs' : sp' = []
    · subst hs'
      simp only [hs, if_false, if_true] at e
      have := h'.col
      simp only [if_true] at this
      rw [← e] at this
      rcases noInnerColon_split _ _ this with h1 | h1
      · exact absurd h1 hs
      · exact absurd h1 h.ne
    · simp only [hs, hs', if_false] at e
      exact split_at_byte 0x3a sp sp' tag tag' h.spc h'.spc e

theorem fullName_noDelim {sp tag : Bytes} (h : QName sp tag) : NoDelim (fullName sp tag) := by
  intro b hb
  have := nameByte_facts (nameOK_fullName h.okS h.okT b hb)
  exact ⟨this.1, this.2.1⟩

theorem fullName_noEq {sp tag : Bytes} (h : QName sp tag) : (0x3d : UInt8) ∉ fullName sp tag := by
  intro hb
  exact (nameByte_facts (nameOK_fullName h.okS h.okT _ hb)).2.2.1 rfl

/-- an element name starts with a byte that is neither `/` nor `!` -/
theorem fullName_head {sp tag : Bytes} (h : QName sp tag) :
    ∃ c r, fullName sp tag = c :: r ∧ c ≠ 0x2f ∧ c ≠ 0x21 := by
  have hne : fullName sp tag ≠ [] := by
    unfold fullName
    split
    · exact h.ne
    · simp
  cases hf : fullName sp tag with
  | nil => exact absurd hf hne
  | cons c r =>
    have := nameByte_facts (nameOK_fullName h.okS h.okT c (by rw [hf]; simp))
    exact ⟨c, r, rfl, this.2.2.2.1, this.2.2.2.2⟩

/-! ### attribute lists -/

theorem serAttrs_cons (a : Attr) (as : List Attr) (r : Bytes) :
    serAttrs (a :: as) ++ r =
      0x20 :: (fullName a.space a.key ++ 0x3d :: 0x22 :: (escAttr a.value ++ 0x22 :: (serAttrs as ++ r))) := by
  simp [serAttrs, serAttr, List.append_assoc]

/-- the attribute part of a start tag is read back uniquely -/
theorem serAttrs_inj : ∀ (as as' : List Attr), (∀ a ∈ as, attrOK a = true) → (∀ a ∈ as', attrOK a = true) →
    ∀ r r' : Bytes, serAttrs as ++ 0x3e :: r = serAttrs as' ++ 0x3e :: r' → as = as' ∧ r = r'
  | [], [], _, _, r, r', h => by simpa [serAttrs] using h
  | [], a :: as', _, _, r, r', h => by
    rw [serAttrs_cons] at h
    simp [serAttrs] at h
  | a :: as, [], _, _, r, r', h => by
    rw [serAttrs_cons] at h
    simp [serAttrs] at h
  | a :: as, a' :: as', h1, h2, r, r', h => by
    rw [serAttrs_cons, serAttrs_cons] at h
    simp only [List.cons.injEq, true_and] at h
    have q := qname_of (h1 a (by simp))
    have q' := qname_of (h2 a' (by simp))
    obtain ⟨en, h⟩ := split_at_byte 0x3d _ _ _ _ (fullName_noEq q) (fullName_noEq q') h
    simp only [List.cons.injEq, true_and] at h
    obtain ⟨ev, h⟩ := escAttr_delim _ _ _ _ h
    obtain ⟨et, er⟩ := serAttrs_inj as as' (fun x hx => h1 x (by simp [hx])) (fun x hx => h2 x (by simp [hx])) r r' h
    obtain ⟨es, ek⟩ := fullName_inj q q' en
    refine ⟨?_, er⟩
    rw [et]
    congr 1
    cases a; cases a'
    simp only [Attr.mk.injEq]
    exact ⟨es, ek, ev⟩

/-! ### the tree -/

/-- what may follow a node for its end to be recognisable: anything after an element; a `<` after character data -/
def Follow (n : Node) (x : Bytes) : Prop := isPlainText n = false ∨ ∃ r, x = 0x3c :: r

/-- the closing tag of the parent follows the children -/
def StartsClose (x : Bytes) : Prop := ∃ r, x = 0x3c :: 0x2f :: r

theorem wfNode_elem {sp tag : Bytes} {as : List Attr} {ks : List Node} (h : wfNode (.elem sp tag as ks) = true) :
    QName sp tag ∧ (∀ a ∈ as, attrOK a = true) ∧ wfKids ks = true := by
  rw [wfNode] at h
  simp only [Bool.and_eq_true] at h
  exact ⟨qname_of h.1.1, List.all_eq_true.mp h.1.2, h.2⟩

theorem wfKids_cons {n : Node} {ns : List Node} (h : wfKids (n :: ns) = true) :
    wfNode n = true ∧ wfKids ns = true ∧ (isPlainText n = true → startsPlainText ns = false) := by
  rw [wfKids] at h
  simp only [Bool.and_eq_true, Bool.not_eq_true', Bool.and_eq_false_iff] at h
  refine ⟨h.1.1, h.1.2, fun hp => ?_⟩
  rcases h.2 with h' | h'
  · rw [hp] at h'; cases h'
  · exact h'

/-- a well-formed node starts with `<` followed by neither `/` nor `!` (element) or with a byte other than `<`
    (character data) -/
theorem ser_head {n : Node} (h : wfNode n = true) (x : Bytes) :
    (isPlainText n = false ∧ ∃ c r, ser n ++ x = 0x3c :: c :: r ∧ c ≠ 0x2f ∧ c ≠ 0x21) ∨
    (isPlainText n = true ∧ ∃ c r, ser n ++ x = c :: r ∧ c ≠ 0x3c) := by
  cases n with
  | elem sp tag as ks =>
    left
    obtain ⟨q, _, _⟩ := wfNode_elem h
    obtain ⟨c, r, e, h1, h2⟩ := fullName_head q
    refine ⟨rfl, c, r ++ (serAttrs as ++ 0x3e :: serKids ks ++ [0x3c, 0x2f] ++ fullName sp tag ++ [0x3e] ++ x), ?_, h1, h2⟩
    simp only [ser, List.cons_append, List.append_assoc, List.cons.injEq, true_and]
    rw [e]
    simp
  | text d c =>
    right
    rw [wfNode] at h
    simp only [Bool.and_eq_true, Bool.not_eq_true', List.isEmpty_eq_false_iff] at h
    obtain ⟨hc, hd⟩ := h
    subst hc
    obtain ⟨c, r, e, hn⟩ := escText_head d hd
    exact ⟨rfl, c, r ++ x, by simp [ser, e], hn⟩
  | comment _ => simp [wfNode] at h
  | procinst _ _ => simp [wfNode] at h
  | directive _ => simp [wfNode] at h

theorem follow_of_kids {n : Node} {ns : List Node} (h : wfKids (n :: ns) = true) (x : Bytes) (hx : StartsClose x) :
    Follow n (serKids ns ++ x) := by
  obtain ⟨_, hns, hadj⟩ := wfKids_cons h
  cases hp : isPlainText n with
  | false => exact Or.inl hp
  | true =>
    right
    cases ns with
    | nil =>
      obtain ⟨r, rfl⟩ := hx
      exact ⟨0x2f :: r, by simp [serKids]⟩
    | cons m ms =>
      have hm := (wfKids_cons hns).1
      have hnp : isPlainText m = false := by simpa [startsPlainText] using hadj hp
      rcases ser_head hm (serKids ms ++ x) with ⟨_, c, r, e, _⟩ | ⟨hp', _⟩
      · exact ⟨c :: r, by simp only [serKids, List.append_assoc]; exact e⟩
      · rw [hnp] at hp'; cases hp'

mutual
/-- **unique parse of one node** followed by `x` -/
theorem ser_inj : ∀ (n m : Node), wfNode n = true → wfNode m = true → ∀ x y : Bytes,
    ser n ++ x = ser m ++ y → Follow n x → Follow m y → n = m ∧ x = y
  | .elem sp tag as ks, m, hn, hm, x, y, h, _, _ => by
    obtain ⟨q, ha, hk⟩ := wfNode_elem hn
    cases m with
    | elem sp' tag' as' ks' =>
      obtain ⟨q', ha', hk'⟩ := wfNode_elem hm
      simp only [ser, List.cons_append, List.append_assoc, List.cons.injEq, true_and, List.nil_append] at h
      -- the names
      obtain ⟨c, z, hc, e1⟩ := serAttrs_head as (serKids ks ++ (0x3c :: 0x2f :: (fullName sp tag ++ 0x3e :: x)))
      obtain ⟨c', z', hc', e2⟩ := serAttrs_head as' (serKids ks' ++ (0x3c :: 0x2f :: (fullName sp' tag' ++ 0x3e :: y)))
      have hN : fullName sp tag = fullName sp' tag' := by
        apply delim_inj _ _ c c' z z' (fullName_noDelim q) (fullName_noDelim q') hc hc'
        rw [← e1, ← e2]
        simpa [List.append_assoc] using h
      obtain ⟨rfl, rfl⟩ := fullName_inj q q' hN
      rw [List.append_cancel_left_eq] at h
      -- the attributes
      obtain ⟨rfl, h2⟩ := serAttrs_inj as as' ha ha' _ _ (by simpa [List.append_assoc] using h)
      -- the children, up to the closing tag
      obtain ⟨rfl, h3⟩ := serKids_inj ks ks' hk hk' _ _ h2 ⟨_, rfl⟩ ⟨_, rfl⟩
      simp only [List.cons.injEq, true_and, List.append_cancel_left_eq] at h3
      exact ⟨rfl, h3⟩
    | text d c =>
      exfalso
      rcases ser_head hm y with ⟨hp, _⟩ | ⟨_, c', r, e, hne⟩
      · rw [wfNode] at hm
        simp only [Bool.and_eq_true, Bool.not_eq_true'] at hm
        obtain ⟨hc, _⟩ := hm
        subst hc
        simp [isPlainText] at hp
      · rw [← h] at e
        simp only [ser, List.cons_append, List.cons.injEq] at e
        exact hne e.1.symm
    | comment _ => simp [wfNode] at hm
    | procinst _ _ => simp [wfNode] at hm
    | directive _ => simp [wfNode] at hm
  | .text d c, m, hn, hm, x, y, h, fx, fy => by
    have hn' := hn
    rw [wfNode] at hn'
    simp only [Bool.and_eq_true, Bool.not_eq_true', List.isEmpty_eq_false_iff] at hn'
    obtain ⟨hc, hd⟩ := hn'
    subst hc
    cases m with
    | elem sp' tag' as' ks' =>
      exfalso
      obtain ⟨c', r, e, hne⟩ := escText_head d hd
      simp only [ser, Bool.false_eq_true, if_false, e, List.cons_append, List.cons.injEq] at h
      exact hne h.1
    | text d' c' =>
      have hm' := hm
      rw [wfNode] at hm'
      simp only [Bool.and_eq_true, Bool.not_eq_true', List.isEmpty_eq_false_iff] at hm'
      obtain ⟨hc', _⟩ := hm'
      subst hc'
      obtain ⟨rx, rfl⟩ : ∃ r, x = 0x3c :: r := by
        rcases fx with f | f
        · simp [isPlainText] at f
        · exact f
      obtain ⟨ry, rfl⟩ : ∃ r, y = 0x3c :: r := by
        rcases fy with f | f
        · simp [isPlainText] at f
        · exact f
      simp only [ser, Bool.false_eq_true, if_false] at h
      obtain ⟨rfl, e⟩ := escText_delim _ _ _ _ h
      exact ⟨rfl, by rw [e]⟩
    | comment _ => simp [wfNode] at hm
    | procinst _ _ => simp [wfNode] at hm
    | directive _ => simp [wfNode] at hm
  | .comment _, _, hn, _, _, _, _, _, _ => by simp [wfNode] at hn
  | .procinst _ _, _, hn, _, _, _, _, _, _ => by simp [wfNode] at hn
  | .directive _, _, hn, _, _, _, _, _, _ => by simp [wfNode] at hn
/-- **unique parse of a child list** followed by the parent's closing tag -/
theorem serKids_inj : ∀ (ks ks' : List Node), wfKids ks = true → wfKids ks' = true → ∀ x y : Bytes,
    serKids ks ++ x = serKids ks' ++ y → StartsClose x → StartsClose y → ks = ks' ∧ x = y
  | [], [], _, _, x, y, h, _, _ => by simpa [serKids] using h
  | [], m :: ms, _, hm, x, y, h, hx, _ => by
    exfalso
    obtain ⟨r, rfl⟩ := hx
    have hm1 := (wfKids_cons hm).1
    simp only [serKids, List.nil_append, List.append_assoc] at h
    rcases ser_head hm1 (serKids ms ++ y) with ⟨_, c, r', e, h1, _⟩ | ⟨_, c, r', e, hne⟩
    · rw [e] at h; simp only [List.cons.injEq, true_and] at h; exact h1 h.1.symm
    · rw [e] at h; simp only [List.cons.injEq] at h; exact hne h.1.symm
  | n :: ns, [], hn, _, x, y, h, _, hy => by
    exfalso
    obtain ⟨r, rfl⟩ := hy
    have hn1 := (wfKids_cons hn).1
    simp only [serKids, List.nil_append, List.append_assoc] at h
    rcases ser_head hn1 (serKids ns ++ x) with ⟨_, c, r', e, h1, _⟩ | ⟨_, c, r', e, hne⟩
    · rw [e] at h; simp only [List.cons.injEq, true_and] at h; exact h1 h.1
    · rw [e] at h; simp only [List.cons.injEq] at h; exact hne h.1
  | n :: ns, m :: ms, hn, hm, x, y, h, hx, hy => by
    simp only [serKids, List.append_assoc] at h
    obtain ⟨rfl, h'⟩ := ser_inj n m (wfKids_cons hn).1 (wfKids_cons hm).1 _ _ h
      (follow_of_kids hn x hx) (follow_of_kids hm y hy)
    obtain ⟨rfl, e⟩ := serKids_inj ns ms (wfKids_cons hn).2.1 (wfKids_cons hm).2.1 x y h' hx hy
    exact ⟨rfl, e⟩
end

/-! ### consequences -/

/-- **the canonical serialisation is injective on well-formed trees** -/
theorem ser_injective (a b : Node) (ha : wfNode a = true) (hb : wfNode b = true) (h : ser a = ser b) : a = b := by
  cases hpa : isPlainText a with
  | false =>
    cases hpb : isPlainText b with
    | false => exact (ser_inj a b ha hb [] [] (by simpa using h) (Or.inl hpa) (Or.inl hpb)).1
    | true =>
      exfalso
      rcases ser_head ha [] with ⟨_, c, r, e, _⟩ | ⟨hp, _⟩
      · rcases ser_head hb [] with ⟨hp, _⟩ | ⟨_, c', r', e', hne⟩
        · rw [hpb] at hp; cases hp
        · rw [List.append_nil] at e e'
          rw [h, e'] at e
          simp only [List.cons.injEq] at e
          exact hne e.1
      · rw [hpa] at hp; cases hp
  | true =>
    cases hpb : isPlainText b with
    | false =>
      exfalso
      rcases ser_head hb [] with ⟨_, c, r, e, _⟩ | ⟨hp, _⟩
      · rcases ser_head ha [] with ⟨hp, _⟩ | ⟨_, c', r', e', hne⟩
        · rw [hpa] at hp; cases hp
        · rw [List.append_nil] at e e'
          rw [← h, e'] at e
          simp only [List.cons.injEq] at e
          exact hne e.1
      · rw [hpb] at hp; cases hp
    | true =>
      -- two character-data nodes: append a `<` on both sides
      have := ser_inj a b ha hb [0x3c] [0x3c] (by rw [h]) (Or.inr ⟨[], rfl⟩) (Or.inr ⟨[], rfl⟩)
      exact this.1

theorem serKids_injective (ks ks' : List Node) (h1 : wfKids ks = true) (h2 : wfKids ks' = true)
    (h : serKids ks = serKids ks') : ks = ks' :=
  (serKids_inj ks ks' h1 h2 [0x3c, 0x2f] [0x3c, 0x2f] (by rw [h]) ⟨[], rfl⟩ ⟨[], rfl⟩).1

/-- an element's serialisation is self-delimiting: whatever follows -/
theorem ser_elem_inj (a b : Node) (ha : wfNode a = true) (hb : wfNode b = true) (ea : IsElem a) (eb : IsElem b)
    (x y : Bytes) (h : ser a ++ x = ser b ++ y) : a = b ∧ x = y := by
  have pa : isPlainText a = false := by cases a <;> simp_all [IsElem, isPlainText]
  have pb : isPlainText b = false := by cases b <;> simp_all [IsElem, isPlainText]
  exact ser_inj a b ha hb x y h (Or.inl pa) (Or.inl pb)

/-- two different well-formed elements never commute as words -/
theorem serNoncomm_of_ne (a b : Node) (ha : wfNode a = true) (hb : wfNode b = true) (ea : IsElem a) (eb : IsElem b)
    (hne : a ≠ b) : SerNoncomm a b := by
  intro x he
  exact hne (ser_elem_inj a b ha hb ea eb _ _ he).1

end Relic.Xml.Inj

/- helper lemmas for C09: block hashers -/
import Relic.Model.Merkle
namespace Relic.Merkle
open Relic

theorem chunks_nil {α} (B : Nat) : chunks B ([] : List α) = [] := by
  rw [chunks]; simp

theorem chunks_cons_of {α} (B : Nat) (l : List α) (hB : 0 < B) (hl : l ≠ []) :
    chunks B l = l.take B :: chunks B (l.drop B) := by
  rw [chunks]; simp [hB, hl]

/-- a full block in front is split off -/
theorem chunks_block_append {α} (B : Nat) (b l : List α) (hB : 0 < B) (hb : b.length = B) :
    chunks B (b ++ l) = b :: chunks B l := by
  have hne : b ++ l ≠ [] := by
    intro h
    have := congrArg List.length h
    simp only [List.length_append, List.length_nil] at this; omega
  rw [chunks_cons_of B _ hB hne]
  have h1 : (b ++ l).take B = b := by
    rw [← hb]; simp
  have h2 : (b ++ l).drop B = l := by
    rw [← hb]; simp
  rw [h1, h2]

/-- a short, non-empty tail is one block -/
theorem chunks_short {α} (B : Nat) (t : List α) (ht : t.length < B) (hne : t ≠ []) :
    chunks B t = [t] := by
  have hB : 0 < B := by omega
  rw [chunks_cons_of B _ hB hne]
  have h1 : t.take B = t := List.take_of_length_le (by omega)
  have h2 : t.drop B = [] := List.drop_of_length_le (by omega)
  rw [h1, h2, chunks_nil]

/-- **the lemma under every block hasher**: chunks of (full blocks ++ short tail) -/
theorem chunks_full_tail {α} (B : Nat) (bs : List (List α)) (t : List α) (hB : 0 < B)
    (hbs : ∀ b ∈ bs, b.length = B) (ht : t.length < B) :
    chunks B (bs.flatten ++ t) = bs ++ (if t = [] then [] else [t]) := by
  induction bs with
  | nil =>
    by_cases h : t = []
    · simp [h, chunks_nil]
    · simp [h, chunks_short B t ht h]
  | cons b bs ih =>
    have hb : b.length = B := hbs b (by simp)
    have := ih (fun x hx => hbs x (by simp [hx]))
    simp only [List.flatten_cons, List.append_assoc, List.cons_append]
    rw [chunks_block_append B b _ hB hb, this]

/-- chunks is injective-free: flattening the chunks gives the input back -/
theorem chunks_flatten {α} (B : Nat) (l : List α) (hB : 0 < B) : (chunks B l).flatten = l := by
  fun_induction chunks B l with
  | case1 l h ih => simp [ih]
  | case2 l h =>
    have : l = [] := by
      by_cases hl : l = []
      · exact hl
      · exact absurd ⟨hB, hl⟩ h
    simp [this]

/-! ### `direct` -/

theorem direct_spec (B : Nat) (d : Bytes) (hB : 0 < B) :
    (direct B d).1.flatten ++ (direct B d).2 = d ∧ (∀ b ∈ (direct B d).1, b.length = B) ∧
      (direct B d).2.length < B := by
  fun_induction direct B d with
  | case1 d h r ih =>
    obtain ⟨i1, i2, i3⟩ := ih
    refine ⟨?_, ?_, i3⟩
    · simp only [List.flatten_cons, List.append_assoc]
      rw [i1]; simp
    · intro b hb
      simp only [List.mem_cons] at hb
      rcases hb with rfl | hb
      · simp; omega
      · exact i2 b hb
  | case2 d h =>
    refine ⟨by simp, by simp, ?_⟩
    simp only
    by_cases hd : B ≤ d.length
    · exact absurd ⟨hB, hd⟩ h
    · omega

theorem direct_short (B : Nat) (d : Bytes) (h : d.length < B) : direct B d = ([], d) := by
  rw [direct]; simp; omega

/-! ### the invariant of `Write` -/

/-- relative to an already-emitted prefix `p`: the blocks emitted since are full, the buffer is
    short, and together they are exactly what was written -/
def Inv (B : Nat) (p : List Bytes) (s : St) (w : Bytes) : Prop :=
  ∃ bs, s.out = p ++ bs ∧ (∀ b ∈ bs, b.length = B) ∧ s.buf.length < B ∧ bs.flatten ++ s.buf = w

theorem write_inv (B : Nat) (p : List Bytes) (s : St) (w d : Bytes) (hB : 0 < B)
    (h : Inv B p s w) : Inv B p (write B s d) (w ++ d) := by
  obtain ⟨bs, ho, hf, hl, hw⟩ := h
  unfold write
  split
  · next hc =>
    obtain ⟨hn, hge⟩ := hc
    obtain ⟨d1, d2, d3⟩ := direct_spec B (d.drop (B - s.buf.length)) hB
    refine ⟨bs ++ (s.buf ++ d.take (B - s.buf.length)) :: (direct B (d.drop (B - s.buf.length))).1, ?_, ?_, d3, ?_⟩
    · simp [ho]
    · intro b hb
      simp only [List.mem_append, List.mem_cons] at hb
      rcases hb with hb | rfl | hb
      · exact hf b hb
      · simp; omega
      · exact d2 b hb
    · simp only [List.flatten_append, List.flatten_cons, List.append_assoc]
      rw [d1, List.take_append_drop, ← hw]; simp
  · next hc =>
    obtain ⟨d1, d2, d3⟩ := direct_spec B d hB
    by_cases hn : s.buf.length = 0
    · have hb : s.buf = [] := List.eq_nil_of_length_eq_zero hn
      refine ⟨bs ++ (direct B d).1, by simp [ho], ?_, by simp [hb]; exact d3, ?_⟩
      · intro b hb'
        simp only [List.mem_append] at hb'
        rcases hb' with hb' | hb'
        · exact hf b hb'
        · exact d2 b hb'
      · simp only [List.flatten_append, List.append_assoc, hb, List.nil_append]
        rw [d1, ← hw, hb]; simp
    · have hlt : s.buf.length + d.length < B := by
        by_cases hx : B ≤ s.buf.length + d.length
        · exact absurd ⟨hn, hx⟩ hc
        · omega
      have hd : direct B d = ([], d) := direct_short B d (by omega)
      rw [hd]
      refine ⟨bs, by simp [ho], hf, by simp; omega, ?_⟩
      simp [← hw]

theorem run_inv (B : Nat) (p : List Bytes) (ws : List Bytes) (s : St) (w : Bytes) (hB : 0 < B)
    (h : Inv B p s w) : Inv B p (run B s ws) (w ++ ws.flatten) := by
  induction ws generalizing s w with
  | nil => simpa [run] using h
  | cons d ws ih =>
    have := ih (write B s d) (w ++ d) (write_inv B p s w d hB h)
    simpa [run, List.append_assoc] using this

/-- one flushed section appends exactly the chunks of what was written in it -/
theorem flush_run (B : Nat) (s : St) (ws : List Bytes) (hB : 0 < B) (hs : s.buf = []) :
    flush (run B s ws) = ⟨[], s.out ++ chunks B ws.flatten⟩ := by
  have h0 : Inv B s.out s [] := ⟨[], by simp, by simp, by simp [hs]; exact hB, by simp [hs]⟩
  obtain ⟨bs, ho, hf, hl, hw⟩ := run_inv B s.out ws s [] hB h0
  simp only [List.nil_append] at hw
  rw [← hw, chunks_full_tail B bs _ hB hf hl]
  unfold flush
  by_cases hb : (run B s ws).buf = []
  · simp [hb]
    cases h : run B s ws
    simp_all
  · have : (run B s ws).buf.length ≠ 0 := by
      intro h; exact hb (List.eq_nil_of_length_eq_zero h)
    simp [hb, this, ho]

theorem sections_spec (B : Nat) (secs : List (List Bytes)) (s : St) (hB : 0 < B) (hs : s.buf = []) :
    sections B s secs = ⟨[], s.out ++ (secs.map fun ws => chunks B ws.flatten).flatten⟩ := by
  induction secs generalizing s with
  | nil => cases s; simp_all [sections]
  | cons ws secs ih =>
    have h1 := flush_run B s ws hB hs
    have := ih (flush (run B s ws)) (by rw [h1])
    simp only [sections, List.foldl_cons] at this ⊢
    rw [this, h1]; simp

/-! ### lengths-only form -/

theorem directL_spec (B : Nat) (d : Bytes) :
    directL B d.length = ((direct B d).1.map List.length, (direct B d).2.length) := by
  fun_induction direct B d with
  | case1 d h r ih =>
    rw [directL]
    simp only [h, and_self, ↓reduceDIte]
    rw [List.length_drop] at ih
    rw [ih]
    obtain ⟨h1, h2⟩ := h
    simp; exact ⟨⟨by omega, rfl⟩, rfl⟩
  | case2 d h =>
    rw [directL]
    simp [h]

theorem writeL_spec (B : Nat) (s : St) (d : Bytes) :
    lens (write B s d) = writeL B (lens s) d.length := by
  unfold write writeL lens
  simp only
  split
  · next hc =>
    have e : d.length - (B - s.buf.length) = (d.drop (B - s.buf.length)).length := by simp
    rw [e, directL_spec]
    simp
  · next hc =>
    rw [directL_spec]
    simp

theorem flushL_spec (s : St) : lens (flush s) = flushL (lens s) := by
  unfold flush flushL lens
  split <;> simp_all

theorem runL_spec (B : Nat) (ws : List Bytes) (s : St) :
    lens (run B s ws) = runL B (lens s) (ws.map List.length) := by
  induction ws generalizing s with
  | nil => rfl
  | cons d ws ih =>
    simp only [run, runL, List.foldl_cons, List.map_cons] at ih ⊢
    rw [ih, writeL_spec]

theorem sectionsL_spec (B : Nat) (secs : List (List Bytes)) (s : St) :
    lens (sections B s secs) = sectionsL B (lens s) (secs.map (·.map List.length)) := by
  induction secs generalizing s with
  | nil => rfl
  | cons ws secs ih =>
    simp only [sections, sectionsL, List.foldl_cons, List.map_cons] at ih ⊢
    rw [ih, flushL_spec, runL_spec]

/-- lengths of the specification's blocks -/
theorem chunks_lens {α} (B : Nat) (l : List α) (hB : 0 < B) :
    (chunks B l).map List.length = chunkLens B l.length := by
  fun_induction chunks B l with
  | case1 l h ih =>
    obtain ⟨_, hl⟩ := h
    have hpos := List.length_pos_iff.mpr hl
    simp only [List.map_cons, ih, List.length_take, List.length_drop]
    unfold chunkLens
    by_cases hlt : l.length < B
    · have e1 : l.length / B = 0 := Nat.div_eq_of_lt hlt
      have e2 : l.length % B = l.length := Nat.mod_eq_of_lt hlt
      have e3 : l.length - B = 0 := by omega
      have e4 : min B l.length = l.length := by omega
      rw [e1, e2, e3, e4]
      have : l.length ≠ 0 := by omega
      simp [this]
    · have hge : B ≤ l.length := by omega
      have e1 : l.length / B = (l.length - B) / B + 1 := by
        rw [Nat.div_eq_sub_div hB hge]
      have e2 : l.length % B = (l.length - B) % B := Nat.mod_eq_sub_mod hge
      have e4 : min B l.length = B := by omega
      rw [e1, e2, e4, List.replicate_succ]
      simp
  | case2 l h =>
    have : l = [] := by
      by_cases hl : l = []
      · exact hl
      · exact absurd ⟨hB, hl⟩ h
    subst this
    simp [chunkLens]

end Relic.Merkle

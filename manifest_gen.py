#!/usr/bin/env python3
"""Regenerates MANIFEST.json from the claims table below (kept here so that the manifest stays valid and current)."""
import json, os, subprocess
V = os.path.dirname(os.path.abspath(__file__))
props = [json.loads(l) for l in open(os.path.join(V, "properties.jsonl"))]

PROOF = "Lean 4 proof over executable model + differential correspondence"
CLAIMS = {
 "C12": dict(text="Lean theorems add_spec, dump_load_apply, load_dump, load_prefix_rejected, inplace_eq_rewrite, apply_exact, sort_instability_irrelevant over the model of lib/binpatch, for all files, all constructible Add sequences and all thresholds; model tied to the Go code by exhaustive small-scope + random differential execution on every run.",
             note="Trusted: Lean kernel; hand-written model validated only by the correspondence run; POSIX pwrite/ftruncate/rename semantics; sort.Sort returns a sorted permutation.", tech=PROOF),
 "C20": dict(text="Lean theorems status_counts_trailing_failures, healthy_iff, one_success_restores, loop_exits_on_close, loop_break_spins (+13 more) over the model of server/view_health.go for all histories and thresholds; the loop skeleton and the comparisons of Healthy are regenerated from source by a go/ast extractor on every run and the obligations discharged by decide; counter model tied by differential execution through GET /health.",
             note="Trusted: Lean kernel; extractor tools/extracthealth; Ping honours its context; Go select semantics; timer jitter and prometheus gauges not modelled.", tech="Lean 4 proof + regenerated (go/ast) obligations + differential correspondence"),
 "C08": dict(text="PARTIAL. PE/COFF: Lean theorems pe_signed_file, pe_digest_ignores_signature_partial, pe_resign_replaces, pe_history (all signing histories on relic's own output) over the model of pedigest.go/pesign.go, built on a proved characterisation of the hashed stream (DigestPE_spec) and on C12; tied by differential execution incl. re-digest and locate on every generated file. Other formats: exercised only (see evidence).",
             note="Trusted: Lean kernel; hand-written PE model; e_lfanew >= 64 in theorems; success of the re-digest is checked dynamically, not proved (pe_digest_ignores_signature_full open).", tech=PROOF),
 "C03": dict(text="PARTIAL. PE/COFF: Lean theorems pe_payload_preserved, pe_refusal_is_clean, pe_patch_constructible (every input byte below the old end of image except the 8-byte directory entry is where it was; patch is constructible so C12 exactness applies); tied by differential execution and by a byte-level predicate evaluated on the real output. Other formats: exercised only.",
             note="Trusted: as C08; FixPEChecksum is outside the theorem.", tech=PROOF),
 "C02": dict(text="PARTIAL. PE/COFF: Lean theorems pe_hashed_injective (the hashed stream determines every protected byte and the positions of the carve-outs), pe_tamper_evident (under collision-freeness on the two streams), pe_no_trailing; tied by model-directed single-byte mutation of really signed images against authenticode.VerifyPE (both directions: protected => rejected, unprotected => still accepted). CMS layer and other formats: not yet modelled.",
             note="Trusted: Lean kernel; hand-written PE model; PKCS#7 verification and X.509 are outside the model (mutations inside the blob are not predicted).", tech="Lean 4 proof over executable model + model-directed mutation correspondence"),
 "C01": dict(text="PARTIAL. PE/COFF: Lean theorem pe_sign_then_redigest_partial (patch applies to the predicted bytes through the real Add/rewrite path; any successful re-digest hashes the signed stream, for every hash function); full sign-then-verify statement kept open as pe_sign_then_verify_full and checked per generated file on model and code. Other formats and the option table: exercised only.",
             note="Trusted: as C08; RSA/ECDSA/PKCS#7 are outside the model.", tech=PROOF),
}
REASON_TODO = "check not built yet in this tree (work in progress; DESIGN.md section 8 gives the order)"

def main():
    hooks = subprocess.run(["git", "-C", "/repo", "log", "--format=%H %s"], stdout=subprocess.PIPE, text=True).stdout.split("\n")
    hook_commits = [l.split(" ")[0] for l in hooks if "verif hook" in l]
    checks = []
    for p in props:
        i = p["id"]
        if i not in CLAIMS:
            continue
        c = CLAIMS[i]
        checks.append({"property_id": i, "quick_cmd": "./check %s --tier quick" % i, "thorough_cmd": "./check %s --tier thorough" % i,
                       "evidence_file": "evidence/%s.json" % i, "replay_cmd_template": "./check %s --replay {path}" % i,
                       "engine": "lean-proof+correspondence",
                       "level_claimed": {"category": "proof", "text": c["text"], "design_ref": "DESIGN.md section 5, %s" % i},
                       "level_note": c["note"], "technique": c["tech"]})
    m = {"version": 1, "setup_cmd": "./setup.sh",
         "hooks": {"guard": "verif", "enable": "go build -tags verif (new files hooks_verif.go guarded by //go:build verif)",
                   "baseline_off_cmd": "cd /repo && go test -mod=mod -vet=off -count=1 -timeout 25m ./...",
                   "source_commits": hook_commits, "add_only": True},
         "engines": [{"name": "lean-proof+correspondence", "path": "check", "serves_properties": sorted(CLAIMS),
                      "kind_free_text": "Lean 4 theorems about executable models (lean/Relic), tied to /repo by differential execution (harness/ vs native Lean driver) and by facts regenerated from the Go source (tools/)"}],
         "checks": checks,
         "not_applicable": [{"property_id": p["id"], "reason": REASON_TODO} for p in props if p["id"] not in CLAIMS],
         "notes": "See DESIGN.md. known_findings.json lists genuine defects (status known / fixed)."}
    json.dump(m, open(os.path.join(V, "MANIFEST.json"), "w"), indent=1)

if __name__ == "__main__":
    main()

// Package scd ties the model of relic's scdaemon token (lean/Relic/Model/Assuan.lean, ScdToken.lean) to the real code:
// token/scdtoken over lib/assuan, driven in-process against a FAKE SCDAEMON on a unix socket in a temp dir.
package scd

import (
	"bufio"
	"bytes"
	"crypto"
	"crypto/rsa"
	"encoding/hex"
	"fmt"
	"net"
	"net/url"
	"os"
	"path/filepath"
	"strings"
	"sync"
	"syscall"
	"time"
	"unsafe"
)

type slot struct {
	n    int
	kind byte // 'r' RSA key, 'e' ECC key, 'x' listed with keygrip X
}

type resp struct {
	data  []byte
	close bool
}

// Daemon is the fake scdaemon.  honest: speaks the protocol as scdaemon defines it (connection state = last SETDATA value,
// PKSIGN signs whatever was stored last with the key named, REAL signatures with the fixed test keys).  hostile: answers the
// i-th command with the i-th scripted byte string.
type Daemon struct {
	dir, Path string
	ln        net.Listener
	hostile   bool
	// honest
	serial string
	pin    []byte
	inq    bool
	slots  []slot
	delay  time.Duration // sleep between storing SETDATA and answering it (lets an unprotected SETDATA/PKSIGN pair interleave)
	// hostile
	script []resp

	mu    sync.Mutex
	log   [][]byte
	conns []net.Conn
	wg    sync.WaitGroup
}

func newDaemon() (*Daemon, error) {
	dir, err := os.MkdirTemp("", "verif-scd-")
	if err != nil {
		return nil, err
	}
	d := &Daemon{dir: dir, Path: filepath.Join(dir, "S.scdaemon")}
	d.ln, err = net.Listen("unix", d.Path)
	if err != nil {
		os.RemoveAll(dir)
		return nil, err
	}
	return d, nil
}

func (d *Daemon) start() {
	d.wg.Add(1)
	go func() {
		defer d.wg.Done()
		for {
			c, err := d.ln.Accept()
			if err != nil {
				return
			}
			d.mu.Lock()
			d.conns = append(d.conns, c)
			d.mu.Unlock()
			d.wg.Add(1)
			go func() {
				defer d.wg.Done()
				defer c.Close()
				if d.hostile {
					d.serveHostile(c.(*net.UnixConn))
				} else {
					d.serveHonest(c)
				}
			}()
		}
	}()
}

// Kill closes every connection (releases a client blocked in a read).
func (d *Daemon) Kill() {
	d.mu.Lock()
	for _, c := range d.conns {
		c.Close()
	}
	d.mu.Unlock()
}

// Stop waits for the serving goroutines (they end when the client closes) and removes the socket.
func (d *Daemon) Stop() [][]byte {
	d.ln.Close()
	done := make(chan struct{})
	go func() { d.wg.Wait(); close(done) }()
	select {
	case <-done:
	case <-time.After(5 * time.Second):
		d.Kill()
		<-done
	}
	os.RemoveAll(d.dir)
	d.mu.Lock()
	defer d.mu.Unlock()
	return d.log
}

// unread returns the number of bytes the daemon has sent that the client has not yet taken out of its socket (SIOCOUTQ, summed
// over the connections); -1 when it cannot be determined.
func (d *Daemon) unread() int {
	d.mu.Lock()
	conns := append([]net.Conn(nil), d.conns...)
	d.mu.Unlock()
	total := 0
	for _, c := range conns {
		uc, ok := c.(*net.UnixConn)
		if !ok {
			return -1
		}
		rc, err := uc.SyscallConn()
		if err != nil {
			continue // closed
		}
		n := int32(0)
		var errno syscall.Errno
		if cerr := rc.Control(func(fd uintptr) {
			_, _, errno = syscall.Syscall(syscall.SYS_IOCTL, fd, 0x5411 /* SIOCOUTQ */, uintptr(unsafe.Pointer(&n)))
		}); cerr != nil {
			continue // closed
		}
		if errno != 0 {
			return -1
		}
		total += int(n)
	}
	return total
}

func (d *Daemon) logLine(l []byte) {
	d.mu.Lock()
	d.log = append(d.log, append([]byte(nil), l...))
	d.mu.Unlock()
}

func (d *Daemon) Log() [][]byte {
	d.mu.Lock()
	defer d.mu.Unlock()
	return append([][]byte(nil), d.log...)
}

func readLine(r *bufio.Reader) ([]byte, error) {
	l, err := r.ReadBytes('\n')
	if err != nil {
		return nil, err
	}
	return l[:len(l)-1], nil
}

func isDataLine(l []byte) bool {
	return bytes.HasPrefix(l, []byte("D ")) || string(l) == "END" || string(l) == "CANCEL"
}

func (d *Daemon) serveHostile(c *net.UnixConn) {
	i := 0
	eof := false
	// "close" = the daemon shuts down its SENDING side after this answer: the client reads what was sent, then EOF.  The
	// daemon keeps reading (and logging) until the client closes, so that client writes never fail: the outcome does not
	// depend on how the two sides are scheduled.
	send := func() {
		if eof {
			return
		}
		if i >= len(d.script) {
			eof = true
			c.CloseWrite()
			return
		}
		r := d.script[i]
		i++
		if len(r.data) > 0 {
			c.Write(r.data)
		}
		if r.close {
			eof = true
			c.CloseWrite()
		}
	}
	send()
	rd := bufio.NewReader(c)
	for {
		l, err := readLine(rd)
		if err != nil {
			return
		}
		if len(l) == 0 {
			continue
		}
		d.logLine(l)
		if isDataLine(l) {
			continue
		}
		send()
	}
}

// fully escaped D lines, 300 escaped bytes per line (a %XX triple may straddle two lines)
func dLines(blob []byte) []byte {
	e := url.PathEscape(string(blob))
	var b bytes.Buffer
	for len(e) > 0 {
		n := 300
		if n > len(e) {
			n = len(e)
		}
		b.WriteString("D " + e[:n] + "\n")
		e = e[n:]
	}
	return b.Bytes()
}

func csAtom(b []byte) []byte { return append([]byte(fmt.Sprintf("%d:", len(b))), b...) }
func csList(items ...[]byte) []byte {
	out := []byte("(")
	for _, it := range items {
		out = append(out, it...)
	}
	return append(out, ')')
}

func pubBlob(s slot) []byte {
	if s.kind == 'r' {
		k := RSAKey(s.n)
		n := append([]byte{0}, k.N.Bytes()...)
		return csList(csAtom([]byte("public-key")), csList(csAtom([]byte("rsa")),
			csList(csAtom([]byte("n")), csAtom(n)), csList(csAtom([]byte("e")), csAtom([]byte{1, 0, 1}))))
	}
	q := append([]byte{4}, ecPoint...)
	return csList(csAtom([]byte("public-key")), csList(csAtom([]byte("ecc")),
		csList(csAtom([]byte("curve")), csAtom([]byte("NIST P-256"))), csList(csAtom([]byte("q")), csAtom(q))))
}

var hashByName = map[string]crypto.Hash{"md5": crypto.MD5, "sha1": crypto.SHA1, "sha224": crypto.SHA224, "sha256": crypto.SHA256,
	"sha384": crypto.SHA384, "sha512": crypto.SHA512}

func slotID(n int) string { return fmt.Sprintf("OPENPGP.%d", n) }
func slotGrip(s slot) string {
	if s.kind == 'x' {
		return "X"
	}
	return fmt.Sprintf("A1B2C3D4E5F60718293A4B5C6D7E8F9001020304%d", s.n)
}
func slotFpr(s slot) string { return fmt.Sprintf("F0E1D2C3B4A5968778695A4B3C2D1E0F1122334%d", s.n) }

func (d *Daemon) findSlot(id string) *slot {
	for i := range d.slots {
		if slotID(d.slots[i].n) == id {
			return &d.slots[i]
		}
	}
	return nil
}

func cmdWord(l string) (string, string) {
	if i := strings.IndexByte(l, ' '); i >= 0 {
		return l[:i], l[i+1:]
	}
	return l, ""
}

func (d *Daemon) serveHonest(c net.Conn) {
	w := func(s string) { c.Write([]byte(s)) }
	w("OK GNU Privacy Guard's Smartcard server ready\n")
	rd := bufio.NewReader(c)
	var data []byte
	haveData := false
	awaiting := ""
	var answer []byte
	sign := func(args string) string {
		opt, kid := cmdWord(args)
		hash := ""
		if len(opt) >= 7 {
			hash = opt[7:]
		}
		s := d.findSlot(kid)
		if s == nil {
			return "ERR 100663305 No secret key <SCD>\n"
		}
		if s.kind != 'r' {
			return "ERR 100663365 Not supported <SCD>\n"
		}
		if !haveData {
			return "ERR 100663354 No data <SCD>\n"
		}
		h, ok := hashByName[hash]
		if !ok {
			return "ERR 100663336 Invalid argument <SCD>\n"
		}
		if len(data) != h.Size() {
			return "ERR 100663404 Invalid length <SCD>\n"
		}
		sig, err := rsa.SignPKCS1v15(nil, RSAKey(s.n), h, data)
		if err != nil {
			return "ERR 100663404 Invalid length <SCD>\n"
		}
		return string(dLines(sig)) + "OK\n"
	}
	run := func(cmd string) string {
		wd, a := cmdWord(cmd)
		if wd == "PKSIGN" {
			return sign(a)
		}
		return "OK\n"
	}
	for {
		lb, err := readLine(rd)
		if err != nil {
			return
		}
		if len(lb) == 0 {
			continue
		}
		d.logLine(lb)
		l := string(lb)
		if awaiting != "" {
			switch {
			case strings.HasPrefix(l, "D "):
				answer = append(answer, l[2:]...)
			case l == "END":
				cmd := awaiting
				awaiting = ""
				p, err := url.PathUnescape(string(answer))
				answer = nil
				if err != nil {
					w("ERR 100663571 Invalid data <SCD>\n")
				} else if p == string(d.pin)+"\x00" {
					w(run(cmd))
				} else {
					w("ERR 100663383 Bad PIN <SCD>\n")
				}
			case l == "CANCEL":
				awaiting = ""
				answer = nil
				w("ERR 100663395 Operation cancelled <SCD>\n")
			default:
				w("ERR 100663571 Unexpected command during inquiry <SCD>\n")
			}
			continue
		}
		wd, a := cmdWord(l)
		switch wd {
		case "LEARN":
			var b strings.Builder
			if d.serial != "" {
				b.WriteString("S SERIALNO " + d.serial + "\n")
			}
			b.WriteString("S APPTYPE OPENPGP\n")
			for _, s := range d.slots {
				b.WriteString("S KEYPAIRINFO " + slotGrip(s) + " " + slotID(s.n) + "\n")
			}
			for _, s := range d.slots {
				b.WriteString(fmt.Sprintf("S KEY-FPR %d %s\n", s.n, slotFpr(s)))
			}
			b.WriteString("OK\n")
			w(b.String())
		case "CHECKPIN":
			awaiting = l
			answer = nil
			w("INQUIRE NEEDPIN ||Please enter the PIN\n")
		case "READKEY":
			s := d.findSlot(a)
			if s == nil || s.kind == 'x' {
				w("ERR 100663305 No public key <SCD>\n")
			} else {
				w(string(dLines(pubBlob(*s))) + "OK\n")
			}
		case "SETDATA":
			v, err := hex.DecodeString(a)
			if err != nil {
				w("ERR 100663414 Invalid hex string <SCD>\n")
			} else {
				data, haveData = v, true
				if d.delay > 0 {
					time.Sleep(d.delay)
				}
				w("OK\n")
			}
		case "PKSIGN":
			if d.inq {
				awaiting = l
				answer = nil
				w("INQUIRE NEEDPIN ||Please enter the PIN\n")
			} else {
				w(run(l))
			}
		default:
			w("ERR 100663571 Unknown IPC command <SCD>\n")
		}
	}
}

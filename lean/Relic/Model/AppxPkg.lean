/-
  Relic.Model.AppxPkg — the part-level logic of relic's APPX / MSIX / bundle signer and verifier, on top of the byte-level
  ZIP model (`Relic.Model.Zip`, `Relic.Model.Appx`):

  * `/repo/lib/signappx/contenttypes.go` — `ContentTypes.Parse` / `Add` / `Find` / `Marshal` (§1; the maps and `Find` are those
    of `Relic.Model.Vsix`, which uses the same Go type), *including* the bytes `encoding/xml` writes (`EscapeString`);
  * `/repo/lib/signappx/manifest.go`, `bundle.go` (`SetPublisher`, `checkManifest`, the `Identity` field of `verifyBundle`) —
    which attribute etree's `FindElement("Package/Identity").CreateAttr("Publisher", …)` writes and which attribute
    `encoding/xml` reads back into `appxIdentity.Publisher` (§2);
  * `/repo/lib/signappx/verify.go` `readSignature` — the tagged digest list inside the SpcIndirectData (§3);
  * `/repo/lib/signappx/verify.go` `Verify`, `verifyFile`, `verifyCatalog`; `blockmap.go` `verifyBlockMap`; `zipmeta.go`
    `verifyMeta`; `manifest.go` `checkManifest`; `bundle.go` `verifyBundle` — the order of the checks, what each one compares
    and which error it gives (§4), as a *list of steps* (`Step`): a hash comparison or a terminal verdict.  `run H steps`
    is the verdict under a hash family `H`; the native driver prints the steps and the check hashes the streams (no
    hash runs in Lean);
  * `/repo/lib/signappx/tarappx.go` `DigestAppxTar` and `sign.go` `AppxDigest.Sign` at the level of parts (§5): which members
    are payload, which are parsed, what the block map lists, which content types are written, which parts are added in which
    order, the digest blob.

  Parameters (`Env`): PKCS#7 (`openSig`, `openCat`, `p7`, `catalog`), `encoding/xml` / etree on the block map and the manifests
  (`parseBM`, `parseManifest`, `parseBundle`, `marshal*`), `x509tools.FormatPkixName` (`fmtName`; the driver instantiates it
  with `Relic.Ident.formatPkixName .msosco`), `authenticode.DigestPE`'s verdict, and the ZIP layer: a package is seen through
  `View` = what `archive/zip` lists (`Entry`) plus the two streams `verifyMeta` recomputes with `zipslicer`
  (`Relic.Appx.verifyMeta`).

  `fx : Fx` says which of the repairs proposed with this model the code carries (each one is a separate patch):
  F41 (`blockMap.AddFile` leaves `*.appx` members out of the block map only in bundles), the index panic of
  `verifyBundle` on two members whose names differ only in `/` vs `\`, and the Publisher the verifier reads
  (`readPublisher`: the attribute `SetPublisher` writes instead of `encoding/xml`'s last-one-wins).

  Core Lean only (linked into the native driver).
-/
import Relic.Model.Appx
import Relic.Model.Vsix
import Relic.Model.Ident
namespace Relic.AppxPkg
open Relic Relic.Appx

abbrev SMap := Vsix.SMap
abbrev CT := Vsix.CT

/-- which of the repairs proposed with this model the code carries (`patches/appx2-*.patch`): `f41` — `blockMap.AddFile` leaves
    `*.appx` members out of the block map only in bundles; `dup` — `verifyBundle` refuses a second member with the same DOS name
    instead of indexing `Packages[-1]`; `pub` — the verifier compares the attribute `SetPublisher` writes -/
structure Fx where
  f41 : Bool
  dup : Bool
  pub : Bool
  deriving Repr, DecidableEq

def Fx.orig : Fx := ⟨false, false, false⟩
def Fx.all : Fx := ⟨true, true, true⟩

/-- 'Publisher' -/
def sPublisher : Bytes := [80, 117, 98, 108, 105, 115, 104, 101, 114]
/-- 'xml' -/
def sXml : Bytes := [120, 109, 108]
/-- 'APPX' -/
def tAPPX : Bytes := [65, 80, 80, 88]
/-- 'AXPC' -/
def tAXPC : Bytes := [65, 88, 80, 67]
/-- 'AXCD' -/
def tAXCD : Bytes := [65, 88, 67, 68]
/-- 'AXCT' -/
def tAXCT : Bytes := [65, 88, 67, 84]
/-- 'AXBM' -/
def tAXBM : Bytes := [65, 88, 66, 77]
/-- 'AXCI' -/
def tAXCI : Bytes := [65, 88, 67, 73]
/-- 'PKCX' -/
def tPKCX : Bytes := [80, 75, 67, 88]
/-- 'application/octet-stream' -/
def octetStreamType : Bytes := [97, 112, 112, 108, 105, 99, 97, 116, 105, 111, 110, 47, 111, 99, 116, 101, 116, 45, 115, 116, 114, 101, 97, 109]
/-- 'application/vnd.ms-appx.bundlemanifest+xml' -/
def bundleManifestType : Bytes := [97, 112, 112, 108, 105, 99, 97, 116, 105, 111, 110, 47, 118, 110, 100, 46, 109, 115, 45, 97, 112, 112, 120, 46, 98, 117, 110, 100, 108, 101, 109, 97, 110, 105, 102, 101, 115, 116, 43, 120, 109, 108]
/-- 'application/x-msdownload' -/
def ctMsDownload : Bytes := [97, 112, 112, 108, 105, 99, 97, 116, 105, 111, 110, 47, 120, 45, 109, 115, 100, 111, 119, 110, 108, 111, 97, 100]
/-- 'image/png' -/
def ctPng : Bytes := [105, 109, 97, 103, 101, 47, 112, 110, 103]
/-- 'application/vnd.ms-appx.manifest+xml' -/
def ctManifestXml : Bytes := [97, 112, 112, 108, 105, 99, 97, 116, 105, 111, 110, 47, 118, 110, 100, 46, 109, 115, 45, 97, 112, 112, 120, 46, 109, 97, 110, 105, 102, 101, 115, 116, 43, 120, 109, 108]
/-- 'application/vnd.ms-appx' -/
def ctAppx : Bytes := [97, 112, 112, 108, 105, 99, 97, 116, 105, 111, 110, 47, 118, 110, 100, 46, 109, 115, 45, 97, 112, 112, 120]
/-- 'application/vnd.ms-appx.blockmap+xml' -/
def ctBlockMap : Bytes := [97, 112, 112, 108, 105, 99, 97, 116, 105, 111, 110, 47, 118, 110, 100, 46, 109, 115, 45, 97, 112, 112, 120, 46, 98, 108, 111, 99, 107, 109, 97, 112, 43, 120, 109, 108]
/-- 'application/vnd.ms-appx.signature' -/
def ctSignature : Bytes := [97, 112, 112, 108, 105, 99, 97, 116, 105, 111, 110, 47, 118, 110, 100, 46, 109, 115, 45, 97, 112, 112, 120, 46, 115, 105, 103, 110, 97, 116, 117, 114, 101]
/-- 'application/vnd.ms-pkiseccat' -/
def ctCatalog : Bytes := [97, 112, 112, 108, 105, 99, 97, 116, 105, 111, 110, 47, 118, 110, 100, 46, 109, 115, 45, 112, 107, 105, 115, 101, 99, 99, 97, 116]
/-- 'dll' -/
def xDll : Bytes := [100, 108, 108]
/-- 'exe' -/
def xExe : Bytes := [101, 120, 101]
/-- 'png' -/
def xPng : Bytes := [112, 110, 103]
/-- 'appx' -/
def xAppx : Bytes := [97, 112, 112, 120]
/-- '/AppxBlockMap.xml' -/
def oBlockMap : Bytes := [47, 65, 112, 112, 120, 66, 108, 111, 99, 107, 77, 97, 112, 46, 120, 109, 108]
/-- '/AppxSignature.p7x' -/
def oSignature : Bytes := [47, 65, 112, 112, 120, 83, 105, 103, 110, 97, 116, 117, 114, 101, 46, 112, 55, 120]
/-- '/AppxMetadata/CodeIntegrity.cat' -/
def oCatalog : Bytes := [47, 65, 112, 112, 120, 77, 101, 116, 97, 100, 97, 116, 97, 47, 67, 111, 100, 101, 73, 110, 116, 101, 103, 114, 105, 116, 121, 46, 99, 97, 116]
/-- '<?xml version="1.0" encoding="UTF-8" standalone="yes"?>\r\n' -/
def ctHeader : Bytes := [60, 63, 120, 109, 108, 32, 118, 101, 114, 115, 105, 111, 110, 61, 34, 49, 46, 48, 34, 32, 101, 110, 99, 111, 100, 105, 110, 103, 61, 34, 85, 84, 70, 45, 56, 34, 32, 115, 116, 97, 110, 100, 97, 108, 111, 110, 101, 61, 34, 121, 101, 115, 34, 63, 62, 13, 10]
/-- '<Types xmlns="http://schemas.openxmlformats.org/package/2006/content-types">' -/
def ctOpen : Bytes := [60, 84, 121, 112, 101, 115, 32, 120, 109, 108, 110, 115, 61, 34, 104, 116, 116, 112, 58, 47, 47, 115, 99, 104, 101, 109, 97, 115, 46, 111, 112, 101, 110, 120, 109, 108, 102, 111, 114, 109, 97, 116, 115, 46, 111, 114, 103, 47, 112, 97, 99, 107, 97, 103, 101, 47, 50, 48, 48, 54, 47, 99, 111, 110, 116, 101, 110, 116, 45, 116, 121, 112, 101, 115, 34, 62]
/-- '</Types>' -/
def ctClose : Bytes := [60, 47, 84, 121, 112, 101, 115, 62]
/-- '<Default Extension="' -/
def dfOpen : Bytes := [60, 68, 101, 102, 97, 117, 108, 116, 32, 69, 120, 116, 101, 110, 115, 105, 111, 110, 61, 34]
/-- '" ContentType="' -/
def dfMid : Bytes := [34, 32, 67, 111, 110, 116, 101, 110, 116, 84, 121, 112, 101, 61, 34]
/-- '"></Default>' -/
def dfClose : Bytes := [34, 62, 60, 47, 68, 101, 102, 97, 117, 108, 116, 62]
/-- '<Override PartName="' -/
def ovOpen : Bytes := [60, 79, 118, 101, 114, 114, 105, 100, 101, 32, 80, 97, 114, 116, 78, 97, 109, 101, 61, 34]
/-- '"></Override>' -/
def ovClose : Bytes := [34, 62, 60, 47, 79, 118, 101, 114, 114, 105, 100, 101, 62]
/-- '&#34;' -/
def eQuot : Bytes := [38, 35, 51, 52, 59]
/-- '&#39;' -/
def eApos : Bytes := [38, 35, 51, 57, 59]
/-- '&amp;' -/
def eAmp : Bytes := [38, 97, 109, 112, 59]
/-- '&lt;' -/
def eLt : Bytes := [38, 108, 116, 59]
/-- '&gt;' -/
def eGt : Bytes := [38, 103, 116, 59]
/-- '&#x9;' -/
def eTab : Bytes := [38, 35, 120, 57, 59]
/-- '&#xA;' -/
def eNl : Bytes := [38, 35, 120, 65, 59]
/-- '&#xD;' -/
def eCr : Bytes := [38, 35, 120, 68, 59]
/-- U+FFFD in UTF-8 -/
def eFFFD : Bytes := [239, 191, 189]

/-! ## 1. content types (contenttypes.go) -/

/-- `defaultExtensions[ext]` ("" = not in the table) -/
def defaultExtension (ext : Bytes) : Bytes :=
  if ext = xDll then ctMsDownload else if ext = xExe then ctMsDownload else if ext = xPng then ctPng
  else if ext = sXml then ctManifestXml else if ext = xAppx then ctAppx else []

/-- `defaultOverrides[oname]` -/
def defaultOverride (oname : Bytes) : Bytes :=
  if oname = oBlockMap then ctBlockMap else if oname = oSignature then ctSignature
  else if oname = oCatalog then ctCatalog else []

/-- `ContentTypes.Add(name)` -/
def ctAdd (c : CT) (name : Bytes) : CT :=
  if name = sBundle then { c with byExt := Vsix.mset c.byExt sXml bundleManifestType }
  else
    let oname := 47 :: name
    if defaultOverride oname ≠ [] then { c with byOvr := Vsix.mset c.byOvr oname (defaultOverride oname) }
    else if Vsix.mget c.byOvr oname ≠ [] then c
    else
      let ext := Jar.pathExt (Jar.pathBase name)
      if ext ≠ [] ∧ ext.head? = some 46 then
        let e := ext.drop 1
        if defaultExtension e ≠ [] then { c with byExt := Vsix.mset c.byExt e (defaultExtension e) }
        else if Vsix.mget c.byExt e ≠ [] then c
        else { c with byExt := Vsix.mset c.byExt e octetStreamType }
      else { c with byOvr := Vsix.mset c.byOvr oname octetStreamType }

def ctAddAll (c : CT) (names : List Bytes) : CT := names.foldl ctAdd c

/-- `utf8.DecodeRune` on the front of a string: (rune, width); an invalid or truncated sequence gives (U+FFFD, 1) -/
def decodeRune : Bytes → Nat × Nat
  | [] => (0xFFFD, 0)
  | b0 :: r =>
    let x := b0.toNat
    let cont := fun (b : UInt8) => decide (0x80 ≤ b.toNat) && decide (b.toNat ≤ 0xBF)
    if x < 0x80 then (x, 1)
    else if x < 0xC2 then (0xFFFD, 1)
    else if x < 0xE0 then
      match r with
      | b1 :: _ => if cont b1 then ((x - 0xC0) * 64 + (b1.toNat - 0x80), 2) else (0xFFFD, 1)
      | [] => (0xFFFD, 1)
    else if x < 0xF0 then
      match r with
      | b1 :: b2 :: _ =>
        let lo := if x = 0xE0 then 0xA0 else 0x80
        let hi := if x = 0xED then 0x9F else 0xBF
        if lo ≤ b1.toNat ∧ b1.toNat ≤ hi ∧ cont b2 = true then
          (((x - 0xE0) * 64 + (b1.toNat - 0x80)) * 64 + (b2.toNat - 0x80), 3)
        else (0xFFFD, 1)
      | _ => (0xFFFD, 1)
    else if x < 0xF5 then
      match r with
      | b1 :: b2 :: b3 :: _ =>
        let lo := if x = 0xF0 then 0x90 else 0x80
        let hi := if x = 0xF4 then 0x8F else 0xBF
        if lo ≤ b1.toNat ∧ b1.toNat ≤ hi ∧ cont b2 = true ∧ cont b3 = true then
          ((((x - 0xF0) * 64 + (b1.toNat - 0x80)) * 64 + (b2.toNat - 0x80)) * 64 + (b3.toNat - 0x80), 4)
        else (0xFFFD, 1)
      | _ => (0xFFFD, 1)
    else (0xFFFD, 1)

/-- `isInCharacterRange` of encoding/xml -/
def inCharRange (r : Nat) : Bool :=
  r = 0x09 || r = 0x0A || r = 0x0D || (0x20 ≤ r && r ≤ 0xD7FF) || (0xE000 ≤ r && r ≤ 0xFFFD) || (0x10000 ≤ r && r ≤ 0x10FFFF)

/-- the replacement `(*printer).EscapeString` makes for one ASCII byte (`none` = copied as it is) -/
def escByte (b : UInt8) : Option Bytes :=
  if b = 34 then some eQuot else if b = 39 then some eApos else if b = 38 then some eAmp else if b = 60 then some eLt
  else if b = 62 then some eGt else if b = 9 then some eTab else if b = 10 then some eNl else if b = 13 then some eCr
  else none

/-- `(*printer).EscapeString`: what `xml.Marshal` writes for an attribute value; `fuel ≥ s.length` -/
def escAttrF : Nat → Bytes → Bytes
  | 0, _ => []
  | _, [] => []
  | fuel + 1, b :: r =>
    match escByte b with
    | some e => e ++ escAttrF fuel r
    | none =>
      let (rune, w) := decodeRune (b :: r)
      if !inCharRange rune || (rune = 0xFFFD && w = 1) then eFFFD ++ escAttrF fuel (r.drop (w - 1))
      else (b :: r).take w ++ escAttrF fuel (r.drop (w - 1))

def escAttr (s : Bytes) : Bytes := escAttrF s.length s

/-- reading the written form back: the eight character references `EscapeString` produces, everything else verbatim -/
def unescAttr : Bytes → Bytes
  | [] => []
  | b :: r =>
    if b = 38 then
      if r.take 4 = eQuot.drop 1 then 34 :: unescAttr (r.drop 4)
      else if r.take 4 = eApos.drop 1 then 39 :: unescAttr (r.drop 4)
      else if r.take 4 = eAmp.drop 1 then 38 :: unescAttr (r.drop 4)
      else if r.take 3 = eLt.drop 1 then 60 :: unescAttr (r.drop 3)
      else if r.take 3 = eGt.drop 1 then 62 :: unescAttr (r.drop 3)
      else if r.take 4 = eTab.drop 1 then 9 :: unescAttr (r.drop 4)
      else if r.take 4 = eNl.drop 1 then 10 :: unescAttr (r.drop 4)
      else if r.take 4 = eCr.drop 1 then 13 :: unescAttr (r.drop 4)
      else b :: unescAttr r
    else b :: unescAttr r
termination_by s => s.length
decreasing_by all_goals (simp only [List.length_cons, List.length_drop]; omega)

/-- the `Default` and `Override` elements `Marshal` writes: keys in `sort.Strings` order -/
def ctLists (c : CT) : SMap × SMap := (Vsix.sortMap c.byExt, Vsix.sortMap c.byOvr)

def ctElem (open_ close : Bytes) (e : Bytes × Bytes) : Bytes :=
  open_ ++ escAttr e.1 ++ dfMid ++ escAttr e.2 ++ close

/-- `ContentTypes.Marshal`: the bytes of `[Content_Types].xml` -/
def ctSerialize (c : CT) : Bytes :=
  ctHeader ++ ctOpen ++ ((ctLists c).1.flatMap (ctElem dfOpen dfClose) ++ (ctLists c).2.flatMap (ctElem ovOpen ovClose)) ++ ctClose

/-! ## 2. the `Publisher` attribute (manifest.go, bundle.go) -/

/-- what matters of a manifest: is the document element called as the etree path says (`Package` resp. `Bundle`, any
    prefix), and the attribute lists of its child elements with local name `Identity` (any prefix), in document order -/
structure MDoc where
  rootNamed : Bool
  ids : List (List Xml.Attr)
  deriving Repr, DecidableEq

/-- `encoding/xml` filling a `string` field tagged `xml:",attr"` of the struct field `Identity`: every child element called
    `Identity` is unmarshalled into the same struct, and in each every attribute whose *local* name is the field name
    assigns the field (whatever its prefix, `xmlns:Publisher` included): the last one wins -/
def readAttr (key : Bytes) (ids : List (List Xml.Attr)) : Bytes :=
  ids.foldl (fun acc attrs => attrs.foldl (fun a x => if x.key = key then x.value else a) acc) []

/-- `SetPublisher`: `FindElement("Package/Identity")` = the first `Identity` child of a document element called `Package`;
    `CreateAttr("Publisher", subj)` replaces the unprefixed attribute of that name or appends one -/
def setPublisher (subj : Bytes) (d : MDoc) : MDoc :=
  if d.rootNamed then
    match d.ids with
    | [] => d
    | a :: r => { d with ids := Xml.createAttr ([], sPublisher) subj a :: r }
  else d

/-- the Publisher a namespace-aware reader sees: the unprefixed attribute of the first `Identity` element -/
def visiblePublisher (d : MDoc) : Option Bytes :=
  match d.ids with
  | [] => none
  | a :: _ => (a.find? fun x => x.space = [] ∧ x.key = sPublisher).map (·.value)

/-- the Publisher the verifier compares with the certificate.  Original code: `encoding/xml`'s last-one-wins over every
    `Identity` element and every attribute called `Publisher` whatever its prefix.  Repaired code: the attribute `SetPublisher`
    writes (etree: document element named as the path says, first `Identity` child, unprefixed `Publisher`); "" if there is none. -/
def readPublisher (fx : Bool) (d : MDoc) : Bytes :=
  if fx then (if d.rootNamed then (visiblePublisher d).getD [] else [])
  else readAttr sPublisher d.ids

/-- end-of-line handling of an XML parser on a literal attribute value: CR LF and a lone CR become LF.  etree writes CR
    literally, so this is what a value becomes when a written manifest is read again. -/
def eolNorm : Bytes → Bytes
  | [] => []
  | 13 :: 10 :: r => 10 :: eolNorm r
  | 13 :: r => 10 :: eolNorm r
  | b :: r => b :: eolNorm r

/-- a manifest written by etree and parsed again -/
def reread (d : MDoc) : MDoc := { d with ids := d.ids.map fun a => a.map fun x => { x with value := eolNorm x.value } }

/-! ## 3. the digest list of the signature (`readSignature`, `writeSignature`) -/

/-- `digest.WriteString(tag); digest.Write(sum)` per entry after "APPX" -/
def encDigests (ds : List (Bytes × Bytes)) : Bytes := tAPPX ++ ds.flatMap fun d => d.1 ++ d.2

/-- the loop `for len(digests) > 0` of `readSignature` (`hs` = `hash.Size()`); a Go map: the last entry of a tag wins -/
def parseDigestsF (hs : Nat) : Nat → Bytes → SMap → Option SMap
  | 0, _, m => some m
  | fuel + 1, d, m =>
    if d = [] then some m
    else if d.length < 4 + hs then none
    else parseDigestsF hs fuel (d.drop (4 + hs)) (Vsix.mset m (d.take 4) ((d.drop 4).take hs))

def parseDigests (hs : Nat) (d : Bytes) : Option SMap :=
  if d.take 4 ≠ tAPPX then none else parseDigestsF hs d.length (d.drop 4) []

/-- `sig.HashValues[tag]` (`none` = nil) -/
def tagValue (m : SMap) (tag : Bytes) : Option Bytes := (m.find? fun e => e.1 = tag).map (·.2)

/-! ## 4. `Verify` -/

/-- a member as `archive/zip` presents it -/
structure Entry where
  name : Bytes
  /-- `Method == zip.Store` -/
  stored : Bool
  /-- `UncompressedSize64` -/
  usize : Nat
  /-- `DataOffset()` -/
  dataOff : Nat
  /-- `Open()` + read to the end + `Close()` -/
  content : Res Bytes
  /-- the bytes at `[DataOffset, DataOffset + UncompressedSize64)` of the file (what `verifyBundle` hands to the nested `Verify`) -/
  region : Bytes
  deriving Repr

structure View where
  entries : List Entry
  /-- `verifyMeta`: the streams hashed for AXPC and AXCD (`Relic.Appx.verifyMeta`) -/
  zmeta : Res (Bytes × Bytes)
  deriving Repr

structure CertId where
  /-- `Certificate.Raw` -/
  raw : Bytes
  /-- `Certificate.RawSubject` -/
  subject : Bytes
  deriving Repr, DecidableEq

/-- what `readSignature` extracts with PKCS#7 / Authenticode: signer certificate, digest algorithm (an index into the
    hash family), its size, the `MessageDigest.Digest` bytes -/
structure SigBlob where
  cert : CertId
  alg : Nat
  hsize : Nat
  digest : Bytes
  deriving Repr, DecidableEq

structure BmFile where
  name : Bytes
  size : Nat
  /-- the base64-decoded `Hash` attributes (`none` = `DecodeString` fails) -/
  blocks : List (Option Bytes)
  deriving Repr, DecidableEq

structure BmDoc where
  /-- the hash named by `HashMethod` (`none` = not one of the three URIs) -/
  alg : Option Nat
  files : List BmFile
  deriving Repr, DecidableEq

structure BPkg where
  fileName : Bytes
  offset : Int
  size : Nat
  deriving Repr, DecidableEq

structure BDoc where
  ids : List (List Xml.Attr)
  packages : List BPkg
  deriving Repr, DecidableEq

structure Env where
  /-- `pkcs7.Unmarshal` … `PkixDigestToHashE` of `readSignature` on the bytes after "PKCX" -/
  openSig : Bytes → Res SigBlob
  /-- `xml.Unmarshal` into `blockMap` -/
  parseBM : Bytes → Option BmDoc
  /-- `verifyCatalog` up to the certificate comparison: the catalog's signer certificate -/
  openCat : Bytes → Res CertId
  /-- `xml.Unmarshal` into `appxPackage` -/
  parseManifest : Bytes → Option MDoc
  /-- `xml.Unmarshal` into `bundleManifest` (document element `Bundle` in the 2013 bundle namespace) -/
  parseBundle : Bytes → Option BDoc
  /-- `x509tools.FormatPkixName(RawSubject, NameStyleMsOsco)` -/
  fmtName : Bytes → Bytes
  /-- `zip.NewReader` on a nested package and the view of it -/
  unzip : Bytes → Option View
  /-- the order in which Go ranges over the map `files` in `verifyBundle` (some permutation; the driver tries the directory
      order and its reverse) -/
  mapOrder : List Entry → List Entry

inductive Step where
  /-- `hmac.Equal(H(stream), expected)`, else `err cls` -/
  | cmp (cls : String) (alg : Nat) (stream expected : Bytes)
  /-- a check that does not depend on a hash fails here -/
  | stop (r : Res Unit)
  deriving Repr

/-- the verdict under the hash family `H`: the first failing step decides (a `stop` carrying `ok` is no failure) -/
def run (H : Nat → Bytes → Bytes) : List Step → Res Unit
  | [] => .ok ()
  | .cmp cls alg s e :: rest => if H alg s = e then run H rest else .err cls
  | .stop (.ok _) :: rest => run H rest
  | .stop r :: _ => r

/-- the four names `noHashFiles` -/
def noHash (n : Bytes) : Bool := n == sSignature || n == sCatalog || n == sCTypes || n == sBlockMap

def isAppxName (n : Bytes) : Bool := Zip.endsWith n sAppx

/-- members `verifyBlockMap` expects in the block map -/
def covered (isBundle : Bool) (n : Bytes) : Bool := !(noHash n || (isBundle && isAppxName n))

/-- `files[name]`: the last member of that name -/
def View.find (v : View) (name : Bytes) : Option Entry := (v.entries.filter fun e => e.name == name).getLast?

def View.isBundle (v : View) : Bool := (v.find sBundle).isSome

structure Sig where
  cert : CertId
  alg : Nat
  values : SMap
  deriving Repr, DecidableEq

/-- `readSignature(files[appxSignature])` -/
def readSig (E : Env) (v : View) : Res Sig :=
  match v.find sSignature with
  | none => .err "notsigned"
  | some m =>
    match m.content with
    | .ok blob =>
      if blob.take 4 ≠ tPKCX then .err "badsig" else
      match E.openSig (blob.drop 4) with
      | .ok sb =>
        match parseDigests sb.hsize sb.digest with
        | some vals => .ok ⟨sb.cert, sb.alg, vals⟩
        | none => .err "badsig"
      | .err e => .err e
      | .panic s => .panic s
      | .diverge => .diverge
    | .err e => .err e
    | .panic s => .panic s
    | .diverge => .diverge

/-- a failed read (`Open`, `io.Copy`, `Close`) as a step -/
def stopOf {α} : Res α → Step
  | .ok _ => .stop (.ok ())
  | .err e => .stop (.err e)
  | .panic s => .stop (.panic s)
  | .diverge => .stop .diverge

/-- `verifyFile(files, sig, tag, name)` -/
def fileSteps (v : View) (s : Sig) (tag name : Bytes) (cls : String) : List Step :=
  match v.find name, tagValue s.values tag with
  | none, none => []
  | none, some _ => [.stop (.err ("missing-" ++ cls))]
  | some _, none => [.stop (.err ("unsigned-" ++ cls))]
  | some m, some e =>
    match m.content with
    | .ok p => [.cmp ("mismatch-" ++ cls) s.alg p e]
    | r => [stopOf r]

/-- the block loop of `verifyBlockMap` for one member: `io.CopyN(d, r, count)` then the comparison -/
def blockSteps (alg : Nat) : Bytes → Nat → List (Option Bytes) → List Step
  | _, _, [] => []
  | s, remaining, b :: bs =>
    let count := min remaining blockSize
    if s.length < count then [.stop (.err "io")]
    else
      match b with
      | none => [.stop (.err "bm-base64")]
      | some e => .cmp "bm-digest" alg (s.take count) e :: blockSteps alg (s.drop count) (remaining - count) bs

/-- the member loop of `verifyBlockMap`.  NB: `File` elements left over when the members are exhausted are not an error. -/
def bmLoop (alg : Nat) (isBundle : Bool) : List Entry → List BmFile → List Step
  | [], _ => []
  | f :: fs, bms =>
    if !covered isBundle f.name then bmLoop alg isBundle fs bms
    else
      match bms with
      | [] => [.stop (.err "bm-unhashed")]
      | b :: bt =>
        if b.name ≠ zipToDos f.name ∨ b.size ≠ f.usize then [.stop (.err "bm-mismatch")]
        else if b.blocks.length ≠ (f.usize + blockSize - 1) / blockSize then [.stop (.err "bm-mismatch")]
        else
          match f.content with
          | .ok p => blockSteps alg p f.usize b.blocks ++ bmLoop alg isBundle fs bt
          | r => [stopOf r]

/-- `verifyBlockMap(inz, files, false)` -/
def bmSteps (E : Env) (v : View) : List Step :=
  match v.find sBlockMap with
  | none => [.stop (.err "bm-missing")]
  | some m =>
    match m.content with
    | .ok blob =>
      match E.parseBM blob with
      | none => [.stop (.err "xml")]
      | some bm =>
        match bm.alg with
        | none => [.stop (.err "bm-hash")]
        | some alg => bmLoop alg v.isBundle v.entries bm.files
    | r => [stopOf r]

/-- `verifyCatalog(files[appxCodeIntegrity], sig)`.  NB: what the catalog lists is not compared with anything. -/
def catSteps (E : Env) (v : View) (s : Sig) : List Step :=
  match v.find sCatalog with
  | none => []
  | some m =>
    match m.content with
    | .ok blob =>
      match E.openCat blob with
      | .ok c => if c.raw ≠ s.cert.raw then [.stop (.err "catalog-cert")] else []
      | r => [stopOf r]
    | r => [stopOf r]

/-- `verifyMeta` -/
def metaSteps (v : View) (s : Sig) : List Step :=
  match v.zmeta with
  | .ok (pc, cd) =>
    [.cmp "mismatch-axpc" s.alg pc ((tagValue s.values tAXPC).getD []), .cmp "mismatch-axcd" s.alg cd ((tagValue s.values tAXCD).getD [])]
  | r => [stopOf r]

/-- `checkManifest` -/
def manifestSteps (fx : Fx) (E : Env) (v : View) (s : Sig) : List Step :=
  match v.find Appx.sManifest with
  | none => [.stop (.err "manifest")]
  | some m =>
    match m.content with
    | .ok blob =>
      match E.parseManifest blob with
      | none => [.stop (.err "manifest")]
      | some d => if readPublisher fx.pub d ≠ E.fmtName s.cert.subject then [.stop (.err "publisher")] else []
    | _ => [.stop (.err "manifest")]

/-- errors of a nested `Verify` are wrapped: "bundled file %s: %w" -/
def wrapStep : Step → Step
  | .cmp cls alg s e => .cmp ("nested:" ++ cls) alg s e
  | .stop (.err e) => .stop (.err ("nested:" ++ e))
  | s => s

/-- Go map from DOS names to package indices; -1 = seen -/
abbrev Seen := List (Bytes × Int)

def seenGet (m : Seen) (k : Bytes) : Option Int := (m.find? fun e => e.1 = k).map (·.2)
def seenSet (m : Seen) (k : Bytes) (v : Int) : Seen := m.filter (fun e => e.1 ≠ k) ++ [(k, v)]

/-- `packages[pkg.FileName] = i` -/
def seenInit : List BPkg → Nat → Seen → Seen
  | [], _, m => m
  | p :: ps, i, m => seenInit ps (i + 1) (seenSet m p.fileName i)

/-- the entries of the map `files`: one per name (the last), in directory order -/
def uniqLast : List Entry → List Entry
  | [] => []
  | e :: es => if es.any (fun x => x.name == e.name) then uniqLast es else e :: uniqLast es

/-- the loop over `files` of `verifyBundle`, then the loop over `packages`; `nested` = `Verify` on a bundled package -/
def bundleLoop (fx : Fx) (E : Env) (nested : View → List Step) (s : Sig) (pk : List BPkg) : List Entry → Seen → List Step
  | [], seen => if seen.any (fun e => e.2 ≥ 0) then [.stop (.err "bundle-missing")] else []
  | f :: fs, seen =>
    if !isAppxName f.name then bundleLoop fx E nested s pk fs seen
    else if !f.stored then [.stop (.err "bundle-compressed")]
    else
      let dn := zipToDos f.name
      match seenGet seen dn with
      | none => [.stop (.err "bundle-notlisted")]
      | some idx =>
        if idx < 0 then
          -- a second member with the same DOS name: `bundle.Packages[-1]`
          if fx.dup then [.stop (.err "bundle-duplicate")] else [.stop (.panic "verifyBundle:Packages[-1]")]
        else
          match pk[idx.toNat]? with
          | none => [.stop (.panic "verifyBundle:Packages[i]")]     -- unreachable: indices come from `seenInit`
          | some p =>
            if p.offset ≠ (f.dataOff : Int) then [.stop (.err "bundle-offset")]
            else if p.size ≠ f.usize then [.stop (.err "bundle-size")]
            else
              match E.unzip f.region with
              | none => [.stop (.err "nested:zip")]
              | some nv =>
                (nested nv).map wrapStep ++
                  (match readSig E nv with
                   | .ok ns => if ns.cert.raw ≠ s.cert.raw then [.stop (.err "bundle-cert")] else []
                   | _ => []) ++
                  bundleLoop fx E nested s pk fs (seenSet seen dn (-1))

/-- `verifyBundle` -/
def bundleSteps (fx : Fx) (E : Env) (nested : View → List Step) (v : View) (s : Sig) : List Step :=
  match v.find sBundle with
  | none => [.stop (.err "bundle-manifest")]
  | some m =>
    match m.content with
    | .ok blob =>
      match E.parseBundle blob with
      | none => [.stop (.err "bundle-manifest")]
      | some d =>
        if readPublisher fx.pub ⟨true, d.ids⟩ ≠ E.fmtName s.cert.subject then [.stop (.err "bundle-publisher")]
        else bundleLoop fx E nested s d.packages (E.mapOrder (uniqLast v.entries)) (seenInit d.packages 0 [])
    | _ => [.stop (.err "bundle-manifest")]

/-- `Verify`, given what to do for a bundle -/
def verifyCore (fx : Fx) (E : Env) (bundle : View → Sig → List Step) (v : View) : List Step :=
  match readSig E v with
  | .ok s =>
    fileSteps v s tAXBM sBlockMap "axbm" ++ fileSteps v s tAXCI sCatalog "axci" ++ fileSteps v s tAXCT sCTypes "axct" ++
      bmSteps E v ++ catSteps E v s ++ metaSteps v s ++
      (if v.isBundle then bundle v s else manifestSteps fx E v s)
  | r => [stopOf r]

/-- `Verify`; the first argument bounds the nesting depth of bundles (a bundle needs depth ≥ 1) -/
def verifySteps (fx : Fx) (E : Env) : Nat → View → List Step
  | 0, v => verifyCore fx E (fun _ _ => [.stop .diverge]) v
  | n + 1, v => verifyCore fx E (bundleSteps fx E (fun nv => verifySteps fx E n nv)) v

/-- nesting depth the driver allows (a bundle of bundles of packages is 2) -/
def depthBound : Nat := 4

def verify (fx : Fx) (E : Env) (H : Nat → Bytes → Bytes) (v : View) : Res Unit := run H (verifySteps fx E depthBound v)

/-! ## 5. `DigestAppxTar` + `Sign` on parts -/

/-- a member of the input as the signer reads it (contents readable; unreadable members are the byte-level model's business) -/
structure InMember where
  name : Bytes
  stored : Bool
  content : Bytes
  deriving Repr, DecidableEq

structure SignEnv where
  /-- `authenticode.DigestPE` succeeds -/
  peOk : Bytes → Bool
  /-- `parseManifest` / `parseBundle` (both `xml.Unmarshal` and etree must succeed) -/
  parseManifest : Bytes → Option MDoc
  parseBundle : Bytes → Option BDoc
  /-- the old block map as `CopySizes` reads it: name and block sizes per `File` -/
  oldBM : Bytes → Option (List (Bytes × List Nat))
  /-- `ContentTypes.Parse`: the `Default` and `Override` elements in document order -/
  parseCT : Bytes → Option (List (Bytes × Bytes) × List (Bytes × Bytes))
  /-- etree `WriteToBytes` (+ LF → CRLF for the package manifest) -/
  marshalManifest : MDoc → Bytes
  marshalBundle : BDoc → Bytes
  /-- `blockMap.Marshal` -/
  marshalBM : List Appx.BmFile → Bytes
  /-- the signed catalog over the PE members -/
  catalog : List Bytes → Bytes
  /-- `authenticode.SignSip(digest, …).Raw` -/
  p7 : Bytes → Bytes
  fmtName : Bytes → Bytes

/-- `blockMap.AddFile` decides whether a member gets a `File` element.  Repaired: `*.appx` members are left out only when
    the package is a bundle (as `verifyBlockMap` expects); original: always. -/
def skipBMfx (fx isBundle : Bool) (n : Bytes) : Bool := noHash n || ((!fx || isBundle) && isAppxName n)

def bmEntry (name content : Bytes) : Appx.BmFile :=
  { name := zipToDos name, size := content.length, lfh := 30 + name.length, blocks := blocksOf content }

structure Parsed where
  manifest : Option MDoc := none
  bundle : Option BDoc := none
  bm : List Appx.BmFile
  unverified : Bool
  ct : CT := {}

/-- the second loop of `DigestAppxTar` -/
def tailParse (S : SignEnv) : List InMember → Parsed → Res Parsed
  | [], t => .ok t
  | f :: fs, t =>
    if f.name == Appx.sManifest then
      match S.parseManifest f.content with
      | some d => tailParse S fs { t with manifest := some d }
      | none => .err "xml"
    else if f.name == sBundle then
      match S.parseBundle f.content with
      | some d => tailParse S fs { t with bundle := some d }
      | none => .err "xml"
    else if f.name == sBlockMap then
      match S.oldBM f.content with
      | none => .err "xml"
      | some old =>
        match copySizes 0 t.bm old with
        | .ok bm => tailParse S fs { t with bm := bm, unverified := false }
        | .err x => .err x
        | .panic s => .panic s
        | .diverge => .diverge
    else if f.name == sCTypes then
      match S.parseCT f.content with
      | some (ds, os) => tailParse S fs { t with ct := Vsix.ctParse t.ct ds os }
      | none => .err "xml"
    else if f.name == sCatalog || f.name == sSignature then tailParse S fs t
    else .err "outoforder"

structure OutMember where
  name : Bytes
  stored : Bool
  content : Bytes
  deriving Repr, DecidableEq

structure SignedPkg where
  /-- the members of the output in order: payload, then the regenerated parts -/
  members : List OutMember
  /-- the data `blockMap.Marshal` serialises -/
  bm : List Appx.BmFile
  ct : CT
  /-- the manifest as written (`none`: the package is a bundle) -/
  manifest : Option MDoc
  bundle : Option BDoc
  hasPE : Bool
  /-- the streams hashed for AXCT, AXBM, AXCI -/
  axct : Bytes
  axbm : Bytes
  axci : Option Bytes
  deriving Repr

/-- the digest blob `writeSignature` signs, given the hash family, the algorithm and the two ZIP-level streams -/
def digestBlob (H : Nat → Bytes → Bytes) (alg : Nat) (axpc axcd : Bytes) (r : SignedPkg) : Bytes :=
  encDigests ([(tAXPC, H alg axpc), (tAXCD, H alg axcd), (tAXCT, H alg r.axct), (tAXBM, H alg r.axbm)] ++
    match r.axci with
    | some c => [(tAXCI, H alg c)]
    | none => [])

/-- `Sign` up to (not including) `writeSignature`, once the manifest (`mname`, `mbytes`) is written -/
def finishParts (S : SignEnv) (payload : List InMember) (t : Parsed) (mname mbytes : Bytes) (md : Option MDoc) (bd : Option BDoc) :
    Res SignedPkg :=
  let hasPE := payload.any fun m => isPE m.name
  let bm1 := t.bm ++ [bmEntry mname mbytes]
  if t.unverified then .err "unverified" else
  let bmBytes := S.marshalBM bm1
  let ct1 := ctAddAll t.ct (payload.map (·.name) ++ [mname, sBlockMap])
  let ct2 := if hasPE then ctAdd ct1 sCatalog else ct1
  let ct3 := ctAdd ct2 sSignature
  let ctBytes := ctSerialize ct3
  let cat := S.catalog ((payload.filter fun m => isPE m.name).map (·.content))
  .ok { members := payload.map (fun m => ⟨m.name, m.stored, m.content⟩) ++
          [⟨mname, true, mbytes⟩, ⟨sBlockMap, false, bmBytes⟩, ⟨sCTypes, false, ctBytes⟩] ++
          (if hasPE then [⟨sCatalog, false, cat⟩] else []),
        bm := bm1, ct := ct3, manifest := md, bundle := bd, hasPE := hasPE,
        axct := ctBytes, axbm := bmBytes, axci := if hasPE then some cat else none }

/-- the payload of an input: the members before the first part relic regenerates -/
def payloadOf (ms : List InMember) : List InMember := ms.takeWhile fun m => !special m.name
def tailOf (ms : List InMember) : List InMember := ms.dropWhile fun m => !special m.name

/-- the block map entries and the `unverifiedSizes` flag after the payload loop -/
def payloadBM (fx : Fx) (ms : List InMember) : List Appx.BmFile :=
  ((payloadOf ms).filter fun m => !skipBMfx fx.f41 (ms.any fun m => m.name == sBundle) m.name).map fun m => bmEntry m.name m.content

/-- `DigestAppxTar` + `Sign` up to (not including) `writeSignature` -/
def signParts (fx : Fx) (S : SignEnv) (ms : List InMember) (subject : Bytes) : Res SignedPkg :=
  let payload := payloadOf ms
  let isBundleIn := ms.any fun m => m.name == sBundle
  if payload.any (fun m => isPE m.name && !S.peOk m.content) then .err "pe" else
  let unv0 := payload.any fun m => !skipBMfx fx.f41 isBundleIn m.name && !m.stored
  match tailParse S (tailOf ms) { bm := payloadBM fx ms, unverified := unv0 } with
  | .ok t =>
    let pub := S.fmtName subject
    match t.manifest, t.bundle with
    | some d, _ =>
      let d' := setPublisher pub d
      finishParts S payload t Appx.sManifest (S.marshalManifest d') (some d') none
    | none, some b =>
      let b' : BDoc := { b with ids := (setPublisher pub ⟨true, b.ids⟩).ids }
      finishParts S payload t sBundle (S.marshalBundle b') none (some b')
    | none, none => .err "nomanifest"
  | .err x => .err x
  | .panic s => .panic s
  | .diverge => .diverge

/-- the signature part -/
def sigMemberOf (S : SignEnv) (blob : Bytes) : OutMember := ⟨sSignature, false, tPKCX ++ S.p7 blob⟩

end Relic.AppxPkg

/-
  C18 (fragment) — Layer 2 of the comdoc writer: the live chains stay pairwise disjoint.

  Proved at TABLE level: the live chains are given by a list of chain heads `hs` (for the FAT: directory
  stream, mini-FAT chain, mini-stream container, every stream ≥ cutoff; for the mini-FAT: every stream
  below the cutoff); `LiveDisjoint tbl hs` = every head starts a valid chain and no sector occurs twice
  in all of them together.  FAT/DIFAT sectors are covered by their marks (`Marked`): a valid chain never
  passes through an entry ≤ -3 and `makeFreeSectors` only hands out FREESECT entries.
  `add_preserves_disjoint`, `delete_preserves_disjoint`, `short_add_preserves_disjoint`,
  `history_preserves_disjoint` (induction over `List (add|delete)`).

  NOT proved (checked on every dumped state by checklib/props/c18w.py `disjoint_why`): that the heads of
  `St` (slots of type 2 by size, header chain heads) are exactly such a list through `addFile` /
  `deleteFile` / `close` – `add_preserves_disjoint_full` below.
-/
import Relic.Props.C18_Writer
namespace Relic.Props.C18
open Relic Relic.CfbW

/-- `cs` are the chains starting at the heads `hs` -/
def Chains (tbl : List Int) : List Int → List (List Nat) → Prop
  | [], [] => True
  | h :: hs, c :: cs => chain tbl h = some c ∧ Chains tbl hs cs
  | _, _ => False

/-- every head starts a valid chain and the chains are pairwise disjoint (no sector twice overall) -/
def LiveDisjoint (tbl : List Int) (hs : List Int) : Prop :=
  ∃ cs, Chains tbl hs cs ∧ cs.flatten.Nodup

/-- the FAT entries of the FAT and DIFAT sectors carry FATSECT / DIFSECT -/
def Marked (tbl : List Int) (fat : List Nat) : Prop :=
  ∀ s ∈ fat, ∃ v, tbl[s]? = some v ∧ v ≤ -3

theorem Chains.entry {tbl : List Int} : ∀ {hs : List Int} {cs : List (List Nat)}, Chains tbl hs cs →
    ∀ x ∈ cs.flatten, ∃ v, tbl[x]? = some v ∧ (v = EOC ∨ 0 ≤ v) := by
  intro hs
  induction hs with
  | nil => intro cs h x hx; cases cs <;> simp [Chains] at h; simp at hx
  | cons a hs ih =>
    intro cs h x hx
    cases cs with
    | nil => simp [Chains] at h
    | cons c cs =>
      obtain ⟨h1, h2⟩ := h
      simp only [List.flatten_cons, List.mem_append] at hx
      rcases hx with hx | hx
      · exact (chain_iff.mp h1).entry x hx
      · exact ih h2 x hx

theorem Chains.frame {tbl tbl' : List Int} : ∀ {hs : List Int} {cs : List (List Nat)}, Chains tbl hs cs →
    (∀ s c, chain tbl s = some c → (∀ x ∈ c, x ∈ cs.flatten) → chain tbl' s = some c) → Chains tbl' hs cs := by
  intro hs
  induction hs with
  | nil => intro cs h _; cases cs <;> simp_all [Chains]
  | cons a hs ih =>
    intro cs h hf
    cases cs with
    | nil => simp [Chains] at h
    | cons c cs =>
      obtain ⟨h1, h2⟩ := h
      refine ⟨hf a c h1 (fun x hx => by simp [hx]), ih h2 ?_⟩
      intro s c' hc hsub
      exact hf s c' hc (fun x hx => by simp [hsub x hx])

theorem Chains.split {tbl : List Int} : ∀ {pre : List Int} {h : Int} {post : List Int} {cs : List (List Nat)},
    Chains tbl (pre ++ h :: post) cs →
    ∃ cpre c cpost, cs = cpre ++ c :: cpost ∧ Chains tbl pre cpre ∧ chain tbl h = some c ∧ Chains tbl post cpost := by
  intro pre
  induction pre with
  | nil =>
    intro h post cs hc
    cases cs with
    | nil => simp [Chains] at hc
    | cons c cs => exact ⟨[], c, cs, rfl, by simp [Chains], hc.1, hc.2⟩
  | cons a pre ih =>
    intro h post cs hc
    cases cs with
    | nil => simp [Chains] at hc
    | cons c cs =>
      obtain ⟨h1, h2⟩ := hc
      obtain ⟨cpre, c', cpost, e, g1, g2, g3⟩ := ih h2
      exact ⟨c :: cpre, c', cpost, by simp [e], ⟨h1, g1⟩, g2, g3⟩

theorem Chains.join {tbl : List Int} : ∀ {pre post : List Int} {cpre cpost : List (List Nat)},
    Chains tbl pre cpre → Chains tbl post cpost → Chains tbl (pre ++ post) (cpre ++ cpost) := by
  intro pre
  induction pre with
  | nil => intro post cpre cpost h1 h2; cases cpre <;> simp_all [Chains]
  | cons a pre ih =>
    intro post cpre cpost h1 h2
    cases cpre with
    | nil => simp [Chains] at h1
    | cons c cpre => exact ⟨h1.1, ih h1.2 h2⟩

/-- a valid chain never passes through a FAT / DIFAT sector -/
theorem marked_not_live {tbl : List Int} {fat : List Nat} {hs : List Int} {cs : List (List Nat)}
    (hm : Marked tbl fat) (hc : Chains tbl hs cs) : ∀ s ∈ fat, s ∉ cs.flatten := by
  intro s hs' hmem
  obtain ⟨v, hv, hv'⟩ := hm s hs'
  obtain ⟨w, hw, hw'⟩ := hc.entry s hmem
  rw [hv] at hw; cases hw; omega

/-- **add_preserves_disjoint.** Adding a stream (`addStream(contents, false)`, or the mini-FAT side of a
    short one: same function on the other table) keeps the live chains pairwise disjoint, the new chain
    included, and leaves the FAT/DIFAT marks in place – so every live chain is also disjoint from the
    FAT and DIFAT sectors. -/
theorem add_preserves_disjoint (ss : Nat) (tbl : List Int) (hs : List Int) (fat : List Nat) (len : Nat)
    (first : Int) (tbl' : List Int) (hl : LiveDisjoint tbl hs) (hm : Marked tbl fat)
    (h : addStreamBig ss tbl len = .ok (first, tbl')) :
    LiveDisjoint tbl' (first :: hs) ∧ Marked tbl' fat ∧
    (∀ cs, Chains tbl' (first :: hs) cs → ∀ s ∈ fat, s ∉ cs.flatten) := by
  obtain ⟨cs, hc, hn⟩ := hl
  obtain ⟨fl, c1, _, c3, c4, _, _, _⟩ := chain_of_addStream ss tbl len first tbl' h
  obtain ⟨f1, f2⟩ := addStream_frame ss tbl len first tbl' h
  have hm' : Marked tbl' fat := by
    intro s hs'
    obtain ⟨v, hv, hv'⟩ := hm s hs'
    exact ⟨v, f2 s v hv (by omega), hv'⟩
  refine ⟨⟨fl :: cs, ⟨c1, hc.frame (fun s c h _ => f1 s c h)⟩, ?_⟩, hm', fun cs' hc' => marked_not_live hm' hc'⟩
  simp only [List.flatten_cons]
  refine List.nodup_append.mpr ⟨List.Pairwise.imp (fun hab => Nat.ne_of_lt hab) c3, hn, ?_⟩
  intro a ha b hb hab
  subst hab
  obtain ⟨v, hv, hv'⟩ := hc.entry a hb
  rcases c4 a ha with h1 | h1
  · rw [hv] at h1; cases h1; omega
  · have := (List.getElem?_eq_some_iff.mp hv).1; omega

/-- **delete_preserves_disjoint.** Freeing the chain of any live stream keeps the remaining live
    chains valid and pairwise disjoint, and the FAT/DIFAT marks in place. -/
theorem delete_preserves_disjoint (tbl : List Int) (pre : List Int) (hd : Int) (post : List Int) (fat : List Nat)
    (hl : LiveDisjoint tbl (pre ++ hd :: post)) (hm : Marked tbl fat) :
    ∃ tbl', freeSectors tbl hd = .ok tbl' ∧ LiveDisjoint tbl' (pre ++ post) ∧ Marked tbl' fat := by
  obtain ⟨cs, hc, hn⟩ := hl
  obtain ⟨cpre, c, cpost, rfl, g1, g2, g3⟩ := hc.split
  obtain ⟨tbl', e1, _, e3, e4, _⟩ := free_then_alloc tbl hd c g2
  simp only [List.flatten_append, List.flatten_cons] at hn
  obtain ⟨n1, n2, n3⟩ := List.nodup_append.mp hn
  obtain ⟨n4, n5, n6⟩ := List.nodup_append.mp n2
  refine ⟨tbl', e1, ⟨cpre ++ cpost, Chains.join ?_ ?_, ?_⟩, ?_⟩
  · refine g1.frame (fun s m hm' hsub => e4 s m hm' ?_)
    intro x hx hxc
    exact n3 x (hsub x hx) x (List.mem_append_left _ hxc) rfl
  · refine g3.frame (fun s m hm' hsub => e4 s m hm' ?_)
    intro x hx hxc
    exact n6 x hxc x (hsub x hx) rfl
  · simp only [List.flatten_append]
    refine List.nodup_append.mpr ⟨n1, n5, ?_⟩
    intro a ha b hb hab
    exact n3 a ha b (List.mem_append_right _ hb) hab
  · intro s hs'
    obtain ⟨v, hv, hv'⟩ := hm s hs'
    refine ⟨v, ?_, hv'⟩
    rw [e3 s]
    have : s ∉ c := by
      intro hmem
      obtain ⟨w, hw, hw'⟩ := (chain_iff.mp g2).entry s hmem
      rw [hv] at hw; cases hw; omega
    simp [this, hv]

/-- **short_add_preserves_disjoint.** The FAT side of a short `addStream`: with the mini-stream container
    first in the list of live chains (absent = no head), the live FAT chains stay pairwise disjoint while
    the container grows, and the marks stay. -/
theorem short_add_preserves_disjoint (a : Alloc) (len : Nat) (first : Int) (a' : Alloc) (hs : List Int)
    (fat : List Nat) (h : addStream a len true = .ok (first, a'))
    (hl : (0 ≤ a.rootStart ∧ LiveDisjoint a.sat (a.rootStart :: hs)) ∨ (a.rootStart < 0 ∧ LiveDisjoint a.sat hs))
    (hm : Marked a.sat fat) :
    ((0 ≤ a'.rootStart ∧ LiveDisjoint a'.sat (a'.rootStart :: hs)) ∨ (a'.rootStart < 0 ∧ LiveDisjoint a'.sat hs)) ∧
    Marked a'.sat fat := by
  -- the container chain before, as `Cont`, and the other chains
  obtain ⟨C, cs, hC, hc, hn⟩ : ∃ C cs, Cont a.sat a.rootStart C ∧ Chains a.sat hs cs ∧ (C ++ cs.flatten).Nodup := by
    rcases hl with ⟨h0, cs, hc, hn⟩ | ⟨h0, cs, hc, hn⟩
    · cases cs with
      | nil => simp [Chains] at hc
      | cons c cs => exact ⟨c, cs, Or.inr ⟨h0, chain_iff.mp hc.1⟩, hc.2, by simpa using hn⟩
    · exact ⟨[], cs, Or.inl ⟨h0, rfl⟩, hc, by simpa using hn⟩
  obtain ⟨E, g1, g2, g3, g4⟩ := addStream_short_fat a len first a' C hC h
  obtain ⟨n1, n2, n3⟩ := List.nodup_append.mp hn
  have hc' : Chains a'.sat hs cs := by
    refine hc.frame (fun s m hm' hsub => g4 s m hm' ?_)
    intro x hx hxC
    exact n3 x hxC x (hsub x hx) rfl
  have hm' : Marked a'.sat fat := by
    intro s hs'
    obtain ⟨v, hv, hv'⟩ := hm s hs'
    refine ⟨v, g3 s v hv (by omega) ?_, hv'⟩
    intro hmem
    obtain ⟨w, hw, hw'⟩ := hC.entry s hmem
    rcases hC with ⟨_, rfl⟩ | ⟨_, hch⟩
    · cases hmem
    · obtain ⟨w2, hw2, hw2'⟩ := hch.entry s hmem
      rw [hv] at hw2; cases hw2; omega
  refine ⟨?_, hm'⟩
  rcases g1 with ⟨hneg, hnil⟩ | ⟨hpos, hch⟩
  · exact Or.inr ⟨hneg, cs, hc', n2⟩
  · refine Or.inl ⟨hpos, (C ++ E) :: cs, ⟨chain_iff.mpr hch, hc'⟩, ?_⟩
    simp only [List.flatten_cons]
    refine List.nodup_append.mpr ⟨hch.nodup, n2, ?_⟩
    intro x hx y hy hxy
    subst hxy
    rcases List.mem_append.mp hx with hx | hx
    · exact n3 x hx x hy rfl
    · obtain ⟨v, hv, hv'⟩ := hc.entry x hy
      rcases g2 x hx with h1 | h1
      · rw [hv] at h1; cases h1; omega
      · have := (List.getElem?_eq_some_iff.mp hv).1; omega

/-! ### histories -/

/-- table-level operations: add a stream of `len` bytes; delete the `k`-th live stream -/
inductive TOp where
  | add (len : Nat)
  | del (k : Nat)

def tstep (ss : Nat) (st : List Int × List Int) : TOp → Res (List Int × List Int)
  | .add len =>
    match addStreamBig ss st.1 len with
    | .ok (first, tbl') => .ok (tbl', first :: st.2)
    | .err e => .err e | .panic p => .panic p | .diverge => .diverge
  | .del k =>
    match st.2[k]? with
    | none => .ok st
    | some h =>
      match freeSectors st.1 h with
      | .ok tbl' => .ok (tbl', st.2.eraseIdx k)
      | .err e => .err e | .panic p => .panic p | .diverge => .diverge

def trun (ss : Nat) : List Int × List Int → List TOp → Res (List Int × List Int)
  | st, [] => .ok st
  | st, op :: ops =>
    match tstep ss st op with
    | .ok st' => trun ss st' ops
    | .err e => .err e | .panic p => .panic p | .diverge => .diverge

theorem tstep_preserves (ss : Nat) (hss : 4 ≤ ss) (tbl : List Int) (hs : List Int) (fat : List Nat) (op : TOp)
    (hl : LiveDisjoint tbl hs) (hm : Marked tbl fat) :
    ∃ tbl' hs', tstep ss (tbl, hs) op = .ok (tbl', hs') ∧ LiveDisjoint tbl' hs' ∧ Marked tbl' fat := by
  cases op with
  | add len =>
    obtain ⟨first, tbl', e⟩ := addStream_total ss hss tbl len
    obtain ⟨a1, a2, _⟩ := add_preserves_disjoint ss tbl hs fat len first tbl' hl hm e
    exact ⟨tbl', first :: hs, by simp [tstep, e], a1, a2⟩
  | del k =>
    cases hk : hs[k]? with
    | none => exact ⟨tbl, hs, by simp [tstep, hk], hl, hm⟩
    | some h =>
      obtain ⟨hlt, hget⟩ := List.getElem?_eq_some_iff.mp hk
      have hsplit : hs = hs.take k ++ h :: hs.drop (k + 1) := by
        rw [← hget, ← List.drop_eq_getElem_cons hlt, List.take_append_drop]
      rw [hsplit] at hl
      obtain ⟨tbl', e1, e2, e3⟩ := delete_preserves_disjoint tbl _ h _ fat hl hm
      refine ⟨tbl', hs.eraseIdx k, by simp [tstep, hk, e1], ?_, e3⟩
      rw [List.eraseIdx_eq_take_drop_succ]; exact e2

/-- **history_preserves_disjoint.** Any history of additions and deletions of live streams runs to
    completion (no panic, no divergence) and keeps the live chains pairwise disjoint and the FAT/DIFAT
    marks – hence the live chains disjoint from the FAT/DIFAT sectors – by induction over the history. -/
theorem history_preserves_disjoint (ss : Nat) (hss : 4 ≤ ss) (fat : List Nat) : ∀ (ops : List TOp) (tbl : List Int) (hs : List Int),
    LiveDisjoint tbl hs → Marked tbl fat →
    ∃ tbl' hs', trun ss (tbl, hs) ops = .ok (tbl', hs') ∧ LiveDisjoint tbl' hs' ∧ Marked tbl' fat ∧
      (∀ cs, Chains tbl' hs' cs → ∀ s ∈ fat, s ∉ cs.flatten) := by
  intro ops
  induction ops with
  | nil => intro tbl hs hl hm; exact ⟨tbl, hs, rfl, hl, hm, fun cs hc => marked_not_live hm hc⟩
  | cons op ops ih =>
    intro tbl hs hl hm
    obtain ⟨tbl1, hs1, e, hl1, hm1⟩ := tstep_preserves ss hss tbl hs fat op hl hm
    obtain ⟨tbl', hs', e', r⟩ := ih tbl1 hs1 hl1 hm1
    exact ⟨tbl', hs', by simp [trun, e, e'], r⟩

example : LiveDisjoint [1, EOC, FATSECT, 4, EOC, FREE, FREE, FREE] [0, 3, EOC] ∧
    Marked [1, EOC, FATSECT, 4, EOC, FREE, FREE, FREE] [2] :=
  ⟨⟨[[0, 1], [3, 4], []], ⟨by decide, by decide, by decide, trivial⟩, by decide⟩,
   by intro s hs; simp at hs; subst hs; exact ⟨FATSECT, by decide, by decide⟩⟩
example : trun 8 ([1, EOC, FATSECT, 4, EOC, FREE, FREE, FREE], [0, 3, EOC]) [.add 20, .del 1, .add 9] =
    .ok ([1, EOC, FATSECT, 4, EOC, 6, 7, EOC], [0, 5, 3, EOC]) := by decide

/-! ### the state-level statement (NOT proved; evaluated on every dumped state by the python predicate) -/

/-- heads of the live FAT chains of a writer state -/
def satHeads (st : St) : List Int :=
  (if 0 ≤ st.a.rootStart then [st.a.rootStart] else []) ++ [st.dirStart, st.ssatStart] ++
  st.files.filterMap (fun sl => if sl.typ = 2 ∧ st.cutoff ≤ sl.size then some sl.start else none)

def miniHeads (st : St) : List Int :=
  st.files.filterMap (fun sl => if sl.typ = 2 ∧ sl.size < st.cutoff then some sl.start else none)

def ChainsDisjoint (st : St) : Prop :=
  LiveDisjoint st.a.sat (satHeads st) ∧ LiveDisjoint st.a.ssat (miniHeads st) ∧
  Marked st.a.sat ((st.msat ++ st.msatList).filterMap (fun s => if 0 ≤ s then some s.toNat else none))

def add_preserves_disjoint_full : Prop :=
  ∀ (st st' : St) (key nunits len : Nat), 4 ≤ st.a.ss → len < 4294967296 → ChainsDisjoint st →
    addFile st key nunits len = .ok st' → ChainsDisjoint st'

end Relic.Props.C18

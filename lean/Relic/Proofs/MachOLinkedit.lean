/- the fields `PatchSignature` writes into the header buffer, read back; the arithmetic of re-signing histories -/
import Relic.Proofs.MachOPatch
import Relic.Proofs.Codec
namespace Relic.MachO
open Relic Relic.Binpatch

/-! ### `put` and field reads -/

def fieldAt (h : Bytes) (off n : Nat) : Bytes := (h.drop off).take n

theorem put_length (h : Bytes) (off : Nat) (b : Bytes) (hb : off + b.length ≤ h.length) : (put h off b).length = h.length := by
  unfold put; rw [splice_length]; omega

theorem put_getElem? (h : Bytes) (off : Nat) (b : Bytes) (hb : off + b.length ≤ h.length) (i : Nat) :
    (put h off b)[i]? = if off ≤ i ∧ i < off + b.length then b[i - off]? else h[i]? := by
  unfold put
  rw [getElem?_splice _ _ _ _ (by omega)]
  by_cases c1 : i < off
  · have : ¬ (off ≤ i ∧ i < off + b.length) := by omega
    simp [c1, this]
  · by_cases c2 : i < off + b.length
    · have : off ≤ i ∧ i < off + b.length := by omega
      simp [c1, c2, this]
    · have : ¬ (off ≤ i ∧ i < off + b.length) := by omega
      have e : i - b.length + b.length = i := by omega
      simp only [c1, c2, ↓reduceIte, e, and_false]

theorem fieldAt_getElem? (h : Bytes) (off n i : Nat) : (fieldAt h off n)[i]? = if i < n then h[off + i]? else none := by
  unfold fieldAt
  by_cases c : i < n
  · simp [c, List.getElem?_take_of_lt c, List.getElem?_drop]
  · simp only [c, ↓reduceIte]
    exact List.getElem?_eq_none_iff.mpr (by simp only [List.length_take]; omega)

/-- reading inside the block just written -/
theorem fieldAt_put_inside (h : Bytes) (off : Nat) (b : Bytes) (hb : off + b.length ≤ h.length) (k n : Nat) (hk : k + n ≤ b.length) :
    fieldAt (put h off b) (off + k) n = (b.drop k).take n := by
  apply List.ext_getElem?
  intro i
  rw [fieldAt_getElem?]
  by_cases c : i < n
  · simp only [c, ↓reduceIte]
    rw [put_getElem? h off b hb, List.getElem?_take_of_lt c, List.getElem?_drop]
    have : off ≤ off + k + i ∧ off + k + i < off + b.length := by omega
    simp only [this, and_self, ↓reduceIte]
    congr 1; omega
  · simp only [c, ↓reduceIte]
    exact (List.getElem?_eq_none_iff.mpr (by simp only [List.length_take]; omega)).symm

theorem fieldAt_put_same (h : Bytes) (off : Nat) (b : Bytes) (hb : off + b.length ≤ h.length) :
    fieldAt (put h off b) off b.length = b := by
  have := fieldAt_put_inside h off b hb 0 b.length (by omega)
  simpa using this

/-- reading outside the block just written -/
theorem fieldAt_put_other (h : Bytes) (off : Nat) (b : Bytes) (hb : off + b.length ≤ h.length) (off' n : Nat)
    (hd : off' + n ≤ off ∨ off + b.length ≤ off') : fieldAt (put h off b) off' n = fieldAt h off' n := by
  apply List.ext_getElem?
  intro i
  rw [fieldAt_getElem?, fieldAt_getElem?]
  by_cases c : i < n
  · simp only [c, ↓reduceIte]
    rw [put_getElem? h off b hb]
    have : ¬ (off ≤ off' + i ∧ off' + i < off + b.length) := by omega
    simp only [this, ↓reduceIte]
  · simp only [c, ↓reduceIte]

theorem wr32_length (be : Bool) (v : Nat) : (wr32 be v).length = 4 := by cases be <;> simp [wr32]
theorem wr64_length (be : Bool) (v : Nat) : (wr64 be v).length = 8 := by cases be <;> simp [wr64]

theorem rd32_eq (be : Bool) (h : Bytes) (off : Nat) : rd32 be h off = if be then beVal (fieldAt h off 4) else leVal (fieldAt h off 4) := rfl
theorem rd64_eq (be : Bool) (h : Bytes) (off : Nat) : rd64 be h off = if be then beVal (fieldAt h off 8) else leVal (fieldAt h off 8) := rfl

theorem rd32_of_field (be : Bool) (h : Bytes) (off v : Nat) (hf : fieldAt h off 4 = wr32 be v) : rd32 be h off = v % 2 ^ 32 := by
  rw [rd32_eq, hf]
  cases be
  · simp only [wr32, Bool.false_eq_true, ↓reduceIte]; rw [leVal_leBytes]
  · simp only [wr32, ↓reduceIte]; rw [beVal_beBytes]

theorem rd64_of_field (be : Bool) (h : Bytes) (off v : Nat) (hf : fieldAt h off 8 = wr64 be v) : rd64 be h off = v % 2 ^ 64 := by
  rw [rd64_eq, hf]
  cases be
  · simp only [wr64, Bool.false_eq_true, ↓reduceIte]; rw [leVal_leBytes]
  · simp only [wr64, ↓reduceIte]; rw [beVal_beBytes]

/-! ### the arithmetic of a re-signing history -/

/-- the quantities `scanFile` reads and `PatchSignature` rewrites -/
structure LState where
  leOffset : Nat      -- __LINKEDIT.Offset (never rewritten)
  leFilesz : Nat      -- __LINKEDIT.Filesz
  sigStart : Nat      -- LC_CODE_SIGNATURE.dataoff (0 = no such command)
  sigLen : Nat        -- LC_CODE_SIGNATURE.datasize
  fileLen : Nat
  deriving Repr, DecidableEq

/-- `codeSize` as `scanFile` sets it -/
def LState.codeSize (s : LState) : Nat := if s.sigLen ≠ 0 then s.sigStart else s.leOffset + s.leFilesz

/-- one signing round with size estimate `est`: in place when the slot is big enough, else a new slot of
    `align(est, 8)` bytes at the old position (or at the aligned end of __LINKEDIT), `__LINKEDIT.Filesz` recomputed
    ABSOLUTELY from the end of the slot, the old slot replaced -/
def LState.resign (est : Nat) (s : LState) : LState :=
  if s.sigLen ≥ est then s else
  let sigSize := align est 8
  let start := if s.sigStart = 0 then align s.codeSize 8 else s.sigStart
  { s with leFilesz := start + sigSize - s.leOffset, sigStart := start, sigLen := sigSize,
           fileLen := s.fileLen - s.sigLen + (start - s.codeSize) + sigSize }

/-- the well-formedness the next `scanFile` (and dyld) insists on: the signature slot, __LINKEDIT and the file end
    together; the slot is 8-aligned inside __LINKEDIT -/
structure LState.Coterminous (s : LState) : Prop where
  signed : s.sigLen ≠ 0
  start : s.sigStart ≠ 0
  inside : s.leOffset ≤ s.sigStart
  sigEnd : s.sigStart + s.sigLen = s.leOffset + s.leFilesz
  eof : s.leOffset + s.leFilesz = s.fileLen

/-- an unsigned image whose __LINKEDIT ends at the end of the file -/
structure LState.Unsigned (s : LState) : Prop where
  nosig : s.sigLen = 0 ∧ s.sigStart = 0
  pos : 0 < s.leOffset                          -- __LINKEDIT lies behind the Mach-O header
  eof : s.leOffset + s.leFilesz = s.fileLen

theorem align_ge (a : Nat) : a ≤ align a 8 := by
  unfold align; split <;> omega

theorem align_pos (a : Nat) (h : 0 < a) : 0 < align a 8 := Nat.lt_of_lt_of_le h (align_ge a)

theorem align_mod (a : Nat) : align a 8 % 8 = 0 := by
  unfold align; split <;> omega

theorem resign_unsigned (est : Nat) (hest : 0 < est) (s : LState) (h : s.Unsigned) : (s.resign est).Coterminous := by
  obtain ⟨lo, lf, ss, sl, fl⟩ := s
  obtain ⟨⟨h1, h2⟩, h0, h3⟩ := h
  simp only at h1 h2 h3 h0
  subst h1 h2
  have hge := align_ge (lo + lf)
  have hpos := align_pos est hest
  have hlt : ¬ 0 ≥ est := by omega
  constructor <;> simp only [LState.resign, LState.codeSize, hlt, ↓reduceIte, ne_eq, not_true_eq_false] <;> omega

theorem resign_coterminous (est : Nat) (s : LState) (h : s.Coterminous) : (s.resign est).Coterminous := by
  obtain ⟨lo, lf, ss, sl, fl⟩ := s
  obtain ⟨h1, h2, h3, h4, h5⟩ := h
  simp only at h1 h2 h3 h4 h5
  by_cases hlt : sl ≥ est
  · constructor <;> simp only [LState.resign, hlt, ↓reduceIte] <;> assumption
  · have hge := align_ge est
    constructor <;> simp only [LState.resign, LState.codeSize, hlt, ↓reduceIte, h2, h1, ne_eq, not_false_eq_true] <;> omega

/-- the slot only grows along a history, and never moves once placed -/
theorem resign_slot (est : Nat) (s : LState) (h : s.Coterminous) :
    (s.resign est).sigStart = s.sigStart ∧ s.sigLen ≤ (s.resign est).sigLen ∧ est ≤ (s.resign est).sigLen ∧
    (s.resign est).codeSize = s.codeSize := by
  obtain ⟨lo, lf, ss, sl, fl⟩ := s
  obtain ⟨h1, h2, h3, h4, h5⟩ := h
  simp only at h1 h2 h3 h4 h5
  by_cases hlt : sl ≥ est
  · refine ⟨?_, ?_, ?_, ?_⟩ <;> simp only [LState.resign, hlt, ↓reduceIte] <;> first | rfl | omega
  · have hge := align_ge est
    have hne : ¬ align est 8 = 0 := by omega
    refine ⟨?_, ?_, ?_, ?_⟩ <;>
      simp only [LState.resign, LState.codeSize, hlt, ↓reduceIte, h2, hne, h1, ne_eq, not_false_eq_true] <;>
      first | rfl | omega

/-- a whole history of re-signings -/
def LState.history (s : LState) : List Nat → LState
  | [] => s
  | est :: rest => (s.resign est).history rest

theorem history_coterminous (ests : List Nat) : ∀ (s : LState), s.Coterminous → (s.history ests).Coterminous := by
  induction ests with
  | nil => intro s h; exact h
  | cons e es ih => intro s h; exact ih _ (resign_coterminous e s h)

/-- the check of `scanFile` on the file a round wrote: "old signature is not coterminous with __LINKEDIT segment" -/
def LState.scanRefuses (s : LState) : Bool :=
  s.sigLen ≠ 0 ∧ (s.sigStart + s.sigLen > s.leOffset + s.leFilesz ∨ s.sigStart + s.sigLen + 16 < s.leOffset + s.leFilesz)

theorem coterminous_not_refused (s : LState) (h : s.Coterminous) : s.scanRefuses = false := by
  obtain ⟨h1, h2, h3, h4, h5⟩ := h
  simp [LState.scanRefuses]
  omega

/-- the markers of a state -/
def LState.ofMarkers (m : Markers) (fileLen : Nat) : LState := ⟨m.leOffset, m.leFilesz, m.sigStart, m.sigLen, fileLen⟩

end Relic.MachO

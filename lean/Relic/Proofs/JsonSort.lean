/- encoding/json map emission: key order, insertion sort, independence from the iteration order of Go maps -/
import Relic.Model.Json
namespace Relic.Json
open Relic

/-! ### `keyLt` is a strict total order -/

theorem keyLt_irrefl (a : Key) : keyLt a a = false := by
  induction a with
  | nil => rfl
  | cons x xs ih => simp [keyLt, ih]

theorem keyLt_asymm : ∀ (a b : Key), keyLt a b = true → keyLt b a = false
  | [], [], h => by simp [keyLt] at h
  | [], _ :: _, _ => by simp [keyLt]
  | _ :: _, [], h => by simp [keyLt] at h
  | x :: xs, y :: ys, h => by
    simp only [keyLt] at h ⊢
    by_cases h1 : x < y
    · have : ¬ y < x := by omega
      simp [this, h1]
    · by_cases h2 : y < x
      · simp [h1, h2] at h
      · simp only [h1, h2, if_false] at h ⊢
        exact keyLt_asymm xs ys h

theorem keyLt_trans : ∀ (a b c : Key), keyLt a b = true → keyLt b c = true → keyLt a c = true
  | [], [], _, h, _ => by simp [keyLt] at h
  | [], _ :: _, [], _, h => by simp [keyLt] at h
  | [], _ :: _, _ :: _, _, _ => by simp [keyLt]
  | _ :: _, [], _, h, _ => by simp [keyLt] at h
  | _ :: _, _ :: _, [], _, h => by simp [keyLt] at h
  | x :: xs, y :: ys, z :: zs, h1, h2 => by
    simp only [keyLt] at h1 h2 ⊢
    by_cases a1 : x < y
    · by_cases b1 : y < z
      · have : x < z := by omega
        simp [this]
      · by_cases b2 : z < y
        · simp [b1, b2] at h2
        · have : x < z := by omega
          simp [this]
    · by_cases a2 : y < x
      · simp [a1, a2] at h1
      · simp only [a1, a2, if_false] at h1
        have hxy : x = y := by omega
        subst hxy
        by_cases b1 : x < z
        · simp [b1]
        · by_cases b2 : z < x
          · simp [b1, b2] at h2
          · simp only [b1, b2, if_false] at h2 ⊢
            exact keyLt_trans xs ys zs h1 h2

theorem keyLt_total : ∀ (a b : Key), keyLt a b = false → a ≠ b → keyLt b a = true
  | [], [], _, h => absurd rfl h
  | [], _ :: _, h, _ => by simp [keyLt] at h
  | _ :: _, [], _, _ => by simp [keyLt]
  | x :: xs, y :: ys, h, hne => by
    simp only [keyLt] at h ⊢
    by_cases h1 : x < y
    · simp [h1] at h
    · by_cases h2 : y < x
      · simp [h2]
      · simp only [h1, h2, if_false] at h ⊢
        have hxy : x = y := by omega
        subst hxy
        exact keyLt_total xs ys h (fun e => hne (by rw [e]))

/-! ### insertion sort -/

def keysOf (l : List Member) : List Key := l.map (·.1)

def SortedM (l : List Member) : Prop := l.Pairwise (fun a b => keyLt a.1 b.1 = true)

theorem insertMember_perm (x : Member) (l : List Member) : (insertMember x l).Perm (x :: l) := by
  induction l with
  | nil => simp [insertMember]
  | cons y ys ih =>
    simp only [insertMember]
    split
    · exact ((List.Perm.cons y ih).trans (List.Perm.swap x y ys))
    · exact List.Perm.refl _

theorem sortMembers_perm (l : List Member) : (sortMembers l).Perm l := by
  induction l with
  | nil => simp [sortMembers]
  | cons x xs ih =>
    have : sortMembers (x :: xs) = insertMember x (sortMembers xs) := rfl
    rw [this]
    exact (insertMember_perm x _).trans (List.Perm.cons x ih)

theorem insertMember_sorted (x : Member) (l : List Member) (hs : SortedM l) (hne : ∀ y ∈ l, y.1 ≠ x.1) :
    SortedM (insertMember x l) := by
  induction l with
  | nil => simp [insertMember, SortedM]
  | cons y ys ih =>
    have hy := List.pairwise_cons.mp hs
    simp only [insertMember]
    split
    · rename_i hlt
      refine List.pairwise_cons.mpr ⟨?_, ih hy.2 (fun z hz => hne z (by simp [hz]))⟩
      intro z hz
      have := (insertMember_perm x ys).subset hz
      rcases List.mem_cons.mp this with rfl | hz'
      · exact hlt
      · exact hy.1 z hz'
    · rename_i hlt
      have hxy : keyLt x.1 y.1 = true := keyLt_total y.1 x.1 (by simpa using hlt) (hne y (by simp))
      refine List.pairwise_cons.mpr ⟨?_, hs⟩
      intro z hz
      rcases List.mem_cons.mp hz with rfl | hz'
      · exact hxy
      · exact keyLt_trans _ _ _ hxy (hy.1 z hz')

theorem sortMembers_sorted (l : List Member) (hn : (keysOf l).Nodup) : SortedM (sortMembers l) := by
  induction l with
  | nil => simp [sortMembers, SortedM]
  | cons x xs ih =>
    have : sortMembers (x :: xs) = insertMember x (sortMembers xs) := rfl
    rw [this]
    simp only [keysOf, List.map_cons, List.nodup_cons] at hn
    refine insertMember_sorted x _ (ih hn.2) ?_
    intro y hy e
    have hy' : y ∈ xs := (sortMembers_perm xs).subset hy
    exact hn.1 (by rw [← e]; exact List.mem_map_of_mem hy')

/-- two key-sorted permutations of one list are the same list -/
theorem sorted_unique (s t : List Member) (hs : SortedM s) (ht : SortedM t) (hp : s.Perm t) : s = t := by
  refine List.Perm.eq_of_pairwise (le := fun (a b : Member) => keyLt a.1 b.1 = true) ?_ hs ht hp
  intro a b _ _ hab hba
  rw [keyLt_asymm _ _ hab] at hba
  cases hba

/-- the emission order of a Go map does not depend on the order in which the map is iterated -/
theorem sortMembers_perm_eq (l l' : List Member) (hp : l.Perm l') (hn : (keysOf l).Nodup) :
    sortMembers l = sortMembers l' := by
  have hn' : (keysOf l').Nodup := (List.Perm.nodup_iff (hp.map (fun (p : Member) => p.1))).mp hn
  exact sorted_unique _ _ (sortMembers_sorted l hn) (sortMembers_sorted l' hn')
    ((sortMembers_perm l).trans (hp.trans (sortMembers_perm l').symm))

end Relic.Json

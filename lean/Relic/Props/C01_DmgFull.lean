/-
  C01 — Every signature relic produces verifies.   Apple disk image, the end-to-end statement through the superblob:
  `dmg_sign_then_verify_full` (Props/C01_Dmg.lean) proved.  The composition is
    container layer   C01.dmg_sign_then_verify           (`verify (written …) = verifyBlob blob rep stream`)
    superblob         CodeDir.parseSuper_marshal          (`parseSuper ∘ marshalSuperBlob`: every item found where it was written)
    code directory    CodeDir.parse_newCodeDirectory      (`parseCodeDirectory ∘ newCodeDirectory`: slots, page size, code limit)
    signature         CodeDir.parseSignature_own          (one directory of type 0, the hashed items byte for byte, a CMS item)
    verifier          Dmg.verifyBlob_own                  (every special-slot comparison and the single page comparison hold)
-/
import Relic.Props.C01_Dmg
import Relic.Proofs.DmgFull
namespace Relic.Props.C01
open Relic Relic.Dmg Relic.CodeDir

/-- **dmg_sign_then_verify_end_to_end** = `dmg_sign_then_verify_full`.  For every hash function `H` with values of the size the
    code directory advertises, every trailer/image pair `dmg.Sign` accepts, every signing parameter set and every CMS blob of
    more than 8 bytes, as long as the embedded signature stays below the verifier's 10 MB limit: `dmg.Open` + `Verify` on the
    written image yields a plan whose final verdict is `ok` and in which every comparison `H(stream) = expected slot`
    holds — the rep-specific slot −6 over the re-serialised trailer, the requirement / entitlement slots over the items
    found in the blob, and the single code slot over `image[0 : XMLOffset+XMLLength]`. -/
theorem dmg_sign_then_verify_end_to_end : dmg_sign_then_verify_full := by
  intro H t f p so cms hH hcms hsign blob hmax
  obtain ⟨p', hplan, hsb, hfit, hhash, hrep⟩ := Dmg.sign_inv t f p so hsign
  have hH' : ∀ x, (H x).length = hashSizeOf p'.hash := by rw [hhash]; exact hH
  have hblob : blob = render H (hashSizeOf p'.hash) (superblob (hashSizeOf p'.hash) so.signed cms) := by rw [hhash]
  have h32 : blob.length < 2 ^ 32 := by have : maxSig = 10000000 := rfl; omega
  -- the blob is not empty: it starts with a 12-byte header
  have hne : blob ≠ [] := by
    intro h0
    have := render_marshal H (hashSizeOf p.hash) 0xfade0cc0
      ([⟨0xfade0c02, 0, so.signed.cd⟩] ++ so.signed.hashed ++ [newSuperItem 0xfade0b01 cms])
    have hl := congrArg List.length this
    simp only [List.length_append, beBytes4_length] at hl
    have : blob.length = 0 := by rw [h0]; rfl
    have hb : blob = render H (hashSizeOf p.hash) (marshalSuperBlob (hashSizeOf p.hash) 0xfade0cc0
      ([⟨0xfade0c02, 0, so.signed.cd⟩] ++ so.signed.hashed ++ [newSuperItem 0xfade0b01 cms])) := rfl
    rw [hb] at this
    omega
  obtain ⟨_, hv, hlen⟩ := dmg_sign_then_verify t f so.plan blob false hplan hfit hne hmax
  have hlim : so.plan.stream.length < 2 ^ 63 := by
    obtain ⟨ho, _, _⟩ := plan_orig t f so.plan hplan
    have hb := plan_bundle_koly t f so.plan ho
    have hr := toI64_range (so.plan.koly.xmlOffset + so.plan.koly.xmlLength)
    have : so.plan.koly.bundle < 2 ^ 63 := hr.2
    omega
  rw [hblob] at h32
  obtain ⟨vp, hvb, hfin, hchk⟩ := verifyBlob_own H p' so.plan.stream so.signed cms so.plan.rep hH' hcms hsb hrep hlim h32
  refine ⟨vp, ?_, hfin, hchk⟩
  rw [hv, hblob]
  exact hvb

/-! ### non-vacuity: the sample image signed with SHA-256 parameters, a 9-byte CMS blob and a stand-in hash function -/

def sampleParams : SignParams :=
  { hash := 5, flags := 0, ident := [97], team := [], execBase := 0, execLimit := 0, execFlags := 0, requirements := none,
    entitlement := some [1, 2, 3], entitlementDER := none, infoPlist := none, resources := none, repSpecific := none }

set_option maxRecDepth 100000 in
example : (Dmg.sign (sampleKoly 3 5 0 0).enc sampleImage sampleParams).isOk = true := by decide

/-- the stand-in `H x = 32 copies of (length of x mod 256)` has the advertised size -/
example : ∀ x : Bytes, ((fun s : Bytes => List.replicate 32 (UInt8.ofNat s.length)) x).length = hashSizeOf sampleParams.hash := by
  intro x; simp [sampleParams, hashSizeOf]

def sampleH : Bytes → Bytes := fun s => List.replicate 32 (UInt8.ofNat s.length)

set_option maxRecDepth 100000 in
/-- the theorem applied: the sample image signed, written and verified, every comparison holding -/
example : ∃ so vp, Dmg.sign (sampleKoly 3 5 0 0).enc sampleImage sampleParams = .ok so ∧
    verify (written sampleImage so.plan (render sampleH 32 (superblob 32 so.signed (List.replicate 9 7)))) false = .ok vp ∧
    vp.final = .ok () ∧ ∀ c ∈ vp.checks, sampleH c.stream = c.expected := by
  have hb : (match Dmg.sign (sampleKoly 3 5 0 0).enc sampleImage sampleParams with
      | .ok so => decide ((render sampleH 32 (superblob 32 so.signed (List.replicate 9 7))).length ≤ maxSig)
      | _ => false) = true := by decide
  cases hs : Dmg.sign (sampleKoly 3 5 0 0).enc sampleImage sampleParams with
  | ok so =>
    rw [hs] at hb
    simp only [decide_eq_true_eq] at hb
    obtain ⟨vp, a, b, c⟩ := dmg_sign_then_verify_end_to_end sampleH _ _ sampleParams so (List.replicate 9 7)
      (by intro x; simp [sampleH, sampleParams, hashSizeOf]) (by decide) hs hb
    exact ⟨so, vp, rfl, a, b, c⟩
  | err x => rw [hs] at hb; cases hb
  | panic x => rw [hs] at hb; cases hb
  | diverge => rw [hs] at hb; cases hb

end Relic.Props.C01

// Package chttp drives relic's compression layer (lib/compresshttp: Middleware, DecompressRequest,
// DecompressResponse, CompressRequest) and the client loop (cmdline/remotecmd doRequest, hook VerifDoRequest)
// for the model Relic.Model.CompressHttp.  First op token: CHTTP.  Properties served: C09 (pseudo-property
// C09CH), C11 (C11CH), C14 (C14CH).
//
// Bodies are not shipped in the ops: an op names segment lengths and a seed, the bytes come from pat().
// Results are printed relative to what was sent ("c:full", "c:seg2", "c:wire", "failed", ...), which is what the
// model prints from its stand-in bytes.
package chttp

import (
	"bufio"
	"bytes"
	"compress/gzip"
	"errors"
	"fmt"
	"io"
	"log"
	"net"
	"net/http"
	"net/http/httptest"
	"os"
	"path/filepath"
	"strconv"
	"strings"
	"sync"
	"syscall"
	"time"

	"crypto"

	"github.com/sassoftware/relic/v8/cmdline/remotecmd"
	"github.com/sassoftware/relic/v8/lib/audit"
	"github.com/sassoftware/relic/v8/lib/compresshttp"
	"github.com/sassoftware/relic/v8/signers"

	"verifharness/hx"
	"verifharness/sg"
)

// ---------------------------------------------------------------------------------------------
// bytes, header values

// pat: n deterministic bytes; the first one is 'A' so that a plain body is neither a gzip member (1f 8b) nor a
// snappy stream identifier (ff 06 ...) nor a skippable snappy chunk
func pat(seed uint64, idx int, n int) []byte {
	b := make([]byte, n)
	x := seed*0x9e3779b97f4a7c15 + uint64(idx)*0xbf58476d1ce4e5b9 + 1
	for i := 0; i < n; i++ {
		x ^= x << 13
		x ^= x >> 7
		x ^= x << 17
		b[i] = byte(x >> 24)
	}
	if n > 0 {
		b[0] = 'A'
	}
	return b
}

// "-" = header absent; values hex, "." = empty value
func parseVals(s string) ([]string, bool) {
	if s == "-" {
		return nil, true
	}
	var out []string
	for _, v := range strings.Split(s, ",") {
		if v == "." {
			out = append(out, "")
			continue
		}
		b, err := hx.UnHex(v)
		if err != nil {
			return nil, false
		}
		out = append(out, string(b))
	}
	return out, true
}

func showStr(s string) string {
	if s == "" {
		return "-"
	}
	return hx.Hex([]byte(s))
}

func parseNats(s string) ([]int, bool) {
	if s == "-" {
		return nil, true
	}
	var out []int
	for _, v := range strings.Split(s, ",") {
		n, err := strconv.Atoi(v)
		if err != nil || n < 0 {
			return nil, false
		}
		out = append(out, n)
	}
	return out, true
}

// ---------------------------------------------------------------------------------------------
// wire construction (the generator's side of the exchange: library encoders, segment by segment)

const (
	encGzip   = compresshttp.EncodingGzip
	encSnappy = compresshttp.EncodingSnappy
)

func hdrLen(wc string) int {
	if wc == "id" {
		return 0
	}
	return 10
}

// snappyFrames: one x-snappy-framed stream holding one chunk per non-empty segment.  Produced by relic's own
// compress() (CompressResponse) per segment; the 10-byte stream identifier of every stream but the first is dropped.
func snappyStream(seg []byte) []byte {
	rec := httptest.NewRecorder()
	if err := compresshttp.CompressResponse(bytes.NewReader(seg), encSnappy, rec, 200); err != nil {
		panic(err)
	}
	return rec.Body.Bytes()
}

// encode returns the wire bytes and, for every j, how many bytes had been emitted after the j-th flush
func encode(wc string, segs [][]byte) (wire []byte, offs []int) {
	offs = []int{0}
	switch wc {
	case "id":
		for _, s := range segs {
			wire = append(wire, s...)
			offs = append(offs, len(wire))
		}
	case "gz":
		var buf bytes.Buffer
		zw, _ := gzip.NewWriterLevel(&buf, gzip.BestSpeed)
		for _, s := range segs {
			zw.Write(s)
			zw.Flush()
			offs = append(offs, buf.Len())
		}
		zw.Close()
		wire = buf.Bytes()
	case "sn":
		for _, s := range segs {
			if len(s) > 0 {
				z := snappyStream(s)
				if len(wire) > 0 {
					z = z[10:]
				}
				wire = append(wire, z...)
			}
			offs = append(offs, len(wire))
		}
	}
	return
}

var junk = []byte{0x55, 0x55, 0x55, 0x55}

func applyCut(wc string, wire []byte, offs []int, cut string) ([]byte, bool) {
	switch {
	case cut == "full":
		return wire, true
	case cut == "empty":
		return nil, true
	case cut == "hdr1":
		if len(wire) < 1 {
			return nil, true
		}
		return wire[:1], true
	case cut == "last1":
		if len(wire) < 1 {
			return nil, true
		}
		return wire[:len(wire)-1], true
	case cut == "notrailer":
		if len(wire) < 8 {
			return nil, false
		}
		return wire[:len(wire)-8], true
	case cut == "junk":
		return append(append([]byte{}, wire...), junk...), true
	case strings.HasPrefix(cut, "seg"):
		j, err := strconv.Atoi(cut[3:])
		if err != nil || j < 0 || j >= len(offs) {
			return nil, false
		}
		return wire[:offs[j]], true
	case strings.HasPrefix(cut, "mid"):
		j, err := strconv.Atoi(cut[3:])
		if err != nil || j < 1 || j >= len(offs) {
			return nil, false
		}
		hi := offs[j]
		lo := offs[j-1]
		if h := hdrLen(wc); lo < h {
			lo = h
		}
		if hi < lo {
			return nil, false
		}
		return wire[:lo+(hi-lo)/2], true
	}
	return nil, false
}

func segments(seed uint64, lens []int) ([][]byte, []byte) {
	var segs [][]byte
	var plain []byte
	for i, n := range lens {
		s := pat(seed, i, n)
		segs = append(segs, s)
		plain = append(plain, s...)
	}
	return segs, plain
}

// descRead: how the bytes a reader got compare with what was sent
func descRead(got []byte, segs [][]byte, plain, wire []byte) string {
	if bytes.Equal(got, plain) {
		return "c:full"
	}
	n := 0
	for j := 0; j < len(segs); j++ {
		if len(got) == n && bytes.Equal(got, plain[:n]) {
			return fmt.Sprintf("c:seg%d", j)
		}
		n += len(segs[j])
	}
	if bytes.Equal(got, wire) {
		return "c:wire"
	}
	return "c:other"
}

// ---------------------------------------------------------------------------------------------
// the server under test: real Middleware around a scripted, recording handler

type record struct {
	ran     bool
	readErr bool
	body    []byte
	rcl     int64
	wrote   []byte
}

type station struct {
	mu   sync.Mutex
	recs map[string]*record
	srv  *httptest.Server
}

var (
	stOnce sync.Once
	st     *station
)

func quiet() {
	// relic's middleware and doRequest report through the log package and fmt.Printf
	log.SetOutput(io.Discard)
	if dn, err := os.OpenFile(os.DevNull, os.O_WRONLY, 0); err == nil {
		os.Stdout = dn
	}
}

// runHops performs a handler script on w: H<status>, W<n> (n bytes of pat), E (echo the body read), F (Flush)
func runHops(w http.ResponseWriter, hops string, seed uint64, body []byte, rec *record) {
	if hops == "-" || hops == "" {
		return
	}
	for i, h := range strings.Split(hops, ",") {
		switch {
		case h == "F":
			if fl, ok := w.(http.Flusher); ok {
				fl.Flush()
			}
		case h == "E":
			rec.wrote = append(rec.wrote, body...)
			w.Write(body)
		case strings.HasPrefix(h, "H"):
			c, _ := strconv.Atoi(h[1:])
			w.WriteHeader(c)
		case strings.HasPrefix(h, "W"):
			n, _ := strconv.Atoi(h[1:])
			d := pat(seed^0x77, 1000+i, n)
			rec.wrote = append(rec.wrote, d...)
			w.Write(d)
		}
	}
}

var failText = []byte("readerr")

func (s *station) inner() http.Handler {
	return http.HandlerFunc(func(w http.ResponseWriter, r *http.Request) {
		id := r.Header.Get("X-Verif-Id")
		hops := r.Header.Get("X-Verif-Hops")
		seed, _ := strconv.ParseUint(r.Header.Get("X-Verif-Seed"), 10, 64)
		rec := &record{ran: true, rcl: r.ContentLength}
		b, err := io.ReadAll(r.Body)
		rec.body = b
		if err != nil {
			rec.readErr = true
			rec.wrote = append([]byte{}, failText...)
			s.put(id, rec)
			w.WriteHeader(422)
			w.Write(failText)
			return
		}
		s.put(id, rec)
		runHops(w, hops, seed, b, rec)
	})
}

func (s *station) put(id string, r *record) {
	s.mu.Lock()
	s.recs[id] = r
	s.mu.Unlock()
}

func (s *station) take(id string) *record {
	s.mu.Lock()
	defer s.mu.Unlock()
	r := s.recs[id]
	delete(s.recs, id)
	return r
}

// outer layer: sets a Content-Length before the middleware is entered when asked to (X-Verif-Pre)
func outer(next http.Handler) http.Handler {
	return http.HandlerFunc(func(w http.ResponseWriter, r *http.Request) {
		if p := r.Header.Get("X-Verif-Pre"); p != "" {
			w.Header().Set("Content-Length", p)
		}
		next.ServeHTTP(w, r)
	})
}

func getStation() *station {
	stOnce.Do(func() {
		quiet()
		s := &station{recs: map[string]*record{}}
		s.srv = httptest.NewUnstartedServer(outer(compresshttp.Middleware(s.inner())))
		s.srv.Config.ErrorLog = log.New(io.Discard, "", 0)
		s.srv.Start()
		hx.OnExit(func() { s.srv.Close() })
		st = s
	})
	return st
}

var idCounter struct {
	sync.Mutex
	n int
}

func nextID() string {
	idCounter.Lock()
	defer idCounter.Unlock()
	idCounter.n++
	return strconv.Itoa(idCounter.n)
}

// header-name spellings: net/http canonicalises them
func spell(name string, k uint64) string {
	switch k % 3 {
	case 0:
		return name
	case 1:
		return strings.ToLower(name)
	}
	return strings.ToUpper(name)
}

type exchangeSpec struct {
	ce, ae []string
	ceSet  bool
	aeSet  bool
	wc     string
	lens   []int
	cut    string
	xfer   string
	pre    string
	hops   string
	seed   uint64
}

// staticLen: number of bytes a script without E writes
func staticLen(hops string) (int, bool) {
	n := 0
	if hops == "-" {
		return 0, true
	}
	for _, h := range strings.Split(hops, ",") {
		if h == "E" {
			return 0, false
		}
		if strings.HasPrefix(h, "W") {
			k, _ := strconv.Atoi(h[1:])
			n += k
		}
	}
	return n, true
}

// exchange sends one hand-made request over a raw connection and reports what came back
func exchange(sp exchangeSpec) string {
	s := getStation()
	segs, plain := segments(sp.seed, sp.lens)
	wire0, offs := encode(sp.wc, segs)
	wire, ok := applyCut(sp.wc, wire0, offs, sp.cut)
	if !ok {
		return "bad-op"
	}
	id := nextID()
	rng := hx.NewRng(sp.seed ^ 0xc0ffee)
	var hb strings.Builder
	hb.WriteString("POST /sign HTTP/1.1\r\nHost: verif\r\nConnection: close\r\n")
	fmt.Fprintf(&hb, "X-Verif-Id: %s\r\nX-Verif-Hops: %s\r\nX-Verif-Seed: %d\r\n", id, sp.hops, sp.seed)
	if sp.pre == "cl" {
		n, ok := staticLen(sp.hops)
		if !ok {
			return "bad-op"
		}
		fmt.Fprintf(&hb, "X-Verif-Pre: %d\r\n", n)
	}
	for _, v := range sp.ce {
		fmt.Fprintf(&hb, "%s: %s\r\n", spell("Content-Encoding", rng.U64()), v)
	}
	for _, v := range sp.ae {
		fmt.Fprintf(&hb, "%s: %s\r\n", spell("Accept-Encoding", rng.U64()), v)
	}
	var body bytes.Buffer
	switch sp.xfer {
	case "cl":
		fmt.Fprintf(&hb, "Content-Length: %d\r\n", len(wire))
		body.Write(wire)
	case "clshort":
		fmt.Fprintf(&hb, "Content-Length: %d\r\n", len(wire)+10)
		body.Write(wire)
	case "chunked", "cutchunk":
		hb.WriteString("Transfer-Encoding: chunked\r\n")
		rest := wire
		for len(rest) > 0 {
			n := rng.Pick(1, 2, 7, 100, 4096, 32768, 65536, 100000)
			if n > len(rest) {
				n = len(rest)
			}
			fmt.Fprintf(&body, "%x\r\n", n)
			body.Write(rest[:n])
			body.WriteString("\r\n")
			rest = rest[n:]
		}
		if sp.xfer == "chunked" {
			body.WriteString("0\r\n\r\n")
		}
	default:
		return "bad-op"
	}
	hb.WriteString("\r\n")
	c, err := net.Dial("tcp", strings.TrimPrefix(s.srv.URL, "http://"))
	if err != nil {
		return "err dial"
	}
	defer c.Close()
	c.SetDeadline(time.Now().Add(30 * time.Second))
	go func() {
		// write in the background: a server that answers before it has read everything must not block us
		c.Write([]byte(hb.String()))
		c.Write(body.Bytes())
		if tc, ok := c.(*net.TCPConn); ok {
			tc.CloseWrite()
		}
	}()
	resp, err := http.ReadResponse(bufio.NewReader(c), nil)
	if err != nil {
		return "err noresponse"
	}
	raw, rerr := io.ReadAll(resp.Body)
	resp.Body.Close()
	rec := s.take(id)
	// Content-Length consistency
	cl := "ok"
	if rerr != nil {
		cl = "bad"
	} else if v := resp.Header.Get("Content-Length"); v != "" {
		if n, err := strconv.Atoi(v); err != nil || n != len(raw) {
			cl = "bad"
		}
	}
	ran, rcl := "-", "-"
	if rec != nil && rec.ran {
		rcl = strconv.FormatInt(rec.rcl, 10)
		if rec.readErr {
			ran = "failed"
		} else {
			ran = descRead(rec.body, segs, plain, wire)
		}
	}
	// what relic's client would make of the answer
	r2 := &http.Response{StatusCode: resp.StatusCode, Header: resp.Header.Clone(), Body: io.NopCloser(bytes.NewReader(raw))}
	dec := ""
	if err := compresshttp.DecompressResponse(r2); err != nil {
		dec = "error"
	} else if got, err := io.ReadAll(r2.Body); err != nil {
		dec = "failed"
	} else if rec == nil || !rec.ran {
		switch string(got) {
		case "invalid content-encoding\n":
			dec = "c:msg415"
		case "failed to decompress request\n":
			dec = "c:msg400"
		default:
			dec = "c:other"
		}
	} else if bytes.Equal(got, rec.wrote) {
		dec = "c:full"
	} else {
		dec = "c:other"
	}
	return fmt.Sprintf("st=%d ce=%s ae=%s cl=%s ran=%s rcl=%s dec=%s", resp.StatusCode, showStr(resp.Header.Get("Content-Encoding")),
		showStr(resp.Header.Get("Accept-Encoding")), cl, ran, rcl, dec)
}

func implSrv(f []string) string {
	if len(f) != 9 {
		return "bad-op"
	}
	ce, ok1 := parseVals(f[0])
	ae, ok2 := parseVals(f[1])
	lens, ok3 := parseNats(f[3])
	if !ok1 || !ok2 || !ok3 {
		return "bad-op"
	}
	r := exchange(exchangeSpec{ce: ce, ae: ae, wc: f[2], lens: lens, cut: f[4], xfer: f[5], pre: f[6], hops: f[7], seed: uint64(hx.Atoi(f[8]))})
	if strings.HasPrefix(r, "st=") {
		return "ok " + r
	}
	return r
}

// conc <n> <spec;spec;...> <seed>: all requests at once against the one server
func implConc(f []string) string {
	if len(f) != 3 {
		return "bad-op"
	}
	specs := strings.Split(f[1], ";")
	seed := uint64(hx.Atoi(f[2]))
	out := make([]string, len(specs))
	var wg sync.WaitGroup
	start := make(chan struct{})
	getStation()
	for i, sp := range specs {
		p := strings.Split(sp, "/")
		if len(p) != 6 {
			return "bad-op"
		}
		ce, ok1 := parseVals(p[0])
		ae, ok2 := parseVals(p[1])
		lens, ok3 := parseNats(p[3])
		if !ok1 || !ok2 || !ok3 {
			return "bad-op"
		}
		es := exchangeSpec{ce: ce, ae: ae, wc: p[2], lens: lens, cut: p[4], xfer: "chunked", pre: "-", hops: p[5], seed: seed + uint64(i)*7919}
		wg.Add(1)
		go func(i int, es exchangeSpec) {
			defer wg.Done()
			<-start
			out[i] = strings.ReplaceAll(exchange(es), " ", ",")
		}(i, es)
	}
	close(start)
	wg.Wait()
	return "ok " + strings.Join(out, "|")
}

// ---------------------------------------------------------------------------------------------
// law: the real decoders on hand-cut streams (no HTTP)

func implLaw(f []string) string {
	if len(f) != 4 {
		return "bad-op"
	}
	wc := f[0]
	lens, ok := parseNats(f[1])
	if !ok {
		return "bad-op"
	}
	segs, plain := segments(uint64(hx.Atoi(f[3])), lens)
	wire0, offs := encode(wc, segs)
	wire, ok := applyCut(wc, wire0, offs, f[2])
	if !ok {
		return "bad-op"
	}
	req, _ := http.NewRequest("POST", "http://verif/", bytes.NewReader(wire))
	switch wc {
	case "gz":
		req.Header.Set("Content-Encoding", encGzip)
	case "sn":
		req.Header.Set("Content-Encoding", encSnappy)
	case "id":
	default:
		return "bad-op"
	}
	if err := compresshttp.DecompressRequest(req); err != nil {
		return "ok openerr"
	}
	got, err := io.ReadAll(req.Body)
	if err != nil {
		return "ok failed"
	}
	return "ok " + descRead(got, segs, plain, wire)
}

// neg <hex>: the same string as Accept-Encoding for CompressRequest and as Content-Encoding for DecompressRequest
func implNeg(f []string) string {
	if len(f) != 1 {
		return "bad-op"
	}
	vs, ok := parseVals(f[0])
	if !ok || len(vs) != 1 {
		return "bad-op"
	}
	v := vs[0]
	probe := pat(7, 0, 100)
	req, _ := http.NewRequest("POST", "http://verif/", bytes.NewReader(probe))
	if err := compresshttp.CompressRequest(req, v); err != nil {
		return "err compress"
	}
	sel := req.Header.Get("Content-Encoding")
	if req.Body != nil {
		io.Copy(io.Discard, req.Body)
		req.Body.Close()
	}
	// which decoder does the value select?  three probe streams of the same plain bytes
	ce := "?"
	var unacc, other int
	for _, wc := range []string{"id", "gz", "sn"} {
		wire, _ := encode(wc, [][]byte{probe})
		r2, _ := http.NewRequest("POST", "http://verif/", bytes.NewReader(wire))
		r2.Header["Content-Encoding"] = []string{v}
		err := compresshttp.DecompressRequest(r2)
		if errors.Is(err, compresshttp.ErrUnacceptableEncoding) {
			unacc++
			continue
		}
		if err != nil {
			other++
			continue
		}
		if got, err := io.ReadAll(r2.Body); err == nil && bytes.Equal(got, probe) {
			ce = map[string]string{"id": "identity", "gz": "gzip", "sn": "snappy"}[wc]
		}
	}
	if unacc == 3 {
		ce = "refuse"
	}
	return fmt.Sprintf("ok sel=%s ce=%s", showStr(sel), ce)
}

// bomb <codec> <n>: n zero bytes under the codec, through the real Middleware; the handler only counts
func implBomb(f []string) string {
	if len(f) != 2 {
		return "bad-op"
	}
	n := int(hx.Atoi(f[1]))
	quiet()
	var wire bytes.Buffer
	zeros := make([]byte, 1<<16)
	ce := ""
	switch f[0] {
	case "id":
		wire.Write(make([]byte, n))
	case "gz":
		ce = encGzip
		zw, _ := gzip.NewWriterLevel(&wire, gzip.BestSpeed)
		for left := n; left > 0; {
			k := len(zeros)
			if k > left {
				k = left
			}
			zw.Write(zeros[:k])
			left -= k
		}
		zw.Close()
	case "sn":
		ce = encSnappy
		rec := httptest.NewRecorder()
		if err := compresshttp.CompressResponse(io.LimitReader(zeroReader{}, int64(n)), encSnappy, rec, 200); err != nil {
			return "err setup"
		}
		wire.Write(rec.Body.Bytes())
	default:
		return "bad-op"
	}
	var decoded int64 = -1
	srv := httptest.NewServer(compresshttp.Middleware(http.HandlerFunc(func(w http.ResponseWriter, r *http.Request) {
		k, err := io.Copy(io.Discard, r.Body)
		if err != nil {
			http.Error(w, "read error", 422)
			return
		}
		decoded = k
		w.Write([]byte("ok"))
	})))
	defer srv.Close()
	req, _ := http.NewRequest("POST", srv.URL+"/sign", bytes.NewReader(wire.Bytes()))
	if ce != "" {
		req.Header.Set("Content-Encoding", ce)
	}
	tr := &http.Transport{}
	defer tr.CloseIdleConnections()
	resp, err := (&http.Client{Transport: tr, Timeout: 120 * time.Second}).Do(req)
	if err != nil {
		return "err request"
	}
	io.Copy(io.Discard, resp.Body)
	resp.Body.Close()
	if resp.StatusCode != 200 {
		return fmt.Sprintf("ok refused=%d wire=%d", resp.StatusCode, wire.Len())
	}
	return fmt.Sprintf("ok decoded=%d wire=%d", decoded, wire.Len())
}

type zeroReader struct{}

func (zeroReader) Read(p []byte) (int, error) {
	for i := range p {
		p[i] = 0
	}
	return len(p), nil
}

// ---------------------------------------------------------------------------------------------
// cli: the real doRequest against servers behind the real Middleware

type cliWorld struct {
	mu      sync.Mutex
	attempt int
	events  []string
	hops    string
	seed    uint64
	file    []byte
	hosts   map[string]int
	recs    []*cliRec
}

type cliRec struct {
	server int
	enc    string
	ran    string
	wrote  []byte
}

func (w *cliWorld) event(k int) string {
	if k < len(w.events) {
		return w.events[k]
	}
	return "ok"
}

type cliRT struct {
	w     *cliWorld
	inner http.RoundTripper
}

func (t *cliRT) RoundTrip(req *http.Request) (*http.Response, error) {
	w := t.w
	w.mu.Lock()
	k := w.attempt
	w.attempt++
	r := &cliRec{server: w.hosts[req.URL.Host], enc: req.Header.Get("Content-Encoding"), ran: "x"}
	w.recs = append(w.recs, r)
	ev := w.event(k)
	w.mu.Unlock()
	req.Header.Set("X-Verif-Attempt", strconv.Itoa(k))
	switch ev {
	case "nt":
		return nil, &net.OpError{Op: "dial", Net: "tcp", Err: os.NewSyscallError("connect", syscall.ECONNREFUSED)}
	case "np":
		return nil, errors.New("tls: failed to verify certificate: x509: certificate signed by unknown authority")
	}
	return t.inner.RoundTrip(req)
}

func (w *cliWorld) handler() http.Handler {
	inner := http.HandlerFunc(func(rw http.ResponseWriter, r *http.Request) {
		k, _ := strconv.Atoi(r.Header.Get("X-Verif-Attempt"))
		w.mu.Lock()
		rec := w.recs[k]
		ev := w.event(k)
		w.mu.Unlock()
		b, err := io.ReadAll(r.Body)
		switch {
		case err != nil:
			w.mu.Lock()
			rec.ran = "x"
			w.mu.Unlock()
			rw.WriteHeader(422)
			rw.Write(failText)
			return
		case bytes.Equal(b, w.file):
			w.mu.Lock()
			rec.ran = "full"
			w.mu.Unlock()
		default:
			w.mu.Lock()
			rec.ran = "other"
			w.mu.Unlock()
		}
		if c, err := strconv.Atoi(ev); err == nil {
			rw.WriteHeader(c)
			rw.Write([]byte("scripted\n"))
			return
		}
		hr := &record{}
		runHops(rw, w.hops, w.seed, b, hr)
		w.mu.Lock()
		rec.wrote = hr.wrote
		w.mu.Unlock()
	})
	mw := compresshttp.Middleware(inner)
	// a server that does not know the coding of the request: the real middleware sees an unknown token
	return http.HandlerFunc(func(rw http.ResponseWriter, r *http.Request) {
		k, _ := strconv.Atoi(r.Header.Get("X-Verif-Attempt"))
		w.mu.Lock()
		ev := w.event(k)
		w.mu.Unlock()
		if ev == "u" && r.Header.Get("Content-Encoding") != "" {
			r.Header.Set("Content-Encoding", "x-unsupported")
		}
		mw.ServeHTTP(rw, r)
	})
}

type getter struct{ t signers.Transformer }

func (g getter) GetReader() (io.Reader, error) { return g.t.GetReader() }

func classify(err error) string {
	s := err.Error()
	if strings.HasPrefix(s, "HTTP error:") {
		lines := strings.Split(s, "\n")
		if len(lines) >= 3 {
			return "httperr:" + strings.Fields(lines[2])[0]
		}
	}
	if strings.HasPrefix(s, "HTTP ") {
		return "httperr:" + strings.Fields(s)[1]
	}
	return "neterr"
}

var (
	tmpOnce sync.Once
	tmpDir  string
)

func scratch() string {
	tmpOnce.Do(func() {
		d, err := os.MkdirTemp("", "verif-chttp-")
		if err != nil {
			panic(err)
		}
		tmpDir = d
		hx.OnExit(func() { os.RemoveAll(d) })
	})
	return tmpDir
}

func implCli(f []string) string {
	if len(f) != 7 {
		return "bad-op"
	}
	quiet()
	av, ok := parseVals(f[0])
	if !ok || len(av) > 1 {
		return "bad-op"
	}
	accept := ""
	if len(av) == 1 {
		accept = av[0]
	}
	retries, n, size := int(hx.Atoi(f[1])), int(hx.Atoi(f[2])), int(hx.Atoi(f[4]))
	seed := uint64(hx.Atoi(f[6]))
	var events []string
	if f[3] != "-" {
		events = strings.Split(f[3], ",")
	}
	data := pat(seed, 0, size)
	p := filepath.Join(scratch(), "cli-"+nextID()+".bin")
	if err := os.WriteFile(p, data, 0600); err != nil {
		return "err io"
	}
	defer os.Remove(p)
	fh, err := os.Open(p)
	if err != nil {
		return "err io"
	}
	defer fh.Close()
	w := &cliWorld{events: events, hops: f[5], seed: seed, file: data, hosts: map[string]int{}}
	var bases []string
	var servers []*httptest.Server
	for i := 0; i < n; i++ {
		s := httptest.NewUnstartedServer(w.handler())
		s.Config.ErrorLog = log.New(io.Discard, "", 0)
		s.Start()
		servers = append(servers, s)
		bases = append(bases, s.URL+"/")
		w.hosts[strings.TrimPrefix(s.URL, "http://")] = i
	}
	tr := &http.Transport{}
	hc := &http.Client{Transport: &cliRT{w: w, inner: tr}, Timeout: 60 * time.Second}
	defer func() {
		tr.CloseIdleConnections()
		for _, s := range servers {
			s.Close()
		}
	}()
	resp, err := remotecmd.VerifDoRequest(hc, retries, bases, "sign", "POST", accept, nil, getter{signers.DefaultTransform(fh)})
	w.mu.Lock()
	var parts []string
	for _, r := range w.recs {
		parts = append(parts, fmt.Sprintf("s%d:%s:%s", r.server, showStr(r.enc), r.ran))
	}
	w.mu.Unlock()
	at := "-"
	if len(parts) > 0 {
		at = strings.Join(parts, ",")
	}
	switch {
	case err != nil:
		return fmt.Sprintf("ok %s %s", at, classify(err))
	case resp == nil:
		return fmt.Sprintf("ok %s nothing", at)
	}
	b, rerr := io.ReadAll(resp.Body)
	resp.Body.Close()
	w.mu.Lock()
	last := w.recs[len(w.recs)-1]
	w.mu.Unlock()
	d := "c:other"
	if rerr != nil {
		d = "failed"
	} else if bytes.Equal(b, last.wrote) {
		d = "c:full"
	}
	return fmt.Sprintf("ok %s resp:%d:s%d:%s", at, resp.StatusCode, last.server, d)
}

// ---------------------------------------------------------------------------------------------

// ---------------------------------------------------------------------------------------------
// sbuf <signer> <n|inf>: the real Sign of a signer that reads its whole input into memory, on n zero bytes (inf: a
// stream that never ends); reports how many bytes it took from the stream and whether it refused the input for its size

type countReader struct {
	r io.Reader
	n int64
}

func (c *countReader) Read(p []byte) (int, error) {
	k, err := c.r.Read(p)
	c.n += int64(k)
	return k, err
}

func implSbuf(f []string) string {
	if len(f) != 2 {
		return "bad-op"
	}
	mod := signers.ByName(f[0])
	if mod == nil || mod.Sign == nil {
		return "bad-op"
	}
	var src io.Reader = zeroReader{}
	if f[1] != "inf" {
		src = io.LimitReader(zeroReader{}, hx.Atoi(f[1]))
	}
	cr := &countReader{r: src}
	cert := sg.Cert("p256")
	fv, err := mod.FlagsFromQuery(nil)
	if err != nil {
		return "err flags"
	}
	opts := signers.SignOpts{Hash: crypto.SHA256, Time: time.Unix(1700000000, 0).UTC(), Audit: audit.New(cert.KeyName, mod.Name, crypto.SHA256), Flags: fv}
	_, err = mod.Sign(cr, cert, opts)
	res := "parser"
	if err != nil && strings.Contains(err.Error(), "exceeds") {
		res = "toolarge"
	}
	return fmt.Sprintf("ok held=%d res=%s", cr.n, res)
}

// Handle runs one CHTTP op (fields after the first token)
func Handle(f []string) string {
	if len(f) < 1 {
		return "bad-op"
	}
	switch f[0] {
	case "neg":
		return implNeg(f[1:])
	case "law":
		return implLaw(f[1:])
	case "srv":
		return implSrv(f[1:])
	case "conc":
		return implConc(f[1:])
	case "cli":
		return implCli(f[1:])
	case "bomb":
		return implBomb(f[1:])
	case "sbuf":
		return implSbuf(f[1:])
	}
	return "bad-op"
}

/-
  C01 — Every signature relic produces verifies.   PE/COFF part (model `Relic.Model.PE`): the chain
  digest → patch → apply → (verifier) locate + re-digest.  The cryptographic step is outside the model.
  Other formats add their theorems in `Relic/Props/C01_*.lean`.
-/
import Relic.Proofs.PESign
import Relic.Proofs.PEFrame
import Relic.Props.C08
namespace Relic.Props.C01
open Relic Relic.PE

/-- **pe_sign_then_redigest (partial).** The verifier recomputes the image digest of the signed file; whenever that
    computation succeeds it hashes exactly the stream that was signed, so for *every* hash function the imprint
    in the signature equals the recomputed one. -/
theorem pe_sign_then_redigest_partial (H : Bytes → Bytes) (f : Bytes) (d d' : Digest) (sig : Bytes) (ps : List Binpatch.Patch)
    (hp : 64 ≤ u32 f 0x3c) (e : DigestPE f = .ok d) (hm : makePatch d sig = .ok ps)
    (hsig : 8 + ceil8 sig.length < 2 ^ 32) (M : Nat) :
    Binpatch.applyRewrite f (Binpatch.build M ps) = .ok (signedBytes f d sig) ∧
    (DigestPE (signedBytes f d sig) = .ok d' → H d'.hashed = H d.hashed) := by
  refine ⟨C08.pe_signed_file f d sig ps hp e hm M, ?_⟩
  intro e'
  have hcs : d.certStart < 2 ^ 32 := by
    unfold makePatch at hm
    split at hm
    · contradiction
    · omega
  rw [C08.pe_digest_ignores_signature_partial f d d' sig hp e hcs hsig e']

/-- **pe_sign_then_verify.** The full statement: for every file `DigestPE` accepts (with `e_lfanew ≥ 64`) and every
    signature blob `MakePatch` accepts, on the signed file the verifier's re-digest *succeeds* and hashes exactly
    the stream that was signed, and the verifier's locator (`findSignatures` + certificate-table walk) finds exactly
    one blob: the embedded signature, zero-padded to a multiple of 8 as `MakePatch` stores it. -/
theorem pe_sign_then_verify (f : Bytes) (d : Digest) (sig : Bytes) (hp : 64 ≤ u32 f 0x3c)
    (e : DigestPE f = .ok d) (hcs : d.certStart < 2 ^ 32) (hsig : 8 + ceil8 sig.length < 2 ^ 32) :
    (∃ d', DigestPE (signedBytes f d sig) = .ok d' ∧ d'.hashed = d.hashed) ∧
    locate (signedBytes f d sig) = .ok [sig ++ List.replicate (ceil8 sig.length - sig.length) 0] :=
  ⟨C08.pe_digest_ignores_signature f d sig hp e hcs hsig, locate_signed f d sig hp e hcs hsig⟩

set_option maxRecDepth 100000 in
example : 64 ≤ u32 C08.minimalPE 0x3c ∧ C08.minimalPE_ok = true ∧ C08.minimalPE_hyps = true := by decide

end Relic.Props.C01

/-
  C01 (APPX): sign-then-verify.  The unchanged code does NOT have the property for packages without `.exe`/`.dll`
  members (F19): `Sign` writes no catalog, `verifyCatalog` demands one.
-/
import Relic.Props.C05_Appx
namespace Relic.Props.C01
open Relic Relic.Zip Relic.Appx

/-- **appx_catalog_iff_pe.** `Sign` records AXCI (and writes the catalog part) exactly when a payload member is a PE file. -/
theorem appx_catalog_iff_pe (c : Codec) (z : Bytes) (ps : Parts) (r : Signed) (h : sign c z ps = .ok r) :
    ∃ g, digest c z = .ok g ∧ (r.streams.axci.isSome = g.p.hasPE) := by
  obtain ⟨g, _, hg, _, _, _, _, _, _, _, _, h10⟩ := C05.appx_digest_eq_spec c z ps r h
  refine ⟨g, hg, ?_⟩
  rw [h10]; cases g.p.hasPE <;> rfl

/-- full statement as first written: the model's verifier accepts what the model's signer wrote, under the streams that
    were signed, for SOME codec.  It is FALSE as stated (`C01.not_appx_sign_then_verify_full` in C01_AppxFull.lean: empty
    manifest part / F7a; also incoherent parts, `*.appx` members / F41, parts ≥ 4 GiB); the statement with the missing
    hypotheses made explicit, for the SAME codec and without the PE condition (fix-F19), is proved there as
    `C01.appx_sign_then_verify_zip`, on top of the round trip `Read ∘ WriteDirectory` (`C17.read_write_directory_own_output`).
    Both sides are also executed on every generated op (`v=` of stage 2 vs `signappx.Verify`). -/
def appx_sign_then_verify_full : Prop :=
  ∀ (c : Codec) (z : Bytes) (ps : Parts) (r : Signed), sign c z ps = .ok r → (∃ g, digest c z = .ok g ∧ g.p.hasPE = true) →
    ∃ c' : Codec, verify c' r.out r.streams (some r.bm) = .ok ()

end Relic.Props.C01

module extractaudit

go 1.22

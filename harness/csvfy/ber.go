package csvfy

// BER forms of a CMS blob.  Apple's tools emit the CMS of a code signature in BER (indefinite lengths); relic repacks
// whatever it finds to DER before parsing (lib/fruit/csblob parseSignature, lib/fruit/xar Verify).  A third-party
// signature must verify in every BER form of the same value: the signed bytes (authenticated attributes, certificates)
// are primitive or are digested in their DER form.  berVariant re-encodes a DER value; derOfBER is the harness's own
// normaliser (used only to describe the CMS item to the model).

type berNode struct {
	tag      []byte // identifier octets
	cons     bool
	content  []byte // primitive
	children []berNode
}

func readBER(b []byte) (n berNode, rest []byte, ok bool) {
	if len(b) < 2 {
		return n, nil, false
	}
	i := 1
	if b[0]&0x1f == 0x1f { // high tag number
		for i < len(b) && b[i]&0x80 != 0 {
			i++
		}
		i++
	}
	if i >= len(b) {
		return n, nil, false
	}
	n.tag = b[:i]
	n.cons = b[0]&0x20 != 0
	l := int(b[i])
	i++
	indef := false
	switch {
	case l == 0x80:
		indef = true
	case l&0x80 != 0:
		k := l & 0x7f
		if k > 4 || i+k > len(b) {
			return n, nil, false
		}
		l = 0
		for j := 0; j < k; j++ {
			l = l<<8 | int(b[i+j])
		}
		i += k
	}
	if indef {
		if !n.cons {
			return n, nil, false
		}
		body := b[i:]
		for {
			if len(body) >= 2 && body[0] == 0 && body[1] == 0 {
				return n, body[2:], true
			}
			c, r, ok := readBER(body)
			if !ok {
				return n, nil, false
			}
			n.children = append(n.children, c)
			body = r
		}
	}
	if l < 0 || i+l > len(b) {
		return n, nil, false
	}
	body, rest := b[i:i+l], b[i+l:]
	if !n.cons {
		n.content = body
		return n, rest, true
	}
	for len(body) > 0 {
		c, r, ok := readBER(body)
		if !ok {
			return n, nil, false
		}
		n.children = append(n.children, c)
		body = r
	}
	return n, rest, true
}

func derLen(n int) []byte {
	switch {
	case n < 0x80:
		return []byte{byte(n)}
	case n < 0x100:
		return []byte{0x81, byte(n)}
	case n < 0x10000:
		return []byte{0x82, byte(n >> 8), byte(n)}
	case n < 0x1000000:
		return []byte{0x83, byte(n >> 16), byte(n >> 8), byte(n)}
	}
	return []byte{0x84, byte(n >> 24), byte(n >> 16), byte(n >> 8), byte(n)}
}

// emit: mode per depth: 'd' definite minimal, 'i' indefinite (constructed only), 'n' non-minimal definite length
func (n berNode) emit(depth int, mode func(depth int) byte) []byte {
	var body []byte
	if n.cons {
		for _, c := range n.children {
			body = append(body, c.emit(depth+1, mode)...)
		}
	} else {
		body = n.content
	}
	out := append([]byte(nil), n.tag...)
	switch m := mode(depth); {
	case m == 'i' && n.cons:
		out = append(out, 0x80)
		out = append(out, body...)
		return append(out, 0, 0)
	case m == 'n':
		l := len(body)
		out = append(out, 0x84, byte(l>>24), byte(l>>16), byte(l>>8), byte(l))
		return append(out, body...)
	}
	out = append(out, derLen(len(body))...)
	return append(out, body...)
}

// derOfBER: the DER form of one BER value (nothing may follow it)
func derOfBER(b []byte) ([]byte, bool) {
	n, rest, ok := readBER(b)
	if !ok || len(rest) != 0 {
		return nil, false
	}
	return n.emit(0, func(int) byte { return 'd' }), true
}

// berVariant: kinds "apple" (indefinite down to the SignedData sequence, as Apple's codesign writes it), "inner" (outermost
// definite, the [0] wrapper and the SignedData sequence indefinite), "nonmin" (non-minimal length octets on the two outer
// levels), "deep" (every constructed element above the signer infos / certificates indefinite: depth < 4)
func berVariant(der []byte, kind string) []byte {
	n, rest, ok := readBER(der)
	if !ok || len(rest) != 0 {
		panic("csvfy: CMS item is not one DER value")
	}
	return n.emit(0, func(d int) byte {
		switch kind {
		case "apple":
			if d <= 2 {
				return 'i'
			}
		case "inner":
			if d == 1 || d == 2 {
				return 'i'
			}
		case "nonmin":
			if d <= 1 {
				return 'n'
			}
		case "deep":
			if d <= 3 {
				return 'i'
			}
		}
		return 'd'
	})
}

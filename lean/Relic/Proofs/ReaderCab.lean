/-
  Relic.Proofs.ReaderCab — the reader program `digestCabOrig`, run on a whole file, is the whole-buffer model
  `Relic.Cab.DigestCab` (result, bytes hashed, `patched`).
-/
import Relic.Proofs.ReaderFlat
namespace Relic.Rd
open Relic
open Relic.PE (seg seg_length seg_append seg_self u16 u32)
open Relic.Cab (u8 rebase rebaseFolders Reserve noReserve readReserve outHdr DigestCab)

def toObs (r : Res Cab.Digest) : Obs Cab.Digest :=
  match r with
  | .ok d => .ok (d, d.hashed, d.patched)
  | .err e => .err e
  | .panic p => .panic p
  | .diverge => .diverge

/-- what the model returns, as an observation: the digest record, the hashed stream, `Patched` -/
def cabObs (f : Bytes) : Obs Cab.Digest := toObs (DigestCab f)

theorem u8_seg (f : Bytes) (a b off : Nat) (h : off + 1 ≤ b - a) (hb : b ≤ f.length) :
    u8 (seg f a b) off = u8 f (a + off) := by
  unfold u8
  rw [seg_seg f a b off (off + 1) h hb]
  rfl

/-! ### the folder loop -/

theorem obs_cabFolders {α} (f : Bytes) (delta n c : Nat) (acc : Bytes) (k : Bytes → Prog α) (hc : c ≤ f.length) :
    obs (runFlat (cabFolders delta n acc k) (at_ f c)) =
      if c + 8 * n ≤ f.length then
        pre12 (rebaseFolders f delta c n) (obs (runFlat (k (acc ++ rebaseFolders f delta c n)) (at_ f (c + 8 * n))))
      else .err "eof" := by
  induction n generalizing c acc with
  | zero =>
    simp only [cabFolders, rebaseFolders, Nat.mul_zero, Nat.add_zero, hc, ↓reduceIte, List.append_nil]
    unfold pre12
    rw [pre_nil, pre_nil]
  | succ n ih =>
    simp only [cabFolders]
    rw [obs_readFullE f c 8 _ hc]
    by_cases h8 : c + 8 ≤ f.length
    · simp only [h8, ↓reduceIte]
      rw [obs_emit, obs_emit, ih (c + 8) _ h8]
      have e1 : u32 (seg f c (c + 8)) 0 = u32 f c := by
        have := u32_seg f c (c + 8) 0 (by omega) h8; simpa using this
      have e2 : seg (seg f c (c + 8)) 4 8 = seg f (c + 4) (c + 8) := seg_seg f c (c + 8) 4 8 (by omega) h8
      rw [e1, e2]
      by_cases hn : c + 8 + 8 * n ≤ f.length
      · have hn' : c + 8 * (n + 1) ≤ f.length := by omega
        simp only [hn, hn', ↓reduceIte, rebaseFolders]
        have : c + 8 + 8 * n = c + 8 * (n + 1) := by omega
        rw [this]
        show pre12 _ (pre12 _ _) = _
        rw [pre12_pre12]
        simp only [List.append_assoc]
      · have hn' : ¬ c + 8 * (n + 1) ≤ f.length := by omega
        simp only [hn, hn', ↓reduceIte]
        rfl
    · have hn' : ¬ c + 8 * (n + 1) ≤ f.length := by omega
      simp only [h8, hn', ↓reduceIte]

/-! ### the reserve area -/

theorem readReserve_cur {f : Bytes} {total : Nat} {rv : Reserve} (h : readReserve f total = .ok rv) :
    rv.cur ≤ f.length := by
  unfold readReserve at h
  split at h
  · cases h
  simp only at h
  split at h
  · cases h
  split at h
  · cases h
  split at h
  · split at h
    · cases h
    split at h
    · cases h
    split at h
    · cases h
    · injection h with h; subst h; simp only; omega
  · split at h
    · cases h
    · injection h with h; subst h; simp only; omega

theorem obs_cabReserve {α} (f : Bytes) (total : Nat) (k : Reserve → Prog α) (h36 : 36 ≤ f.length) :
    obs (runFlat (cabReserve total k) (at_ f 36)) =
      match readReserve f total with
      | .ok rv => obs (runFlat (k rv) (at_ f rv.cur))
      | .err e => .err e
      | .panic p => .panic p
      | .diverge => .diverge := by
  unfold cabReserve readReserve
  rw [obs_readFullE f 36 4 _ h36]
  by_cases h40 : 36 + 4 ≤ f.length
  · have h40' : ¬ f.length < 40 := by omega
    simp only [h40, h40', ↓reduceIte]
    have e0 : u16 (seg f 36 (36 + 4)) 0 = u16 f 36 := by
      have := u16_seg f 36 40 0 (by omega) (by omega); simpa using this
    have e2 : u8 (seg f 36 (36 + 4)) 2 = u8 f 38 := u8_seg f 36 40 2 (by omega) (by omega)
    have e3 : u8 (seg f 36 (36 + 4)) 3 = u8 f 39 := u8_seg f 36 40 3 (by omega) (by omega)
    rw [e0, e2, e3]
    by_cases hres : u16 f 36 < 20 ∨ u8 f 38 ≠ 0 ∨ u8 f 39 ≠ 0
    · simp only [hres, ↓reduceIte]; rfl
    · simp only [hres, ↓reduceIte]
      rw [obs_readFullE f (36 + 4) 20 _ h40]
      by_cases h60 : 36 + 4 + 20 ≤ f.length
      · have h60' : ¬ f.length < 60 := by omega
        simp only [h60, h60', ↓reduceIte]
        have s4 : u32 (seg f (36 + 4) (36 + 4 + 20)) 4 = u32 f 44 := u32_seg f 40 60 4 (by omega) (by omega)
        have s8 : u32 (seg f (36 + 4) (36 + 4 + 20)) 8 = u32 f 48 := u32_seg f 40 60 8 (by omega) (by omega)
        have g0 : seg (seg f (36 + 4) (36 + 4 + 20)) 0 4 = seg f 40 44 := seg_seg f 40 60 0 4 (by omega) (by omega)
        have g12 : seg (seg f (36 + 4) (36 + 4 + 20)) 12 16 = seg f 52 56 := seg_seg f 40 60 12 16 (by omega) (by omega)
        have g16 : seg (seg f (36 + 4) (36 + 4 + 20)) 16 20 = seg f 56 60 := seg_seg f 40 60 16 20 (by omega) (by omega)
        rw [s4, s8, g0, g12, g16]
        by_cases hpad : 0 < u16 f 36 - 20
        · simp only [hpad, ↓reduceIte]
          by_cases hcs : u32 f 44 ≠ 0
          · rw [if_pos hcs, if_pos hcs]; rfl
          · rw [if_neg hcs, if_neg hcs]
            rw [obs_readFullE f (36 + 4 + 20) _ _ h60]
            by_cases hp : 36 + 4 + 20 + (u16 f 36 - 20) ≤ f.length
            · have hp' : ¬ f.length < 60 + (u16 f 36 - 20) := by omega
              simp only [hp, hp', ↓reduceIte]
              have : 36 + 4 + 20 = 60 := rfl
              rw [this]
              by_cases hz : ((seg f 60 (60 + (u16 f 36 - 20))).any fun x => decide (x ≠ 0)) = true
              · simp only [hz, ↓reduceIte]; rfl
              · simp only [hz, ↓reduceIte]
                rfl
            · have hp' : f.length < 60 + (u16 f 36 - 20) := by omega
              simp only [hp, hp', ↓reduceIte]
        · simp only [hpad, ↓reduceIte]
          by_cases ht : total ≠ u32 f 44
          · rw [if_pos ht, if_pos ht]; rfl
          · rw [if_neg ht, if_neg ht]
      · have h60' : f.length < 60 := by omega
        simp only [h60, h60', ↓reduceIte]
  · have h40' : f.length < 40 := by omega
    simp only [h40, h40', ↓reduceIte]

/-! ### after the reserve area -/

/-- the model after the reserve area, as an observation -/
def cabAfter (f : Bytes) (rv : Reserve) : Obs Cab.Digest :=
  let total := u32 f 8
  let offFiles := u32 f 16
  let nFolders := u16 f 26
  let flags := u16 f 30
  if flags % 4 ≠ 0 then .err "multipart" else
  if 8 ≤ flags then .err "flags" else
  let outFlags := if flags / 4 % 2 = 1 then flags else flags + 4
  let fe := rv.cur + 8 * nFolders
  if f.length < fe then .err "eof" else
  let n := (total + 2 ^ 32 - offFiles) % 2 ^ 32
  if f.length < fe + n then .err "eof" else
  let de := fe + n
  if rv.hasSig ∧ f.length < de + rv.sigSize then .err "eof" else
  let stop := if rv.hasSig then de + rv.sigSize else de
  if stop < f.length then .err "trailing" else
  let d : Cab.Digest :=
    { hdr := outHdr f (rebase rv.delta total) (rebase rv.delta offFiles) outFlags rv.u1 rv.u2 rv.u3,
      folders := rebaseFolders f rv.delta rv.cur nFolders,
      data := seg f fe de,
      total, offFiles, nFolders, delta := rv.delta, hasSig := rv.hasSig,
      oldSigSize := if rv.hasSig then rv.sigSize else 0,
      signature := if rv.hasSig then seg f de (de + rv.sigSize) else [],
      foldersStart := rv.cur, dataEnd := de }
  .ok (d, d.hashed, d.patched)

theorem cabObs_eq (f : Bytes) :
    cabObs f =
      if f.length < 36 then .err "eof" else
      if u32 f 0 ≠ 0x4643534d then .err "notcab" else
      match (if u16 f 30 / 4 % 2 = 1 then readReserve f (u32 f 8) else .ok noReserve) with
      | .ok rv => cabAfter f rv
      | .err e => .err e
      | .panic p => .panic p
      | .diverge => .diverge := by
  unfold cabObs DigestCab
  simp only [apply_ite toObs]
  cases hr : (if u16 f 30 / 4 % 2 = 1 then readReserve f (u32 f 8) else Res.ok noReserve) with
  | err e => rfl
  | panic p => rfl
  | diverge => rfl
  | ok rv =>
    simp only [apply_ite toObs, cabAfter]
    rfl

theorem outHdr_seg (f : Bytes) (h36 : 36 ≤ f.length) (a b c : Nat) (u1 u2 u3 : Bytes) :
    outHdr (seg f 0 36) a b c u1 u2 u3 = outHdr f a b c u1 u2 u3 := by
  unfold outHdr
  have s := fun x y (hy : y ≤ 36) => seg_seg f 0 36 x y (by omega) h36
  simp only [Nat.zero_add] at s
  rw [s 0 4 (by omega), s 4 8 (by omega), s 12 16 (by omega), s 20 26 (by omega), s 26 28 (by omega),
    s 28 30 (by omega), s 32 34 (by omega), s 34 36 (by omega)]

theorem obs_cabTailOrig (f : Bytes) (c : Nat) (d : Cab.Digest) (hc : c ≤ f.length) :
    obs (runFlat (cabTailOrig d) (at_ f c)) = if c < f.length then .err "trailing" else .ok (d, [], []) := by
  simp only [cabTailOrig, runFlat, at_]
  by_cases h : c < f.length
  · have : (List.drop c f).isEmpty = false := by
      cases hd : List.drop c f with
      | nil =>
        have := congrArg List.length hd
        simp at this; omega
      | cons _ _ => rfl
    simp only [h, this, ↓reduceIte, Bool.false_eq_true]
    rfl
  · have : List.drop c f = [] := List.drop_eq_nil_of_le (by omega)
    simp only [h, this, List.isEmpty_nil, ↓reduceIte]
    rfl

theorem pre_chain {α} (q1 q2 : Prop) [Decidable q1] [Decidable q2] (d : α) (a b c e : Bytes) :
    pre hashSink a (pre patchedSink b (pre12 c (pre hashSink e
      (if q1 then (.err "eof" : Obs α) else if q2 then .err "trailing" else .ok (d, [], []))))) =
    if q1 then .err "eof" else if q2 then .err "trailing" else .ok (d, a ++ (c ++ e), b ++ c) := by
  by_cases h1 : q1 <;> by_cases h2 : q2 <;> simp [h1, h2, pre12, pre, hashSink, patchedSink]

/-- the old signature and the end-of-input probe -/
theorem obs_cabSigTail (f : Bytes) (tail : Cab.Digest → Prog Cab.Digest)
    (htail : ∀ c d, c ≤ f.length → obs (runFlat (tail d) (at_ f c)) = if c < f.length then .err "trailing" else .ok (d, [], []))
    (c : Nat) (hasSig : Bool) (sigSize : Nat) (mk : Bytes → Cab.Digest)
    (hc : c ≤ f.length) :
    obs (runFlat ((if hasSig then readFullE sigSize else fun k => k []) fun sig => tail (mk sig)) (at_ f c)) =
      if hasSig ∧ f.length < c + sigSize then .err "eof" else
      if (if hasSig then c + sigSize else c) < f.length then .err "trailing" else
      .ok (mk (if hasSig then seg f c (c + sigSize) else []), [], []) := by
  cases hasSig with
  | true =>
    simp only [↓reduceIte, true_and]
    rw [obs_readFullE f _ _ _ hc]
    by_cases c5 : c + sigSize ≤ f.length
    · have c5' : ¬ f.length < c + sigSize := by omega
      simp only [c5, c5', ↓reduceIte]
      exact htail _ _ c5
    · have c5' : f.length < c + sigSize := by omega
      simp only [c5, c5', ↓reduceIte]
  | false =>
    simp only [Bool.false_eq_true, ↓reduceIte, false_and]
    exact htail _ _ hc

theorem obs_cabRest (f : Bytes) (tail : Cab.Digest → Prog Cab.Digest)
    (htail : ∀ c d, c ≤ f.length → obs (runFlat (tail d) (at_ f c)) = if c < f.length then .err "trailing" else .ok (d, [], []))
    (rv : Reserve) (h36 : 36 ≤ f.length) (hcur : rv.cur ≤ f.length) :
    obs (runFlat (cabRest (seg f 0 36) rv tail) (at_ f rv.cur)) = cabAfter f rv := by
  unfold cabRest cabAfter
  have e8 : u32 (seg f 0 36) 8 = u32 f 8 := by have := u32_seg f 0 36 8 (by omega) h36; simpa using this
  have e16 : u32 (seg f 0 36) 16 = u32 f 16 := by have := u32_seg f 0 36 16 (by omega) h36; simpa using this
  have e26 : u16 (seg f 0 36) 26 = u16 f 26 := by have := u16_seg f 0 36 26 (by omega) h36; simpa using this
  have e30 : u16 (seg f 0 36) 30 = u16 f 30 := by have := u16_seg f 0 36 30 (by omega) h36; simpa using this
  simp only [e8, e16, e26, e30, outHdr_seg f h36]
  by_cases c1 : u16 f 30 % 4 ≠ 0
  · rw [if_pos c1, if_pos c1]; rfl
  rw [if_neg c1, if_neg c1]
  by_cases c2 : 8 ≤ u16 f 30
  · rw [if_pos c2, if_pos c2]; rfl
  rw [if_neg c2, if_neg c2]
  rw [obs_emit, obs_emit, obs_cabFolders f _ _ _ _ _ hcur]
  generalize hn : (u32 f 8 + 2 ^ 32 - u32 f 16) % 2 ^ 32 = n
  generalize hfe : rv.cur + 8 * u16 f 26 = fe
  by_cases c3 : fe ≤ f.length
  · have c3' : ¬ f.length < fe := by omega
    rw [if_pos c3, if_neg c3']
    simp only [List.nil_append]
    rw [obs_copyNTo f _ _ _ _ _ c3]
    by_cases c4 : fe + n ≤ f.length
    · have c4' : ¬ f.length < fe + n := by omega
      rw [if_neg c4']
      by_cases hn0 : n = 0
      · subst hn0
        rw [if_pos rfl, obs_cabSigTail f tail htail fe rv.hasSig rv.sigSize _ c3]
        simp only [Nat.add_zero, seg_self]
        rw [← pre_nil hashSink (ite _ _ _), pre_chain]
        simp [Cab.Digest.hashed, Cab.Digest.patched]
      · rw [if_neg hn0, if_pos c4, obs_cabSigTail f tail htail (fe + n) rv.hasSig rv.sigSize _ c4]
        rw [pre_chain]
        simp [Cab.Digest.hashed, Cab.Digest.patched]
    · have c4' : f.length < fe + n := by omega
      have hn0 : n ≠ 0 := by omega
      rw [if_neg hn0, if_neg c4, if_pos c4']
      rfl
  · have c3' : f.length < fe := by omega
    rw [if_neg c3, if_pos c3']
    rfl

theorem obs_cabTail (f : Bytes) (c : Nat) (d : Cab.Digest) (hc : c ≤ f.length) :
    obs (runFlat (cabTail d) (at_ f c)) = if c < f.length then .err "trailing" else .ok (d, [], []) := by
  simp only [cabTail, runFlat, at_, flatCopy, List.length_drop]
  by_cases h : c < f.length
  · have h' : 0 < f.length - c := by omega
    rw [if_pos h', if_pos h]; rfl
  · have h' : ¬ 0 < f.length - c := by omega
    rw [if_neg h', if_neg h]; rfl

/-- the body with any tail that reports "trailing" exactly when bytes are left -/
theorem cab_flat_tail (f : Bytes) (tail : Cab.Digest → Prog Cab.Digest)
    (htail : ∀ c d, c ≤ f.length → obs (runFlat (tail d) (at_ f c)) = if c < f.length then .err "trailing" else .ok (d, [], [])) :
    obs (runFlat (cabBody tail) (Flat.raw f .eof)) = cabObs f := by
  rw [cabObs_eq, ← at_zero]
  unfold cabBody
  rw [obs_readFullE f 0 36 _ (Nat.zero_le _)]
  by_cases h36 : 0 + 36 ≤ f.length
  · have h36' : ¬ f.length < 36 := by omega
    have h36'' : 36 ≤ f.length := by omega
    simp only [h36, h36', ↓reduceIte, Nat.zero_add]
    have e0 : u32 (seg f 0 36) 0 = u32 f 0 := by have := u32_seg f 0 36 0 (by omega) h36''; simpa using this
    have e8 : u32 (seg f 0 36) 8 = u32 f 8 := by have := u32_seg f 0 36 8 (by omega) h36''; simpa using this
    have e30 : u16 (seg f 0 36) 30 = u16 f 30 := by have := u16_seg f 0 36 30 (by omega) h36''; simpa using this
    rw [e0, e8, e30]
    by_cases hm : u32 f 0 ≠ 0x4643534d
    · rw [if_pos hm, if_pos hm]; rfl
    rw [if_neg hm, if_neg hm]
    by_cases hr : u16 f 30 / 4 % 2 = 1
    · simp only [hr, ↓reduceIte]
      rw [obs_cabReserve f _ _ h36'']
      cases hrr : readReserve f (u32 f 8) with
      | ok rv => exact obs_cabRest f tail htail rv h36'' (readReserve_cur hrr)
      | err e => rfl
      | panic p => rfl
      | diverge => rfl
    · simp only [hr, ↓reduceIte]
      exact obs_cabRest f tail htail noReserve h36'' (by simp [noReserve]; omega)
  · have h36' : f.length < 36 := by omega
    simp only [h36, h36', ↓reduceIte]

/-- **the reader program of `cabfile.Digest`, on a whole file, is the model `DigestCab`** -/
theorem cab_orig_flat (f : Bytes) : obs (runFlat digestCabOrig (Flat.raw f .eof)) = cabObs f :=
  cab_flat_tail f cabTailOrig (fun c d hc => obs_cabTailOrig f c d hc)

/-- and so is the program with the proposed fix -/
theorem cab_flat (f : Bytes) : obs (runFlat digestCab (Flat.raw f .eof)) = cabObs f :=
  cab_flat_tail f cabTail (fun c d hc => obs_cabTail f c d hc)

end Relic.Rd

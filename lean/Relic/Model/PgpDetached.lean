/-
  Relic.Model.PgpDetached — detached OpenPGP signatures (signers/pgp `sign` without the inline and clearsign flags, and
  lib/pgptools.VerifyDetached).  What relic's own code decides is WHICH byte stream is hashed on each side:
  the signer calls the library's DetachSign (binary, type 0x00: the document as it is) or DetachSignText (type 0x01:
  the document through the canonical-text writer); the verifier reads the signature type from the packet and must feed
  the hash the same stream.  The canonical-text writer is go-crypto's `writeCanonical` state machine, modelled as it
  is (state 1 after a CR; ANY next byte resets it — so CR CR LF gets a second CR inserted), over an arbitrary split of
  the document into Write calls.
-/
import Relic.Base.Bytes
namespace Relic.PgpDetached
open Relic

/-- go-crypto openpgp/canonical_text.go writeCanonical: state `s` (true = the previous byte was a CR that opened
    state 1), one buffer; returns the bytes handed to the hash and the state left behind -/
def canonStep (s : Bool) : Bytes → Bytes × Bool
  | [] => ([], s)
  | c :: rest =>
    if s then
      -- case 1: whatever the byte is, it is copied and the state returns to 0
      let (o, s') := canonStep false rest
      (c :: o, s')
    else if c = 13 then
      let (o, s') := canonStep true rest
      (c :: o, s')
    else if c = 10 then
      let (o, s') := canonStep false rest
      (13 :: 10 :: o, s')
    else
      let (o, s') := canonStep false rest
      (c :: o, s')

/-- the stream after a sequence of Write calls (the state is carried from one call to the next) -/
def canonWrites (s : Bool) : List Bytes → Bytes
  | [] => []
  | b :: rest => (canonStep s b).1 ++ canonWrites (canonStep s b).2 rest

def canonText (doc : Bytes) : Bytes := (canonStep false doc).1

/-- signature types of RFC 4880 5.2.1 that relic's detached signer produces -/
inductive SigType | binary | text
  deriving Repr, DecidableEq

/-- signers/pgp.sign: --textmode selects DetachSignText -/
def sigTypeOf (textmode : Bool) : SigType := if textmode then .text else .binary

/-- the stream the library's signer hashes (before the signature trailer) for a document delivered in `chunks` -/
def signHashed (t : SigType) (chunks : List Bytes) : Bytes :=
  match t with
  | .binary => chunks.flatten
  | .text => canonWrites false chunks

/-- lib/pgptools.VerifyDetached (as repaired): the signature type found in the packet selects the same writer -/
def verifyHashed (t : SigType) (chunks : List Bytes) : Bytes :=
  match t with
  | .binary => chunks.flatten
  | .text => canonWrites false chunks

/-- VerifyDetached before the repair: io.Copy(d, signed) whatever the signature type -/
def verifyHashedOrig (_t : SigType) (chunks : List Bytes) : Bytes := chunks.flatten

/-! ### non-seekable input (relic sign -f -): signers/pgp.transform reads it into memory, up to a limit -/

def maxStreamClearSignSize : Nat := 10 * 1000 * 1000

/-- `ioutil.ReadAll(io.LimitReader(stream, max))`, then refuse when the limit was hit; otherwise every GetReader is a
    reader over the bytes read -/
def pipeTransform (input : Bytes) : Option Bytes :=
  let contents := input.take maxStreamClearSignSize
  if contents.length = maxStreamClearSignSize then none else some contents

/-- the same decision from the length alone (what the driver evaluates: no 10 MB list is built) -/
def pipeTransformLen (n : Nat) : Option Nat :=
  let c := min n maxStreamClearSignSize
  if c = maxStreamClearSignSize then none else some c

end Relic.PgpDetached

/-
  Relic.Model.Transport — executable model of
    * `(*client).doRequest` / `buildRequest` in /repo/cmdline/remotecmd/client.go (server list
      repetition up to `remote.retries`, the `for i, base := range bases` loop, the 406 fallback
      `encodings = ""; goto loop`, `httperror.Temporary` classification of HTTP statuses),
    * `selectEncoding` in /repo/lib/compresshttp/compress.go,
    * `fileProducer.GetReader` in /repo/signers/transform.go (seek to 0, hand out the file).

  Strings are `List Char` so that the proofs stay in core `List` lemmas; the driver converts.
  One entry of the script = what happens to one attempt (one call of `cli.cli.Do`).
-/
import Relic.Base.Bytes
namespace Relic.Transport
open Relic

abbrev Str := List Char

/-! ### `selectEncoding` -/

def gzip : Str := ['g', 'z', 'i', 'p']
def snappy : Str := ['x', '-', 's', 'n', 'a', 'p', 'p', 'y', '-', 'f', 'r', 'a', 'm', 'e', 'd']

/-- `prefs[encoding]` (missing key = 0) -/
def pref (e : Str) : Nat := if e = gzip then 1 else if e = snappy then 2 else 0

/-- `strings.Split(s, sep)` for a one-character separator -/
def splitChar (sep : Char) : Str → List Str
  | [] => [[]]
  | c :: cs =>
    match splitChar sep cs with
    | [] => [[]]          -- unreachable: the result is never empty
    | p :: ps => if c = sep then [] :: p :: ps else (c :: p) :: ps

/-- ASCII white space as trimmed by `strings.TrimSpace` (the generator stays in ASCII) -/
def isSp (c : Char) : Bool := c = ' ' || c = '\t' || c = '\n' || c = '\r' || c.toNat = 11 || c.toNat = 12

def trimSpace (s : Str) : Str := ((s.dropWhile isSp).reverse.dropWhile isSp).reverse

/-- `strings.TrimSpace(strings.Split(encoding, ";")[0])` for every element of `strings.Split(a, ",")` -/
def tokens (a : Str) : List Str :=
  (splitChar ',' a).map fun e => trimSpace ((splitChar ';' e).headD [])

/-- the loop body: `if p2 := prefs[encoding]; p2 > pref { pref = p2; best = encoding }` -/
def pick (acc : Nat × Str) (e : Str) : Nat × Str := if pref e > acc.1 then (pref e, e) else acc

def choose (ts : List Str) : Str := (ts.foldl pick (0, [])).2

def selectEncoding (a : Str) : Str := choose (tokens a)

/-! ### `doRequest` -/

inductive Outcome where
  /-- a response arrived with this status code -/
  | status (code : Nat)
  /-- `cli.cli.Do` returned an error; `temporary` = `httperror.Temporary(err)` -/
  | neterr (temporary : Bool)
  deriving Repr, DecidableEq

/-- `statusIsTemporary` in internal/httperror/response.go -/
def statusIsTemporary (c : Nat) : Bool := c = 504 || c = 502 || c = 503 || c = 507 || c = 500

inductive Final where
  /-- `break loop` with a response below 300 from this server -/
  | response (code : Nat) (server : Nat)
  | httpError (code : Nat)
  | netError
  /-- the server list was empty: `return nil, nil` -/
  | nothing
  deriving Repr, DecidableEq

structure Attempt where
  server : Nat
  /-- the `encodings` argument of `buildRequest` (= Accept-Encoding header, none if empty) -/
  accept : Str
  /-- Content-Encoding chosen by `CompressRequest` (`[]` = body sent as is, no header) -/
  enc : Str
  /-- plain bytes offered as request body: what `bodyFile.GetReader()` hands out -/
  offered : Bytes
  deriving Repr, DecidableEq

/-- `fileProducer.GetReader`: `Seek(0, io.SeekStart)`, then the file itself.  `pos` is wherever a
    previous attempt left the file pointer. -/
def getReader (file : Bytes) (_pos : Nat) : Bytes := file.drop 0

inductive PassRes where
  | final (f : Final)
  /-- `encodings = ""; goto loop` -/
  | restart
  deriving Repr, DecidableEq

/-- one run of `for i, base := range bases` from the server at the head of the list.
    A missing script entry counts as `status 200`.  Returns the attempts made, how the run ended,
    and the unconsumed script. -/
def pass (file : Bytes) (encs : Str) : List Nat → List Outcome → List Attempt × PassRes × List Outcome
  | [], sc => ([], .final .nothing, sc)
  | b :: rest, sc =>
    let a : Attempt := ⟨b, encs, selectEncoding encs, getReader file 0⟩
    match sc.headD (.status 200) with
    | .status c =>
      if c < 300 then ([a], .final (.response c b), sc.tail)
      else if c = 406 ∧ encs ≠ [] then ([a], .restart, sc.tail)
      else if statusIsTemporary c = true ∧ rest ≠ [] then
        let r := pass file encs rest sc.tail
        (a :: r.1, r.2.1, r.2.2)
      else ([a], .final (.httpError c), sc.tail)
    | .neterr t =>
      if t = true ∧ rest ≠ [] then
        let r := pass file encs rest sc.tail
        (a :: r.1, r.2.1, r.2.2)
      else ([a], .final .netError, sc.tail)

/-- the repetition of the server list: `for len(repeated) < minAttempts { repeated = append(repeated, bases...) }` -/
def repeatTo (bases : List Nat) (min : Nat) : Nat → List Nat → List Nat
  | 0, acc => acc
  | fuel + 1, acc => if acc.length < min then repeatTo bases min fuel (acc ++ bases) else acc

/-- `none` = the Go loop does not terminate (empty list, positive `retries`) -/
def expand (bases : List Nat) (retries : Int) : Option (List Nat) :=
  if (bases.length : Int) < retries then
    if bases = [] then none else some (repeatTo bases retries.toNat retries.toNat [])
  else some bases

def doRequest (file : Bytes) (encs : Str) (bases : List Nat) (retries : Int) (script : List Outcome) :
    Res (List Attempt × Final) :=
  match expand bases retries with
  | none => .diverge
  | some bs =>
    let r1 := pass file encs bs script
    match r1.2.1 with
    | .final f => .ok (r1.1, f)
    | .restart =>
      let r2 := pass file [] bs r1.2.2
      match r2.2.1 with
      | .final f => .ok (r1.1 ++ r2.1, f)
      | .restart => .panic "unreachable: second 406 restart"

end Relic.Transport

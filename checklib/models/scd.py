"""scdaemon / assuan token model (harness/scd; first op token SCD): glue for C14, C07, C11, C15.

The ops run as a further correspondence of each property under the pseudo-properties C14SCD, C07SCD, C11SCD, C15SCD
(`second`, via composite.second).  Op kinds: seq (sequential history against the honest fake scdaemon), conc (concurrent
jobs on one token), hostile (scripted daemon output), csexp, esc."""
import hashlib, os, re, subprocess
import runner

TOKENS = ["SCD"]
RULE = ("SCD ops: the REAL scdtoken.Open / GetKey / SignContext / ListKeys / Ping / Close (token/scdtoken over lib/assuan) in-process against "
        "a fake scdaemon on a unix socket: (seq) generated histories against an honest daemon that makes real RSA PKCS#1 signatures with fixed "
        "test keys over the digest stored by the last SETDATA: results AND the daemon's transaction log compared with the model line by line; "
        "every returned signature is VERIFIED (crypto/rsa) to find which key and which (hash, digest) it covers; (conc) k goroutines signing "
        "different digests with 1-3 keys on ONE token, mixed with GetKey/Ping/ListKeys, the daemon sleeping between storing SETDATA and "
        "answering it: each signature must verify over the caller's own digest under the caller's key, the log must be a sequence of whole "
        "per-call blocks; (hostile) a valid transcript with 1-2 answers replaced by over-long lines, bad percent escapes, D lines without OK, "
        "ERR mid-stream, inquiry floods, junk after the terminal line, truncated / deeply nested S-expressions, huge length prefixes, "
        "half-closed connections, a silent daemon (client blocks: detected from the goroutine states, not by a timer); (csexp) parseCsExp "
        "through a verif hook; (esc) net/url PathEscape/PathUnescape on every byte value; (ftok) the REAL filetoken.Open + GetKey on 28 kinds of "
        "key file (empty, junk, DER, PEM plain/encrypted/without key block, PGP armored/binary/public-only/encrypted/EdDSA, PKCS#12 …) with a nil "
        "or scripted PasswordGetter: outcome class, panic site and number of GetPasswd calls compared with Relic.FileToken.  T-gen: tools/extractscd re-extracts the lock spans "
        "of scdKey.Sign, the scdToken methods and Conn.Transact and the transaction list of ScdKey.Sign into Relic.Generated.ScdLocks.")
TRUSTED = ["harness/scd: fake scdaemon (honest mode = the protocol as Relic.Assuan.honest defines it; crypto/rsa for signatures), op runner, "
           "canonicalisation of errors by message text, goroutine-state based detection of a blocked client",
           "tools/extractscd (go/ast -> Lean: lexical lock pairing, callee text, Transact call list)",
           "Relic.ScdToken.Sched: granularity (one Conn.Transact = one atomic step; justified by assuan_transact_atomic_generated)"]
ASSUMPTIONS = ["scdaemon keeps ONE stored SETDATA value per connection and PKSIGN signs it with the key named (scdaemon's documented command semantics; "
               "the fake daemon implements exactly that)",
               "a sync.Mutex critical section is atomic with respect to other holders of the same mutex (Go runtime)",
               "a daemon that ends its output does so by shutting down its sending side; the client's writes still succeed (the scripted daemon "
               "keeps reading): outcomes then do not depend on scheduling",
               "net/url PathEscape / PathUnescape are modelled from the Go 1.23 source (Relic.Assuan.pathEscape / pathUnescape); the esc ops tie the model to the linked stdlib"]
UNPROVED = {"C07": [],   # scd_getkey_total is a theorem since e11c4f9 (scd_getkey_total_orig_full: refuted, about the code before it)
            "C11": ["assuan_transact_returns_full (refuted: assuan_read_blocks_on_silent_daemon, finding F-SCD-3)"],
            # scd_client_no_panic / file_getkey_total are theorems since e11c4f9 / 3202f4d (the *_orig_full statements are refuted, about the code before)
            "C14": [], "C15": ["scd_sign_context_honours_cancel_full (refuted: SignContext ignores its context; finding F-SCD-3)"]}

NIL_SITE = "panic:scdtoken.GetKey:key.KeyId_(nil_key)"
FTOK_SITES = {"certloader.ParseAnyPrivateKey:blob[0]": "an empty key file",
              "certloader.parsePgpPrivateKey:prompt.GetPasswd_(nil_prompt)": "an encrypted PGP private key and no PasswordGetter (the server passes nil)",
              "certloader.ParsePKCS12:prompt.GetPasswd_(nil_prompt)": "ispkcs12 and no PasswordGetter",
              "filetoken.GetKey:privateKey.(crypto.Signer)": "a PGP private key whose Go type is not a crypto.Signer (EdDSA, DSA, ElGamal)"}
GEN = os.path.join(runner.LEAN, "Relic", "Generated", "ScdLocks.lean")


def generate(ctx):
    """T-gen: re-extract lock spans and the transaction list from the current working tree (atomic replace; several checks may run at once)"""
    tool = runner.build_tool("extractscd")
    tmp = GEN + ".tmp." + str(os.getpid())
    r = runner.sh([tool, runner.REPO, tmp])
    if r.returncode != 0 or not os.path.exists(tmp):
        if os.path.exists(tmp):
            os.remove(tmp)
        raise runner.Broken("extractscd failed (scdKey.Sign / scdToken methods / Conn.Transact / ScdKey.Sign not found?)", r.stdout[-2000:])
    new = open(tmp).read()
    old = open(GEN).read() if os.path.exists(GEN) else None
    if new != old:
        os.replace(tmp, GEN)
    else:
        os.remove(tmp)
    ctx.setdefault("scd_gen", {"generated_sha256": hashlib.sha256(new.encode()).hexdigest()})
    return ["scd_sign_holds_token_lock_generated"]


def _field(f, k):
    for x in f:
        if x.startswith(k + "="):
            return x[len(k) + 1:]
    return None


def _parse(line):
    """'<open> R=… L=… [B=…]' -> (open, [results], [log lines], [blocks] or None)"""
    f = line.split(" ")
    r = _field(f, "R")
    l = _field(f, "L")
    b = _field(f, "B")
    res = [] if r in (None, "-") else r.split(";")
    log = [] if l in (None, "-") else l.split(",")
    blocks = None
    if b is not None:
        blocks = [([] if x == "-" else x.split(",")) for x in b.split("/")]
    return f[0], res, log, blocks


def _steps(op):
    f = op.split(" ")
    kind = f[1]
    key = "J" if kind == "conc" else "P"
    p = _field(f, key)
    return [] if p in (None, "-") else p.split(";")


def _segment(log, blocks):
    """can `log` be cut into the given blocks (each used once, in any order)?"""
    blocks = [tuple(b) for b in blocks]
    used = [False] * len(blocks)
    empties = sum(1 for b in blocks if not b)

    def go(p, left):
        if p == len(log):
            return left == 0
        tried = set()
        for i, b in enumerate(blocks):
            if used[i] or not b or b in tried:
                continue
            if tuple(log[p:p + len(b)]) == b:
                tried.add(b)
                used[i] = True
                if go(p + len(b), left - 1):
                    return True
                used[i] = False
        return False
    return go(0, len(blocks) - empties)


def equiv(op, il, mres):
    f = op.split(" ")
    if len(f) < 2 or f[1] != "conc":
        return il == mres
    io, ir, ilog, _ = _parse(il)
    mo, mr, mlog, blocks = _parse(mres)
    if io != mo or ir != mr:
        return False
    if blocks is None:
        return ilog == mlog
    if ilog[:len(mlog)] != mlog:
        return False
    return _segment(ilog[len(mlog):], blocks)


def weight(op):
    return max(1, len(_steps(op)))


def nontrivial(op, mres, tag):
    f = op.split(" ")
    if len(f) < 2:
        return False
    k = f[1]
    if k == "ftok":
        return not mres.startswith("ok prompts=0")
    if k == "conc":
        return sum(1 for s in _steps(op) if s.startswith("s.")) >= 2
    if k == "seq":
        return "ok:sig." in mres or "panic:" in mres or mres.startswith("err:")
    if k == "hostile":
        return "err:" in mres or "panic:" in mres or "block" in mres or "raw." in mres
    return True


def branch(op, mres, tag):
    f = op.split(" ")
    k = f[1] if len(f) > 1 else "?"
    if k in ("csexp", "esc", "ftok"):
        return k + " " + mres.split(" ")[0]
    o, res, _, _ = _parse(mres)
    kinds = sorted({re.sub(r"[:.].*", "", r) + (":" + r.split(":")[1].split(".")[0] if r.startswith("err:") else "") for r in res})
    return "%s %s %s" % (k, o, ",".join(kinds)[:60])


def _slot_of_pub(r):
    m = re.match(r"ok:nee0(\d)e65537$", r)
    return m.group(1) if m else None


def predicate(prop, op, il, mres, tag):
    """the properties themselves, evaluated on what the implementation did (independent of the model's answer)"""
    f = op.split(" ")
    if len(f) < 2:
        return None
    kind = f[1]
    T = "Relic.Props.%s." % prop
    if kind == "ftok":
        # C15: the passphrase loops end with the getter (at most one GetPasswd per answer, + the one(s) that return "")
        m = re.search(r" prompts=(\d+)$", il)
        g = _field(f, "G") or "none"
        answers = 0 if g in ("none", "-") else len(g.split("."))
        if m and int(m.group(1)) > answers + 2:
            return ("Relic.Props.C11.file_key_prompts_bounded", "at most %d GetPasswd calls" % (answers + 2), il[:200])
        if m and g == "none" and int(m.group(1)) != 0:
            return ("Relic.Props.C11.file_no_getter_no_prompt", "prompts=0", il[:200])
        if il.startswith("panic:") or il.startswith("panic ") or il.startswith("crash"):
            site = il.split(" ")[0][len("panic:"):]
            return ("Relic.Props.C11.file_getkey_total", "an error (\"… key file …\")",
                    "filetoken.GetKey panics on %s (F-FILE-1..4, fixed by 3202f4d: the fix is missing?): %s" % (FTOK_SITES.get(site, "?"), il[:200]))
        return None
    if kind in ("csexp", "esc"):
        if il.startswith("panic") or il.startswith("crash") or il.startswith("diverge"):
            return ("Relic.Props.C11.csexp_parse_total" if kind == "csexp" else "Relic.Props.C11.transact_escape_roundtrip", "ok / err", il[:300])
        if kind == "esc" and not il.endswith(" rt=1"):   # url.PathUnescape(url.PathEscape(b)) == b, evaluated by the real net/url
            return ("Relic.Props.C11.transact_escape_roundtrip", "rt=1", il[:300])
        return None
    if il.startswith("crash") or il.startswith("not-run") or il.startswith("panic "):
        return ("Relic.Props.C11.assuan_read_no_panic", "a result or an error", "the harness process died or panicked outside a step: " + il[:300])
    io, ires, ilog, _ = _parse(il)
    steps = _steps(op)
    def anomalies():
        # --- no panic (C11; the nil dereference of GetKey is the listed finding F-SCD-1)
        for r in [io] + ires:
            if r.startswith("panic:"):
                if r == NIL_SITE:
                    thm = {"C07": "Relic.Props.C07.scd_getkey_total"}.get(prop, "Relic.Props.C11.scd_client_no_panic")
                    return (thm, "err:notfound (\"key … not found in token …\")", "scdToken.GetKey dereferences a nil *ScdKey when no key info matches the configured id "
                            "(F-SCD-1, fixed by e11c4f9: the fix is missing): " + r)
                return ("Relic.Props.C11.assuan_read_no_panic", "a result or an error", r)
        # --- no hang (C11 / C15; a silent daemon is the listed finding F-SCD-3)
        if io == "block" or "block" in ires:
            return ("Relic.Props.C11.assuan_transact_returns_full" if prop != "C15" else "Relic.Props.C15.scd_sign_context_honours_cancel_full",
                    "an error once the daemon stops answering / the caller gives up",
                    "the client blocks for ever in Conn.readLine (no read deadline; SignContext ignores its context) while holding the token mutex")
        return None
    if kind == "hostile":
        # C15: PinIncorrectError only for a response that says "Bad PIN"; every other failure keeps its own classification
        script = _field(f, "R") or ""
        if "42616420 50494e".replace(" ", "") not in script and ("err:badpin" in [io] + ires):
            return ("Relic.Props.C15.scd_bad_pin_classified", "the error of the daemon, wrapped (err:sign:… / err:pin:…)",
                    "reported as an incorrect PIN although no answer of the daemon mentions \"Bad PIN\": " + il[:200])
        return anomalies()
    # --- honest daemon: every signature covers the caller's own digest under the caller's own key (C14 / C07)
    handles = []
    if kind == "conc":
        g = _field(f, "G")
        names = [] if g in (None, "-", "") else g.split(",")
        handles = [n[1:] for n in names]          # key names are k<slot>
        jobs = steps
        if io == "ok" and len(ires) != len(jobs):
            return (T + "scd_sign_pair_atomic", "%d results" % len(jobs), "%d results" % len(ires))
        pairs = zip(jobs, ires)
    else:
        pairs = zip(steps, ires)
    for st, r in pairs:
        p = st.split(".")
        if p[0] == "g" and kind == "seq":
            if r.startswith("ok:"):
                handles.append(_slot_of_pub(r))
                # C07: the key returned is the one configured (by id; the FIRST key of the token when no id is configured)
                ids = dict(x.split(":") for x in (_field(f, "K") or "").split(",") if ":" in x)
                slots = [x for x in (_field(f, "D") or "///").split("/")[3].split(",") if x and x[-1] != "x"]
                cid = ids.get(p[1])
                got = _slot_of_pub(r)
                if cid is not None and got is not None:
                    want_slot = slots[0][0] if cid == "-" and slots else (bytes.fromhex(cid).decode("latin1")[8:] if cid != "-" else None)
                    if want_slot != got:
                        return ("Relic.Props.C07.scd_getkey_selects_configured", "the key with the configured id (slot %s)" % want_slot,
                                "GetKey(%s) returned the public key of slot %s" % (p[1], got))
            continue
        if p[0] != "s" or not r.startswith("ok:"):
            continue
        h = int(p[1])
        own_slot = handles[h] if h < len(handles) else None
        want = "ok:sig.%s.%s.%s" % (own_slot, p[2], p[3])
        if r != want:
            thm = "Relic.Props.C07.scd_signature_matches_key" if prop == "C07" else "Relic.Props.C14.scd_sign_pair_atomic"
            return (thm, want + " (the caller's own key, hash and digest)",
                    "step %s returned %s: the signature does not verify over this call's digest under this call's key" % (st, r[:200]))
    # --- login (C15): success only if some attempt succeeded; attempts bounded by the passwords supplied
    if kind == "seq" and prop == "C15":
        d = (_field(f, "D") or "").split("/")
        c = (_field(f, "C") or "").split("/")
        if len(d) == 4 and len(c) == 3:
            dpin = d[1]
            checkpins = sum(1 for l in ilog if l.startswith("434845434b50494e"))
            if c[1] != "nil":
                if io == "ok" and c[1] != dpin:
                    return ("Relic.Props.C15.scd_login_success_needs_right_pin", "err:badpin", "Open succeeded with a wrong configured PIN")
                if checkpins > 1:
                    return ("Relic.Props.C15.scd_login_single_attempt", "at most one CHECKPIN with a configured PIN", "%d CHECKPIN transactions" % checkpins)
            else:
                answers = [] if c[2] in ("none", "-") else c[2].split(".")
                if io == "ok" and dpin not in answers:
                    return ("Relic.Props.C15.scd_login_success_needs_right_pin", "an error", "Open succeeded although the right PIN was never supplied")
                if checkpins > len(answers):
                    return ("Relic.Props.C15.scd_prompt_attempts_bounded", "at most %d CHECKPIN" % len(answers), "%d CHECKPIN transactions" % checkpins)
                if io == "ok" and checkpins != answers.index(dpin) + 1:
                    return ("Relic.Props.C15.scd_prompt_attempts_bounded", "%d CHECKPIN" % (answers.index(dpin) + 1), "%d CHECKPIN transactions" % checkpins)
    return anomalies()   # last: an op that shows a listed anomaly is still checked for everything above


def matches_known(k, op, il, mres, tag):
    """F-SCD-3 (client blocks on a silent daemon): model and implementation agree on the whole line, it contains `block`, and nothing in it
    panics.  (F-SCD-1 and F-FILE-1..4 are fixed: their panics are violations.)"""
    site = k.get("identity", {}).get("site", "")
    if site != "assuan.Conn.readLine:no-deadline":
        return False
    f = op.split(" ")
    if len(f) < 2 or f[1] != "hostile":
        return False
    if not equiv(op, il, mres):
        return False
    io, ires, _, _ = _parse(il)
    anomalies = [r for r in [io] + ires if r.startswith("panic:") or r == "block"]
    return bool(anomalies) and all(a == "block" for a in anomalies)


def second(ctx, prop, cov, findings, known):
    import composite
    return composite.second(ctx, prop, prop + "SCD", ["scd"], cov, findings, known,
                            "Relic.Props.%s (fragment %s_Scd*.lean / %s_Assuan.lean: models Relic.Model.Assuan, Relic.Model.ScdToken vs "
                            "token/scdtoken + lib/assuan in-process against a fake scdaemon)" % (prop, prop, prop), parallel=8)

"""File-type detection and signer dispatch (lib/magic, signers.ByName/ByMagic/ByFileName/ByFile, the server's sigtype lookup,
verifyOne): canonicalisation, the per-property predicates evaluated on the implementation's output, known-finding identities,
and the T-gen step (tables re-extracted from the Go source into lean/Relic/Generated/Magic.lean)."""
import io, os, sys, zlib, lzma, zipfile

sys.path.insert(0, os.path.dirname(os.path.dirname(os.path.abspath(__file__))))
import runner

TOKENS = ["MAGIC"]
BUF = 65540   # Detect's buffer (bufio.NewReaderSize(r, 0x10000+4))


def _headlen(data_head, n):
    """how much of a file the op line carries: 65540 bytes of a file that starts with MZ, 4096 of any other"""
    return min(n, BUF if data_head[:2] == b"MZ" else 4096)
RULE = ("MAGIC (detection and dispatch): every file of functest/packages and every relic-signed file of corpus/C11/bases under its own "
        "name, under a name that says nothing and under PowerShell/dmg names; files built by the PE, CAB, DEB, Mach-O (both byte orders), "
        "PowerShell and APK builders of the other format packages; PE images with e_lfanew 64..65664 (65535 = the largest the 16-bit probe follows); "
        "application manifests with the root element 0..5000 bytes into the file; PGP armour and binary packets by first byte; "
        "SignedData DER with the OIDs moved through the end of the 256-byte window; ZIP archives written member list by member list "
        "(every marker name, the spellings path.Clean folds into it and those it does not, every ordered pair of markers, random "
        "lists, empty / prefixed / truncated / damaged archives, an archive larger than the buffer); gzip and xz wrappers (valid, "
        "truncated, bad method, over-long name field) under .dmg/.ps1 names; for each of the 21 patterns: exact, every truncation, "
        "every single byte changed, moved by one, for the window patterns the end position 255/256/257; every ordered pair of "
        "patterns in one file; 'ustar' with file lengths 256..263; the MZ probe with header lengths 2..0x44 and e_lfanew values "
        "around 0x3c, 4092 (the boundary of the original reader) and 0xfffc..0xffff with file lengths e_lfanew+3/4/5; random byte strings of the boundary lengths (up to 65541) with patterns "
        "planted; ByName over every name/alias and 8 near-misses each, ByFileName/filepath.Ext over 45 hand-made and 60 random paths, "
        "ByMagic over -2..24, path.Clean over 90 names, POST /sign on the real handler for every such sigtype (which module's Sign is "
        "entered: recorded by call-through wrappers), the remote client's query replayed on it, verifyOne through a hook, "
        "magic.Decompress against zlib/lzma. Detect is run on a counting bytes.Reader, on readers handing out 1/7/255/4095 bytes at "
        "a time (also 65539) and on one that ends in an error. Non-trivial = distinct op whose content is non-empty or whose look-up key is "
        "non-empty.")
TRUSTED = ["Relic.Model.Magic is hand-written from lib/magic/magic.go, signers/signers.go, the two signcmd.go, server/view_sign.go, "
           "cmdline/verify/verify.go; tied by differential execution and by the regenerated tables (Relic.Generated.Magic)",
           "archive/zip's central-directory reader is a parameter: the member list on the op line is what zip.NewReader reports "
           "(recomputed by the implementation runner; compared with python's zipfile where that opens the file)",
           "bufio.Reader.Peek as described in Relic.Model.Magic (tied by the chunked / failing readers of the detect ops)",
           "gzip / xz decoders (compared with zlib / lzma on the decomp ops only)",
           "harness/magic call-through wrappers around Signer.Sign/Verify/VerifyStream record which module a front end enters"]
ASSUMPTIONS = ["the stream handed to Detect delivers a fixed byte string and then a persistent end (EOF or error)",
               "registration order of the signer modules = Go package initialisation order of the linked binary (read back from the "
               "running binary by the `table` op; the dispatch theorems are also proved for every permutation of the table)",
               "file names handed to ByFile are base names of existing regular files (no directory part)"]

PS_EXTS = (".ps1", ".ps1xml", ".psc1", ".psd1", ".psm1", ".cdxml", ".mof")
NOSIGN = ("mach-o-fat", "ipa", "pkcs7")


def _b(h):
    return b"" if h == "-" else bytes.fromhex(h)


def _kv(tag):
    return dict(p.split("=", 1) for p in tag.split(" ") if "=" in p)


def _fields(op):
    return op.split(" ")


def _exp(f):
    for x in f[2:]:
        if x.startswith("exp="):
            return x[4:]
    return None


def _content_at(f, i):
    """(src, head bytes, len, zn)"""
    return f[i], _b(f[i + 1]), int(f[i + 2]), f[i + 3]


def _content_index(f):
    return {"detect": 2, "dc": 2, "byfile": 4, "remote": 4, "verify": 3}.get(f[1])


def _data(src, head):
    """the whole file, or None when it cannot be rebuilt here"""
    try:
        if src == "=":
            return head
        if src.startswith("pad:"):
            _, n, bb = src.split(":")
            return head + bytes.fromhex(bb) * int(n)
        if src.startswith("tail:"):
            return head + bytes.fromhex(src[5:])
        if src.startswith("fx:"):
            return open(os.path.join(runner.REPO, "functest", "packages", src[3:]), "rb").read()
        if src.startswith("cx:"):
            return open(os.path.join(runner.VERIF, "corpus", "C11", "bases", os.path.basename(src[3:])), "rb").read()
    except OSError:
        return None
    return None


# ---------------------------------------------------------------- decomp reference

def _ref_decomp(ct, data):
    if ct == "codec gzip":
        d = zlib.decompressobj(31)
    else:
        d = lzma.LZMADecompressor(format=lzma.FORMAT_XZ)
    try:
        out = d.decompress(data, 64)
    except (zlib.error, lzma.LZMAError, EOFError):
        return "err"
    if not out and not d.eof:
        return "short"  # the input ends before the decoder has produced anything (possibly inside the header)
    return "ok " + (out[:64].hex() or "-")


def canon_model(op, mres):
    f = _fields(op)
    if f[1] == "decomp" and mres.startswith("codec"):
        return mres + " " + _ref_decomp(mres, _b(f[3]))
    return mres


def equiv(op, il, mres):
    if il == mres:
        return True
    f = _fields(op)
    if f[1] == "table" and il.startswith("ok ") and mres.startswith("ok "):
        # the registration order is the order of Go package initialisation in THIS binary (it follows the import graph,
        # not relic's source text, and differs between the harness and the relic binary): compared as a set; that no
        # dispatch function depends on the order is Relic.Props.C01.dispatch_order_independent
        return sorted(il[3:].split(";")) == sorted(mres[3:].split(";"))
    if f[1] == "decomp" and mres.startswith("codec"):
        ref = mres.split(" ", 2)[2]
        if ref == "short":
            return il.startswith("err") or il == "ok -"
        if ref == "err":
            # the reference decoder refuses the stream: Go refuses the header, or fails while reading
            return il.startswith("err header") or il.startswith("err stream")
        d = _b(f[3])
        if mres.startswith("codec xz") and len(d) > 16 and d[14] == 0x21 and d[16] > 0x1c and il.startswith("err"):
            return True  # LZMA2 dictionary beyond the Go decoder's default limit (64 MiB): refused there, accepted by liblzma
        # reference delivers bytes: Go delivers the same bytes; a checksum error noticed at the end is also acceptable
        return il == ref or (il.startswith("err stream") and ref.startswith("ok"))
    return False


def weight(op):
    return 1


def nontrivial(op, mres, tag):
    f = _fields(op)
    i = _content_index(f)
    if i is not None:
        return len(f) > i + 2 and f[i + 2] != "0"
    return len(f) > 2 and f[2] != "-"


def branch(op, mres, tag):
    f = _fields(op)
    kind = f[1]
    kv = _kv(tag)
    r = mres.split(" ")
    if kind == "detect":
        return "magic-detect:rule%s:%s" % (kv.get("rule", "?"), r[1] if len(r) > 1 else r[0])
    if kind == "dc":
        return "magic-dc:%s" % " ".join(r[1:3])
    if kind in ("byfile", "remote", "verify"):
        return "magic-%s:%s%s" % (kind, " ".join(r[:2])[:28], ":" + kv["via"] if "via" in kv else "")
    if kind == "srv":
        return "magic-srv:" + " ".join(r[1:2])
    return "magic-%s:%s" % (kind, r[0])


# ---------------------------------------------------------------- classes of inputs behind the known findings

def _lfanew(head):
    return int.from_bytes(head[0x3c:0x40], "little") if len(head) >= 0x40 else None


def _class(f):
    """which (if any) of the listed mis-detection classes the op's file and name fall into"""
    i = _content_index(f)
    if i is None or f[1] not in ("byfile", "remote", "verify"):
        return None
    src, head, n, zn = _content_at(f, i)
    name = _b(f[2]).decode("latin1")
    exp = _exp(f)
    ext = os.path.splitext(name)[1]
    w = head[:256]
    asm = b"<assembly" in w or b":assembly" in w
    if exp == "pe-coff" and head[:2] == b"MZ":
        lf = _lfanew(head)
        data = _data(src, head)
        if lf is not None and lf >= 65536 and data is not None and data[lf:lf + 4] == b"PE\0\0":
            return "pe-lfanew-32bit"
    if exp == "ps" and ext in PS_EXTS and asm:
        return "assembly-text-shadows-filename"
    if exp == "mach-o" and head[:4] in (b"\xfe\xed\xfa\xce", b"\xfe\xed\xfa\xcf"):
        return "macho-big-endian"
    if exp == "appmanifest" and not asm:
        data = _data(src, head)
        if data is not None and (b"<assembly" in data or b":assembly" in data):
            return "manifest-root-beyond-window"
    if exp in ("ps", "dmg") and ext not in PS_EXTS + (".dmg",) and ext.lower() in PS_EXTS + (".dmg",):
        return "extension-case"
    return None


def _picked(kind, il):
    """the module a front end picked, from the implementation's line"""
    p = il.split(" ")
    if kind in ("byfile", "remote"):
        if p[0] == "ok" and len(p) > 1:
            return p[1]
        if p[0] == "err" and len(p) > 1 and p[1].startswith("cantsign:"):
            return p[1][9:]
        return None
    if kind == "verify" and p[0] == "ok" and len(p) > 2:
        return p[2]
    return None


def predicate(prop, op, il, mres, tag):
    f = _fields(op)
    kind = f[1]
    head = il.split(" ")[0]
    if head in ("crash", "not-run", "timeout", "abort", "alloc"):
        return ("Relic.Props.C11.detect_total_no_panic (%s)" % kind, mres, "implementation: " + il[:200])
    if head == "panic":
        return ("Relic.Props.C11.detect_total_no_panic (%s)" % kind, mres, "panic in detection / dispatch: " + il[:200])
    if head in ("split", "overread"):
        return ("Relic.Props.C11.detect_prefix_determined", mres,
                "Detect depends on how the reader hands out the bytes, or took more than %d bytes: %s" % (BUF, il[:200]))
    if head in ("bad-table", "harness-error"):
        return ("Relic.Props.C01 (magic op line)", "consistent op line", il[:200])
    i = _content_index(f)
    if i is not None and len(f) > i + 3:
        src, hd, n, zn = _content_at(f, i)
        if len(hd) != _headlen(hd, n):
            return ("Relic.Props.C01 (magic op line)", "head = first min(len, H) bytes", "generator wrote a wrong head/len pair")
        if src == "=" and zn not in ("-", "E"):
            # independent look at the member list
            try:
                zf = zipfile.ZipFile(io.BytesIO(hd))
                names = [(zi.orig_filename.encode("utf-8") if zi.flag_bits & 0x800 else zi.orig_filename.encode("cp437")) for zi in zf.infolist()]
                want = ",".join(("." if not x else x.hex()) for x in names) if names else "0"
                if want != zn:
                    return ("Relic.Props.C01 (magic zn table)", want, "archive/zip and zipfile list different members")
            except Exception:
                pass
    if kind == "detect" and il.startswith("ok "):
        p = il.split(" ")
        if len(p) == 3 and int(p[2]) > BUF:
            return ("Relic.Props.C11.detect_total_no_panic (bytes taken from the reader)", "<= %d" % BUF, il)
    if kind == "remote" and il.startswith("ok ") and " -> " in il:
        left, right = il.split(" -> ", 1)
        if right != "sign " + left.split(" ")[1]:
            return ("Relic.Props.C01.dispatch_standalone_eq_server", "sign " + left.split(" ")[1],
                    "the module the client resolved and the one the server entered differ: " + il)
    if kind == "srv" and il.startswith("ok panic"):
        return ("Relic.Props.C01.server_refuses_what_standalone_refuses", "an error response (the sign commands answer: can't sign files of type)",
                "POST /sign with this sigtype panics in the handler (recovered: 500): " + il)
    exp = _exp(f)
    if exp and prop == "C01" and kind in ("byfile", "remote", "verify"):
        got = _picked(kind, il)
        if got != exp:
            return ("Relic.Props.C01.detect_wf_%s" % exp.replace("-", "_"), "module " + exp,
                    "a well-formed %s file is dispatched to %s (%s); class: %s" % (exp, got, il[:80], _class(f)))
    return None


def matches_known(k, op, il, mres, tag):
    ident = k.get("identity", {})
    site = ident.get("site", "")
    f = _fields(op)
    if not site.startswith("magic:"):
        return False
    if site == "magic:xz-dictionary":
        # the C11 runner's allocation account: an xz header naming a dictionary of exactly the decoder's limit
        i = _content_index(f)
        data = _b(f[i + 1]) if i is not None else (_b(f[3]) if f[1] == "decomp" and len(f) == 4 else b"")
        return f[1] == "decomp" and il.startswith("alloc magic.Decompress") and data[:6] == b"\xfd7zXZ\x00"
    if site == "magic:server-nil-sign":
        return f[1] == "srv" and il == "ok panic serveSign:nil-Sign" and _b(f[2]).decode("latin1") in NOSIGN and equiv(op, il, mres)
    cls = _class(f)
    return cls is not None and "magic:" + cls == site and equiv(op, il, mres) and \
        any(il.startswith(o) for o in ident.get("observed", []))


# ---------------------------------------------------------------- T-gen

def generate(ctx):
    """tables of lib/magic/magic.go, the signer registrations, psExtMap and the dispatch lines of the front ends ->
    lean/Relic/Generated/Magic.lean (Relic.Props.C01.generated_* compare them with the model's tables)"""
    tool = runner.build_tool("extractmagic")
    out = os.path.join(runner.LEAN, "Relic", "Generated", "Magic.lean")
    if os.path.exists(out):
        os.remove(out)
    r = runner.sh([tool, runner.REPO, out])
    if r.returncode != 0:
        raise runner.Broken("extractmagic failed on lib/magic/magic.go / signers", r.stdout[-2000:])
    return ["Relic.Props.C01.generated_rules_eq (regenerated Relic.Generated.Magic)",
            "Relic.Props.C01.generated_zip_eq", "Relic.Props.C01.generated_signers_eq", "Relic.Props.C01.generated_frontends_ok"]

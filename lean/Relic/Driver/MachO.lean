/- line-protocol handlers for the Mach-O / code-directory model (used by C01, C02, C03, C05, C08, C11) -/
import Relic.Model.MachO
namespace Relic.Driver.MachO
open Relic Relic.CodeDir Relic.MachO

def showRes {α} (r : Res α) (f : α → String) : String :=
  match r with
  | .ok a => f a
  | .err e => s!"err {e}"
  | .panic p => s!"panic {p}"
  | .diverge => "diverge"

def segStr : Seg → String
  | .lit b => s!"L:{toHex b}"
  | .hash s => s!"H:{toHex s}"
  | .zero => "Z"

def segsStr (l : List Seg) : String := if l.isEmpty then "-" else ";".intercalate (l.map segStr)

/-- optional bytes: `n` = nil, `-` = empty, hex otherwise -/
def optHex (s : String) : Option (Option Bytes) :=
  if s = "n" then some none else (fromHex s).map some

def optList (s : String) : Option (List (Option Bytes)) :=
  if s = "." then some [] else (s.splitOn ",").mapM optHex

def finStr (r : Res Unit) : String :=
  match r with
  | .ok _ => "ok"
  | .err e => s!"err_{e}"
  | .panic p => s!"panic_{p}"
  | .diverge => "diverge"

def checksStr (cs : List Check) : String :=
  if cs.isEmpty then "-" else ",".intercalate (cs.map fun c => s!"{toHex c.stream}:{toHex c.expected}")

def hdrStr (h : Header) : String :=
  s!"v={h.version} fl={h.flags} ho={h.hashOffset} io={h.identOffset} ns={h.nSpecial} nc={h.nCode} cl={h.codeLimit} hs={h.hashSize} ht={h.hashType} ps={h.pageShift} to={h.teamOffset} cl64={h.codeLimit64} eb={h.execBase} el={h.execLimit} ef={h.execFlags}"

def patchesStr (ps : List Binpatch.Patch) : String :=
  ",".intercalate (ps.map fun p => s!"{p.off}:{p.old}:{toHex p.blob}")

def markersStr (m : Markers) : String :=
  s!"be={if m.be then 1 else 0} magic={m.magic} ss={m.sigStart} sl={m.sigLen} lc={m.loadCsStart} le={m.lePos} leo={m.leOffset} lef={m.leFilesz} next={m.nextLc} fsh={m.firstSh} cs={m.codeSize} cons={m.consumed}"

def mkSignParams (hash flags : Nat) (ident : Bytes) (req ent entDER : Option Bytes) : SignParams :=
  { hash, flags, ident, team := [], execBase := 0, execLimit := 0, execFlags := 0, requirements := req, entitlement := ent,
    entitlementDER := entDER, infoPlist := none, resources := none, repSpecific := none }

def itemsStr (hs : Nat) (l : List Item) : String :=
  if l.isEmpty then "-" else ",".intercalate (l.map fun i => s!"{i.itype}:{toHex (render (fun _ => []) hs i.data)}")

/-- the harness' own locator (first LC_CODE_SIGNATURE found by a plain walk; transcription of `locateLC` in
    harness/macho/macho.go): used only to cut the output into comparable pieces -/
def lcWalk (be : Bool) (g : Bytes) : Nat → Nat → Option (Nat × Nat)
  | 0, _ => none
  | n + 1, pos =>
    if pos + 8 > g.length then none else
    let siz := rd32 be g (pos + 4)
    if rd32 be g pos = 0x1d ∧ pos + 16 ≤ g.length then some (rd32 be g (pos + 8), rd32 be g (pos + 12))
    else if siz < 8 then none else lcWalk be g n (pos + siz)

def simpleLocate (g : Bytes) : Option (Nat × Nat) :=
  if g.length < 32 then none else
  let be := g.head? = some 0xfe
  lcWalk be g (rd32 be g 16) (if rd32 be g 0 = 0xfeedfacf then 32 else 28)

/-- what the signed file looks like with an all-zero signature buffer, and whether the verifier's view of it agrees
    with what was hashed -/
def signLine (f : Bytes) (so : SignOut) : String :=
  let po := so.plan.po
  match signedFile f po [] with
  | .ok g =>
    let loc := match locate g with
      | .ok (o, l) => if o = po.sigStart ∧ l = po.sigBufLen then "located" else s!"located-other"
      | .err e => s!"locate-err-{e}"
      | .panic p => s!"locate-panic-{p}"
      | .diverge => "diverge"
    let same := if pages 4096 (g.take so.signed.pages.limit) = pages 4096 so.plan.stream then "pages-same" else "pages-differ"
    let verdict := if loc = "located" ∧ same = "pages-same" then "verify=ok" else "verify=fail"
    let tag := s!"#{loc} {same} opaque={if so.cmsOpaque then 1 else 0} pad={po.padding} cs={so.plan.m.codeSize} old={so.plan.m.sigLen} flen={f.length} le={so.plan.m.lePos}"
    if simpleLocate g ≠ some (po.sigStart, po.sigBufLen) ∨ g.length < po.sigStart + po.sigBufLen then s!"err noloc {tag}" else
    s!"ok ss={po.sigStart} sbl={po.sigBufLen} n={so.signed.pages.count} lim={so.signed.pages.limit} cd={segsStr so.signed.cd} items={itemsStr 0 so.signed.hashed} pre={toHex (g.take po.sigStart)} post={toHex (g.drop (po.sigStart + po.sigBufLen))} {verdict} {tag}"
  | .err _ => "err apply"
  | .panic p => s!"panic {p}"
  | .diverge => "diverge"

def handle : List String → String
  | ["pages", fhex, single] =>
    match fromHex fhex with
    | none => "bad-op"
    | some f =>
      let ph := hashPages f (single = "1")
      s!"ok {ph.count} {ph.limit} slots={segsStr ph.slots}"
  | ["cdir", hash, flags, ident, team, eb, el, ef, specials, slots, count, limit, single] =>
    match hash.toNat?, flags.toNat?, fromHex ident, fromHex team, eb.toNat?, el.toNat?, ef.toNat?, optList specials, fromHex slots,
          count.toNat?, limit.toNat? with
    | some hash, some flags, some ident, some team, some eb, some el, some ef, some specials, some slots, some count, some limit =>
      let p : Params := { flags, ident, team, execBase := eb, execLimit := el, execFlags := ef, specials,
                          codeSlots := if slots.isEmpty then [] else [.lit slots], codeSlotCount := count, hash, codeLimit := limit,
                          single := single = "1" }
      showRes (newCodeDirectory p) fun cd => s!"ok cd={segsStr cd}"
    | _, _, _, _, _, _, _, _, _, _, _ => "bad-op"
  | ["cdparse", bhex, xhex] =>
    match fromHex bhex, fromHex xhex with
    | some b, some x =>
      showRes (parseCodeDirectory b x) fun d =>
        s!"ok {hdrStr d.hdr} ident={toHex d.ident} team={toHex d.team} code={toHex d.code.flatten} special={toHex d.special.flatten}"
    | _, _ => "bad-op"
  | ["vpages", cdhex, fhex] =>
    match fromHex cdhex, fromHex fhex with
    | some cd, some f =>
      match parseCodeDirectory cd [] with
      | .ok d =>
        let vp := verifyPages d f
        s!"ok plan={checksStr vp.checks} final={finStr vp.final}"
      | .err e => s!"err parse-{e}"
      | .panic p => s!"panic {p}"
      | .diverge => "diverge"
    | _, _ => "bad-op"
  | ["scan", fhex] =>
    match fromHex fhex with
    | none => "bad-op"
    | some f => showRes (scan f) fun m => s!"ok {markersStr m}"
  | ["patch", fhex, size] =>
    match fromHex fhex, size.toInt? with
    | some f, some size =>
      showRes (scan f) fun m =>
        showRes (patchSignature m (f.take m.consumed) size) fun po =>
          let out := match signedFile f po [] with
            | .ok g => toHex g
            | _ => "apply-err"
          s!"ok hdr={toHex po.newHeader} ss={po.sigStart} pad={po.padding} sbl={po.sigBufLen} patches={patchesStr (wirePatches po (zeros po.sigBufLen))} out={out}"
    | _, _ => "bad-op"
  | ["sign", fhex, hash, flags, ident, req, ent, entDER, _key] =>
    match fromHex fhex, hash.toNat?, flags.toNat?, fromHex ident, optHex req, optHex ent, optHex entDER with
    | some f, some hash, some flags, some ident, some req, some ent, some entDER =>
      showRes (sign f (mkSignParams hash flags ident req ent entDER)) (signLine f)
    | _, _, _, _, _, _, _ => "bad-op"
  | ["signguard", fhex, hash, entlen] =>
    -- the size test of `machos.Sign` (fix F-MACHO-3) around 10^7: an entitlement of `entlen` bytes (supplied by the harness;
    -- only its length enters `plan`) and the 12-byte empty requirement set.  The verdict is the one the theorems give for a
    -- regular image: `macho_sign_then_locate` below 10^7 (`regular_small`), `large_signature_refused` above.
    match fromHex fhex, hash.toNat?, entlen.toNat? with
    | some f, some hash, some n =>
      showRes (plan f (hashSizeOf hash) n 12) fun pl =>
        s!"ok ss={pl.po.sigStart} sbl={pl.po.sigBufLen} verify={if pl.po.sigBufLen ≤ 10000000 then "ok" else "fail:toolarge"}"
    | _, _, _ => "bad-op"
  | ["realsign", fhex, _key] =>
    -- the signer module: hardened runtime, SHA-256, default requirements (computed after the size estimate)
    match fromHex fhex with
    | none => "bad-op"
    | some f =>
      showRes (plan f 32 0 0) fun pl =>
        match signedFile f pl.po [] with
        | .ok g => s!"ok ss={pl.po.sigStart} sbl={pl.po.sigBufLen} pre={toHex (g.take pl.po.sigStart)}"
        | _ => "err apply"
  | ["signfail", _, e] => s!"ok-unexpected {e}"
  | ["vfy", fhex] =>
    match fromHex fhex with
    | none => "bad-op"
    | some f =>
      showRes (verifyFile f) fun v =>
        s!"ok plan={checksStr v.checks} final={finStr v.final} #so={v.sigOff} sl={v.sigLen} bl={v.blobLen}"
  | "mutate" :: fhex :: _n :: muts =>
    match fromHex fhex with
    | none => "bad-op"
    | some f =>
      match verifyFile f with
      | .ok v0 =>
        let blob0 := sliceOf f v0.sigOff (min v0.blobLen v0.sigLen)
        let limit := (v0.checks.map (·.stream.length)).sum  -- an upper bound only; the exact limit comes from the directory
        let cl : Nat := match parseSignature (sliceOf f v0.sigOff v0.sigLen) with
          | .ok (s, _) => match bestDir s.dirs with
            | some d => (codeSize d.hdr).toNat
            | none => 0
          | _ => 0
        let one (m : String) : String :=
          match m.splitOn ":" with
          | [p, b] =>
            match p.toNat?, b.toNat? with
            | some pos, some byte =>
              let g := f.set pos (UInt8.ofNat byte)
              if g = f then "same" else
              if pos < cl then "fail" else
              match verifyFile g with
              | .ok v =>
                if sliceOf g v.sigOff (min v.blobLen v.sigLen) ≠ blob0 ∨ v.sigOff ≠ v0.sigOff then "any"
                else if v.checks = v0.checks ∧ v.final = v0.final then "pass" else "fail"
              | .panic site => s!"panic:{site}"
              | _ => "fail"
            | _, _ => "bad"
          | _ => "bad"
        let it := ",".intercalate (v0.items.map fun i => s!"{i.itype}:{i.off}:{i.len}")
        s!"ok {" ".intercalate (muts.map one)} #cl={cl} so={v0.sigOff} sl={v0.sigLen} bl={v0.blobLen} items={it} upper={limit}"
      | _ => "err unsigned-or-bad"
  | _ => "bad-op"

end Relic.Driver.MachO

// Package c13: one-shot output scenarios for property C13 (interrupted output never leaves a torn
// or missing file).  `vh C13 prep <aux>` writes the fixtures (untraced); `vh C13 scenario <strategy>
// <dir> <aux>` performs exactly ONE output operation with the real relic functions on
// <dir>/in.bin -> <dir>/out.bin and exits.  The check runs the scenario under strace (trace tie and
// SIGKILL / errno injection), so the scenario does nothing else in <dir> and prints nothing on success.
package c13

import (
	"bytes"
	"crypto"
	_ "crypto/sha256"
	"errors"
	"fmt"
	"io"
	"os"
	"path/filepath"
	"runtime"
	"strings"
	"time"

	"github.com/ProtonMail/go-crypto/openpgp"
	"github.com/ProtonMail/go-crypto/openpgp/packet"

	"github.com/sassoftware/relic/v8/lib/atomicfile"
	"github.com/sassoftware/relic/v8/lib/binpatch"
	"github.com/sassoftware/relic/v8/lib/certloader"
	"github.com/sassoftware/relic/v8/signers"
	"github.com/sassoftware/relic/v8/signers/msi"
	"github.com/sassoftware/relic/v8/signers/pgp"

	"verifharness/hx"
)

// strace counts `when=` per system-call name and per thread: keep the main goroutine on the main
// thread for the whole life of a scenario process (LockOSThread during init wires it to thread 0).
func init() {
	if len(os.Args) > 2 && os.Args[1] == "C13" && os.Args[2] == "scenario" {
		runtime.LockOSThread()
	}
}

// Strategies lists the scenario names: real output strategies first, then the negative controls
// (deliberately non-atomic writers the check must flag; they do not touch relic).
var Strategies = []string{"writefile", "producer", "rewrite", "copyedit", "msi", "pgp-detached", "pgp-clearsign", "pgp-inline"}
var Controls = []string{"ctl-direct", "ctl-earlycommit", "ctl-unlinkfirst"}

func must(err error) {
	if err != nil {
		panic(err)
	}
}

// plainReader hides WriterTo/ReaderFrom fast paths, like an HTTP response body
type plainReader struct{ r io.Reader }

func (p plainReader) Read(b []byte) (int, error) { return p.r.Read(b) }

func sizes(tier string) (in, payload, msg int) {
	if tier == "thorough" {
		return 300_000, 400_000, 40_000
	}
	return 50_000, 100_000, 9_000
}

func patchSet(rng *hx.Rng, n int) (*binpatch.PatchSet, [][3]int) {
	// ascending, disjoint: replace (same size), insert, delete, grow; last one short of EOF
	p := binpatch.New()
	var spec [][3]int
	pos := 100 + rng.Intn(500)
	for i := 0; i < 4 && pos+2000 < n; i++ {
		old := []int{64, 0, 300, 17}[i]
		nw := []int{64, 200, 0, 4000}[i]
		blob := rng.Bytes(nw)
		p.Add(int64(pos), int64(old), blob)
		spec = append(spec, [3]int{pos, old, nw})
		pos += old + 1000 + rng.Intn(n/8)
	}
	return p, spec
}

func pgpFlags(kv ...string) *signers.FlagValues {
	v := &signers.FlagValues{Defs: pgp.PgpSigner.Flags(), Values: map[string]string{}}
	for i := 0; i+1 < len(kv); i += 2 {
		v.Values[kv[i]] = kv[i+1]
	}
	return v
}

// Prep writes the fixtures into aux (deterministic for a seed except for the PGP key material).
func Prep(aux string) {
	rng := hx.NewRng(hx.Seed() + 1300)
	nIn, nPayload, nMsg := sizes(hx.Tier())
	in := rng.Bytes(nIn)
	must(os.WriteFile(filepath.Join(aux, "in.bin"), in, 0o644))
	must(os.WriteFile(filepath.Join(aux, "payload.bin"), rng.Bytes(nPayload), 0o644))
	ps, _ := patchSet(rng, nIn)
	// reference result, computed in memory from the *unsorted call list semantics* (splice right to left)
	exp := append([]byte{}, in...)
	for i := len(ps.Patches) - 1; i >= 0; i-- {
		h := ps.Patches[i]
		exp = append(append(append([]byte{}, exp[:h.Offset]...), ps.Blobs[i]...), exp[h.Offset+int64(h.OldSize):]...)
	}
	must(os.WriteFile(filepath.Join(aux, "patch.bin"), ps.Dump(), 0o644))
	must(os.WriteFile(filepath.Join(aux, "rewrite.expect"), exp, 0o644))
	must(os.WriteFile(filepath.Join(aux, "blob.bin"), rng.Bytes(2500), 0o644))
	// text message for PGP
	var sb strings.Builder
	for sb.Len() < nMsg {
		fmt.Fprintf(&sb, "line %d %x\n", sb.Len(), rng.Bytes(8+rng.Intn(40)))
	}
	msg := []byte(sb.String())
	must(os.WriteFile(filepath.Join(aux, "msg.txt"), msg, 0o644))
	ent, err := openpgp.NewEntity("verif", "", "verif@example.invalid", &packet.Config{RSABits: 2048, Time: func() time.Time { return time.Unix(1700000000, 0) }})
	must(err)
	cert := &certloader.Certificate{PgpKey: ent}
	for _, m := range []struct {
		name string
		fl   *signers.FlagValues
	}{
		{"sig-detached.bin", pgpFlags("armor", "true")},
		{"sig-clearsign.bin", pgpFlags("clearsign", "true")},
		{"sig-inline.bin", pgpFlags("armor", "false")},
	} {
		opts := signers.SignOpts{Hash: crypto.SHA256, Time: time.Unix(1700000000, 0), Flags: m.fl}
		sig, err := pgp.PgpSigner.Sign(bytes.NewReader(msg), cert, opts)
		must(err)
		must(os.WriteFile(filepath.Join(aux, m.name), sig, 0o644))
	}
}

func read(aux, name string) []byte {
	b, err := os.ReadFile(filepath.Join(aux, name))
	must(err)
	return b
}

// Scenario performs one output operation; returns the error the relic function returned.
func Scenario(strategy, dir, aux string) error {
	inpath := filepath.Join(dir, "in.bin")
	dest := filepath.Join(dir, "out.bin")
	switch strategy {
	case "writefile": // atomicfile.WriteFile: WriteAny -> New -> Write -> Commit
		return atomicfile.WriteFile(dest, read(aux, "payload.bin"))
	case "producer": // signers.fileProducer.Apply, whole-file response streamed from a plain reader
		f, err := os.Open(inpath)
		must(err)
		return signers.DefaultTransform(f).Apply(dest, "application/octet-stream", plainReader{bytes.NewReader(read(aux, "payload.bin"))})
	case "rewrite": // fileProducer.Apply -> ApplyBinPatch -> PatchSet.Apply -> applyRewrite (dest != input)
		f, err := os.Open(inpath)
		must(err)
		return signers.DefaultTransform(f).Apply(dest, binpatch.MimeType, plainReader{bytes.NewReader(read(aux, "patch.bin"))})
	case "copyedit": // atomicfile.WriteInPlace + positional edits + Truncate + Commit (the MSI pattern, API level)
		src, err := os.Open(inpath)
		must(err)
		f, err := atomicfile.WriteInPlace(src, dest)
		if err != nil {
			return err
		}
		defer f.Close()
		blob := read(aux, "blob.bin")
		if _, err := f.WriteAt(blob[:1000], 512); err != nil {
			return err
		}
		if _, err := f.WriteAt(blob[1000:], 20000); err != nil {
			return err
		}
		if err := f.Truncate(40000); err != nil {
			return err
		}
		if _, err := f.WriteAt(blob[:700], 40000); err != nil {
			return err
		}
		return f.Commit()
	case "msi": // msiTransformer.Apply: WriteInPlace + comdoc edits + Commit; in.bin is an MSI
		f, err := os.Open(inpath)
		must(err)
		opts := signers.SignOpts{Hash: crypto.SHA256, Flags: &signers.FlagValues{Defs: msi.MsiSigner.Flags(), Values: map[string]string{}}}
		t, err := msi.MsiSigner.Transform(f, opts)
		must(err)
		return t.Apply(dest, "", plainReader{bytes.NewReader(read(aux, "blob.bin"))})
	case "pgp-detached", "pgp-clearsign", "pgp-inline": // pgpTransformer.Apply
		f, err := os.Open(inpath)
		must(err)
		var fl *signers.FlagValues
		switch strategy {
		case "pgp-detached":
			fl = pgpFlags("armor", "true")
		case "pgp-clearsign":
			fl = pgpFlags("clearsign", "true")
		default:
			fl = pgpFlags("inline", "true")
		}
		t, err := pgp.PgpSigner.Transform(f, signers.SignOpts{Hash: crypto.SHA256, Flags: fl})
		must(err)
		return t.Apply(dest, "", plainReader{bytes.NewReader(read(aux, "sig-"+strings.TrimPrefix(strategy, "pgp-")+".bin"))})

	// ---- negative controls: writers that are NOT atomic; the check must flag each of them ----
	case "ctl-direct": // write straight into the destination
		f, err := os.Create(dest)
		if err != nil {
			return err
		}
		if _, err := io.Copy(f, plainReader{bytes.NewReader(read(aux, "payload.bin"))}); err != nil {
			return err
		}
		return f.Close()
	case "ctl-earlycommit": // rename before the last write
		f, err := os.CreateTemp(dir, "out.bin.tmp")
		if err != nil {
			return err
		}
		p := read(aux, "payload.bin")
		if _, err := f.Write(p[:len(p)/2]); err != nil {
			return err
		}
		if err := os.Rename(f.Name(), dest); err != nil {
			return err
		}
		if _, err := f.Write(p[len(p)/2:]); err != nil {
			return err
		}
		return f.Close()
	case "ctl-unlinkfirst": // remove, then rename (what atomicfile.Commit did before the F3 fix)
		f, err := os.CreateTemp(dir, "out.bin.tmp")
		if err != nil {
			return err
		}
		if _, err := f.Write(read(aux, "payload.bin")); err != nil {
			return err
		}
		if err := f.Close(); err != nil {
			return err
		}
		if err := os.Remove(dest); err != nil && !os.IsNotExist(err) {
			return err
		}
		return os.Rename(f.Name(), dest)
	}
	return errors.New("unknown strategy " + strategy)
}

// Main is the entry point for `vh C13 ...`.
func Main(args []string) {
	switch {
	case len(args) == 2 && args[0] == "prep":
		Prep(args[1])
	case len(args) == 4 && args[0] == "scenario":
		if err := Scenario(args[1], args[2], args[3]); err != nil {
			fmt.Fprintln(os.Stderr, "scenario-error:", err)
			os.Exit(3)
		}
	case len(args) == 1 && args[0] == "list":
		fmt.Println(strings.Join(Strategies, " "))
		fmt.Println(strings.Join(Controls, " "))
	default:
		fmt.Fprintln(os.Stderr, "usage: vh C13 prep <aux> | scenario <strategy> <dir> <aux> | list")
		os.Exit(2)
	}
}

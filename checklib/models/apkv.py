"""APK verifier decision logic (C02, C01): Relic.Model.ApkVerify vs signers/apk verify / apkSigner.Verify / VerifySignature on
really signed and semantically mutated APKs, and Digest.Sign's signing block vs the model's `signBlock`."""

TOKENS = ["APKV"]
RULE = ("APKV: functest/packages/dummy.apk and generated ZIPs are signed with relic's real apk signer (deterministic RSA-2048 x2, "
        "P-256 x2 (one with an intermediate in its chain), P-384; SHA-256 / SHA-512), alone or after relic's jar signer (v1 with / "
        "without the X-Android-APK-Signed header, under the same or another key); the APK Signing Block is taken apart by the "
        "harness's own parser, one part is altered (signature records dropped / junk id next to, before, instead of the valid one / "
        "id 0 / flipped / emptied / garbage / duplicated / re-labelled (other hash, DSA, other key type, PSS vs PKCS#1), two records "
        "and two digests in both orders, digest value flipped / shortened / emptied / of the other hash, digest list empty / unknown "
        "id first or second, attributes added, signed data with trailing bytes / a missing field / empty, each with and without a "
        "fresh signature by the key holder; public key and certificates swapped for another pair's (both, key only, certificates "
        "only, key of the other type), junk / empty / over-long key, junk certificate, no certificate, leaf not first / twice; payload "
        "byte or central directory byte changed, with digests recomputed and (not) re-signed; empty signer list, empty / over-long v2 "
        "value, signer struct too long / short, duplicate signer, second signer genuine / damaged / junk algorithm in either position, "
        "second v2 pair genuine / damaged / empty / unparsable in either position, foreign pairs, no pairs, pair sizes past the end / "
        "3 / trailing bytes, outer sizes and magic off by a bit, block stripped), re-encoded, the file re-assembled and verified by "
        "relic's real apk verifier; files never v2-signed (unsigned, v1 only, v1 claiming v2, v1 with altered payload). The Lean model "
        "reads the structure from the block bytes with its model of unmarshal and predicts verdict, error class, per signer hash / "
        "leaf index / number of intermediates from the tables on the op line (key type, signature validity, content digests, "
        "certificate SPKIs, v1 result), which the implementation runner re-derives from the file with the Go standard library. "
        "C01: the block relic's signer writes is byte-for-byte the model's signBlock of the independently computed content digest, "
        "chain, SPKI and signature value, and the signed file verifies. Non-trivial = distinct op.")
TRUSTED = ["Relic.Model.ApkVerify is hand-written from signers/apk/{verify,structs,serializer,digest}.go; tied by differential execution",
           "harness/apkv: crypto/rsa, crypto/ecdsa, crypto/x509 called directly to tabulate where a signature record verifies, what "
           "a public key / certificate parses to, and its own rendering of the v2 content digest (APK Signature Scheme v2 text); the "
           "v1 column is lib/signjar.Verify on the same file (the JAR layer has its own model)"]
ASSUMPTIONS = ["APKV: nothing about the signature scheme or the hash (theorems conclude 'the record verifies over these bytes under this "
               "key' / 'the listed digest equals the recomputed one'); ZIP-level refusals in front of the verifier (zipslicer) are "
               "outside this model",
               "APKV stated gaps (theorems with witnesses, replayed as prot=0 ops `gap-*`): the algorithm ids of the digests and of "
               "the signature records are not related (apk_gap_sig_digest_alg_unrelated: a signer may list only a SHA-256 digest "
               "under a SHA-512 signature, or digest id 0x0301), any certificate of the list may carry the key "
               "(apk_gap_leaf_any_position), pairs with other ids (v3, padding) and additional attributes are not interpreted "
               "(apk_foreign_pair_ignored), the v2 certificate is not compared with the v1 certificate (op none:*-v1xv2), every v2 "
               "pair and every signer is verified and reported (apk_all_signers_checked; stricter than Android, which reads the first)"]


def canon_model(op, mres):
    return mres


def _kind(op):
    return op.split(" ", 2)[1]


def equiv(op, il, mres):
    if _kind(op) == "signblk":
        a, b = il.split(" "), mres.split(" ")
        return a[:2] == b[:2]
    return il == mres


def weight(op):
    return 1


def nontrivial(op, mres, tag):
    return True


def _mut(op):
    return op.split(" ", 4)[2].split(":", 1)[0]


def branch(op, mres, tag):
    r = mres.split(" ")
    if _kind(op) == "signblk":
        return "apkv-signblk:" + r[0]
    return "apkv-%s:%s" % (_mut(op), r[0] if r[0] == "ok" else " ".join(r[:4] if r[1] == "signer" else r[:2]))


_THM = {"junk-sig-after": "apk_unknown_sig_alg_rejected", "junk-sig-before": "apk_unknown_sig_alg_rejected",
        "junk-sig-instead": "apk_unknown_sig_alg_rejected", "sig-id-zero": "apk_unknown_sig_alg_rejected",
        "second-signer-junk-alg": "apk_unknown_sig_alg_rejected",
        "payload-flip": "apk_content_change_rejected", "cd-flip": "apk_content_change_rejected",
        "digest-flip-unsigned": "apk_signed_data_change_rejected", "attrs-added-unsigned": "apk_signed_data_change_rejected",
        "swap-key-and-certs": "apk_key_swap_rejected", "swap-key-only": "apk_key_swap_rejected",
        "swap-key-cross-type": "apk_key_swap_rejected",
        "second-signer-bad": "apk_all_signers_checked", "first-signer-bad": "apk_all_signers_checked",
        "second-v2-pair-bad": "apk_all_signers_checked", "first-v2-pair-bad": "apk_all_signers_checked",
        "strip-v2": "apk_v1_claims_v2_but_stripped_rejected", "v1-claims-v2-never-signed": "apk_v1_claims_v2_but_stripped_rejected",
        "only-foreign-pair": "apk_v1_claims_v2_but_stripped_rejected", "no-pairs": "apk_v1_claims_v2_but_stripped_rejected"}


def predicate(prop, op, il, mres, tag):
    f = op.split(" ")
    if il.startswith("crash") or il.startswith("not-run") or il.startswith("panic"):
        return ("Relic.Props.%s (apk verify)" % prop, mres, "apk verifier died: " + il[:160])
    if il == "desc-mismatch":
        return ("Relic.Props.%s (apkv harness tables)" % prop, mres, "the tables on the op line are not the ones the file gives")
    if f[1] == "signblk":
        if not il.startswith("ok "):
            return ("Relic.Props.C01.apk_sign_then_verify", "ok", "relic's apk signer failed on a well-formed input: " + il[:160])
        v = il.split(" ")[2] if len(il.split(" ")) > 2 else ""
        if not v.startswith("v=ok_v2="):
            return ("Relic.Props.C01.apk_sign_then_verify", "v=ok", "relic's verifier rejects relic's own v2 signature: " + v[:160])
        return None
    if f[1] == "verify" and f[3] == "1" and il.startswith("ok"):
        thm = _THM.get(_mut(op), "apk_accept_implies")
        return ("Relic.Props.C02." + thm, "err", "mutation '%s' alters a protected part or removes the protection and the verifier "
                "reports success: %s" % (f[2], il))
    return None


def matches_known(k, op, il, mres, tag):
    return False

/- line-protocol handlers for C07 (certificate matches key) -/
import Relic.Model.KeyMatch
namespace Relic.Driver.C07
open Relic Relic.KeyMatch

/-! tokens:  key  `R.<n>.<e>` | `E.<curve>.<x>.<y>` | `O.<tag>`;  cert `<id>:<subject>:<issuer>:<key>`;
    cert list `-` | `c,c,…`;  cert source `none|missing|garbage|L=<list>`;
    pgp source `none|missing|empty|garbage|P=<eid>:<key>,…` (`P=-` = no entity) -/

def parseKey (s : String) : Option PubKey :=
  match s.splitOn "." with
  | ["R", n, e] => do pure (.rsa (← n.toNat?) (← e.toNat?))
  | ["E", c, x, y] => do pure (.ecdsa (← c.toNat?) (← x.toNat?) (← y.toNat?))
  | ["O", t] => do pure (.other (← t.toNat?))
  | _ => none

def showKey : PubKey → String
  | .rsa n e => s!"R.{n}.{e}"
  | .ecdsa c x y => s!"E.{c}.{x}.{y}"
  | .other t => s!"O.{t}"

def parseCert (s : String) : Option Cert :=
  match s.splitOn ":" with
  | [i, su, is, k] => do pure ⟨← i.toNat?, ← su.toNat?, ← is.toNat?, ← parseKey k⟩
  | _ => none

def parseCertList (s : String) : Option (List Cert) :=
  if s = "-" then some [] else (s.splitOn ",").mapM parseCert

def parseCertSrc (s : String) : Option (Option CertSrc) :=
  if s = "none" then some none
  else if s = "missing" then some (some .missing)
  else if s = "garbage" then some (some .garbage)
  else if s.startsWith "L=" then (parseCertList (s.drop 2).toString).map fun l => some (.parsed l)
  else none

def parseEntity (s : String) : Option PgpEntity :=
  match s.splitOn ":" with
  | [i, k] => do pure ⟨← i.toNat?, ← parseKey k⟩
  | _ => none

def parsePgpSrc (s : String) : Option (Option PgpSrc) :=
  if s = "none" then some none
  else if s = "missing" then some (some .missing)
  else if s = "empty" then some (some .empty)
  else if s = "garbage" then some (some .garbage)
  else if s = "P=-" then some (some (.parsed []))
  else if s.startsWith "P=" then ((((s.drop 2).toString).splitOn ",").mapM parseEntity).map fun l => some (.parsed l)
  else none

def parseKeySrc (s : String) : Option KeySrc :=
  if s = "missing" then some .missing
  else if s = "garbage" then some .garbage
  else (parseKey s).map .key

def parseKeyArg (s : String) : Option KeyArg :=
  if s.startsWith "pub:" then (parseKey (s.drop 4).toString).map .pub
  else if s.startsWith "sig:" then (parseKey (s.drop 4).toString).map .signer
  else none

def showIds (l : List Nat) : String :=
  if l.isEmpty then "-" else ",".intercalate (l.map toString)

def showBundle (b : Bundle) : String :=
  let leaf := match b.leaf with | some l => toString l.cert.id | none => "none"
  let pgp := match b.pgp with | some e => toString e.id | none => "none"
  let key := match b.priv with | some k => showKey k | none => "nil"
  s!"ok leaf={leaf} certs={showIds (b.certs.map (·.cert.id))} chain={showIds ((chain b).map (·.cert.id))} pgp={pgp} key={key}"

def showArtefact (a : Artefact) : String :=
  s!"leaf={a.leaf.id} embedded={showIds (a.embedded.map (·.id))} sigkey={showKey a.signedBy}"

def showRes {α} (f : α → String) : Res α → String
  | .ok a => f a
  | .err e => s!"err {e}"
  | .panic s => s!"panic {s}"
  | .diverge => "diverge"

/-- one configuration entry of the e2e ops: `<key> <p12: none|certlist> <file: certsrc> <pgp: pgpsrc>` -/
def parseEntry (name k p12 file pgp : String) : Option KeyConf := do
  let key ← parseKey k
  let p : Option (Cert × List Cert) ←
    if p12 = "none" then some none
    else match ← parseCertList p12 with
      | c :: cs => some (some (c, cs))
      | [] => none
  let f ← parseCertSrc file
  let g ← parsePgpSrc pgp
  pure { name := name, key := .key key, p12 := p, x509file := f, pgpfile := g }

def handle : List String → String
  -- a pinned key lookup is answered by its own backend fetch (Relic.Props.C15.pinned_key_never_stale), never by another id
  | ["keylookup", _e, _k] => "ok p=1"
  | ["keylookup", _e, _k, "rev"] => "ok p=1"
  -- key names through the worker RPC (see Relic.Driver.C15 `walias`): getKey and sign name the same key section
  | ["walias", k] =>
    let res1 := fun (n : String) => if n = "keyA" then some "keyB" else if n = "keyB" then some "keyC"
                                    else if n = "keyC" then some "keyC" else if n = "plain" then some "plain" else none
    match res1 k with
    | none => "ok refused"
    | some c => match res1 c with
      | none => "ok refused"
      | some w => s!"ok pub={w} sig={w}"
  | ["samekey", a, b] =>
    match parseKeyArg a, parseKeyArg b with
    | some a, some b => s!"ok {sameKey a b}"
    | _, _ => "bad-op"
  | "x509pair" :: k :: c :: _ =>
    match parseKeySrc k, parseCertSrc c with
    | some k, some (some c) => showRes showBundle (loadX509KeyPair k c)
    | _, _ => "bad-op"
  | "tokcert" :: k :: f :: b :: p :: _ =>
    match parseKey k, parseCertSrc f, parseCertSrc b, parsePgpSrc p with
    | some k, some f, some b, some p => showRes showBundle (loadTokenCertificates k f b p)
    | _, _, _, _ => "bad-op"
  | "builder" :: k :: cs :: content :: hashok :: _ =>
    match parseKey k, parseCertList cs with
    | some k, some cs => showRes (fun a => "ok " ++ showArtefact a) (builderSign k cs (content = "1") (hashok = "1"))
    | _, _ => "bad-op"
  | "xmlsign" :: _mode :: k :: cs :: _ =>
    match parseKey k, parseCertList cs with
    | some k, some cs => showRes (fun a => "ok " ++ showArtefact a) (xmldsigSign k cs)
    | _, _ => "bad-op"
  | "e2e" :: signer :: req :: tgt :: k0 :: p0 :: f0 :: g0 :: k1 :: p1 :: f1 :: g1 :: _ =>
    match parseEntry "k0" k0 p0 f0 g0, parseEntry "k1" k1 p1 f1 g1 with
    | some e0, some e1 =>
      let al : KeyConf := { name := "al", alias := tgt, token := "", key := .missing, p12 := none, x509file := none, pgpfile := none }
      let cfg : Config := [e0, e1, al]
      if signer = "pgp" then
        showRes (fun (r : Bundle × PubKey × PgpEntity) => s!"ok keyname={r.1.keyName} pgp={r.2.2.id} sigkey={showKey r.2.1}")
          (signCfgPgp cfg req)
      else
        let kind? : Option SignerKind :=
          if signer = "cat" then some .builderChain
          else if signer = "cosign" then some .rawChain
          else if signer = "xml" then some .xmlChain
          else if signer = "certs" then some .builderCerts
          else none
        match kind? with
        | some kind =>
          showRes (fun (r : Bundle × Artefact) => s!"ok keyname={r.1.keyName} {showArtefact r.2}") (signCfg cfg req kind)
        | none => "bad-op"
    | _, _ => "bad-op"
  | _ => "bad-op"

end Relic.Driver.C07

/- helper lemmas about Relic.Model.CodeDir: the page decomposition, field extraction from the marshalled header -/
import Relic.Model.CodeDir
import Relic.Proofs.Codec
namespace Relic.CodeDir
open Relic

theorem drop_len_add (a b : Bytes) (i : Nat) : (a ++ b).drop (a.length + i) = b.drop i := by
  rw [List.drop_append]; simp

/-! ### pages -/

theorem pagesF_getElem? (ps : Nat) (hps : 0 < ps) : ∀ (fuel : Nat) (b : Bytes) (i : Nat), b.length ≤ fuel →
    (pagesF ps fuel b)[i]? = if i * ps < b.length then some ((b.drop (i * ps)).take ps) else none := by
  intro fuel
  induction fuel with
  | zero =>
    intro b i h
    have : b = [] := List.eq_nil_of_length_eq_zero (by omega)
    subst this
    simp [pagesF]
  | succ n ih =>
    intro b i h
    cases b with
    | nil => simp [pagesF]
    | cons x xs =>
      have hne : (x :: xs).isEmpty = false := rfl
      simp only [pagesF, hne]
      cases i with
      | zero => simp
      | succ j =>
        have hl : ((x :: xs).drop ps).length ≤ n := by
          simp only [List.length_drop, List.length_cons] at *
          omega
        have := ih ((x :: xs).drop ps) j hl
        simp only [List.getElem?_cons_succ, Bool.false_eq_true, ↓reduceIte] at *
        rw [this]
        have e1 : (j + 1) * ps = ps + j * ps := by rw [Nat.add_mul]; omega
        simp only [List.length_drop, List.drop_drop, e1]
        have : (j * ps < (x :: xs).length - ps) ↔ (ps + j * ps < (x :: xs).length) := by omega
        simp only [this]

/-- **the central characterisation**: page `i` is the bytes `[i·ps, (i+1)·ps)` of the stream (cut at its end), and
    there is no page at or behind the end -/
theorem pages_getElem? (ps : Nat) (hps : 0 < ps) (b : Bytes) (i : Nat) :
    (pages ps b)[i]? = if i * ps < b.length then some ((b.drop (i * ps)).take ps) else none :=
  pagesF_getElem? ps hps b.length b i (Nat.le_refl _)

theorem pages_length (ps : Nat) (hps : 0 < ps) (b : Bytes) : (pages ps b).length = (b.length + ps - 1) / ps := by
  have key : ∀ i, i < (pages ps b).length ↔ i * ps < b.length := by
    intro i
    have := pages_getElem? ps hps b i
    constructor
    · intro h
      rw [List.getElem?_eq_getElem h] at this
      by_cases c : i * ps < b.length
      · exact c
      · simp [c] at this
    · intro h
      simp only [h, ↓reduceIte] at this
      exact (List.getElem?_eq_some_iff.mp this).1
  have h1 : ¬ ((pages ps b).length * ps < b.length) := fun h => Nat.lt_irrefl _ ((key _).mpr h)
  have h1' : b.length ≤ (pages ps b).length * ps := by omega
  rcases Nat.eq_zero_or_pos (pages ps b).length with z | pos
  · rw [z] at h1' ⊢
    have : b.length = 0 := by simpa using h1'
    rw [this]; symm; apply Nat.div_eq_of_lt; omega
  · obtain ⟨m, hm⟩ : ∃ m, (pages ps b).length = m + 1 := ⟨(pages ps b).length - 1, by omega⟩
    have h3 : m * ps < b.length := (key m).mp (by omega)
    rw [hm] at h1' ⊢
    rw [Nat.add_mul, Nat.one_mul] at h1'
    apply Nat.le_antisymm
    · exact (Nat.le_div_iff_mul_le hps).mpr (by rw [Nat.add_mul, Nat.one_mul]; omega)
    · have : b.length + ps - 1 < (m + 1 + 1) * ps := by rw [Nat.add_mul, Nat.add_mul, Nat.one_mul]; omega
      have := (Nat.div_lt_iff_lt_mul hps).mpr this
      omega

theorem pagesF_flatten (ps : Nat) (hps : 0 < ps) : ∀ (fuel : Nat) (b : Bytes), b.length ≤ fuel →
    (pagesF ps fuel b).flatten = b := by
  intro fuel
  induction fuel with
  | zero =>
    intro b h
    have : b = [] := List.eq_nil_of_length_eq_zero (by omega)
    subst this; rfl
  | succ n ih =>
    intro b h
    cases b with
    | nil => rfl
    | cons x xs =>
      have hne : (x :: xs).isEmpty = false := rfl
      have hl : ((x :: xs).drop ps).length ≤ n := by
        simp only [List.length_drop, List.length_cons] at *
        omega
      simp only [pagesF, hne, Bool.false_eq_true, ↓reduceIte, List.flatten_cons, ih _ hl, List.take_append_drop]

/-- the pages, concatenated, are the stream: nothing is skipped, nothing hashed twice -/
theorem pages_flatten (ps : Nat) (hps : 0 < ps) (b : Bytes) : (pages ps b).flatten = b :=
  pagesF_flatten ps hps b.length b (Nat.le_refl _)

/-- injectivity of the page decomposition -/
theorem pages_inj (ps : Nat) (hps : 0 < ps) (a b : Bytes) (h : pages ps a = pages ps b) : a = b := by
  rw [← pages_flatten ps hps a, ← pages_flatten ps hps b, h]

/-! ### blocks of equal size inside a concatenation -/

theorem block_at (hs : Nat) : ∀ (bs : List Bytes) (i : Nat) (rest : Bytes), (∀ b ∈ bs, b.length = hs) → (h : i < bs.length) →
    ((bs.flatten ++ rest).drop (i * hs)).take hs = bs[i] := by
  intro bs
  induction bs with
  | nil => intro i rest _ h; simp at h
  | cons b t ih =>
    intro i rest hl h
    have hb : b.length = hs := hl b (List.mem_cons_self)
    cases i with
    | zero =>
      simp only [Nat.zero_mul, List.drop_zero, List.flatten_cons, List.append_assoc, List.getElem_cons_zero]
      exact List.take_left' hb
    | succ j =>
      have e : (j + 1) * hs = b.length + j * hs := by rw [Nat.add_mul, hb]; omega
      simp only [List.flatten_cons, List.append_assoc, e, List.getElem_cons_succ]
      rw [drop_len_add]
      exact ih j rest (fun x hx => hl x (List.mem_cons_of_mem _ hx)) (by simpa using h)

/-! ### fields of the marshalled header -/

def offsetOf (fs : List (Nat × Nat)) (k : Nat) : Nat := ((fs.take k).map (·.1)).sum

theorem encFields_length (fs : List (Nat × Nat)) : (encFields fs).length = (fs.map (·.1)).sum := by
  induction fs with
  | nil => rfl
  | cons p t ih => simp [encFields, List.flatMap_cons] at *

theorem field_at : ∀ (fs : List (Nat × Nat)) (k w v : Nat) (rest : Bytes), fs[k]? = some (w, v) →
    ((encFields fs ++ rest).drop (offsetOf fs k)).take w = beBytes w v := by
  intro fs
  induction fs with
  | nil => intro k w v rest h; simp at h
  | cons p t ih =>
    intro k w v rest h
    cases k with
    | zero =>
      simp only [List.getElem?_cons_zero, Option.some.injEq] at h
      subst h
      simp only [offsetOf, List.take_zero, List.map_nil, List.sum_nil, List.drop_zero, encFields, List.flatMap_cons, List.append_assoc]
      exact List.take_left' (by simp)
    | succ j =>
      simp only [List.getElem?_cons_succ] at h
      have e : offsetOf (p :: t) (j + 1) = (beBytes p.1 p.2).length + offsetOf t j := by
        simp [offsetOf]
      have e2 : encFields (p :: t) = beBytes p.1 p.2 ++ encFields t := by simp [encFields, List.flatMap_cons]
      rw [e, e2, List.append_assoc, drop_len_add]
      exact ih j w v rest h

theorem Header.enc_length (h : Header) : h.enc.length = 88 := by
  simp [Header.enc, encFields_length, Header.fields]

/-- the 4-byte field at index `k` of the header, as a number -/
theorem hdr_u32 (h : Header) (rest : Bytes) (k v off : Nat) (hk : h.fields[k]? = some (4, v)) (ho : offsetOf h.fields k = off) :
    beVal (((h.enc ++ rest).drop off).take 4) = v % 2 ^ 32 := by
  rw [← ho, Header.enc, field_at h.fields k 4 v rest hk, beVal_beBytes]

theorem hdr_u8 (h : Header) (rest : Bytes) (k v off : Nat) (hk : h.fields[k]? = some (1, v)) (ho : offsetOf h.fields k = off) :
    beVal (((h.enc ++ rest).drop off).take 1) = v % 2 ^ 8 := by
  rw [← ho, Header.enc, field_at h.fields k 1 v rest hk, beVal_beBytes]

theorem hdr_u64 (h : Header) (rest : Bytes) (k v off : Nat) (hk : h.fields[k]? = some (8, v)) (ho : offsetOf h.fields k = off) :
    beVal (((h.enc ++ rest).drop off).take 8) = v % 2 ^ 64 := by
  rw [← ho, Header.enc, field_at h.fields k 8 v rest hk, beVal_beBytes]


/-- every fixed field of the marshalled header, read back at its offset -/
structure HdrView (raw : Bytes) (h : Header) : Prop where
  magic : beVal ((raw.drop 0).take 4) = h.magic % 2 ^ 32
  length : beVal ((raw.drop 4).take 4) = h.length % 2 ^ 32
  version : beVal ((raw.drop 8).take 4) = h.version % 2 ^ 32
  flags : beVal ((raw.drop 12).take 4) = h.flags % 2 ^ 32
  hashOffset : beVal ((raw.drop 16).take 4) = h.hashOffset % 2 ^ 32
  identOffset : beVal ((raw.drop 20).take 4) = h.identOffset % 2 ^ 32
  nSpecial : beVal ((raw.drop 24).take 4) = h.nSpecial % 2 ^ 32
  nCode : beVal ((raw.drop 28).take 4) = h.nCode % 2 ^ 32
  codeLimit : beVal ((raw.drop 32).take 4) = h.codeLimit % 2 ^ 32
  hashSize : beVal ((raw.drop 36).take 1) = h.hashSize % 2 ^ 8
  hashType : beVal ((raw.drop 37).take 1) = h.hashType % 2 ^ 8
  platform : beVal ((raw.drop 38).take 1) = 0
  pageShift : beVal ((raw.drop 39).take 1) = h.pageShift % 2 ^ 8
  spare2 : beVal ((raw.drop 40).take 4) = 0
  scatter : beVal ((raw.drop 44).take 4) = h.scatterOffset % 2 ^ 32
  teamOffset : beVal ((raw.drop 48).take 4) = h.teamOffset % 2 ^ 32
  spare3 : beVal ((raw.drop 52).take 4) = 0
  codeLimit64 : beVal ((raw.drop 56).take 8) = h.codeLimit64 % 2 ^ 64
  execBase : beVal ((raw.drop 64).take 8) = h.execBase % 2 ^ 64
  execLimit : beVal ((raw.drop 72).take 8) = h.execLimit % 2 ^ 64
  execFlags : beVal ((raw.drop 80).take 8) = h.execFlags % 2 ^ 64

theorem enc_view (h : Header) (rest : Bytes) : HdrView (h.enc ++ rest) h where
  magic := hdr_u32 h rest 0 _ 0 (by simp [Header.fields]) (by simp [offsetOf, Header.fields])
  length := hdr_u32 h rest 1 _ 4 (by simp [Header.fields]) (by simp [offsetOf, Header.fields])
  version := hdr_u32 h rest 2 _ 8 (by simp [Header.fields]) (by simp [offsetOf, Header.fields])
  flags := hdr_u32 h rest 3 _ 12 (by simp [Header.fields]) (by simp [offsetOf, Header.fields])
  hashOffset := hdr_u32 h rest 4 _ 16 (by simp [Header.fields]) (by simp [offsetOf, Header.fields])
  identOffset := hdr_u32 h rest 5 _ 20 (by simp [Header.fields]) (by simp [offsetOf, Header.fields])
  nSpecial := hdr_u32 h rest 6 _ 24 (by simp [Header.fields]) (by simp [offsetOf, Header.fields])
  nCode := hdr_u32 h rest 7 _ 28 (by simp [Header.fields]) (by simp [offsetOf, Header.fields])
  codeLimit := hdr_u32 h rest 8 _ 32 (by simp [Header.fields]) (by simp [offsetOf, Header.fields])
  hashSize := hdr_u8 h rest 9 _ 36 (by simp [Header.fields]) (by simp [offsetOf, Header.fields])
  hashType := hdr_u8 h rest 10 _ 37 (by simp [Header.fields]) (by simp [offsetOf, Header.fields])
  platform := hdr_u8 h rest 11 0 38 (by simp [Header.fields]) (by simp [offsetOf, Header.fields])
  pageShift := hdr_u8 h rest 12 _ 39 (by simp [Header.fields]) (by simp [offsetOf, Header.fields])
  spare2 := hdr_u32 h rest 13 0 40 (by simp [Header.fields]) (by simp [offsetOf, Header.fields])
  scatter := hdr_u32 h rest 14 _ 44 (by simp [Header.fields]) (by simp [offsetOf, Header.fields])
  teamOffset := hdr_u32 h rest 15 _ 48 (by simp [Header.fields]) (by simp [offsetOf, Header.fields])
  spare3 := hdr_u32 h rest 16 0 52 (by simp [Header.fields]) (by simp [offsetOf, Header.fields])
  codeLimit64 := hdr_u64 h rest 17 _ 56 (by simp [Header.fields]) (by simp [offsetOf, Header.fields])
  execBase := hdr_u64 h rest 18 _ 64 (by simp [Header.fields]) (by simp [offsetOf, Header.fields])
  execLimit := hdr_u64 h rest 19 _ 72 (by simp [Header.fields]) (by simp [offsetOf, Header.fields])
  execFlags := hdr_u64 h rest 20 _ 80 (by simp [Header.fields]) (by simp [offsetOf, Header.fields])

/-! ### C strings -/

theorem takeWhile_nz (s rest : Bytes) (h : ∀ x ∈ s, x ≠ 0) : (s ++ 0 :: rest).takeWhile (· ≠ 0) = s := by
  induction s with
  | nil => simp
  | cons x t ih =>
    have hx : x ≠ 0 := h x List.mem_cons_self
    simp only [List.cons_append, List.takeWhile_cons, ne_eq, hx, not_false_eq_true, decide_true, ↓reduceIte]
    rw [ih (fun y hy => h y (List.mem_cons_of_mem _ hy))]

theorem contains_zero (s rest : Bytes) : (s ++ 0 :: rest).contains 0 = true := by
  simp

/-! ### rendering -/

theorem render_append (H : Bytes → Bytes) (hs : Nat) (a b : List Seg) : render H hs (a ++ b) = render H hs a ++ render H hs b := by
  simp [render]

theorem render_lit (H : Bytes → Bytes) (hs : Nat) (b : Bytes) : render H hs [.lit b] = b := by
  simp [render, Seg.render]

theorem render_blocks (H : Bytes → Bytes) (hs : Nat) (l : List Seg) :
    render H hs l = (l.map (Seg.render H hs)).flatten := by
  simp [render, List.flatMap_def]

end Relic.CodeDir

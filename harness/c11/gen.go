package c11

import (
	"bufio"
	"bytes"
	"encoding/binary"
	"encoding/hex"
	"fmt"
	"hash/fnv"
	"os"
	"path/filepath"
	"sort"
	"strings"

	"verifharness/hx"
	"verifharness/pe"
)

// signer type -> bases (repo fixtures and relic-signed versions kept in corpus/C11/bases)
type baseSet struct {
	typ   string
	bases []string
	libs  []string // library entry points that take the same bytes
}

var families = []baseSet{
	{"pe-coff", []string{"fx:WindowsFormsApplication1.exe", "fx:ClassLibrary1.dll", "cx:signed-pe.exe", "cx:signed-pe-ph.dll"}, []string{"digestpe", "digestpe-ph", "verifype"}},
	{"msi", []string{"fx:dummy.msi", "cx:signed.msi"}, []string{"comdoc", "verifymsi"}},
	{"cab", []string{"fx:dummy.cab", "cx:signed.cab"}, []string{"cabparse", "cabdigest"}},
	{"ps", []string{"fx:hello.ps1", "fx:hello.ps1xml", "fx:hello.mof", "cx:signed.ps1"}, []string{"psdigest", "psverify"}},
	{"jar", []string{"fx:hello.jar", "cx:signed.jar"}, []string{"zipread"}},
	{"apk", []string{"fx:dummy.apk", "cx:signed.apk"}, []string{"zipread"}},
	{"appx", []string{"fx:App1_1.0.3.0_x64.appx", "cx:signed.appx"}, []string{"appxverify"}},
	{"vsix", []string{"fx:VSIXProject1.vsix", "cx:signed.vsix"}, []string{"zipread"}},
	{"xap", []string{"fx:dummy.xap", "cx:signed.xap"}, []string{"xapverify", "zipread"}},
	{"cat", []string{"fx:hyperv.cat", "cx:signed.cat"}, []string{"pkcs7"}},
	{"pkcs7", []string{"fx:hyperv.cat"}, []string{"pkcs7", "certs"}},
	{"deb", []string{"fx:zlib1g_1.2.8.dfsg-5_i386.deb", "cx:signed.deb"}, nil},
	{"rpm", []string{"fx:rocky-basesystem-11-13.el9.noarch.rpm", "cx:signed.rpm"}, nil},
	{"dmg", []string{"fx:dummy.dmg", "cx:signed.dmg"}, nil},
	{"xar", []string{"fx:dummy.pkg", "cx:signed.pkg"}, nil},
	{"mach-o", []string{"fx:slimfile.app/dummyapp", "cx:signed.macho"}, nil},
	{"mach-o-fat", []string{"fx:fatfile.app/Contents/MacOS/dummy"}, nil},
	{"ipa", []string{"fx:dummy.apk"}, nil},
	{"pgp", []string{"fx:Release.gpg", "fx:InRelease", "cx:signed.pgp"}, nil},
	{"appmanifest", []string{"fx:WindowsFormsApplication1.exe.manifest", "cx:signed.manifest"}, nil},
}

// types whose upload is a transformed stream (tar)
var tarTypes = map[string]string{"jar": "ziptar", "apk": "ziptar", "appx": "appxtar", "vsix": "ziptar", "xap": "xaptar", "msi": "msitar"}

var canSign = map[string]bool{"pe-coff": true, "msi": true, "cab": true, "ps": true, "jar": true, "apk": true, "appx": true, "vsix": true,
	"xap": true, "cat": true, "deb": true, "rpm": true, "dmg": true, "xar": true, "mach-o": true, "pgp": true, "appmanifest": true}

type field struct {
	off, width int
}

func le(width int, v uint64) string {
	b := make([]byte, 8)
	binary.LittleEndian.PutUint64(b, v)
	return hex.EncodeToString(b[:width])
}

func be(width int, v uint64) string {
	b := make([]byte, 8)
	binary.BigEndian.PutUint64(b, v)
	return hex.EncodeToString(b[8-width:])
}

func boundary(width int, n int) []uint64 {
	switch width {
	case 1:
		return []uint64{0, 1, 0x7f, 0x80, 0xff}
	case 2:
		return []uint64{0, 1, 2, 0x7fff, 0x8000, 0xffff, uint64(n) & 0xffff}
	case 8:
		return []uint64{0, 1, uint64(n), uint64(n) + 1, 0x7fffffff, 0xffffffff, 0x100000000, 0x7fffffffffffffff, 0x8000000000000000, 0xffffffffffffffff}
	}
	return []uint64{0, 1, 2, 8, uint64(n) - 1, uint64(n), uint64(n) + 1, uint64(n) / 2, 0x7fffffff, 0x80000000, 0xfffffff0, 0xfffffffe, 0xffffffff}
}

// emitter with deterministic thinning: in the quick tier only every k-th op of a sweep is kept
type emitter struct {
	w    *bufio.Writer
	keep int
	n    int
	seen map[string]bool
}

func (e *emitter) op(line string) {
	e.n++
	if e.keep > 1 {
		h := fnv.New32a()
		h.Write([]byte(line))
		if h.Sum32()%uint32(e.keep) != 0 {
			return
		}
	}
	if e.seen[line] {
		return
	}
	e.seen[line] = true
	fmt.Fprintln(e.w, line)
}

func (e *emitter) always(line string) {
	if e.seen[line] {
		return
	}
	e.seen[line] = true
	fmt.Fprintln(e.w, line)
}

func entriesFor(fam baseSet, mutated bool) []string {
	out := []string{"verify:" + fam.typ}
	if !mutated {
		out = append(out, "issigned:"+fam.typ)
		if canSign[fam.typ] {
			out = append(out, "transform:"+fam.typ)
		}
	}
	if canSign[fam.typ] {
		out = append(out, "sign:"+fam.typ)
	}
	for _, l := range fam.libs {
		out = append(out, "lib:"+l)
	}
	return out
}

func loadBase(spec string) []byte {
	b, err := Base(spec)
	if err != nil {
		return nil
	}
	return b
}

func u16(b []byte, off int) int {
	if off < 0 || off+2 > len(b) {
		return 0
	}
	return int(binary.LittleEndian.Uint16(b[off:]))
}

func u32(b []byte, off int) int {
	if off < 0 || off+4 > len(b) {
		return 0
	}
	return int(binary.LittleEndian.Uint32(b[off:]))
}

// fieldsOf: structure-aware field table of a base of the given family (little-endian unless bigEndian)
func fieldsOf(typ string, b []byte) (fs []field, bigEndian bool, cuts []int) {
	add := func(off, width int) {
		if off >= 0 && off+width <= len(b) {
			fs = append(fs, field{off, width})
			cuts = append(cuts, off, off+width)
		}
	}
	switch typ {
	case "pe-coff":
		p := u32(b, 0x3c)
		add(0x3c, 4)
		add(p+6, 2)
		add(p+20, 2)
		opt := p + 24
		add(opt, 2)
		add(opt+36, 4)
		add(opt+60, 4)
		add(opt+64, 4)
		add(opt+92, 4)
		add(opt+108, 4)
		add(opt+128, 4)
		add(opt+132, 4)
		add(opt+144, 4)
		add(opt+148, 4)
		soh := u16(b, p+20)
		ns := u16(b, p+6)
		for i := 0; i < ns && i < 6; i++ {
			add(opt+soh+40*i+8, 4)
			add(opt+soh+40*i+16, 4)
			add(opt+soh+40*i+20, 4)
		}
		// certificate table entry header
		for _, dd := range []int{opt + 128, opt + 144} {
			cs := u32(b, dd)
			if cs > 0 && cs+8 <= len(b) {
				add(cs, 4)
				add(cs+4, 2)
				add(cs+6, 2)
			}
		}
	case "msi":
		for _, o := range []int{0x1a, 0x1c, 0x1e, 0x20} {
			add(o, 2)
		}
		for o := 0x28; o < 0x4c+4*8; o += 4 {
			add(o, 4)
		}
		shift := u16(b, 0x1e)
		if shift >= 7 && shift <= 12 {
			ss := 1 << uint(shift)
			fat0 := u32(b, 0x4c)
			for i := 0; i < 24; i++ {
				add(ss+fat0*ss+4*i, 4)
			}
			dir := u32(b, 0x30)
			for e := 0; e < 8; e++ {
				base := ss + dir*ss + 128*e
				add(base+64, 2)
				add(base+66, 1)
				add(base+67, 1)
				add(base+68, 4)
				add(base+72, 4)
				add(base+76, 4)
				add(base+116, 4)
				add(base+120, 4)
			}
			mf := u32(b, 0x3c)
			if mf < 1<<20 {
				for i := 0; i < 8; i++ {
					add(ss+mf*ss+4*i, 4)
				}
			}
		}
	case "cab":
		for o := 0; o < 36; o += 4 {
			add(o, 4)
		}
		add(24, 2)
		add(26, 2)
		add(28, 2)
		add(30, 2)
		add(36, 2)
		add(38, 1)
		add(39, 1)
		for o := 40; o < 60; o += 4 {
			add(o, 4)
		}
		add(40, 2)
		add(42, 2)
	case "jar", "apk", "appx", "vsix", "xap", "ipa":
		e := bytes.LastIndex(b, []byte("PK\x05\x06"))
		if e >= 0 {
			for _, o := range []int{4, 6, 8, 10} {
				add(e+o, 2)
			}
			add(e+12, 4)
			add(e+16, 4)
			add(e+20, 2)
			cd := u32(b, e+16)
			if cd > len(b) { // ZIP64: take the first central header instead
				cd = bytes.Index(b, []byte("PK\x01\x02"))
				if cd < 0 {
					cd = len(b)
				}
			}
			cd0 := cd
			for i := 0; i < 3 && cd+46 <= len(b) && bytes.Equal(b[cd:cd+4], []byte("PK\x01\x02")); i++ {
				for _, o := range []int{8, 10, 28, 30, 32} {
					add(cd+o, 2)
				}
				for _, o := range []int{16, 20, 24, 42} {
					add(cd+o, 4)
				}
				lo := u32(b, cd+42)
				if lo+30 <= len(b) {
					for _, o := range []int{6, 8, 26, 28} {
						add(lo+o, 2)
					}
					for _, o := range []int{14, 18, 22} {
						add(lo+o, 4)
					}
				}
				cd += 46 + u16(b, cd+28) + u16(b, cd+30) + u16(b, cd+32)
			}
			// the bytes in front of the directory: APK signing block sizes
			cd = cd0
			if cd >= 24 && cd <= len(b) && bytes.Equal(b[cd-16:cd], []byte("APK Sig Block 42")) {
				add(cd-24, 8)
				sz := u32(b, cd-24)
				if st := cd - sz - 8; st >= 0 {
					add(st, 8)
					add(st+8, 8)
					add(st+16, 4)
					for o := st + 20; o < st+20+64; o += 4 {
						add(o, 4)
					}
				}
			}
		}
	case "mach-o", "mach-o-fat":
		bigEndian = false
		add(16, 4)
		add(20, 4)
		for _, magic := range [][]byte{{0xfa, 0xde, 0x0c, 0xc0}, {0xfa, 0xde, 0x0c, 0x02}, {0xfa, 0xde, 0x0b, 0x01}, {0xfa, 0xde, 0x0c, 0x01}} {
			if i := bytes.Index(b, magic); i >= 0 {
				for o := 4; o < 4+4*24; o += 4 {
					add(i+o, 4)
				}
				for o := 36; o < 44; o++ {
					add(i+o, 1)
				}
			}
		}
		// LC_CODE_SIGNATURE (0x1d) little-endian: cmd, cmdsize(16), dataoff, datasize
		if i := bytes.Index(b, []byte{0x1d, 0, 0, 0, 0x10, 0, 0, 0}); i >= 0 {
			add(i+4, 4)
			add(i+8, 4)
			add(i+12, 4)
		}
	case "dmg":
		if len(b) >= 512 {
			k := len(b) - 512
			for o := 0; o < 512; o += 4 {
				if o < 0x50 || (o >= 0xd8 && o < 0x130) || o >= 0x1e0 {
					add(k+o, 4)
				}
			}
			for _, o := range []int{0x18, 0x20, 0x28, 0x30, 0xd8, 0xe0, 0x128, 0x130, 0x1ec} {
				add(k+o, 8)
			}
		}
		bigEndian = true
	case "xar":
		add(4, 2)
		add(6, 2)
		add(8, 8)
		add(16, 8)
		add(24, 4)
		bigEndian = true
	case "rpm":
		for o := 96; o < 96+16+16*6; o += 4 {
			add(o, 4)
		}
		bigEndian = true
	}
	// generic: head and tail words
	for o := 0; o < 64 && o+4 <= len(b); o += 4 {
		add(o, 4)
	}
	for o := len(b) - 32; o+4 <= len(b); o += 4 {
		add(o, 4)
	}
	return
}

func (e *emitter) structSweep(fam baseSet, spec string, thoroughTrunc bool) {
	b := loadBase(spec)
	if b == nil {
		return
	}
	ents := entriesFor(fam, true)
	fs, bigE, cuts := fieldsOf(fam.typ, b)
	seenF := map[field]bool{}
	for _, f := range fs {
		if seenF[f] {
			continue
		}
		seenF[f] = true
		for _, v := range boundary(f.width, len(b)) {
			val := le(f.width, v)
			if bigE {
				val = be(f.width, v)
			}
			for _, en := range ents {
				e.op(fmt.Sprintf("C11 ep %s %s s%d=%s", en, spec, f.off, val))
			}
		}
	}
	// truncation: every byte for small files, field boundaries and a spread of positions otherwise
	var ts []int
	if len(b) <= 2048 && thoroughTrunc {
		for i := 0; i < len(b); i++ {
			ts = append(ts, i)
		}
	} else {
		ts = append(ts, cuts...)
		for i := 0; i < 48; i++ {
			ts = append(ts, len(b)*i/48)
		}
		for i := 1; i <= 48 && i <= len(b); i++ {
			ts = append(ts, len(b)-i)
		}
		for i := 0; i < 80 && i < len(b); i++ {
			ts = append(ts, i)
		}
	}
	sort.Ints(ts)
	last := -1
	for _, t := range ts {
		if t == last || t < 0 || t >= len(b) {
			continue
		}
		last = t
		for _, en := range ents {
			e.op(fmt.Sprintf("C11 ep %s %s t%d", en, spec, t))
		}
	}
}

// comdoc chains: self-referential DIFAT / FAT / mini-FAT / directory structures
func (e *emitter) cfbChains(spec string) {
	b := loadBase(spec)
	if b == nil || len(b) < 512 {
		return
	}
	shift := u16(b, 0x1e)
	if shift < 7 || shift > 12 {
		return
	}
	ss := 1 << uint(shift)
	fat0 := u32(b, 0x4c)
	dir := u32(b, 0x30)
	mf := u32(b, 0x3c)
	fatOff := func(i int) int { return ss + fat0*ss + 4*i }
	var edits []string
	// directory chain loops on itself / on sector 0
	edits = append(edits, fmt.Sprintf("s%d=%s", fatOff(dir), le(4, uint64(dir))))
	edits = append(edits, fmt.Sprintf("s%d=%s", fatOff(dir), le(4, 0)))
	// every FAT entry points at itself; at its predecessor
	for i := 0; i < 24; i++ {
		edits = append(edits, fmt.Sprintf("s%d=%s", fatOff(i), le(4, uint64(i))))
		if i > 0 {
			edits = append(edits, fmt.Sprintf("s%d=%s", fatOff(i), le(4, uint64(i-1))))
		}
	}
	// mini-FAT chain loops
	if mf < 1<<20 {
		edits = append(edits, fmt.Sprintf("s%d=%s", fatOff(mf), le(4, uint64(mf))))
		for i := 0; i < 8; i++ {
			edits = append(edits, fmt.Sprintf("s%d=%s", ss+mf*ss+4*i, le(4, uint64(i))))
			edits = append(edits, fmt.Sprintf("s%d=%s", ss+mf*ss+4*i, le(4, 0)))
		}
	}
	// DIFAT: claim extra DIFAT sectors that point back at sector 0 / at themselves
	edits = append(edits, fmt.Sprintf("s%d=%s,s%d=%s", 0x44, le(4, 0), 0x48, le(4, 1)))
	edits = append(edits, fmt.Sprintf("s%d=%s,s%d=%s", 0x44, le(4, 0), 0x48, le(4, 0xffff)))
	edits = append(edits, fmt.Sprintf("s%d=%s,s%d=%s", 0x44, le(4, uint64(fat0)), 0x48, le(4, 0x7fffffff)))
	edits = append(edits, fmt.Sprintf("s%d=%s", 0x2c, le(4, 0x7fffffff)))
	edits = append(edits, fmt.Sprintf("s%d=%s", 0x2c, le(4, 200)))
	edits = append(edits, fmt.Sprintf("s%d=%s", 0x40, le(4, 0x7fffffff)))
	// sector shift extremes
	for _, sh := range []uint64{0, 1, 3, 6, 16, 20, 28, 31, 32, 63, 64, 0xffff} {
		edits = append(edits, fmt.Sprintf("s%d=%s", 0x1e, le(2, sh)))
		edits = append(edits, fmt.Sprintf("s%d=%s", 0x20, le(2, sh)))
	}
	// directory tree: siblings / children pointing at themselves, each other, out of range
	for ent := 0; ent < 8; ent++ {
		base := ss + dir*ss + 128*ent
		for _, fo := range []int{68, 72, 76} {
			for _, v := range []uint64{uint64(ent), 0, 1, 2, 7, 1000, 0x7fffffff, 0xfffffffe} {
				edits = append(edits, fmt.Sprintf("s%d=%s", base+fo, le(4, v)))
			}
		}
		// two-cycle between neighbours
		if ent+1 < 8 {
			edits = append(edits, fmt.Sprintf("s%d=%s,s%d=%s", base+68, le(4, uint64(ent+1)), base+128+68, le(4, uint64(ent))))
			edits = append(edits, fmt.Sprintf("s%d=%s,s%d=%s", base+72, le(4, uint64(ent+1)), base+128+72, le(4, uint64(ent))))
		}
		// name length / identical names
		for _, v := range []uint64{0, 1, 2, 3, 64, 65, 66, 128, 0xffff} {
			edits = append(edits, fmt.Sprintf("s%d=%s", base+64, le(2, v)))
		}
		if ent+1 < 8 && base+256 <= len(b) {
			edits = append(edits, fmt.Sprintf("s%d=%s,s%d=%s", base+128, hex.EncodeToString(b[base:base+64]), base+128+64, le(2, 66)))
			edits = append(edits, fmt.Sprintf("s%d=%s,s%d=%s,s%d=%s", base+128, hex.EncodeToString(b[base:base+64]), base+64, le(2, 66), base+128+64, le(2, 66)))
		}
		// stream start / size
		for _, v := range []uint64{uint64(dir), uint64(fat0), 0, 0xfffffffe, 0x7fffffff} {
			edits = append(edits, fmt.Sprintf("s%d=%s", base+116, le(4, v)))
		}
		for _, v := range []uint64{0, 1, 4095, 4096, 4097, 0x7fffffff, 0xffffffff} {
			edits = append(edits, fmt.Sprintf("s%d=%s", base+120, le(4, v)))
		}
	}
	for _, ed := range edits {
		for _, en := range []string{"lib:comdoc", "verify:msi", "sign:msi", "lib:verifymsi"} {
			e.op(fmt.Sprintf("C11 ep %s %s %s", en, spec, ed))
		}
	}
}

// upload streams: tar member headers and the embedded structures
func (e *emitter) tarSweep(typ, lib, inner string) {
	spec := "tx:" + typ + ":" + inner
	b := loadBase(spec)
	if b == nil {
		return
	}
	ents := []string{"signraw:" + typ, "lib:" + lib}
	// tar headers: at 0 and after the first member
	hdrs := []int{0}
	if len(b) > 512 {
		var sz int
		fmt.Sscanf(strings.TrimRight(string(b[124:135]), "\x00 "), "%o", &sz)
		next := 512 + (sz+511)/512*512
		if next+512 <= len(b) {
			hdrs = append(hdrs, next)
		}
	}
	for _, h := range hdrs {
		for _, v := range []string{"00000000000", "77777777777", "00000000001", "37777777777", "80000000000", "8000000000007fffffffffffffff"[:11]} {
			for _, en := range ents {
				e.op(fmt.Sprintf("C11 ep %s %s s%d=%s", en, spec, h+124, hex.EncodeToString([]byte(v))))
			}
		}
		// binary (base-256) size
		for _, v := range []string{"80000000007fffffffffffff", "80ffffffffffffffffffffff", "800000000000000100000000"} {
			for _, en := range ents {
				e.op(fmt.Sprintf("C11 ep %s %s s%d=%s", en, spec, h+124, v))
			}
		}
		for _, nm := range []string{"contents.zip", "zipdir.bin", "x", ""} {
			for _, en := range ents {
				e.op(fmt.Sprintf("C11 ep %s %s s%d=%s00", en, spec, h, hex.EncodeToString([]byte(nm))))
			}
		}
		e.op(fmt.Sprintf("C11 ep %s %s s%d=%s", ents[0], spec, h+156, "35")) // typeflag: directory
	}
	// the directory member's bytes (first member body starts at 512): zip central directory fields
	for o := 512; o < 512+96 && o+4 <= len(b); o += 2 {
		for _, v := range []uint64{0, 0xffff, 0x7fff} {
			for _, en := range ents {
				e.op(fmt.Sprintf("C11 ep %s %s s%d=%s", en, spec, o, le(2, v)))
			}
		}
	}
	for i := 0; i < 64; i++ {
		t := len(b) * i / 64
		for _, en := range ents {
			e.op(fmt.Sprintf("C11 ep %s %s t%d", en, spec, t))
		}
	}
	for t := 500; t < 560 && t < len(b); t += 3 {
		for _, en := range ents {
			e.op(fmt.Sprintf("C11 ep %s %s t%d", en, spec, t))
		}
	}
}

var interesting = []string{"00", "ff", "7f", "80", "0000", "ffff", "00000000", "ffffffff", "7fffffff", "80000000", "ffffffffffffffff", "0000000000000000"}

func randomEdit(r *hx.Rng, n int) string {
	if n == 0 {
		return "i0=" + hex.EncodeToString(r.Bytes(1+r.Intn(8)))
	}
	// bias positions towards head and tail, where the structure lives
	pos := func() int {
		switch r.Intn(4) {
		case 0:
			return r.Intn(min(n, 256))
		case 1:
			return n - 1 - r.Intn(min(n, 256))
		}
		return r.Intn(n)
	}
	switch r.Intn(9) {
	case 0:
		return fmt.Sprintf("x%d^%02x", pos(), 1<<uint(r.Intn(8)))
	case 1:
		return fmt.Sprintf("s%d=%s", pos(), interesting[r.Intn(len(interesting))])
	case 2:
		return fmt.Sprintf("s%d=%s", pos(), hex.EncodeToString(r.Bytes(1+r.Intn(4))))
	case 3:
		return fmt.Sprintf("i%d=%s", pos(), hex.EncodeToString(r.Bytes(1+r.Intn(16))))
	case 4:
		return fmt.Sprintf("d%d+%d", pos(), 1+r.Intn(32))
	case 5:
		return fmt.Sprintf("r%d+%d@%d", pos(), 1+r.Intn(64), pos())
	case 6:
		return fmt.Sprintf("t%d", pos())
	case 7:
		return fmt.Sprintf("s%d=%s", pos()&^3, le(4, uint64(r.Pick(0, 1, n, n-1, n+1, 0x7fffffff, 0xffffffff, 0x80000000))))
	}
	return fmt.Sprintf("s%d=%s", pos()&^1, le(2, uint64(r.Pick(0, 1, 0xffff, 0x8000, n&0xffff))))
}

// Gen writes the C11 op list.
func Gen(w *bufio.Writer, seed uint64, tier string) {
	thorough := tier == "thorough"
	e := &emitter{w: w, keep: 1, seen: map[string]bool{}}
	r := hx.NewRng(seed ^ 0xc11)

	// (1) modelled parsers, byte for byte
	genModels(e, r, thorough)

	// (2) every entry point on every fixture, unmutated; every verifier on every fixture (wrong type)
	for _, fam := range families {
		for _, spec := range fam.bases {
			if loadBase(spec) == nil {
				continue
			}
			for _, en := range entriesFor(fam, false) {
				e.always(fmt.Sprintf("C11 ep %s %s -", en, spec))
			}
		}
	}
	for _, fam := range families {
		for _, other := range families {
			if other.typ == fam.typ {
				continue
			}
			e.always(fmt.Sprintf("C11 ep verify:%s %s -", fam.typ, other.bases[0]))
		}
		for _, hexs := range []string{"hex:-", "hex:00", "hex:4d5a", "hex:504b0506", "hex:d0cf11e0a1b11ae1"} {
			e.always(fmt.Sprintf("C11 ep verify:%s %s -", fam.typ, hexs))
			if canSign[fam.typ] {
				e.always(fmt.Sprintf("C11 ep sign:%s %s -", fam.typ, hexs))
			}
		}
	}
	// synthetic Debian packages with control members larger than the pipe/bufio buffers on signdeb's path
	for _, v := range debVariants {
		for _, en := range []string{"sign:deb", "verify:deb", "issigned:deb", "transform:deb"} {
			e.always(fmt.Sprintf("C11 ep %s deb:%s -", en, v))
		}
	}
	// synthetic JARs: member names / manifest attributes the manifest writer and parser of lib/signjar must survive
	for _, v := range jarVariants {
		for _, en := range []string{"sign:jar", "verify:jar", "transform:jar", "sign:apk"} {
			e.always(fmt.Sprintf("C11 ep %s jarsyn:%s -", en, v))
		}
	}
	genZipSyn(e) // zipsyn.go: ZIP64 extra records of every size against every subset of announced fields
	for _, l := range LibEntries {
		for _, fam := range families {
			e.always(fmt.Sprintf("C11 ep lib:%s %s -", l, fam.bases[0]))
		}
		for _, hexs := range []string{"hex:-", "hex:00", "hex:30", "hex:3080", "hex:308400000000"} {
			e.always(fmt.Sprintf("C11 ep lib:%s %s -", l, hexs))
		}
	}

	// (3) structure-aware corruption (deterministic; thinned in the quick tier)
	if !thorough {
		e.keep = 14
	}
	for _, fam := range families {
		for _, spec := range fam.bases {
			e.structSweep(fam, spec, thorough)
		}
	}
	for _, spec := range []string{"fx:dummy.msi", "cx:signed.msi"} {
		e.cfbChains(spec)
	}
	for typ, lib := range map[string]string{} {
		_ = typ
		_ = lib
	}
	tt := make([]string, 0, len(tarTypes))
	for t := range tarTypes {
		tt = append(tt, t)
	}
	sort.Strings(tt)
	for _, typ := range tt {
		for _, fam := range families {
			if fam.typ == typ {
				for _, inner := range fam.bases {
					e.tarSweep(typ, tarTypes[typ], inner)
				}
			}
		}
	}
	e.keep = 1

	// (4) seeded byte-level mutation
	per := 12
	if thorough {
		per = 150
	}
	for _, fam := range families {
		for _, spec := range fam.bases {
			b := loadBase(spec)
			if b == nil {
				continue
			}
			ents := entriesFor(fam, true)
			for i := 0; i < per; i++ {
				ed := randomEdit(r, len(b))
				if r.Intn(3) == 0 {
					ed += "," + randomEdit(r, len(b))
				}
				en := ents[r.Intn(len(ents))]
				e.always(fmt.Sprintf("C11 ep %s %s %s", en, spec, ed))
			}
		}
		if lib, ok := tarTypes[fam.typ]; ok {
			spec := "tx:" + fam.typ + ":" + fam.bases[len(fam.bases)-1]
			if b := loadBase(spec); b != nil {
				for i := 0; i < per; i++ {
					en := []string{"signraw:" + fam.typ, "lib:" + lib}[r.Intn(2)]
					e.always(fmt.Sprintf("C11 ep %s %s %s", en, spec, randomEdit(r, len(b))))
				}
			}
		}
	}

	// (5) the server's signing endpoint
	genServer(e, r, thorough)
}

// genServer: crafted request bodies for POST /sign on the real handler.
func genServer(e *emitter, r *hx.Rng, thorough bool) {
	// an AppX upload holding an .exe whose optional header is shorter than two bytes: DigestPE runs in a helper goroutine
	img := pe.Build(hx.NewRng(7), pe.Params{NumDirs: 16, FileAlign: 512, Sections: []int{512}})
	p := u32(img, 0x3c)
	for _, soh := range []uint16{0, 1} {
		g := append([]byte{}, img...)
		binary.LittleEndian.PutUint16(g[p+20:], soh)
		e.always("C11 srv appx appxpe:" + hex.EncodeToString(g) + " -")
		e.always("C11 ep signraw:appx appxpe:" + hex.EncodeToString(g) + " -")
	}
	g := append([]byte{}, img...)
	binary.LittleEndian.PutUint32(g[p+24+36:], 0) // FileAlignment 0 with two sections
	img2 := pe.Build(hx.NewRng(7), pe.Params{NumDirs: 16, FileAlign: 512, Sections: []int{512, 512}})
	p2 := u32(img2, 0x3c)
	binary.LittleEndian.PutUint32(img2[p2+24+36:], 0)
	e.always("C11 srv appx appxpe:" + hex.EncodeToString(img2) + " -")
	e.always("C11 srv appx appxpe:" + hex.EncodeToString(img) + " -")
	for _, v := range []string{"contbytes-name", "contbytes-manifest", "name-71"} {
		e.always("C11 srv jar jarsyn:" + v + " -")
	}
	for _, v := range []string{"badgz", "zstctl", "tarerr", "bigctl", "ctl:trailing-blank", "ctl:two-paragraphs", "ctl:binary"} {
		e.always("C11 srv deb deb:" + v + " -")
	}
	for _, fam := range families {
		if !canSign[fam.typ] {
			continue
		}
		spec := fam.bases[0]
		if _, ok := tarTypes[fam.typ]; ok {
			spec = "tx:" + fam.typ + ":" + fam.bases[0]
		}
		b := loadBase(spec)
		if b == nil {
			continue
		}
		e.always(fmt.Sprintf("C11 srv %s %s -", fam.typ, spec))
		e.always(fmt.Sprintf("C11 srv %s hex:- -", fam.typ))
		n := 6
		if thorough {
			n = 40
		}
		for i := 0; i < n; i++ {
			e.always(fmt.Sprintf("C11 srv %s %s %s", fam.typ, spec, randomEdit(r, len(b))))
		}
		for i := 0; i < 8; i++ {
			e.always(fmt.Sprintf("C11 srv %s %s t%d", fam.typ, spec, len(b)*i/8))
		}
	}
}

// MkBases writes the relic-signed versions of the fixtures to dir (run once; the files are part of the corpus).
func MkBases(dir string) error {
	if err := os.MkdirAll(dir, 0o755); err != nil {
		return err
	}
	scratchDir = dir
	type job struct {
		typ, fx, out, key string
		flags             map[string]string
	}
	jobs := []job{
		{"pe-coff", "WindowsFormsApplication1.exe", "signed-pe.exe", "rsa", nil},
		{"pe-coff", "ClassLibrary1.dll", "signed-pe-ph.dll", "p256", map[string]string{"page-hashes": "true"}},
		{"msi", "dummy.msi", "signed.msi", "rsa", nil},
		{"cab", "dummy.cab", "signed.cab", "p256", nil},
		{"ps", "hello.ps1", "signed.ps1", "rsa", nil},
		{"jar", "hello.jar", "signed.jar", "rsa", nil},
		{"apk", "dummy.apk", "signed.apk", "rsa", nil},
		{"appx", "App1_1.0.3.0_x64.appx", "signed.appx", "rsa", nil},
		{"vsix", "VSIXProject1.vsix", "signed.vsix", "rsa", nil},
		{"xap", "dummy.xap", "signed.xap", "rsa", nil},
		{"cat", "hyperv.cat", "signed.cat", "rsa", nil},
		{"deb", "zlib1g_1.2.8.dfsg-5_i386.deb", "signed.deb", "rsa", nil},
		{"rpm", "rocky-basesystem-11-13.el9.noarch.rpm", "signed.rpm", "rsa", nil},
		{"dmg", "dummy.dmg", "signed.dmg", "rsa", nil},
		{"xar", "dummy.pkg", "signed.pkg", "rsa", nil},
		{"mach-o", "slimfile.app/dummyapp", "signed.macho", "rsa", nil},
		{"pgp", "Release", "signed.pgp", "rsa", map[string]string{"clearsign": "true"}},
		{"appmanifest", "WindowsFormsApplication1.exe.manifest", "signed.manifest", "rsa", nil},
	}
	for _, j := range jobs {
		data, err := os.ReadFile(filepath.Join(fixturesDir(), j.fx))
		if err != nil {
			return err
		}
		out := filepath.Join(dir, j.out)
		if err := os.WriteFile(out, data, 0o644); err != nil {
			return err
		}
		if err := signInPlace(j.typ, out, j.key, j.flags); err != nil {
			fmt.Fprintf(os.Stderr, "mkbases: %s: %v (kept unsigned copy out)\n", j.out, err)
			os.Remove(out)
			continue
		}
		fmt.Fprintf(os.Stderr, "mkbases: %s ok\n", j.out)
	}
	return nil
}

/-
  Relic.Proofs.ZipMembers — members as byte strings: when is a stretch of bytes a well-formed member
  for a central record (`MemberRec`), lifting a member out of a parsed input, what `NewFile` writes, and
  placing members back to back in an output so that the specification finds them again.
-/
import Relic.Proofs.ZipSpecIntro
import Relic.Proofs.ZipRewrite
namespace Relic.Zip
open Relic Relic.SpecZip


/-- `x` — the bytes of one member, from its local header to the end of its descriptor — is a well-formed
    member for a central record with this name, these flags, CRC and sizes: local signature, local name,
    descriptor bit as in the directory, the data inside, and (descriptor bit set) a *signed* descriptor
    with the directory's values that ends exactly where `x` ends; without descriptor `x` ends with the data. -/
structure MemberRec (x : Bytes) (name : Bytes) (flags crc csize usize : Nat) : Prop where
  sig : x.take 4 = [0x50, 0x4b, 0x03, 0x04]
  len : 30 + fld x 26 2 + fld x 28 2 + csize ≤ x.length
  name : (x.drop 30).take (fld x 26 2) = name
  flag : fld x 6 2 % 16 / 8 = flags % 16 / 8
  nodesc : flags % 16 / 8 ≠ 1 → x.length = 30 + fld x 26 2 + fld x 28 2 + csize
  desc : flags % 16 / 8 = 1 → ∃ wd, (wd = true ∨ (csize < 2 ^ 32 ∧ usize < 2 ^ 32)) ∧
    x.length = 30 + fld x 26 2 + fld x 28 2 + csize + (descEnc true wd crc csize usize).length ∧
    x.drop (30 + fld x 26 2 + fld x 28 2 + csize) = descEnc true wd crc csize usize

theorem mem_descWidthsAt_intro {z : Bytes} {at_ lim : Nat} {e : Entry} (s wd : Bool)
    (hr : wd = true ∨ (e.csize < 2 ^ 32 ∧ e.usize < 2 ^ 32))
    (hl : at_ + (descEnc s wd e.crc e.csize e.usize).length ≤ lim)
    (hb : bytesAt z at_ (descEnc s wd e.crc e.csize e.usize).length = some (descEnc s wd e.crc e.csize e.usize)) :
    (descEnc s wd e.crc e.csize e.usize).length ∈ descWidthsAt z at_ lim e := by
  unfold descWidthsAt
  simp only [List.mem_filterMap]
  refine ⟨(s, wd), by cases s <;> cases wd <;> simp, ?_⟩
  simp only
  rw [if_pos ⟨by simpa using hr, hl, hb⟩]

theorem foldl_min_le : ∀ (l : List Nat) (a w : Nat), (w = a ∨ w ∈ l) → l.foldl min a ≤ w := by
  intro l
  induction l with
  | nil => intro a w h; simp at h; simp [h]
  | cons b l ih =>
    intro a w h
    simp only [List.foldl_cons]
    rcases h with h | h
    · have := ih (min a b) (min a b) (Or.inl rfl); omega
    · rcases List.mem_cons.mp h with h | h
      · have := ih (min a b) (min a b) (Or.inl rfl); omega
      · exact ih _ _ (Or.inr h)

theorem minW_le {l : List Nat} {w : Nat} (h : w ∈ l) : l.foldl min (l.headD 0) ≤ w :=
  foldl_min_le l _ w (Or.inr h)

/-- **placing.** Where the output holds the bytes `x` of a well-formed member at offset `o`, entirely
    before the directory, the specification finds the member for any central record that names it:
    data offset, and (descriptor bit set) the width that ends the member among the widths found. -/
theorem memberOf_placed {out x : Bytes} {cd : Nat} {e : Entry} (hm : MemberRec x e.name e.flags e.crc e.csize e.usize)
    (hok : EntryOK e) (hx : (out.drop e.hoff).take x.length = x) (hcd : e.hoff + x.length ≤ cd) (hz : cd ≤ out.length) :
    ∃ m, memberOf out cd e = some m ∧ m.entry = e ∧ m.dataOff = e.hoff + 30 + fld x 26 2 + fld x 28 2 ∧
      (e.flags % 16 / 8 ≠ 1 → m.descWidths = [] ∧ m.dataOff + e.csize = e.hoff + x.length) ∧
      (e.flags % 16 / 8 = 1 → ∃ w, w ∈ m.descWidths ∧ (w = 16 ∨ w = 24) ∧ m.dataOff + e.csize + w = e.hoff + x.length ∧
        m.descWidths = descWidthsAt out (m.dataOff + e.csize) cd e) := by
  have hx' : (out.drop e.hoff).take x.length = x.take x.length := by rw [List.take_length]; exact hx
  have F : ∀ k w, k + w ≤ x.length → fld (out.drop e.hoff) k w = fld x k w := fun k w hk => fld_eq_of_take hx' k w hk
  have S : ∀ a b, a + b ≤ x.length → (out.drop (e.hoff + a)).take b = (x.drop a).take b := by
    intro a b hk
    rw [← List.drop_drop]
    exact seg_eq_of_take hx' a b hk
  have h30 := hm.len
  have hsig : hasSig out e.hoff 0x50 0x4b 0x03 0x04 = true := by
    unfold hasSig
    have := S 0 4 (by omega)
    simp only [Nat.add_zero, List.drop_zero] at this
    rw [this, hm.sig]; rfl
  have f26 := F 26 2 (by omega); have f28 := F 28 2 (by omega); have f6 := F 6 2 (by omega)
  have hname : (out.drop (e.hoff + 30)).take (fld (out.drop e.hoff) 26 2) = e.name := by
    rw [f26, S 30 _ (by omega), hm.name]
  have hdesc : e.flags % 16 / 8 = 1 → ∃ w, (w = 16 ∨ w = 24) ∧
      e.hoff + 30 + fld x 26 2 + fld x 28 2 + e.csize + w = e.hoff + x.length ∧
      w ∈ descWidthsAt out (e.hoff + 30 + fld x 26 2 + fld x 28 2 + e.csize) cd e := by
    intro hd
    obtain ⟨wd, hr, hl, hb⟩ := hm.desc hd
    refine ⟨(descEnc true wd e.crc e.csize e.usize).length, ?_, by omega, ?_⟩
    · rw [descEnc_length]; cases wd <;> simp
    · apply mem_descWidthsAt_intro true wd hr (by omega)
      rw [bytesAt_eq (by omega)]
      have := S (30 + fld x 26 2 + fld x 28 2 + e.csize) (descEnc true wd e.crc e.csize e.usize).length (by omega)
      rw [show e.hoff + (30 + fld x 26 2 + fld x 28 2 + e.csize) = e.hoff + 30 + fld x 26 2 + fld x 28 2 + e.csize by omega] at this
      rw [this, hb, List.take_length]
  have hmem := memberOf_intro (z := out) (cdOff := cd) (e := e) hz (by omega) hsig hname (by rw [f6]; exact hm.flag) hok
    (by rw [f26, f28]; omega)
    (by
      intro hd
      obtain ⟨w, _, _, hw⟩ := hdesc hd
      rw [f26, f28]
      exact List.ne_nil_of_mem hw)
  refine ⟨_, hmem, rfl, by simp only [f26, f28], ?_, ?_⟩
  · intro hd
    simp only [if_neg hd, f26, f28, true_and]
    have := hm.nodesc hd
    omega
  · intro hd
    obtain ⟨w, hw1, hw2, hw3⟩ := hdesc hd
    simp only [if_pos hd, f26, f28]
    exact ⟨w, hw3, hw1, hw2, trivial⟩

/-- **lifting a member out of the input.** What the specification checked for a member of the input holds
    of the member's bytes taken by themselves — the extent being the one that ends with the data (no
    descriptor) or with a signed descriptor among the widths found. -/
theorem memberRec_of_memberOf {z : Bytes} {cd : Nat} {e : Entry} {m : SpecZip.Member} (h : memberOf z cd e = some m)
    (hz : cd ≤ z.length) (T : Nat)
    (hT0 : e.flags % 16 / 8 ≠ 1 → e.hoff + T = m.dataOff + e.csize)
    (hT1 : e.flags % 16 / 8 = 1 → ∃ w, w ∈ m.descWidths ∧ (w = 16 ∨ w = 24) ∧ e.hoff + T = m.dataOff + e.csize + w) :
    MemberRec ((z.drop e.hoff).take T) e.name e.flags e.crc e.csize e.usize := by
  obtain ⟨h30, hsig, hnb, hname, hflag, _, _, hdo, hdata, hdesc⟩ := memberOf_some h
  generalize hln : fld (z.drop e.hoff) 26 2 = ln at *
  generalize hle : fld (z.drop e.hoff) 28 2 = le at *
  -- the extent lies inside the file
  have hTle : e.hoff + T ≤ cd := by
    by_cases hd : e.flags % 16 / 8 = 1
    · obtain ⟨w, hw, _, hT⟩ := hT1 hd
      rw [if_pos hd] at hdesc
      rw [hdesc.1] at hw
      obtain ⟨_, _, _, _, hlim, _⟩ := mem_descWidthsAt hw
      omega
    · have := hT0 hd; omega
  have hTge : 30 + ln + le + e.csize ≤ T := by
    by_cases hd : e.flags % 16 / 8 = 1
    · obtain ⟨w, _, _, hT⟩ := hT1 hd; omega
    · have := hT0 hd; omega
  have hxl : ((z.drop e.hoff).take T).length = T := by rw [List.length_take, List.length_drop]; omega
  have F : ∀ k w, k + w ≤ T → fld ((z.drop e.hoff).take T) k w = fld (z.drop e.hoff) k w := fun k w hk => fld_take _ T k w hk
  have f26 := F 26 2 (by omega); have f28 := F 28 2 (by omega); have f6 := F 6 2 (by omega)
  rw [hln] at f26; rw [hle] at f28
  refine ⟨?_, ?_, ?_, ?_, ?_, ?_⟩
  · rw [List.take_take, Nat.min_eq_left (by omega)]
    unfold hasSig at hsig
    exact eq_of_beq hsig
  · rw [f26, f28, hxl]; exact hTge
  · rw [f26, seg_take _ T 30 ln (by omega), List.drop_drop]; exact hname
  · rw [f6]; exact hflag
  · intro hd; rw [f26, f28, hxl]; have := hT0 hd; omega
  · intro hd
    obtain ⟨w, hw, hw2, hT⟩ := hT1 hd
    rw [if_pos hd] at hdesc
    rw [hdesc.1] at hw
    obtain ⟨s, wd, hl, hr, hlim, hb⟩ := mem_descWidthsAt hw
    have hs : s = true := by
      have hl' := hl
      rw [descEnc_length] at hl'
      cases s
      · cases wd <;> simp at hl' <;> omega
      · rfl
    subst hs
    obtain ⟨_, hbt⟩ := bytesAt_some hb
    refine ⟨wd, hr, ?_, ?_⟩
    · rw [f26, f28, hxl, hl]; omega
    · rw [f26, f28, List.drop_take, List.drop_drop, ← hbt]
      congr 1
      · omega
      · congr 1; omega

/-- **what `NewFile` writes is a well-formed member** for the directory entry it makes (name and extra
    lengths fitting 16 bits, CRC 32 bits, sizes 64 bits). -/
theorem memberRec_newBytes (mt md : Nat) (n : NewMember) (hn : n.name.length < 2 ^ 16) (hx : n.extra.length < 2 ^ 16) :
    MemberRec (newBytes mt md n) n.name (if n.useDesc then 8 else 0) n.crc n.compd.length n.usize := by
  have hb : newBytes mt md n = encLfh (newLfh mt md n) ++ (n.name ++ (n.extra ++ (n.compd ++ newDdb n))) := by
    simp [newBytes, List.append_assoc]
  have F := fld_encLfh (newLfh mt md n) (n.name ++ (n.extra ++ (n.compd ++ newDdb n)))
  rw [← hb] at F
  obtain ⟨_, _, F6, _, _, _, _, _, _, F26, F28⟩ := F
  have e26 : fld (newBytes mt md n) 26 2 = n.name.length := by
    rw [F26]; simp only [newLfh]; rw [Nat.mod_mod, Nat.mod_eq_of_lt hn]
  have e28 : fld (newBytes mt md n) 28 2 = n.extra.length := by
    rw [F28]; simp only [newLfh]; rw [Nat.mod_mod, Nat.mod_eq_of_lt hx]
  have hlen := newBytes_length mt md n
  have hdl : (newDdb n).length = if n.useDesc then 24 else 0 := by
    unfold newDdb; split <;> simp
  refine ⟨?_, ?_, ?_, ?_, ?_, ?_⟩
  · rw [hb]
    have : encLfh (newLfh mt md n) = [0x50, 0x4b, 0x03, 0x04] ++ (encLfh (newLfh mt md n)).drop 4 := by
      have h4 : leBytes 4 sigFile = [0x50, 0x4b, 0x03, 0x04] := by decide
      simp [encLfh, h4]
    rw [this, List.append_assoc, List.take_left' (by rfl)]
  · rw [e26, e28, hlen]; omega
  · rw [e26, hb, List.drop_left' (encLfh_length _), List.take_left]
  · rw [F6]; simp only [newLfh]; split <;> rfl
  · intro hd
    have : n.useDesc = false := by
      cases hu : n.useDesc
      · rfl
      · rw [hu] at hd; simp at hd
    rw [e26, e28, hlen, hdl, this]; simp; omega
  · intro hd
    have hu : n.useDesc = true := by
      cases hu : n.useDesc
      · rw [hu] at hd; simp at hd
      · rfl
    refine ⟨true, Or.inl rfl, ?_, ?_⟩
    · rw [e26, e28, hlen, hdl, hu, descEnc_length]; simp; omega
    · rw [e26, e28, hb]
      have h1 : (encLfh (newLfh mt md n) ++ (n.name ++ (n.extra ++ (n.compd ++ newDdb n)))).drop
          (30 + n.name.length + n.extra.length + n.compd.length) = newDdb n := by
        rw [show 30 + n.name.length + n.extra.length + n.compd.length =
          (encLfh (newLfh mt md n)).length + (n.name.length + (n.extra.length + n.compd.length)) by rw [encLfh_length]; omega]
        rw [← List.drop_drop, List.drop_left, ← List.drop_drop, List.drop_left, ← List.drop_drop, List.drop_left,
          List.drop_left]
      rw [h1]
      have h4 : leBytes 4 sigDesc = [0x50, 0x4b, 0x07, 0x08] := by decide
      simp [newDdb, hu, descEnc, h4]

/-- the central record of a requested member passes the record-only checks of the specification -/
theorem entryOK_new (e : Entry) (n : NewMember) (he : e.flags = if n.useDesc then 8 else 0) (hv : e.verNeeded ≤ 63)
    (hm : e.method = if n.deflate then 8 else 0) (hx : extraWellFormed e.extra.length e.extra = true)
    (hname : e.name = n.name) (hu : e.usize = n.usize) (hc : e.csize = n.compd.length)
    (hdir : n.name.getLast? = some 0x2f → n.usize = 0) (hst : n.deflate = false → n.usize = n.compd.length) : EntryOK e := by
  refine ⟨?_, ?_, hv, hx, ?_, ?_, ?_⟩
  · rw [he]; split <;> rfl
  · rw [he]; split <;> rfl
  · rw [hm]; split <;> simp
  · rw [hname, hu]; intro ⟨h1, h2⟩; exact h2 (hdir h1)
  · rw [hm, hc, hu]
    intro h
    have : n.deflate = false := by
      cases hd : n.deflate
      · rfl
      · rw [hd] at h; simp at h
    exact (hst this).symm
end Relic.Zip

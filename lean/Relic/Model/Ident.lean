/-
  Relic.Model.Ident — the identity fields relic derives from the signing certificate.

  * `/repo/lib/appmanifest/publictoken.go`: `PublicKeyToSnk` (the CAPI / strong-name public key blob of an RSA key, and
    the author's "best guess" blob for ECDSA keys), `PublicKeyToken` (which bytes of the SHA-1 digest make the token),
    `PublisherIdentity` (publisher name + issuerKeyHash);
  * `/repo/lib/x509tools/names.go`: `FormatPkixName` in its three styles (`attName`, `attValue`), *including* what Go's
    `encoding/asn1` (go1.23) does to the DER of an RDNSequence on the way in (which tags become strings, which values
    make the whole name `<invalid>`, which values print as `<invalid>`);
  * `/repo/lib/x509tools/util.go` `SubjectKeyID` (the byte string that is hashed: contents of the BIT STRING of the
    SubjectPublicKeyInfo);
  * `/repo/lib/appmanifest/signmanifest.go` `setAssemblyIdentity` / `setPublisherIdentity` and the comparison made by
    `/repo/lib/appmanifest/verify.go` `Verify` – on an abstraction of the manifest that keeps exactly the identity fields.

  Hashing stays outside Lean: the model produces the byte string fed to SHA-1 and the selection of digest bytes.
  Core Lean only (linked into the driver).
-/
import Relic.Base.Bytes
import Relic.Model.Der
namespace Relic.Ident
open Relic

def ascii (s : String) : Bytes := s.toList.map fun c => UInt8.ofNat c.toNat

/-! ## 1. publicKeyToken -/

/-- base-256 digits of `n`, least significant first, none for 0 -/
def natLE (n : Nat) : Bytes :=
  if h : n = 0 then [] else UInt8.ofNat (n % 256) :: natLE (n / 256)
termination_by n
decreasing_by omega

/-- `(*big.Int).Bytes()`: minimal big-endian magnitude (empty for 0) -/
def natBE (n : Nat) : Bytes := (natLE n).reverse

/-- `bigIntToLE`: `x.Bytes()` with the swap loop applied -/
def bigIntToLE (n : Nat) : Bytes := (natBE n).reverse

/-- `binary.Write(LittleEndian, snkHeader{…})`: no padding, `uintN(v)` conversions truncate -/
def snkHeader (pubAlg hashAlg blobSize keyType version reserved pubAlg2 : Nat) : Bytes :=
  leBytes 4 pubAlg ++ leBytes 4 hashAlg ++ leBytes 4 blobSize ++ leBytes 1 keyType ++ leBytes 1 version
    ++ leBytes 2 reserved ++ leBytes 4 pubAlg2

def calgRsaSign : Nat := 0x2400
def calgSha1 : Nat := 0x8004
def calgEcdsa : Nat := 0x2203
def bcryptRsaPubMagic : Nat := 0x31415352
def snkRsaPub : Nat := 0x06
def snkRsaVersion : Nat := 0x02

/-- the `*rsa.PublicKey` case of `PublicKeyToSnk` (`e` = `k.E`, assumed non-negative) -/
def snkRsa (n e : Nat) : Bytes :=
  let modulus := bigIntToLE n
  snkHeader calgRsaSign calgSha1 (20 + modulus.length) snkRsaPub snkRsaVersion 0 calgRsaSign
    ++ leBytes 4 bcryptRsaPubMagic ++ leBytes 4 (8 * modulus.length) ++ leBytes 4 e ++ modulus

/-- the `*ecdsa.PublicKey` case: `x := k.X.Bytes()`, `y := k.Y.Bytes()` (minimal, *not* padded to the curve size) -/
def snkEcdsa (magic x y : Nat) : Bytes :=
  let xb := natBE x
  let yb := natBE y
  snkHeader calgEcdsa calgSha1 (12 + 2 * xb.length) snkRsaPub snkRsaVersion 0 calgEcdsa
    ++ leBytes 4 magic ++ leBytes 4 xb.length ++ xb ++ yb

inductive PubKey where
  | rsa (n e : Nat)
  | ec (bits : Nat) (x y : Nat)      -- bits: 256 / 384 / 521, anything else = another curve
  | other                            -- ed25519, DSA, …
  deriving Repr, DecidableEq

def ecMagic (bits : Nat) : Option Nat :=
  if bits = 256 then some 0x31534345 else if bits = 384 then some 0x33534345
  else if bits = 521 then some 0x35534345 else none

def publicKeyToSnk : PubKey → Res Bytes
  | .rsa n e => .ok (snkRsa n e)
  | .ec bits x y =>
    match ecMagic bits with
    | some m => .ok (snkEcdsa m x y)
    | none => .err "unsupported-curve"
  | .other => .err "unsupported-key"

/-- the loop `for i := 0; i < 8; i++ { token[i] = sum[19-i] }` on whatever the digest is -/
def tokenSel (sum : Bytes) : Res Bytes :=
  match (List.range 8).mapM (fun i => sum[19 - i]?) with
  | some t => .ok t
  | none => .panic "publictoken.go:PublicKeyToken:sum[19-i]"

/-! ## 2. SubjectKeyID stream (issuerKeyHash) -/

/-- contents of a DER INTEGER for a non-negative value -/
def derUInt (n : Nat) : Bytes :=
  let b := natBE n
  match b with
  | [] => [0]
  | h :: _ => if h.toNat ≥ 128 then 0 :: b else b

/-- what `SubjectKeyID` hashes: the right-aligned BIT STRING of the SubjectPublicKeyInfo –
    PKCS#1 `RSAPublicKey` for RSA, the uncompressed point for the NIST curves -/
def skidStream : PubKey → Res Bytes
  | .rsa n e => .ok (Der.tlv 0x30 (Der.tlv 0x02 (derUInt n) ++ Der.tlv 0x02 (derUInt e)))
  | .ec bits x y =>
    match ecMagic bits with
    | some _ => let w := (bits + 7) / 8; .ok (4 :: (beBytes w x ++ beBytes w y))
    | none => .err "unsupported-curve"
  | .other => .err "unsupported-key"

/-! ## 3. distinguished names -/

inductive NameStyle where
  | openssl | ldap | msosco
  deriving Repr, DecidableEq

/-- an attribute value as `encoding/asn1` hands it over in an `interface{}` -/
inductive AVal where
  | str (s : Bytes)          -- `string` (bytes of the Go string; T61String may carry non-UTF-8)
  | oid (arcs : List Nat)    -- `asn1.ObjectIdentifier`: a `fmt.Stringer`
  | int (i : Int)            -- `int64`
  | other                    -- nil, []byte, BitString, …: printed as `<invalid>`
  deriving Repr, DecidableEq

structure ATV where
  oid : List Nat
  val : AVal
  deriving Repr, DecidableEq

abbrev RDN := List ATV
abbrev Name := List RDN

def decDigits (n : Nat) : Bytes :=
  if n < 10 then [UInt8.ofNat (48 + n)] else decDigits (n / 10) ++ [UInt8.ofNat (48 + n % 10)]
termination_by n
decreasing_by omega

/-- `ObjectIdentifier.String()` -/
def dotted : List Nat → Bytes
  | [] => []
  | [a] => decDigits a
  | a :: b :: r => decDigits a ++ 46 :: dotted (b :: r)

/-- `fmt.Sprint(int64)` -/
def intDec (i : Int) : Bytes :=
  if i < 0 then 45 :: decDigits i.natAbs else decDigits i.toNat

def uid : List Nat := [0, 9, 2342, 19200300, 100, 1, 1]
def dcOid : List Nat := [0, 9, 2342, 19200300, 100, 1, 25]
def emailOid : List Nat := [1, 2, 840, 113549, 1, 9, 1]

def nameStyleLdap : List (List Nat × Bytes) := [
  ([2, 5, 4, 3], ascii "CN"), ([2, 5, 4, 4], ascii "surname"), ([2, 5, 4, 5], ascii "serialNumber"),
  ([2, 5, 4, 6], ascii "C"), ([2, 5, 4, 7], ascii "L"), ([2, 5, 4, 8], ascii "ST"), ([2, 5, 4, 9], ascii "street"),
  ([2, 5, 4, 10], ascii "O"), ([2, 5, 4, 11], ascii "OU"), ([2, 5, 4, 12], ascii "title"),
  ([2, 5, 4, 13], ascii "description"), ([2, 5, 4, 17], ascii "postalCode"), ([2, 5, 4, 18], ascii "postOfficeBox"),
  ([2, 5, 4, 20], ascii "telephoneNumber"), ([2, 5, 4, 42], ascii "givenName"), ([2, 5, 4, 43], ascii "initials"),
  (uid, ascii "UID"), (dcOid, ascii "dc"), (emailOid, ascii "emailAddress")]

def nameStyleMsOsco : List (List Nat × Bytes) := [
  ([2, 5, 4, 3], ascii "CN"), ([2, 5, 4, 7], ascii "L"), ([2, 5, 4, 10], ascii "O"), ([2, 5, 4, 11], ascii "OU"),
  (emailOid, ascii "E"), ([2, 5, 4, 6], ascii "C"), ([2, 5, 4, 8], ascii "S"), ([2, 5, 4, 9], ascii "STREET"),
  ([2, 5, 4, 12], ascii "T"), ([2, 5, 4, 42], ascii "G"), ([2, 5, 4, 43], ascii "I"), ([2, 5, 4, 4], ascii "SN"),
  ([2, 5, 4, 5], ascii "SERIALNUMBER"), (uid, ascii "UID"), (dcOid, ascii "DC"), ([2, 5, 4, 13], ascii "Description"),
  ([2, 5, 4, 17], ascii "PostalCode"), ([2, 5, 4, 18], ascii "POBox"), ([2, 5, 4, 20], ascii "Phone")]

def lookupName : List (List Nat × Bytes) → List Nat → Option Bytes
  | [], _ => none
  | (t, n) :: rest, oid => if t = oid then some n else lookupName rest oid

def styleTable : NameStyle → List (List Nat × Bytes)
  | .msosco => nameStyleMsOsco
  | _ => nameStyleLdap

def stylePrefix : NameStyle → Bytes
  | .msosco => ascii "OID."
  | _ => []

/-- `attName`: first table entry whose OID is equal, else `defaultPrefix + t.String()` -/
def attName (style : NameStyle) (oid : List Nat) : Bytes :=
  match lookupName (styleTable style) oid with
  | some n => n
  | none => stylePrefix style ++ dotted oid

def invalidName : Bytes := ascii "<invalid>"

/-- `strings.ReplaceAll(s, string(b), string(by'))` for a one-byte pattern -/
def replaceByte (b : UInt8) (by' : Bytes) (s : Bytes) : Bytes :=
  s.flatMap fun c => if c = b then by' else [c]

/-- the cut-set of `strings.IndexAny(value, ",+=\n<>#;'\"")` -/
def quoteSet : Bytes := [44, 43, 61, 10, 60, 62, 35, 59, 39, 34]

def needsQuote (v : Bytes) : Bool :=
  v.isEmpty || v.head? == some 32 || v.getLast? == some 32 || v.any (fun c => quoteSet.contains c)

/-- the `NameStyleLdap, NameStyleMsOsco` arm of `attValue` -/
def quoteValue (v : Bytes) : Bytes :=
  let v' := replaceByte 34 [34, 34] v
  if needsQuote v then 34 :: (v' ++ [34]) else v'

def styleValue (style : NameStyle) (v : Bytes) : Bytes :=
  match style with
  | .openssl => replaceByte 47 [92, 47] v
  | _ => quoteValue v

def attValue (style : NameStyle) : AVal → Bytes
  | .str s => styleValue style s
  | .oid a => styleValue style (dotted a)
  | .int i => styleValue style (intDec i)
  | .other => invalidName

def fmtATV (style : NameStyle) (a : ATV) : Bytes :=
  attName style a.oid ++ 61 :: attValue style a.val

/-- items written one after the other, `sep` before every item but the first (`if j > 0 { WriteString(sep) }`) -/
def joinSep (sep : Bytes) : List Bytes → Bytes
  | [] => []
  | [x] => x
  | x :: y :: r => x ++ sep ++ joinSep sep (y :: r)

def sepATV : Bytes := [32, 43, 32]    -- " + "
def sepRDN : Bytes := [44, 32]        -- ", "

def fmtRDN (style : NameStyle) (r : RDN) : Bytes := joinSep sepATV (r.map (fmtATV style))

/-- `FormatPkixName` after a successful `asn1.Unmarshal` -/
def formatParsed (style : NameStyle) (seq : Name) : Bytes :=
  match style with
  | .openssl => seq.flatMap fun rdn => rdn.flatMap fun a => 47 :: fmtATV style a
  | _ => joinSep sepRDN (seq.reverse.map (fmtRDN style))     -- "Per RFC 2253 2.1, reverse the order"

/-! ### what `asn1.Unmarshal(der, &pkix.RDNSequence)` makes of the DER -/

/-- `parseObjectIdentifier` + `parseBase128Int`, one pass: (`shifted`, accumulator, arcs so far reversed) -/
def oidLoop : Bytes → Nat → Nat → List Nat → Option (List Nat)
  | [], sh, _, arcs => if sh = 0 then some arcs.reverse else none                 -- truncated base 128 integer
  | b :: bs, sh, acc, arcs =>
    if sh = 5 then none                                                           -- base 128 integer too large
    else if sh = 0 ∧ b = 0x80 then none                                           -- not minimally encoded
    else
      let acc' := acc * 128 + b.toNat % 128
      if b.toNat < 128 then
        if acc' > 2147483647 then none else oidLoop bs 0 0 (acc' :: arcs)
      else oidLoop bs (sh + 1) acc' arcs

def parseOID (c : Bytes) : Option (List Nat) :=
  if c.isEmpty then none                                                          -- zero length OBJECT IDENTIFIER
  else
    match oidLoop c 0 0 [] with
    | some (v :: rest) => if v < 80 then some (v / 40 :: v % 40 :: rest) else some (2 :: (v - 80) :: rest)
    | _ => none

/-- `checkInteger` + `parseInt64` -/
def parseInt64 (c : Bytes) : Option Int :=
  match c with
  | [] => none
  | [b] => some (if b.toNat ≥ 128 then (b.toNat : Int) - 256 else b.toNat)
  | b0 :: b1 :: _ =>
    if (b0 = 0 ∧ b1.toNat < 128) ∨ (b0 = 0xff ∧ b1.toNat ≥ 128) then none
    else if c.length > 8 then none
    else some (if b0.toNat ≥ 128 then (beVal c : Int) - (256 ^ c.length : Nat) else beVal c)

/-- `isPrintable(b, allowAsterisk, allowAmpersand)` -/
def isPrintable (b : UInt8) : Bool :=
  let n := b.toNat
  (97 ≤ n && n ≤ 122) || (65 ≤ n && n ≤ 90) || (48 ≤ n && n ≤ 57) || (39 ≤ n && n ≤ 41) || (43 ≤ n && n ≤ 47)
    || n = 32 || n = 58 || n = 61 || n = 63 || n = 42 || n = 38

def isCont (b : UInt8) : Bool := 0x80 ≤ b.toNat && b.toNat ≤ 0xBF

/-- `utf8.Valid` -/
def utf8Valid : Bytes → Bool
  | [] => true
  | b :: rest =>
    let n := b.toNat
    if n < 0x80 then utf8Valid rest
    else if 0xC2 ≤ n ∧ n ≤ 0xDF then
      match rest with
      | c1 :: r => isCont c1 && utf8Valid r
      | _ => false
    else if 0xE0 ≤ n ∧ n ≤ 0xEF then
      match rest with
      | c1 :: c2 :: r =>
        let lo := if n = 0xE0 then 0xA0 else 0x80
        let hi := if n = 0xED then 0x9F else 0xBF
        (lo ≤ c1.toNat && c1.toNat ≤ hi) && isCont c2 && utf8Valid r
      | _ => false
    else if 0xF0 ≤ n ∧ n ≤ 0xF4 then
      match rest with
      | c1 :: c2 :: c3 :: r =>
        let lo := if n = 0xF0 then 0x90 else 0x80
        let hi := if n = 0xF4 then 0x8F else 0xBF
        (lo ≤ c1.toNat && c1.toNat ≤ hi) && isCont c2 && isCont c3 && utf8Valid r
      | _ => false
    else false

/-- `utf8.AppendRune` for a scalar value (`utf16.Decode` never hands over a surrogate) -/
def encRune (r : Nat) : Bytes :=
  if r < 0x80 then [UInt8.ofNat r]
  else if r < 0x800 then [UInt8.ofNat (0xC0 + r / 64), UInt8.ofNat (0x80 + r % 64)]
  else if r < 0x10000 then [UInt8.ofNat (0xE0 + r / 4096), UInt8.ofNat (0x80 + r / 64 % 64), UInt8.ofNat (0x80 + r % 64)]
  else [UInt8.ofNat (0xF0 + r / 262144), UInt8.ofNat (0x80 + r / 4096 % 64), UInt8.ofNat (0x80 + r / 64 % 64),
        UInt8.ofNat (0x80 + r % 64)]

/-- `string(utf16.Decode(units))` -/
def utf16ToUtf8 : List Nat → Bytes
  | [] => []
  | [u] => if 0xD800 ≤ u ∧ u < 0xE000 then encRune 0xFFFD else encRune u
  | u :: v :: rest =>
    if 0xD800 ≤ u ∧ u < 0xDC00 ∧ 0xDC00 ≤ v ∧ v < 0xE000 then
      encRune (0x10000 + (u - 0xD800) * 1024 + (v - 0xDC00)) ++ utf16ToUtf8 rest
    else if 0xD800 ≤ u ∧ u < 0xE000 then encRune 0xFFFD ++ utf16ToUtf8 (v :: rest)
    else encRune u ++ utf16ToUtf8 (v :: rest)

def pairs : Bytes → List Nat
  | a :: b :: rest => (a.toNat * 256 + b.toNat) :: pairs rest
  | _ => []

/-- `parseBMPString`: odd length is an error, one trailing NUL unit is stripped -/
def parseBMP (c : Bytes) : Option Bytes :=
  if c.length % 2 ≠ 0 then none
  else
    let c' := if c.length ≥ 2 ∧ c.getLast? = some 0 ∧ c.dropLast.getLast? = some 0 then c.dropLast.dropLast else c
    some (utf16ToUtf8 (pairs c'))

/-- `parseBitString`: only whether it is accepted matters (a `BitString` value prints as `<invalid>`) -/
def bitStringOk (c : Bytes) : Bool :=
  match c with
  | [] => false
  | p :: rest =>
    if p.toNat > 7 then false
    else if rest.isEmpty then p.toNat = 0
    else
      match rest.getLast? with
      | some l => l.toNat % 2 ^ p.toNat = 0
      | none => false

/-- the `interface{}` arm of `parseField`: identifier octet + content → the Go value.
    `err "invalid"` = `asn1.Unmarshal` fails; `err "unmodelled-time"` = UTCTime / GeneralizedTime (a `time.Time` is a
    Stringer whose text is outside this model). -/
def decodeVal (t : UInt8) (c : Bytes) : Res AVal :=
  if t.toNat ≥ 64 ∨ t.toNat / 32 % 2 = 1 then .ok .other           -- not universal, or constructed: left nil
  else
    let inv : Res AVal := .err "invalid"
    match t.toNat % 32 with
    | 19 => if c.all isPrintable then .ok (.str c) else inv
    | 18 => if c.all (fun b => (48 ≤ b.toNat && b.toNat ≤ 57) || b.toNat = 32) then .ok (.str c) else inv
    | 22 => if c.all (fun b => b.toNat < 128) then .ok (.str c) else inv
    | 20 => .ok (.str c)
    | 12 => if utf8Valid c then .ok (.str c) else inv
    | 30 => match parseBMP c with
            | some s => .ok (.str s)
            | none => inv
    | 2 => match parseInt64 c with
           | some i => .ok (.int i)
           | none => inv
    | 3 => if bitStringOk c then .ok .other else inv
    | 6 => match parseOID c with
           | some a => .ok (.oid a)
           | none => inv
    | 23 => .err "unmodelled-time"
    | 24 => .err "unmodelled-time"
    | _ => .ok .other                                              -- OCTET STRING ([]byte), and every tag left nil

/-- errors of the TLV layer: everything makes `Unmarshal` fail, except that a multi-byte tag in the *value* position
    is outside the model -/
def liftTLV {α} (valuePos : Bool) : Res α → Res α
  | .err e => if e = "hightag" ∧ valuePos then .err "unmodelled-hightag" else .err "invalid"
  | r => r

/-- one `AttributeTypeAndValue`: OBJECT IDENTIFIER, then ANY; further bytes of the SEQUENCE are ignored by Go -/
def parseATV (c : Bytes) : Res ATV :=
  match liftTLV false (Der.untlv c) with
  | .ok (t1, oc, r1) =>
    if t1 ≠ 0x06 then .err "invalid"
    else
      match parseOID oc with
      | none => .err "invalid"
      | some arcs =>
        match liftTLV true (Der.untlv r1) with
        | .ok (t2, vc, _) =>
          match decodeVal t2 vc with
          | .ok v => .ok ⟨arcs, v⟩
          | .err e => .err e
          | .panic s => .panic s
          | .diverge => .diverge
        | .err e => .err e
        | .panic s => .panic s
        | .diverge => .diverge
  | .err e => .err e
  | .panic s => .panic s
  | .diverge => .diverge

/-- `mapM` over the elements, every identifier octet must be `tag` -/
def parseEach {α} (tag : UInt8) (f : Bytes → Res α) : List Der.RawVal → Res (List α)
  | [] => .ok []
  | rv :: rest =>
    if rv.tag ≠ tag then .err "invalid"
    else
      match f rv.bytes with
      | .ok a =>
        match parseEach tag f rest with
        | .ok l => .ok (a :: l)
        | .err e => .err e
        | .panic s => .panic s
        | .diverge => .diverge
      | .err e => .err e
      | .panic s => .panic s
      | .diverge => .diverge

/-- all elements of a SEQUENCE OF / SET OF whose identifier octet must be `tag` (`parseSequenceOf`) -/
def parseElems {α} (tag : UInt8) (f : Bytes → Res α) (c : Bytes) : Res (List α) :=
  match liftTLV false (Der.splitTLVs c) with
  | .ok raws => parseEach tag f raws
  | .err e => .err e
  | .panic s => .panic s
  | .diverge => .diverge

/-- `asn1.Unmarshal(der, &seq)` for `seq pkix.RDNSequence`; trailing bytes after the SEQUENCE are ignored by the caller -/
def parseName (der : Bytes) : Res Name :=
  match liftTLV false (Der.untlv der) with
  | .ok (t, c, _) =>
    if t ≠ 0x30 then .err "invalid"
    else parseElems 0x31 (parseElems 0x30 parseATV) c
  | .err e => .err e
  | .panic s => .panic s
  | .diverge => .diverge

/-- `FormatPkixName(der, style)` -/
def formatPkixName (style : NameStyle) (der : Bytes) : Res Bytes :=
  match parseName der with
  | .ok seq => .ok (formatParsed style seq)
  | .err "invalid" => .ok invalidName
  | .err e => .err e
  | .panic s => .panic s
  | .diverge => .diverge

/-! ## 4. the identity fields of a signed manifest -/

/-- what `appmanifest.Sign` needs to know about the signing certificate -/
structure Cert where
  key : PubKey                 -- cert.Leaf.PublicKey
  subject : Bytes              -- cert.Leaf.RawSubject
  issuer : Bytes               -- cert.Leaf.RawIssuer
  deriving Repr, DecidableEq

/-- one of the certificates a `certloader.Certificate` was loaded with / one of the certificates carried by a signature -/
structure LCert where
  subject : Bytes              -- RawSubject
  issuer : Bytes               -- RawIssuer
  key : PubKey
  isLeaf : Bool                -- `cert == s.Leaf` (pointer equality in `Chain()`); irrelevant once carried
  deriving Repr, DecidableEq

/-- `certloader.Certificate`: leaf + the certificates it was loaded with, in order -/
structure Loaded where
  leaf : Cert
  chain : List LCert
  deriving Repr, DecidableEq

/-- `(*Certificate).Issuer()`: first certificate whose RawSubject equals the leaf's RawIssuer -/
def issuerCert (c : Loaded) : Option LCert :=
  c.chain.find? (fun e => e.subject = c.leaf.issuer)

def issuerOf (c : Loaded) : Option PubKey := (issuerCert c).map (·.key)

/-- the loop of `(*Certificate).Chain()`: self-signed certificates after the first position and the leaf itself are left out -/
def chainRest : Nat → List LCert → List LCert
  | _, [] => []
  | i, x :: rest =>
    if (i > 0 ∧ x.issuer = x.subject) ∨ x.isLeaf then chainRest (i + 1) rest else x :: chainRest (i + 1) rest

/-- `(*Certificate).Chain()`: the leaf first -/
def chainOf (c : Loaded) : List LCert :=
  ⟨c.leaf.subject, c.leaf.issuer, c.leaf.key, true⟩ :: chainRest 0 c.chain

/-- an etree attribute: namespace prefix (`Space`), local key, value -/
structure XAttr where
  space : String
  key : String
  value : String
  deriving Repr, DecidableEq

/-- the identity-relevant part of a manifest: attributes of the first top-level `assemblyIdentity`
    (`none` = there is no such element), the top-level `publisherIdentity` elements (unprefixed `name` and `issuerKeyHash`
    attributes) in order, the text of `as:X509SubjectName` in the licence (`none` = no such element);
    `others` stands for everything else under the root. -/
structure Manifest (α : Type) where
  asi : Option (List XAttr)
  publishers : List (String × String)
  licSubject : Option String
  others : α

/-- `Element.CreateAttr(k, v)` for an unprefixed `k`: replace the value of the first attribute with an empty prefix and
    that key, else append -/
def createAttr (k v : String) : List XAttr → List XAttr
  | [] => [⟨"", k, v⟩]
  | a :: rest => if a.space = "" ∧ a.key = k then ⟨"", k, v⟩ :: rest else a :: createAttr k v rest

/-- identity strings of a certificate, given SHA-1 as a function and hex as a function -/
structure Ident where
  token : String
  name : String
  issuerKeyHash : String
  deriving Repr, DecidableEq

def hexStr (b : Bytes) : String := String.ofList (b.flatMap hexOfByte)

def bytesToString (b : Bytes) : String := String.ofList (b.map fun c => Char.ofNat c.toNat)

/-- `PublicKeyToken` with the hash as a parameter -/
def publicKeyToken (sha1 : Bytes → Bytes) (k : PubKey) : Res String :=
  match publicKeyToSnk k with
  | .ok snk =>
    match tokenSel (sha1 snk) with
    | .ok t => .ok (hexStr t)
    | .err e => .err e
    | .panic s => .panic s
    | .diverge => .diverge
  | .err e => .err e
  | .panic s => .panic s
  | .diverge => .diverge

/-- `PublisherIdentity` -/
def publisherIdentity (sha1 : Bytes → Bytes) (c : Loaded) : Res (String × String) :=
  match issuerOf c with
  | none => .err "no-issuer"
  | some ik =>
    match skidStream ik with
    | .ok s =>
      match formatPkixName .msosco c.leaf.subject with
      | .ok n => .ok (bytesToString n, hexStr (sha1 s))
      | .err e => .err e
      | .panic p => .panic p
      | .diverge => .diverge
    | .err e => .err e
    | .panic p => .panic p
    | .diverge => .diverge

/-- the identity part of `appmanifest.Sign`: `setAssemblyIdentity` then `setPublisherIdentity` -/
def signIdent {α} (sha1 : Bytes → Bytes) (m : Manifest α) (c : Loaded) : Res (Manifest α) :=
  match publicKeyToken sha1 c.leaf.key with
  | .ok token =>
    match m.asi with
    | none => .err "no-assemblyIdentity"
    | some attrs =>
      match publisherIdentity sha1 c with
      | .ok (name, ikh) =>
        .ok { asi := some (createAttr "publicKeyToken" token attrs),
              publishers := [(name, ikh)],          -- RemoveElements(root, "publisherIdentity"); CreateElement
              licSubject := some name,              -- makeLicense: as:X509SubjectName (the old Signature is removed)
              others := m.others }
      | .err e => .err e
      | .panic p => .panic p
      | .diverge => .diverge
  | .err e => .err e
  | .panic p => .panic p
  | .diverge => .diverge

/-- `Element.SelectAttrValue(k, "")` for an unprefixed `k`: the first attribute with that local key, *whatever its
    prefix* (etree's `spaceMatch("", _)` is always true).  What `Sign` / `Verify` used before the repair. -/
def attrValueOrig (k : String) : List XAttr → String
  | [] => ""
  | a :: rest => if a.key = k then a.value else attrValueOrig k rest

/-- `unprefixedAttr` (repaired code): the attribute `CreateAttr(k)` writes – empty prefix and that key -/
def attrValue (k : String) : List XAttr → String
  | [] => ""
  | a :: rest => if a.space = "" ∧ a.key = k then a.value else attrValue k rest

/-- the identity comparison of the original `appmanifest.Verify` once both XML signatures have checked out under key
    `k`: only the token is compared, and it is looked up by local name -/
def verifyIdentOrig {α} (sha1 : Bytes → Bytes) (m : Manifest α) (k : PubKey) : Res Unit :=
  match m.asi with
  | none => .err "missing-assemblyIdentity"
  | some attrs =>
    match publicKeyToken sha1 k with
    | .ok token => if attrValueOrig "publicKeyToken" attrs ≠ token then .err "publicKeyToken-mismatch" else .ok ()
    | .err e => .err e
    | .panic p => .panic p
    | .diverge => .diverge

/-- does one of the carried certificates named like the leaf's issuer have this key hash? -/
def issuerHashMatches (sha1 : Bytes → Bytes) (ikh : String) (c : LCert) : Bool :=
  match skidStream c.key with
  | .ok s => hexStr (sha1 s) = ikh
  | _ => false

/-- `checkPublisher` (repaired `Verify`) for the leaf found among the carried certificates -/
def checkPublisher {α} (sha1 : Bytes → Bytes) (m : Manifest α) (leaf : LCert) (carried : List LCert) : Res Unit :=
  match m.publishers with
  | [] => .err "publisher-missing"
  | _ :: _ :: _ => .err "publisher-multiple"
  | [(name, ikh)] =>
    match formatPkixName .msosco leaf.subject with
    | .ok n =>
      if name ≠ bytesToString n then .err "publisher-name-mismatch"
      else
        match m.licSubject with
        | none => .err "license-subject-missing"
        | some s =>
          if s ≠ bytesToString n then .err "license-subject-mismatch"
          else
            let cands := carried.filter (fun c => c.subject = leaf.issuer)
            if cands.isEmpty then .ok ()                 -- no certificate named like the issuer: the field cannot be judged
            else if cands.any (issuerHashMatches sha1 ikh) then .ok ()
            else .err "publisher-ikh-mismatch"
    | .err e => .err e
    | .panic p => .panic p
    | .diverge => .diverge

/-- the identity comparisons of the repaired `appmanifest.Verify` once both XML signatures have checked out under key
    `k`; `carried` = the certificates of the licence signature's X509Data (`Sign` puts `Chain()` there), the leaf is the first with key `k`
    (`Signature.Leaf`) -/
def verifyIdent {α} (sha1 : Bytes → Bytes) (m : Manifest α) (k : PubKey) (carried : List LCert) : Res Unit :=
  match m.asi with
  | none => .err "missing-assemblyIdentity"
  | some attrs =>
    match publicKeyToken sha1 k with
    | .ok token =>
      if attrValue "publicKeyToken" attrs ≠ token then .err "publicKeyToken-mismatch"
      else
        match carried.find? (fun c => c.key = k) with
        | none => .err "no-leaf"
        | some leaf => checkPublisher sha1 m leaf carried
    | .err e => .err e
    | .panic p => .panic p
    | .diverge => .diverge

/-- `xmldsig.parsePublicKey` (lib/xmldsig/verify.go) before the repair: the `Exponent` of an `RSAKeyValue` was refused
    when `ebig.BitLen() > 30`, while `Sign` writes any exponent (both XML signatures of a manifest carry a KeyValue) -/
def xmlKeyValueOkOrig : PubKey → Bool
  | .rsa _ e => e < 2 ^ 30
  | _ => true

/-- repaired: `ebig.BitLen() > 31` is refused, i.e. exactly the exponents crypto/rsa refuses too -/
def xmlKeyValueOk : PubKey → Bool
  | .rsa _ e => e < 2 ^ 31
  | _ => true

/-- crypto/rsa `checkPub`: public exponents from 2 to 2^31-1 -/
def rsaUsable : PubKey → Bool
  | .rsa _ e => 2 ≤ e ∧ e < 2 ^ 31
  | _ => true

end Relic.Ident

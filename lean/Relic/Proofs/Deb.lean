/-
  Relic.Proofs.Deb — the reader of `Relic.Model.Deb` on archives whose members are all complete ("tight"):
  `parse_cons` (one complete member in front of anything), `parse_append`, `parse_replace` (one member exchanged).
-/
import Relic.Model.Deb
namespace Relic.Deb
open Relic

theorem adv_ge (s : Int) : 60 ≤ adv s := by
  unfold adv; split <;> omega

theorem adv_nonneg (s : Int) (h : 0 ≤ s) : adv s = 60 + s.toNat + s.toNat % 2 := by
  unfold adv; simp [h]

/-- sizes non-negative and the advances add up to the length: every member is complete, padding included -/
def Tight (rest : Bytes) (es : List Entry) : Prop := (∀ e ∈ es, 0 ≤ e.size) ∧ advSum es = rest.length

theorem fld_append (A B : Bytes) (lo n : Nat) (h : lo + n ≤ A.length) : fld (A ++ B) lo n = fld A lo n := by
  unfold fld
  rw [List.drop_append_of_le_length (by omega), List.take_append_of_le_length (by simp [List.length_drop]; omega)]

theorem fld_take (A : Bytes) (k lo n : Nat) (h : lo + n ≤ k) : fld (A.take k) lo n = fld A lo n := by
  unfold fld
  rw [List.drop_take, List.take_take]
  congr 1
  omega

/-- the entry the reader makes of the first 60 bytes -/
def entryAt (A : Bytes) : Entry := ⟨A.take 60, hdrName A, hdrSize A, (A.drop 60).take (hdrSize A).toNat⟩

theorem parse_succ (n : Nat) (A : Bytes) (h60 : 60 ≤ A.length) (ho : octalPanics A = false) :
    parse (n + 1) A = (entryAt A :: (parse n (A.drop (adv (hdrSize A)))).1, (parse n (A.drop (adv (hdrSize A)))).2) := by
  rw [parse]
  have h0 : ¬ A.length = 0 := by omega
  have h1 : ¬ A.length < 60 := by omega
  simp only [h0, h1, ho, if_false, Bool.false_eq_true, entryAt]

/-- taking apart a non-empty result -/
theorem parse_uncons (n : Nat) (A : Bytes) (e : Entry) (es : List Entry) (s : Stop) (hp : parse n A = (e :: es, s)) :
    ∃ n', n = n' + 1 ∧ 60 ≤ A.length ∧ octalPanics A = false ∧ e = entryAt A ∧
      parse n' (A.drop (adv (hdrSize A))) = (es, s) := by
  cases n with
  | zero => simp [parse] at hp
  | succ n' =>
    refine ⟨n', rfl, ?_⟩
    rw [parse] at hp
    by_cases h0 : A.length = 0
    · simp [h0] at hp
    by_cases h1 : A.length < 60
    · simp [h0, h1] at hp
    by_cases h2 : octalPanics A = true
    · simp [h0, h1, h2] at hp
    have h2' : octalPanics A = false := by simpa using h2
    rw [h2'] at hp
    simp only [h0, h1, if_false, Bool.false_eq_true] at hp
    refine ⟨by omega, h2', ?_, ?_⟩
    · have := congrArg Prod.fst hp
      simp only [List.cons.injEq] at this
      exact this.1.symm
    · have a := congrArg Prod.fst hp
      have b := congrArg Prod.snd hp
      simp only [List.cons.injEq] at a
      exact Prod.ext a.2 b

theorem parse_nil (n : Nat) (A : Bytes) (hp : parse n A = ([], .eof)) : A = [] ∧ 0 < n := by
  cases n with
  | zero => simp [parse] at hp
  | succ n' =>
    rw [parse] at hp
    by_cases h0 : A.length = 0
    · exact ⟨List.eq_nil_of_length_eq_zero h0, by omega⟩
    by_cases h1 : A.length < 60
    · simp [h0, h1] at hp
    by_cases h2 : octalPanics A = true
    · simp [h0, h1, h2] at hp
    simp [h0, h1, h2] at hp

theorem parse_empty (n : Nat) : parse (n + 1) [] = ([], .eof) := by
  rw [parse]; simp

/-- header-derived values only look at the first 60 bytes -/
theorem hdr_stable (A X : Bytes) (k : Nat) (hk : 60 ≤ k) (hA : k ≤ A.length) :
    hdrName (A.take k ++ X) = hdrName A ∧ hdrSize (A.take k ++ X) = hdrSize A ∧
    octalPanics (A.take k ++ X) = octalPanics A ∧ (A.take k ++ X).take 60 = A.take 60 := by
  have hl : (A.take k).length = k := by simp [List.length_take]; omega
  refine ⟨?_, ?_, ?_, ?_⟩
  · unfold hdrName; rw [fld_append _ _ _ _ (by omega), fld_take _ _ _ _ (by omega)]
  · unfold hdrSize; rw [fld_append _ _ _ _ (by omega), fld_take _ _ _ _ (by omega)]
  · unfold octalPanics; rw [fld_append _ _ _ _ (by omega), fld_take _ _ _ _ (by omega)]
  · rw [List.take_append_of_le_length (by omega), List.take_take]; congr 1; omega

/-- **parse_cons.** One complete member in front of anything: the reader yields that member and goes on behind it. -/
theorem parse_cons (n : Nat) (A X : Bytes) (h60 : 60 ≤ A.length) (ho : octalPanics A = false) (hs : 0 ≤ hdrSize A)
    (hA : adv (hdrSize A) ≤ A.length) :
    parse (n + 1) (A.take (adv (hdrSize A)) ++ X) = (entryAt A :: (parse n X).1, (parse n X).2) := by
  have hk := adv_ge (hdrSize A)
  obtain ⟨e1, e2, e3, e4⟩ := hdr_stable A X (adv (hdrSize A)) hk hA
  have hl : (A.take (adv (hdrSize A))).length = adv (hdrSize A) := by simp [List.length_take]; omega
  rw [parse_succ n _ (by simp [List.length_append]; omega) (by rw [e3]; exact ho)]
  rw [e2]
  have hd : (A.take (adv (hdrSize A)) ++ X).drop (adv (hdrSize A)) = X := by
    rw [List.drop_append_of_le_length (by omega)]
    simp [List.drop_eq_nil_of_le, hl]
  rw [hd]
  have he : entryAt (A.take (adv (hdrSize A)) ++ X) = entryAt A := by
    unfold entryAt
    rw [e1, e2, e4]
    congr 1
    have hb : 60 + (hdrSize A).toNat ≤ adv (hdrSize A) := by rw [adv_nonneg _ hs]; omega
    rw [List.drop_append_of_le_length (by omega), List.take_append_of_le_length (by simp [List.length_drop]; omega)]
    rw [List.drop_take, List.take_take]
    congr 1
    omega
  rw [he]

theorem tight_cons {A : Bytes} {e : Entry} {es : List Entry} (h : Tight A (e :: es)) :
    0 ≤ e.size ∧ adv e.size ≤ A.length ∧ Tight (A.drop (adv e.size)) es := by
  obtain ⟨h1, h2⟩ := h
  simp only [advSum] at h2
  refine ⟨h1 e (by simp), by omega, fun x hx => h1 x (by simp [hx]), ?_⟩
  simp [List.length_drop]; omega

/-- **parse_append.** A tight archive followed by more bytes: its members, then whatever the rest parses to. -/
theorem parse_append (es : List Entry) : ∀ (n : Nat) (A B : Bytes), parse n A = (es, .eof) → Tight A es →
    ∀ k m, (A ++ B).length < k → B.length < m →
    parse k (A ++ B) = (es ++ (parse m B).1, (parse m B).2) := by
  induction es with
  | nil =>
    intro n A B hp _ k m hk hm
    obtain ⟨rfl, _⟩ := parse_nil n A hp
    simp only [List.nil_append]
    exact Prod.ext (by rw [parse_fuel_aux k m B (by simpa using hk) hm]) (by rw [parse_fuel_aux k m B (by simpa using hk) hm])
  | cons e es ih =>
    intro n A B hp ht k m hk hm
    obtain ⟨n', rfl, h60, ho, he, hp'⟩ := parse_uncons n A e es .eof hp
    obtain ⟨hs, hA, ht'⟩ := tight_cons ht
    rw [he] at hs hA ht'
    simp only [entryAt] at hs hA ht'
    have hsplit : A ++ B = A.take (adv (hdrSize A)) ++ (A.drop (adv (hdrSize A)) ++ B) := by
      rw [← List.append_assoc, List.take_append_drop]
    have hk' := adv_ge (hdrSize A)
    cases k with
    | zero => omega
    | succ k' =>
      rw [hsplit, parse_cons k' A _ h60 ho hs hA]
      have := ih n' (A.drop (adv (hdrSize A))) B hp' ht' k' m
        (by simp [List.length_append, List.length_drop] at hk ⊢; omega) hm
      rw [this, he]
      rfl
where
  parse_fuel_aux : ∀ (n m : Nat) (rest : Bytes), rest.length < n → rest.length < m → parse n rest = parse m rest := by
    intro n
    induction n with
    | zero => intro m rest h; omega
    | succ n ih =>
      intro m rest hn hm
      cases m with
      | zero => omega
      | succ m =>
        rw [parse, parse]
        by_cases h0 : rest.length = 0
        · simp [h0]
        by_cases h1 : rest.length < 60
        · simp [h0, h1]
        by_cases h2 : octalPanics rest = true
        · simp [h0, h1, h2]
        simp only [h0, h1, h2, if_false]
        have hk := adv_ge (hdrSize rest)
        rw [ih m (rest.drop (adv (hdrSize rest))) (by simp [List.length_drop]; omega) (by simp [List.length_drop]; omega)]

theorem parse_fuel (n m : Nat) (rest : Bytes) (hn : rest.length < n) (hm : rest.length < m) : parse n rest = parse m rest :=
  parse_append.parse_fuel_aux n m rest hn hm

/-- the reader never runs out of fuel -/
theorem parse_no_fuel : ∀ (n : Nat) (rest : Bytes), rest.length < n → (parse n rest).2 ≠ .fuel := by
  intro n
  induction n with
  | zero => intro rest h; omega
  | succ n ih =>
    intro rest hn
    rw [parse]
    by_cases h0 : rest.length = 0
    · simp [h0]
    by_cases h1 : rest.length < 60
    · simp [h0, h1]
    by_cases h2 : octalPanics rest = true
    · simp [h0, h1, h2]
    simp only [h0, h1, h2, if_false]
    have hk := adv_ge (hdrSize rest)
    exact ih _ (by simp [List.length_drop]; omega)

theorem tight_append {A B : Bytes} {es1 es2 : List Entry} (h1 : Tight A es1) (h2 : Tight B es2) : Tight (A ++ B) (es1 ++ es2) := by
  refine ⟨fun e he => ?_, ?_⟩
  · rcases List.mem_append.mp he with h | h
    · exact h1.1 e h
    · exact h2.1 e h
  · have : ∀ (l1 l2 : List Entry), advSum (l1 ++ l2) = advSum l1 + advSum l2 := by
      intro l1 l2; induction l1 with
      | nil => simp [advSum]
      | cons a l ih => simp [advSum, ih]; omega
    rw [this, h1.2, h2.2, List.length_append]

theorem advSum_append (l1 l2 : List Entry) : advSum (l1 ++ l2) = advSum l1 + advSum l2 := by
  induction l1 with
  | nil => simp [advSum]
  | cons a l ih => simp [advSum, ih]; omega

/-- more fuel does not change a result that did not run out of fuel -/
theorem parse_fuel_mono : ∀ (n : Nat) (rest : Bytes) (es : List Entry) (s : Stop), parse n rest = (es, s) → s ≠ .fuel →
    ∀ m, n ≤ m → parse m rest = (es, s) := by
  intro n
  induction n with
  | zero => intro rest es s h hs; simp [parse] at h; exact absurd h.2.symm hs
  | succ n ih =>
    intro rest es s hp hs m hm
    cases m with
    | zero => omega
    | succ m =>
      rw [parse] at hp ⊢
      by_cases h0 : rest.length = 0
      · simpa [h0] using hp
      by_cases h1 : rest.length < 60
      · simpa [h0, h1] using hp
      by_cases h2 : octalPanics rest = true
      · simpa [h0, h1, h2] using hp
      have h2' : octalPanics rest = false := by simpa using h2
      rw [h2'] at hp ⊢
      simp only [h0, h1, if_false, Bool.false_eq_true] at hp ⊢
      have a := congrArg Prod.fst hp
      have b := congrArg Prod.snd hp
      simp only at a b
      cases es with
      | nil => simp at a
      | cons e es =>
        simp only [List.cons.injEq] at a
        have := ih _ es s (Prod.ext a.2 b) hs m (by omega)
        rw [this, ← a.1]


/-- **parse_replace.** In a tight archive the member behind `es1` is exchanged for a blob that is itself a tight
    sequence of members: the reader yields `es1`, the blob's members, `es2`; nothing else moves. -/
theorem parse_replace (es1 : List Entry) : ∀ (n : Nat) (A : Bytes) (e : Entry) (es2 : List Entry),
    parse n A = (es1 ++ e :: es2, .eof) → Tight A (es1 ++ e :: es2) →
    ∀ (blob : Bytes) (nb : Nat) (bs : List Entry), parse nb blob = (bs, .eof) → Tight blob bs →
    ∀ k, (A.take (advSum es1) ++ blob ++ A.drop (advSum es1 + adv e.size)).length < k →
    parse k (A.take (advSum es1) ++ blob ++ A.drop (advSum es1 + adv e.size)) = (es1 ++ bs ++ es2, .eof) ∧
    Tight (A.take (advSum es1) ++ blob ++ A.drop (advSum es1 + adv e.size)) (es1 ++ bs ++ es2) := by
  induction es1 with
  | nil =>
    intro n A e es2 hp ht blob nb bs hb htb k hk
    simp only [List.nil_append] at hp ht
    obtain ⟨n', rfl, h60, ho, he, hp'⟩ := parse_uncons n A e es2 .eof hp
    obtain ⟨hs, hA, ht'⟩ := tight_cons ht
    have hsz : e.size = hdrSize A := by rw [he]; rfl
    rw [hsz] at ht' hA
    simp only [advSum, List.take_zero, List.nil_append, Nat.zero_add, hsz] at hk ⊢
    have hlen : (A.drop (adv (hdrSize A))).length < n' + A.length + 1 := by simp [List.length_drop]; omega
    have := parse_append bs nb blob (A.drop (adv (hdrSize A))) hb htb k (n' + A.length + 1) hk hlen
    rw [parse_fuel_mono n' _ _ _ hp' (by simp) (n' + A.length + 1) (by omega)] at this
    exact ⟨this, tight_append htb ht'⟩
  | cons e1 es1 ih =>
    intro n A e es2 hp ht blob nb bs hb htb k hk
    simp only [List.cons_append] at hp ht
    obtain ⟨n', rfl, h60, ho, he1, hp'⟩ := parse_uncons n A e1 _ .eof hp
    obtain ⟨hs, hA, ht'⟩ := tight_cons ht
    have hsz : e1.size = hdrSize A := by rw [he1]; rfl
    rw [hsz] at ht' hA hs
    have hk60 := adv_ge (hdrSize A)
    -- the file after the exchange = first member ++ (the rest after the exchange)
    have hshape : A.take (advSum (e1 :: es1)) ++ blob ++ A.drop (advSum (e1 :: es1) + adv e.size) =
        A.take (adv (hdrSize A)) ++ ((A.drop (adv (hdrSize A))).take (advSum es1) ++ blob ++
          (A.drop (adv (hdrSize A))).drop (advSum es1 + adv e.size)) := by
      simp only [advSum, hsz]
      have h1 : A.take (adv (hdrSize A) + advSum es1) = A.take (adv (hdrSize A)) ++ (A.drop (adv (hdrSize A))).take (advSum es1) :=
        List.take_add
      have h2 : A.drop (adv (hdrSize A) + advSum es1 + adv e.size) = (A.drop (adv (hdrSize A))).drop (advSum es1 + adv e.size) := by
        rw [List.drop_drop]; congr 1; omega
      rw [h1, h2]
      simp only [List.append_assoc]
    rw [hshape] at hk ⊢
    cases k with
    | zero => omega
    | succ k' =>
      have hl : (A.take (adv (hdrSize A))).length = adv (hdrSize A) := by simp [List.length_take]; omega
      obtain ⟨r1, r2⟩ := ih n' (A.drop (adv (hdrSize A))) e es2 hp' ht' blob nb bs hb htb k'
        (by simp only [List.length_append, hl] at hk; simp only [List.length_append]; omega)
      rw [parse_cons k' A _ h60 ho hs hA, r1, he1]
      refine ⟨rfl, ?_⟩
      have t1 : Tight (A.take (adv (hdrSize A))) [entryAt A] := by
        refine ⟨fun x hx => ?_, ?_⟩
        · simp at hx; rw [hx]; exact hs
        · simp [advSum, entryAt, hl]
      have := tight_append t1 r2
      simpa using this

end Relic.Deb

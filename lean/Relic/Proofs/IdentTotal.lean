/-
  Relic.Proofs.IdentTotal — the model of `FormatPkixName` never panics and never diverges, whatever the bytes.
-/
import Relic.Model.Ident
namespace Relic.Ident
open Relic Relic.Der

/-- the result is `ok` or `err` (no panic site, no divergence) -/
def safe {α} : Res α → Bool
  | .ok _ => true
  | .err _ => true
  | _ => false

theorem decLenLoop_safe : ∀ (k acc : Nat) (bs : Bytes), safe (decLenLoop k acc bs) = true := by
  intro k
  induction k with
  | zero => intro acc bs; simp [decLenLoop, safe]
  | succ k ih =>
    intro acc bs
    cases bs with
    | nil => simp [decLenLoop, safe]
    | cons b t =>
      simp only [decLenLoop]
      split
      · simp [safe]
      · split
        · simp [safe]
        · exact ih _ _

theorem decLen_safe (bs : Bytes) : safe (decLen bs) = true := by
  cases bs with
  | nil => simp [decLen, safe]
  | cons b t =>
    simp only [decLen]
    split
    · simp [safe]
    · split
      · simp [safe]
      · have := decLenLoop_safe (b.toNat % 128) 0 t
        cases h : decLenLoop (b.toNat % 128) 0 t with
        | ok p => obtain ⟨n, r⟩ := p; simp only []; split <;> simp [safe]
        | err e => simp [safe]
        | panic s => rw [h] at this; simp [safe] at this
        | diverge => rw [h] at this; simp [safe] at this

theorem untlv_safe (bs : Bytes) : safe (untlv bs) = true := by
  cases bs with
  | nil => simp [untlv, untlvWith, safe]
  | cons t r =>
    simp only [untlv, untlvWith]
    split
    · simp [safe]
    · have := decLen_safe r
      cases h : decLen r with
      | ok p => obtain ⟨n, r'⟩ := p; simp only []; split <;> simp [safe]
      | err e => simp [safe]
      | panic s => rw [h] at this; simp [safe] at this
      | diverge => rw [h] at this; simp [safe] at this

theorem splitTLVs_safe (bs : Bytes) : safe (splitTLVs bs) = true := by
  induction h : bs.length using Nat.strongRecOn generalizing bs with
  | _ n ih =>
    rw [splitTLVs]
    split
    · simp [safe]
    · have hs := untlv_safe bs
      split
      · rename_i t c rest hu
        have hlt := untlv_rest_lt bs t c rest hu
        have := ih rest.length (by omega) rest rfl
        cases hr : splitTLVs rest with
        | ok l => simp [safe]
        | err e => simp [safe]
        | panic s => rw [hr] at this; simp [safe] at this
        | diverge => rw [hr] at this; simp [safe] at this
      · simp [safe]
      · rename_i s hu; rw [hu] at hs; simp [safe] at hs
      · rename_i hu; rw [hu] at hs; simp [safe] at hs

theorem liftTLV_safe {α} (vp : Bool) (r : Res α) (h : safe r = true) : safe (liftTLV vp r) = true := by
  cases r with
  | ok a => simp [liftTLV, safe]
  | err e => simp only [liftTLV]; split <;> simp [safe]
  | panic s => simp [safe] at h
  | diverge => simp [safe] at h

theorem decodeVal_safe (t : UInt8) (c : Bytes) : safe (decodeVal t c) = true := by
  unfold decodeVal
  split
  · simp [safe]
  · simp only []
    split <;> (try split) <;> simp [safe]

theorem parseATV_safe (c : Bytes) : safe (parseATV c) = true := by
  unfold parseATV
  have h1 := liftTLV_safe false _ (untlv_safe c)
  cases hu : liftTLV false (untlv c) with
  | ok p =>
    obtain ⟨t1, oc, r1⟩ := p
    simp only []
    split
    · simp [safe]
    · cases parseOID oc with
      | none => simp [safe]
      | some arcs =>
        simp only []
        have h2 := liftTLV_safe true _ (untlv_safe r1)
        cases hv : liftTLV true (untlv r1) with
        | ok q =>
          obtain ⟨t2, vc, r2⟩ := q
          simp only []
          have h3 := decodeVal_safe t2 vc
          cases hd : decodeVal t2 vc with
          | ok v => simp [safe]
          | err e => simp [safe]
          | panic s => rw [hd] at h3; simp [safe] at h3
          | diverge => rw [hd] at h3; simp [safe] at h3
        | err e => simp [safe]
        | panic s => rw [hv] at h2; simp [safe] at h2
        | diverge => rw [hv] at h2; simp [safe] at h2
  | err e => simp [safe]
  | panic s => rw [hu] at h1; simp [safe] at h1
  | diverge => rw [hu] at h1; simp [safe] at h1

theorem parseEach_safe {α} (tag : UInt8) (f : Bytes → Res α) (hf : ∀ b, safe (f b) = true) :
    ∀ l : List RawVal, safe (parseEach tag f l) = true := by
  intro l
  induction l with
  | nil => simp [parseEach, safe]
  | cons rv rest ih =>
    simp only [parseEach]
    split
    · simp [safe]
    · have := hf rv.bytes
      cases h1 : f rv.bytes with
      | ok a =>
        simp only []
        cases h2 : parseEach tag f rest with
        | ok l => simp [safe]
        | err e => simp [safe]
        | panic s => rw [h2] at ih; simp [safe] at ih
        | diverge => rw [h2] at ih; simp [safe] at ih
      | err e => simp [safe]
      | panic s => rw [h1] at this; simp [safe] at this
      | diverge => rw [h1] at this; simp [safe] at this

theorem parseElems_safe {α} (tag : UInt8) (f : Bytes → Res α) (hf : ∀ b, safe (f b) = true) (c : Bytes) :
    safe (parseElems tag f c) = true := by
  unfold parseElems
  have h1 := liftTLV_safe false _ (splitTLVs_safe c)
  cases hu : liftTLV false (splitTLVs c) with
  | ok raws => exact parseEach_safe tag f hf raws
  | err e => simp [safe]
  | panic s => rw [hu] at h1; simp [safe] at h1
  | diverge => rw [hu] at h1; simp [safe] at h1

theorem parseName_safe (der : Bytes) : safe (parseName der) = true := by
  unfold parseName
  have h1 := liftTLV_safe false _ (untlv_safe der)
  cases hu : liftTLV false (untlv der) with
  | ok p =>
    obtain ⟨t, c, r⟩ := p
    dsimp only
    split
    · simp [safe]
    · exact parseElems_safe _ _ (fun b => parseElems_safe _ _ parseATV_safe b) c
  | err e => simp [safe]
  | panic s => rw [hu] at h1; simp [safe] at h1
  | diverge => rw [hu] at h1; simp [safe] at h1

/-- `FormatPkixName` returns a string for every input, or the input is outside the model (time value / multi-byte tag) -/
theorem formatPkixName_safe (style : NameStyle) (der : Bytes) : safe (formatPkixName style der) = true := by
  unfold formatPkixName
  have h1 := parseName_safe der
  cases hu : parseName der with
  | ok n => simp [safe]
  | err e => split <;> simp_all [safe]
  | panic s => rw [hu] at h1; simp [safe] at h1
  | diverge => rw [hu] at h1; simp [safe] at h1

end Relic.Ident
